(* C15 - renaming the values of a domain only renames the result.

   Formulation used throughout.  A renaming of a domain of size [n] is a list of
   positions [s] with [is_perm s n := Permutation s (seq 0 n)]; it acts on a vector by
   [perm d s v := map (fun i => nth i v d) s] (position [k] of the renamed vector holds
   the old entry number [nth k s]).  On vectors of model numbers the default is [None]
   ([pv s v = map (get v) s]); on lists of simplexes (conditional tables) it is
   [([], None)] ([pc]); a simplex is renamed by [ps s (b, u) = (pv s b, u)].
   All theorems are about ARBITRARY model operands (entries may be [None]); the only
   hypotheses are shape hypotheses (operands have the length of the domain). *)
From Coq Require Import Reals List Bool Lra Lia Permutation.
Import ListNotations.
From SL Require Import Model.Num Model.Vec Model.Mul Model.InstR Facts.RBase.
Open Scope R_scope.

(* ------------------------------------------------------------ renamings *)
Definition perm {X : Type} (d : X) (s : list nat) (v : list X) : list X :=
  map (fun i => nth i v d) s.
Definition is_perm (s : list nat) (n : nat) : Prop := Permutation s (seq 0 n).

Notation pv := (perm (None : RV)).
Notation RS := (list RV * RV)%type.
Notation pc := (perm (([], None) : RS)).
Definition ps (s : list nat) (c : RS) : RS := (pv s (fst c), snd c).

Lemma is_perm_lt s n : is_perm s n -> Forall (fun i => (i < n)%nat) s.
Proof.
  intros H. apply Forall_forall. intros i Hi.
  apply (Permutation_in _ H), in_seq in Hi. lia.
Qed.
Lemma is_perm_length s n : is_perm s n -> length s = n.
Proof. intros H. apply Permutation_length in H. now rewrite seq_length in H. Qed.
Lemma perm_length {X} (d : X) s v : length (perm d s v) = length s.
Proof. apply map_length. Qed.
Lemma is_perm_id n : is_perm (seq 0 n) n.
Proof. apply Permutation_refl. Qed.

Lemma map_nth_seq {X} (d : X) v : map (fun i => nth i v d) (seq 0 (length v)) = v.
Proof.
  induction v as [|x r IH]; [reflexivity|].
  cbn [length seq map nth]. f_equal. rewrite <- seq_shift, map_map. exact IH.
Qed.

Lemma perm_Permutation {X} (d : X) s n v :
  is_perm s n -> length v = n -> Permutation (perm d s v) v.
Proof.
  intros H L. unfold perm.
  eapply Permutation_trans; [apply Permutation_map, H|].
  rewrite <- L, map_nth_seq. apply Permutation_refl.
Qed.

Lemma nth_map2 {X Y Z} (f : X -> Y -> Z) d1 d2 d3 l1 l2 i :
  (i < length l1)%nat -> (i < length l2)%nat ->
  nth i (map2 f l1 l2) d3 = f (nth i l1 d1) (nth i l2 d2).
Proof.
  revert l2 i; induction l1 as [|x l1 IH]; intros [|y l2] [|i]; cbn [length map2 nth];
    intros H1 H2; try lia; auto. apply IH; lia.
Qed.
Lemma nth_map3 {X Y Z W} (f : X -> Y -> Z -> W) d1 d2 d3 d4 l1 l2 l3 i :
  (i < length l1)%nat -> (i < length l2)%nat -> (i < length l3)%nat ->
  nth i (map3 f l1 l2 l3) d4 = f (nth i l1 d1) (nth i l2 d2) (nth i l3 d3).
Proof.
  revert l2 l3 i; induction l1 as [|x l1 IH]; intros [|y l2] [|z l3] [|i];
    cbn [length map3 nth]; intros H1 H2 H3; try lia; auto. apply IH; lia.
Qed.
Lemma map3_length {X Y Z W} (f : X -> Y -> Z -> W) l1 l2 l3 :
  length (map3 f l1 l2 l3) = Nat.min (length l1) (Nat.min (length l2) (length l3)).
Proof. revert l2 l3; induction l1; destruct l2, l3; cbn; auto. Qed.

Lemma map2_map_same {W X Y Z} (f : X -> Y -> Z) (g : W -> X) (h : W -> Y) s :
  map2 f (map g s) (map h s) = map (fun i => f (g i) (h i)) s.
Proof. induction s; cbn; congruence. Qed.
Lemma map3_map_same {W X Y Z U} (f : X -> Y -> Z -> U) (g : W -> X) (h : W -> Y) (k : W -> Z) s :
  map3 f (map g s) (map h s) (map k s) = map (fun i => f (g i) (h i) (k i)) s.
Proof. induction s; cbn; congruence. Qed.

Lemma map_ext_Forall {X Y} (P : X -> Prop) (f g : X -> Y) l :
  Forall P l -> (forall x, P x -> f x = g x) -> map f l = map g l.
Proof. intros H E. induction H; cbn; [reflexivity|]. rewrite E, IHForall; auto. Qed.

Lemma perm_map2 {X Y Z} (f : X -> Y -> Z) d1 d2 d3 s n l1 l2 :
  Forall (fun i => (i < n)%nat) s -> length l1 = n -> length l2 = n ->
  map2 f (perm d1 s l1) (perm d2 s l2) = perm d3 s (map2 f l1 l2).
Proof.
  intros H L1 L2. unfold perm. rewrite map2_map_same.
  apply (map_ext_Forall _ _ _ _ H). intros i Hi. symmetry. apply nth_map2; lia.
Qed.
Lemma perm_map3 {X Y Z W} (f : X -> Y -> Z -> W) d1 d2 d3 d4 s n l1 l2 l3 :
  Forall (fun i => (i < n)%nat) s -> length l1 = n -> length l2 = n -> length l3 = n ->
  map3 f (perm d1 s l1) (perm d2 s l2) (perm d3 s l3) = perm d4 s (map3 f l1 l2 l3).
Proof.
  intros H L1 L2 L3. unfold perm. rewrite map3_map_same.
  apply (map_ext_Forall _ _ _ _ H). intros i Hi. symmetry. apply nth_map3; lia.
Qed.
Lemma perm_map {X Y} (f : X -> Y) d d' s n l :
  Forall (fun i => (i < n)%nat) s -> length l = n ->
  map f (perm d s l) = perm d' s (map f l).
Proof.
  intros H L. unfold perm. rewrite map_map.
  apply (map_ext_Forall _ _ _ _ H). intros i Hi.
  rewrite (nth_indep _ d' (f d)) by (rewrite map_length; lia). symmetry; apply map_nth.
Qed.

(* tabulations: [tab n F' = perm s (tab n F)] when [F' y = F (s y)] *)
Lemma perm_tab {X} (d : X) s n (F : nat -> X) :
  Forall (fun i => (i < n)%nat) s -> perm d s (tab n F) = map F s.
Proof.
  intros H. unfold perm, tab. apply (map_ext_Forall _ _ _ _ H). intros i Hi.
  rewrite (nth_indep _ d (F 0%nat)) by (rewrite map_length, seq_length; lia).
  rewrite map_nth, seq_nth by lia. reflexivity.
Qed.
Lemma tab_reindex {X} (d : X) s n (F F' : nat -> X) :
  is_perm s n -> (forall y, (y < n)%nat -> F' y = F (nth y s 0%nat)) ->
  tab n F' = perm d s (tab n F).
Proof.
  intros H E. rewrite (perm_tab d s n F (is_perm_lt _ _ H)).
  unfold tab. pose proof (map_nth_seq 0%nat s) as Es. rewrite (is_perm_length _ _ H) in Es.
  transitivity (map F (map (fun i => nth i s 0%nat) (seq 0 n))); [|now rewrite Es].
  rewrite map_map.
  apply map_ext_in. intros y Hy. apply in_seq in Hy. apply E; lia.
Qed.
Lemma tab_Permutation {X} s n (F : nat -> X) :
  is_perm s n -> Permutation (map F s) (tab n F).
Proof. intros H. unfold tab. now apply Permutation_map. Qed.
Lemma tab_length {X} n (F : nat -> X) : length (tab n F) = n.
Proof. unfold tab. now rewrite map_length, seq_length. Qed.
Lemma tab_ext {X} n (F G : nat -> X) :
  (forall y, (y < n)%nat -> F y = G y) -> tab n F = tab n G.
Proof. intros E. unfold tab. apply map_ext_in. intros y Hy. apply in_seq in Hy. apply E; lia. Qed.

Lemma get_pv s v y : (y < length s)%nat -> get (pv s v) y = get v (nth y s 0%nat).
Proof.
  intros H. unfold get, perm.
  rewrite (nth_indep _ None (nth 0%nat v None)) by (rewrite map_length; lia).
  apply (map_nth (fun i => nth i v None)).
Qed.
Lemma nth_in_range s n y : is_perm s n -> (y < n)%nat -> (nth y s 0 < n)%nat.
Proof.
  intros H Hy. pose proof (is_perm_lt _ _ H) as HF. rewrite Forall_forall in HF.
  apply HF, nth_In. rewrite (is_perm_length _ _ H). exact Hy.
Qed.

(* ------------------------------------- reductions are order-independent *)
Lemma fold_left_Permutation {X A} (f : A -> X -> A) l l' :
  (forall acc x y, f (f acc x) y = f (f acc y) x) ->
  Permutation l l' -> forall acc, fold_left f l acc = fold_left f l' acc.
Proof.
  intros C H. induction H; intros acc; cbn [fold_left]; auto.
  - now rewrite C.
  - now rewrite IHPermutation1.
Qed.

Lemma add_swap (acc x y : RV) : add (add acc x) y = add (add acc y) x.
Proof. destruct acc, x, y; cbn; try reflexivity. f_equal; lra. Qed.
Lemma nmin_swap (acc x y : RV) : nmin (nmin acc x) y = nmin (nmin acc y) x.
Proof.
  destruct acc as [a|], x as [x|], y as [y|]; cbn [nmin fleb FldR]; try reflexivity; f_equal;
  try destruct (Rleb_spec a x); try destruct (Rleb_spec a y);
  repeat match goal with |- context [Rleb ?p ?q] => destruct (Rleb_spec p q) end; lra.
Qed.
Lemma nmax_swap (acc x y : RV) : nmax (nmax acc x) y = nmax (nmax acc y) x.
Proof.
  destruct acc as [a|], x as [x|], y as [y|]; cbn [nmax fleb FldR]; try reflexivity; f_equal;
  try destruct (Rleb_spec a x); try destruct (Rleb_spec a y);
  repeat match goal with |- context [Rleb ?p ?q] => destruct (Rleb_spec p q) end; lra.
Qed.

Lemma vsum_Permutation (l l' : list RV) : Permutation l l' -> vsum l = vsum l'.
Proof. intros H. unfold vsum. now apply fold_left_Permutation; [apply add_swap|]. Qed.
Lemma vmin_fold (l : list RV) : vmin l = fold_left nmin l None.
Proof. destruct l; reflexivity. Qed.
Lemma vmax_fold (l : list RV) : vmax l = fold_left nmax l None.
Proof. destruct l; reflexivity. Qed.
Lemma vmin_Permutation (l l' : list RV) : Permutation l l' -> vmin l = vmin l'.
Proof. intros H. rewrite !vmin_fold. now apply fold_left_Permutation; [apply nmin_swap|]. Qed.
Lemma vmax_Permutation (l l' : list RV) : Permutation l l' -> vmax l = vmax l'.
Proof. intros H. rewrite !vmax_fold. now apply fold_left_Permutation; [apply nmax_swap|]. Qed.
Lemma forallb_Permutation {X} (f : X -> bool) l l' :
  Permutation l l' -> forallb f l = forallb f l'.
Proof.
  induction 1; cbn; try congruence.
  destruct (f x), (f y); reflexivity.
Qed.

Lemma vsum_pv s n v : is_perm s n -> length v = n -> vsum (pv s v) = vsum v.
Proof. intros H L. apply vsum_Permutation, (perm_Permutation _ _ _ _ H L). Qed.
Lemma vmin_pv s n v : is_perm s n -> length v = n -> vmin (pv s v) = vmin v.
Proof. intros H L. apply vmin_Permutation, (perm_Permutation _ _ _ _ H L). Qed.
Lemma vmax_pv s n v : is_perm s n -> length v = n -> vmax (pv s v) = vmax v.
Proof. intros H L. apply vmax_Permutation, (perm_Permutation _ _ _ _ H L). Qed.

(* =========================================================== 1. unary operators *)
Section Unary.
Variable eps : R.
Variables (s : list nat) (n : nat).
Hypothesis Hs : is_perm s n.
Let Hlt : Forall (fun i => (i < n)%nat) s := is_perm_lt _ _ Hs.

Lemma pv_map2 (f : RV -> RV -> RV) l1 l2 : length l1 = n -> length l2 = n ->
  map2 f (pv s l1) (pv s l2) = pv s (map2 f l1 l2).
Proof. intros; apply (perm_map2 _ _ _ _ s n); auto. Qed.
Lemma pv_map (f : RV -> RV) l : length l = n -> map f (pv s l) = pv s (map f l).
Proof. intros; apply (perm_map _ _ _ s n); auto. Qed.

Lemma normalize_dist_equivariant p : length p = n ->
  normalize_dist (B:=FldR) (pv s p) = pv s (normalize_dist p).
Proof.
  intros L. unfold normalize_dist. rewrite (vsum_pv _ _ _ Hs L).
  apply pv_map; auto.
Qed.

Lemma projection_equivariant b u a : length b = n -> length a = n ->
  projection (B:=FldR) (pv s b) u (pv s a) = pv s (projection b u a).
Proof.
  intros Lb La. unfold projection.
  rewrite pv_map2 by auto.
  apply normalize_dist_equivariant. rewrite map2_length; lia.
Qed.

Lemma projection_length (b : list RV) u a : length b = n -> length a = n ->
  length (projection b u a) = n.
Proof. intros Lb La. unfold projection, normalize_dist. rewrite map_length, map2_length; lia. Qed.

Lemma combine_map2 {X Y} (l1 : list X) (l2 : list Y) : combine l1 l2 = map2 pair l1 l2.
Proof. revert l2; induction l1; destruct l2; cbn; congruence. Qed.

Lemma max_uncertainty_invariant b u a : length b = n -> length a = n ->
  max_uncertainty (B:=FldR) eps (pv s b) u (pv s a) = max_uncertainty (B:=FldR) eps b u a.
Proof.
  intros Lb La. unfold max_uncertainty.
  rewrite projection_equivariant by auto.
  rewrite !combine_map2, (perm_map2 (@pair RV RV) (None:RV) (None:RV) ((None:RV),(None:RV)) s n)
    by (auto using projection_length).
  apply fold_left_Permutation.
  - intros acc x y. apply nmin_swap.
  - apply (perm_Permutation _ _ n); auto.
    rewrite map2_length, projection_length; auto; lia.
Qed.

Lemma uncertainty_maximized_equivariant b u a : length b = n -> length a = n ->
  uncertainty_maximized (B:=FldR) eps (pv s b) u (pv s a) = ps s (uncertainty_maximized (B:=FldR) eps b u a).
Proof.
  intros Lb La. unfold uncertainty_maximized, ps. cbn [fst snd].
  rewrite max_uncertainty_invariant, projection_equivariant by auto.
  rewrite pv_map2 by (auto using projection_length). reflexivity.
Qed.

Lemma discount_equivariant b u t : length b = n ->
  discount (B:=FldR) eps (pv s b) u t = ps s (discount (B:=FldR) eps b u t).
Proof.
  intros Lb. unfold discount, ps. destruct (is_one _ _); cbn [fst snd];
    rewrite pv_map by auto; reflexivity.
Qed.

Lemma normalized_equivariant b u : length b = n ->
  normalized (B:=FldR) (pv s b) u = ps s (normalized b u).
Proof.
  intros Lb. unfold normalized, ps. cbn [fst snd].
  rewrite (vsum_pv _ _ _ Hs Lb), pv_map by auto. reflexivity.
Qed.

Lemma normalized_length (b : list RV) u : length (fst (normalized b u)) = length b.
Proof. unfold normalized; cbn [fst]. apply map_length. Qed.

(* ================================================================= 2. fusion *)
Lemma compute_simplex_equivariant op lb lu rb ru : length lb = n -> length rb = n ->
  compute_simplex (B:=FldR) eps op (pv s lb, lu) (pv s rb, ru)
  = ps s (compute_simplex (B:=FldR) eps op (lb, lu) (rb, ru)).
Proof.
  intros Ll Lr. unfold compute_simplex.
  assert (M : forall f, normalized (B:=FldR) (map2 f (pv s lb) (pv s rb)) =
                        fun u => ps s (normalized (map2 f lb rb) u)).
  { intros f. rewrite pv_map2 by auto.
    apply FunctionalExtensionality.functional_extensionality. intros u.
    apply normalized_equivariant. rewrite map2_length; lia. }
  assert (Z : (map (fun _ : RV => zero (B:=FldR)) (pv s lb), one (B:=FldR))
              = ps s (map (fun _ => zero) lb, one)).
  { unfold ps; cbn [fst snd]. rewrite pv_map by auto. reflexivity. }
  destruct (is_zero (B:=FldR) eps lu && is_zero (B:=FldR) eps ru); [rewrite M; reflexivity|].
  destruct op; repeat match goal with |- context [if ?c then _ else _] => destruct c end;
    rewrite ?M, ?Z; reflexivity.
Qed.

Lemma compute_simplex_length op lb lu rb ru : length lb = n -> length rb = n ->
  length (fst (compute_simplex (B:=FldR) eps op (lb, lu) (rb, ru))) = n.
Proof.
  intros Ll Lr. unfold compute_simplex.
  destruct (is_zero (B:=FldR) eps lu && is_zero (B:=FldR) eps ru);
    [rewrite normalized_length, map2_length; lia|].
  destruct op; repeat match goal with |- context [if ?c then _ else _] => destruct c end;
    cbn [fst]; rewrite ?normalized_length, ?map2_length, ?map_length; lia.
Qed.

Lemma compute_base_rate_equivariant op same lu la ru ra : length la = n -> length ra = n ->
  compute_base_rate (B:=FldR) eps op same lu (pv s la) ru (pv s ra)
  = pv s (compute_base_rate (B:=FldR) eps op same lu la ru ra).
Proof.
  intros Ll Lr. unfold compute_base_rate, mean_or_same.
  assert (M : forall f : RV -> RV -> RV, map2 f (pv s la) (pv s ra) = pv s (map2 f la ra)).
  { intros f. apply pv_map2; auto. }
  destruct same; [reflexivity|].
  destruct (is_zero (B:=FldR) eps lu && is_zero (B:=FldR) eps ru); [apply M|].
  destruct op; repeat match goal with |- context [if ?c then _ else _] => destruct c end;
    rewrite ?M; reflexivity.
Qed.

Lemma compute_base_rate_length op same lu la ru ra : length la = n -> length ra = n ->
  length (compute_base_rate (B:=FldR) eps op same lu la ru ra) = n.
Proof.
  intros Ll Lr. unfold compute_base_rate, mean_or_same.
  destruct same; [auto|].
  destruct (is_zero (B:=FldR) eps lu && is_zero (B:=FldR) eps ru); [rewrite map2_length; lia|].
  destruct op; repeat match goal with |- context [if ?c then _ else _] => destruct c end;
    rewrite ?map2_length; lia.
Qed.

Definition po (s : list nat) (w : list RV * RV * list RV) : list RV * RV * list RV :=
  (pv s (fst (fst w)), snd (fst w), pv s (snd w)).

Lemma fuse_equivariant op same lb lu la rb ru ra :
  length lb = n -> length la = n -> length rb = n -> length ra = n ->
  fuse (B:=FldR) eps op same (pv s lb, lu, pv s la) (pv s rb, ru, pv s ra)
  = po s (fuse (B:=FldR) eps op same (lb, lu, la) (rb, ru, ra)).
Proof.
  intros L1 L2 L3 L4. unfold fuse, po.
  rewrite compute_simplex_equivariant, compute_base_rate_equivariant by auto.
  pose proof (compute_simplex_length op lb lu rb ru L1 L3) as Lc.
  pose proof (compute_base_rate_length op same lu la ru ra L2 L4) as La.
  destruct (compute_simplex (B:=FldR) eps op (lb, lu) (rb, ru)) as [cb cu]. cbn [fst] in Lc.
  destruct op; cbn [ps bel unc fst snd]; try reflexivity.
  rewrite uncertainty_maximized_equivariant by auto. reflexivity.
Qed.

Lemma fuse_simplex_rhs_equivariant op lb lu la rb ru :
  length lb = n -> length la = n -> length rb = n ->
  fuse_simplex_rhs (B:=FldR) eps op (pv s lb, lu, pv s la) (pv s rb, ru)
  = po s (fuse_simplex_rhs (B:=FldR) eps op (lb, lu, la) (rb, ru)).
Proof. intros L1 L2 L3. unfold fuse_simplex_rhs, bel, unc; cbn [fst snd]. now apply fuse_equivariant. Qed.

End Unary.

(* ============================================== 3. marginal base rate, 4. deduction *)
Lemma map2_ext {X Y Z} (f g : X -> Y -> Z) l1 l2 :
  (forall a c, f a c = g a c) -> map2 f l1 l2 = map2 g l1 l2.
Proof. intros E; revert l2; induction l1; destruct l2; cbn; auto. now rewrite E, IHl1. Qed.
Lemma map2_map_r {X Y Y' Z} (f : X -> Y -> Z) (g : Y' -> Y) l1 l2 :
  map2 f l1 (map g l2) = map2 (fun a c => f a (g c)) l1 l2.
Proof. revert l2; induction l1; destruct l2; cbn; auto. now rewrite IHl1. Qed.
Lemma map2_map_l {X X' Y Z} (f : X -> Y -> Z) (g : X' -> X) l1 l2 :
  map2 f (map g l1) l2 = map2 (fun a c => f (g a) c) l1 l2.
Proof. revert l2; induction l1; destruct l2; cbn; auto. now rewrite IHl1. Qed.
Lemma forallb_map {X Y} (f : Y -> bool) (g : X -> Y) l :
  forallb f (map g l) = forallb (fun x => f (g x)) l.
Proof. induction l; cbn; congruence. Qed.

Lemma vsum_map2_perm {X Y} (f : X -> Y -> RV) d1 d2 s n l1 l2 :
  is_perm s n -> length l1 = n -> length l2 = n ->
  vsum (map2 f (perm d1 s l1) (perm d2 s l2)) = vsum (map2 f l1 l2).
Proof.
  intros H L1 L2. rewrite (perm_map2 f d1 d2 (None : RV) s n) by (auto using is_perm_lt).
  apply vsum_Permutation, (perm_Permutation _ _ n); auto. rewrite map2_length; lia.
Qed.

(* weighted column sums, column minima *)
Definition wsum {X} (sel : X -> nat -> RV) (ax : list RV) (cs : list X) (y : nat) : RV :=
  vsum (map2 (fun a c => mul a (sel c y)) ax cs).
Definition cmin (conds : list RS) (y : nat) : RV := vmin (map (fun c => get (bel c) y) conds).

Lemma wsum_x {X} (sel : X -> nat -> RV) d s n ax cs :
  is_perm s n -> length ax = n -> length cs = n ->
  wsum sel (pv s ax) (perm d s cs) = wsum sel ax cs.
Proof.
  intros H L1 L2. apply FunctionalExtensionality.functional_extensionality. intros y.
  unfold wsum. now apply (vsum_map2_perm _ _ _ s n).
Qed.
Lemma cmin_x s n conds : is_perm s n -> length conds = n -> cmin (pc s conds) = cmin conds.
Proof.
  intros H L. apply FunctionalExtensionality.functional_extensionality. intros y.
  unfold cmin. rewrite (perm_map _ _ (None : RV) s n) by (auto using is_perm_lt).
  apply vmin_pv with (n := n); auto. now rewrite map_length.
Qed.
Lemma wsum_y_bel t ax (conds : list RS) y : (y < length t)%nat ->
  wsum (fun c => get (bel c)) ax (map (ps t) conds) y
  = wsum (fun c => get (bel c)) ax conds (nth y t 0%nat).
Proof.
  intros Hy. unfold wsum. rewrite map2_map_r. f_equal. apply map2_ext. intros a c.
  unfold ps, bel; cbn [fst]. now rewrite get_pv.
Qed.
Lemma wsum_y_vec t ax (cp : list (list RV)) y : (y < length t)%nat ->
  wsum get ax (map (pv t) cp) y = wsum get ax cp (nth y t 0%nat).
Proof.
  intros Hy. unfold wsum. rewrite map2_map_r. f_equal. apply map2_ext. intros a c.
  now rewrite get_pv.
Qed.
Lemma cmin_y t conds y : (y < length t)%nat ->
  cmin (map (ps t) conds) y = cmin conds (nth y t 0%nat).
Proof.
  intros Hy. unfold cmin. rewrite map_map. f_equal. apply map_ext. intros c.
  unfold ps, bel; cbn [fst]. now rewrite get_pv.
Qed.

Lemma mbr_unfold eps ny ax conds :
  mbr (B:=FldR) eps ny ax conds =
  if forallb (fun c => is_one eps (unc c)) conds then None
  else let ay := tab ny (wsum (fun c => get (bel c)) ax conds) in
       if eqb (vsum ay) zero then None else Some (map (fun a => div a (vsum ay)) ay).
Proof. reflexivity. Qed.

Lemma mbr_equivariant_x eps s n ny ax conds :
  is_perm s n -> length ax = n -> length conds = n ->
  mbr (B:=FldR) eps ny (pv s ax) (pc s conds) = mbr eps ny ax conds.
Proof.
  intros H L1 L2. rewrite !mbr_unfold.
  rewrite (forallb_Permutation _ _ _ (perm_Permutation _ _ _ _ H L2)).
  now rewrite (wsum_x _ _ s n).
Qed.

Lemma mbr_equivariant_y eps t ny ax conds : is_perm t ny ->
  mbr (B:=FldR) eps ny ax (map (ps t) conds) = option_map (pv t) (mbr eps ny ax conds).
Proof.
  intros H. rewrite !mbr_unfold. pose proof (is_perm_length _ _ H) as Lt.
  rewrite forallb_map.
  change (forallb (fun x => is_one eps (unc (ps t x))) conds)
    with (forallb (fun c => is_one (B:=FldR) eps (unc c)) conds).
  destruct (forallb (fun c => is_one (B:=FldR) eps (unc c)) conds); [reflexivity|]. cbv zeta.
  rewrite (tab_reindex (None : RV) t ny (wsum (fun c => get (bel c)) ax conds))
    by (auto; intros y Hy; apply wsum_y_bel; auto; lia).
  set (ay := tab ny _). assert (La : length ay = ny) by apply tab_length.
  rewrite (vsum_pv _ _ _ H La).
  destruct (eqb _ _); [reflexivity|]. cbn [option_map]. f_equal.
  now apply (pv_map t ny).
Qed.

Lemma deduce_of_unfold bx ux ax conds ay :
  deduce_of (B:=FldR) (bx, ux, ax) conds ay =
  let ny := length ay in
  let cp := projections conds ay in
  let pyhx := tab ny (wsum get ax cp) in
  let uy := vmin (tab ny (fun y => div (sub (get pyhx y) (cmin conds y)) (get ay y))) in
  let u := sub uy (vsum (map2 (fun c bxi => mul (sub uy (unc c)) bxi) conds bx)) in
  let p := projection bx ux ax in
  let b := tab ny (fun y => sub (wsum get p cp y) (mul (get ay y) u)) in
  let sx := normalized b u in (bel sx, unc sx, ay).
Proof. reflexivity. Qed.

Lemma deduce_of_equivariant_x s n bx ux ax conds ay :
  is_perm s n -> length bx = n -> length ax = n -> length conds = n ->
  deduce_of (B:=FldR) (pv s bx, ux, pv s ax) (pc s conds) ay = deduce_of (bx, ux, ax) conds ay.
Proof.
  intros H Lb La Lc. rewrite !deduce_of_unfold. cbv zeta.
  pose proof (is_perm_lt _ _ H) as Hlt.
  assert (Ep : projections (pc s conds) ay = perm [] s (projections conds ay)).
  { unfold projections. now apply (perm_map _ _ _ s n). }
  assert (Lp : length (projections conds ay) = n) by (unfold projections; now rewrite map_length).
  rewrite Ep, (wsum_x _ _ s n), (cmin_x s n) by auto.
  rewrite (vsum_map2_perm _ _ _ s n) by auto.
  rewrite (projection_equivariant s n H) by auto.
  rewrite (wsum_x _ _ s n) by (auto using projection_length). reflexivity.
Qed.

Lemma deduce_of_equivariant_y t ny bx ux ax conds ay :
  is_perm t ny -> length ay = ny -> Forall (fun c => length (bel c) = ny) conds ->
  deduce_of (B:=FldR) (bx, ux, ax) (map (ps t) conds) (pv t ay)
  = po t (deduce_of (bx, ux, ax) conds ay).
Proof.
  intros H La Lc. rewrite !deduce_of_unfold. cbv zeta.
  pose proof (is_perm_lt _ _ H) as Hlt. pose proof (is_perm_length _ _ H) as Lt.
  rewrite perm_length, Lt, La.
  assert (Ep : projections (map (ps t) conds) (pv t ay) = map (pv t) (projections conds ay)).
  { unfold projections. rewrite !map_map. apply (map_ext_Forall _ _ _ _ Lc). intros c Hc.
    unfold ps, bel, unc; cbn [fst snd]. now apply (projection_equivariant t ny). }
  rewrite Ep. set (cp := projections conds ay).
  assert (E1 : tab ny (wsum get ax (map (pv t) cp)) = pv t (tab ny (wsum get ax cp))).
  { apply tab_reindex; auto. intros y Hy. apply wsum_y_vec; lia. }
  rewrite E1. set (pyhx := tab ny (wsum get ax cp)).
  assert (E2 : tab ny (fun y => div (sub (get (pv t pyhx) y) (cmin (map (ps t) conds) y))
                                     (get (pv t ay) y))
               = pv t (tab ny (fun y => div (sub (get pyhx y) (cmin conds y)) (get ay y)))).
  { apply tab_reindex; auto. intros y Hy. cbv beta. rewrite !get_pv, cmin_y by lia. reflexivity. }
  rewrite E2, (vmin_pv t ny) by (auto using tab_length).
  set (uy := vmin _).
  rewrite map2_map_l.
  change (fun (a : RS) (c : RV) => mul (sub uy (unc (ps t a))) c)
    with (fun (a : RS) (c : RV) => mul (sub uy (unc a)) c).
  set (u := sub uy _).
  assert (E3 : tab ny (fun y => sub (wsum get (projection bx ux ax) (map (pv t) cp) y)
                                     (mul (get (pv t ay) y) u))
               = pv t (tab ny (fun y => sub (wsum get (projection bx ux ax) cp y)
                                            (mul (get ay y) u)))).
  { apply tab_reindex; auto. intros y Hy. cbv beta. rewrite get_pv, wsum_y_vec by lia. reflexivity. }
  rewrite E3, (normalized_equivariant t ny H) by apply tab_length.
  reflexivity.
Qed.

(* ================================================ 5. inversion and abduction *)
Definition colv (pyx : list (list RV)) (y : nat) : list RV := map (fun px => get px y) pyx.
Definition trow (eps : R) (ax c : list RV) : list RV :=
  if forallb (is_zero (B:=FldR) eps) c then map (fun _ => one) c
  else map (fun p => div p (vsum (map2 mul ax c))) c.
Definition inv_fin (w mu irr : RV) (pxy ax : list RV) : RS :=
  let u := mul mu (sub (add w irr) (mul w irr)) in
  normalized (map2 (fun p a => sub p (mul u a)) pxy ax) u.
Definition inv_row (eps : R) (w : RV) (ax c : list RV) : RS :=
  let t := trow eps ax c in
  inv_fin w (vmin t) (add (sub one (vmax c)) (vmin c)) (map2 mul t ax) ax.
Definition inv_wprop (eps : R) (pyx : list (list RV)) (uyx ay : list RV) : RV :=
  let us := vsum uyx in
  let weights := if eqb us zero then map (fun _ => zero) uyx else map (fun u => div u us) uyx in
  let max_u_yx := map (fun px => vmin (map2 div px ay)) pyx in
  vsum (map3 (fun mu w u => if is_zero (B:=FldR) eps mu then zero else div (mul w u) mu)
             max_u_yx weights uyx).
Definition maxus (eps : R) (conds : list RS) (ay : list RV) : list RV :=
  map (fun c => max_uncertainty (B:=FldR) eps (bel c) (unc c) ay) conds.

Lemma inverse_unfold eps conds ax ay :
  inverse (B:=FldR) eps conds ax ay =
  tab (length ay) (fun y =>
    inv_row eps (inv_wprop eps (projections conds ay) (maxus eps conds ay) ay) ax
            (colv (projections conds ay) y)).
Proof.
  unfold inverse, tab. cbv zeta.
  rewrite (map_map _ (vmin (B:=FldR))), (map_map _ (fun t : list RV => map2 mul t ax)).
  rewrite map3_map_same. reflexivity.
Qed.

Lemma trow_length eps ax c : length (trow eps ax c) = length c.
Proof. unfold trow. destruct (forallb _ _); apply map_length. Qed.

Lemma trow_equivariant eps s n ax c : is_perm s n -> length ax = n -> length c = n ->
  trow eps (pv s ax) (pv s c) = pv s (trow eps ax c).
Proof.
  intros H La Lc. unfold trow.
  rewrite (forallb_Permutation _ _ _ (perm_Permutation _ _ _ _ H Lc)).
  rewrite (vsum_map2_perm _ _ _ s n) by auto.
  destruct (forallb _ _); now apply (pv_map s n).
Qed.

Lemma inv_row_equivariant eps s n w ax c : is_perm s n -> length ax = n -> length c = n ->
  inv_row eps w (pv s ax) (pv s c) = ps s (inv_row eps w ax c).
Proof.
  intros H La Lc. unfold inv_row, inv_fin. cbv zeta.
  rewrite (trow_equivariant eps s n) by auto.
  assert (Lt : length (trow eps ax c) = n) by now rewrite trow_length.
  rewrite !(vmin_pv s n), (vmax_pv s n) by auto.
  rewrite !(pv_map2 s n) by (auto; rewrite map2_length; lia).
  apply (normalized_equivariant s n H). rewrite !map2_length; lia.
Qed.

Lemma inv_row_length eps w ax c : length c = length ax ->
  length (bel (inv_row eps w ax c)) = length ax.
Proof.
  intros L. unfold inv_row, inv_fin, bel. cbv zeta.
  rewrite normalized_length, !map2_length, trow_length. lia.
Qed.

Lemma inv_wprop_x eps s n pyx uyx ay : is_perm s n -> length pyx = n -> length uyx = n ->
  inv_wprop eps (perm [] s pyx) (pv s uyx) ay = inv_wprop eps pyx uyx ay.
Proof.
  intros H L1 L2. pose proof (is_perm_lt _ _ H) as Hlt. unfold inv_wprop. cbv zeta.
  rewrite (vsum_pv s n) by auto.
  rewrite (perm_map _ _ (None : RV) s n) by auto.
  assert (E : (if eqb (vsum uyx) zero then map (fun _ : RV => zero (B:=FldR)) (pv s uyx)
               else map (fun u : RV => div u (vsum uyx)) (pv s uyx))
              = pv s (if eqb (vsum uyx) zero then map (fun _ => zero) uyx
                      else map (fun u => div u (vsum uyx)) uyx)).
  { destruct (eqb _ _); now apply (pv_map s n). }
  rewrite E.
  rewrite (perm_map3 _ _ _ _ (None : RV) s n); auto.
  - apply (vsum_pv s n); auto. rewrite map3_length, !map_length.
    destruct (eqb _ _); rewrite map_length; lia.
  - now rewrite map_length.
  - destruct (eqb _ _); now rewrite map_length.
Qed.

Lemma colv_x s n pyx y : is_perm s n -> length pyx = n ->
  colv (perm [] s pyx) y = pv s (colv pyx y).
Proof. intros H L. unfold colv. apply (perm_map _ _ _ s n); auto using is_perm_lt. Qed.
Lemma colv_y t pyx y : (y < length t)%nat ->
  colv (map (pv t) pyx) y = colv pyx (nth y t 0%nat).
Proof. intros Hy. unfold colv. rewrite map_map. apply map_ext. intros px. now apply get_pv. Qed.

Lemma tab_map {X Y} (g : X -> Y) n F : tab n (fun y => g (F y)) = map g (tab n F).
Proof. unfold tab. now rewrite map_map. Qed.

Lemma inverse_equivariant_x eps s n conds ax ay :
  is_perm s n -> length conds = n -> length ax = n ->
  inverse (B:=FldR) eps (pc s conds) (pv s ax) ay = map (ps s) (inverse eps conds ax ay).
Proof.
  intros H Lc La. rewrite !inverse_unfold. pose proof (is_perm_lt _ _ H) as Hlt.
  assert (Ep : projections (pc s conds) ay = perm [] s (projections conds ay)).
  { unfold projections. now apply (perm_map _ _ _ s n). }
  assert (Eu : maxus eps (pc s conds) ay = pv s (maxus eps conds ay)).
  { unfold maxus. now apply (perm_map _ _ _ s n). }
  assert (Lp : length (projections conds ay) = n) by (unfold projections; now rewrite map_length).
  assert (Lu : length (maxus eps conds ay) = n) by (unfold maxus; now rewrite map_length).
  rewrite Ep, Eu, (inv_wprop_x eps s n) by auto.
  rewrite <- tab_map. apply tab_ext. intros y Hy.
  rewrite (colv_x s n) by auto. apply (inv_row_equivariant eps s n); auto.
  unfold colv. now rewrite map_length.
Qed.

Lemma projections_y t ny conds ay :
  is_perm t ny -> length ay = ny -> Forall (fun c => length (bel c) = ny) conds ->
  projections (map (ps t) conds) (pv t ay) = map (pv t) (projections conds ay).
Proof.
  intros H La Lc. unfold projections. rewrite !map_map. apply (map_ext_Forall _ _ _ _ Lc).
  intros c Hc. unfold ps, bel, unc; cbn [fst snd]. now apply (projection_equivariant t ny).
Qed.

Lemma inverse_equivariant_y eps t ny conds ax ay :
  is_perm t ny -> length ay = ny -> Forall (fun c => length (bel c) = ny) conds ->
  inverse (B:=FldR) eps (map (ps t) conds) ax (pv t ay) = pc t (inverse eps conds ax ay).
Proof.
  intros H La Lc. rewrite !inverse_unfold.
  pose proof (is_perm_lt _ _ H) as Hlt. pose proof (is_perm_length _ _ H) as Lt.
  rewrite perm_length, Lt, La, (projections_y t ny) by auto.
  assert (Eu : maxus eps (map (ps t) conds) (pv t ay) = maxus eps conds ay).
  { unfold maxus. rewrite map_map. apply (map_ext_Forall _ _ _ _ Lc). intros c Hc.
    unfold ps, bel, unc; cbn [fst snd]. now apply (max_uncertainty_invariant eps t ny). }
  rewrite Eu.
  assert (Ew : inv_wprop eps (map (pv t) (projections conds ay)) (maxus eps conds ay) (pv t ay)
               = inv_wprop eps (projections conds ay) (maxus eps conds ay) ay).
  { unfold inv_wprop. cbv zeta. do 2 f_equal. unfold projections. rewrite !map_map.
    apply (map_ext_Forall _ _ _ _ Lc). intros c Hc.
    assert (Lp : length (projection (bel c) (unc c) ay) = ny) by now apply projection_length.
    rewrite (pv_map2 t ny) by auto. apply (vmin_pv t ny); auto. rewrite map2_length; lia. }
  rewrite Ew. apply tab_reindex; auto. intros y Hy. now rewrite colv_y by lia.
Qed.

Lemma inverse_length eps conds ax ay : length (inverse (B:=FldR) eps conds ax ay) = length ay.
Proof. rewrite inverse_unfold. apply tab_length. Qed.
Lemma inverse_bel_length eps conds ax ay : length conds = length ax ->
  Forall (fun c => length (bel c) = length ax) (inverse (B:=FldR) eps conds ax ay).
Proof.
  intros L. rewrite inverse_unfold. unfold tab. apply Forall_forall. intros c Hc.
  apply in_map_iff in Hc. destruct Hc as (y & <- & _). apply inv_row_length.
  unfold colv, projections. now rewrite !map_length.
Qed.

Lemma abduce_with_equivariant_x eps s n wy conds ax ay :
  is_perm s n -> length conds = n -> length ax = n ->
  abduce_with (B:=FldR) eps wy (pc s conds) (pv s ax) ay = po s (abduce_with eps wy conds ax ay).
Proof.
  intros H Lc La. unfold abduce_with. rewrite (inverse_equivariant_x eps s n) by auto.
  apply (deduce_of_equivariant_y s n); auto.
  rewrite <- La. apply inverse_bel_length. transitivity n; [exact Lc|symmetry; exact La].
Qed.

Lemma abduce_with_equivariant_y eps t ny wy conds ax ay :
  is_perm t ny -> length (bel wy) = ny -> length ay = ny ->
  Forall (fun c => length (bel c) = ny) conds ->
  abduce_with (B:=FldR) eps (ps t wy) (map (ps t) conds) ax (pv t ay) = abduce_with eps wy conds ax ay.
Proof.
  intros H Lw La Lc. unfold abduce_with. rewrite (inverse_equivariant_y eps t ny) by auto.
  unfold ps at 1 2, bel, unc; cbn [fst snd].
  apply (deduce_of_equivariant_x t ny); auto. now rewrite inverse_length.
Qed.

Lemma ps_bel_length t n conds : is_perm t n ->
  Forall (fun c : RS => length (bel c) = n) (map (ps t) conds).
Proof.
  intros H. apply Forall_forall. intros c Hc. apply in_map_iff in Hc. destruct Hc as (c0 & <- & _).
  unfold ps, bel; cbn [fst]. rewrite perm_length. now apply is_perm_length.
Qed.

(* both renamings at once *)
Lemma abduce_with_equivariant eps s n t ny wy conds ax ay :
  is_perm s n -> is_perm t ny -> length conds = n -> length ax = n ->
  length (bel wy) = ny -> length ay = ny -> Forall (fun c => length (bel c) = ny) conds ->
  abduce_with (B:=FldR) eps (ps t wy) (pc s (map (ps t) conds)) (pv s ax) (pv t ay)
  = po s (abduce_with eps wy conds ax ay).
Proof.
  intros Hs Ht Lc La Lw Ly Lb.
  rewrite (abduce_with_equivariant_x eps s n) by (auto; now rewrite map_length).
  now rewrite (abduce_with_equivariant_y eps t ny).
Qed.

(* ================================================================ 6. products *)
(* renaming induced on the row-major flattening of a joint domain of size n0 * n1 *)
Definition iperm (s0 s1 : list nat) (n1 : nat) : list nat :=
  flat_map (fun i => map (fun j => (i * n1 + j)%nat) s1) s0.

Lemma map_add_seq k a n : map (fun j => (k + j)%nat) (seq a n) = seq (k + a) n.
Proof.
  revert a; induction n as [|n IH]; intros a; cbn [seq map]; [reflexivity|].
  f_equal. rewrite IH. f_equal. lia.
Qed.
Lemma flat_map_seq_blocks n0 n1 :
  flat_map (fun i => seq (i * n1) n1) (seq 0 n0) = seq 0 (n0 * n1).
Proof.
  induction n0 as [|n0 IH]; [reflexivity|].
  rewrite seq_S, flat_map_app, IH. cbn [flat_map plus]. rewrite app_nil_r.
  replace (S n0 * n1)%nat with (n0 * n1 + n1)%nat by lia. now rewrite seq_app.
Qed.
Lemma flat_map_Permutation_ext {X Y} (g g' : X -> list Y) l :
  (forall x, Permutation (g x) (g' x)) -> Permutation (flat_map g l) (flat_map g' l).
Proof. intros E. induction l; cbn; [constructor|]. now apply Permutation_app. Qed.

Lemma iperm_is_perm s0 n0 s1 n1 :
  is_perm s0 n0 -> is_perm s1 n1 -> is_perm (iperm s0 s1 n1) (n0 * n1).
Proof.
  intros H0 H1. unfold is_perm, iperm.
  eapply Permutation_trans; [apply Permutation_flat_map, H0|].
  rewrite <- flat_map_seq_blocks. apply flat_map_Permutation_ext. intros i.
  eapply Permutation_trans; [apply Permutation_map, H1|].
  rewrite map_add_seq, Nat.add_0_r. apply Permutation_refl.
Qed.

Lemma map_flat_map' {X Y Z} (f : Y -> Z) (g : X -> list Y) l :
  map f (flat_map g l) = flat_map (fun x => map f (g x)) l.
Proof. induction l; cbn; [reflexivity|]. now rewrite map_app, IHl. Qed.
Lemma flat_map_map' {X Y Z} (f : Y -> list Z) (g : X -> Y) l :
  flat_map f (map g l) = flat_map (fun x => f (g x)) l.
Proof. induction l; cbn; congruence. Qed.
Lemma flat_map_ext_Forall {X Y} (P : X -> Prop) (f g : X -> list Y) l :
  Forall P l -> (forall x, P x -> f x = g x) -> flat_map f l = flat_map g l.
Proof. intros H E. induction H; cbn; [reflexivity|]. rewrite E, IHForall; auto. Qed.

Lemma outer_length (l0 l1 : list RV) : length (outer l0 l1) = (length l0 * length l1)%nat.
Proof.
  unfold outer. induction l0; cbn; [reflexivity|]. now rewrite app_length, map_length, IHl0.
Qed.
Lemma nth_outer (l0 l1 : list RV) i j : (i < length l0)%nat -> (j < length l1)%nat ->
  nth (i * length l1 + j) (outer l0 l1) None = mul (nth i l0 None) (nth j l1 None).
Proof.
  unfold outer. revert i; induction l0 as [|x l0 IH]; intros i Hi Hj; cbn [length] in Hi; [lia|].
  cbn [flat_map]. destruct i as [|i].
  - cbn [Nat.mul plus nth]. rewrite app_nth1 by (rewrite map_length; lia).
    rewrite (nth_indep _ None (mul x None)) by (rewrite map_length; lia).
    apply (map_nth (fun y => mul x y)).
  - rewrite app_nth2 by (rewrite map_length; lia). rewrite map_length.
    replace (S i * length l1 + j - length l1)%nat with (i * length l1 + j)%nat by lia.
    cbn [nth]. apply IH; lia.
Qed.

Lemma outer_equivariant s0 n0 s1 n1 l0 l1 :
  Forall (fun i => (i < n0)%nat) s0 -> Forall (fun j => (j < n1)%nat) s1 ->
  length l0 = n0 -> length l1 = n1 ->
  outer (pv s0 l0) (pv s1 l1) = pv (iperm s0 s1 n1) (outer l0 l1).
Proof.
  intros H0 H1 L0 L1. unfold outer at 1, perm, iperm.
  rewrite flat_map_map', map_flat_map'.
  apply (flat_map_ext_Forall _ _ _ _ H0). intros i Hi. rewrite !map_map.
  apply (map_ext_Forall _ _ _ _ H1). intros j Hj.
  rewrite <- L1. symmetry. apply nth_outer; lia.
Qed.

Lemma product_core_equivariant r N p bb a :
  is_perm r N -> length p = N -> length bb = N -> length a = N ->
  product_core (B:=FldR) (pv r p) (pv r bb) (pv r a)
  = (pv r (fst (product_core p bb a)), snd (product_core p bb a)).
Proof.
  intros H Lp Lb La. pose proof (is_perm_lt _ _ H) as Hlt. unfold product_core. cbn [fst snd].
  rewrite (perm_map3 _ _ _ _ (None : RV) r N) by auto.
  rewrite (vmin_pv r N) by (auto; rewrite map3_length; lia).
  cbv zeta. now rewrite (pv_map2 r N).
Qed.
Lemma product_core_length (p bb a : list RV) N : length p = N -> length a = N ->
  length (fst (product_core p bb a)) = N.
Proof. intros Lp La. unfold product_core; cbv zeta; cbn [fst]. rewrite map2_length; lia. Qed.

Lemma check_simplex_invariant eps r N b u : is_perm r N -> length b = N ->
  check_simplex (B:=FldR) eps (pv r b) u = check_simplex eps b u.
Proof.
  intros H L. unfold check_simplex.
  now rewrite (forallb_Permutation _ _ _ (perm_Permutation _ _ _ _ H L)), (vsum_pv r N).
Qed.
Lemma check_base_rate_invariant eps r N a : is_perm r N -> length a = N ->
  check_base_rate (B:=FldR) eps (pv r a) = check_base_rate eps a.
Proof.
  intros H L. unfold check_base_rate.
  now rewrite (forallb_Permutation _ _ _ (perm_Permutation _ _ _ _ H L)), (vsum_pv r N).
Qed.

Section Product2.
Variable eps : R.
Variables (s0 s1 : list nat) (n0 n1 : nat).
Hypothesis (H0 : is_perm s0 n0) (H1 : is_perm s1 n1).
Variables (b0 a0 b1 a1 : list RV) (u0 u1 : RV).
Hypothesis (Lb0 : length b0 = n0) (La0 : length a0 = n0) (Lb1 : length b1 = n1) (La1 : length a1 = n1).

Let r := iperm s0 s1 n1.
Let Hr : is_perm r (n0 * n1) := iperm_is_perm _ _ _ _ H0 H1.

Lemma product2_operands :
  outer (projection (pv s0 b0) u0 (pv s0 a0)) (projection (pv s1 b1) u1 (pv s1 a1))
    = pv r (outer (projection b0 u0 a0) (projection b1 u1 a1)) /\
  outer (pv s0 b0) (pv s1 b1) = pv r (outer b0 b1) /\
  outer (pv s0 a0) (pv s1 a1) = pv r (outer a0 a1).
Proof.
  pose proof (is_perm_lt _ _ H0). pose proof (is_perm_lt _ _ H1).
  rewrite (projection_equivariant s0 n0), (projection_equivariant s1 n1) by auto.
  repeat split; apply (outer_equivariant s0 n0 s1 n1); auto using projection_length.
Qed.

Lemma product2_equivariant :
  product2 (B:=FldR) eps (pv s0 b0, u0, pv s0 a0) (pv s1 b1, u1, pv s1 a1)
  = option_map (po r) (product2 (B:=FldR) eps (b0, u0, a0) (b1, u1, a1)).
Proof.
  unfold product2. destruct product2_operands as (Ep & Eb & Ea). rewrite Ep, Eb, Ea.
  set (p := outer (projection b0 u0 a0) (projection b1 u1 a1)).
  assert (Lp : length p = (n0 * n1)%nat).
  { unfold p. now rewrite outer_length, (projection_length n0), (projection_length n1). }
  assert (Lbb : length (outer b0 b1) = (n0 * n1)%nat) by (rewrite outer_length; congruence).
  assert (Laa : length (outer a0 a1) = (n0 * n1)%nat) by (rewrite outer_length; congruence).
  rewrite (product_core_equivariant r (n0 * n1)) by auto.
  pose proof (product_core_length p (outer b0 b1) (outer a0 a1) _ Lp Laa) as Lc.
  destruct (product_core p (outer b0 b1) (outer a0 a1)) as [b u]. cbn [fst snd] in *.
  rewrite (check_simplex_invariant eps r (n0 * n1)), (check_base_rate_invariant eps r (n0 * n1)) by auto.
  destruct (_ && _); reflexivity.
Qed.

Lemma product2_lab_equivariant :
  product2_lab (B:=FldR) (pv s0 b0, u0, pv s0 a0) (pv s1 b1, u1, pv s1 a1)
  = po r (product2_lab (b0, u0, a0) (b1, u1, a1)).
Proof.
  unfold product2_lab. destruct product2_operands as (Ep & Eb & Ea). rewrite Ep, Eb, Ea.
  set (p := outer (projection b0 u0 a0) (projection b1 u1 a1)).
  assert (Lp : length p = (n0 * n1)%nat).
  { unfold p. now rewrite outer_length, (projection_length n0), (projection_length n1). }
  assert (Lbb : length (outer b0 b1) = (n0 * n1)%nat) by (rewrite outer_length; congruence).
  assert (Laa : length (outer a0 a1) = (n0 * n1)%nat) by (rewrite outer_length; congruence).
  rewrite (product_core_equivariant r (n0 * n1)) by auto.
  destruct (product_core p (outer b0 b1) (outer a0 a1)) as [b u]. cbn [fst snd] in *.
  rewrite (normalize_dist_equivariant r (n0 * n1)) by auto. reflexivity.
Qed.
End Product2.

(* ============================ deduce / deduce_with / abduce (with the marginal base rate) *)
Lemma mbr_length eps ny ax conds ay :
  mbr (B:=FldR) eps ny ax conds = Some ay -> length ay = ny.
Proof.
  rewrite mbr_unfold. destruct (forallb _ _); [discriminate|]. cbv zeta.
  destruct (eqb _ _); [discriminate|]. intros E; injection E as <-.
  now rewrite map_length, tab_length.
Qed.

Lemma deduce_equivariant_x eps s n ny bx ux ax conds :
  is_perm s n -> length bx = n -> length ax = n -> length conds = n ->
  deduce (B:=FldR) eps ny (pv s bx, ux, pv s ax) (pc s conds) = deduce eps ny (bx, ux, ax) conds.
Proof.
  intros H Lb La Lc. unfold deduce. rewrite (mbr_equivariant_x eps s n) by auto.
  destruct (mbr _ _ _ _); [|reflexivity]. now rewrite (deduce_of_equivariant_x s n).
Qed.
Lemma deduce_equivariant_y eps t ny bx ux ax conds :
  is_perm t ny -> Forall (fun c => length (bel c) = ny) conds ->
  deduce (B:=FldR) eps ny (bx, ux, ax) (map (ps t) conds)
  = option_map (po t) (deduce eps ny (bx, ux, ax) conds).
Proof.
  intros H Lc. unfold deduce. rewrite (mbr_equivariant_y eps t ny) by auto.
  destruct (mbr _ _ _ _) as [ay|] eqn:E; [|reflexivity]. cbn [option_map].
  apply mbr_length in E. now rewrite (deduce_of_equivariant_y t ny).
Qed.
Lemma deduce_with_equivariant_x eps s n ny bx ux ax conds fb :
  is_perm s n -> length bx = n -> length ax = n -> length conds = n ->
  deduce_with (B:=FldR) eps ny (pv s bx, ux, pv s ax) (pc s conds) fb
  = deduce_with eps ny (bx, ux, ax) conds fb.
Proof.
  intros H Lb La Lc. unfold deduce_with. rewrite (mbr_equivariant_x eps s n) by auto.
  destruct (mbr _ _ _ _); now rewrite (deduce_of_equivariant_x s n).
Qed.
Lemma deduce_with_equivariant_y eps t ny bx ux ax conds fb :
  is_perm t ny -> Forall (fun c => length (bel c) = ny) conds -> length fb = ny ->
  deduce_with (B:=FldR) eps ny (bx, ux, ax) (map (ps t) conds) (pv t fb)
  = (po t (fst (deduce_with eps ny (bx, ux, ax) conds fb)),
     snd (deduce_with eps ny (bx, ux, ax) conds fb)).
Proof.
  intros H Lc Lf. unfold deduce_with. rewrite (mbr_equivariant_y eps t ny) by auto.
  destruct (mbr _ _ _ _) as [ay|] eqn:E; cbn [option_map fst snd].
  - apply mbr_length in E. now rewrite (deduce_of_equivariant_y t ny).
  - now rewrite (deduce_of_equivariant_y t ny).
Qed.

Lemma abduce_equivariant_x eps s n wy conds ax ny :
  is_perm s n -> length conds = n -> length ax = n ->
  abduce (B:=FldR) eps wy (pc s conds) (pv s ax) ny = option_map (po s) (abduce eps wy conds ax ny).
Proof.
  intros H Lc La. unfold abduce. rewrite (mbr_equivariant_x eps s n) by auto.
  destruct (mbr _ _ _ _); [|reflexivity]. cbn [option_map].
  now rewrite (abduce_with_equivariant_x eps s n).
Qed.
Lemma abduce_equivariant_y eps t ny wy conds ax :
  is_perm t ny -> length (bel wy) = ny -> Forall (fun c => length (bel c) = ny) conds ->
  abduce (B:=FldR) eps (ps t wy) (map (ps t) conds) ax ny = abduce eps wy conds ax ny.
Proof.
  intros H Lw Lc. unfold abduce. rewrite (mbr_equivariant_y eps t ny) by auto.
  destruct (mbr _ _ _ _) as [ay|] eqn:E; [|reflexivity]. cbn [option_map].
  apply mbr_length in E. now rewrite (abduce_with_equivariant_y eps t ny).
Qed.

(* ================================================================ 7. merging *)
Definition prod_s (eps : R) (lab : bool) (ax1 ax2 : list RV) (c1 c2 : RS) : option RS :=
  if lab then
    let '(b, u, _) := product2_lab (B:=FldR) (bel c1, unc c1, ax1) (bel c2, unc c2, ax2) in Some (b, u)
  else match product2 (B:=FldR) eps (bel c1, unc c1, ax1) (bel c2, unc c2, ax2) with
       | Some (b, u, _) => Some (b, u)
       | None => None
       end.
Definition is_some {X} (o : option X) : bool := match o with Some _ => true | None => false end.
Definition unsome {X} (o : option X) : list X := match o with Some x => [x] | None => [] end.
Definition or_else {X} (o : option X) (d : X) : X := match o with Some m => m | None => d end.

Lemma merge_cond2_unfold eps lab y1 y2 ax1 ax2 ay :
  merge_cond2 (B:=FldR) eps lab y1 y2 ax1 ax2 ay =
  let ny := length ay in
  let ay1 := or_else (mbr eps ny ax1 y1) ay in
  let ay2 := or_else (mbr eps ny ax2 y2) ay in
  let prods := map2 (prod_s eps lab ax1 ax2) (inverse eps y1 ax1 ay1) (inverse eps y2 ax2 ay2) in
  if forallb is_some prods then
    let x12 := flat_map unsome prods in
    let ax12 := or_else (mbr eps (length ax1 * length ax2) ay x12) (outer ax1 ax2) in
    Some (inverse eps x12 ay ax12)
  else None.
Proof. reflexivity. Qed.

Lemma prod_s_equivariant eps lab s1 n1 s2 n2 ax1 ax2 c1 c2 :
  is_perm s1 n1 -> is_perm s2 n2 -> length ax1 = n1 -> length ax2 = n2 ->
  length (bel c1) = n1 -> length (bel c2) = n2 ->
  prod_s eps lab (pv s1 ax1) (pv s2 ax2) (ps s1 c1) (ps s2 c2)
  = option_map (ps (iperm s1 s2 n2)) (prod_s eps lab ax1 ax2 c1 c2).
Proof.
  intros H1 H2 La1 La2 Lc1 Lc2. destruct c1 as [b1 u1], c2 as [b2 u2].
  unfold prod_s, ps, bel, unc in *; cbn [fst snd] in *. destruct lab.
  - rewrite (product2_lab_equivariant s1 s2 n1 n2) by auto.
    destruct (product2_lab _ _) as [[b u] a]. reflexivity.
  - rewrite (product2_equivariant eps s1 s2 n1 n2) by auto.
    destruct (product2 _ _ _) as [[[b u] a]|]; reflexivity.
Qed.

Lemma prod_s_length eps lab n1 n2 ax1 ax2 c1 c2 c :
  length ax1 = n1 -> length ax2 = n2 -> length (bel c1) = n1 -> length (bel c2) = n2 ->
  prod_s eps lab ax1 ax2 c1 c2 = Some c -> length (bel c) = (n1 * n2)%nat.
Proof.
  intros La1 La2 Lc1 Lc2. unfold prod_s, product2_lab, product2.
  set (p := outer (projection (bel c1) (unc c1) ax1) (projection (bel c2) (unc c2) ax2)).
  assert (Lp : length p = (n1 * n2)%nat).
  { unfold p. now rewrite outer_length, (projection_length n1), (projection_length n2). }
  assert (Laa : length (outer ax1 ax2) = (n1 * n2)%nat) by (rewrite outer_length; congruence).
  pose proof (product_core_length p (outer (bel c1) (bel c2)) (outer ax1 ax2) _ Lp Laa) as Lc.
  destruct (product_core _ _ _) as [b u]. cbn [fst] in Lc.
  destruct lab; [|destruct (_ && _)]; intros E; inversion E; subst; exact Lc.
Qed.

Lemma map2_map_Forall {X X' Y Y' Z Z'} (P : X -> Prop) (Q : Y -> Prop)
      (f : X' -> Y' -> Z') (f' : X -> Y -> Z) (g : X -> X') (h : Y -> Y') (k : Z -> Z') l1 l2 :
  Forall P l1 -> Forall Q l2 -> (forall a b, P a -> Q b -> f (g a) (h b) = k (f' a b)) ->
  map2 f (map g l1) (map h l2) = map k (map2 f' l1 l2).
Proof.
  intros H1 H2 E. revert l2 H2. induction H1 as [|a l1 Pa H1 IH]; intros l2 H2; [reflexivity|].
  destruct H2 as [|b l2 Qb H2]; [reflexivity|]. cbn [map map2]. rewrite E, IH; auto.
Qed.
Lemma unsome_map2_Forall {X Y Z} (P : X -> Prop) (Q : Y -> Prop) (T : Z -> Prop)
      (f : X -> Y -> option Z) l1 l2 :
  Forall P l1 -> Forall Q l2 -> (forall a b c, P a -> Q b -> f a b = Some c -> T c) ->
  Forall T (flat_map unsome (map2 f l1 l2)).
Proof.
  intros H1 H2 E. revert l2 H2. induction H1 as [|a l1 Pa H1 IH]; intros l2 H2; [constructor|].
  destruct H2 as [|b l2 Qb H2]; [constructor|]. cbn [map2 flat_map].
  apply Forall_app; split; [|auto]. destruct (f a b) eqn:Ef; cbn; [|constructor].
  constructor; [eauto|constructor].
Qed.
Lemma forallb_is_some_map {X Y} (g : X -> Y) l :
  forallb is_some (map (option_map g) l) = forallb is_some l.
Proof. induction l as [|[x|] l IH]; cbn; auto. Qed.
Lemma unsome_map {X Y} (g : X -> Y) l :
  flat_map unsome (map (option_map g) l) = map g (flat_map unsome l).
Proof. induction l as [|[x|] l IH]; cbn; congruence. Qed.
Lemma all_some_map {X} (l : list (option X)) :
  forallb is_some l = true -> l = map Some (flat_map unsome l).
Proof. induction l as [|[x|] l IH]; cbn; intros H; try discriminate; [reflexivity|]. f_equal; auto. Qed.
Lemma unsome_map_Some {X} (l : list X) : flat_map unsome (map Some l) = l.
Proof. induction l; cbn; congruence. Qed.
Lemma or_else_map {X Y} (g : X -> Y) o d : or_else (option_map g o) (g d) = g (or_else o d).
Proof. destruct o; reflexivity. Qed.

Lemma merge_cond2_equivariant_x eps lab s1 n1 s2 n2 y1 y2 ax1 ax2 ay :
  is_perm s1 n1 -> is_perm s2 n2 ->
  length y1 = n1 -> length ax1 = n1 -> length y2 = n2 -> length ax2 = n2 ->
  merge_cond2 (B:=FldR) eps lab (pc s1 y1) (pc s2 y2) (pv s1 ax1) (pv s2 ax2) ay
  = option_map (pc (iperm s1 s2 n2)) (merge_cond2 eps lab y1 y2 ax1 ax2 ay).
Proof.
  intros H1 H2 Ly1 La1 Ly2 La2. rewrite !merge_cond2_unfold. cbv zeta.
  set (r := iperm s1 s2 n2).
  pose proof (iperm_is_perm _ _ _ _ H1 H2 : is_perm r (n1 * n2)) as Hr.
  rewrite (mbr_equivariant_x eps s1 n1), (mbr_equivariant_x eps s2 n2) by auto.
  set (ay1 := or_else (mbr eps (length ay) ax1 y1) ay).
  set (ay2 := or_else (mbr eps (length ay) ax2 y2) ay).
  rewrite (inverse_equivariant_x eps s1 n1), (inverse_equivariant_x eps s2 n2) by auto.
  assert (F1 : Forall (fun c : RS => length (bel c) = n1) (inverse eps y1 ax1 ay1)).
  { rewrite <- La1. apply inverse_bel_length. transitivity n1; [exact Ly1|symmetry; exact La1]. }
  assert (F2 : Forall (fun c : RS => length (bel c) = n2) (inverse eps y2 ax2 ay2)).
  { rewrite <- La2. apply inverse_bel_length. transitivity n2; [exact Ly2|symmetry; exact La2]. }
  rewrite (map2_map_Forall _ _ _ (prod_s eps lab ax1 ax2) _ _ (option_map (ps r)) _ _ F1 F2)
    by (intros a b Pa Qb; now apply (prod_s_equivariant eps lab s1 n1 s2 n2)).
  rewrite forallb_is_some_map, unsome_map.
  assert (F12 : Forall (fun c : RS => length (bel c) = (n1 * n2)%nat)
                  (flat_map unsome (map2 (prod_s eps lab ax1 ax2)
                                         (inverse eps y1 ax1 ay1) (inverse eps y2 ax2 ay2)))).
  { apply (unsome_map2_Forall _ _ _ _ _ _ F1 F2). intros a b c Pa Qb.
    now apply (prod_s_length eps lab n1 n2). }
  destruct (forallb is_some _); [|reflexivity]. cbn [option_map]. f_equal.
  set (x12 := flat_map unsome _) in *.
  rewrite !perm_length, (is_perm_length _ _ H1), (is_perm_length _ _ H2), La1, La2.
  rewrite (mbr_equivariant_y eps r (n1 * n2)) by auto.
  rewrite (outer_equivariant s1 n1 s2 n2) by (auto using is_perm_lt). fold r.
  rewrite (or_else_map (pv r)).
  apply (inverse_equivariant_y eps r (n1 * n2)); auto.
  destruct (mbr eps (n1 * n2) ay x12) as [m|] eqn:Em; cbn [or_else].
  - now apply mbr_length in Em.
  - rewrite outer_length. congruence.
Qed.

Lemma merge_cond2_equivariant_y eps lab t ny y1 y2 ax1 ax2 ay :
  is_perm t ny -> length ay = ny ->
  Forall (fun c => length (bel c) = ny) y1 -> Forall (fun c => length (bel c) = ny) y2 ->
  merge_cond2 (B:=FldR) eps lab (map (ps t) y1) (map (ps t) y2) ax1 ax2 (pv t ay)
  = option_map (map (ps t)) (merge_cond2 eps lab y1 y2 ax1 ax2 ay).
Proof.
  intros H La F1 F2. rewrite !merge_cond2_unfold. cbv zeta.
  pose proof (is_perm_lt _ _ H) as Hlt. pose proof (is_perm_length _ _ H) as Lt.
  rewrite perm_length, Lt, La.
  rewrite !(mbr_equivariant_y eps t ny), !(or_else_map (pv t)) by auto.
  set (ay1 := or_else (mbr eps ny ax1 y1) ay). set (ay2 := or_else (mbr eps ny ax2 y2) ay).
  assert (L1 : length ay1 = ny).
  { unfold ay1. destruct (mbr eps ny ax1 y1) eqn:E; cbn [or_else]; auto. now apply mbr_length in E. }
  assert (L2 : length ay2 = ny).
  { unfold ay2. destruct (mbr eps ny ax2 y2) eqn:E; cbn [or_else]; auto. now apply mbr_length in E. }
  rewrite !(inverse_equivariant_y eps t ny) by auto.
  rewrite (perm_map2 _ _ _ (None : option RS) t ny) by (auto; now rewrite inverse_length).
  set (P := map2 (prod_s eps lab ax1 ax2) _ _).
  assert (LP : length P = ny) by (unfold P; rewrite map2_length, !inverse_length; lia).
  rewrite (forallb_Permutation _ _ _ (perm_Permutation _ _ _ _ H LP)).
  destruct (forallb is_some P) eqn:EP; [|reflexivity]. cbn [option_map]. f_equal.
  apply all_some_map in EP. set (x12 := flat_map unsome P) in *.
  assert (Lx : length x12 = ny) by (rewrite EP, map_length in LP; exact LP).
  rewrite EP, <- (perm_map Some (([], None) : RS) None t ny), unsome_map_Some by auto.
  rewrite (mbr_equivariant_x eps t ny) by auto.
  now apply (inverse_equivariant_x eps t ny).
Qed.

(* all three renamings at once *)
Lemma merge_cond2_equivariant eps lab s1 n1 s2 n2 t ny y1 y2 ax1 ax2 ay :
  is_perm s1 n1 -> is_perm s2 n2 -> is_perm t ny ->
  length y1 = n1 -> length ax1 = n1 -> length y2 = n2 -> length ax2 = n2 -> length ay = ny ->
  Forall (fun c => length (bel c) = ny) y1 -> Forall (fun c => length (bel c) = ny) y2 ->
  merge_cond2 (B:=FldR) eps lab (pc s1 (map (ps t) y1)) (pc s2 (map (ps t) y2))
              (pv s1 ax1) (pv s2 ax2) (pv t ay)
  = option_map (fun l => pc (iperm s1 s2 n2) (map (ps t) l))
               (merge_cond2 eps lab y1 y2 ax1 ax2 ay).
Proof.
  intros H1 H2 Ht Ly1 La1 Ly2 La2 La F1 F2.
  rewrite (merge_cond2_equivariant_x eps lab s1 n1 s2 n2) by (auto; now rewrite map_length).
  rewrite (merge_cond2_equivariant_y eps lab t ny) by auto.
  destruct (merge_cond2 _ _ _ _ _ _ _); reflexivity.
Qed.
