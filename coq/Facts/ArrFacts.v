(* Proofs for C18 (index enumeration) and C17 (multi-arrays) about Model/Arr.v against
   Model/ArrSpec.v.  Stdlib only. *)
From Coq Require Import List Bool Arith ZArith Lia.
Import ListNotations.
From SL Require Import Model.Arr Model.ArrSpec.
Local Open Scope nat_scope.

(* ================================================================== lists *)

Lemma map_flat_map : forall {A B C} (f : B -> C) (g : A -> list B) l,
  map f (flat_map g l) = flat_map (fun x => map f (g x)) l.
Proof. induction l; cbn; [reflexivity|]. now rewrite map_app, IHl. Qed.

Lemma flat_map_single : forall {A B} (f : A -> B) l, flat_map (fun x => [f x]) l = map f l.
Proof. induction l; cbn; congruence. Qed.

Lemma flat_map_length_const : forall {A B} (g : A -> list B) m l,
  (forall x, length (g x) = m) -> length (flat_map g l) = length l * m.
Proof. induction l; intros H; cbn; [reflexivity|]. rewrite app_length, H, IHl; auto. Qed.

Lemma map_add_seq : forall a T s, map (fun j => a + j) (seq s T) = seq (a + s) T.
Proof.
  induction T; intros s; cbn; [reflexivity|]. f_equal. rewrite IHT. f_equal. lia.
Qed.

Lemma flat_map_seq_blocks : forall T n s,
  flat_map (fun i => seq (i * T) T) (seq s n) = seq (s * T) (n * T).
Proof.
  induction n; intros s; cbn [seq flat_map]; [reflexivity|].
  rewrite IHn. replace (S n * T) with (T + n * T) by lia.
  rewrite seq_app. f_equal. f_equal. lia.
Qed.

Lemma Forall2_length : forall {A B} (R : A -> B -> Prop) l l', Forall2 R l l' -> length l = length l'.
Proof. induction 1; cbn; congruence. Qed.
Arguments Forall2_length {A B R l l'}.

Lemma total_cons : forall n ds, total (n :: ds) = n * total ds.
Proof. reflexivity. Qed.

Lemma total_app : forall a b, total (a ++ b) = total a * total b.
Proof.
  induction a; intros b; cbn [app].
  - change (total []) with 1. lia.
  - rewrite !total_cons, IHa. lia.
Qed.

Lemma total_rev : forall d, total (rev d) = total d.
Proof. induction d; [reflexivity|]. cbn [rev]. rewrite total_app, IHd. change (total [a]) with (a * 1). change (total (a :: d)) with (a * total d). lia. Qed.

Lemma total_zero : forall dims, total dims = 0 <-> In 0 dims.
Proof.
  induction dims; [cbn; lia|]. rewrite total_cons. cbn [In]. split.
  - intros H. apply Nat.eq_mul_0 in H. destruct H; [left; auto|right; apply IHdims; auto].
  - intros [H|H]; [subst; reflexivity|]. apply IHdims in H. rewrite H. lia.
Qed.

(* ============================================================ C18: lex *)

Lemma map_offset_lex : forall dims, map (offset dims) (lex dims) = seq 0 (total dims).
Proof.
  induction dims as [|n ds IH]; [reflexivity|].
  cbn [lex]. rewrite map_flat_map.
  rewrite (flat_map_ext _ (fun i => seq (i * total ds) (total ds))).
  - rewrite flat_map_seq_blocks. reflexivity.
  - intros i. rewrite map_map. cbn [offset].
    rewrite <- (map_map (offset ds) (fun j => i * total ds + j)), IH, map_add_seq.
    f_equal. lia.
Qed.

Lemma lex_length : forall dims, length (lex dims) = total dims.
Proof. intros. rewrite <- (map_length (offset dims)), map_offset_lex. apply seq_length. Qed.

Lemma lex_NoDup : forall dims, NoDup (lex dims).
Proof.
  intros. apply (NoDup_map_inv (offset dims)). rewrite map_offset_lex. apply seq_NoDup.
Qed.

Lemma lex_In : forall dims k, In k (lex dims) <-> Forall2 lt k dims.
Proof.
  induction dims as [|n ds IH]; intros k; cbn [lex].
  - split; [intros [<-|[]]; constructor | intros H; inversion H; now left].
  - rewrite in_flat_map. split.
    + intros (i & Hi & Hk). apply in_map_iff in Hk. destruct Hk as (ks & <- & Hks).
      apply in_seq in Hi. constructor; [lia| now apply IH].
    + intros H. inversion H as [|i n' ks ds' Hi Hks]; subst. exists i. split.
      * apply in_seq. lia.
      * apply in_map. now apply IH.
Qed.

Lemma lex_In_length : forall dims k, In k (lex dims) -> length k = length dims.
Proof. intros dims k H. apply lex_In in H. eapply Forall2_length; eauto. Qed.

Lemma inb_spec : forall dims k, inb dims k = true <-> Forall2 lt k dims.
Proof.
  induction dims as [|n ds IH]; intros [|i ks]; cbn [inb]; split; intros H;
    try discriminate; try (now inversion H); try constructor.
  - apply andb_prop in H. destruct H as [H _]. now apply Nat.ltb_lt.
  - apply andb_prop in H. destruct H as [_ H]. now apply IH.
  - inversion H; subst. apply andb_true_intro. split; [now apply Nat.ltb_lt| now apply IH].
Qed.

Lemma inb_In : forall dims k, inb dims k = true <-> In k (lex dims).
Proof. intros. rewrite inb_spec. symmetry. apply lex_In. Qed.

Lemma inb_false_In : forall dims k, inb dims k = false <-> ~ In k (lex dims).
Proof. intros. rewrite <- inb_In. destruct (inb dims k); split; congruence. Qed.

(* offsets of the enumeration are 0, 1, 2, ...: the enumeration is strictly increasing *)
Lemma lex_nth_offset : forall dims i, i < total dims -> offset dims (nth i (lex dims) []) = i.
Proof.
  intros dims i Hi.
  assert (H : nth i (map (offset dims) (lex dims)) (offset dims []) = i).
  { rewrite map_offset_lex. rewrite nth_indep with (d' := 0) by (rewrite seq_length; lia).
    now rewrite seq_nth. }
  now rewrite map_nth in H.
Qed.

Lemma offset_lt : forall dims k, In k (lex dims) -> offset dims k < total dims.
Proof.
  intros dims k H. apply (in_map (offset dims)) in H. rewrite map_offset_lex in H.
  apply in_seq in H. lia.
Qed.

Lemma lex_nth_error_offset : forall dims k, In k (lex dims) ->
  nth_error (lex dims) (offset dims k) = Some k.
Proof.
  intros dims k H. destruct (In_nth_error _ _ H) as [i Hi].
  assert (Hlt : i < total dims).
  { rewrite <- lex_length. apply nth_error_Some. congruence. }
  assert (offset dims k = i).
  { rewrite <- (lex_nth_offset dims i Hlt). f_equal. symmetry. now apply nth_error_nth. }
  congruence.
Qed.

Lemma offset_inj : forall dims k k', In k (lex dims) -> In k' (lex dims) ->
  offset dims k = offset dims k' -> k = k'.
Proof.
  intros dims k k' H H' E. apply lex_nth_error_offset in H, H'. rewrite E in H. congruence.
Qed.

Lemma lex_empty : forall dims, In 0 dims -> lex dims = [].
Proof.
  intros dims H. apply total_zero in H. apply length_zero_iff_nil. now rewrite lex_length.
Qed.

(* the lexicographic order on the box is the order of the offsets *)
Lemma lex_lt_offset : forall dims k k', Forall2 lt k dims -> Forall2 lt k' dims ->
  (lex_lt k k' <-> offset dims k < offset dims k').
Proof.
  induction dims as [|n ds IH]; intros k k' H H'.
  - inversion H; inversion H'; subst. cbn. split; [intros L; inversion L|lia].
  - inversion H as [|i ? ks ? Hi Hks]; inversion H' as [|i' ? ks' ? Hi' Hks']; subst.
    cbn [offset].
    assert (B : offset ds ks < total ds) by (apply offset_lt; now apply lex_In).
    assert (B' : offset ds ks' < total ds) by (apply offset_lt; now apply lex_In).
    split.
    + intros L. inversion L; subst.
      * nia.
      * apply IH in H1; auto. lia.
    + intros L. destruct (Nat.lt_trichotomy i i') as [E|[E|E]].
      * now constructor.
      * subst. apply lex_lt_tl. apply IH; auto. lia.
      * exfalso. nia.
Qed.

Lemma lex_nth_In : forall dims i, i < total dims -> In (nth i (lex dims) []) (lex dims).
Proof. intros. apply nth_In. now rewrite lex_length. Qed.

Lemma lex_sorted : forall dims i j, i < j -> j < total dims ->
  lex_lt (nth i (lex dims) []) (nth j (lex dims) []).
Proof.
  intros dims i j Hij Hj.
  apply (lex_lt_offset dims).
  - apply lex_In, lex_nth_In. lia.
  - apply lex_In, lex_nth_In. lia.
  - rewrite !lex_nth_offset by lia. exact Hij.
Qed.

Lemma iproduct_lex : forall dims, iproduct dims = lex dims.
Proof. induction dims; cbn; [reflexivity|]. unfold keys. now rewrite IHdims. Qed.

(* ===================================================== C18: the odometer *)

(* little-endian value of a reversed tuple *)
Fixpoint roffset (rk rs : list nat) : nat :=
  match rk, rs with
  | k :: rk', s :: rs' => k + s * roffset rk' rs'
  | _, _ => 0
  end.

Lemma offset_snoc : forall dims k s i, length k = length dims ->
  offset (dims ++ [s]) (k ++ [i]) = offset dims k * s + i.
Proof.
  induction dims as [|n ds IH]; intros [|j ks] s i L; try discriminate.
  - cbn. lia.
  - cbn [app offset]. rewrite IH by (cbn in L; lia). rewrite total_app. cbn. lia.
Qed.

Lemma roffset_offset : forall rk rs, length rk = length rs ->
  roffset rk rs = offset (rev rs) (rev rk).
Proof.
  induction rk as [|k rk IH]; intros [|s rs] L; try discriminate; [reflexivity|].
  cbn [roffset rev]. rewrite offset_snoc by (rewrite !rev_length; cbn in L; lia).
  rewrite <- IH by (cbn in L; lia). lia.
Qed.

Lemma offset_roffset : forall dims k, length k = length dims ->
  offset dims k = roffset (rev k) (rev dims).
Proof.
  intros. rewrite roffset_offset by (now rewrite !rev_length). now rewrite !rev_involutive.
Qed.

Lemma Forall2_rev : forall {A B} (R : A -> B -> Prop) l l',
  Forall2 R l l' -> Forall2 R (rev l) (rev l').
Proof.
  induction 1; cbn; [constructor|]. apply Forall2_app; auto.
Qed.

Lemma mr_incr_cons : forall k rk s rs,
  mr_incr (k :: rk) (s :: rs) =
  if S k <? s then Some (S k :: rk) else option_map (cons 0) (mr_incr rk rs).
Proof.
  intros. cbn [mr_incr]. destruct (S k <? s); [reflexivity|].
  destruct rk; [|reflexivity]. destruct rs; reflexivity.
Qed.

Lemma mr_incr_spec : forall rk rs, Forall2 lt rk rs ->
  match mr_incr rk rs with
  | Some rk' => Forall2 lt rk' rs /\ roffset rk' rs = S (roffset rk rs)
  | None => S (roffset rk rs) = total rs
  end.
Proof.
  induction 1 as [|k s rk rs Hk H IH]; [reflexivity|].
  rewrite mr_incr_cons. destruct (S k <? s) eqn:E.
  - apply Nat.ltb_lt in E. split; [constructor; auto|]. cbn. lia.
  - apply Nat.ltb_ge in E. assert (s = S k) by lia. clear E.
    destruct (mr_incr rk rs) as [r|]; cbn [option_map].
    + destruct IH as [IH1 IH2]. split; [constructor; [lia|auto]|].
      cbn [roffset]. rewrite IH2. subst s. lia.
    + rewrite total_cons. cbn [roffset]. rewrite <- IH. subst s. lia.
Qed.

(* the successor in mixed-radix numbering, or exhaustion at the last tuple *)
Lemma mr_step : forall dims k, Forall2 lt k dims ->
  match option_map (@rev nat) (mr_incr (rev k) (rev dims)) with
  | Some k' => Forall2 lt k' dims /\ offset dims k' = S (offset dims k)
  | None => S (offset dims k) = total dims
  end.
Proof.
  intros dims k H. pose proof (Forall2_length H) as L.
  pose proof (mr_incr_spec _ _ (Forall2_rev _ _ _ H)) as S.
  rewrite (offset_roffset dims k L).
  destruct (mr_incr (rev k) (rev dims)) as [rk'|]; cbn [option_map].
  - destruct S as [S1 S2]. split.
    + apply Forall2_rev in S1. now rewrite rev_involutive in S1.
    + rewrite offset_roffset, rev_involutive; auto.
      apply Forall2_length in S1. rewrite rev_length in *. congruence.
  - now rewrite total_rev in S.
Qed.

Lemma drive_none : forall dims fuel, drive (mr_next dims) fuel None = [].
Proof. destruct fuel; reflexivity. Qed.

Lemma skipn_nth_error : forall {A} (l : list A) i x,
  nth_error l i = Some x -> skipn i l = x :: skipn (S i) l.
Proof.
  induction l; intros [|i] x H; cbn in *; try discriminate.
  - congruence.
  - now apply IHl.
Qed.

Lemma drive_mr : forall dims fuel k, Forall2 lt k dims ->
  drive (mr_next dims) fuel (Some k) = firstn fuel (skipn (offset dims k) (lex dims)).
Proof.
  induction fuel as [|fuel IH]; intros k H; [reflexivity|].
  cbn [drive mr_next].
  rewrite (skipn_nth_error _ _ k) by (apply lex_nth_error_offset; now apply lex_In).
  cbn [firstn]. f_equal.
  pose proof (mr_step dims k H) as S.
  destruct (option_map _ _) as [k'|].
  - destruct S as [S1 S2]. rewrite IH by auto. now rewrite S2.
  - rewrite drive_none, S. rewrite skipn_all2 by (rewrite lex_length; lia).
    now rewrite firstn_nil.
Qed.

Lemma forallb_pos : forall dims, forallb (fun s => 0 <? s) dims = negb (total dims =? 0).
Proof.
  induction dims as [|n ds IH]; [reflexivity|]. cbn [forallb]. rewrite IH, total_cons.
  destruct n; [reflexivity|]. cbn [Nat.ltb Nat.leb andb].
  destruct (total ds) eqn:E; [now rewrite Nat.mul_0_r|]. reflexivity.
Qed.

Lemma zeros_in_box : forall dims, total dims <> 0 -> Forall2 lt (repeat 0 (length dims)) dims.
Proof.
  induction dims as [|n ds IH]; intros H; cbn; constructor; rewrite total_cons in H.
  - destruct n; lia.
  - apply IH. intros E. rewrite E in H. lia.
Qed.

Lemma offset_zeros : forall dims, offset dims (repeat 0 (length dims)) = 0.
Proof. induction dims; cbn; auto. Qed.

Lemma mr_new_spec : forall dims,
  mr_new dims = if total dims =? 0 then None else Some (repeat 0 (length dims)).
Proof. intros. unfold mr_new. rewrite forallb_pos. now destruct (total dims =? 0). Qed.

Lemma mr_indexes_lex : forall dims, mr_indexes dims = lex dims.
Proof.
  intros dims. unfold mr_indexes. rewrite mr_new_spec. destruct (total dims =? 0) eqn:E.
  - apply Nat.eqb_eq in E. rewrite drive_none. symmetry. apply length_zero_iff_nil.
    now rewrite lex_length.
  - apply Nat.eqb_neq in E. rewrite drive_mr by now apply zeros_in_box.
    rewrite offset_zeros. cbn [skipn]. apply firstn_all2. rewrite lex_length. lia.
Qed.

Lemma after_none : forall dims fuel, after (mr_next dims) fuel None = None.
Proof. induction fuel; cbn; auto. Qed.

Lemma after_mr : forall dims fuel k, Forall2 lt k dims ->
  total dims - offset dims k <= fuel -> after (mr_next dims) fuel (Some k) = None.
Proof.
  induction fuel as [|fuel IH]; intros k H Hf.
  - pose proof (offset_lt dims k (proj2 (lex_In _ _) H)). lia.
  - cbn [after mr_next snd]. pose proof (mr_step dims k H) as S.
    destruct (option_map _ _) as [k'|].
    + destruct S as [S1 S2]. apply IH; auto. lia.
    + apply after_none.
Qed.

Lemma mr_exhausted_spec : forall dims, mr_exhausted dims = [1%Z; 1%Z].
Proof.
  intros dims. unfold mr_exhausted.
  assert (E : after (mr_next dims) (S (total dims)) (mr_new dims) = None).
  { rewrite mr_new_spec. destruct (total dims =? 0) eqn:E; [apply after_none|].
    apply Nat.eqb_neq in E. apply after_mr; [now apply zeros_in_box|]. lia. }
  rewrite E. reflexivity.
Qed.

Lemma indexes_lex : forall f dims, indexes f dims = lex dims.
Proof. intros [|] dims; cbn; [apply mr_indexes_lex | apply iproduct_lex]. Qed.

(* ============================================================ C17: lists *)

Lemma Forall_nth_error : forall {A} (P : A -> Prop) l i x,
  Forall P l -> nth_error l i = Some x -> P x.
Proof. intros A P l i x H E. apply nth_error_In in E. rewrite Forall_forall in H. auto. Qed.

Lemma upd_length : forall {X} (l : list X) i f, length (upd l i f) = length l.
Proof. induction l; intros [|i] f; cbn; auto. Qed.

Lemma nth_error_upd : forall {X} (l : list X) i j f,
  nth_error (upd l i f) j = if i =? j then option_map f (nth_error l j) else nth_error l j.
Proof.
  induction l; intros [|i] [|j] f; cbn; auto. now destruct (i =? j).
Qed.

Lemma upd_app_l : forall {X} (l1 l2 : list X) i f, i < length l1 ->
  upd (l1 ++ l2) i f = upd l1 i f ++ l2.
Proof.
  induction l1; intros l2 [|i] f L; cbn in *; try lia; auto. f_equal. apply IHl1. lia.
Qed.

Lemma upd_app_r : forall {X} (l1 l2 : list X) j f,
  upd (l1 ++ l2) (length l1 + j) f = l1 ++ upd l2 j f.
Proof. induction l1; intros; cbn; auto. f_equal. apply IHl1. Qed.

Lemma upd_Forall : forall {X} (P : X -> Prop) l i g,
  Forall P l -> (forall x, P x -> P (g x)) -> Forall P (upd l i g).
Proof.
  induction l; intros [|i] g H Hg; cbn; auto; inversion H; subst; constructor; auto.
Qed.

Lemma upd_ext_at : forall {X} (l : list X) i x f,
  nth_error l i = Some x -> upd l i (fun _ => f x) = upd l i f.
Proof.
  induction l; intros [|i] x f H; cbn in *; try discriminate.
  - congruence.
  - f_equal. now apply IHl.
Qed.

Lemma map_upd : forall {A B} (h : A -> B) G G' c i,
  (forall m, In m c -> h (G m) = G' (h m)) -> map h (upd c i G) = upd (map h c) i G'.
Proof.
  induction c; intros [|i] H; cbn; auto.
  - f_equal. apply H. now left.
  - f_equal. apply IHc. intros m Hm. apply H. now right.
Qed.

Lemma concat_length_uniform : forall {X} n (c : list (list X)),
  Forall (fun r => length r = n) c -> length (concat c) = length c * n.
Proof.
  induction 1; cbn; auto. rewrite app_length. lia.
Qed.

Lemma concat_all_nil : forall {A X} (f : A -> list X) l,
  Forall (fun s => f s = []) l -> concat (map f l) = [].
Proof. induction 1; cbn; auto. now rewrite H, IHForall. Qed.

Lemma nth_error_concat : forall {X} n (c : list (list X)) i r j,
  Forall (fun r => length r = n) c -> nth_error c i = Some r -> j < n ->
  nth_error (concat c) (i * n + j) = nth_error r j.
Proof.
  induction c as [|a c IH]; intros [|i] r j H E L; cbn in E; try discriminate;
    inversion H; subst; cbn [concat].
  - injection E as ->. cbn. apply nth_error_app1. lia.
  - rewrite nth_error_app2 by lia.
    replace (S i * length a + j - length a) with (i * length a + j) by lia.
    now apply IH.
Qed.

Lemma skipn_add : forall {X} a b (l : list X), skipn (a + b) l = skipn b (skipn a l).
Proof. induction a; intros b [|x l]; cbn; auto. now destruct b. Qed.

Lemma firstn_add : forall {X} a b (l : list X),
  firstn (a + b) l = firstn a l ++ firstn b (skipn a l).
Proof. induction a; intros b [|x l]; cbn; auto. - now destruct b. - now rewrite IHa. Qed.

Lemma firstn_skipn_concat : forall {X} n (c : list (list X)) i r,
  Forall (fun r => length r = n) c -> nth_error c i = Some r ->
  firstn n (skipn (i * n) (concat c)) = r.
Proof.
  induction c as [|a c IH]; intros [|i] r H E; cbn in E; try discriminate;
    inversion H; subst; cbn [concat].
  - injection E as ->. cbn [Nat.mul skipn]. rewrite firstn_app, Nat.sub_diag, firstn_all.
    cbn. apply app_nil_r.
  - replace (S i * length a) with (length a + i * length a) by lia.
    rewrite skipn_add, skipn_app, skipn_all, Nat.sub_diag. cbn [app skipn].
    now apply IH.
Qed.

Lemma concat_upd : forall {X} n (c : list (list X)) i j g f,
  Forall (fun r => length r = n) c -> j < n -> i < length c ->
  (forall r, In r c -> g r = upd r j f) ->
  concat (upd c i g) = upd (concat c) (i * n + j) f.
Proof.
  induction c as [|a c IH]; intros [|i] j g f H Lj Li Hg; cbn in Li; try lia;
    inversion H; subst; cbn [upd concat].
  - rewrite Hg by now left. cbn [Nat.mul Nat.add]. rewrite upd_app_l by lia. reflexivity.
  - rewrite (IH i j g f); auto; try lia.
    + replace (S i * length a + j) with (length a + (i * length a + j)) by lia.
      now rewrite upd_app_r.
    + intros r Hr. apply Hg. now right.
Qed.

Lemma len2_length : forall {X} (c : list (list X)), len2 c = length (concat c).
Proof. induction c; cbn; auto. rewrite app_length. now rewrite <- IHc. Qed.

Lemma len3_length : forall {X} (c : list (list (list X))), len3 c = length (concat (map (@concat X) c)).
Proof. induction c; cbn; auto. rewrite app_length, <- IHc. now rewrite len2_length. Qed.

Lemma uniform_len : forall {A X} (f : A -> list X) m l,
  Forall (fun s => length (f s) = m) l ->
  Forall (fun s => f s <> []) l \/ Forall (fun s => f s = []) l.
Proof.
  intros A X f [|m] l H; [right|left]; eapply Forall_impl; try exact H; cbn; intros s E.
  - now apply length_zero_iff_nil.
  - intros E'. rewrite E' in E. discriminate.
Qed.

(* ================================================= C17: iterator machines *)

Section Machine.
  Context {T X : Type} (P : T -> Prop) (next : T -> option X * T) (den : T -> list X).

  (* [next] pops the elements of [den t] one by one, on states satisfying [P] *)
  Definition machine : Prop := forall t, P t ->
    match den t with
    | [] => fst (next t) = None
    | x :: r => exists t', next t = (Some x, t') /\ den t' = r /\ P t'
    end.

  Lemma drive_machine : machine -> forall fuel t, P t -> length (den t) < fuel ->
    drive next fuel t = den t.
  Proof.
    intros M. induction fuel as [|fuel IH]; intros t Pt L; [lia|].
    cbn [drive]. specialize (M t Pt). destruct (den t) as [|x r] eqn:E.
    - destruct (next t) as [o t']. cbn in M. subst o. reflexivity.
    - destruct M as (t' & E1 & E2 & P'). rewrite E1. f_equal. rewrite <- E2.
      apply IH; auto. rewrite E2. cbn in L. lia.
  Qed.
End Machine.

Lemma slice_machine : forall X, machine (fun _ : list X => True) slice_next (fun l => l).
Proof. intros X [|x r] _; cbn; eauto. Qed.

Section Fiter.
  Context {U T X : Type} (into : U -> T) (P : T -> Prop)
          (inner : T -> option X * T) (den : T -> list X).

  Definition uniform (l : list U) : Prop :=
    Forall (fun s => den (into s) <> []) l \/ Forall (fun s => den (into s) = []) l.

  Definition fden (st : fiter U T) : list X :=
    match f_cur st with
    | None => []
    | Some it => den it ++ concat (map (fun s => den (into s)) (f_rest st))
    end.

  Definition fP (st : fiter U T) : Prop :=
    match f_cur st with
    | None => True
    | Some it => P it /\ Forall (fun s => P (into s)) (f_rest st) /\ uniform (f_rest st)
    end.

  Lemma fiter_machine : machine P inner den -> machine fP (fiter_next into inner) fden.
  Proof.
    intros M [rest cur] HP. unfold fden, fP, fiter_next in *. cbn [f_cur f_rest] in *.
    destruct cur as [it|]; [|reflexivity].
    destruct HP as (Pit & Prest & Un). pose proof (M it Pit) as Mit.
    destruct (den it) as [|x r] eqn:E.
    - destruct (inner it) as [o it'] eqn:Ei. cbn in Mit. subst o. cbn [app].
      destruct rest as [|s rest'].
      + reflexivity.
      + cbn [map concat]. inversion Prest as [|? ? Ps Prest']; subst.
        pose proof (M (into s) Ps) as Ms.
        destruct (den (into s)) as [|y r'] eqn:Es.
        * cbn [app].
          assert (N : concat (map (fun s => den (into s)) rest') = []).
          { destruct Un as [Un|Un]; inversion Un; subst; [congruence|].
            now apply concat_all_nil. }
          rewrite N. destruct (inner (into s)) as [o t2]. cbn in Ms. subst o. reflexivity.
        * destruct Ms as (t' & E1 & E2 & P'). rewrite E1. cbn [app].
          exists (mkfiter rest' (Some t')). split; [reflexivity|]. cbn [f_cur f_rest].
          rewrite E2. split; [reflexivity|]. split; [auto|]. split; [auto|].
          destruct Un as [Un|Un]; inversion Un; subst; [left|right]; auto.
    - destruct Mit as (it' & E1 & E2 & P'). rewrite E1. cbn [app].
      exists (mkfiter rest (Some it')). split; [reflexivity|]. cbn [f_cur f_rest].
      rewrite E2. split; [reflexivity|]. auto.
  Qed.

  Lemma fden_new : forall l, fden (fiter_new into l) = concat (map (fun s => den (into s)) l).
  Proof. intros [|s l]; reflexivity. Qed.

  Lemma fP_new : forall l, Forall (fun s => P (into s)) l -> uniform l -> fP (fiter_new into l).
  Proof.
    intros [|s l] H Un; cbn; auto. inversion H; subst. split; [auto|]. split; [auto|].
    destruct Un as [Un|Un]; inversion Un; subst; [left|right]; auto.
  Qed.
End Fiter.

(* rank 2 *)
Definition den2 {X} : it2 X -> list X := fden (fun s : list X => s) (fun l => l).
Definition P2 {X} : it2 X -> Prop := fP (fun s : list X => s) (fun _ => True) (fun l => l).

Lemma machine2 : forall X, machine (@P2 X) it2_next den2.
Proof. intros X. apply fiter_machine. apply slice_machine. Qed.

Lemma den2_new : forall X (c : list (list X)), den2 (it2_new c) = concat c.
Proof. intros. unfold den2, it2_new. rewrite fden_new. now rewrite map_id. Qed.

Lemma P2_new : forall X n (c : list (list X)),
  Forall (fun r => length r = n) c -> P2 (it2_new c).
Proof.
  intros X n c H. apply fP_new.
  - apply Forall_forall. auto.
  - apply (uniform_len (fun s : list X => s) n). exact H.
Qed.

Lemma iter2_concat : forall X n (c : list (list X)),
  Forall (fun r => length r = n) c -> iter2 c = concat c.
Proof.
  intros X n c H. unfold iter2.
  rewrite (drive_machine P2 it2_next den2 (machine2 X)).
  - apply den2_new.
  - now apply (P2_new X n).
  - rewrite den2_new, len2_length. lia.
Qed.

(* rank 3 *)
Definition den3 {X} : it3 X -> list X := fden it2_new den2.
Definition P3 {X} : it3 X -> Prop := fP it2_new (@P2 X) den2.

Lemma machine3 : forall X, machine (@P3 X) it3_next den3.
Proof. intros X. apply fiter_machine. apply machine2. Qed.

Lemma den3_new : forall X (c : list (list (list X))), den3 (it3_new c) = concat (map (@concat X) c).
Proof.
  intros. unfold den3, it3_new. rewrite fden_new. f_equal. apply map_ext. intros m. apply den2_new.
Qed.

Lemma iter3_concat : forall X n1 n2 (c : list (list (list X))),
  Forall (fun m => length m = n1 /\ Forall (fun r => length r = n2) m) c ->
  iter3 c = concat (map (@concat X) c).
Proof.
  intros X n1 n2 c H. unfold iter3.
  rewrite (drive_machine P3 it3_next den3 (machine3 X)).
  - apply den3_new.
  - apply fP_new.
    + eapply Forall_impl; [|exact H]. cbn. intros m [_ Hm]. now apply (P2_new X n2).
    + apply (uniform_len (fun m => den2 (it2_new m)) (n1 * n2)).
      eapply Forall_impl; [|exact H]. cbn. intros m [L Hm].
      rewrite den2_new, (concat_length_uniform n2) by auto. now rewrite L.
  - rewrite den3_new, len3_length. lia.
Qed.

Lemma iter1_id : forall X (c : list X), iter1 c = c.
Proof.
  intros. unfold iter1.
  now rewrite (drive_machine (fun _ => True) slice_next (fun l => l) (slice_machine X)) by (auto; lia).
Qed.

Lemma iter_is_flatten_lemma : forall dims a, shaped dims a -> iter_arr a = flatten a.
Proof.
  intros dims [c|c|c] H; destruct dims as [|n0 [|n1 [|n2 [|]]]]; cbn in H; try contradiction; cbn.
  - apply iter1_id.
  - destruct H as [_ H]. now apply (iter2_concat Z n1).
  - destruct H as [_ H]. now apply (iter3_concat Z n1 n2).
Qed.

(* ================================================== C17: shape, get and set *)

Ltac shp a dims H :=
  destruct a as [?c|?c|?c]; destruct dims as [|?n0 [|?n1 [|?n2 [|? ?]]]];
  cbn [shaped] in H; try contradiction.

Lemma offset1 : forall n0 i, offset [n0] [i] = i.
Proof. intros. cbn. lia. Qed.
Lemma offset2 : forall n0 n1 i j, offset [n0; n1] [i; j] = i * n1 + j.
Proof. intros. cbn. lia. Qed.
Lemma offset3 : forall n0 n1 n2 i j l, offset [n0; n1; n2] [i; j; l] = i * (n1 * n2) + (j * n2 + l).
Proof. intros. cbn. lia. Qed.
Lemma total1 : forall n0, total [n0] = n0.
Proof. intros. cbn. lia. Qed.
Lemma total2 : forall n0 n1, total [n0; n1] = n0 * n1.
Proof. intros. cbn. lia. Qed.
Lemma total3 : forall n0 n1 n2, total [n0; n1; n2] = n0 * (n1 * n2).
Proof. intros. cbn. lia. Qed.
Lemma inb1 : forall n0 i, inb [n0] [i] = (i <? n0).
Proof. intros. cbn. apply andb_true_r. Qed.
Lemma inb2 : forall n0 n1 i j, inb [n0; n1] [i; j] = (i <? n0) && (j <? n1).
Proof. intros. cbn. now rewrite andb_true_r. Qed.
Lemma inb3 : forall n0 n1 n2 i j l, inb [n0; n1; n2] [i; j; l] = (i <? n0) && ((j <? n1) && (l <? n2)).
Proof. intros. cbn. now rewrite andb_true_r. Qed.

Lemma Forall_concat_len : forall {X} n1 n2 (c : list (list (list X))),
  Forall (fun m => length m = n1 /\ Forall (fun r => length r = n2) m) c ->
  Forall (fun r => length r = n1 * n2) (map (@concat X) c).
Proof.
  intros X n1 n2 c H. apply Forall_map. eapply Forall_impl; [|exact H]. cbn.
  intros m [L Hm]. rewrite (concat_length_uniform n2) by auto. now rewrite L.
Qed.

Lemma flatten_length : forall dims a, shaped dims a -> length (flatten a) = total dims.
Proof.
  intros dims a H. shp a dims H; cbn [flatten].
  - now rewrite total1.
  - destruct H as [L H]. rewrite (concat_length_uniform n1), total2 by auto. now rewrite L.
  - destruct H as [L H]. rewrite (concat_length_uniform (n1 * n2)), total3, map_length.
    + now rewrite L.
    + now apply Forall_concat_len.
Qed.

Lemma nth_res_ge : forall {X} (l : list X) i, length l <= i -> nth_res l i = Panic.
Proof. intros X l i H. unfold nth_res. apply nth_error_None in H. now rewrite H. Qed.

Lemma get1 : forall n0 c k, length c = n0 -> get (A1 c) k = fget [n0] c k.
Proof.
  intros n0 c k L. unfold fget. destruct k as [|i [|j k]]; cbn [get].
  - reflexivity.
  - rewrite inb1, offset1. destruct (i <? n0) eqn:E; [reflexivity|].
    apply Nat.ltb_ge in E. apply nth_res_ge. lia.
  - cbn. now rewrite andb_false_r.
Qed.

Lemma get2 : forall n0 n1 c k, length c = n0 -> Forall (fun r => length r = n1) c ->
  get (A2 c) k = fget [n0; n1] (concat c) k.
Proof.
  intros n0 n1 c k L H. unfold fget. destruct k as [|i [|j [|l k]]]; cbn [get].
  - reflexivity.
  - cbn. now rewrite andb_false_r.
  - rewrite inb2, offset2. unfold nth_res.
    destruct (nth_error c i) as [r|] eqn:E1.
    + assert (Li : i < n0) by (rewrite <- L; apply nth_error_Some; congruence).
      assert (Lr : length r = n1) by (eapply Forall_nth_error in H; eauto).
      apply Nat.ltb_lt in Li as Li'. rewrite Li'. cbn [andb].
      destruct (j <? n1) eqn:E2.
      * apply Nat.ltb_lt in E2. now rewrite (nth_error_concat n1 c i r j).
      * apply Nat.ltb_ge in E2. assert (N : nth_error r j = None) by (apply nth_error_None; lia).
        now rewrite N.
    + apply nth_error_None in E1. assert (F : i <? n0 = false) by (apply Nat.ltb_ge; lia).
      now rewrite F.
  - cbn. now rewrite !andb_false_r.
Qed.

Lemma get3 : forall n0 n1 n2 c k, length c = n0 ->
  Forall (fun m => length m = n1 /\ Forall (fun r => length r = n2) m) c ->
  get (A3 c) k = fget [n0; n1; n2] (concat (map (@concat Z) c)) k.
Proof.
  intros n0 n1 n2 c k L H. unfold fget. destruct k as [|i [|j [|l [|x k]]]]; cbn [get].
  - reflexivity.
  - cbn. now rewrite andb_false_r.
  - cbn. now rewrite !andb_false_r.
  - rewrite inb3, offset3. unfold nth_res.
    destruct (nth_error c i) as [m|] eqn:E1.
    + assert (Li : i < n0) by (rewrite <- L; apply nth_error_Some; congruence).
      destruct (Forall_nth_error _ _ _ _ H E1) as [Lm Hm].
      apply Nat.ltb_lt in Li as Li'. rewrite Li'. cbn [andb].
      destruct (nth_error m j) as [r|] eqn:E2.
      * assert (Lj : j < n1) by (rewrite <- Lm; apply nth_error_Some; congruence).
        assert (Lr : length r = n2) by (eapply Forall_nth_error in Hm; eauto).
        apply Nat.ltb_lt in Lj as Lj'. rewrite Lj'. cbn [andb].
        destruct (l <? n2) eqn:E3.
        -- apply Nat.ltb_lt in E3.
           rewrite (nth_error_concat (n1 * n2) (map (@concat Z) c) i (concat m) (j * n2 + l)).
           ++ now rewrite (nth_error_concat n2 m j r l).
           ++ now apply Forall_concat_len.
           ++ now apply map_nth_error.
           ++ nia.
        -- apply Nat.ltb_ge in E3. assert (N : nth_error r l = None) by (apply nth_error_None; lia).
           now rewrite N.
      * apply nth_error_None in E2. assert (F : j <? n1 = false) by (apply Nat.ltb_ge; lia).
        now rewrite F.
    + apply nth_error_None in E1. assert (F : i <? n0 = false) by (apply Nat.ltb_ge; lia).
      now rewrite F.
  - cbn. now rewrite !andb_false_r.
Qed.

Lemma get_fget : forall dims a k, shaped dims a -> get a k = fget dims (flatten a) k.
Proof.
  intros dims a k H. shp a dims H; cbn [flatten].
  - now apply get1.
  - destruct H. now apply get2.
  - destruct H. now apply get3.
Qed.

Lemma fget_in : forall dims st k, length st = total dims -> In k (lex dims) ->
  exists v, fget dims st k = Ok v /\ nth_error st (offset dims k) = Some v.
Proof.
  intros dims st k L H. unfold fget. rewrite (proj2 (inb_In dims k) H). unfold nth_res.
  destruct (nth_error st (offset dims k)) as [v|] eqn:E; [eauto|].
  apply nth_error_None in E. apply offset_lt in H. lia.
Qed.

(* the nested write is the flat write *)
Lemma set_fset : forall dims a k v, shaped dims a ->
  match fset dims (flatten a) k v with
  | Ok st' => exists a', set a k v = Ok a' /\ shaped dims a' /\ flatten a' = st'
  | Panic => set a k v = Panic
  end.
Proof.
  intros dims a k v H. unfold set, fset. rewrite (get_fget dims a k H).
  pose proof (flatten_length dims a H) as FL. unfold fget.
  destruct (inb dims k) eqn:E; [|reflexivity].
  apply inb_In in E. destruct (fget_in dims (flatten a) k FL E) as (x & _ & Ex).
  unfold nth_res. rewrite Ex. apply inb_In in E.
  shp a dims H.
  - destruct k as [|i [|j k]]; cbn in E; rewrite ?andb_false_r in E; try discriminate.
    eexists. split; [reflexivity|]. cbn [shaped flatten]. rewrite upd_length, offset1. split; auto.
  - destruct k as [|i [|j [|l k]]]; cbn in E; rewrite ?andb_false_r in E; try discriminate.
    destruct H as [L H]. rewrite andb_true_r in E. apply andb_prop in E. destruct E as [Ei Ej].
    apply Nat.ltb_lt in Ei, Ej.
    eexists. split; [reflexivity|]. cbn [shaped flatten]. rewrite upd_length. split; [split; auto|].
    + apply upd_Forall; auto. intros r Hr. now rewrite upd_length.
    + rewrite offset2. apply (concat_upd n1); auto. lia.
  - destruct k as [|i [|j [|l [|y k]]]]; cbn in E; rewrite ?andb_false_r in E; try discriminate.
    destruct H as [L H]. rewrite andb_true_r in E. apply andb_prop in E. destruct E as [Ei E].
    apply andb_prop in E. destruct E as [Ej El]. apply Nat.ltb_lt in Ei, Ej, El.
    eexists. split; [reflexivity|]. cbn [shaped flatten]. rewrite upd_length. split; [split; auto|].
    + apply upd_Forall; auto. intros m [Lm Hm]. rewrite upd_length. split; auto.
      apply upd_Forall; auto. intros r Hr. now rewrite upd_length.
    + rewrite offset3.
      rewrite (map_upd (@concat Z) _ (fun fm => upd fm (j * n2 + l) (fun _ => v))).
      * apply (concat_upd (n1 * n2)); auto.
        -- now apply Forall_concat_len.
        -- nia.
        -- rewrite map_length. lia.
      * intros m Hm. rewrite Forall_forall in H. destruct (H m Hm) as [Lm Hm'].
        apply (concat_upd n2); auto. lia.
Qed.

Lemma set_in : forall dims a k v, shaped dims a -> In k (lex dims) ->
  exists a', set a k v = Ok a' /\ shaped dims a' /\
             flatten a' = upd (flatten a) (offset dims k) (fun _ => v).
Proof.
  intros dims a k v H Hk. pose proof (set_fset dims a k v H) as S. unfold fset in S.
  now rewrite (proj2 (inb_In dims k) Hk) in S.
Qed.

Lemma set_out : forall dims a k v, shaped dims a -> ~ In k (lex dims) -> set a k v = Panic.
Proof.
  intros dims a k v H Hk. pose proof (set_fset dims a k v H) as S. unfold fset in S.
  now rewrite (proj2 (inb_false_In dims k) Hk) in S.
Qed.

Lemma get_in : forall dims a k, shaped dims a -> In k (lex dims) ->
  exists v, get a k = Ok v /\ nth_error (flatten a) (offset dims k) = Some v.
Proof.
  intros dims a k H Hk. rewrite (get_fget dims a k H). apply fget_in; auto.
  now apply flatten_length.
Qed.

Lemma get_out : forall dims a k, shaped dims a -> ~ In k (lex dims) -> get a k = Panic.
Proof.
  intros dims a k H Hk. rewrite (get_fget dims a k H). unfold fget.
  now rewrite (proj2 (inb_false_In dims k) Hk).
Qed.

Lemma index_in_shape_only_lemma : forall dims a k, shaped dims a ->
  (forall v, get a k = Ok v -> In k (lex dims) /\ nth_error (flatten a) (offset dims k) = Some v) /\
  (~ In k (lex dims) -> get a k = Panic).
Proof.
  intros dims a k H. split; [|now apply get_out].
  intros v E. destruct (inb dims k) eqn:B.
  - apply inb_In in B. split; auto. destruct (get_in dims a k H B) as (v' & E1 & E2). congruence.
  - apply inb_false_In in B. rewrite (get_out dims a k H B) in E. discriminate.
Qed.

Lemma set_get_lemma : forall dims a k v a', shaped dims a -> set a k v = Ok a' ->
  In k (lex dims) /\ shaped dims a' /\
  flatten a' = upd (flatten a) (offset dims k) (fun _ => v) /\
  get a' k = Ok v /\
  (forall k', k' <> k -> get a' k' = get a k').
Proof.
  intros dims a k v a' H E.
  destruct (inb dims k) eqn:B.
  2:{ apply inb_false_In in B. rewrite (set_out dims a k v H B) in E. discriminate. }
  apply inb_In in B. destruct (set_in dims a k v H B) as (a2 & E1 & S2 & F2).
  assert (a2 = a') by congruence. subst a2.
  pose proof (flatten_length dims a H) as FL.
  split; [auto|]. split; [auto|]. split; [auto|]. split.
  - rewrite (get_fget dims a' k S2), F2. unfold fget. rewrite (proj2 (inb_In dims k) B).
    unfold nth_res. rewrite nth_error_upd, Nat.eqb_refl.
    destruct (fget_in dims (flatten a) k FL B) as (x & _ & Ex). now rewrite Ex.
  - intros k' N. rewrite (get_fget dims a' k' S2), (get_fget dims a k' H), F2. unfold fget.
    destruct (inb dims k') eqn:B'; [|reflexivity]. apply inb_In in B'.
    unfold nth_res. rewrite nth_error_upd.
    destruct (offset dims k =? offset dims k') eqn:EO; [|reflexivity].
    apply Nat.eqb_eq in EO. apply offset_inj in EO; auto. congruence.
Qed.

(* ==================================================== C17: constructors *)

(* [row] takes exactly [m] cells from the stream (building [y] with cells [flat y]) or fails *)
Definition rowspec {X Y} (m : nat) (flat : Y -> list X) (good : Y -> Prop)
           (row : list X -> option (Y * list X)) : Prop :=
  forall l,
    (m <= length l -> exists y, row l = Some (y, skipn m l) /\ flat y = firstn m l /\ good y) /\
    (length l < m -> row l = None).

Lemma take_exact_rowspec : forall X n,
  rowspec n (fun y : list X => y) (fun y => length y = n) (take_exact n).
Proof.
  induction n as [|n IH]; intros l; split; intros H.
  - exists []. cbn. auto.
  - lia.
  - destruct l as [|x r]; cbn in H; [lia|]. destruct (proj1 (IH r)) as (y & E & F & G); [lia|].
    cbn [take_exact]. rewrite E. exists (x :: y). cbn. split; [reflexivity|].
    split; [now f_equal|lia].
  - destruct l as [|x r]; [reflexivity|]. cbn in H. cbn [take_exact].
    now rewrite (proj2 (IH r)) by lia.
Qed.

Lemma fill_rowspec : forall X Y m (flat : Y -> list X) good row, rowspec m flat good row ->
  forall n, rowspec (n * m) (fun ys => concat (map flat ys))
                    (fun ys => length ys = n /\ Forall good ys) (fill n row).
Proof.
  intros X Y m flat good row R. induction n as [|n IH]; intros l; split; intros H.
  - exists []. cbn. auto.
  - cbn in H. lia.
  - cbn [Nat.mul] in H. destruct (proj1 (R l)) as (y & E & F & G); [lia|].
    destruct (proj1 (IH (skipn m l))) as (ys & E' & F' & G1 & G2); [rewrite skipn_length; lia|].
    cbn [fill]. rewrite E, E'. exists (y :: ys). cbn [Nat.mul]. split; [|split; [|split]].
    + now rewrite skipn_add.
    + cbn [map concat]. now rewrite F, F', firstn_add.
    + cbn. lia.
    + now constructor.
  - cbn [Nat.mul] in H. cbn [fill]. destruct (Nat.lt_ge_cases (length l) m) as [L|L].
    + now rewrite (proj2 (R l)) by lia.
    + destruct (proj1 (R l)) as (y & E & _); [lia|]. rewrite E.
      now rewrite (proj2 (IH (skipn m l))) by (rewrite skipn_length; lia).
Qed.

Lemma fill2_spec : forall n0 n1 (vs : list Z),
  (n0 * n1 <= length vs -> exists c, fill n0 (take_exact n1) vs = Some (c, skipn (n0 * n1) vs) /\
      concat c = firstn (n0 * n1) vs /\ length c = n0 /\ Forall (fun r => length r = n1) c) /\
  (length vs < n0 * n1 -> fill n0 (take_exact n1) vs = None).
Proof.
  intros n0 n1 vs.
  destruct (fill_rowspec _ _ _ _ _ _ (take_exact_rowspec Z n1) n0 vs) as [R1 R2]. split; auto.
  intros H. destruct (R1 H) as (c & E & F & G1 & G2). exists c. rewrite map_id in F. auto.
Qed.

Lemma fill3_spec : forall n0 n1 n2 (vs : list Z),
  (n0 * (n1 * n2) <= length vs -> exists c,
      fill n0 (fill n1 (take_exact n2)) vs = Some (c, skipn (n0 * (n1 * n2)) vs) /\
      concat (map (@concat Z) c) = firstn (n0 * (n1 * n2)) vs /\ length c = n0 /\
      Forall (fun m => length m = n1 /\ Forall (fun r => length r = n2) m) c) /\
  (length vs < n0 * (n1 * n2) -> fill n0 (fill n1 (take_exact n2)) vs = None).
Proof.
  intros n0 n1 n2 vs.
  destruct (fill_rowspec _ _ _ _ _ _
              (fill_rowspec _ _ _ _ _ _ (take_exact_rowspec Z n2) n1) n0 vs) as [R1 R2].
  split; auto.
  intros H. destruct (R1 H) as (c & E & F & G1 & G2). exists c. split; [auto|]. split; [|auto].
  rewrite <- F. f_equal. apply map_ext. intros m. now rewrite map_id.
Qed.

Definition rank13 (dims : list nat) : Prop := 1 <= length dims <= 3.

Ltac rk dims H :=
  destruct dims as [|?n0 [|?n1 [|?n2 [|? ?]]]]; unfold rank13 in H; cbn [length] in H; try lia.

(* does the stream hold the cells from_iter asks for *)
Definition enough (f : family) (dims : list nat) (vs : list Z) : bool :=
  match f, dims with
  | Unlabelled, [_] => true
  | Labelled, [_] => length vs =? total dims
  | _, _ => total dims <=? length vs
  end.

Lemma from_iter_spec : forall f dims vs, rank13 dims ->
  (f = Unlabelled -> length dims = 1 -> length vs = total dims) ->
  if enough f dims vs
  then exists a, from_iter f dims vs = Ok a /\ shaped dims a /\ flatten a = firstn (total dims) vs
  else from_iter f dims vs = Panic.
Proof.
  intros f dims vs R W. rk dims R.
  - rewrite total1 in *. destruct f; cbn [enough from_iter].
    + specialize (W eq_refl eq_refl). exists (A1 vs). cbn. rewrite <- W, firstn_all. auto.
    + rewrite total1. destruct (length vs =? n0) eqn:E; [|reflexivity].
      apply Nat.eqb_eq in E. exists (A1 vs). cbn. rewrite <- E, firstn_all. auto.
  - assert (E : enough f [n0; n1] vs = (n0 * n1 <=? length vs)) by (destruct f; cbn [enough]; now rewrite total2).
    assert (E' : from_iter f [n0; n1] vs = match fill n0 (take_exact n1) vs with
                                           | Some (c, _) => Ok (A2 c) | None => Panic end)
      by (destruct f; reflexivity).
    rewrite E, E', total2. destruct (fill2_spec n0 n1 vs) as [S1 S2].
    destruct (n0 * n1 <=? length vs) eqn:L.
    + apply Nat.leb_le in L. destruct (S1 L) as (c & F & G1 & G2 & G3). rewrite F.
      exists (A2 c). cbn. auto.
    + apply Nat.leb_gt in L. now rewrite (S2 L).
  - assert (E : enough f [n0; n1; n2] vs = (n0 * (n1 * n2) <=? length vs))
      by (destruct f; cbn [enough]; now rewrite total3).
    assert (E' : from_iter f [n0; n1; n2] vs = match fill n0 (fill n1 (take_exact n2)) vs with
                                               | Some (c, _) => Ok (A3 c) | None => Panic end)
      by (destruct f; reflexivity).
    rewrite E, E', total3. destruct (fill3_spec n0 n1 n2 vs) as [S1 S2].
    destruct (n0 * (n1 * n2) <=? length vs) eqn:L.
    + apply Nat.leb_le in L. destruct (S1 L) as (c & F & G1 & G2 & G3). rewrite F.
      exists (A3 c). cbn. auto.
    + apply Nat.leb_gt in L. now rewrite (S2 L).
Qed.

Lemma from_iter_exact : forall f dims vs, rank13 dims -> length vs = total dims ->
  exists a, from_iter f dims vs = Ok a /\ shaped dims a /\ flatten a = vs.
Proof.
  intros f dims vs R L. pose proof (from_iter_spec f dims vs R (fun _ _ => L)) as S.
  assert (E : enough f dims vs = true).
  { unfold enough. rewrite L, Nat.eqb_refl, Nat.leb_refl.
    destruct f; destruct dims as [|? [|? ?]]; reflexivity. }
  rewrite E in S. destruct S as (a & S1 & S2 & S3). exists a.
  now rewrite <- L, firstn_all in S3.
Qed.

Lemma from_fn_spec : forall f dims g, rank13 dims ->
  exists a, from_fn f dims g = Ok a /\ shaped dims a /\ flatten a = map g (lex dims).
Proof.
  intros f dims g R. unfold from_fn. rewrite indexes_lex. apply from_iter_exact; auto.
  now rewrite map_length, lex_length.
Qed.

Lemma from_fn_index_lemma : forall f dims g, rank13 dims ->
  exists a, from_fn f dims g = Ok a /\ shaped dims a /\ flatten a = map g (lex dims) /\
            forall k, In k (lex dims) -> get a k = Ok (g k).
Proof.
  intros f dims g R. destruct (from_fn_spec f dims g R) as (a & E & S & F).
  exists a. split; [auto|]. split; [auto|]. split; [auto|].
  intros k Hk. destruct (get_in dims a k S Hk) as (v & E1 & E2). rewrite E1. f_equal.
  rewrite F in E2. rewrite (map_nth_error g _ _ (lex_nth_error_offset dims k Hk)) in E2. congruence.
Qed.

Lemma map_const_repeat : forall {A B} (b : B) (l : list A), map (fun _ => b) l = repeat b (length l).
Proof. induction l; cbn; congruence. Qed.

Lemma zeros_spec : forall f dims, rank13 dims ->
  exists a, zeros f dims = Ok a /\ shaped dims a /\ flatten a = repeat 0%Z (total dims).
Proof.
  intros f dims R. destruct (from_fn_spec f dims (fun _ => 0%Z) R) as (a & E & S & F).
  exists a. now rewrite F, map_const_repeat, lex_length.
Qed.

(* ========================================== C17: mutable and paired iteration *)

Lemma lex1 : forall n, lex [n] = map (fun j => [j]) (seq 0 n).
Proof. intros. cbn [lex map]. apply flat_map_single. Qed.

Lemma lex2 : forall n0 n1,
  lex [n0; n1] = flat_map (fun i => map (fun j => [i; j]) (seq 0 n1)) (seq 0 n0).
Proof.
  intros. change (lex [n0; n1]) with (flat_map (fun i => map (cons i) (lex [n1])) (seq 0 n0)).
  rewrite lex1. apply flat_map_ext. intros i. now rewrite map_map.
Qed.

Lemma lex3 : forall n0 n1 n2,
  lex [n0; n1; n2] =
  flat_map (fun i => flat_map (fun j => map (fun l => [i; j; l]) (seq 0 n2)) (seq 0 n1)) (seq 0 n0).
Proof.
  intros.
  change (lex [n0; n1; n2]) with (flat_map (fun i => map (cons i) (lex [n1; n2])) (seq 0 n0)).
  rewrite lex2. apply flat_map_ext. intros i. rewrite map_flat_map.
  apply flat_map_ext. intros j. now rewrite map_map.
Qed.

Lemma combine_seq_map : forall {X Y} (G : nat -> X -> Y) (G' : nat -> Y) c s,
  Forall (fun r => forall i, G i r = G' i) c ->
  map (fun ir => G (fst ir) (snd ir)) (combine (seq s (length c)) c) = map G' (seq s (length c)).
Proof.
  induction c as [|r c IH]; intros s H; [reflexivity|]. inversion H; subst.
  cbn. f_equal; auto.
Qed.

Lemma pos2_shape : forall n1 c, Forall (fun r : list Z => length r = n1) c ->
  pos2 c = map (fun i => map (fun j => [i; j]) (seq 0 n1)) (seq 0 (length c)).
Proof.
  intros n1 c H. unfold pos2.
  apply (combine_seq_map (fun i (r : list Z) => map (fun j => [i; j]) (seq 0 (length r)))).
  eapply Forall_impl; [|exact H]. cbn. intros r E i. now rewrite E.
Qed.

Lemma pos3_shape : forall n1 n2 c,
  Forall (fun m : list (list Z) => length m = n1 /\ Forall (fun r => length r = n2) m) c ->
  pos3 c = map (fun i => map (fun j => map (fun l => [i; j; l]) (seq 0 n2)) (seq 0 n1))
               (seq 0 (length c)).
Proof.
  intros n1 n2 c H. unfold pos3.
  apply (combine_seq_map
           (fun i (m : list (list Z)) =>
              map (fun jr => map (fun l => [i; fst jr; l]) (seq 0 (length (snd jr))))
                  (combine (seq 0 (length m)) m))).
  eapply Forall_impl; [|exact H]. cbn. intros m [L Hm] i. rewrite <- L.
  apply (combine_seq_map (fun j (r : list Z) => map (fun l => [i; j; l]) (seq 0 (length r)))).
  eapply Forall_impl; [|exact Hm]. cbn. intros r E j. now rewrite E.
Qed.

Lemma iter_mut_order_lex : forall dims a, shaped dims a -> iter_mut_order a = lex dims.
Proof.
  intros dims a H. shp a dims H; cbn [iter_mut_order].
  - rewrite iter1_id, lex1. unfold pos1. now rewrite H.
  - destruct H as [L H]. rewrite (pos2_shape n1 c H), L, lex2.
    rewrite (iter2_concat _ n1).
    + now rewrite <- flat_map_concat_map.
    + apply Forall_map, Forall_forall. intros i _. now rewrite map_length, seq_length.
  - destruct H as [L H]. rewrite (pos3_shape n1 n2 c H), L, lex3.
    rewrite (iter3_concat _ n1 n2).
    + rewrite map_map, <- flat_map_concat_map. apply flat_map_ext. intros i.
      now rewrite <- flat_map_concat_map.
    + apply Forall_map, Forall_forall. intros i _. rewrite map_length, seq_length. split; auto.
      apply Forall_map, Forall_forall. intros j _. now rewrite map_length, seq_length.
Qed.

Lemma list_as_map_seq : forall {X} (d : X) l, l = map (fun i => nth i l d) (seq 0 (length l)).
Proof.
  induction l as [|x l IH]; [reflexivity|]. cbn. f_equal. rewrite <- seq_shift, map_map. exact IH.
Qed.

Lemma combine_map_self : forall {A B} (h : A -> B) l,
  combine l (map h l) = map (fun k => (k, h k)) l.
Proof. induction l; cbn; congruence. Qed.

Lemma combine_lex : forall dims (st : list Z), length st = total dims ->
  combine (lex dims) st = map (fun k => (k, nth (offset dims k) st 0%Z)) (lex dims).
Proof.
  intros dims st L.
  transitivity (combine (lex dims) (map (fun k => nth (offset dims k) st 0%Z) (lex dims))).
  - f_equal. rewrite <- (map_map (offset dims) (fun i => nth i st 0%Z)), map_offset_lex, <- L.
    apply list_as_map_seq.
  - apply combine_map_self.
Qed.

Lemma iter_with_from_ok : forall dims a ks, shaped dims a ->
  Forall (fun k => In k (lex dims)) ks ->
  iter_with_from a ks = Ok (map (fun k => (k, nth (offset dims k) (flatten a) 0%Z)) ks).
Proof.
  intros dims a ks H. induction 1 as [|k ks Hk Hks IH]; [reflexivity|].
  cbn [iter_with_from map]. destruct (get_in dims a k H Hk) as (v & E1 & E2).
  rewrite E1, IH. now rewrite (nth_error_nth _ _ _ E2).
Qed.

Lemma iter_with_lemma : forall f dims a, shaped dims a ->
  iter_with f dims a = Ok (combine (lex dims) (flatten a)).
Proof.
  intros f dims a H. unfold iter_with. rewrite indexes_lex.
  rewrite (iter_with_from_ok dims a (lex dims) H) by (apply Forall_forall; auto).
  now rewrite combine_lex by (now apply flatten_length).
Qed.

Lemma apply_updates_spec : forall dims c ks a i, shaped dims a ->
  Forall (fun k => In k (lex dims)) ks ->
  shaped dims (apply_updates a c ks i) /\
  flatten (apply_updates a c ks i) = spec_updates dims (flatten a) c ks i.
Proof.
  intros dims c ks. induction ks as [|k ks IH]; intros a i H Hks; [now split|].
  inversion Hks as [|? ? Hk Hks']; subst. cbn [apply_updates spec_updates].
  destruct (get_in dims a k H Hk) as (x & E1 & E2). rewrite E1.
  destruct (set_in dims a k (cell_update c x i) H Hk) as (a' & S1 & S2 & S3). rewrite S1.
  destruct (IH a' (S i) S2 Hks') as [I1 I2]. split; [auto|]. rewrite I2, S3.
  now rewrite (upd_ext_at _ _ x (fun x => cell_update c x i) E2).
Qed.

Lemma iter_mut_spec : forall dims a c, shaped dims a ->
  shaped dims (fst (iter_mut a c)) /\
  flatten (fst (iter_mut a c)) = spec_updates dims (flatten a) c (lex dims) 0 /\
  snd (iter_mut a c) = total dims.
Proof.
  intros dims a c H. unfold iter_mut. rewrite (iter_mut_order_lex dims a H). cbn [fst snd].
  destruct (apply_updates_spec dims c (lex dims) a 0 H) as [S1 S2]; [apply Forall_forall; auto|].
  now rewrite lex_length.
Qed.

(* the enumerate()d update, cell by cell *)
Fixpoint upds (st : list Z) (c : Z) (os : list nat) (i : nat) : list Z :=
  match os with
  | [] => st
  | o :: r => upds (upd st o (fun x => cell_update c x i)) c r (S i)
  end.

Lemma spec_updates_upds : forall dims st c ks i,
  spec_updates dims st c ks i = upds st c (map (offset dims) ks) i.
Proof. intros dims st c ks. revert st. induction ks; intros; cbn; auto. Qed.

Lemma upds_seq : forall c st pre i,
  upds (pre ++ st) c (seq (length pre) (length st)) i
  = pre ++ mapi_from (fun i x => cell_update c x i) i st.
Proof.
  induction st as [|x r IH]; intros pre i; [reflexivity|].
  cbn [length seq upds mapi_from].
  rewrite <- (Nat.add_0_r (length pre)) at 1. rewrite upd_app_r. cbn [upd].
  replace (pre ++ cell_update c x i :: r) with ((pre ++ [cell_update c x i]) ++ r)
    by (now rewrite <- app_assoc).
  replace (S (length pre)) with (length (pre ++ [cell_update c x i]))
    by (rewrite app_length; cbn; lia).
  rewrite IH. now rewrite <- app_assoc.
Qed.

Lemma spec_updates_mapi : forall dims st c, length st = total dims ->
  spec_updates dims st c (lex dims) 0 = mapi_from (fun i x => cell_update c x i) 0 st.
Proof.
  intros dims st c L. rewrite spec_updates_upds, map_offset_lex, <- L.
  exact (upds_seq c st [] 0).
Qed.

(* ================================================ C17: labelled constructors *)

Definition arank (a : arr) : nat := match a with A1 _ => 1 | A2 _ => 2 | A3 _ => 3 end.

Lemma forallb_Forall : forall {A} (p : A -> bool) l,
  forallb p l = true <-> Forall (fun x => p x = true) l.
Proof. intros. rewrite forallb_forall, Forall_forall. reflexivity. Qed.

Lemma from_nested_inv : forall dims a a', from_nested dims a = Ok a' -> a' = a /\ shaped dims a.
Proof.
  intros dims a a' H.
  destruct a as [c|c|c]; destruct dims as [|n0 [|n1 [|n2 [|? ?]]]]; cbn in H; try discriminate.
  - destruct (length c =? n0) eqn:E; [|discriminate]. apply Nat.eqb_eq in E.
    split; [congruence|exact E].
  - destruct (forallb _ c && _) eqn:E; [|discriminate]. apply andb_prop in E. destruct E as [E1 E2].
    apply Nat.eqb_eq in E2. apply forallb_Forall in E1. split; [congruence|]. split; [auto|].
    eapply Forall_impl; [|exact E1]. cbn. intros r Hr. now apply Nat.eqb_eq.
  - destruct (forallb _ c && _) eqn:E; [|discriminate]. apply andb_prop in E. destruct E as [E1 E2].
    apply Nat.eqb_eq in E2. apply forallb_Forall in E1. split; [congruence|]. split; [auto|].
    eapply Forall_impl; [|exact E1]. cbn. intros m Hm. apply andb_prop in Hm. destruct Hm as [M1 M2].
    apply Nat.eqb_eq in M2. split; [auto|]. apply forallb_Forall in M1.
    eapply Forall_impl; [|exact M1]. cbn. intros r Hr. now apply Nat.eqb_eq.
Qed.

Lemma from_nested_shaped : forall dims a, shaped dims a -> from_nested dims a = Ok a.
Proof.
  intros dims a H. shp a dims H; cbn [from_nested].
  - now rewrite (proj2 (Nat.eqb_eq _ _) H).
  - destruct H as [L H]. rewrite (proj2 (Nat.eqb_eq _ _) L), andb_true_r.
    assert (E : forallb (fun r => length r =? n1) c = true).
    { apply forallb_Forall. eapply Forall_impl; [|exact H]. cbn. intros r Hr. now apply Nat.eqb_eq. }
    now rewrite E.
  - destruct H as [L H]. rewrite (proj2 (Nat.eqb_eq _ _) L), andb_true_r.
    assert (E : forallb (fun m => forallb (fun r => length r =? n2) m && (length m =? n1)) c = true).
    { apply forallb_Forall. eapply Forall_impl; [|exact H]. cbn. intros m [Lm Hm].
      apply andb_true_intro. split; [|now apply Nat.eqb_eq].
      apply forallb_Forall. eapply Forall_impl; [|exact Hm]. cbn. intros r Hr. now apply Nat.eqb_eq. }
    now rewrite E.
Qed.

(* ---- try_from: named copies of the local fixpoints of the model *)
Definition tf_rows2 (f : family) (dims : list nat) (a : arr) (c : list (list Z))
  : list (list Z) -> tf_res :=
  fix rows (rs : list (list Z)) : tf_res :=
  match rs with
  | [] => match f with
          | Unlabelled => TfOk a
          | Labelled => if Nat.eqb (length c) (nth 0 dims 0) then TfOk a else TfPanic
          end
  | r :: rest =>
      match first_neg r with
      | Some x => TfErr x
      | None =>
          match f with
          | Labelled => if Nat.eqb (length r) (nth 1 dims 0) then rows rest else TfPanic
          | Unlabelled => rows rest
          end
      end
  end.

Definition tf_rows3 (f : family) (dims : list nat) : list (list Z) -> option tf_res :=
  fix rows (rs : list (list Z)) : option tf_res :=
  match rs with
  | [] => None
  | r :: rest' =>
      match first_neg r with
      | Some x => Some (TfErr x)
      | None =>
          match f with
          | Labelled => if Nat.eqb (length r) (nth 2 dims 0) then rows rest' else Some TfPanic
          | Unlabelled => rows rest'
          end
      end
  end.

Definition tf_mats (f : family) (dims : list nat) (a : arr) (c : list (list (list Z)))
  : list (list (list Z)) -> tf_res :=
  fix mats (ms : list (list (list Z))) : tf_res :=
  match ms with
  | [] => match f with
          | Unlabelled => TfOk a
          | Labelled => if Nat.eqb (length c) (nth 0 dims 0) then TfOk a else TfPanic
          end
  | m :: rest =>
      match tf_rows3 f dims m with
      | Some e => e
      | None =>
          match f with
          | Labelled => if Nat.eqb (length m) (nth 1 dims 0) then mats rest else TfPanic
          | Unlabelled => mats rest
          end
      end
  end.

Lemma try_from_A2 : forall f dims c, try_from f dims (A2 c) = tf_rows2 f dims (A2 c) c c.
Proof. reflexivity. Qed.

Lemma try_from_A3 : forall f dims c, try_from f dims (A3 c) = tf_mats f dims (A3 c) c c.
Proof. reflexivity. Qed.

Lemma first_neg_app : forall l1 l2,
  first_neg (l1 ++ l2) = match first_neg l1 with Some x => Some x | None => first_neg l2 end.
Proof. induction l1; intros; cbn; auto. destruct (a <? 0)%Z; auto. Qed.

Lemma first_neg_find : forall l, first_neg l = find (fun x => (x <? 0)%Z) l.
Proof. induction l; cbn; auto. Qed.

Lemma first_neg_some : forall l x, first_neg l = Some x <->
  exists l1 l2, l = l1 ++ x :: l2 /\ (x < 0)%Z /\ Forall (fun y => (0 <= y)%Z) l1.
Proof.
  induction l as [|y l IH]; intros x; cbn [first_neg].
  - split; [discriminate|]. intros (l1 & l2 & E & _). destruct l1; discriminate.
  - destruct (y <? 0)%Z eqn:E.
    + apply Z.ltb_lt in E. split.
      * intros [= ->]. exists [], l. auto.
      * intros (l1 & l2 & E1 & Hx & F). destruct l1 as [|z l1]; cbn in E1.
        -- congruence.
        -- injection E1 as -> ->. inversion F; subst. lia.
    + apply Z.ltb_ge in E. rewrite IH. split.
      * intros (l1 & l2 & -> & Hx & F). exists (y :: l1), l2. cbn. auto.
      * intros (l1 & l2 & E1 & Hx & F). destruct l1 as [|z l1]; cbn in E1.
        -- injection E1 as -> ->. lia.
        -- injection E1 as -> ->. inversion F; subst. exists l1, l2. auto.
Qed.

Lemma first_neg_none : forall l, first_neg l = None <-> Forall (fun y => (0 <= y)%Z) l.
Proof.
  induction l as [|y l IH]; cbn [first_neg]; [split; auto|].
  destruct (y <? 0)%Z eqn:E.
  - apply Z.ltb_lt in E. split; [discriminate|]. intros F. inversion F; subst. lia.
  - apply Z.ltb_ge in E. rewrite IH. split; [now constructor|]. intros F. now inversion F.
Qed.

Lemma tf_rows2_shaped : forall f n0 n1 a c rs, length c = n0 ->
  Forall (fun r => length r = n1) rs ->
  tf_rows2 f [n0; n1] a c rs =
  match first_neg (concat rs) with Some x => TfErr x | None => TfOk a end.
Proof.
  intros f n0 n1 a c rs L. induction 1 as [|r rs Hr H IH]; cbn [tf_rows2 concat nth].
  - cbn. rewrite (proj2 (Nat.eqb_eq _ _) L). now destruct f.
  - rewrite first_neg_app. destruct (first_neg r); [reflexivity|].
    rewrite (proj2 (Nat.eqb_eq _ _) Hr). now destruct f.
Qed.

Lemma tf_rows3_shaped : forall f n0 n1 n2 rs, Forall (fun r => length r = n2) rs ->
  tf_rows3 f [n0; n1; n2] rs = option_map TfErr (first_neg (concat rs)).
Proof.
  intros f n0 n1 n2 rs. induction 1 as [|r rs Hr H IH]; cbn [tf_rows3 concat nth]; [reflexivity|].
  rewrite first_neg_app. destruct (first_neg r); [reflexivity|].
  rewrite (proj2 (Nat.eqb_eq _ _) Hr). now destruct f.
Qed.

Lemma tf_mats_shaped : forall f n0 n1 n2 a c ms, length c = n0 ->
  Forall (fun m => length m = n1 /\ Forall (fun r => length r = n2) m) ms ->
  tf_mats f [n0; n1; n2] a c ms =
  match first_neg (concat (map (@concat Z) ms)) with Some x => TfErr x | None => TfOk a end.
Proof.
  intros f n0 n1 n2 a c ms L. induction 1 as [|m ms [Lm Hm] H IH]; cbn [tf_mats concat map nth].
  - cbn. rewrite (proj2 (Nat.eqb_eq _ _) L). now destruct f.
  - rewrite first_neg_app, (tf_rows3_shaped f n0 n1 n2 m Hm).
    destruct (first_neg (concat m)); cbn [option_map]; [reflexivity|].
    rewrite (proj2 (Nat.eqb_eq _ _) Lm). now destruct f.
Qed.

Lemma try_from_shaped : forall f dims a, shaped dims a ->
  try_from f dims a = match first_neg (flatten a) with Some x => TfErr x | None => TfOk a end.
Proof.
  intros f dims a H. pose proof (from_nested_shaped dims a H) as N. shp a dims H.
  - cbn [flatten]. cbn [try_from]. destruct (first_neg c); [reflexivity|].
    destruct f; [reflexivity|]. now rewrite N.
  - destruct H as [L H]. rewrite try_from_A2. now apply tf_rows2_shaped.
  - destruct H as [L H]. rewrite try_from_A3. now apply tf_mats_shaped.
Qed.

(* inversion, without any hypothesis on the input: a labelled result has the declared shape *)
Lemma tf_rows2_inv : forall dims a c rs a', tf_rows2 Labelled dims a c rs = TfOk a' ->
  a' = a /\ length c = nth 0 dims 0 /\ Forall (fun r => length r = nth 1 dims 0) rs.
Proof.
  intros dims a c rs a'. induction rs as [|r rs IH]; cbn [tf_rows2]; intros H.
  - destruct (length c =? nth 0 dims 0) eqn:E; [|discriminate]. apply Nat.eqb_eq in E.
    split; [congruence|]. auto.
  - destruct (first_neg r); [discriminate|].
    destruct (length r =? nth 1 dims 0) eqn:E; [|discriminate]. apply Nat.eqb_eq in E.
    destruct (IH H) as (I1 & I2 & I3). auto.
Qed.

Lemma tf_rows3_inv : forall dims rs, tf_rows3 Labelled dims rs = None ->
  Forall (fun r => length r = nth 2 dims 0) rs.
Proof.
  intros dims rs. induction rs as [|r rs IH]; cbn [tf_rows3]; intros H; [constructor|].
  destruct (first_neg r); [discriminate|].
  destruct (length r =? nth 2 dims 0) eqn:E; [|discriminate]. apply Nat.eqb_eq in E. auto.
Qed.

Lemma tf_mats_inv : forall dims a c ms a', tf_mats Labelled dims a c ms = TfOk a' ->
  a' = a /\ length c = nth 0 dims 0 /\
  Forall (fun m => length m = nth 1 dims 0 /\ Forall (fun r => length r = nth 2 dims 0) m) ms.
Proof.
  intros dims a c ms a'. induction ms as [|m ms IH]; cbn [tf_mats]; intros H.
  - destruct (length c =? nth 0 dims 0) eqn:E; [|discriminate]. apply Nat.eqb_eq in E.
    split; [congruence|]. auto.
  - destruct (tf_rows3 Labelled dims m) as [e|] eqn:R.
    + exfalso. subst e. revert R. clear. induction m as [|r m IHm]; cbn [tf_rows3]; [discriminate|].
      destruct (first_neg r); [discriminate|]. destruct (length r =? nth 2 dims 0); [auto|discriminate].
    + apply tf_rows3_inv in R.
      destruct (length m =? nth 1 dims 0) eqn:E; [|discriminate]. apply Nat.eqb_eq in E.
      destruct (IH H) as (I1 & I2 & I3). auto.
Qed.

Lemma try_from_labelled_shaped : forall dims a a', length dims = arank a ->
  try_from Labelled dims a = TfOk a' -> shaped dims a'.
Proof.
  intros dims a a' R H. destruct a as [c|c|c]; cbn [arank] in R;
    destruct dims as [|n0 [|n1 [|n2 [|? ?]]]]; try discriminate.
  - cbn [try_from] in H. destruct (first_neg c); [discriminate|].
    destruct (from_nested [n0] (A1 c)) as [a2|] eqn:N; [|discriminate].
    apply from_nested_inv in N. destruct N as [-> N]. injection H as <-. exact N.
  - rewrite try_from_A2 in H. apply tf_rows2_inv in H. destruct H as (-> & L & H). cbn. auto.
  - rewrite try_from_A3 in H. apply tf_mats_inv in H. destruct H as (-> & L & H). cbn. auto.
Qed.

Lemma product2_spec : forall f v0 v1,
  exists a, product2 f v0 v1 = Ok a /\ shaped [length v0; length v1] a /\
            flatten a = flat_map (fun x => map (fun y => (x * y)%Z) v1) v0.
Proof.
  intros. apply from_iter_exact; [unfold rank13; cbn; lia|].
  rewrite total2. apply flat_map_length_const. intros. apply map_length.
Qed.

Lemma product3_spec : forall f v0 v1 v2,
  exists a, product3 f v0 v1 v2 = Ok a /\ shaped [length v0; length v1; length v2] a /\
            flatten a = flat_map (fun x => flat_map (fun y => map (fun z => (x * y * z)%Z) v2) v1) v0.
Proof.
  intros. apply from_iter_exact; [unfold rank13; cbn; lia|].
  rewrite total3. apply flat_map_length_const. intros.
  apply flat_map_length_const. intros. apply map_length.
Qed.

(* ================================================ C17: sub-arrays, equality *)

Lemma nth_error_lt_some : forall {X} (l : list X) i, i < length l -> exists x, nth_error l i = Some x.
Proof.
  intros X l i H. destruct (nth_error l i) eqn:E; [eauto|]. apply nth_error_None in E. lia.
Qed.

Lemma down_spec : forall dims a i, shaped dims a ->
  match dims with
  | n0 :: ((_ :: _) as ds) =>
      (i < n0 -> exists s, down a i = Ok s /\ shaped ds s /\
                           flatten s = firstn (total ds) (skipn (i * total ds) (flatten a))) /\
      (n0 <= i -> down a i = Panic)
  | _ => down a i = Panic
  end.
Proof.
  intros dims a i H. shp a dims H.
  - reflexivity.
  - destruct H as [L H]. cbn [down flatten]. split; intros Hi.
    + destruct (nth_error_lt_some c i) as [r E]; [lia|]. unfold nth_res. rewrite E.
      exists (A1 r). split; [reflexivity|]. cbn [shaped flatten]. rewrite total1.
      split; [eapply Forall_nth_error in H; eauto|].
      symmetry. now apply firstn_skipn_concat.
    + rewrite nth_res_ge by lia. reflexivity.
  - destruct H as [L H]. cbn [down flatten]. split; intros Hi.
    + destruct (nth_error_lt_some c i) as [m E]; [lia|]. unfold nth_res. rewrite E.
      destruct (Forall_nth_error _ _ _ _ H E) as [Lm Hm].
      exists (A2 m). split; [reflexivity|]. cbn [shaped flatten]. rewrite total2.
      split; [auto|]. symmetry. apply firstn_skipn_concat.
      * now apply Forall_concat_len.
      * now apply map_nth_error.
    + rewrite nth_res_ge by lia. reflexivity.
Qed.

Lemma arr_eqb_refl : forall a, arr_eqb a a = true.
Proof. intros [c|c|c]; cbn; destruct (list_eq_dec _ c c); congruence. Qed.

Lemma arr_eqb_true : forall a b, arr_eqb a b = true -> a = b.
Proof.
  intros [x|x|x] [y|y|y]; cbn; try discriminate; destruct (list_eq_dec _ x y); congruence.
Qed.

(* ==================================================== C17: shape_input *)

Lemma Forall_firstn' : forall {X} (P : X -> Prop) n l, Forall P l -> Forall P (firstn n l).
Proof. induction n; intros [|x l] H; cbn; auto. inversion H; subst. constructor; auto. Qed.

Lemma Forall_skipn' : forall {X} (P : X -> Prop) n l, Forall P l -> Forall P (skipn n l).
Proof. induction n; intros [|x l] H; cbn; auto. inversion H; subst. auto. Qed.

Lemma chunks_nil : forall {X} n fuel, @chunks X n fuel [] = [].
Proof. destruct fuel; reflexivity. Qed.

Lemma chunks_spec : forall {X} (P : X -> Prop) n m, 0 < n -> forall fuel l,
  length l = m * n -> m <= fuel -> Forall P l ->
  length (chunks n fuel l) = m /\
  Forall (fun ch => length ch = n /\ Forall P ch) (chunks n fuel l) /\
  concat (chunks n fuel l) = l.
Proof.
  intros X P n m Hn. induction m as [|m IH]; intros fuel l L Hf HP.
  - destruct l; [|discriminate]. rewrite chunks_nil. cbn. auto.
  - destruct fuel as [|fuel]; [lia|]. destruct l as [|x l]; [cbn in L; lia|].
    cbn [chunks]. remember (x :: l) as xl.
    assert (Lx : length (firstn n xl) = n) by (rewrite firstn_length; lia).
    destruct (IH fuel (skipn n xl)) as (I1 & I2 & I3).
    + rewrite skipn_length. lia.
    + lia.
    + now apply Forall_skipn'.
    + cbn [length concat]. split; [lia|]. split.
      * constructor; auto. split; auto. now apply Forall_firstn'.
      * rewrite I3. apply firstn_skipn.
Qed.

Lemma concat_concat : forall {X} (l : list (list (list X))), concat (map (@concat X) l) = concat (concat l).
Proof. induction l; cbn; auto. now rewrite concat_app, IHl. Qed.

Lemma shape_input_shaped : forall dims vs, rank13 dims -> length vs = total dims ->
  0 < total dims \/ hd 0 dims = 0 ->
  shaped dims (shape_input dims vs) /\ flatten (shape_input dims vs) = vs.
Proof.
  intros dims vs R L C. rk dims R; cbn [hd] in C.
  - rewrite total1 in L. cbn. auto.
  - rewrite total2 in *. cbn [shape_input]. destruct n1 as [|n1].
    + assert (n0 = 0) by lia. subst. destruct vs; [|cbn in L; lia]. cbn. auto.
    + destruct (chunks_spec (fun _ : Z => True) (S n1) n0 ltac:(lia) (length vs) vs) as (I1 & I2 & I3);
        [lia|nia|apply Forall_forall; auto|].
      cbn [shaped flatten]. split; [split; auto|auto].
      eapply Forall_impl; [|exact I2]. cbn. tauto.
  - rewrite total3 in *. cbn [shape_input].
    destruct n1 as [|n1]; [|destruct n2 as [|n2]].
    + assert (n0 = 0) by lia. subst. destruct vs; [|cbn in L; lia]. cbn. auto.
    + assert (n0 = 0) by lia. subst. destruct vs; [|cbn in L; lia]. cbn. auto.
    + destruct (chunks_spec (fun _ : Z => True) (S n2) (n0 * S n1) ltac:(lia) (length vs) vs)
        as (I1 & I2 & I3); [lia|nia|apply Forall_forall; auto|].
      destruct (chunks_spec (fun r : list Z => length r = S n2) (S n1) n0 ltac:(lia) (length vs)
                            (chunks (S n2) (length vs) vs)) as (J1 & J2 & J3);
        [lia|nia| eapply Forall_impl; [|exact I2]; cbn; tauto |].
      cbn [shaped flatten]. split; [split; auto|].
      rewrite concat_concat, J3. exact I3.
Qed.

Lemma try_from_misshaped : forall dims, rank13 dims -> ~ (0 < total dims \/ hd 0 dims = 0) ->
  try_from Labelled dims (shape_input dims []) = TfPanic.
Proof.
  intros dims R C. rk dims R; cbn [hd] in C.
  - rewrite total1 in C. lia.
  - rewrite total2 in C. destruct n0 as [|n0]; [lia|]. destruct n1 as [|n1]; [|lia]. reflexivity.
  - rewrite total3 in C. destruct n0 as [|n0]; [lia|].
    destruct n1 as [|n1]; [reflexivity|]. destruct n2 as [|n2]; [reflexivity|lia].
Qed.

(* ======================================================= C17: refinement *)

Definition refines (dims : list nat) (r : arr * list Z) (s : list Z * list Z) : Prop :=
  shaped dims (fst r) /\ flatten (fst r) = fst s /\ snd r = snd s.

Lemma step_down : forall f dims a i, shaped dims a ->
  refines dims (step f dims a (ODown i)) (spec_step f dims (flatten a) (ODown i)).
Proof.
  intros f dims a i H. pose proof (down_spec dims a i H) as D. cbn [step spec_step].
  unfold refines. cbn [fst snd]. split; [auto|]. split; [auto|].
  destruct dims as [|n0 [|n1 ds]]; try (rewrite D; reflexivity).
  destruct D as [D1 D2]. destruct (i <? n0) eqn:E.
  - apply Nat.ltb_lt in E. destruct (D1 E) as (s & E1 & S1 & F1). rewrite E1.
    now rewrite (iter_is_flatten_lemma _ s S1), F1.
  - apply Nat.ltb_ge in E. now rewrite (D2 E).
Qed.

Lemma step_downset : forall f dims a i k v, shaped dims a ->
  refines dims (step f dims a (ODownSet i k v)) (spec_step f dims (flatten a) (ODownSet i k v)).
Proof.
  intros f dims a i k v H. pose proof (down_spec dims a i H) as D. cbn [step spec_step].
  unfold refines.
  destruct dims as [|n0 [|n1 ds]]; try (rewrite D; cbn [fst snd]; auto).
  destruct D as [D1 D2].
  pose proof (set_fset (n0 :: n1 :: ds) a (i :: k) v H) as S. unfold fset in *.
  change (inb (n0 :: n1 :: ds) (i :: k)) with ((i <? n0) && inb (n1 :: ds) k) in *.
  destruct (i <? n0) eqn:E.
  - apply Nat.ltb_lt in E. destruct (D1 E) as (s & E1 & S1 & F1). rewrite E1.
    pose proof (set_fset (n1 :: ds) s k v S1) as S'. unfold fset in S'.
    cbn [andb] in *. destruct (inb (n1 :: ds) k).
    + destruct S' as (s' & Es' & _). rewrite Es'.
      destruct S as (a' & Ea' & Sa' & Fa'). rewrite Ea'. cbn [fst snd]. auto.
    + rewrite S'. cbn [fst snd]. auto.
  - apply Nat.ltb_ge in E. rewrite (D2 E). cbn [andb fst snd]. auto.
Qed.

Lemma step_neq : forall f dims a k, shaped dims a ->
  refines dims (step f dims a (ONeqAfterSet k)) (spec_step f dims (flatten a) (ONeqAfterSet k)).
Proof.
  intros f dims a k H. cbn [step spec_step]. unfold refines. cbn [fst snd].
  split; [auto|]. split; [auto|].
  destruct (inb dims k) eqn:B.
  - apply inb_In in B. destruct (get_in dims a k H B) as (v & E1 & E2). rewrite E1.
    destruct (set_in dims a k (v + 1)%Z H B) as (a' & S1 & S2 & S3). rewrite S1.
    destruct (arr_eqb a a') eqn:Q; [|reflexivity]. exfalso.
    apply arr_eqb_true in Q. subst a'.
    destruct (set_get_lemma dims a k (v + 1)%Z a H S1) as (_ & _ & _ & G & _).
    rewrite E1 in G. injection G. lia.
  - apply inb_false_In in B. now rewrite (get_out dims a k H B).
Qed.

Lemma step_tryfrom : forall f dims a vs, rank13 dims -> wf_op f dims (OTryFrom vs) -> shaped dims a ->
  refines dims (step f dims a (OTryFrom vs)) (spec_step f dims (flatten a) (OTryFrom vs)).
Proof.
  intros f dims a vs R [L W] H. cbn [step spec_step]. unfold refines.
  destruct ((0 <? total dims) || (hd 0 dims =? 0)) eqn:C.
  - assert (C' : 0 < total dims \/ hd 0 dims = 0).
    { apply orb_prop in C. destruct C as [C|C]; [left; now apply Nat.ltb_lt|right; now apply Nat.eqb_eq]. }
    destruct (shape_input_shaped dims vs R L C') as [S F].
    rewrite (try_from_shaped f dims _ S), F.
    change (find (fun x => (x <? 0)%Z) vs) with (first_neg vs).
    destruct (first_neg vs); cbn [fst snd]; auto.
  - assert (C' : ~ (0 < total dims \/ hd 0 dims = 0)).
    { apply orb_false_elim in C. destruct C as [C1 C2]. apply Nat.ltb_ge in C1.
      apply Nat.eqb_neq in C2. lia. }
    destruct f; [exfalso; apply C'; now apply W|].
    assert (vs = []) by (apply length_zero_iff_nil; lia). subst vs.
    rewrite (try_from_misshaped dims R C'). cbn [find fst snd]. auto.
Qed.

Lemma step_fromiter : forall f dims a vs, rank13 dims -> wf_op f dims (OFromIter vs) -> shaped dims a ->
  refines dims (step f dims a (OFromIter vs)) (spec_step f dims (flatten a) (OFromIter vs)).
Proof.
  intros f dims a vs R W H. cbn [step spec_step]. unfold refines.
  change (match f, dims with
          | Unlabelled, [_] => true
          | Labelled, [_] => length vs =? total dims
          | _, _ => total dims <=? length vs
          end) with (enough f dims vs).
  assert (W' : f = Unlabelled -> length dims = 1 -> length vs = total dims).
  { intros -> L1. cbn [wf_op] in W. destruct dims as [|n0 [|? ?]]; try discriminate. exact W. }
  pose proof (from_iter_spec f dims vs R W') as S. destruct (enough f dims vs).
  - destruct S as (a' & E & S1 & S2). rewrite E. cbn [fst snd]. auto.
  - rewrite S. cbn [fst snd]. auto.
Qed.

Lemma step_product : forall f dims a v0 v1 v2, rank13 dims -> wf_op f dims (OProduct v0 v1 v2) ->
  shaped dims a ->
  refines dims (step f dims a (OProduct v0 v1 v2)) (spec_step f dims (flatten a) (OProduct v0 v1 v2)).
Proof.
  intros f dims a v0 v1 v2 R W H. cbn [step spec_step]. unfold refines. rk dims R; cbn [wf_op] in W.
  - cbn [fst snd]. auto.
  - destruct W as [-> ->]. destruct (product2_spec f v0 v1) as (a' & E & S & F). rewrite E.
    cbn [fst snd]. auto.
  - destruct W as (-> & -> & ->). destruct (product3_spec f v0 v1 v2) as (a' & E & S & F). rewrite E.
    cbn [fst snd]. auto.
Qed.

Lemma step_refines : forall f dims a o, rank13 dims -> wf_op f dims o -> shaped dims a ->
  refines dims (step f dims a o) (spec_step f dims (flatten a) o).
Proof.
  intros f dims a o R W H. destruct o.
  - (* OGet *) cbn [step spec_step]. rewrite (get_fget dims a k H). unfold refines. cbn [fst snd]. auto.
  - (* OSet *) cbn [step spec_step]. pose proof (set_fset dims a k v H) as S.
    destruct (fset dims (flatten a) k v) as [st'|].
    + destruct S as (a' & E & S1 & S2). rewrite E. unfold refines. cbn [fst snd]. auto.
    + rewrite S. unfold refines. cbn [fst snd]. auto.
  - (* OIter *) cbn [step spec_step]. rewrite (iter_is_flatten_lemma dims a H).
    unfold refines. cbn [fst snd]. auto.
  - (* OIterMut *) cbn [step spec_step]. destruct (iter_mut_spec dims a c H) as (S1 & S2 & S3).
    destruct (iter_mut a c) as [a' n]. cbn [fst snd] in *. subst n. unfold refines. cbn [fst snd]. auto.
  - (* OIterWith *) cbn [step spec_step]. rewrite (iter_with_lemma f dims a H).
    unfold refines. cbn [fst snd]. auto.
  - (* OIndexes *) cbn [step spec_step]. rewrite indexes_lex, mr_exhausted_spec.
    unfold refines. cbn [fst snd]. split; [auto|]. split; [auto|]. now destruct f.
  - apply step_down; auto.
  - apply step_downset; auto.
  - (* OCloneEq *) cbn [step spec_step]. rewrite arr_eqb_refl, (iter_is_flatten_lemma dims a H).
    unfold refines. cbn [fst snd]. auto.
  - apply step_neq; auto.
  - (* OFromFn *) cbn [step spec_step].
    destruct (from_fn_spec f dims (lin a0 b c d) R) as (a' & E & S1 & S2). rewrite E.
    unfold refines. cbn [fst snd]. auto.
  - apply step_fromiter; auto.
  - (* OZeros *) cbn [step spec_step]. destruct (zeros_spec f dims R) as (a' & E & S1 & S2). rewrite E.
    unfold refines. cbn [fst snd]. auto.
  - apply step_tryfrom; auto.
  - (* OConvAsRef *) cbn [step spec_step]. rewrite (iter_is_flatten_lemma dims a H).
    unfold refines. cbn [fst snd]. auto.
  - apply step_product; auto.
Qed.

Lemma run_refines_from : forall f dims prog a, rank13 dims -> Forall (wf_op f dims) prog ->
  shaped dims a -> run f dims a prog = spec_run_from f dims (flatten a) prog.
Proof.
  intros f dims prog. induction prog as [|o prog IH]; intros a R W H; [reflexivity|].
  inversion W as [|? ? Wo Wp]; subst. cbn [run spec_run_from].
  destruct (step_refines f dims a o R Wo H) as (S1 & S2 & S3).
  destruct (step f dims a o) as [a' obs]. destruct (spec_step f dims (flatten a) o) as [st' obs'].
  cbn [fst snd] in *. subst. f_equal. now apply IH.
Qed.

Lemma run_refines_lemma : forall f dims prog, rank13 dims -> Forall (wf_op f dims) prog ->
  run_program f dims prog = spec_run f dims prog.
Proof.
  intros f dims prog R W. unfold run_program, spec_run, init.
  destruct (zeros_spec f dims R) as (a & E & S & F). rewrite E, <- F.
  now apply run_refines_from.
Qed.

(* ============================================= C17: statements in final form *)

Lemma from_iter_ok : forall f dims vs, rank13 dims -> total dims <= length vs ->
  (length dims = 1 -> length vs = total dims) ->
  exists a, from_iter f dims vs = Ok a /\ shaped dims a /\ flatten a = firstn (total dims) vs.
Proof.
  intros f dims vs R L L1. pose proof (from_iter_spec f dims vs R (fun _ => L1)) as S.
  assert (E : enough f dims vs = true).
  { unfold enough. destruct f; destruct dims as [|? [|? ?]]; try (now apply Nat.leb_le);
      try reflexivity. rewrite L1 by reflexivity. apply Nat.eqb_refl. }
  now rewrite E in S.
Qed.

Lemma from_iter_short : forall f dims vs, rank13 dims -> length vs < total dims ->
  f = Labelled \/ 2 <= length dims -> from_iter f dims vs = Panic.
Proof.
  intros f dims vs R L C.
  assert (W : f = Unlabelled -> length dims = 1 -> length vs = total dims).
  { intros -> L1. destruct C as [C|C]; [discriminate|lia]. }
  pose proof (from_iter_spec f dims vs R W) as S.
  assert (E : enough f dims vs = false).
  { unfold enough. destruct f; destruct dims as [|? [|? ?]]; try (apply Nat.leb_gt; lia);
      try (apply Nat.eqb_neq; lia). destruct C as [C|C]; [discriminate|cbn in C; lia]. }
  now rewrite E in S.
Qed.

Lemma from_iter_lab1_long : forall n vs, length vs <> n -> from_iter Labelled [n] vs = Panic.
Proof. intros n vs L. cbn. apply Nat.eqb_neq in L. now rewrite L. Qed.

Lemma from_iter_labelled_shaped : forall dims vs a, from_iter Labelled dims vs = Ok a -> shaped dims a.
Proof.
  intros dims vs a H.
  destruct dims as [|n0 [|n1 [|n2 [|? ?]]]]; try discriminate.
  - cbn in H. destruct (length vs =? n0) eqn:E; [|discriminate]. apply Nat.eqb_eq in E.
    injection H as <-. exact E.
  - pose proof (from_iter_spec Labelled [n0; n1] vs ltac:(unfold rank13; cbn; lia)
                               ltac:(discriminate)) as S.
    destruct (enough Labelled [n0; n1] vs).
    + destruct S as (a' & E & S1 & _). congruence.
    + congruence.
  - pose proof (from_iter_spec Labelled [n0; n1; n2] vs ltac:(unfold rank13; cbn; lia)
                               ltac:(discriminate)) as S.
    destruct (enough Labelled [n0; n1; n2] vs).
    + destruct S as (a' & E & S1 & _). congruence.
    + congruence.
Qed.

Lemma from_fn_labelled_shaped : forall dims g a, from_fn Labelled dims g = Ok a -> shaped dims a.
Proof. intros dims g a. unfold from_fn. apply from_iter_labelled_shaped. Qed.

Lemma product_labelled_shaped :
  (forall v0 v1 a, product2 Labelled v0 v1 = Ok a -> shaped [length v0; length v1] a) /\
  (forall v0 v1 v2 a, product3 Labelled v0 v1 v2 = Ok a -> shaped [length v0; length v1; length v2] a).
Proof. split; intros; eapply from_iter_labelled_shaped; eauto. Qed.

Lemma try_from_first_error_lemma : forall f dims a, shaped dims a ->
  (forall x, try_from f dims a = TfErr x <->
             exists l1 l2, flatten a = l1 ++ x :: l2 /\ (x < 0)%Z /\ Forall (fun y => (0 <= y)%Z) l1) /\
  (Forall (fun y => (0 <= y)%Z) (flatten a) <-> try_from f dims a = TfOk a) /\
  try_from f dims a <> TfPanic.
Proof.
  intros f dims a H. rewrite (try_from_shaped f dims a H). split; [|split].
  - intros x. rewrite <- first_neg_some. destruct (first_neg (flatten a)); split; congruence.
  - rewrite <- first_neg_none. destruct (first_neg (flatten a)); split; congruence.
  - destruct (first_neg (flatten a)); discriminate.
Qed.

Lemma from_iter_unlabelled_rank1_unchecked :
  exists n vs a, from_iter Unlabelled [n] vs = Ok a /\ ~ shaped [n] a /\
                 get a [n] = Ok 3%Z /\ ~ In [n] (lex [n]).
Proof.
  exists 2, [1; 2; 3]%Z, (A1 [1; 2; 3]%Z). split; [reflexivity|]. split; [cbn; lia|].
  split; [reflexivity|]. cbn. intros [H|[H|[]]]; discriminate.
Qed.

Lemma iter_mut_mapi : forall dims a c, shaped dims a ->
  shaped dims (fst (iter_mut a c)) /\
  flatten (fst (iter_mut a c)) = mapi_from (fun i x => cell_update c x i) 0 (flatten a) /\
  snd (iter_mut a c) = total dims.
Proof.
  intros dims a c H. destruct (iter_mut_spec dims a c H) as (S1 & S2 & S3).
  split; [exact S1|]. split; [|exact S3].
  exact (eq_trans S2 (spec_updates_mapi dims (flatten a) c (flatten_length dims a H))).
Qed.

Lemma set_defined_iff : forall dims a k v, shaped dims a ->
  (In k (lex dims) -> exists a', set a k v = Ok a') /\ (~ In k (lex dims) -> set a k v = Panic).
Proof.
  intros dims a k v H. split.
  - intros Hk. destruct (set_in dims a k v H Hk) as (a' & E & _). exists a'. exact E.
  - exact (set_out dims a k v H).
Qed.

Lemma lex_characterisation : forall dims,
  (forall k, In k (lex dims) <-> length k = length dims /\ Forall2 lt k dims) /\
  NoDup (lex dims) /\
  length (lex dims) = total dims /\
  (forall i, i < total dims -> offset dims (nth i (lex dims) []) = i) /\
  (forall k, In k (lex dims) -> nth_error (lex dims) (offset dims k) = Some k) /\
  (forall i j, i < j -> j < total dims -> lex_lt (nth i (lex dims) []) (nth j (lex dims) [])) /\
  (In 0 dims -> lex dims = []).
Proof.
  intros dims. split; [|split; [|split; [|split; [|split; [|split]]]]].
  - intros k. split.
    + intros H. split; [exact (lex_In_length dims k H) | exact (proj1 (lex_In dims k) H)].
    + intros [_ H]. exact (proj2 (lex_In dims k) H).
  - exact (lex_NoDup dims).
  - exact (lex_length dims).
  - exact (lex_nth_offset dims).
  - exact (lex_nth_error_offset dims).
  - exact (lex_sorted dims).
  - exact (lex_empty dims).
Qed.
