(* Facts about Model/Eqv.v (property C20). *)
From Coq Require Import List Bool.
Import ListNotations.
From SL Require Import Model.Eqv.

Section EqvFacts.
Variable V : Type.
Variable R : V -> V -> bool.

Lemma bop_rel4_true : forall rb rd ru ra,
  bop_rel4 rb rd ru ra = true <-> rb = true /\ rd = true /\ ru = true /\ ra = true.
Proof. intros [|] [|] [|] [|]; cbn; intuition congruence. Qed.

Lemma bop_rel_iff_components : forall b1 d1 u1 a1 b2 d2 u2 a2 : V,
  bop_rel R (b1, d1, u1, a1) (b2, d2, u2, a2) = true <->
  R b1 b2 = true /\ R d1 d2 = true /\ R u1 u2 = true /\ R a1 a2 = true.
Proof. intros. cbn [bop_rel]. apply bop_rel4_true. Qed.

Lemma bop_rel_rel4 : forall b1 d1 u1 a1 b2 d2 u2 a2 : V,
  bop_rel R (b1, d1, u1, a1) (b2, d2, u2, a2) = bop_rel4 (R b1 b2) (R d1 d2) (R u1 u2) (R a1 a2).
Proof. intros. reflexivity. Qed.

Lemma bop_rel_refl : (forall x, R x x = true) -> forall w, bop_rel R w w = true.
Proof.
  intros HR [[[b d] u] a]. apply bop_rel_iff_components. repeat split; apply HR.
Qed.

(* reflexivity where the scalar relation is reflexive only on some values (== and the
   approximate relations are not reflexive on NaN) *)
Lemma bop_rel_refl_on : forall (ok : V -> Prop), (forall x, ok x -> R x x = true) ->
  forall b d u a, ok b -> ok d -> ok u -> ok a -> bop_rel R (b, d, u, a) (b, d, u, a) = true.
Proof.
  intros ok HR b d u a Hb Hd Hu Ha. apply bop_rel_iff_components. repeat split; apply HR; assumption.
Qed.

Lemma bop_rel_sym : (forall x y, R x y = R y x) -> forall w1 w2, bop_rel R w1 w2 = bop_rel R w2 w1.
Proof.
  intros HR [[[b1 d1] u1] a1] [[[b2 d2] u2] a2]. cbn [bop_rel].
  rewrite (HR b1 b2), (HR d1 d2), (HR u1 u2), (HR a1 a2). reflexivity.
Qed.

Lemma bop_rel_detects_each_component : forall b1 d1 u1 a1 b2 d2 u2 a2 : V,
  R b1 b2 = false \/ R d1 d2 = false \/ R u1 u2 = false \/ R a1 a2 = false ->
  bop_rel R (b1, d1, u1, a1) (b2, d2, u2, a2) = false.
Proof.
  intros b1 d1 u1 a1 b2 d2 u2 a2 H. cbn [bop_rel]. unfold bop_rel4.
  destruct H as [H|[H|[H|H]]]; rewrite H; repeat (rewrite ?andb_false_r, ?andb_false_l); reflexivity.
Qed.

Lemma bop_rel_false_iff : forall b1 d1 u1 a1 b2 d2 u2 a2 : V,
  bop_rel R (b1, d1, u1, a1) (b2, d2, u2, a2) = false <->
  R b1 b2 = false \/ R d1 d2 = false \/ R u1 u2 = false \/ R a1 a2 = false.
Proof.
  intros. split; [|apply bop_rel_detects_each_component].
  cbn [bop_rel]. unfold bop_rel4.
  destruct (R b1 b2), (R d1 d2), (R u1 u2), (R a1 a2); cbn; intros; try discriminate; tauto.
Qed.

(* lists: related iff same length and related cell by cell *)
Lemma list_eqb_iff : forall l1 l2 : list V,
  list_eqb R l1 l2 = true <-> Forall2 (fun x y => R x y = true) l1 l2.
Proof.
  induction l1 as [|x r1 IH]; intros [|y r2]; cbn.
  - split; [constructor|reflexivity].
  - split; [discriminate|intros H; inversion H].
  - split; [discriminate|intros H; inversion H].
  - rewrite andb_true_iff, IH. split.
    + intros (H1 & H2). constructor; assumption.
    + intros H. inversion H. subst. split; assumption.
Qed.

Lemma list_eqb_length : forall l1 l2 : list V, list_eqb R l1 l2 = true -> length l1 = length l2.
Proof.
  induction l1 as [|x r1 IH]; intros [|y r2]; cbn; try reflexivity; try discriminate.
  intros H. apply andb_true_iff in H. destruct H as (_ & H). rewrite (IH r2 H). reflexivity.
Qed.

Lemma list_eqb_nth : forall l1 l2 : list V,
  list_eqb R l1 l2 = true <->
  length l1 = length l2 /\ forall i d1 d2, i < length l1 -> R (nth i l1 d1) (nth i l2 d2) = true.
Proof.
  induction l1 as [|x r1 IH]; intros [|y r2]; cbn.
  - split; [intros _; split; [reflexivity|intros i d1 d2 Hi; inversion Hi]|reflexivity].
  - split; [discriminate|intros (H & _); discriminate].
  - split; [discriminate|intros (H & _); discriminate].
  - rewrite andb_true_iff, IH. split.
    + intros (Hxy & Hl & Hn). split; [congruence|].
      intros [|i] d1 d2 Hi; [exact Hxy|]. apply Hn. apply PeanoNat.Nat.succ_lt_mono. exact Hi.
    + intros (Hl & Hn). split; [apply (Hn 0 x y); apply PeanoNat.Nat.lt_0_succ|].
      split; [congruence|]. intros i d1 d2 Hi. apply (Hn (S i) d1 d2).
      apply -> PeanoNat.Nat.succ_lt_mono. exact Hi.
Qed.

(* one unrelated cell (same lengths or not) makes the lists unequal *)
Lemma list_eqb_detects_cell : forall (l1 l2 : list V) i d1 d2,
  i < length l1 -> R (nth i l1 d1) (nth i l2 d2) = false -> list_eqb R l1 l2 = false.
Proof.
  intros l1 l2 i d1 d2 Hi Hr. destruct (list_eqb R l1 l2) eqn:E; [|reflexivity].
  apply list_eqb_nth in E. destruct E as (_ & E). rewrite (E i d1 d2 Hi) in Hr. discriminate.
Qed.

Lemma list_eqb_refl_on : forall (ok : V -> Prop), (forall x, ok x -> R x x = true) ->
  forall l, Forall ok l -> list_eqb R l l = true.
Proof.
  intros ok HR l Hl. induction Hl as [|x r Hx Hr IH]; cbn; [reflexivity|].
  rewrite (HR x Hx), IH. reflexivity.
Qed.

Lemma list_eqb_sym : (forall x y, R x y = R y x) -> forall l1 l2, list_eqb R l1 l2 = list_eqb R l2 l1.
Proof.
  intros HR. induction l1 as [|x r1 IH]; intros [|y r2]; cbn; try reflexivity.
  rewrite (HR x y), IH. reflexivity.
Qed.

Lemma simplex_eq_iff : forall (b1 b2 : list V) (u1 u2 : V),
  simplex_eqb R (b1, u1) (b2, u2) = true <->
  length b1 = length b2 /\
  (forall i d1 d2, i < length b1 -> R (nth i b1 d1) (nth i b2 d2) = true) /\ R u1 u2 = true.
Proof.
  intros. unfold simplex_eqb. cbn [fst snd]. rewrite andb_true_iff, list_eqb_nth. tauto.
Qed.

Lemma opinion_eq_iff : forall (b1 b2 : list V) (u1 u2 : V) (a1 a2 : list V),
  opinion_eqb R (b1, u1, a1) (b2, u2, a2) = true <->
  (length b1 = length b2 /\
   (forall i d1 d2, i < length b1 -> R (nth i b1 d1) (nth i b2 d2) = true)) /\
  R u1 u2 = true /\
  (length a1 = length a2 /\
   (forall i d1 d2, i < length a1 -> R (nth i a1 d1) (nth i a2 d2) = true)).
Proof.
  intros. unfold opinion_eqb. cbn [fst snd]. rewrite andb_true_iff, simplex_eq_iff, list_eqb_nth. tauto.
Qed.

Lemma simplex_eq_detects : forall (b1 b2 : list V) (u1 u2 : V),
  (exists i d1 d2, i < length b1 /\ R (nth i b1 d1) (nth i b2 d2) = false) \/ R u1 u2 = false ->
  simplex_eqb R (b1, u1) (b2, u2) = false.
Proof.
  intros b1 b2 u1 u2 H. unfold simplex_eqb. cbn [fst snd]. destruct H as [(i & d1 & d2 & Hi & Hr)|H].
  - rewrite (list_eqb_detects_cell b1 b2 i d1 d2 Hi Hr). reflexivity.
  - rewrite H. apply andb_false_r.
Qed.

Lemma opinion_eq_detects : forall (b1 b2 : list V) (u1 u2 : V) (a1 a2 : list V),
  (exists i d1 d2, i < length b1 /\ R (nth i b1 d1) (nth i b2 d2) = false) \/ R u1 u2 = false \/
  (exists i d1 d2, i < length a1 /\ R (nth i a1 d1) (nth i a2 d2) = false) ->
  opinion_eqb R (b1, u1, a1) (b2, u2, a2) = false.
Proof.
  intros b1 b2 u1 u2 a1 a2 H. unfold opinion_eqb. cbn [fst snd].
  destruct H as [H|[H|(i & d1 & d2 & Hi & Hr)]].
  - rewrite (simplex_eq_detects b1 b2 u1 u2 (or_introl H)). reflexivity.
  - rewrite (simplex_eq_detects b1 b2 u1 u2 (or_intror H)). reflexivity.
  - rewrite (list_eqb_detects_cell a1 a2 i d1 d2 Hi Hr). apply andb_false_r.
Qed.

Lemma labelled_eq_delegates : forall (D : Type) (x y : labelled V D),
  labelled_eqb R x y = list_eqb R (cells x) (cells y).
Proof. reflexivity. Qed.

End EqvFacts.
