(* C05, abduction clause: abduce_with / abduce are the deduction (Facts/Deduce.v) through the
   inverted conditionals (Facts/Inverse.v), hence well-formed with the total-probability
   projection  b_x + ax_x u = sum_y P(y) P(x|y). *)
From Coq Require Import Reals List Bool Lra Lia.
Import ListNotations.
From SL Require Import Model.Num Model.Vec Model.Mul Model.InstR Facts.RBase.
From SL Require Facts.Deduce.
From SL Require Import Facts.Inverse.
Open Scope R_scope.

(* the two libraries use the same operand predicates / embeddings under different names *)
Lemma abd_wf_conds_eq cs ny : Deduce.wf_conds ny cs <-> wf_conds cs ny.
Proof. reflexivity. Qed.
Lemma abd_condV_embS cs : map Deduce.condV cs = map embS cs.
Proof. reflexivity. Qed.

Lemma pos_dist_wf a : pos_dist a -> wf_dist a.
Proof.
  intros (Hp & Hs). split; [|exact Hs]. unfold nonneg. eapply Forall_impl; [|exact Hp].
  cbn beta. intros; lra.
Qed.

Lemma abd_Rsum_map2_seq {X Y} (f : X -> Y -> R) dx dy l1 : forall l2, length l1 = length l2 ->
  Rsum (map2 f l1 l2) = Rsum (map (fun i => f (nth i l1 dx) (nth i l2 dy)) (seq 0 (length l1))).
Proof.
  induction l1 as [|a l1 IH]; intros [|b l2] H; cbn [length] in *; try discriminate; [reflexivity|].
  cbn [map2 Rsum seq map nth]. rewrite <- seq_shift, map_map. cbn [nth]. rewrite IH by lia. reflexivity.
Qed.

(* P(y) of the observed opinion on Y *)
Definition PyR (by_ : list R) (uy : R) (ay : list R) (y : nat) : R := nth y by_ 0 + nth y ay 0 * uy.
(* P(x|y): projection of row y of the inverted table under ax *)
Definition PxyR eps cs ax ay (x y : nat) : R :=
  nth x (inv_b eps cs ax ay y) 0 + nth x ax 0 * inv_u eps cs ax ay y.

(* the abduced simplex, as real numbers *)
Definition abdB eps cs ax ay by_ uy : list R := Deduce.dedB by_ uy ay (inverseR eps cs ax ay) ax.
Definition abdU eps cs ax ay by_ (uy : R) : R := Deduce.dedU by_ ay (inverseR eps cs ax ay) ax.

Lemma abduce_with_spec eps cs ax ay by_ uy :
  0 <= eps <= 1/8 ->
  wf_conds cs (length ay) -> pos_dist ax -> length ax = length cs ->
  wf_dist ay -> guard_clear eps ay ->
  wf_simplex by_ uy -> length by_ = length ay ->
  abduce_with (B:=FldR) eps (map Some by_, Some uy) (map embS cs) (map Some ax) (map Some ay)
    = (map Some (abdB eps cs ax ay by_ uy), Some (abdU eps cs ax ay by_ uy), map Some ax) /\
  wf_simplex (abdB eps cs ax ay by_ uy) (abdU eps cs ax ay by_ uy) /\
  length (abdB eps cs ax ay by_ uy) = length ax /\
  forall x, (x < length ax)%nat ->
    nth x (abdB eps cs ax ay by_ uy) 0 + nth x ax 0 * abdU eps cs ax ay by_ uy
    = Rsum (map (fun y => PyR by_ uy ay y * PxyR eps cs ax ay x y) (seq 0 (length ay))).
Proof.
  intros He Hcs Hax Hlax Hay Hg Hwy Hlby.
  destruct (inverse_defined_wf_main eps He cs ax ay Hcs Hax Hlax Hay Hg) as (_ & Hlen & Hwf).
  assert (Hwx : wf_opinion by_ uy ay) by (split; [exact Hwy|split; [exact Hay|lia]]).
  assert (Hinv : Deduce.wf_conds (length ax) (inverseR eps cs ax ay)) by exact Hwf.
  assert (Hl : length (inverseR eps cs ax ay) = length ay) by exact Hlen.
  destruct (Deduce.deduce_of_spec_full by_ uy ay (inverseR eps cs ax ay) ax (length ax)
              Hwx Hinv Hl (pos_dist_wf ax Hax) eq_refl) as (E & W & L & T).
  split.
  { etransitivity; [exact (abduce_with_through_inverseR eps cs ax ay by_ uy (proj1 He) Hcs Hax Hlax Hay)|exact E]. }
  split; [exact W|]. split; [exact L|].
  intros x Hx. unfold abdB, abdU. rewrite (T x Hx).
  rewrite (abd_Rsum_map2_seq _ 0 ([], 0)).
  2:{ unfold Deduce.projR. rewrite map2_length, Hl. lia. }
  unfold Deduce.projR at 2. rewrite map2_length, Hlby, Nat.min_id.
  f_equal. apply map_ext_in. intros y Hy. apply in_seq in Hy.
  unfold PyR, PxyR, inv_b, inv_u. f_equal.
  unfold Deduce.projR. rewrite (iv_nth_map2 _ _ _ _ 0 0 0) by (destruct Hay; lia). reflexivity.
Qed.

(* exact guards: no side condition on ay *)
Lemma abduce_with_spec_exact cs ax ay by_ uy :
  wf_conds cs (length ay) -> pos_dist ax -> length ax = length cs ->
  wf_dist ay -> wf_simplex by_ uy -> length by_ = length ay ->
  abduce_with (B:=FldR) 0 (map Some by_, Some uy) (map embS cs) (map Some ax) (map Some ay)
    = (map Some (abdB 0 cs ax ay by_ uy), Some (abdU 0 cs ax ay by_ uy), map Some ax) /\
  wf_simplex (abdB 0 cs ax ay by_ uy) (abdU 0 cs ax ay by_ uy) /\
  length (abdB 0 cs ax ay by_ uy) = length ax /\
  forall x, (x < length ax)%nat ->
    nth x (abdB 0 cs ax ay by_ uy) 0 + nth x ax 0 * abdU 0 cs ax ay by_ uy
    = Rsum (map (fun y => PyR by_ uy ay y * PxyR 0 cs ax ay x y) (seq 0 (length ay))).
Proof.
  intros Hcs Hax Hlax Hay Hwy Hl. apply abduce_with_spec; try assumption; [lra|].
  apply guard_clear_0. apply Hay.
Qed.

(* P(x|y) is the Bayes ratio on every non-negligible column *)
Lemma abduce_PxyR_bayes eps cs ax ay x y :
  0 <= eps <= 1/8 ->
  wf_conds cs (length ay) -> pos_dist ax -> length ax = length cs -> wf_dist ay ->
  (x < length ax)%nat -> (y < length ay)%nat -> col_negligible eps cs ay y = false ->
  0 < qy cs ax ay y /\ PxyR eps cs ax ay x y = nth x ax 0 * PyxR cs ay x y / qy cs ax ay y.
Proof. intros He Hcs Hax Hl Hay Hx Hy E. exact (inverse_bayes_main eps He cs ax ay Hcs Hax Hl Hay x y Hx Hy E). Qed.

(* abduce: the same with the marginal base rate of Y *)
Lemma abduce_spec_mbr eps cs ax ny by_ uy :
  0 <= eps <= 1/8 ->
  wf_conds cs ny -> pos_dist ax -> length ax = length cs ->
  wf_simplex by_ uy -> length by_ = ny ->
  mbr (B:=FldR) eps ny (map Some ax) (map embS cs) <> None ->
  let ay := Deduce.mbrR ny ax cs in
  guard_clear eps ay ->
  wf_dist ay /\ length ay = ny /\
  abduce (B:=FldR) eps (map Some by_, Some uy) (map embS cs) (map Some ax) ny
    = Some (map Some (abdB eps cs ax ay by_ uy), Some (abdU eps cs ax ay by_ uy), map Some ax) /\
  wf_simplex (abdB eps cs ax ay by_ uy) (abdU eps cs ax ay by_ uy) /\
  length (abdB eps cs ax ay by_ uy) = length ax /\
  forall x, (x < length ax)%nat ->
    nth x (abdB eps cs ax ay by_ uy) 0 + nth x ax 0 * abdU eps cs ax ay by_ uy
    = Rsum (map (fun y => PyR by_ uy ay y * PxyR eps cs ax ay x y) (seq 0 ny)).
Proof.
  intros He Hcs Hax Hlax Hwy Hlby Hm ay Hg.
  destruct (mbr (B:=FldR) eps ny (map Some ax) (map embS cs)) as [res|] eqn:E; [clear Hm|congruence].
  destruct (Deduce.mbr_some_eq eps ny ax cs res Hcs E) as (-> & HS).
  assert (Hay : wf_dist ay) by (apply Deduce.mbrR_wf; [apply pos_dist_wf; exact Hax|exact Hcs|exact HS]).
  assert (Hlay : length ay = ny) by apply Deduce.mbrR_length.
  split; [exact Hay|]. split; [exact Hlay|].
  rewrite <- Hlay in Hcs, Hlby.
  destruct (abduce_with_spec eps cs ax ay by_ uy He Hcs Hax Hlax Hay Hg Hwy Hlby) as (E1 & W & L & T).
  split.
  { rewrite (abduce_some_mbr eps _ _ _ ny _ E). f_equal. exact E1. }
  split; [exact W|]. split; [exact L|]. rewrite Hlay in T. exact T.
Qed.

Lemma abduce_spec_mbr_exact cs ax ny by_ uy :
  wf_conds cs ny -> pos_dist ax -> length ax = length cs ->
  wf_simplex by_ uy -> length by_ = ny ->
  mbr (B:=FldR) 0 ny (map Some ax) (map embS cs) <> None ->
  let ay := Deduce.mbrR ny ax cs in
  wf_dist ay /\ length ay = ny /\
  abduce (B:=FldR) 0 (map Some by_, Some uy) (map embS cs) (map Some ax) ny
    = Some (map Some (abdB 0 cs ax ay by_ uy), Some (abdU 0 cs ax ay by_ uy), map Some ax) /\
  wf_simplex (abdB 0 cs ax ay by_ uy) (abdU 0 cs ax ay by_ uy) /\
  length (abdB 0 cs ax ay by_ uy) = length ax /\
  forall x, (x < length ax)%nat ->
    nth x (abdB 0 cs ax ay by_ uy) 0 + nth x ax 0 * abdU 0 cs ax ay by_ uy
    = Rsum (map (fun y => PyR by_ uy ay y * PxyR 0 cs ax ay x y) (seq 0 ny)).
Proof.
  intros Hcs Hax Hlax Hwy Hlby Hm ay.
  assert (Hay : wf_dist ay).
  { destruct (mbr (B:=FldR) 0 ny (map Some ax) (map embS cs)) as [res|] eqn:E; [|congruence].
    destruct (Deduce.mbr_some_eq 0 ny ax cs res Hcs E) as (_ & HS).
    apply Deduce.mbrR_wf; [apply pos_dist_wf; exact Hax|exact Hcs|exact HS]. }
  apply abduce_spec_mbr; try assumption; [lra|]. apply guard_clear_0. apply Hay.
Qed.
