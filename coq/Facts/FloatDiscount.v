(* From the real-number model to IEEE-754 floating point, for trust discounting.

   [fdiscount] is the algorithm of `impl Discount for Simplex` (src/mul.rs:410-427) on Flocq's
   [binary_float prec emax] with round-to-nearest-even, using the bit-exact guard
   [Chk.is_vacuous] (= is_one = ulps_eq!(u, 1)) of Model/Chk.v.  [fdiscount_close] proves that on
   finite operands in [0,1] nothing overflows or becomes NaN and that every output stays within
   an explicit multiple of eps = 2^(1-prec) (= f32/f64::EPSILON) of the real-number result
   [discountR eps] of Facts/Discount.v -- with the SAME guard, which is taken on exactly the same
   inputs ([guard_agree]).  Everything is generic in the format (any prec >= 4, prec < emax:
   binary32, binary64, ...).  The binomial [trans_unc] arithmetic is treated at the end. *)
From Coq Require Import ZArith List Bool Reals Lia Lra Psatz.
From Flocq Require Import Core.Core IEEE754.Binary IEEE754.Bits IEEE754.BinarySingleNaN.
From SL Require Import Model.Num Model.Vec Model.Mul Model.InstR Model.Chk
  Facts.RBase Facts.Discount Facts.ChkFacts.
Import ListNotations.
Open Scope R_scope.

Section FloatDiscount.
Variables prec emax : Z.
Context (prec_gt_0_ : Prec_gt_0 prec).
Context (prec_lt_emax_ : Prec_lt_emax prec emax).
Hypothesis prec_ge_4 : (4 <= prec)%Z.

Notation float := (BinarySingleNaN.binary_float prec emax).
Notation emin := (SpecFloat.emin prec emax).
Notation fexp := (SpecFloat.fexp prec emax).
Notation eps := (bpow radix2 (1 - prec)).
Notation eta := (bpow radix2 emin).
Notation rnd := (round radix2 fexp ZnearestE).
Notation format := (generic_format radix2 fexp).
Notation fone := (Chk.fone prec emax prec_gt_0_ prec_lt_emax_).
Notation fzero := (Chk.fzero prec emax).
Notation is_vacuous := (Chk.is_vacuous prec emax prec_gt_0_ prec_lt_emax_).
Notation fmul := (Bmult (prec:=prec) (emax:=emax) mode_NE).
Notation fsub := (Bminus (prec:=prec) (emax:=emax) mode_NE).
Notation fadd := (Bplus (prec:=prec) (emax:=emax) mode_NE).

(* ------------------------------------------------------------------------------------------ *)
(* the float algorithm, operation by operation as in the Rust source *)
Definition fdiscount (b : list float) (u t : float) : list float * float :=
  if is_vacuous u
  then (map (fun _ => fzero) b, fone)                                (* Simplex::vacuous() *)
  else (map (fun bi => fmul bi t) b,                                 (* b * t *)
        fsub fone (fmul t (fsub fone u))).                           (* 1 - t * (1 - u) *)

(* operands: finite floats with value in [0,1] *)
Definition unitf (x : float) : Prop := is_finite x = true /\ 0 <= B2R x <= 1.

(* ------------------------------------------------------------------------------------------ *)
(* rounding facts *)
Lemma eps0 : 0 < eps.
Proof. apply bpow_gt_0. Qed.
Lemma eps8 : eps <= 1 / 8.
Proof. apply eps_le. exact prec_ge_4. Qed.
Lemma eta0 : 0 < eta.
Proof. apply bpow_gt_0. Qed.
Lemma fmt1 : format 1.
Proof. apply (format_1 prec emax); assumption. Qed.
Lemma emin_small : (emin <= 2 - 2 * prec)%Z.
Proof. apply emin_le. assumption. Qed.

Lemma half_eps : bpow radix2 (- prec) = eps / 2.
Proof.
  replace (1 - prec)%Z with (1 + - prec)%Z by ring. rewrite bpow_plus.
  change (bpow radix2 1) with 2. field.
Qed.

Lemma half_ulp x : Rabs (rnd x - x) <= / 2 * ulp radix2 fexp x.
Proof. apply error_le_half_ulp. apply fexp_correct; assumption. Qed.

(* the standard model with underflow: |rnd x - x| <= eps/2 |x| + eta/2 *)
Lemma rnd_err_mixed x : Rabs (rnd x - x) <= eps / 2 * Rabs x + eta / 2.
Proof.
  pose proof (half_ulp x) as H.
  pose proof eps0 as E0. pose proof eta0 as T0. pose proof (Rabs_pos x) as Ax.
  destruct (Rle_or_lt (bpow radix2 (emin + prec - 1)) (Rabs x)) as [Hx|Hx].
  - pose proof (ulp_FLT_le radix2 emin prec x Hx) as Hu.
    change (FLT_exp emin prec) with fexp in Hu. nra.
  - assert (Hx' : Rabs x < bpow radix2 (emin + prec)).
    { apply Rlt_le_trans with (1 := Hx). apply bpow_le. lia. }
    pose proof (ulp_FLT_small radix2 emin prec x Hx') as Hu.
    change (FLT_exp emin prec) with fexp in Hu. rewrite Hu in H. nra.
Qed.

(* on [0,1] the absolute error of one rounding is at most eps/4 (half an ulp below 1) *)
Lemma rnd_err_unit x : 0 <= x <= 1 -> Rabs (rnd x - x) <= eps / 4.
Proof.
  intros [H0 H1]. pose proof eps0 as E0.
  destruct (Req_dec x 1) as [->|N1].
  { rewrite round_generic; [|apply valid_rnd_N|apply fmt1].
    replace (1 - 1) with 0 by ring. rewrite Rabs_R0. lra. }
  destruct (Req_dec x 0) as [->|N0].
  { rewrite round_0 by apply valid_rnd_N. replace (0 - 0) with 0 by ring. rewrite Rabs_R0. lra. }
  pose proof (half_ulp x) as H.
  rewrite ulp_neq_0 in H by assumption.
  assert (Hm : (mag radix2 x <= 0)%Z).
  { apply mag_le_bpow; [assumption|]. rewrite Rabs_pos_eq by assumption. simpl. lra. }
  assert (Hc : (cexp radix2 fexp x <= - prec)%Z).
  { unfold cexp, SpecFloat.fexp. pose proof emin_small. lia. }
  apply (bpow_le radix2) in Hc. rewrite half_eps in Hc. lra.
Qed.

Lemma rnd_unit x : 0 <= x <= 1 -> 0 <= rnd x <= 1.
Proof.
  intros [H0 H1]. split.
  - apply round_ge_generic; [apply fexp_correct; assumption|apply valid_rnd_N|apply generic_format_0|assumption].
  - apply round_le_generic; [apply fexp_correct; assumption|apply valid_rnd_N|apply fmt1|assumption].
Qed.

Lemma one_lt_emax : 1 < bpow radix2 emax.
Proof.
  change 1 with (bpow radix2 0). apply bpow_lt.
  unfold Prec_lt_emax, Prec_gt_0 in *. lia.
Qed.

(* ------------------------------------------------------------------------------------------ *)
(* the three float operations on [0,1]: finite, and equal to the rounded exact result *)
Lemma fmul_unit x y : unitf x -> unitf y ->
  unitf (fmul x y) /\ B2R (fmul x y) = rnd (B2R x * B2R y).
Proof.
  intros [Fx Rx] [Fy Ry].
  assert (Hxy : 0 <= B2R x * B2R y <= 1) by nra.
  pose proof (rnd_unit _ Hxy) as Hr.
  generalize (Bmult_correct prec emax prec_gt_0_ prec_lt_emax_ mode_NE x y).
  cbn [round_mode]. rewrite Rlt_bool_true.
  - intros (HR & HF & _). rewrite Fx, Fy in HF. unfold unitf. rewrite HR. tauto.
  - rewrite Rabs_pos_eq by tauto. pose proof one_lt_emax. lra.
Qed.

Lemma fsub1_unit y : unitf y ->
  unitf (fsub fone y) /\ B2R (fsub fone y) = rnd (1 - B2R y).
Proof.
  intros [Fy Ry].
  assert (Hxy : 0 <= 1 - B2R y <= 1) by lra.
  pose proof (rnd_unit _ Hxy) as Hr.
  generalize (Bminus_correct prec emax prec_gt_0_ prec_lt_emax_ mode_NE fone y
                (fone_fin prec emax prec_gt_0_ prec_lt_emax_) Fy).
  cbn [round_mode]. rewrite (fone_R prec emax prec_gt_0_ prec_lt_emax_). rewrite Rlt_bool_true.
  - intros (HR & HF & _). unfold unitf. rewrite HR. tauto.
  - rewrite Rabs_pos_eq by tauto. pose proof one_lt_emax. lra.
Qed.

Lemma unitf_one : unitf fone.
Proof.
  split; [apply fone_fin|]. rewrite (fone_R prec emax prec_gt_0_ prec_lt_emax_). lra.
Qed.
Lemma unitf_zero : unitf fzero.
Proof. split; [reflexivity|]. cbn. lra. Qed.

(* a decidable form of [unitf], by float comparisons (for concrete operands) *)
Definition unitfb (x : float) : bool := is_finite x && Bleb fzero x && Bleb x fone.
Lemma unitfb_spec x : unitfb x = true -> unitf x.
Proof.
  unfold unitfb. intros H. apply andb_prop in H. destruct H as [H H2].
  apply andb_prop in H. destruct H as [F H1].
  pose proof (fone_fin prec emax prec_gt_0_ prec_lt_emax_) as F1.
  rewrite Bleb_correct in H1, H2 by (try assumption; reflexivity).
  rewrite (fone_R prec emax prec_gt_0_ prec_lt_emax_) in H2. cbn [B2R Chk.fzero] in H1.
  revert H1 H2. case Rle_bool_spec; [|discriminate]. case Rle_bool_spec; [|discriminate].
  intros. split; [assumption|lra].
Qed.

(* ------------------------------------------------------------------------------------------ *)
(* the float guard and the guard of the real model decide alike *)
Lemma guard_agree (u : float) : is_finite u = true ->
  is_vacuous u = Num.is_one (B:=FldR) eps (Some (B2R u)).
Proof.
  intros Fu. unfold Chk.is_vacuous.
  pose proof (is_one_spec prec emax prec_gt_0_ prec_lt_emax_ prec_ge_4 u) as HS.
  pose proof (is_one_some eps (B2R u)) as HR.
  destruct (Chk.is_one prec emax prec_gt_0_ prec_lt_emax_ u);
    destruct (Num.is_one (B:=FldR) eps (Some (B2R u))); try reflexivity.
  - symmetry. apply HR. apply HS. reflexivity.
  - apply HS. split; [assumption|]. apply HR. reflexivity.
Qed.

(* ------------------------------------------------------------------------------------------ *)
(* one belief mass and the uncertainty mass *)
Lemma belief_close (bi t : float) : unitf bi -> unitf t ->
  unitf (fmul bi t) /\
  Rabs (B2R (fmul bi t) - B2R bi * B2R t) <= eps / 4 /\
  Rabs (B2R (fmul bi t) - B2R bi * B2R t) <= eps / 2 * (B2R bi * B2R t) + eta / 2.
Proof.
  intros Hb Ht. destruct (fmul_unit bi t Hb Ht) as [HU HR]. split; [exact HU|].
  destruct Hb as [_ Rb]. destruct Ht as [_ Rt].
  assert (Hxy : 0 <= B2R bi * B2R t <= 1) by nra.
  rewrite HR. split; [apply rnd_err_unit; exact Hxy|].
  pose proof (rnd_err_mixed (B2R bi * B2R t)) as H. rewrite (Rabs_pos_eq (B2R bi * B2R t)) in H by tauto.
  exact H.
Qed.

Lemma unc_close (u t : float) : unitf u -> unitf t ->
  unitf (fsub fone (fmul t (fsub fone u))) /\
  Rabs (B2R (fsub fone (fmul t (fsub fone u))) - (1 - B2R t * (1 - B2R u))) <= 3 / 4 * eps.
Proof.
  intros Hu Ht.
  destruct (fsub1_unit u Hu) as [Uw Rw].
  destruct (fmul_unit t _ Ht Uw) as [Up Rp].
  destruct (fsub1_unit _ Up) as [Ur Rr].
  split; [exact Ur|].
  destruct Hu as [_ Ru]. destruct Ht as [_ Rt].
  destruct Uw as [_ Bw]. destruct Up as [_ Bp].
  set (w := B2R (fsub fone u)) in *.
  set (p := B2R (fmul t (fsub fone u))) in *.
  rewrite Rr.
  assert (E1 : Rabs (w - (1 - B2R u)) <= eps / 4) by (rewrite Rw; apply rnd_err_unit; lra).
  assert (E2 : Rabs (p - B2R t * w) <= eps / 4) by (rewrite Rp; apply rnd_err_unit; nra).
  assert (E3 : Rabs (rnd (1 - p) - (1 - p)) <= eps / 4) by (apply rnd_err_unit; lra).
  apply Rabs_le_inv in E1, E2, E3. apply Rabs_le. nra.
Qed.

(* ------------------------------------------------------------------------------------------ *)
(* item 2: finiteness, range, and distance to the real model *)
Theorem fdiscount_close (b : list float) (u t : float) :
  Forall unitf b -> unitf u -> unitf t ->
  let r := fdiscount b u t in
  let e := discountR eps (map B2R b) (B2R u) (B2R t) in
  Forall unitf (fst r) /\ unitf (snd r) /\
  Forall2 (fun y x => Rabs (B2R y - x) <= eps / 4 /\
                      Rabs (B2R y - x) <= eps / 2 * x + eta / 2) (fst r) (fst e) /\
  Rabs (B2R (snd r) - snd e) <= 3 / 4 * eps.
Proof.
  intros Hb Hu Ht r e. subst r e. unfold fdiscount, discountR.
  rewrite (guard_agree u (proj1 Hu)).
  pose proof eps0 as E0. pose proof eta0 as T0.
  destruct (Num.is_one (B:=FldR) eps (Some (B2R u))); cbn [fst snd].
  - split; [|split; [apply unitf_one|split]].
    + apply Forall_forall. intros y Hy. apply in_map_iff in Hy. destruct Hy as (x & <- & _).
      apply unitf_zero.
    + clear Hb. induction b as [|x b IH]; cbn [map]; constructor; [|exact IH].
      cbn [B2R Chk.fzero]. replace (0 - 0) with 0 by ring. rewrite Rabs_R0. lra.
    + rewrite (fone_R prec emax prec_gt_0_ prec_lt_emax_). replace (1 - 1) with 0 by ring.
      rewrite Rabs_R0. lra.
  - destruct (unc_close u t Hu Ht) as [Uu Eu].
    split; [|split; [exact Uu|split; [|exact Eu]]].
    + induction Hb as [|x b Hx Hb IH]; cbn [map]; constructor; [|exact IH].
      apply (belief_close x t Hx Ht).
    + induction Hb as [|x b Hx Hb IH]; cbn [map]; constructor; [|exact IH].
      destruct (belief_close x t Hx Ht) as (_ & H1 & H2). split; assumption.
Qed.

(* ------------------------------------------------------------------------------------------ *)
(* sums of entrywise-close lists *)
Lemma Rsum_close_abs (c : R) (l : list float) (l' : list R) :
  Forall2 (fun y x => Rabs (B2R y - x) <= c) l l' ->
  Rabs (Rsum (map B2R l) - Rsum l') <= INR (length l) * c.
Proof.
  induction 1 as [|y x l l' H _ IH].
  - cbn. replace (0 - 0) with 0 by ring. rewrite Rabs_R0. lra.
  - cbn [map Rsum length]. rewrite S_INR.
    replace (B2R y + Rsum (map B2R l) - (x + Rsum l'))
      with ((B2R y - x) + (Rsum (map B2R l) - Rsum l')) by ring.
    apply Rle_trans with (1 := Rabs_triang _ _). lra.
Qed.

Lemma Rsum_close_rel (k c : R) (l : list float) (l' : list R) :
  Forall2 (fun y x => Rabs (B2R y - x) <= k * x + c) l l' ->
  Rabs (Rsum (map B2R l) - Rsum l') <= k * Rsum l' + INR (length l) * c.
Proof.
  induction 1 as [|y x l l' H _ IH].
  - cbn. replace (0 - 0) with 0 by ring. rewrite Rabs_R0. lra.
  - cbn [map Rsum length]. rewrite S_INR.
    replace (B2R y + Rsum (map B2R l) - (x + Rsum l'))
      with ((B2R y - x) + (Rsum (map B2R l) - Rsum l')) by ring.
    apply Rle_trans with (1 := Rabs_triang _ _). lra.
Qed.

Lemma Forall2_weaken {X Y} (P Q : X -> Y -> Prop) l l' :
  (forall x y, P x y -> Q x y) -> Forall2 P l l' -> Forall2 Q l l'.
Proof. intros H; induction 1; constructor; auto. Qed.

Lemma fdiscount_length b u t : length (fst (fdiscount b u t)) = length b.
Proof. unfold fdiscount. destruct (is_vacuous u); cbn [fst]; apply map_length. Qed.

(* item 3: on an exactly well-formed float simplex the result is a simplex up to rounding:
   entries in [0,1] and finite, and the real sum of the float outputs within (n+3)/4 eps of 1
   -- and, by the relative error bound, within 5/4 eps + n eta/2 (eta = 2^emin, the smallest
   subnormal), i.e. independent of the domain size up to underflow. *)
Theorem fdiscount_wf_approx (b : list float) (u t : float) :
  Forall unitf b -> unitf u -> unitf t ->
  wf_simplex (map B2R b) (B2R u) ->
  let r := fdiscount b u t in
  let n := INR (length b) in
  Forall unitf (fst r) /\ unitf (snd r) /\
  Rabs (Rsum (map B2R (fst r)) + B2R (snd r) - 1) <= (n + 3) / 4 * eps /\
  Rabs (Rsum (map B2R (fst r)) + B2R (snd r) - 1) <= 5 / 4 * eps + n * (eta / 2).
Proof.
  intros Hb Hu Ht Hwf r n.
  destruct (fdiscount_close b u t Hb Hu Ht) as (F1 & F2 & C1 & C2). fold r in F1, F2, C1, C2.
  split; [exact F1|split; [exact F2|]].
  pose proof eps0 as E0. pose proof eps8 as E8.
  assert (He : 0 <= eps <= 1 / 8) by lra.
  destruct (discount_wf eps He (map B2R b) (B2R u) (B2R t) Hwf (proj2 Ht)) as (W1 & W2 & W3).
  set (e := discountR eps (map B2R b) (B2R u) (B2R t)) in *.
  assert (Hn : INR (length (fst r)) = n) by (unfold r, n; rewrite fdiscount_length; reflexivity).
  assert (S1 : Rabs (Rsum (map B2R (fst r)) - Rsum (fst e)) <= n * (eps / 4)).
  { rewrite <- Hn. apply Rsum_close_abs. revert C1. apply Forall2_weaken. tauto. }
  assert (S2 : Rabs (Rsum (map B2R (fst r)) - Rsum (fst e)) <= eps / 2 * Rsum (fst e) + n * (eta / 2)).
  { rewrite <- Hn. apply Rsum_close_rel. revert C1. apply Forall2_weaken. tauto. }
  pose proof (Rsum_nonneg _ W1) as W0.
  apply Rabs_le_inv in S1, S2, C2.
  split; apply Rabs_le; nra.
Qed.

(* ------------------------------------------------------------------------------------------ *)
(* item 4: the arithmetic of the binomial BOpinion::trans_unc (src/bi.rs:356-364):
   (t * b, t * d, 1 - t + t * u); the argument check and the constructor's validation
   (check_unit_interval / BOpinion::new) are not part of this definition. *)
Definition ftrans_unc (b d u t : float) : float * float * float :=
  (fmul t b, fmul t d, fadd (fsub fone t) (fmul t u)).

(* one rounding on [0,2]: at most eps/2 *)
Lemma fmt2 : format 2.
Proof.
  change 2 with (bpow radix2 1). apply generic_format_bpow.
  unfold SpecFloat.fexp. pose proof emin_small. lia.
Qed.

Lemma rnd_err_two x : 0 <= x <= 2 -> Rabs (rnd x - x) <= eps / 2.
Proof.
  intros [H0 H2]. pose proof eps0 as E0.
  destruct (Req_dec x 2) as [->|N2].
  { rewrite round_generic; [|apply valid_rnd_N|apply fmt2].
    replace (2 - 2) with 0 by ring. rewrite Rabs_R0. lra. }
  destruct (Req_dec x 0) as [->|N0].
  { rewrite round_0 by apply valid_rnd_N. replace (0 - 0) with 0 by ring. rewrite Rabs_R0. lra. }
  pose proof (half_ulp x) as H.
  rewrite ulp_neq_0 in H by assumption.
  assert (Hm : (mag radix2 x <= 1)%Z).
  { apply mag_le_bpow; [assumption|]. rewrite Rabs_pos_eq by assumption.
    change (bpow radix2 1) with 2. lra. }
  assert (Hc : (cexp radix2 fexp x <= 1 - prec)%Z).
  { unfold cexp, SpecFloat.fexp. pose proof emin_small. lia. }
  apply (bpow_le radix2) in Hc. lra.
Qed.

Theorem ftrans_unc_close (b d u t : float) :
  unitf b -> unitf d -> unitf u -> unitf t ->
  let '(b', d', u') := ftrans_unc b d u t in
  unitf b' /\ unitf d' /\
  is_finite u' = true /\ 0 <= B2R u' <= 1 + eps /\
  Rabs (B2R b' - B2R t * B2R b) <= eps / 4 /\
  Rabs (B2R d' - B2R t * B2R d) <= eps / 4 /\
  Rabs (B2R u' - (1 - B2R t * (1 - B2R u))) <= eps.
Proof.
  intros Hb Hd Hu Ht. unfold ftrans_unc.
  destruct (fmul_unit t b Ht Hb) as [Ub Rb].
  destruct (fmul_unit t d Ht Hd) as [Ud Rd].
  destruct (fmul_unit t u Ht Hu) as [Uq Rq].
  destruct (fsub1_unit t Ht) as [Uw Rw].
  split; [exact Ub|split; [exact Ud|]].
  pose proof eps0 as E0. pose proof eps8 as E8.
  destruct Hb as [_ Bb]. destruct Hd as [_ Bd]. destruct Hu as [_ Bu]. destruct Ht as [_ Bt].
  assert (E1 : Rabs (B2R (fsub fone t) - (1 - B2R t)) <= eps / 4) by (rewrite Rw; apply rnd_err_unit; lra).
  assert (E2 : Rabs (B2R (fmul t u) - B2R t * B2R u) <= eps / 4) by (rewrite Rq; apply rnd_err_unit; nra).
  destruct Uw as [Fw Bw]. destruct Uq as [Fq Bq].
  set (w := B2R (fsub fone t)) in *. set (q := B2R (fmul t u)) in *.
  apply Rabs_le_inv in E1, E2.
  assert (Hs : 0 <= w + q <= 1 + eps / 2) by nra.
  assert (Hs2 : 0 <= w + q <= 2) by lra.
  pose proof (rnd_err_two _ Hs2) as E3. apply Rabs_le_inv in E3.
  assert (Hr0 : 0 <= rnd (w + q)).
  { apply round_ge_generic; [apply fexp_correct; assumption|apply valid_rnd_N|apply generic_format_0|tauto]. }
  generalize (Bplus_correct prec emax prec_gt_0_ prec_lt_emax_ mode_NE _ _ Fw Fq).
  cbn [round_mode]. fold w q. rewrite Rlt_bool_true.
  - intros (HR & HF & _). rewrite HR.
    split; [exact HF|]. split; [lra|].
    split; [rewrite Rb; apply rnd_err_unit; nra|].
    split; [rewrite Rd; apply rnd_err_unit; nra|].
    apply Rabs_le. nra.
  - rewrite Rabs_pos_eq by assumption.
    apply Rle_lt_trans with 2; [lra|].
    change 2 with (bpow radix2 1). apply bpow_lt. unfold Prec_lt_emax, Prec_gt_0 in *. lia.
Qed.

End FloatDiscount.

(* ------------------------------------------------------------------------------------------ *)
(* the two formats of the crate *)
Lemma f64_prec_ge_4 : (4 <= 53)%Z. Proof. lia. Qed.
Lemma f32_prec_ge_4 : (4 <= 24)%Z. Proof. lia. Qed.

(* the weaker bound (n+3) eps, hypotheses and conclusions spelled out, binary64 *)
Lemma fdiscount_wf_approx_f64_weak : forall (b : list f64) (u t : f64),
  Forall (unitf 53 1024) b -> unitf 53 1024 u -> unitf 53 1024 t ->
  wf_simplex (map B2R b) (B2R u) ->
  let r := fdiscount 53 1024 Hprec64 Hmax64 b u t in
  Forall (fun y => is_finite y = true /\ 0 <= B2R y <= 1) (fst r) /\
  (is_finite (snd r) = true /\ 0 <= B2R (snd r) <= 1) /\
  Rabs (Rsum (map B2R (fst r)) + B2R (snd r) - 1) <= (INR (length b) + 3) * bpow radix2 (-52).
Proof.
  intros b u t Hb Hu Ht Hwf r.
  destruct (fdiscount_wf_approx 53 1024 Hprec64 Hmax64 f64_prec_ge_4 b u t Hb Hu Ht Hwf)
    as (F1 & F2 & S1 & _).
  split; [exact F1|split; [exact F2|]].
  apply Rle_trans with (1 := S1).
  pose proof (bpow_gt_0 radix2 (1 - 53)) as E0. pose proof (pos_INR (length b)) as N0.
  change (1 - 53)%Z with (-52)%Z in *. unfold f64 in *.
  set (e := bpow radix2 (-52)) in *. clearbody e. nra.
Qed.

(* a concrete binary64 operand: b = [0.25; 0.25; 0.125], u = 0.375, t = 0.3 *)
Lemma c10b_example :
  let b := map f64_of_bits [0x3FD0000000000000; 0x3FD0000000000000; 0x3FC0000000000000]%Z in
  let u := f64_of_bits 0x3FD8000000000000 in
  let t := f64_of_bits 0x3FD3333333333333 in
  Forall (unitf 53 1024) b /\ unitf 53 1024 u /\ unitf 53 1024 t /\
  wf_simplex (map B2R b) (B2R u) /\
  (let r := fdiscount 53 1024 Hprec64 Hmax64 b u t in
   (map (bits_of 53 1024) (fst r), bits_of 53 1024 (snd r)) =
   ([0x3FB3333333333333; 0x3FB3333333333333; 0x3FA3333333333333], 0x3FEA000000000000)%Z).
Proof.
  intros b u t.
  assert (Hq : B2R (f64_of_bits 0x3FD0000000000000) = 1 / 4).
  { set (x := f64_of_bits _). vm_compute in x. subst x. cbn [B2R cond_Zopp]. unfold F2R. cbn. lra. }
  assert (He : B2R (f64_of_bits 0x3FC0000000000000) = 1 / 8).
  { set (x := f64_of_bits _). vm_compute in x. subst x. cbn [B2R cond_Zopp]. unfold F2R. cbn. lra. }
  assert (Hu : B2R (f64_of_bits 0x3FD8000000000000) = 3 / 8).
  { set (x := f64_of_bits _). vm_compute in x. subst x. cbn [B2R cond_Zopp]. unfold F2R. cbn. lra. }
  split; [|split; [|split; [|split]]].
  - subst b. cbn [map].
    repeat (apply Forall_cons; [apply (unitfb_spec 53 1024 Hprec64 Hmax64); vm_compute; reflexivity|]).
    apply Forall_nil.
  - apply (unitfb_spec 53 1024 Hprec64 Hmax64); vm_compute; reflexivity.
  - apply (unitfb_spec 53 1024 Hprec64 Hmax64); vm_compute; reflexivity.
  - subst b u. cbn [map]. rewrite Hq, He, Hu. unfold wf_simplex, nonneg. cbn [Rsum].
    split; [repeat constructor; lra|]. lra.
  - vm_compute. reflexivity.
Qed.
