(* C02 (and the base for C03, C07): belief fusion on the real-number instance.

   Contents
   1. guards [is_dogR]/[is_vacR] and their reading on [0,1];
   2. list helpers for [map2];
   3. [normalizedR], the closed forms [acm_genR]/[avg_genR]/[wgh_genR], the explicit result
      [compute_simplexR] of [compute_simplex], its evaluation lemma (all denominators behind the
      guard ladder are non-zero, the final normalisation divides by exactly 1), branch
      characterisations and well-formedness;
   4. [compute_base_rateR], its evaluation lemma, and the description of every branch as
      [map2 (mixR eps sc w)]: a convex combination with one weight [w = base_wR ..] for all
      entries, short-cut to the left entry when [sc = base_scR ..] and the two entries are
      [aeq]; range, shared base rate, sum and positivity follow from that description;
   5. local treatment of [uncertainty_maximized] ([fprojR], [fmaxuR], [fumaxR]);
   6. [fuseR], [fuse_defined], [fuse_closed] and the ECm counterexample for eps > 0. *)
From Coq Require Import Reals List Bool Lra Lia.
Import ListNotations.
From SL Require Import Model.Num Model.Vec Model.Mul Model.InstR Facts.RBase.
Open Scope R_scope.

(* ------------------------------------------------------------------ 1. guards *)
Definition is_dogR (eps u : R) : bool := is_zero (B:=FldR) eps (Some u).
Definition is_vacR (eps u : R) : bool := is_one (B:=FldR) eps (Some u).

Lemma is_dogR_true eps u : 0 <= u -> (is_dogR eps u = true <-> u <= eps).
Proof. intros Hu. unfold is_dogR. rewrite is_zero_some. lra. Qed.
Lemma is_dogR_false eps u : 0 <= eps -> 0 <= u -> (is_dogR eps u = false <-> eps < u).
Proof. intros He Hu. unfold is_dogR. rewrite is_zero_some_false. lra. Qed.
Lemma is_vacR_true eps u : 0 <= eps -> u <= 1 -> (is_vacR eps u = true <-> 1 - 2 * eps <= u).
Proof. intros He Hu. unfold is_vacR. rewrite is_one_some. lra. Qed.
Lemma is_vacR_false eps u : 0 <= eps -> u <= 1 -> (is_vacR eps u = false <-> u < 1 - 2 * eps).
Proof. intros He Hu. unfold is_vacR. rewrite is_one_some_false. lra. Qed.

(* with exact guards: dogmatic is u = 0, vacuous is u = 1 *)
Lemma is_dogR_exact u : 0 <= u -> (is_dogR 0 u = true <-> u = 0).
Proof. intros Hu. rewrite is_dogR_true by lra. lra. Qed.
Lemma is_vacR_exact u : u <= 1 -> (is_vacR 0 u = true <-> u = 1).
Proof. intros Hu. rewrite is_vacR_true by lra. lra. Qed.

(* the two guards exclude each other for eps <= 1/8 *)
Lemma dog_vac_excl eps u : 0 <= eps <= 1/8 -> is_dogR eps u = true -> is_vacR eps u = false.
Proof.
  intros He H. unfold is_dogR in H. apply is_zero_some in H.
  unfold is_vacR. apply is_one_some_false. lra.
Qed.

(* --------------------------------------------------------- 2. map2 helpers *)
Lemma map2_ext {X Y Z} (f g : X -> Y -> Z) l1 l2 :
  (forall x y, f x y = g x y) -> map2 f l1 l2 = map2 g l1 l2.
Proof. intros H; revert l2; induction l1; destruct l2; cbn; auto. rewrite H, IHl1; reflexivity. Qed.

Lemma map2_ext_in {X Y Z} (f g : X -> Y -> Z) l1 l2 :
  (forall x y, In x l1 -> In y l2 -> f x y = g x y) -> map2 f l1 l2 = map2 g l1 l2.
Proof.
  revert l2; induction l1 as [|a l1 IH]; destruct l2 as [|b l2]; cbn; intros H; auto.
  rewrite H by auto. rewrite IH; auto.
Qed.

Lemma map2_fst {X Y} (f : X -> Y -> X) l1 l2 :
  length l1 = length l2 -> (forall x y, f x y = x) -> map2 f l1 l2 = l1.
Proof.
  intros HL H; revert l2 HL; induction l1; destruct l2; cbn; intros HL; try discriminate; auto.
  rewrite H, IHl1; auto.
Qed.
Lemma map2_snd {X Y} (f : X -> Y -> Y) l1 l2 :
  length l1 = length l2 -> (forall x y, f x y = y) -> map2 f l1 l2 = l2.
Proof.
  intros HL H; revert l2 HL; induction l1; destruct l2; cbn; intros HL; try discriminate; auto.
  rewrite H, IHl1; auto.
Qed.

Lemma map2_length_eq {X Y Z} (f : X -> Y -> Z) l1 l2 :
  length l1 = length l2 -> length (map2 f l1 l2) = length l1.
Proof. intros H. rewrite map2_length, <- H. apply Nat.min_id. Qed.

Lemma map2_nth {X Y Z} (f : X -> Y -> Z) l1 l2 i dx dy dz :
  (i < length l1)%nat -> length l1 = length l2 ->
  nth i (map2 f l1 l2) dz = f (nth i l1 dx) (nth i l2 dy).
Proof.
  revert l2 i; induction l1 as [|a l1 IH]; destruct l2 as [|b l2]; cbn; intros i Hi HL;
    try lia; try discriminate.
  destruct i; [reflexivity|]. apply IH; lia.
Qed.

Lemma nonneg_map2 (f : R -> R -> R) l1 l2 :
  (forall x y, 0 <= x -> 0 <= y -> 0 <= f x y) -> nonneg l1 -> nonneg l2 -> nonneg (map2 f l1 l2).
Proof.
  intros H H1; revert l2; induction H1; intros l2 H2; destruct H2; cbn; constructor; auto.
  apply IHForall; assumption.
Qed.

Lemma nonneg_zeros' {X} (l : list X) : nonneg (map (fun _ => 0) l).
Proof. induction l; cbn; constructor; auto; lra. Qed.

Lemma nonneg_map (f : R -> R) l : (forall x, 0 <= x -> 0 <= f x) -> nonneg l -> nonneg (map f l).
Proof. intros H H1; induction H1; cbn; constructor; auto. Qed.

(* sum of an entry-wise linear combination *)
Lemma Rsum_map2_lin (f : R -> R -> R) c d l1 l2 :
  (forall x y, f x y = x * c + y * d) -> length l1 = length l2 ->
  Rsum (map2 f l1 l2) = Rsum l1 * c + Rsum l2 * d.
Proof.
  intros H; revert l2; induction l1; destruct l2; cbn; intros HL; try discriminate; [lra|].
  rewrite H, IHl1 by lia. lra.
Qed.

Lemma Rsum_map2_ge (f g : R -> R -> R) l1 l2 :
  (forall x y, In x l1 -> In y l2 -> g x y <= f x y) ->
  Rsum (map2 g l1 l2) <= Rsum (map2 f l1 l2).
Proof.
  revert l2; induction l1 as [|a l1 IH]; destruct l2 as [|b l2]; cbn; intros H; try lra.
  assert (g a b <= f a b) by auto.
  assert (Rsum (map2 g l1 l2) <= Rsum (map2 f l1 l2)) by (apply IH; auto). lra.
Qed.

Lemma Rabs_le_inv' x y : Rabs x <= y -> - y <= x <= y.
Proof. unfold Rabs; destruct (Rcase_abs x); lra. Qed.

(* sum of an entry-wise eps-perturbed map2 *)
Lemma Rsum_map2_close (f g : R -> R -> R) e l1 l2 :
  (forall x y, Rabs (f x y - g x y) <= e) ->
  Rabs (Rsum (map2 f l1 l2) - Rsum (map2 g l1 l2)) <= INR (length (map2 f l1 l2)) * e.
Proof.
  intros H; revert l2; induction l1 as [|a l1 IH]; destruct l2 as [|b l2];
    try (cbn; rewrite Rminus_0_r, Rabs_R0; lra).
  cbn [map2 Rsum length]. rewrite S_INR. specialize (IH l2). specialize (H a b).
  apply Rabs_le. apply Rabs_le_inv' in IH. apply Rabs_le_inv' in H. lra.
Qed.

Lemma map_div_one l : map (fun x => x / 1) l = l.
Proof. rewrite <- (map_id l) at 2. apply map_ext; intros; lra. Qed.

(* ------------------------------------------------------- 3. the fused simplex *)
Definition normalizedR (b : list R) (u : R) : list R * R :=
  (map (fun x => x / (Rsum b + u)) b, u / (Rsum b + u)).

Lemma normalized_eval b u : Rsum b + u <> 0 ->
  normalized (B:=FldR) (map Some b) (Some u) =
  (map Some (fst (normalizedR b u)), Some (snd (normalizedR b u))).
Proof.
  intros H. unfold normalized, normalizedR; cbn [fst snd]. rewrite vsum_some, add_some.
  f_equal; [|apply div_some; exact H].
  apply map_some. intros a; apply div_some; exact H.
Qed.

Lemma normalizedR_one b u : Rsum b + u = 1 -> normalizedR b u = (b, u).
Proof. intros H. unfold normalizedR. rewrite H, map_div_one. f_equal; lra. Qed.

(* normalisation by exactly 1 is the identity *)
Lemma normalized_one b u : Rsum b + u = 1 ->
  normalized (B:=FldR) (map Some b) (Some u) = (map Some b, Some u).
Proof. intros H. rewrite normalized_eval by lra. rewrite normalizedR_one by exact H. reflexivity. Qed.

Lemma normalizedR_wf b u : nonneg b -> 0 <= u -> 0 < Rsum b + u ->
  wf_simplex (fst (normalizedR b u)) (snd (normalizedR b u)).
Proof.
  intros Hb Hu Hs. unfold normalizedR; cbn [fst snd]. repeat split.
  - apply nonneg_map; [|exact Hb]. intros x Hx. apply Rmult_le_pos; [lra|].
    apply Rlt_le, Rinv_0_lt_compat; exact Hs.
  - apply Rmult_le_pos; [lra|]. apply Rlt_le, Rinv_0_lt_compat; exact Hs.
  - rewrite Rsum_map_div. field. lra.
Qed.

(* closed forms of the three general branches *)
Definition acm_genR (lb : list R) (lu : R) (rb : list R) (ru : R) : list R * R :=
  (map2 (fun x y => (x * ru + y * lu) / (lu + ru - lu * ru)) lb rb,
   lu * ru / (lu + ru - lu * ru)).
Definition avg_genR (lb : list R) (lu : R) (rb : list R) (ru : R) : list R * R :=
  (map2 (fun x y => (x * ru + y * lu) / (lu + ru)) lb rb,
   2 * lu * ru / (lu + ru)).
Definition wgh_genR (lb : list R) (lu : R) (rb : list R) (ru : R) : list R * R :=
  (map2 (fun x y => (x * (1 - lu) * ru + y * (1 - ru) * lu) / (ru * (1 - lu) + lu * (1 - ru))) lb rb,
   ((1 - lu) + (1 - ru)) * lu * ru / (ru * (1 - lu) + lu * (1 - ru))).

(* the denominators *)
Lemma acm_den_pos lu ru : 0 <= lu <= 1 -> 0 <= ru <= 1 -> 0 < lu \/ 0 < ru -> 0 < lu + ru - lu * ru.
Proof. intros Hl Hr [H|H]; nra. Qed.
(* u1 + u2 - u1 u2 >= max u1 u2 *)
Lemma acm_den_ge_max lu ru : 0 <= lu <= 1 -> 0 <= ru <= 1 -> Rmax lu ru <= lu + ru - lu * ru.
Proof. intros Hl Hr. apply Rmax_lub; nra. Qed.
Lemma avg_den_pos lu ru : 0 <= lu -> 0 <= ru -> 0 < lu \/ 0 < ru -> 0 < lu + ru.
Proof. intros Hl Hr [H|H]; lra. Qed.
(* u1 (1 - u2) + u2 (1 - u1) > 0 unless both vacuous or both dogmatic *)
Lemma wgh_den_pos lu ru : 0 <= lu <= 1 -> 0 <= ru <= 1 ->
  ~ (lu = 0 /\ ru = 0) -> ~ (lu = 1 /\ ru = 1) -> 0 < ru * (1 - lu) + lu * (1 - ru).
Proof.
  intros Hl Hr H0 H1.
  destruct (Req_dec lu 0) as [->|Hl0].
  - assert (ru <> 0) by (intros ->; apply H0; split; reflexivity). nra.
  - destruct (Req_dec ru 1) as [->|Hr1].
    + assert (lu <> 1) by (intros ->; apply H1; split; reflexivity). nra.
    + assert (0 < lu * (1 - ru)) by (apply Rmult_lt_0_compat; lra).
      assert (0 <= ru * (1 - lu)) by (apply Rmult_le_pos; lra). lra.
Qed.
Lemma wgh_den_pos_strict lu ru : 0 < lu < 1 -> 0 < ru < 1 -> 0 < ru * (1 - lu) + lu * (1 - ru).
Proof. intros Hl Hr. apply wgh_den_pos; lra. Qed.
(* (1 - u1) + (1 - u2) > 0 unless both vacuous *)
Lemma wgh_base_den_pos lu ru : lu <= 1 -> ru <= 1 -> ~ (lu = 1 /\ ru = 1) -> 0 < (1 - lu) + (1 - ru).
Proof.
  intros Hl Hr H1. destruct (Req_dec lu 1) as [->|Hl1]; [|lra].
  assert (ru <> 1) by (intros ->; apply H1; split; reflexivity). lra.
Qed.

Section GeneralBranches.
Variables (lb rb : list R) (lu ru : R).
Hypothesis Hl : wf_simplex lb lu.
Hypothesis Hr : wf_simplex rb ru.
Hypothesis HL : length lb = length rb.

Let Hlu1 : lu <= 1 := wf_simplex_u_le1 _ _ Hl.
Let Hru1 : ru <= 1 := wf_simplex_u_le1 _ _ Hr.

Lemma acm_genR_sum : 0 < lu \/ 0 < ru ->
  Rsum (fst (acm_genR lb lu rb ru)) + snd (acm_genR lb lu rb ru) = 1.
Proof.
  intros Hp. destruct Hl as (Hb1 & Hu1 & Hs1), Hr as (Hb2 & Hu2 & Hs2).
  assert (Hd : 0 < lu + ru - lu * ru) by (apply acm_den_pos; auto; lra).
  unfold acm_genR; cbn [fst snd].
  rewrite (Rsum_map2_lin _ (ru / (lu + ru - lu * ru)) (lu / (lu + ru - lu * ru))); [|intros; field; lra|exact HL].
  replace (Rsum lb) with (1 - lu) by lra. replace (Rsum rb) with (1 - ru) by lra. field; lra.
Qed.

Lemma acm_genR_wf : 0 < lu \/ 0 < ru ->
  wf_simplex (fst (acm_genR lb lu rb ru)) (snd (acm_genR lb lu rb ru)).
Proof.
  intros Hp. split; [|split; [|apply acm_genR_sum; exact Hp]];
  destruct Hl as (Hb1 & Hu1 & Hs1), Hr as (Hb2 & Hu2 & Hs2);
  assert (Hd : 0 < lu + ru - lu * ru) by (apply acm_den_pos; auto; lra);
  unfold acm_genR; cbn [fst snd].
  - apply nonneg_map2; auto. intros x y Hx Hy.
    apply Rmult_le_pos; [|apply Rlt_le, Rinv_0_lt_compat; exact Hd].
    assert (0 <= x * ru) by (apply Rmult_le_pos; lra).
    assert (0 <= y * lu) by (apply Rmult_le_pos; lra). lra.
  - apply Rmult_le_pos; [apply Rmult_le_pos; lra|apply Rlt_le, Rinv_0_lt_compat; exact Hd].
Qed.

Lemma avg_genR_sum : 0 < lu \/ 0 < ru ->
  Rsum (fst (avg_genR lb lu rb ru)) + snd (avg_genR lb lu rb ru) = 1.
Proof.
  intros Hp. destruct Hl as (Hb1 & Hu1 & Hs1), Hr as (Hb2 & Hu2 & Hs2).
  assert (Hd : 0 < lu + ru) by (apply avg_den_pos; auto).
  unfold avg_genR; cbn [fst snd].
  rewrite (Rsum_map2_lin _ (ru / (lu + ru)) (lu / (lu + ru))); [|intros; field; lra|exact HL].
  replace (Rsum lb) with (1 - lu) by lra. replace (Rsum rb) with (1 - ru) by lra. field; lra.
Qed.

Lemma avg_genR_wf : 0 < lu \/ 0 < ru ->
  wf_simplex (fst (avg_genR lb lu rb ru)) (snd (avg_genR lb lu rb ru)).
Proof.
  intros Hp. split; [|split; [|apply avg_genR_sum; exact Hp]];
  destruct Hl as (Hb1 & Hu1 & Hs1), Hr as (Hb2 & Hu2 & Hs2);
  assert (Hd : 0 < lu + ru) by (apply avg_den_pos; auto);
  unfold avg_genR; cbn [fst snd].
  - apply nonneg_map2; auto. intros x y Hx Hy.
    apply Rmult_le_pos; [|apply Rlt_le, Rinv_0_lt_compat; exact Hd].
    assert (0 <= x * ru) by (apply Rmult_le_pos; lra).
    assert (0 <= y * lu) by (apply Rmult_le_pos; lra). lra.
  - apply Rmult_le_pos; [|apply Rlt_le, Rinv_0_lt_compat; exact Hd].
    apply Rmult_le_pos; [|lra]. apply Rmult_le_pos; lra.
Qed.

Lemma wgh_genR_sum : ~ (lu = 0 /\ ru = 0) -> ~ (lu = 1 /\ ru = 1) ->
  Rsum (fst (wgh_genR lb lu rb ru)) + snd (wgh_genR lb lu rb ru) = 1.
Proof.
  intros H0 H1. destruct Hl as (Hb1 & Hu1 & Hs1), Hr as (Hb2 & Hu2 & Hs2).
  assert (Hd : 0 < ru * (1 - lu) + lu * (1 - ru)) by (apply wgh_den_pos; auto; lra).
  unfold wgh_genR; cbn [fst snd].
  rewrite (Rsum_map2_lin _ ((1 - lu) * ru / (ru * (1 - lu) + lu * (1 - ru)))
                           ((1 - ru) * lu / (ru * (1 - lu) + lu * (1 - ru))));
    [|intros; field; lra|exact HL].
  replace (Rsum lb) with (1 - lu) by lra. replace (Rsum rb) with (1 - ru) by lra. field; lra.
Qed.

Lemma wgh_genR_wf : ~ (lu = 0 /\ ru = 0) -> ~ (lu = 1 /\ ru = 1) ->
  wf_simplex (fst (wgh_genR lb lu rb ru)) (snd (wgh_genR lb lu rb ru)).
Proof.
  intros H0 H1. split; [|split; [|apply wgh_genR_sum; assumption]];
  destruct Hl as (Hb1 & Hu1 & Hs1), Hr as (Hb2 & Hu2 & Hs2);
  assert (Hd : 0 < ru * (1 - lu) + lu * (1 - ru)) by (apply wgh_den_pos; auto; lra);
  unfold wgh_genR; cbn [fst snd].
  - apply nonneg_map2; auto. intros x y Hx Hy.
    apply Rmult_le_pos; [|apply Rlt_le, Rinv_0_lt_compat; exact Hd].
    assert (0 <= x * (1 - lu) * ru) by (repeat apply Rmult_le_pos; lra).
    assert (0 <= y * (1 - ru) * lu) by (repeat apply Rmult_le_pos; lra). lra.
  - apply Rmult_le_pos; [|apply Rlt_le, Rinv_0_lt_compat; exact Hd].
    repeat apply Rmult_le_pos; lra.
Qed.

(* both operands dogmatic up to eps: mean of the beliefs, renormalised by 1 - (lu + ru)/2 *)
Lemma dog_mean_sum :
  Rsum (map2 (fun x y => (x + y) / 2) lb rb) + 0 = 1 - (lu + ru) / 2.
Proof.
  destruct Hl as (Hb1 & Hu1 & Hs1), Hr as (Hb2 & Hu2 & Hs2).
  rewrite (Rsum_map2_lin _ (1/2) (1/2)); [|intros; lra|exact HL]. lra.
Qed.

Lemma dog_mean_wf : lu + ru < 2 ->
  wf_simplex (fst (normalizedR (map2 (fun x y => (x + y) / 2) lb rb) 0))
             (snd (normalizedR (map2 (fun x y => (x + y) / 2) lb rb) 0)).
Proof.
  intros H. apply normalizedR_wf; [|lra|rewrite dog_mean_sum; lra].
  pose proof Hl as (Hb1 & _). pose proof Hr as (Hb2 & _).
  apply nonneg_map2; auto. intros; lra.
Qed.

End GeneralBranches.

(* the result of [compute_simplex] on real operands: same guard ladder; the general branches
   are given WITHOUT the final normalisation (it divides by exactly 1, see
   [compute_simplex_eval]); the doubly-dogmatic branch keeps it (it divides by
   1 - (lu + ru)/2, which is 1 only when both uncertainties are exactly 0) *)
Definition compute_simplexR (eps : R) (op : fuse_op) (l r : list R * R) : list R * R :=
  let '(lb, lu) := l in
  let '(rb, ru) := r in
  if is_dogR eps lu && is_dogR eps ru then
    normalizedR (map2 (fun x y => (x + y) / 2) lb rb) 0
  else
    match op with
    | ACm | ECm =>
        if is_vacR eps lu && is_vacR eps ru then (map (fun _ => 0) lb, 1)
        else if is_vacR eps lu || is_dogR eps ru then r
        else if is_vacR eps ru || is_dogR eps lu then l
        else acm_genR lb lu rb ru
    | Avg =>
        if is_dogR eps lu then l
        else if is_dogR eps ru then r
        else avg_genR lb lu rb ru
    | Wgh =>
        if is_vacR eps lu && is_vacR eps ru then (map (fun _ => 0) lb, 1)
        else if is_vacR eps lu || is_dogR eps ru then r
        else if is_vacR eps ru || is_dogR eps lu then l
        else wgh_genR lb lu rb ru
    end.

(* evaluation of the three general branches inside the model *)
Section GeneralEval.
Local Notation addR := (add (B:=FldR)).
Local Notation subR := (sub (B:=FldR)).
Local Notation mulR := (mul (B:=FldR)).
Local Notation divR := (div (B:=FldR)).
Variables (lb rb : list R) (lu ru : R).
Hypothesis Hl : wf_simplex lb lu.
Hypothesis Hr : wf_simplex rb ru.
Hypothesis HL : length lb = length rb.

Lemma acm_gen_eval : 0 < lu \/ 0 < ru ->
  normalized (B:=FldR)
    (map2 (fun x y : RV => divR (addR (mulR x (Some ru)) (mulR y (Some lu)))
                          (subR (addR (Some lu) (Some ru)) (mulR (Some lu) (Some ru))))
          (map Some lb) (map Some rb))
    (divR (mulR (Some lu) (Some ru)) (subR (addR (Some lu) (Some ru)) (mulR (Some lu) (Some ru))))
  = (map Some (fst (acm_genR lb lu rb ru)), Some (snd (acm_genR lb lu rb ru))).
Proof.
  intros Hp.
  assert (Hd : 0 < lu + ru - lu * ru).
  { pose proof (wf_simplex_u_le1 _ _ Hl). pose proof (wf_simplex_u_le1 _ _ Hr).
    apply acm_den_pos; auto; destruct Hl as (_ & ? & _), Hr as (_ & ? & _); lra. }
  rsimpl.
  rewrite (map2_some _ (fun x y => (x * ru + y * lu) / (lu + ru - lu * ru)))
    by (intros a b; rsimpl; apply div_some; lra).
  rewrite div_some by lra.
  apply (normalized_one (fst (acm_genR lb lu rb ru)) (snd (acm_genR lb lu rb ru))).
  apply acm_genR_sum; assumption.
Qed.

Lemma avg_gen_eval : 0 < lu \/ 0 < ru ->
  normalized (B:=FldR)
    (map2 (fun x y : RV => divR (addR (mulR x (Some ru)) (mulR y (Some lu))) (addR (Some lu) (Some ru)))
          (map Some lb) (map Some rb))
    (divR (mulR (mulR two (Some lu)) (Some ru)) (addR (Some lu) (Some ru)))
  = (map Some (fst (avg_genR lb lu rb ru)), Some (snd (avg_genR lb lu rb ru))).
Proof.
  intros Hp.
  assert (Hd : 0 < lu + ru).
  { apply avg_den_pos; auto; destruct Hl as (_ & ? & _), Hr as (_ & ? & _); lra. }
  rewrite two_some. rsimpl.
  rewrite (map2_some _ (fun x y => (x * ru + y * lu) / (lu + ru)))
    by (intros a b; rsimpl; apply div_some; lra).
  rewrite div_some by lra.
  apply (normalized_one (fst (avg_genR lb lu rb ru)) (snd (avg_genR lb lu rb ru))).
  apply avg_genR_sum; assumption.
Qed.

Lemma wgh_gen_eval : ~ (lu = 0 /\ ru = 0) -> ~ (lu = 1 /\ ru = 1) ->
  normalized (B:=FldR)
    (map2 (fun x y : RV => divR (addR (mulR (mulR x (subR one (Some lu))) (Some ru))
                               (mulR (mulR y (subR one (Some ru))) (Some lu)))
                          (addR (mulR (Some ru) (subR one (Some lu))) (mulR (Some lu) (subR one (Some ru)))))
          (map Some lb) (map Some rb))
    (divR (mulR (mulR (addR (subR one (Some lu)) (subR one (Some ru))) (Some lu)) (Some ru))
         (addR (mulR (Some ru) (subR one (Some lu))) (mulR (Some lu) (subR one (Some ru)))))
  = (map Some (fst (wgh_genR lb lu rb ru)), Some (snd (wgh_genR lb lu rb ru))).
Proof.
  intros H0 H1.
  assert (Hd : 0 < ru * (1 - lu) + lu * (1 - ru)).
  { pose proof (wf_simplex_u_le1 _ _ Hl). pose proof (wf_simplex_u_le1 _ _ Hr).
    apply wgh_den_pos; auto; destruct Hl as (_ & ? & _), Hr as (_ & ? & _); lra. }
  rsimpl.
  rewrite (map2_some _ (fun x y => (x * (1 - lu) * ru + y * (1 - ru) * lu) / (ru * (1 - lu) + lu * (1 - ru))))
    by (intros a b; rsimpl; apply div_some; lra).
  rewrite div_some by lra.
  apply (normalized_one (fst (wgh_genR lb lu rb ru)) (snd (wgh_genR lb lu rb ru))).
  apply wgh_genR_sum; assumption.
Qed.

Lemma dog_mean_eval : lu + ru < 2 ->
  normalized (B:=FldR) (map2 (fun x y : RV => divR (addR x y) two) (map Some lb) (map Some rb)) zero
  = (map Some (fst (normalizedR (map2 (fun x y => (x + y) / 2) lb rb) 0)),
     Some (snd (normalizedR (map2 (fun x y => (x + y) / 2) lb rb) 0))).
Proof.
  intros H.
  rewrite (map2_some _ (fun x y => (x + y) / 2))
    by (intros a b; rewrite two_some; rsimpl; apply div_some; lra).
  rewrite zero_some. apply normalized_eval.
  rewrite (dog_mean_sum lb rb lu ru Hl Hr HL). lra.
Qed.

End GeneralEval.

Lemma map_zero_some {X} (l : list X) (f : X -> RV) :
  map (fun _ : RV => zero (B:=FldR)) (map f l) = map Some (map (fun _ => 0) l).
Proof. rewrite !map_map. reflexivity. Qed.

(* reading the guards in the context as real inequalities (needs 0 <= eps and 0 <= u <= 1
   among the hypotheses) *)
Ltac guards :=
  repeat match goal with
  | H : is_dogR _ _ = true |- _ => apply is_dogR_true in H; [|lra]
  | H : is_dogR _ _ = false |- _ => apply is_dogR_false in H; [|lra|lra]
  | H : is_vacR _ _ = true |- _ => apply is_vacR_true in H; [|lra|lra]
  | H : is_vacR _ _ = false |- _ => apply is_vacR_false in H; [|lra|lra]
  end.

Section Simplex.
Variable eps : R.
Hypothesis eps_range : 0 <= eps <= 1/8.
Variables (lb rb : list R) (lu ru : R).
Hypothesis Hl : wf_simplex lb lu.
Hypothesis Hr : wf_simplex rb ru.
Hypothesis HL : length lb = length rb.

Let Hlu0 : 0 <= lu. Proof. destruct Hl as (_ & ? & _); assumption. Qed.
Let Hru0 : 0 <= ru. Proof. destruct Hr as (_ & ? & _); assumption. Qed.
Let Hlu1 : lu <= 1 := wf_simplex_u_le1 _ _ Hl.
Let Hru1 : ru <= 1 := wf_simplex_u_le1 _ _ Hr.

(* (a) every denominator behind the guard ladder is non-zero, normalisation divides by 1 *)
Lemma compute_simplex_eval op :
  compute_simplex (B:=FldR) eps op (map Some lb, Some lu) (map Some rb, Some ru) =
  (map Some (fst (compute_simplexR eps op (lb, lu) (rb, ru))),
   Some (snd (compute_simplexR eps op (lb, lu) (rb, ru)))).
Proof.
  unfold compute_simplex, compute_simplexR.
  change (is_zero (B:=FldR) eps (Some lu)) with (is_dogR eps lu).
  change (is_zero (B:=FldR) eps (Some ru)) with (is_dogR eps ru).
  change (is_one (B:=FldR) eps (Some lu)) with (is_vacR eps lu).
  change (is_one (B:=FldR) eps (Some ru)) with (is_vacR eps ru).
  destruct (is_dogR eps lu) eqn:Eld, (is_dogR eps ru) eqn:Erd,
           (is_vacR eps lu) eqn:Elv, (is_vacR eps ru) eqn:Erv;
    cbn [andb orb]; guards;
    try (apply (dog_mean_eval lb rb lu ru); auto; lra);
    destruct op; cbn [fst snd];
    try reflexivity;
    try (rewrite map_zero_some, one_some; reflexivity);
    try (apply acm_gen_eval; auto; lra);
    try (apply avg_gen_eval; auto; lra);
    try (apply wgh_gen_eval; auto; lra).
Qed.

Lemma compute_simplexR_wf op :
  wf_simplex (fst (compute_simplexR eps op (lb, lu) (rb, ru)))
             (snd (compute_simplexR eps op (lb, lu) (rb, ru))).
Proof.
  assert (Hv : wf_simplex (map (fun _ => 0) lb) 1).
  { split; [apply nonneg_zeros'|]. rewrite Rsum_zeros. lra. }
  unfold compute_simplexR.
  destruct (is_dogR eps lu) eqn:Eld, (is_dogR eps ru) eqn:Erd,
           (is_vacR eps lu) eqn:Elv, (is_vacR eps ru) eqn:Erv;
    cbn [andb orb]; guards;
    try (apply (dog_mean_wf lb rb lu ru); auto; lra);
    destruct op; cbn [fst snd]; try assumption;
    try (apply acm_genR_wf; auto; lra);
    try (apply avg_genR_wf; auto; lra);
    try (apply wgh_genR_wf; auto; lra).
Qed.

Lemma compute_simplexR_length op :
  length (fst (compute_simplexR eps op (lb, lu) (rb, ru))) = length lb.
Proof.
  unfold compute_simplexR, normalizedR, acm_genR, avg_genR, wgh_genR.
  destruct (is_dogR eps lu), (is_dogR eps ru), (is_vacR eps lu), (is_vacR eps ru);
    cbn [andb orb]; destruct op; cbn [fst snd];
    rewrite ?map_length, ?map2_length_eq; auto.
Qed.

End Simplex.

(* which branch is taken, in terms of real inequalities (operands with 0 <= u <= 1) *)
Section SimplexBranches.
Variable eps : R.
Hypothesis eps_range : 0 <= eps <= 1/8.
Variables (lb rb : list R) (lu ru : R).
Hypothesis Hlu0 : 0 <= lu.
Hypothesis Hlu1 : lu <= 1.
Hypothesis Hru0 : 0 <= ru.
Hypothesis Hru1 : ru <= 1.

Ltac branch :=
  unfold compute_simplexR;
  destruct (is_dogR eps lu) eqn:Eld, (is_dogR eps ru) eqn:Erd,
           (is_vacR eps lu) eqn:Elv, (is_vacR eps ru) eqn:Erv;
  cbn [andb orb]; guards; try (exfalso; lra); try reflexivity.

Lemma simplexR_dog_dog op : lu <= eps -> ru <= eps ->
  compute_simplexR eps op (lb, lu) (rb, ru) = normalizedR (map2 (fun x y => (x + y) / 2) lb rb) 0.
Proof. intros H1 H2. branch. Qed.

(* ACm, ECm, Wgh share one ladder *)
Lemma simplexR_vac_vac op : op <> Avg -> 1 - 2 * eps <= lu -> 1 - 2 * eps <= ru ->
  compute_simplexR eps op (lb, lu) (rb, ru) = (map (fun _ => 0) lb, 1).
Proof. intros Ho H1 H2. branch; destruct op; try reflexivity; contradiction. Qed.

Lemma simplexR_right op : op <> Avg ->
  (1 - 2 * eps <= lu /\ ru < 1 - 2 * eps) \/ (ru <= eps /\ eps < lu) ->
  compute_simplexR eps op (lb, lu) (rb, ru) = (rb, ru).
Proof. intros Ho H. branch; destruct op; try reflexivity; contradiction. Qed.

Lemma simplexR_left op : op <> Avg ->
  lu < 1 - 2 * eps -> eps < ru -> (1 - 2 * eps <= ru \/ lu <= eps) ->
  compute_simplexR eps op (lb, lu) (rb, ru) = (lb, lu).
Proof. intros Ho H1 H2 H3. branch; destruct op; try reflexivity; contradiction. Qed.

Lemma simplexR_acm_gen op : cum_like op = true ->
  eps < lu < 1 - 2 * eps -> eps < ru < 1 - 2 * eps ->
  compute_simplexR eps op (lb, lu) (rb, ru) = acm_genR lb lu rb ru.
Proof. intros Ho H1 H2. branch; destruct op; try reflexivity; discriminate. Qed.

Lemma simplexR_wgh_gen :
  eps < lu < 1 - 2 * eps -> eps < ru < 1 - 2 * eps ->
  compute_simplexR eps Wgh (lb, lu) (rb, ru) = wgh_genR lb lu rb ru.
Proof. intros H1 H2. branch. Qed.

Lemma simplexR_avg_left : lu <= eps -> eps < ru ->
  compute_simplexR eps Avg (lb, lu) (rb, ru) = (lb, lu).
Proof. intros H1 H2. branch. Qed.

Lemma simplexR_avg_right : eps < lu -> ru <= eps ->
  compute_simplexR eps Avg (lb, lu) (rb, ru) = (rb, ru).
Proof. intros H1 H2. branch. Qed.

Lemma simplexR_avg_gen : eps < lu -> eps < ru ->
  compute_simplexR eps Avg (lb, lu) (rb, ru) = avg_genR lb lu rb ru.
Proof. intros H1 H2. branch. Qed.

End SimplexBranches.

(* ------------------------------------------------------- 4. the fused base rate *)
Definition aeqR (eps x y : R) : bool := aeq (B:=FldR) eps (Some x) (Some y).

Lemma aeqR_true eps x y : aeqR eps x y = true <-> - eps <= x - y <= eps.
Proof. apply aeq_some. Qed.
Lemma aeqR_false eps x y : aeqR eps x y = false <-> (x - y < - eps \/ eps < x - y).
Proof. apply aeq_some_false. Qed.
Lemma aeqR_refl eps x : 0 <= eps -> aeqR eps x x = true.
Proof. intros H. apply aeqR_true. lra. Qed.
Lemma aeqR_exact x y : aeqR 0 x y = true <-> x = y.
Proof. rewrite aeqR_true. lra. Qed.

Definition mean_or_sameR (eps : R) (la ra : list R) : list R :=
  map2 (fun x y => if aeqR eps x y then x else (x + y) / 2) la ra.

Definition compute_base_rateR (eps : R) (op : fuse_op) (same : bool)
           (lu : R) (la : list R) (ru : R) (ra : list R) : list R :=
  if same then la
  else if is_dogR eps lu && is_dogR eps ru then map2 (fun x y => (x + y) / 2) la ra
  else
    match op with
    | ACm | ECm =>
        if is_vacR eps lu && is_vacR eps ru then mean_or_sameR eps la ra
        else if is_vacR eps lu || is_dogR eps ru then ra
        else if is_vacR eps ru || is_dogR eps lu then la
        else map2 (fun x y => if aeqR eps x y then x
                              else (x * ru * (1 - lu) + y * lu * (1 - ru))
                                   / (ru * (1 - lu) + lu * (1 - ru))) la ra
    | Avg => mean_or_sameR eps la ra
    | Wgh =>
        if is_vacR eps lu && is_vacR eps ru then mean_or_sameR eps la ra
        else if is_vacR eps lu then ra
        else if is_vacR eps ru then la
        else map2 (fun x y => if aeqR eps x y then x
                              else (x * (1 - lu) + y * (1 - ru)) / ((1 - lu) + (1 - ru))) la ra
    end.

Lemma mean_or_same_eval (eps : R) (la ra : list R) :
  mean_or_same (B:=FldR) eps (map Some la) (map Some ra) = map Some (mean_or_sameR eps la ra).
Proof.
  unfold mean_or_same, mean_or_sameR. apply map2_some. intros a b.
  change (aeq (B:=FldR) eps (Some a) (Some b)) with (aeqR eps a b).
  destruct (aeqR eps a b); [reflexivity|].
  rewrite two_some. rsimpl. apply div_some. lra.
Qed.

Lemma mean_eval (la ra : list R) :
  map2 (fun x y : RV => div (add x y) two) (map Some la) (map Some ra) =
  map Some (map2 (fun x y => (x + y) / 2) la ra).
Proof. apply map2_some. intros a b. rewrite two_some. rsimpl. apply div_some. lra. Qed.

(* left weight and "shortcut active" flag of each branch *)
Definition base_wR (eps : R) (op : fuse_op) (same : bool) (lu ru : R) : R :=
  if same then 1
  else if is_dogR eps lu && is_dogR eps ru then 1 / 2
  else
    match op with
    | ACm | ECm =>
        if is_vacR eps lu && is_vacR eps ru then 1 / 2
        else if is_vacR eps lu || is_dogR eps ru then 0
        else if is_vacR eps ru || is_dogR eps lu then 1
        else ru * (1 - lu) / (ru * (1 - lu) + lu * (1 - ru))
    | Avg => 1 / 2
    | Wgh =>
        if is_vacR eps lu && is_vacR eps ru then 1 / 2
        else if is_vacR eps lu then 0
        else if is_vacR eps ru then 1
        else (1 - lu) / ((1 - lu) + (1 - ru))
    end.

Definition base_scR (eps : R) (op : fuse_op) (same : bool) (lu ru : R) : bool :=
  if same then false
  else if is_dogR eps lu && is_dogR eps ru then false
  else
    match op with
    | ACm | ECm =>
        if is_vacR eps lu && is_vacR eps ru then true
        else if is_vacR eps lu || is_dogR eps ru then false
        else if is_vacR eps ru || is_dogR eps lu then false
        else true
    | Avg => true
    | Wgh =>
        if is_vacR eps lu && is_vacR eps ru then true
        else if is_vacR eps lu then false
        else if is_vacR eps ru then false
        else true
    end.

(* one fused entry: convex combination with left weight [w], short-cut to the left entry
   when [sc] and the entries are approximately equal *)
Definition mixR (eps : R) (sc : bool) (w x y : R) : R :=
  if sc && aeqR eps x y then x else w * x + (1 - w) * y.

Section Mix.
Variables (eps : R) (sc : bool) (w : R).
Hypothesis eps0 : 0 <= eps.
Hypothesis w01 : 0 <= w <= 1.

Lemma mixR_range x y : Rmin x y <= mixR eps sc w x y <= Rmax x y.
Proof.
  unfold mixR. pose proof (Rmin_l x y). pose proof (Rmax_l x y).
  pose proof (Rmin_r x y). pose proof (Rmax_r x y).
  destruct (sc && aeqR eps x y); [lra|]. nra.
Qed.

Lemma mixR_same x : mixR eps sc w x x = x.
Proof. unfold mixR. destruct (sc && aeqR eps x x); lra. Qed.

Lemma mixR_close x y : Rabs (mixR eps sc w x y - (w * x + (1 - w) * y)) <= eps.
Proof.
  unfold mixR. destruct sc; cbn [andb].
  - destruct (aeqR eps x y) eqn:E.
    + apply aeqR_true in E. apply Rabs_le. nra.
    + rewrite Rminus_diag_eq, Rabs_R0 by reflexivity. lra.
  - rewrite Rminus_diag_eq, Rabs_R0 by reflexivity. lra.
Qed.

Lemma mixR_exact x y : eps = 0 -> mixR eps sc w x y = w * x + (1 - w) * y.
Proof.
  intros ->. unfold mixR. destruct sc; cbn [andb]; [|reflexivity].
  destruct (aeqR 0 x y) eqn:E; [|reflexivity]. apply aeqR_exact in E. subst; lra.
Qed.

Lemma mixR_nonneg x y : 0 <= x -> 0 <= y -> 0 <= mixR eps sc w x y.
Proof. intros Hx Hy. pose proof (mixR_range x y). pose proof (Rmin_glb x y 0 Hx Hy). lra. Qed.

Lemma mixR_lower x y : 0 <= x -> 0 <= y -> w * x <= mixR eps sc w x y.
Proof. intros Hx Hy. unfold mixR. destruct (sc && aeqR eps x y); nra. Qed.

Variables la ra : list R.
Hypothesis HL : length la = length ra.

Lemma mix_length : length (map2 (mixR eps sc w) la ra) = length la.
Proof. apply map2_length_eq; exact HL. Qed.

Lemma mix_nth i : (i < length la)%nat ->
  Rmin (nth i la 0) (nth i ra 0) <= nth i (map2 (mixR eps sc w) la ra) 0
    <= Rmax (nth i la 0) (nth i ra 0).
Proof. intros Hi. rewrite (map2_nth _ la ra i 0 0 0 Hi HL). apply mixR_range. Qed.

Lemma mix_shared : la = ra -> map2 (mixR eps sc w) la ra = la.
Proof. intros <-. clear HL. induction la; cbn; [reflexivity|]. rewrite mixR_same, IHl; reflexivity. Qed.

Lemma mix_nonneg : nonneg la -> nonneg ra -> nonneg (map2 (mixR eps sc w) la ra).
Proof. apply nonneg_map2. intros; apply mixR_nonneg; assumption. Qed.

Lemma mix_sum_close :
  Rabs (Rsum (map2 (mixR eps sc w) la ra) - (w * Rsum la + (1 - w) * Rsum ra))
    <= INR (length la) * eps.
Proof.
  rewrite <- mix_length.
  replace (w * Rsum la + (1 - w) * Rsum ra)
    with (Rsum (map2 (fun x y => w * x + (1 - w) * y) la ra)).
  - apply Rsum_map2_close. apply mixR_close.
  - rewrite (Rsum_map2_lin _ w (1 - w)); [lra|intros; lra|exact HL].
Qed.

Lemma mix_sum_pos : wf_dist la -> wf_dist ra -> (sc = true -> 0 < w) ->
  0 < Rsum (map2 (mixR eps sc w) la ra).
Proof.
  intros (Hna & Hsa) (Hnb & Hsb) Hw. destruct sc eqn:Esc.
  - assert (Hge : Rsum (map2 (fun x _ => w * x) la ra) <= Rsum (map2 (mixR eps true w) la ra)).
    { apply Rsum_map2_ge. intros x y Hx Hy. unfold nonneg in *. rewrite Forall_forall in Hna, Hnb.
      assert (H := mixR_lower x y (Hna x Hx) (Hnb y Hy)). rewrite Esc in H. exact H. }
    rewrite (Rsum_map2_lin _ w 0) in Hge; [|intros; lra|exact HL].
    specialize (Hw eq_refl). nra.
  - assert (E : map2 (mixR eps false w) la ra = map2 (fun x y => w * x + (1 - w) * y) la ra)
      by (apply map2_ext; intros; reflexivity).
    rewrite E, (Rsum_map2_lin _ w (1 - w)); [|intros; lra|exact HL]. nra.
Qed.

End Mix.

Section BaseRate.
Variable eps : R.
Hypothesis eps_range : 0 <= eps <= 1/8.
Variables (lu ru : R).
Hypothesis Hlu0 : 0 <= lu.
Hypothesis Hlu1 : lu <= 1.
Hypothesis Hru0 : 0 <= ru.
Hypothesis Hru1 : ru <= 1.

Local Notation addR := (add (B:=FldR)).
Local Notation subR := (sub (B:=FldR)).
Local Notation mulR := (mul (B:=FldR)).
Local Notation divR := (div (B:=FldR)).

Lemma acm_base_gen_eval (la ra : list R) : 0 < lu < 1 -> 0 < ru < 1 ->
  map2 (fun x y : RV =>
          if aeq (B:=FldR) eps x y then x
          else divR (addR (mulR (mulR x (Some ru)) (subR one (Some lu)))
                          (mulR (mulR y (Some lu)) (subR one (Some ru))))
                    (addR (mulR (Some ru) (subR one (Some lu))) (mulR (Some lu) (subR one (Some ru)))))
       (map Some la) (map Some ra) =
  map Some (map2 (fun x y => if aeqR eps x y then x
                             else (x * ru * (1 - lu) + y * lu * (1 - ru))
                                  / (ru * (1 - lu) + lu * (1 - ru))) la ra).
Proof.
  intros H1 H2. pose proof (wgh_den_pos_strict lu ru H1 H2) as Hd.
  apply map2_some. intros a b.
  change (aeq (B:=FldR) eps (Some a) (Some b)) with (aeqR eps a b).
  destruct (aeqR eps a b); [reflexivity|]. rsimpl. apply div_some. lra.
Qed.

Lemma wgh_base_gen_eval (la ra : list R) : lu < 1 \/ ru < 1 ->
  map2 (fun x y : RV =>
          if aeq (B:=FldR) eps x y then x
          else divR (addR (mulR x (subR one (Some lu))) (mulR y (subR one (Some ru))))
                    (addR (subR one (Some lu)) (subR one (Some ru))))
       (map Some la) (map Some ra) =
  map Some (map2 (fun x y => if aeqR eps x y then x
                             else (x * (1 - lu) + y * (1 - ru)) / ((1 - lu) + (1 - ru))) la ra).
Proof.
  intros H. apply map2_some. intros a b.
  change (aeq (B:=FldR) eps (Some a) (Some b)) with (aeqR eps a b).
  destruct (aeqR eps a b); [reflexivity|]. rsimpl. apply div_some. lra.
Qed.

(* (a) the base rate is defined: every denominator behind the guard ladder is non-zero *)
Lemma compute_base_rate_eval op same (la ra : list R) :
  compute_base_rate (B:=FldR) eps op same (Some lu) (map Some la) (Some ru) (map Some ra) =
  map Some (compute_base_rateR eps op same lu la ru ra).
Proof.
  unfold compute_base_rate, compute_base_rateR.
  change (is_zero (B:=FldR) eps (Some lu)) with (is_dogR eps lu).
  change (is_zero (B:=FldR) eps (Some ru)) with (is_dogR eps ru).
  change (is_one (B:=FldR) eps (Some lu)) with (is_vacR eps lu).
  change (is_one (B:=FldR) eps (Some ru)) with (is_vacR eps ru).
  destruct same; [reflexivity|].
  destruct (is_dogR eps lu) eqn:Eld, (is_dogR eps ru) eqn:Erd,
           (is_vacR eps lu) eqn:Elv, (is_vacR eps ru) eqn:Erv;
    cbn [andb orb]; guards;
    try apply mean_eval;
    destruct op;
    try reflexivity;
    try apply mean_or_same_eval;
    try (apply acm_base_gen_eval; lra);
    try (apply wgh_base_gen_eval; lra).
Qed.

Lemma base_wR_range op same : 0 <= base_wR eps op same lu ru <= 1.
Proof.
  unfold base_wR. destruct same; [lra|].
  destruct (is_dogR eps lu) eqn:Eld, (is_dogR eps ru) eqn:Erd,
           (is_vacR eps lu) eqn:Elv, (is_vacR eps ru) eqn:Erv;
    cbn [andb orb]; guards; try lra; destruct op; try lra.
  all: try (assert (Hd : 0 < ru * (1 - lu) + lu * (1 - ru)) by (apply wgh_den_pos_strict; lra);
            assert (0 <= ru * (1 - lu)) by (apply Rmult_le_pos; lra);
            assert (0 <= lu * (1 - ru)) by (apply Rmult_le_pos; lra);
            split; [apply Rmult_le_pos; [lra|apply Rlt_le, Rinv_0_lt_compat; lra]
                   |apply Rmult_le_reg_r with (ru * (1 - lu) + lu * (1 - ru)); [lra|];
                    unfold Rdiv; rewrite Rmult_assoc, Rinv_l by lra; lra]).
  all: try (assert (Hd : 0 < (1 - lu) + (1 - ru)) by lra;
            split; [apply Rmult_le_pos; [lra|apply Rlt_le, Rinv_0_lt_compat; lra]
                   |apply Rmult_le_reg_r with ((1 - lu) + (1 - ru)); [lra|];
                    unfold Rdiv; rewrite Rmult_assoc, Rinv_l by lra; lra]).
Qed.

(* where the shortcut is active the weight is strictly inside (0,1) *)
Lemma base_scR_w op same : base_scR eps op same lu ru = true -> 0 < base_wR eps op same lu ru < 1.
Proof.
  unfold base_scR, base_wR. destruct same; [discriminate|].
  destruct (is_dogR eps lu) eqn:Eld, (is_dogR eps ru) eqn:Erd,
           (is_vacR eps lu) eqn:Elv, (is_vacR eps ru) eqn:Erv;
    cbn [andb orb]; guards; try discriminate; destruct op; try discriminate; intros _; try lra.
  all: try (assert (Hd : 0 < ru * (1 - lu) + lu * (1 - ru)) by (apply wgh_den_pos_strict; lra);
            assert (0 < ru * (1 - lu)) by (apply Rmult_lt_0_compat; lra);
            assert (0 < lu * (1 - ru)) by (apply Rmult_lt_0_compat; lra);
            split; [apply Rmult_lt_0_compat; [lra|apply Rinv_0_lt_compat; lra]
                   |apply Rmult_lt_reg_r with (ru * (1 - lu) + lu * (1 - ru)); [lra|];
                    unfold Rdiv; rewrite Rmult_assoc, Rinv_l by lra; lra]).
  all: try (assert (Hd : 0 < (1 - lu) + (1 - ru)) by lra;
            split; [apply Rmult_lt_0_compat; [lra|apply Rinv_0_lt_compat; lra]
                   |apply Rmult_lt_reg_r with ((1 - lu) + (1 - ru)); [lra|];
                    unfold Rdiv; rewrite Rmult_assoc, Rinv_l by lra; lra]).
Qed.

(* every branch is the same entry-wise mix *)
Lemma compute_base_rateR_mix op same la ra : length la = length ra ->
  compute_base_rateR eps op same lu la ru ra =
  map2 (mixR eps (base_scR eps op same lu ru) (base_wR eps op same lu ru)) la ra.
Proof.
  intros HL.
  assert (Eleft : forall sc, sc = false -> map2 (mixR eps sc 1) la ra = la).
  { intros sc ->. apply map2_fst; [exact HL|]. intros; unfold mixR; cbn [andb]; lra. }
  assert (Eright : forall sc, sc = false -> map2 (mixR eps sc 0) la ra = ra).
  { intros sc ->. apply map2_snd; [exact HL|]. intros; unfold mixR; cbn [andb]; lra. }
  assert (Emean : map2 (mixR eps false (1/2)) la ra = map2 (fun x y => (x + y) / 2) la ra).
  { apply map2_ext. intros; unfold mixR; cbn [andb]; lra. }
  assert (Emos : map2 (mixR eps true (1/2)) la ra = mean_or_sameR eps la ra).
  { apply map2_ext. intros; unfold mixR; cbn [andb]. destruct (aeqR eps x y); lra. }
  unfold compute_base_rateR, base_scR, base_wR. destruct same; [symmetry; apply Eleft; reflexivity|].
  destruct (is_dogR eps lu) eqn:Eld, (is_dogR eps ru) eqn:Erd,
           (is_vacR eps lu) eqn:Elv, (is_vacR eps ru) eqn:Erv;
    cbn [andb orb]; guards;
    try (symmetry; exact Emean);
    destruct op;
    try (symmetry; exact Emos);
    try (symmetry; apply Eleft; reflexivity);
    try (symmetry; apply Eright; reflexivity).
  all: apply map2_ext; intros x y; unfold mixR; cbn [andb]; destruct (aeqR eps x y); try reflexivity.
  all: try (assert (Hd : 0 < ru * (1 - lu) + lu * (1 - ru)) by (apply wgh_den_pos_strict; lra));
       field; lra.
Qed.

End BaseRate.

(* consequences for the fused base rate *)
Section BaseRateFacts.
Variable eps : R.
Hypothesis eps_range : 0 <= eps <= 1/8.
Variables (lu ru : R).
Hypothesis Hlu : 0 <= lu <= 1.
Hypothesis Hru : 0 <= ru <= 1.
Variables (op : fuse_op) (same : bool) (la ra : list R).
Hypothesis HL : length la = length ra.

Let a := compute_base_rateR eps op same lu la ru ra.
Let w := base_wR eps op same lu ru.
Let sc := base_scR eps op same lu ru.

Let Ea : a = map2 (mixR eps sc w) la ra.
Proof. apply compute_base_rateR_mix; auto; lra. Qed.
Let Hw : 0 <= w <= 1.
Proof. apply base_wR_range; lra. Qed.
Let He0 : 0 <= eps. Proof. lra. Qed.

Lemma base_rateR_length : length (compute_base_rateR eps op same lu la ru ra) = length la.
Proof. fold a. rewrite Ea. apply mix_length; exact HL. Qed.

(* every fused entry lies between the operands' entries *)
Lemma base_rateR_range i : (i < length la)%nat ->
  Rmin (nth i la 0) (nth i ra 0) <= nth i (compute_base_rateR eps op same lu la ru ra) 0
    <= Rmax (nth i la 0) (nth i ra 0).
Proof. fold a. rewrite Ea. apply mix_nth; assumption. Qed.

(* operands with one base rate keep it *)
Lemma base_rateR_shared : la = ra -> compute_base_rateR eps op same lu la ru ra = la.
Proof. fold a. rewrite Ea. apply mix_shared; assumption. Qed.

Lemma base_rateR_nonneg : nonneg la -> nonneg ra ->
  nonneg (compute_base_rateR eps op same lu la ru ra).
Proof. fold a. rewrite Ea. apply mix_nonneg; assumption. Qed.

(* the fused base rate sums to 1 up to (domain size) * eps ... *)
Lemma base_rateR_sum_close : Rsum la = 1 -> Rsum ra = 1 ->
  Rabs (Rsum (compute_base_rateR eps op same lu la ru ra) - 1) <= INR (length la) * eps.
Proof.
  intros Hsa Hsb. fold a. rewrite Ea.
  pose proof (mix_sum_close eps sc w He0 Hw la ra HL) as H.
  rewrite Hsa, Hsb in H. replace (w * 1 + (1 - w) * 1) with 1 in H by lra. exact H.
Qed.

(* ... and to exactly 1 in every branch that does not use the [aeq] shortcut *)
Lemma base_rateR_sum_nosc : Rsum la = 1 -> Rsum ra = 1 -> sc = false ->
  Rsum (compute_base_rateR eps op same lu la ru ra) = 1.
Proof.
  intros Hsa Hsb Hsc. fold a. rewrite Ea, Hsc.
  assert (E : map2 (mixR eps false w) la ra = map2 (fun x y => w * x + (1 - w) * y) la ra)
    by (apply map2_ext; intros; reflexivity).
  rewrite E, (Rsum_map2_lin _ w (1 - w)); [|intros; lra|exact HL]. rewrite Hsa, Hsb. lra.
Qed.

(* ... and whenever no pair of entries is approximately but not exactly equal *)
Lemma base_rateR_sum_sep : Rsum la = 1 -> Rsum ra = 1 ->
  (forall x y, In x la -> In y ra -> aeqR eps x y = true -> x = y) ->
  Rsum (compute_base_rateR eps op same lu la ru ra) = 1.
Proof.
  intros Hsa Hsb Hsep. fold a. rewrite Ea.
  assert (E : map2 (mixR eps sc w) la ra = map2 (fun x y => w * x + (1 - w) * y) la ra).
  { apply map2_ext_in. intros x y Hx Hy. unfold mixR.
    destruct (sc && aeqR eps x y) eqn:E; [|reflexivity].
    apply andb_true_iff in E. destruct E as (_ & E). rewrite (Hsep x y Hx Hy E). lra. }
  rewrite E, (Rsum_map2_lin _ w (1 - w)); [|intros; lra|exact HL]. rewrite Hsa, Hsb. lra.
Qed.

Lemma base_rateR_sum_pos : wf_dist la -> wf_dist ra ->
  0 < Rsum (compute_base_rateR eps op same lu la ru ra).
Proof.
  intros Hda Hdb. fold a. rewrite Ea. apply mix_sum_pos; auto.
  intros Hsc. apply (base_scR_w eps eps_range lu ru) in Hsc; try lra. fold w in Hsc. lra.
Qed.

End BaseRateFacts.

(* exact guards: the fused base rate is a distribution *)
Lemma base_rateR_exact_wf op same lu la ru ra :
  0 <= lu <= 1 -> 0 <= ru <= 1 -> length la = length ra -> wf_dist la -> wf_dist ra ->
  wf_dist (compute_base_rateR 0 op same lu la ru ra).
Proof.
  intros Hlu Hru HL (Hna & Hsa) (Hnb & Hsb).
  assert (He : 0 <= 0 <= 1/8) by lra. split.
  - apply base_rateR_nonneg; auto.
  - pose proof (base_rateR_sum_close 0 He lu ru Hlu Hru op same la ra HL Hsa Hsb) as H.
    rewrite Rmult_0_r in H. apply Rabs_le_inv' in H. lra.
Qed.

(* the weights, branch by branch (operands with 0 <= u <= 1) *)
Section BaseWeights.
Variable eps : R.
Hypothesis eps_range : 0 <= eps <= 1/8.
Variables (lu ru : R).
Hypothesis Hlu0 : 0 <= lu.
Hypothesis Hlu1 : lu <= 1.
Hypothesis Hru0 : 0 <= ru.
Hypothesis Hru1 : ru <= 1.

Ltac wbranch :=
  unfold base_wR, base_scR;
  destruct (is_dogR eps lu) eqn:Eld, (is_dogR eps ru) eqn:Erd,
           (is_vacR eps lu) eqn:Elv, (is_vacR eps ru) eqn:Erv;
  cbn [andb orb]; guards; try (exfalso; lra); try (split; reflexivity).

Lemma base_w_same op : base_wR eps op true lu ru = 1 /\ base_scR eps op true lu ru = false.
Proof. split; reflexivity. Qed.

Lemma base_w_dog_dog op : lu <= eps -> ru <= eps ->
  base_wR eps op false lu ru = 1/2 /\ base_scR eps op false lu ru = false.
Proof. intros H1 H2. wbranch. Qed.

Lemma base_w_avg : eps < lu \/ eps < ru ->
  base_wR eps Avg false lu ru = 1/2 /\ base_scR eps Avg false lu ru = true.
Proof. intros H. wbranch. Qed.

Lemma base_w_vac_vac op : 1 - 2 * eps <= lu -> 1 - 2 * eps <= ru ->
  base_wR eps op false lu ru = 1/2 /\ base_scR eps op false lu ru = true.
Proof. intros H1 H2. wbranch; destruct op; split; reflexivity. Qed.

(* cumulative fusion: confidence-weighted mean with weights ru (1 - lu) : lu (1 - ru) *)
Lemma base_w_acm_gen op : cum_like op = true ->
  eps < lu < 1 - 2 * eps -> eps < ru < 1 - 2 * eps ->
  base_wR eps op false lu ru = ru * (1 - lu) / (ru * (1 - lu) + lu * (1 - ru)) /\
  base_scR eps op false lu ru = true.
Proof. intros Ho H1 H2. wbranch; destruct op; try discriminate; split; reflexivity. Qed.

Lemma base_w_acm_right op : cum_like op = true ->
  (1 - 2 * eps <= lu /\ ru < 1 - 2 * eps) \/ (ru <= eps /\ eps < lu) ->
  base_wR eps op false lu ru = 0 /\ base_scR eps op false lu ru = false.
Proof. intros Ho H. wbranch; destruct op; try discriminate; split; reflexivity. Qed.

Lemma base_w_acm_left op : cum_like op = true ->
  lu < 1 - 2 * eps -> eps < ru -> (1 - 2 * eps <= ru \/ lu <= eps) ->
  base_wR eps op false lu ru = 1 /\ base_scR eps op false lu ru = false.
Proof. intros Ho H1 H2 H3. wbranch; destruct op; try discriminate; split; reflexivity. Qed.

(* weighted fusion: weights (1 - lu) : (1 - ru) *)
Lemma base_w_wgh_gen : lu < 1 - 2 * eps -> ru < 1 - 2 * eps -> eps < lu \/ eps < ru ->
  base_wR eps Wgh false lu ru = (1 - lu) / ((1 - lu) + (1 - ru)) /\
  base_scR eps Wgh false lu ru = true.
Proof. intros H1 H2 H3. wbranch. Qed.

Lemma base_w_wgh_right : 1 - 2 * eps <= lu -> ru < 1 - 2 * eps ->
  base_wR eps Wgh false lu ru = 0 /\ base_scR eps Wgh false lu ru = false.
Proof. intros H1 H2. wbranch. Qed.

Lemma base_w_wgh_left : lu < 1 - 2 * eps -> 1 - 2 * eps <= ru -> eps < lu \/ eps < ru ->
  base_wR eps Wgh false lu ru = 1 /\ base_scR eps Wgh false lu ru = false.
Proof. intros H1 H2 H3. wbranch. Qed.

End BaseWeights.

(* ----------------------------- 5. uncertainty maximisation (what ECm needs, kept local) *)
Definition fprojR (b : list R) (u : R) (a : list R) : list R :=
  let q := map2 (fun bi ai => bi + ai * u) b a in
  map (fun x => x / Rsum q) q.

Definition fmaxu_step (eps : R) (acc : R) (pa : R * R) : R :=
  Rmin acc (if is_zero (B:=FldR) eps (Some (snd pa)) then 1 else fst pa / snd pa).

Definition fmaxuR (eps : R) (b : list R) (u : R) (a : list R) : R :=
  fold_left (fmaxu_step eps) (combine (fprojR b u a) a) 1.

Definition fumaxR (eps : R) (b : list R) (u : R) (a : list R) : list R * R :=
  (map2 (fun pi ai => pi - ai * fmaxuR eps b u a) (fprojR b u a) a, fmaxuR eps b u a).

Lemma fproj_eval (b : list R) (u : R) (a : list R) :
  Rsum (map2 (fun bi ai => bi + ai * u) b a) <> 0 ->
  projection (B:=FldR) (map Some b) (Some u) (map Some a) = map Some (fprojR b u a).
Proof.
  intros H. unfold projection, normalize_dist, fprojR.
  rewrite (map2_some _ (fun bi ai => bi + ai * u)) by (intros; reflexivity).
  rewrite vsum_some. apply map_some. intros x. apply div_some. exact H.
Qed.

Lemma fmaxu_fold_eval (eps : R) (p a : list R) (acc : R) : 0 <= eps ->
  fold_left (fun (acc : RV) (pa : RV * RV) =>
               nmin acc (if is_zero (B:=FldR) eps (snd pa) then one else div (fst pa) (snd pa)))
            (combine (map Some p) (map Some a)) (Some acc) =
  Some (fold_left (fmaxu_step eps) (combine p a) acc).
Proof.
  intros He. revert a acc; induction p as [|x p IH]; intros [|y a] acc; cbn [map combine fold_left];
    try reflexivity.
  rewrite <- IH. f_equal. unfold fmaxu_step. cbn [fst snd].
  destruct (is_zero (B:=FldR) eps (Some y)) eqn:E.
  - rewrite one_some, nmin_some. reflexivity.
  - apply is_zero_some_false in E. rewrite div_some by lra. rewrite nmin_some. reflexivity.
Qed.

Lemma fumax_eval (eps : R) (b : list R) (u : R) (a : list R) : 0 <= eps ->
  Rsum (map2 (fun bi ai => bi + ai * u) b a) <> 0 ->
  uncertainty_maximized (B:=FldR) eps (map Some b) (Some u) (map Some a) =
  (map Some (fst (fumaxR eps b u a)), Some (snd (fumaxR eps b u a))).
Proof.
  intros He Hs. unfold uncertainty_maximized, max_uncertainty.
  rewrite (fproj_eval b u a Hs). rewrite one_some, (fmaxu_fold_eval eps _ _ 1 He).
  unfold fumaxR, fmaxuR; cbn [fst snd]. f_equal.
  apply map2_some. intros; reflexivity.
Qed.

(* the fold: below the start value, below every quotient with a_i > eps, and between 0 and 1 *)
Lemma fmaxu_step_le eps acc pa : fmaxu_step eps acc pa <= acc.
Proof. unfold fmaxu_step. apply Rmin_l. Qed.
Lemma fmaxu_step_le_q (eps acc p a : R) : is_zero (B:=FldR) eps (Some a) = false ->
  fmaxu_step eps acc (p, a) <= p / a.
Proof. intros Hz. unfold fmaxu_step; cbn [fst snd]. rewrite Hz. apply Rmin_r. Qed.

Lemma fmaxu_fold_le eps l acc : fold_left (fmaxu_step eps) l acc <= acc.
Proof.
  revert acc; induction l as [|pa l IH]; intros acc; cbn [fold_left]; [lra|].
  specialize (IH (fmaxu_step eps acc pa)). pose proof (fmaxu_step_le eps acc pa). lra.
Qed.

Lemma fmaxu_fold_le_elem (eps : R) l (acc p a : R) : In (p, a) l -> is_zero (B:=FldR) eps (Some a) = false ->
  fold_left (fmaxu_step eps) l acc <= p / a.
Proof.
  revert acc; induction l as [|pa l IH]; intros acc Hin Hz; [contradiction|].
  cbn [fold_left]. destruct Hin as [->|Hin]; [|apply IH; assumption].
  pose proof (fmaxu_fold_le eps l (fmaxu_step eps acc (p, a))) as H.
  pose proof (fmaxu_step_le_q eps acc p a Hz). lra.
Qed.

Lemma fmaxu_fold_nonneg eps l acc : 0 <= eps -> 0 <= acc ->
  Forall (fun pa => 0 <= fst pa /\ 0 <= snd pa) l -> 0 <= fold_left (fmaxu_step eps) l acc.
Proof.
  intros He Hacc H; revert acc Hacc; induction H as [|pa l (Hp & Ha) Hl IH]; intros acc Hacc;
    cbn [fold_left]; [exact Hacc|].
  apply IH. unfold fmaxu_step. apply Rmin_glb; [exact Hacc|].
  destruct (is_zero (B:=FldR) eps (Some (snd pa))) eqn:E; [lra|].
  apply is_zero_some_false in E.
  apply Rmult_le_pos; [exact Hp|]. apply Rlt_le, Rinv_0_lt_compat. lra.
Qed.

Lemma Forall_combine {X Y} (P : X -> Prop) (Q : Y -> Prop) l1 l2 :
  Forall P l1 -> Forall Q l2 -> Forall (fun xy => P (fst xy) /\ Q (snd xy)) (combine l1 l2).
Proof.
  intros H1; revert l2; induction H1; intros l2 H2; destruct H2; cbn; constructor; auto.
Qed.

Lemma Rsum_map2_sub_scale c p a : length p = length a ->
  Rsum (map2 (fun x y => x - y * c) p a) = Rsum p - Rsum a * c.
Proof.
  intros HL. rewrite (Rsum_map2_lin _ 1 (- c)); [lra|intros; lra|exact HL].
Qed.

Section Umax.
Variable eps : R.
Hypothesis eps0 : 0 <= eps.
Variables (b : list R) (u : R) (a : list R).
Hypothesis Hwf : wf_simplex b u.
Hypothesis Ha : nonneg a.
Hypothesis HL : length a = length b.

Lemma fproj_den : Rsum (map2 (fun bi ai => bi + ai * u) b a) = (1 - u) + Rsum a * u.
Proof.
  destruct Hwf as (_ & _ & Hs).
  rewrite (Rsum_map2_lin _ 1 u); [lra|intros; lra|symmetry; exact HL].
Qed.

(* the projection denominator is positive as soon as the base rate has positive mass *)
Lemma fproj_den_pos : 0 < Rsum a -> 0 < Rsum (map2 (fun bi ai => bi + ai * u) b a).
Proof.
  intros HA. rewrite fproj_den. pose proof (wf_simplex_u_le1 _ _ Hwf).
  destruct Hwf as (_ & Hu & _). destruct (Rle_lt_dec 1 u); [|nra].
  assert (u = 1) by lra. subst u. lra.
Qed.

Lemma fprojR_nonneg : 0 < Rsum a -> nonneg (fprojR b u a).
Proof.
  intros HA. pose proof (fproj_den_pos HA) as Hd. unfold fprojR.
  apply nonneg_map.
  - intros x Hx. apply Rmult_le_pos; [exact Hx|]. apply Rlt_le, Rinv_0_lt_compat; exact Hd.
  - destruct Hwf as (Hb & Hu & _). apply nonneg_map2; auto.
    intros x y Hx Hy. assert (0 <= y * u) by (apply Rmult_le_pos; lra). lra.
Qed.

Lemma fprojR_length : length (fprojR b u a) = length a.
Proof. unfold fprojR. rewrite map_length, map2_length_eq; auto. Qed.

Lemma fprojR_sum : 0 < Rsum a -> Rsum (fprojR b u a) = 1.
Proof.
  intros HA. pose proof (fproj_den_pos HA) as Hd. unfold fprojR.
  rewrite Rsum_map_div. field. lra.
Qed.

Lemma fmaxuR_range : 0 < Rsum a -> 0 <= fmaxuR eps b u a <= 1.
Proof.
  intros HA. unfold fmaxuR. split; [|apply fmaxu_fold_le].
  apply fmaxu_fold_nonneg; [exact eps0|lra|].
  apply (Forall_combine (fun x => 0 <= x) (fun x => 0 <= x)); [apply fprojR_nonneg; exact HA|exact Ha].
Qed.

(* well-formedness of the maximised simplex needs a genuine distribution whose entries the
   [is_zero] guard classifies correctly: a_i = 0 or a_i > eps *)
Lemma fumaxR_wf : Rsum a = 1 -> Forall (fun x => x = 0 \/ eps < x) a ->
  wf_simplex (fst (fumaxR eps b u a)) (snd (fumaxR eps b u a)).
Proof.
  intros HA Hsep. assert (HA0 : 0 < Rsum a) by lra.
  pose proof (fmaxuR_range HA0) as Hum. pose proof (fprojR_nonneg HA0) as Hp.
  unfold fumaxR; cbn [fst snd]. repeat split; [|lra|].
  - assert (Hall : forall p x, In (p, x) (combine (fprojR b u a) a) -> 0 <= p - x * fmaxuR eps b u a).
    { intros p x Hin.
      assert (Hp0 : 0 <= p).
      { apply in_combine_l in Hin. unfold nonneg in Hp; rewrite Forall_forall in Hp; auto. }
      assert (Hx : x = 0 \/ eps < x).
      { apply in_combine_r in Hin. rewrite Forall_forall in Hsep; auto. }
      destruct Hx as [->|Hx]; [lra|].
      assert (Hz : is_zero (B:=FldR) eps (Some x) = false) by (apply is_zero_some_false; lra).
      pose proof (fmaxu_fold_le_elem eps _ 1 p x Hin Hz) as Hle. fold (fmaxuR eps b u a) in Hle.
      apply Rmult_le_compat_l with (r := x) in Hle; [|lra].
      replace (x * (p / x)) with p in Hle by (field; lra). lra. }
    revert Hall. generalize (fmaxuR eps b u a) as m. generalize (fprojR b u a) as p.
    clear. intros p; revert a; induction p as [|x p IH]; intros [|y a] m H; cbn [map2 combine];
      try constructor.
    + apply H. left; reflexivity.
    + apply IH. intros p0 x0 Hin. apply H. right; exact Hin.
  - rewrite Rsum_map2_sub_scale by apply fprojR_length.
    rewrite (fprojR_sum HA0), HA. lra.
Qed.

End Umax.

(* the sum of a maximised simplex: 1 only if the base rate sums to 1 (or um = 0) *)
Lemma fumaxR_sum eps b u a : wf_simplex b u -> nonneg a -> length a = length b -> 0 < Rsum a ->
  Rsum (fst (fumaxR eps b u a)) + snd (fumaxR eps b u a) = 1 + fmaxuR eps b u a * (1 - Rsum a).
Proof.
  intros Hwf Ha HL HA. unfold fumaxR; cbn [fst snd].
  rewrite Rsum_map2_sub_scale by (apply fprojR_length; assumption).
  rewrite fprojR_sum by assumption. lra.
Qed.

Lemma Forall_map2_combine {X Y Z} (P : Z -> Prop) (f : X -> Y -> Z) l1 l2 :
  (forall x y, In (x, y) (combine l1 l2) -> P (f x y)) -> Forall P (map2 f l1 l2).
Proof.
  revert l2; induction l1 as [|x l1 IH]; intros [|y l2] H; cbn [map2 combine]; try constructor.
  - apply H. left; reflexivity.
  - apply IH. intros x0 y0 Hin. apply H. right; exact Hin.
Qed.

(* without the side condition the maximised simplex is still well-formed up to the guard
   tolerance: masses >= - eps, 0 <= u <= 1, total mass 1 + um (1 - sum a) *)
Lemma fumaxR_approx eps b u a : 0 <= eps ->
  wf_simplex b u -> nonneg a -> length a = length b -> 0 < Rsum a ->
  Forall (fun x => - eps <= x) (fst (fumaxR eps b u a)) /\
  0 <= snd (fumaxR eps b u a) <= 1 /\
  Rabs (Rsum (fst (fumaxR eps b u a)) + snd (fumaxR eps b u a) - 1) <= Rabs (Rsum a - 1).
Proof.
  intros He Hwf Ha HL HA.
  pose proof (fmaxuR_range eps He b u a Hwf Ha HL HA) as Hum.
  pose proof (fprojR_nonneg b u a Hwf Ha HL HA) as Hp.
  split; [|split].
  - unfold fumaxR; cbn [fst]. apply Forall_map2_combine. intros p x Hin.
    assert (Hp0 : 0 <= p).
    { apply in_combine_l in Hin. unfold nonneg in Hp; rewrite Forall_forall in Hp; auto. }
    assert (Hx0 : 0 <= x).
    { apply in_combine_r in Hin. unfold nonneg in Ha; rewrite Forall_forall in Ha; auto. }
    destruct (is_zero (B:=FldR) eps (Some x)) eqn:Hz.
    + apply is_zero_some in Hz. nra.
    + pose proof (fmaxu_fold_le_elem eps _ 1 p x Hin Hz) as Hle. fold (fmaxuR eps b u a) in Hle.
      apply is_zero_some_false in Hz.
      apply Rmult_le_compat_l with (r := x) in Hle; [|lra].
      replace (x * (p / x)) with p in Hle by (field; lra). lra.
  - exact Hum.
  - rewrite fumaxR_sum by assumption.
    replace (1 + fmaxuR eps b u a * (1 - Rsum a) - 1) with (- fmaxuR eps b u a * (Rsum a - 1)) by lra.
    rewrite Rabs_mult, Rabs_Ropp, (Rabs_pos_eq (fmaxuR eps b u a)) by lra.
    pose proof (Rabs_pos (Rsum a - 1)). nra.
Qed.

(* --------------------------------------------------------------- 6. fusion *)
Definition fuseR (eps : R) (op : fuse_op) (same : bool)
           (l r : list R * R * list R) : list R * R * list R :=
  let '(lb, lu, la) := l in
  let '(rb, ru, ra) := r in
  let s := compute_simplexR eps op (lb, lu) (rb, ru) in
  let a := compute_base_rateR eps op same lu la ru ra in
  let s' := match op with
            | ECm => fumaxR eps (fst s) (snd s) a
            | _ => s
            end in
  (fst s', snd s', a).

Definition fused_b eps op same l r : list R := fst (fst (fuseR eps op same l r)).
Definition fused_u eps op same l r : R := snd (fst (fuseR eps op same l r)).
Definition fused_a eps op same l r : list R := snd (fuseR eps op same l r).

Lemma fused_a_eq eps op same lb lu la rb ru ra :
  fused_a eps op same (lb, lu, la) (rb, ru, ra) = compute_base_rateR eps op same lu la ru ra.
Proof. reflexivity. Qed.

Lemma fused_simplex_eq eps op same lb lu la rb ru ra : op <> ECm ->
  (fused_b eps op same (lb, lu, la) (rb, ru, ra), fused_u eps op same (lb, lu, la) (rb, ru, ra))
  = compute_simplexR eps op (lb, lu) (rb, ru).
Proof.
  intros Ho. unfold fused_b, fused_u, fuseR.
  destruct op; try contradiction; cbn [fst snd]; destruct (compute_simplexR _ _ _ _); reflexivity.
Qed.

Lemma fused_simplex_ecm eps same lb lu la rb ru ra :
  (fused_b eps ECm same (lb, lu, la) (rb, ru, ra), fused_u eps ECm same (lb, lu, la) (rb, ru, ra))
  = fumaxR eps (fst (compute_simplexR eps ECm (lb, lu) (rb, ru)))
               (snd (compute_simplexR eps ECm (lb, lu) (rb, ru)))
               (compute_base_rateR eps ECm same lu la ru ra).
Proof. reflexivity. Qed.

(* the condition under which uncertainty maximisation returns a well-formed simplex *)
Definition ecm_side (eps : R) (a : list R) : Prop :=
  Rsum a = 1 /\ Forall (fun x => x = 0 \/ eps < x) a.

Section Fuse.
Variable eps : R.
Hypothesis eps_range : 0 <= eps <= 1/8.
Variables (lb rb la ra : list R) (lu ru : R).
Hypothesis Hl : wf_opinion lb lu la.
Hypothesis Hr : wf_opinion rb ru ra.
Hypothesis HL : length lb = length rb.

Let Hsl : wf_simplex lb lu. Proof. destruct Hl as (? & _); assumption. Qed.
Let Hsr : wf_simplex rb ru. Proof. destruct Hr as (? & _); assumption. Qed.
Let Hdl : wf_dist la. Proof. destruct Hl as (_ & ? & _); assumption. Qed.
Let Hdr : wf_dist ra. Proof. destruct Hr as (_ & ? & _); assumption. Qed.
Let Hlu : 0 <= lu <= 1.
Proof. pose proof (wf_simplex_u_le1 _ _ Hsl). destruct Hsl as (_ & ? & _). lra. Qed.
Let Hru : 0 <= ru <= 1.
Proof. pose proof (wf_simplex_u_le1 _ _ Hsr). destruct Hsr as (_ & ? & _). lra. Qed.
Let HLa : length la = length ra.
Proof. destruct Hl as (_ & _ & E1), Hr as (_ & _ & E2). congruence. Qed.
Let HLab : length la = length lb.
Proof. destruct Hl as (_ & _ & E1). exact E1. Qed.

Lemma fuse_base_nonneg op same : nonneg (compute_base_rateR eps op same lu la ru ra).
Proof. apply base_rateR_nonneg; auto; [apply Hdl|apply Hdr]. Qed.

Lemma fuse_base_sum_pos op same : 0 < Rsum (compute_base_rateR eps op same lu la ru ra).
Proof. apply base_rateR_sum_pos; auto. Qed.

Lemma fuse_lengths op same :
  length (compute_base_rateR eps op same lu la ru ra)
  = length (fst (compute_simplexR eps op (lb, lu) (rb, ru))).
Proof.
  rewrite base_rateR_length by auto. rewrite compute_simplexR_length by auto. exact HLab.
Qed.

(* fusion never panics: no NaN, no division by zero, for all four operators *)
Lemma fuse_defined op same :
  fuse (B:=FldR) eps op same (map Some lb, Some lu, map Some la) (map Some rb, Some ru, map Some ra)
  = (map Some (fused_b eps op same (lb, lu, la) (rb, ru, ra)),
     Some (fused_u eps op same (lb, lu, la) (rb, ru, ra)),
     map Some (fused_a eps op same (lb, lu, la) (rb, ru, ra))).
Proof.
  unfold fuse, fused_b, fused_u, fused_a, fuseR.
  (* the pairs produced by unfolding [fuse] are typed with [V]; take them from the goal *)
  match goal with |- context [compute_simplex (B:=FldR) eps op ?l ?r] =>
    replace (compute_simplex (B:=FldR) eps op l r)
      with (map Some (fst (compute_simplexR eps op (lb, lu) (rb, ru))),
            Some (snd (compute_simplexR eps op (lb, lu) (rb, ru))))
      by (symmetry; apply (compute_simplex_eval eps eps_range lb rb lu ru Hsl Hsr HL op))
  end.
  rewrite (compute_base_rate_eval eps eps_range lu ru) by lra.
  destruct op; cbn [bel unc fst snd]; try reflexivity.
  assert (Hden : Rsum (map2 (fun bi ai => bi + ai * snd (compute_simplexR eps ECm (lb, lu) (rb, ru)))
                            (fst (compute_simplexR eps ECm (lb, lu) (rb, ru)))
                            (compute_base_rateR eps ECm same lu la ru ra)) <> 0).
  { apply Rgt_not_eq, Rlt_gt. apply fproj_den_pos.
    - apply compute_simplexR_wf; auto.
    - apply fuse_lengths.
    - apply fuse_base_sum_pos. }
  assert (He0 : 0 <= eps) by lra.
  match goal with |- context [uncertainty_maximized (B:=FldR) eps ?b ?u ?a] =>
    replace (uncertainty_maximized (B:=FldR) eps b u a)
      with (map Some (fst (fumaxR eps (fst (compute_simplexR eps ECm (lb, lu) (rb, ru)))
                                      (snd (compute_simplexR eps ECm (lb, lu) (rb, ru)))
                                      (compute_base_rateR eps ECm same lu la ru ra))),
            Some (snd (fumaxR eps (fst (compute_simplexR eps ECm (lb, lu) (rb, ru)))
                                  (snd (compute_simplexR eps ECm (lb, lu) (rb, ru)))
                                  (compute_base_rateR eps ECm same lu la ru ra))))
      by (symmetry; apply (fumax_eval eps _ _ _ He0 Hden))
  end.
  reflexivity.
Qed.

(* closure of the simplex part: ACm, Avg, Wgh unconditionally *)
Lemma fuse_wf op same : op <> ECm ->
  wf_simplex (fused_b eps op same (lb, lu, la) (rb, ru, ra))
             (fused_u eps op same (lb, lu, la) (rb, ru, ra)).
Proof.
  intros Ho. pose proof (compute_simplexR_wf eps eps_range lb rb lu ru Hsl Hsr HL op) as H.
  unfold fused_b, fused_u, fuseR. destruct op; try contradiction; exact H.
Qed.

(* ECm: provided the fused base rate is a distribution that [is_zero] classifies exactly *)
Lemma fuse_wf_ecm same :
  ecm_side eps (fused_a eps ECm same (lb, lu, la) (rb, ru, ra)) ->
  wf_simplex (fused_b eps ECm same (lb, lu, la) (rb, ru, ra))
             (fused_u eps ECm same (lb, lu, la) (rb, ru, ra)).
Proof.
  intros (Hs & Hsep). unfold fused_b, fused_u, fuseR. cbn [fst snd].
  apply fumaxR_wf; auto; try lra.
  - apply compute_simplexR_wf; auto.
  - apply fuse_base_nonneg.
  - apply fuse_lengths.
Qed.

(* one shared base rate: the side condition is a condition on that base rate alone *)
Lemma fuse_wf_ecm_shared same : la = ra -> Forall (fun x => x = 0 \/ eps < x) la ->
  wf_simplex (fused_b eps ECm same (lb, lu, la) (rb, ru, ra))
             (fused_u eps ECm same (lb, lu, la) (rb, ru, ra)).
Proof.
  intros E Hsep. apply fuse_wf_ecm. rewrite fused_a_eq.
  rewrite base_rateR_shared by auto. split; [apply Hdl|exact Hsep].
Qed.

(* closure for all four operators at once *)
Lemma fuse_closed op same :
  (op = ECm -> ecm_side eps (fused_a eps ECm same (lb, lu, la) (rb, ru, ra))) ->
  wf_simplex (fused_b eps op same (lb, lu, la) (rb, ru, ra))
             (fused_u eps op same (lb, lu, la) (rb, ru, ra)).
Proof.
  intros H. destruct op; try (apply fuse_wf; discriminate). apply fuse_wf_ecm. apply H; reflexivity.
Qed.

(* ECm without any side condition: closed up to the guard tolerance *)
Lemma fuse_ecm_approx same :
  Forall (fun x => - eps <= x) (fused_b eps ECm same (lb, lu, la) (rb, ru, ra)) /\
  0 <= fused_u eps ECm same (lb, lu, la) (rb, ru, ra) <= 1 /\
  Rabs (Rsum (fused_b eps ECm same (lb, lu, la) (rb, ru, ra))
        + fused_u eps ECm same (lb, lu, la) (rb, ru, ra) - 1) <= INR (length la) * eps.
Proof.
  pose proof (fumaxR_approx eps (fst (compute_simplexR eps ECm (lb, lu) (rb, ru)))
                (snd (compute_simplexR eps ECm (lb, lu) (rb, ru)))
                (compute_base_rateR eps ECm same lu la ru ra)) as H.
  destruct H as (H1 & H2 & H3); try lra.
  - apply compute_simplexR_wf; auto.
  - apply fuse_base_nonneg.
  - apply fuse_lengths.
  - apply fuse_base_sum_pos.
  - split; [exact H1|]. split; [exact H2|].
    eapply Rle_trans; [exact H3|].
    apply base_rateR_sum_close; auto; [apply Hdl|apply Hdr].
Qed.

(* the base-rate part *)
Lemma fuse_base_length op same :
  length (fused_a eps op same (lb, lu, la) (rb, ru, ra)) = length la.
Proof. rewrite fused_a_eq. apply base_rateR_length; auto. Qed.

Lemma fuse_b_length op same :
  length (fused_b eps op same (lb, lu, la) (rb, ru, ra)) = length lb.
Proof.
  destruct op; unfold fused_b, fuseR; cbn [fst snd]; try (apply compute_simplexR_length; auto).
  unfold fumaxR; cbn [fst].
  assert (E : length (compute_base_rateR eps ECm same lu la ru ra)
              = length (fst (compute_simplexR eps ECm (lb, lu) (rb, ru)))) by apply fuse_lengths.
  rewrite map2_length_eq; rewrite fprojR_length by exact E; [|reflexivity].
  rewrite base_rateR_length by auto. exact HLab.
Qed.

Lemma fuse_base_range op same i : (i < length la)%nat ->
  Rmin (nth i la 0) (nth i ra 0) <= nth i (fused_a eps op same (lb, lu, la) (rb, ru, ra)) 0
    <= Rmax (nth i la 0) (nth i ra 0).
Proof. rewrite fused_a_eq. apply base_rateR_range; auto. Qed.

Lemma fuse_base_shared op same : la = ra ->
  fused_a eps op same (lb, lu, la) (rb, ru, ra) = la.
Proof. rewrite fused_a_eq. apply base_rateR_shared; auto. Qed.

Lemma fuse_base_same op : fused_a eps op true (lb, lu, la) (rb, ru, ra) = la.
Proof. reflexivity. Qed.

Lemma fuse_base_sum_close op same :
  Rabs (Rsum (fused_a eps op same (lb, lu, la) (rb, ru, ra)) - 1) <= INR (length la) * eps.
Proof. rewrite fused_a_eq. apply base_rateR_sum_close; auto; [apply Hdl|apply Hdr]. Qed.

Lemma fuse_base_sum_sep op same :
  (forall x y, In x la -> In y ra -> aeqR eps x y = true -> x = y) ->
  Rsum (fused_a eps op same (lb, lu, la) (rb, ru, ra)) = 1.
Proof. intros H. rewrite fused_a_eq. apply base_rateR_sum_sep; auto; [apply Hdl|apply Hdr]. Qed.

End Fuse.

(* exact guards (eps = 0): the result is a well-formed opinion for all four operators,
   with no side condition *)
Lemma fuse_closed_exact op same lb lu la rb ru ra :
  wf_opinion lb lu la -> wf_opinion rb ru ra -> length lb = length rb ->
  wf_opinion (fused_b 0 op same (lb, lu, la) (rb, ru, ra))
             (fused_u 0 op same (lb, lu, la) (rb, ru, ra))
             (fused_a 0 op same (lb, lu, la) (rb, ru, ra)).
Proof.
  intros Hl Hr HL. assert (He : 0 <= 0 <= 1/8) by lra.
  pose proof Hl as (Hsl & Hdl & HLl). pose proof Hr as (Hsr & Hdr & HLr).
  assert (Hlu : 0 <= lu <= 1).
  { pose proof (wf_simplex_u_le1 _ _ Hsl). destruct Hsl as (_ & ? & _). lra. }
  assert (Hru : 0 <= ru <= 1).
  { pose proof (wf_simplex_u_le1 _ _ Hsr). destruct Hsr as (_ & ? & _). lra. }
  assert (HLa : length la = length ra) by congruence.
  assert (Hda : wf_dist (fused_a 0 op same (lb, lu, la) (rb, ru, ra))).
  { rewrite fused_a_eq. apply base_rateR_exact_wf; auto. }
  split; [|split; [exact Hda|]].
  - apply (fuse_closed 0 He lb rb la ra lu ru Hl Hr HL op same).
    intros ->. split; [apply Hda|]. destruct Hda as (Hn & _).
    eapply Forall_impl; [|exact Hn]. cbn beta. intros x Hx. lra.
  - rewrite fuse_base_length, fuse_b_length by assumption. exact HLl.
Qed.

(* ---------------------------------------------------------------------------------------
   ECm with inexact guards (eps > 0) is NOT closed without [ecm_side]: when some pairs of
   base-rate entries are within eps (short-cut to the left entry) and others are not
   (averaged), the fused base rate does not sum to 1 and uncertainty maximisation, which
   presupposes a distribution, returns masses whose sum is 1 + um (1 - sum a).
   Witness: two vacuous opinions over three states, eps = 1/8; the result is
   b = (0,0,0), u = 32/33. *)
Lemma Rmin_same x : Rmin x x = x.
Proof. unfold Rmin. destruct (Rle_dec x x); reflexivity. Qed.

Ltac list_eq := repeat (apply (f_equal2 (@cons R)); [lra|]); try reflexivity.

Lemma fuse_ecm_counterexample :
  let eps := 1/8 in
  let l := ([0; 0; 0], 1, [1/2; 1/2; 0]) in
  let r := ([0; 0; 0], 1, [7/16; 1/16; 1/2]) in
  fused_a eps ECm false l r = [1/2; 9/32; 1/4] /\
  fused_u eps ECm false l r = 32/33 /\
  Rsum (fused_b eps ECm false l r) + fused_u eps ECm false l r = 32/33.
Proof.
  intros eps l r. subst eps l r.
  assert (Ed : is_dogR (1/8) 1 = false) by (apply is_dogR_false; lra).
  assert (Ev : is_vacR (1/8) 1 = true) by (apply is_vacR_true; lra).
  assert (E1 : aeqR (1/8) (1/2) (7/16) = true) by (apply aeqR_true; lra).
  assert (E2 : aeqR (1/8) (1/2) (1/16) = false) by (apply aeqR_false; lra).
  assert (E3 : aeqR (1/8) 0 (1/2) = false) by (apply aeqR_false; lra).
  assert (Ea : fused_a (1/8) ECm false ([0; 0; 0], 1, [1/2; 1/2; 0]) ([0; 0; 0], 1, [7/16; 1/16; 1/2])
               = [1/2; 9/32; 1/4]).
  { rewrite fused_a_eq. unfold compute_base_rateR, mean_or_sameR. rewrite Ed, Ev. cbn [andb map2].
    rewrite E1, E2, E3. list_eq. }
  assert (Es : compute_simplexR (1/8) ECm ([0; 0; 0], 1) ([0; 0; 0], 1) = ([0; 0; 0], 1)).
  { unfold compute_simplexR. rewrite Ed, Ev. reflexivity. }
  assert (Ep : fprojR [0; 0; 0] 1 [1/2; 9/32; 1/4] = [16/33; 9/33; 8/33]).
  { unfold fprojR. cbn [map2 map Rsum]. list_eq. }
  assert (Z1 : is_zero (B:=FldR) (1/8) (Some (1/2)) = false) by (apply is_zero_some_false; lra).
  assert (Z2 : is_zero (B:=FldR) (1/8) (Some (9/32)) = false) by (apply is_zero_some_false; lra).
  assert (Z3 : is_zero (B:=FldR) (1/8) (Some (1/4)) = false) by (apply is_zero_some_false; lra).
  assert (Em : fmaxuR (1/8) [0; 0; 0] 1 [1/2; 9/32; 1/4] = 32/33).
  { unfold fmaxuR. rewrite Ep. cbn [combine fold_left]. unfold fmaxu_step; cbn [fst snd].
    rewrite Z1, Z2, Z3.
    replace (16/33 / (1/2)) with (32/33) by lra.
    replace (9/33 / (9/32)) with (32/33) by lra.
    replace (8/33 / (1/4)) with (32/33) by lra.
    rewrite (Rmin_right 1 (32/33)) by lra. rewrite !Rmin_same. reflexivity. }
  assert (Eu : fused_u (1/8) ECm false ([0; 0; 0], 1, [1/2; 1/2; 0]) ([0; 0; 0], 1, [7/16; 1/16; 1/2])
               = 32/33).
  { unfold fused_u, fuseR. cbn [fst snd]. rewrite Es. cbn [fst snd].
    change (compute_base_rateR (1/8) ECm false 1 [1/2; 1/2; 0] 1 [7/16; 1/16; 1/2])
      with (fused_a (1/8) ECm false ([0; 0; 0], 1, [1/2; 1/2; 0]) ([0; 0; 0], 1, [7/16; 1/16; 1/2])).
    rewrite Ea. exact Em. }
  split; [exact Ea|]. split; [exact Eu|].
  rewrite Eu. unfold fused_b, fuseR. cbn [fst snd]. rewrite Es. cbn [fst snd].
  change (compute_base_rateR (1/8) ECm false 1 [1/2; 1/2; 0] 1 [7/16; 1/16; 1/2])
    with (fused_a (1/8) ECm false ([0; 0; 0], 1, [1/2; 1/2; 0]) ([0; 0; 0], 1, [7/16; 1/16; 1/2])).
  rewrite Ea. unfold fumaxR; cbn [fst snd]. rewrite Em, Ep. cbn [map2 Rsum]. lra.
Qed.

Lemma fuse_ecm_closed_refuted :
  exists eps lb lu la rb ru ra,
    0 <= eps <= 1/8 /\ wf_opinion lb lu la /\ wf_opinion rb ru ra /\ length lb = length rb /\
    ~ wf_simplex (fused_b eps ECm false (lb, lu, la) (rb, ru, ra))
                 (fused_u eps ECm false (lb, lu, la) (rb, ru, ra)).
Proof.
  exists (1/8), [0; 0; 0], 1, [1/2; 1/2; 0], [0; 0; 0], 1, [7/16; 1/16; 1/2].
  split; [lra|]. split; [|split; [|split; [reflexivity|]]].
  - unfold wf_opinion, wf_simplex, wf_dist, nonneg; cbn [Rsum length].
    repeat split; try (repeat constructor; lra); lra.
  - unfold wf_opinion, wf_simplex, wf_dist, nonneg; cbn [Rsum length].
    repeat split; try (repeat constructor; lra); lra.
  - intros (_ & _ & Hs). destruct fuse_ecm_counterexample as (_ & _ & Hc). cbv zeta in Hc. lra.
Qed.

(* second failure mode: a base-rate entry in (0, eps] is treated as zero by [max_uncertainty]
   but not by the subtraction b_i = P_i - a_i um, so the mass can become negative (>= - eps).
   Witness (one shared base rate, eps = 1/8): the result is b = (-1/24, 1/24), u = 1. *)
Lemma fuse_ecm_negative_mass :
  let eps := 1/8 in
  let l := ([0; 1/2], 1/2, [1/16; 15/16]) in
  fused_b eps ECm true l l = [-1/24; 1/24] /\ fused_u eps ECm true l l = 1.
Proof.
  intros eps l. subst eps l.
  assert (Ed : is_dogR (1/8) (1/2) = false) by (apply is_dogR_false; lra).
  assert (Ev : is_vacR (1/8) (1/2) = false) by (apply is_vacR_false; lra).
  assert (Es : compute_simplexR (1/8) ECm ([0; 1/2], 1/2) ([0; 1/2], 1/2) = ([0; 2/3], 1/3)).
  { unfold compute_simplexR. rewrite Ed, Ev. cbn [andb orb]. unfold acm_genR. cbn [map2].
    apply f_equal2; [list_eq|lra]. }
  assert (Ep : fprojR [0; 2/3] (1/3) [1/16; 15/16] = [1/48; 47/48]).
  { unfold fprojR. cbn [map2 map Rsum]. list_eq. }
  assert (Z1 : is_zero (B:=FldR) (1/8) (Some (1/16)) = true) by (apply is_zero_some; lra).
  assert (Z2 : is_zero (B:=FldR) (1/8) (Some (15/16)) = false) by (apply is_zero_some_false; lra).
  assert (Em : fmaxuR (1/8) [0; 2/3] (1/3) [1/16; 15/16] = 1).
  { unfold fmaxuR. rewrite Ep. cbn [combine fold_left]. unfold fmaxu_step; cbn [fst snd].
    rewrite Z1, Z2. rewrite Rmin_same. apply Rmin_left. lra. }
  unfold fused_b, fused_u, fuseR. cbn [fst snd]. rewrite Es. cbn [fst snd].
  unfold compute_base_rateR. unfold fumaxR; cbn [fst snd]. rewrite Em, Ep. cbn [map2].
  split; [list_eq|reflexivity].
Qed.

(* a concrete run: a nearly vacuous left operand (u = 1023/1024, outside the vacuous guard for
   eps = 1/4096) against a dogmatic right operand, different base rates, one zero entry: the
   hypotheses of the closure theorems hold (including [ecm_side]) and cumulative fusion
   returns the dogmatic operand *)
Lemma fuse_example :
  0 <= 1/4096 <= 1/8 /\
  wf_opinion [1/1024; 0; 0] (1023/1024) [1/2; 1/4; 1/4] /\
  wf_opinion [1/2; 1/2; 0] 0 [1/4; 3/4; 0] /\
  length [1/1024; 0; 0] = length [1/2; 1/2; 0] /\
  ecm_side (1/4096) (fused_a (1/4096) ECm false ([1/1024; 0; 0], 1023/1024, [1/2; 1/4; 1/4])
                                               ([1/2; 1/2; 0], 0, [1/4; 3/4; 0])) /\
  fuseR (1/4096) ACm false ([1/1024; 0; 0], 1023/1024, [1/2; 1/4; 1/4]) ([1/2; 1/2; 0], 0, [1/4; 3/4; 0])
  = ([1/2; 1/2; 0], 0, [1/4; 3/4; 0]).
Proof.
  assert (E1 : is_dogR (1/4096) (1023/1024) = false) by (apply is_dogR_false; lra).
  assert (E2 : is_dogR (1/4096) 0 = true) by (apply is_dogR_true; lra).
  assert (E3 : is_vacR (1/4096) (1023/1024) = false) by (apply is_vacR_false; lra).
  assert (E4 : is_vacR (1/4096) 0 = false) by (apply is_vacR_false; lra).
  split; [lra|]. split; [|split; [|split; [reflexivity|split]]].
  - unfold wf_opinion, wf_simplex, wf_dist, nonneg; cbn [Rsum length].
    repeat split; try (repeat constructor; lra); lra.
  - unfold wf_opinion, wf_simplex, wf_dist, nonneg; cbn [Rsum length].
    repeat split; try (repeat constructor; lra); lra.
  - rewrite fused_a_eq. unfold compute_base_rateR. rewrite E1, E2, E3, E4. cbn [andb orb].
    split; [cbn [Rsum]; lra|]. repeat constructor; lra.
  - unfold fuseR, compute_simplexR, compute_base_rateR. rewrite E1, E2, E3, E4. reflexivity.
Qed.
