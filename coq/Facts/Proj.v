(* C09: projected probability  P = b + a u  and uncertainty maximisation
   (Projection::projection, MaxUncertainty::max_uncertainty / uncertainty_maximized,
   src/mul.rs 333-408). *)
From Coq Require Import Reals List Bool Lra Lia.
Import ListNotations.
From SL Require Import Model.Num Model.Vec Model.Mul Model.InstR Facts.RBase.
Open Scope R_scope.

(* ------------------------------------------------------ generic list facts *)
Lemma nth_map2 {X Y Z} (f : X -> Y -> Z) d1 d2 d l1 l2 i :
  length l1 = length l2 -> f d1 d2 = d ->
  nth i (map2 f l1 l2) d = f (nth i l1 d1) (nth i l2 d2).
Proof.
  intros Hl Hd. revert l2 i Hl.
  induction l1 as [|x l1 IH]; destruct l2 as [|y l2]; intros i Hl; try discriminate.
  - destruct i; cbn; auto.
  - destruct i; cbn [map2 nth]; auto.
Qed.

Lemma map2_length_eq {X Y Z} (f : X -> Y -> Z) l1 l2 :
  length l1 = length l2 -> length (map2 f l1 l2) = length l2.
Proof. intros H. rewrite map2_length, H. apply Nat.min_id. Qed.

Lemma Rsum_map2_lin c l1 l2 : length l1 = length l2 ->
  Rsum (map2 (fun x y => x + y * c) l1 l2) = Rsum l1 + Rsum l2 * c.
Proof.
  revert l2; induction l1; destruct l2; cbn; intros H; try discriminate; [lra|].
  rewrite IHl1 by lia. lra.
Qed.
Lemma Rsum_map2_lin_sub c l1 l2 : length l1 = length l2 ->
  Rsum (map2 (fun x y => x - y * c) l1 l2) = Rsum l1 - Rsum l2 * c.
Proof.
  revert l2; induction l1; destruct l2; cbn; intros H; try discriminate; [lra|].
  rewrite IHl1 by lia. lra.
Qed.

(* add back what was subtracted *)
Lemma map2_add_sub c p a : length p = length a ->
  map2 (fun bi ai => bi + ai * c) (map2 (fun pi ai => pi - ai * c) p a) a = p.
Proof.
  revert a; induction p as [|x p IH]; destruct a as [|y a]; cbn; intros H; try discriminate; auto.
  rewrite IH by lia. f_equal. lra.
Qed.

Lemma div_ge x y z : 0 < z -> x * z <= y -> x <= y / z.
Proof.
  intros Hz H. unfold Rdiv. apply Rmult_le_reg_r with z; [lra|].
  rewrite Rmult_assoc, Rinv_l by lra. lra.
Qed.
Lemma div_le x y z : 0 < z -> x <= y / z -> x * z <= y.
Proof.
  intros Hz H. apply Rmult_le_compat_r with (r := z) in H; [|lra].
  unfold Rdiv in H. rewrite Rmult_assoc, Rinv_l in H by lra. lra.
Qed.
Lemma div_eq x y z : 0 < z -> x = y / z -> x * z = y.
Proof. intros Hz ->. field. lra. Qed.

(* --------------------------------------------------------------- projection *)

(* the un-normalised projection b + a u, as real numbers *)
Definition projR (b : list R) (u : R) (a : list R) : list R :=
  map2 (fun bi ai => bi + ai * u) b a.

Lemma projR_length b u a : length a = length b -> length (projR b u a) = length a.
Proof. intros H. unfold projR. apply map2_length_eq. auto. Qed.

Lemma nth_projR b u a i : length a = length b ->
  nth i (projR b u a) 0 = nth i b 0 + nth i a 0 * u.
Proof.
  intros H. unfold projR.
  rewrite (nth_map2 (fun bi ai => bi + ai * u) 0 0 0) by (auto; lra). reflexivity.
Qed.

Lemma Rsum_projR b u a : length a = length b ->
  Rsum (projR b u a) = Rsum b + Rsum a * u.
Proof. intros H. unfold projR. apply Rsum_map2_lin. auto. Qed.

Lemma Rsum_projR_one b u a : Rsum b + u = 1 -> Rsum a = 1 -> length a = length b ->
  Rsum (projR b u a) = 1.
Proof. intros Hb Ha Hl. rewrite Rsum_projR, Ha by exact Hl. lra. Qed.

Lemma In_combine_projR u b a pi ai :
  In (pi, ai) (combine (projR b u a) a) ->
  exists bi, In bi b /\ In ai a /\ pi = bi + ai * u.
Proof.
  revert a; induction b as [|x b IH]; destruct a as [|y a]; cbn; intros H; try contradiction.
  destruct H as [H|H].
  - injection H as <- <-. exists x; auto.
  - destruct (IH a H) as (bi & H1 & H2 & H3). exists bi; auto.
Qed.

Lemma projR_nonneg b u a : nonneg b -> nonneg a -> 0 <= u -> nonneg (projR b u a).
Proof.
  intros Hb; revert a; induction Hb as [|x b Hx Hb IH]; intros a Ha Hu; destruct Ha as [|y a Hy Ha];
    cbn; try constructor; auto.
  - nra.
  - apply IH; auto.
Qed.

Lemma normalize_dist_some p : Rsum p <> 0 ->
  normalize_dist (B:=FldR) (map Some p) = map Some (map (fun x => x / Rsum p) p).
Proof.
  intros H. unfold normalize_dist. rewrite vsum_some. apply map_some.
  intros x. apply div_some; exact H.
Qed.

(* general evaluation: defined as soon as the normalising sum is not zero *)
Lemma projection_eval b u a : Rsum (projR b u a) <> 0 ->
  projection (B:=FldR) (map Some b) (Some u) (map Some a) =
  map Some (map (fun x => x / Rsum (projR b u a)) (projR b u a)).
Proof.
  intros H. unfold projection.
  rewrite (map2_some _ (fun bi ai => bi + ai * u)) by (intros; reflexivity).
  apply normalize_dist_some. exact H.
Qed.

(* on operands whose masses add up to one the normalising sum is exactly 1 *)
Lemma projection_defined_sum b u a :
  Rsum b + u = 1 -> Rsum a = 1 -> length a = length b ->
  projection (B:=FldR) (map Some b) (Some u) (map Some a) = map Some (projR b u a).
Proof.
  intros Hb Ha Hl. rewrite projection_eval; rewrite (Rsum_projR_one b u a Hb Ha Hl); [|lra].
  f_equal. rewrite <- (map_id (projR b u a)) at 2. apply map_ext. intros x. field.
Qed.

Lemma projection_defined b u a : wf_opinion b u a ->
  projection (B:=FldR) (map Some b) (Some u) (map Some a) = map Some (projR b u a).
Proof. intros ((_ & _ & Hb) & (_ & Ha) & Hl). apply projection_defined_sum; auto. Qed.

Lemma projR_wf_dist b u a : wf_opinion b u a -> wf_dist (projR b u a).
Proof.
  intros ((Hb & Hu & Hs) & (Ha & Has) & Hl). split.
  - apply projR_nonneg; auto.
  - apply Rsum_projR_one; auto.
Qed.

Lemma projection_spec_lemma b u a : wf_opinion b u a ->
  projection (B:=FldR) (map Some b) (Some u) (map Some a)
    = map Some (map2 (fun bi ai => bi + ai * u) b a) /\
  wf_dist (map2 (fun bi ai => bi + ai * u) b a) /\
  length (map2 (fun bi ai => bi + ai * u) b a) = length b /\
  (forall i, nth i (map2 (fun bi ai => bi + ai * u) b a) 0 = nth i b 0 + nth i a 0 * u).
Proof.
  intros H. pose proof H as (_ & _ & Hl). repeat split.
  - apply projection_defined; exact H.
  - apply (projR_wf_dist b u a H).
  - apply (projR_wf_dist b u a H).
  - rewrite <- Hl. apply (projR_length b u a Hl).
  - intros i. apply (nth_projR b u a i Hl).
Qed.

(* ---------------------------------------------------- maximal uncertainty *)

(* one candidate of the minimum: 1 when the base rate passes the crate's zero test *)
Definition mterm (eps : R) (pa : R * R) : R :=
  if is_zero (B:=FldR) eps (Some (snd pa)) then 1 else fst pa / snd pa.
Definition mstep (eps : R) (acc : R) (pa : R * R) : R := Rmin acc (mterm eps pa).

(* max_uncertainty as a function of the projection p and the base rate a *)
Definition maxuR_of (eps : R) (p a : list R) : R := fold_left (mstep eps) (combine p a) 1.
Definition maxuR (eps : R) (b : list R) (u : R) (a : list R) : R :=
  maxuR_of eps (projR b u a) a.
(* uncertainty_maximized *)
Definition umaxR (eps : R) (b : list R) (u : R) (a : list R) : list R * R :=
  (map2 (fun pi ai => pi - ai * maxuR eps b u a) (projR b u a) a, maxuR eps b u a).

(* the running minimum *)
Lemma fold_min_le_acc eps l acc : fold_left (mstep eps) l acc <= acc.
Proof.
  revert acc; induction l as [|x l IH]; intros acc; cbn [fold_left]; [lra|].
  specialize (IH (mstep eps acc x)). unfold mstep in *. pose proof (Rmin_l acc (mterm eps x)). lra.
Qed.
Lemma fold_min_le_term eps l acc pa : In pa l -> fold_left (mstep eps) l acc <= mterm eps pa.
Proof.
  revert acc; induction l as [|x l IH]; intros acc Hin; cbn [fold_left]; [contradiction|].
  destruct Hin as [->|Hin]; [|apply IH; exact Hin].
  pose proof (fold_min_le_acc eps l (mstep eps acc pa)). unfold mstep in *.
  pose proof (Rmin_r acc (mterm eps pa)). lra.
Qed.
Lemma fold_min_glb eps l acc c :
  c <= acc -> (forall pa, In pa l -> c <= mterm eps pa) -> c <= fold_left (mstep eps) l acc.
Proof.
  revert acc; induction l as [|x l IH]; intros acc Hc H; cbn [fold_left]; [exact Hc|].
  apply IH.
  - unfold mstep. apply Rmin_glb; [exact Hc|]. apply H; left; reflexivity.
  - intros pa Hpa. apply H; right; exact Hpa.
Qed.
Lemma fold_min_attained eps l acc :
  fold_left (mstep eps) l acc = acc \/
  exists pa, In pa l /\ fold_left (mstep eps) l acc = mterm eps pa.
Proof.
  revert acc; induction l as [|x l IH]; intros acc; cbn [fold_left]; [left; reflexivity|].
  destruct (IH (mstep eps acc x)) as [E|(pa & Hin & E)].
  - rewrite E. unfold mstep, Rmin. destruct (Rle_dec acc (mterm eps x)); [left; reflexivity|].
    right. exists x; split; [left|]; reflexivity.
  - right. exists pa; split; [right; exact Hin|exact E].
Qed.

Lemma In_combine_nth (p a : list R) i : length p = length a -> (i < length a)%nat ->
  In (nth i p 0, nth i a 0) (combine p a).
Proof.
  intros Hl Hi. rewrite <- (combine_nth p a i 0 0 Hl). apply nth_In.
  rewrite combine_length, Hl, Nat.min_id. exact Hi.
Qed.
Lemma In_combine_ex (p a : list R) x y : In (x, y) (combine p a) ->
  exists i, (i < length a)%nat /\ nth i p 0 = x /\ nth i a 0 = y.
Proof.
  revert a; induction p as [|x0 p IH]; destruct a as [|y0 a]; cbn [combine In]; intros H; try contradiction.
  destruct H as [H|H].
  - injection H as <- <-. exists 0%nat. cbn. repeat split; lia.
  - destruct (IH a H) as (i & Hi & H1 & H2). exists (S i). cbn. repeat split; auto; lia.
Qed.

Section MaxU.
Variable eps : R.
Hypothesis eps_range : 0 <= eps <= 1/8.

Lemma mterm_pos p a : eps < a -> mterm eps (p, a) = p / a.
Proof.
  intros H. unfold mterm; cbn [fst snd].
  assert (E : is_zero (B:=FldR) eps (Some a) = false) by (apply is_zero_some_false; lra).
  rewrite E; reflexivity.
Qed.
Lemma mterm_zero p a : - eps <= a <= eps -> mterm eps (p, a) = 1.
Proof.
  intros H. unfold mterm; cbn [fst snd].
  assert (E : is_zero (B:=FldR) eps (Some a) = true) by (apply is_zero_some; lra).
  rewrite E; reflexivity.
Qed.

(* the model's loop never divides by zero: the guard sends every |a_i| <= eps to 1 *)
Lemma max_fold_some (p a : list R) (acc : R) :
  fold_left (fun (acc : RV) (pa : RV * RV) =>
               nmin acc (if is_zero (B:=FldR) eps (snd pa) then one else div (fst pa) (snd pa)))
            (combine (map Some p) (map Some a)) (Some acc)
  = Some (fold_left (mstep eps) (combine p a) acc).
Proof.
  revert a acc; induction p as [|x p IH]; destruct a as [|y a]; intros acc;
    cbn [map combine fold_left]; try reflexivity.
  cbn [fst snd]. rewrite <- IH. f_equal. unfold mstep, mterm; cbn [fst snd].
  destruct (is_zero (B:=FldR) eps (Some y)) eqn:E.
  - rewrite one_some, nmin_some. reflexivity.
  - apply is_zero_some_false in E. rewrite div_some by lra. rewrite nmin_some. reflexivity.
Qed.

Lemma max_uncertainty_defined_sum b u a :
  Rsum b + u = 1 -> Rsum a = 1 -> length a = length b ->
  max_uncertainty (B:=FldR) eps (map Some b) (Some u) (map Some a) = Some (maxuR eps b u a).
Proof.
  intros Hb Ha Hl. unfold max_uncertainty. rewrite (projection_defined_sum b u a Hb Ha Hl).
  rewrite one_some. apply max_fold_some.
Qed.

Lemma max_uncertainty_defined b u a : wf_opinion b u a ->
  max_uncertainty (B:=FldR) eps (map Some b) (Some u) (map Some a) = Some (maxuR eps b u a).
Proof. intros ((_ & _ & Hb) & (_ & Ha) & Hl). apply max_uncertainty_defined_sum; auto. Qed.

Lemma uncertainty_maximized_defined_sum b u a :
  Rsum b + u = 1 -> Rsum a = 1 -> length a = length b ->
  uncertainty_maximized (B:=FldR) eps (map Some b) (Some u) (map Some a) =
  (map Some (fst (umaxR eps b u a)), Some (snd (umaxR eps b u a))).
Proof.
  intros Hb Ha Hl. unfold uncertainty_maximized.
  rewrite (max_uncertainty_defined_sum b u a Hb Ha Hl), (projection_defined_sum b u a Hb Ha Hl).
  cbv zeta. unfold umaxR; cbn [fst snd]. f_equal.
  apply map2_some. intros x y; reflexivity.
Qed.

Lemma uncertainty_maximized_defined b u a : wf_opinion b u a ->
  uncertainty_maximized (B:=FldR) eps (map Some b) (Some u) (map Some a) =
  (map Some (fst (umaxR eps b u a)), Some (snd (umaxR eps b u a))).
Proof. intros ((_ & _ & Hb) & (_ & Ha) & Hl). apply uncertainty_maximized_defined_sum; auto. Qed.

(* ---- the value of the maximal uncertainty *)
Lemma maxuR_le1 b u a : maxuR eps b u a <= 1.
Proof. unfold maxuR, maxuR_of. apply fold_min_le_acc. Qed.

Lemma maxuR_ge_u b u a : wf_opinion b u a -> u <= maxuR eps b u a.
Proof.
  intros (Hs & (Ha & Has) & Hl). pose proof (wf_simplex_u_le1 b u Hs) as Hu1.
  destruct Hs as (Hb & Hu & Hs).
  unfold maxuR, maxuR_of. apply fold_min_glb; [exact Hu1|].
  intros [pi ai] Hin. apply In_combine_projR in Hin. destruct Hin as (bi & Hbi & Hai & ->).
  unfold nonneg in Hb, Ha. rewrite Forall_forall in Hb, Ha.
  specialize (Hb bi Hbi). specialize (Ha ai Hai).
  unfold mterm; cbn [fst snd]. destruct (is_zero (B:=FldR) eps (Some ai)) eqn:E; [exact Hu1|].
  apply is_zero_some_false in E. apply div_ge; nra.
Qed.

Lemma maxuR_bounds b u a : wf_opinion b u a -> 0 <= maxuR eps b u a <= 1.
Proof.
  intros H. pose proof (maxuR_ge_u b u a H). pose proof (maxuR_le1 b u a).
  destruct H as ((_ & Hu & _) & _). lra.
Qed.

(* u' a_i <= P_i for every base rate above the guard *)
Lemma maxuR_le_term b u a i : length a = length b -> eps < nth i a 0 ->
  maxuR eps b u a * nth i a 0 <= nth i b 0 + nth i a 0 * u.
Proof.
  intros Hl Hi. assert (Hlt : (i < length a)%nat).
  { destruct (Nat.lt_ge_cases i (length a)) as [H|H]; [exact H|]. rewrite nth_overflow in Hi by exact H. lra. }
  rewrite <- (nth_projR b u a i Hl). apply div_le; [lra|].
  rewrite <- (mterm_pos _ _ Hi). unfold maxuR, maxuR_of. apply fold_min_le_term.
  apply In_combine_nth; [apply projR_length; exact Hl|exact Hlt].
Qed.

(* and the minimum is attained: u' = 1 or u' a_i = P_i for such an i *)
Lemma maxuR_attained b u a : nonneg a -> length a = length b ->
  maxuR eps b u a = 1 \/
  exists i, eps < nth i a 0 /\ maxuR eps b u a * nth i a 0 = nth i b 0 + nth i a 0 * u.
Proof.
  intros Ha Hl. unfold maxuR, maxuR_of.
  destruct (fold_min_attained eps (combine (projR b u a) a) 1) as [E|([pi ai] & Hin & E)]; [left; exact E|].
  unfold mterm in E; cbn [fst snd] in E. destruct (is_zero (B:=FldR) eps (Some ai)) eqn:Ez; [left; exact E|].
  right. apply is_zero_some_false in Ez. apply In_combine_ex in Hin.
  destruct Hin as (i & Hi & Hp & Hai). exists i. subst pi ai.
  assert (0 <= nth i a 0).
  { unfold nonneg in Ha; rewrite Forall_forall in Ha. apply Ha. apply nth_In; exact Hi. }
  split; [lra|]. rewrite E, <- (nth_projR b u a i Hl). apply div_eq; [lra|reflexivity].
Qed.

(* ---- the maximised simplex *)
Lemma umaxR_length b u a : length a = length b -> length (fst (umaxR eps b u a)) = length b.
Proof.
  intros Hl. unfold umaxR; cbn [fst]. rewrite map2_length_eq; [auto|]. apply projR_length; exact Hl.
Qed.

Lemma nth_umaxR b u a i : length a = length b ->
  nth i (fst (umaxR eps b u a)) 0 = nth i b 0 + nth i a 0 * u - nth i a 0 * maxuR eps b u a.
Proof.
  intros Hl. unfold umaxR; cbn [fst].
  rewrite (nth_map2 _ 0 0 0) by (try lra; apply projR_length; exact Hl).
  rewrite (nth_projR b u a i Hl). reflexivity.
Qed.

(* same projected probability, entry by entry and as lists *)
Lemma umaxR_same_projection_nth b u a i : length a = length b ->
  nth i (fst (umaxR eps b u a)) 0 + nth i a 0 * snd (umaxR eps b u a) = nth i b 0 + nth i a 0 * u.
Proof. intros Hl. rewrite (nth_umaxR b u a i Hl). cbn [snd umaxR]. lra. Qed.

Lemma umaxR_same_projection b u a : length a = length b ->
  projR (fst (umaxR eps b u a)) (snd (umaxR eps b u a)) a = projR b u a.
Proof.
  intros Hl. unfold umaxR; cbn [fst snd]. unfold projR at 1.
  apply map2_add_sub. apply projR_length; exact Hl.
Qed.

Lemma umaxR_sum b u a : Rsum b + u = 1 -> Rsum a = 1 -> length a = length b ->
  Rsum (fst (umaxR eps b u a)) + snd (umaxR eps b u a) = 1.
Proof.
  intros Hb Ha Hl. unfold umaxR; cbn [fst snd].
  rewrite Rsum_map2_lin_sub by (apply projR_length; exact Hl).
  rewrite (Rsum_projR_one b u a Hb Ha Hl), Ha. lra.
Qed.

(* idempotence: holds for every base rate (no side condition on small entries) *)
Lemma umaxR_idem b u a : length a = length b ->
  umaxR eps (fst (umaxR eps b u a)) (snd (umaxR eps b u a)) a = umaxR eps b u a.
Proof.
  intros Hl. unfold umaxR at 1. unfold maxuR.
  rewrite (umaxR_same_projection b u a Hl). reflexivity.
Qed.

Lemma maxu_idempotent_sum b u a :
  Rsum b + u = 1 -> Rsum a = 1 -> length a = length b ->
  uncertainty_maximized (B:=FldR) eps (map Some (fst (umaxR eps b u a))) (Some (snd (umaxR eps b u a))) (map Some a)
  = (map Some (fst (umaxR eps b u a)), Some (snd (umaxR eps b u a))).
Proof.
  intros Hb Ha Hl.
  rewrite uncertainty_maximized_defined_sum.
  - rewrite (umaxR_idem b u a Hl). reflexivity.
  - apply umaxR_sum; auto.
  - exact Ha.
  - rewrite (umaxR_length b u a Hl). exact Hl.
Qed.

Lemma maxu_idempotent_lemma b u a : wf_opinion b u a ->
  uncertainty_maximized (B:=FldR) eps (map Some (fst (umaxR eps b u a))) (Some (snd (umaxR eps b u a))) (map Some a)
  = (map Some (fst (umaxR eps b u a)), Some (snd (umaxR eps b u a))).
Proof. intros ((_ & _ & Hb) & (_ & Ha) & Hl). apply maxu_idempotent_sum; auto. Qed.

(* ---- tolerance version: any well-formed opinion, base rates in (0, eps] allowed *)
Lemma umaxR_entry_lower b u a i : wf_opinion b u a ->
  ((nth i a 0 = 0 \/ eps < nth i a 0 -> 0 <= nth i (fst (umaxR eps b u a)) 0) /\
   - eps <= - nth i a 0 * (1 - u) <= nth i (fst (umaxR eps b u a)) 0) \/
  0 <= nth i (fst (umaxR eps b u a)) 0.
Proof.
  intros H. pose proof (maxuR_bounds b u a H) as Hm. pose proof (maxuR_ge_u b u a H) as Hge.
  destruct H as ((Hb & Hu & Hs) & (Ha & Has) & Hl).
  rewrite (nth_umaxR b u a i Hl).
  assert (Hbi : 0 <= nth i b 0).
  { destruct (Nat.lt_ge_cases i (length b)) as [Hi|Hi]; [|rewrite nth_overflow by exact Hi; lra].
    unfold nonneg in Hb; rewrite Forall_forall in Hb. apply Hb, nth_In, Hi. }
  assert (Hai : 0 <= nth i a 0).
  { destruct (Nat.lt_ge_cases i (length a)) as [Hi|Hi]; [|rewrite nth_overflow by exact Hi; lra].
    unfold nonneg in Ha; rewrite Forall_forall in Ha. apply Ha, nth_In, Hi. }
  destruct (Rle_lt_dec (nth i a 0) eps) as [Hsmall|Hbig].
  - left. split.
    + intros [E|E]; [rewrite E; lra|lra].
    + nra.
  - right. pose proof (maxuR_le_term b u a i Hl Hbig). lra.
Qed.

Lemma umaxR_entry_ge b u a i : wf_opinion b u a -> - eps <= nth i (fst (umaxR eps b u a)) 0.
Proof. intros H. destruct (umaxR_entry_lower b u a i H) as [(_ & H1)|H1]; lra. Qed.

Lemma umaxR_entry_nonneg b u a i : wf_opinion b u a -> nth i a 0 = 0 \/ eps < nth i a 0 ->
  0 <= nth i (fst (umaxR eps b u a)) 0.
Proof. intros H Hi. destruct (umaxR_entry_lower b u a i H) as [(H1 & _)|H1]; auto. Qed.

Lemma maxu_tolerant_lemma b u a : wf_opinion b u a ->
  uncertainty_maximized (B:=FldR) eps (map Some b) (Some u) (map Some a)
    = (map Some (fst (umaxR eps b u a)), Some (snd (umaxR eps b u a))) /\
  max_uncertainty (B:=FldR) eps (map Some b) (Some u) (map Some a) = Some (snd (umaxR eps b u a)) /\
  length (fst (umaxR eps b u a)) = length b /\
  Rsum (fst (umaxR eps b u a)) + snd (umaxR eps b u a) = 1 /\
  u <= snd (umaxR eps b u a) <= 1 /\
  (forall i, - eps <= nth i (fst (umaxR eps b u a)) 0) /\
  (forall i, nth i a 0 = 0 \/ eps < nth i a 0 -> 0 <= nth i (fst (umaxR eps b u a)) 0) /\
  (forall i, nth i (fst (umaxR eps b u a)) 0 + nth i a 0 * snd (umaxR eps b u a)
             = nth i b 0 + nth i a 0 * u) /\
  (forall i, eps < nth i a 0 -> snd (umaxR eps b u a) * nth i a 0 <= nth i b 0 + nth i a 0 * u) /\
  (snd (umaxR eps b u a) = 1 \/
   exists i, eps < nth i a 0 /\ snd (umaxR eps b u a) * nth i a 0 = nth i b 0 + nth i a 0 * u /\
             nth i (fst (umaxR eps b u a)) 0 = 0).
Proof.
  intros H. pose proof H as ((Hb & Hu & Hs) & (Ha & Has) & Hl).
  split; [apply uncertainty_maximized_defined; exact H|].
  split; [apply max_uncertainty_defined; exact H|].
  split; [apply umaxR_length; exact Hl|].
  split; [apply umaxR_sum; auto|].
  split; [split; [apply maxuR_ge_u; exact H|apply maxuR_le1]|].
  split; [intros i; apply umaxR_entry_ge; exact H|].
  split; [intros i; apply umaxR_entry_nonneg; exact H|].
  split; [intros i; apply umaxR_same_projection_nth; exact Hl|].
  split; [intros i; apply maxuR_le_term; exact Hl|].
  cbn [snd umaxR]. destruct (maxuR_attained b u a Ha Hl) as [E|(i & Hi & E)]; [left; exact E|].
  right. exists i. split; [exact Hi|]. split; [exact E|]. rewrite (nth_umaxR b u a i Hl). lra.
Qed.

(* ---- exact version: every base-rate entry is 0 or above the guard *)
Lemma umaxR_wf b u a : wf_opinion b u a -> Forall (fun x => x = 0 \/ eps < x) a ->
  wf_simplex (fst (umaxR eps b u a)) (snd (umaxR eps b u a)).
Proof.
  intros H Hg. pose proof H as ((Hb & Hu & Hs) & (Ha & Has) & Hl). split; [|split].
  - unfold nonneg. apply Forall_nth. intros i d Hi. rewrite (nth_indep _ d 0 Hi).
    apply umaxR_entry_nonneg; [exact H|].
    rewrite (umaxR_length b u a Hl), <- Hl in Hi.
    rewrite Forall_forall in Hg. apply Hg, nth_In, Hi.
  - cbn [snd umaxR]. pose proof (maxuR_bounds b u a H). lra.
  - apply umaxR_sum; auto.
Qed.

Lemma umaxR_wf_opinion b u a : wf_opinion b u a -> Forall (fun x => x = 0 \/ eps < x) a ->
  wf_opinion (fst (umaxR eps b u a)) (snd (umaxR eps b u a)) a.
Proof.
  intros H Hg. split; [apply umaxR_wf; auto|]. destruct H as (_ & Ha & Hl). split; [exact Ha|].
  rewrite (umaxR_length b u a Hl). exact Hl.
Qed.

Lemma guard_pos a i : Forall (fun x => x = 0 \/ eps < x) a -> 0 < nth i a 0 -> eps < nth i a 0.
Proof.
  intros Hg Hi. destruct (Nat.lt_ge_cases i (length a)) as [Hlt|Hge].
  - rewrite Forall_forall in Hg. destruct (Hg _ (nth_In a 0 Hlt)) as [E|E]; lra.
  - rewrite nth_overflow in Hi by exact Hge. lra.
Qed.

Lemma maxu_spec_lemma b u a : wf_opinion b u a -> Forall (fun x => x = 0 \/ eps < x) a ->
  exists b' u',
    uncertainty_maximized (B:=FldR) eps (map Some b) (Some u) (map Some a) = (map Some b', Some u') /\
    max_uncertainty (B:=FldR) eps (map Some b) (Some u) (map Some a) = Some u' /\
    (b', u') = umaxR eps b u a /\
    wf_simplex b' u' /\ length b' = length b /\
    (forall i, nth i b' 0 + nth i a 0 * u' = nth i b 0 + nth i a 0 * u) /\
    u <= u' /\ u' <= 1 /\
    (forall i, 0 < nth i a 0 -> u' * nth i a 0 <= nth i b 0 + nth i a 0 * u) /\
    (u' = 1 \/ exists i, 0 < nth i a 0 /\ u' * nth i a 0 = nth i b 0 + nth i a 0 * u) /\
    (u' = 1 \/ exists i, 0 < nth i a 0 /\ nth i b' 0 = 0).
Proof.
  intros H Hg. exists (fst (umaxR eps b u a)), (snd (umaxR eps b u a)).
  destruct (maxu_tolerant_lemma b u a H) as (E1 & E2 & E3 & _ & (E5 & E5') & _ & _ & E8 & E9 & E10).
  split; [exact E1|]. split; [exact E2|]. split; [reflexivity|].
  split; [apply umaxR_wf; auto|]. split; [exact E3|]. split; [exact E8|].
  split; [exact E5|]. split; [exact E5'|].
  split; [intros i Hi; apply E9; apply guard_pos; auto|].
  split.
  - destruct E10 as [E|(i & Hi & Ei & _)]; [left; exact E|]. right. exists i. split; [lra|exact Ei].
  - destruct E10 as [E|(i & Hi & _ & Ei)]; [left; exact E|]. right. exists i. split; [lra|exact Ei].
Qed.

End MaxU.

(* idempotence stated on whatever the operator returned *)
Lemma maxu_idempotent_any eps b u a b' u' : 0 <= eps <= 1/8 -> wf_opinion b u a ->
  uncertainty_maximized (B:=FldR) eps (map Some b) (Some u) (map Some a) = (map Some b', Some u') ->
  uncertainty_maximized (B:=FldR) eps (map Some b') (Some u') (map Some a) = (map Some b', Some u').
Proof.
  intros He H E. rewrite (uncertainty_maximized_defined eps He b u a H) in E.
  injection E as Eb Eu. apply map_Some_inj in Eb. subst b' u'.
  apply maxu_idempotent_lemma; assumption.
Qed.

(* The side condition of [maxu_spec_lemma] cannot be dropped: a base-rate entry in (0, eps]
   passes the crate's zero test, its constraint u <= P_i / a_i is skipped, and the
   belief mass of that entry comes out negative (by eps/2 here; [umaxR_entry_ge] bounds
   the defect by eps in general). *)
Lemma maxu_small_base_rate_witness eps : 0 < eps <= 1/8 ->
  wf_opinion [0; 1/2] (1/2) [eps; 1 - eps] /\
  umaxR eps [0; 1/2] (1/2) [eps; 1 - eps] = ([- eps / 2; eps / 2], 1).
Proof.
  intros He. split.
  - unfold wf_opinion, wf_simplex, wf_dist, nonneg; cbn [Rsum length].
    repeat split; try (repeat constructor; lra); lra.
  - assert (Hm : maxuR eps [0; 1/2] (1/2) [eps; 1 - eps] = 1).
    { unfold maxuR, maxuR_of, projR; cbn [map2 combine fold_left]. unfold mstep.
      rewrite mterm_zero by lra. rewrite mterm_pos by lra.
      rewrite (Rmin_left 1 1) by lra. apply Rmin_left. apply div_ge; lra. }
    unfold umaxR. rewrite Hm. unfold projR; cbn [map2]. f_equal. f_equal; [lra|]. f_equal. lra.
Qed.
