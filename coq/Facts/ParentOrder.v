(* C11 (last clause) - deduction from a product opinion through the merged table does not
   depend on the order in which the parents are listed; and C15 for the three-factor products.

   Part A relates the two formulations of "transposition of a flattened n0 x n1 table" used in
   the development: [Merge.transposeL] / [Product.transposeR] (a function on lists) and the
   renamings of Facts/Equivariance.v ([perm d s l] for a list of positions [s] with
   [is_perm s n]).  The transposition is the renaming [tperm n0 n1]:
       tperm n0 n1 = [ i * n1 + j | j <- 0..n1-1, i <- 0..n0-1 ]      (j outer, i inner)
   and [is_perm (tperm n0 n1) (n0 * n1)].

   Part B: every operator that consumes a variable X = X1 x X2 only as the index set of the
   antecedent opinion and of the rows of a conditional table ([mbr], [deduce_of], [deduce],
   [deduce_with]) is invariant under the joint transposition (ARBITRARY model operands).

   Part C chains: [Product.product2_transpose] (product2 w2 w1 is the transposed product2 w1 w2),
   [Merge.merge_transpose_lemma] (the merged table with the parents exchanged is the transposed
   table) and Part B.

   Part D: three-factor products are equivariant under independent renamings of the factors
   ([iperm3], [product3_equivariant], [product3_lab_equivariant]). *)
From Coq Require Import Reals List Bool Lra Lia Permutation.
Import ListNotations.
From SL Require Import Model.Num Model.Vec Model.Mul Model.InstR Facts.RBase
                       Facts.Inverse Facts.Merge Facts.Equivariance.
From SL Require Facts.Deduce Facts.Product.
Open Scope R_scope.

(* ================================================= A. transposition as a renaming *)
Definition tperm (n0 n1 : nat) : list nat :=
  flat_map (fun j => map (fun i => (i * n1 + j)%nat) (seq 0 n0)) (seq 0 n1).

Lemma transposeL_perm {X} (d : X) n0 n1 l : transposeL d n0 n1 l = perm d (tperm n0 n1) l.
Proof.
  unfold transposeL, perm, tperm. rewrite map_flat_map'.
  apply flat_map_ext. intros j. now rewrite map_map.
Qed.

Lemma tperm_length n0 n1 : length (tperm n0 n1) = (n1 * n0)%nat.
Proof.
  unfold tperm. rewrite (mg_chunks_length (fun j i => (i * n1 + j)%nat)), seq_length. reflexivity.
Qed.

Lemma tperm_is_perm n0 n1 : is_perm (tperm n0 n1) (n0 * n1).
Proof.
  unfold is_perm. apply Permutation_sym, NoDup_Permutation_bis.
  - apply seq_NoDup.
  - rewrite seq_length, tperm_length. lia.
  - intros k Hk. apply in_seq in Hk.
    destruct (Product.cell_decompose n0 n1 k) as (i & j & Hi & Hj & ->); [lia|].
    unfold tperm. apply in_flat_map. exists j. split; [apply in_seq; lia|].
    apply in_map_iff. exists i. split; [reflexivity|apply in_seq; lia].
Qed.

(* entry (j, i) of the renamed list is entry (i, j) of the original *)
Lemma tperm_cell n0 n1 i j : (i < n0)%nat -> (j < n1)%nat ->
  nth (j * n0 + i) (tperm n0 n1) 0%nat = (i * n1 + j)%nat.
Proof.
  intros Hi Hj. unfold tperm.
  rewrite (mg_nth_chunks 0%nat (fun j i => (i * n1 + j)%nat)) by assumption. reflexivity.
Qed.

(* the embeddings of real operands commute with the transposition *)
Lemma map_Some_transposeR n0 n1 (l : list R) : length l = (n0 * n1)%nat ->
  map Some (Product.transposeR n0 n1 l) = pv (tperm n0 n1) (map Some l).
Proof.
  intros L. rewrite transposeR_is_transposeL, transposeL_perm.
  apply (perm_map Some 0 (None : RV) _ (n0 * n1)); [apply is_perm_lt, tperm_is_perm|exact L].
Qed.

Lemma map_embS_transposeL n0 n1 (t : list (list R * R)) : length t = (n0 * n1)%nat ->
  map embS (transposeL ([], 0) n0 n1 t) = pc (tperm n0 n1) (map embS t).
Proof.
  intros L. rewrite transposeL_perm.
  apply (perm_map embS ([], 0) (([], None) : RS) _ (n0 * n1));
    [apply is_perm_lt, tperm_is_perm|exact L].
Qed.

Lemma map_Some_transposeL n0 n1 (l : list R) : length l = (n0 * n1)%nat ->
  map Some (Product.transposeR n0 n1 l) = transposeL (None : RV) n0 n1 (map Some l).
Proof. intros L. rewrite transposeL_perm. now apply map_Some_transposeR. Qed.

Lemma map_embS_transposeL' n0 n1 (t : list (list R * R)) : length t = (n0 * n1)%nat ->
  map embS (transposeL ([], 0) n0 n1 t) = transposeL (([], None) : RS) n0 n1 (map embS t).
Proof. intros L. rewrite (transposeL_perm (([], None) : RS)). now apply map_embS_transposeL. Qed.

(* ======================= B. invariance under the joint transposition, arbitrary operands *)
Section Transpose.
Variables (n0 n1 : nat).
Variables (bx ax : list RV) (ux : RV) (conds : list RS).
Hypothesis Lb : length bx = (n0 * n1)%nat.
Hypothesis La : length ax = (n0 * n1)%nat.
Hypothesis Lc : length conds = (n0 * n1)%nat.

Let tv := transposeL (None : RV) n0 n1.
Let tc := transposeL (([], None) : RS) n0 n1.

Lemma mbr_transpose eps ny : mbr (B:=FldR) eps ny (tv ax) (tc conds) = mbr eps ny ax conds.
Proof.
  unfold tv, tc. rewrite !transposeL_perm.
  apply (mbr_equivariant_x eps _ (n0 * n1)); auto using tperm_is_perm.
Qed.

Lemma deduce_of_transpose ay :
  deduce_of (B:=FldR) (tv bx, ux, tv ax) (tc conds) ay = deduce_of (bx, ux, ax) conds ay.
Proof.
  unfold tv, tc. rewrite !transposeL_perm.
  apply (deduce_of_equivariant_x _ (n0 * n1)); auto using tperm_is_perm.
Qed.

Lemma deduce_transpose eps ny :
  deduce (B:=FldR) eps ny (tv bx, ux, tv ax) (tc conds) = deduce eps ny (bx, ux, ax) conds.
Proof.
  unfold tv, tc. rewrite !transposeL_perm.
  apply (deduce_equivariant_x eps _ (n0 * n1)); auto using tperm_is_perm.
Qed.

Lemma deduce_with_transpose eps ny fb :
  deduce_with (B:=FldR) eps ny (tv bx, ux, tv ax) (tc conds) fb
  = deduce_with eps ny (bx, ux, ax) conds fb.
Proof.
  unfold tv, tc. rewrite !transposeL_perm.
  apply (deduce_with_equivariant_x eps _ (n0 * n1)); auto using tperm_is_perm.
Qed.
End Transpose.

(* ================================================================ C. parent order *)
Lemma inverseR_length eps cs ax ay : length (inverseR eps cs ax ay) = length ay.
Proof. unfold inverseR, invR. now rewrite map_length, seq_length. Qed.

(* the merged table has one row per joint value (the third guard condition is not needed) *)
Lemma mergeR_length eps c1 c2 ax1 ax2 ay : 0 <= eps <= 1/8 ->
  wf_conds c1 (length ay) -> wf_conds c2 (length ay) ->
  pos_dist ax1 -> pos_dist ax2 -> pos_dist ay ->
  length ax1 = length c1 -> length ax2 = length c2 ->
  guard_clear eps (m_ay eps ax1 c1 ay) -> guard_clear eps (m_ay eps ax2 c2 ay) ->
  length (mergeR eps c1 c2 ax1 ax2 ay) = (length ax1 * length ax2)%nat.
Proof.
  intros He Hc1 Hc2 H1 H2 Hy Hl1 Hl2 G1 G2. unfold mergeR. rewrite inverseR_length.
  apply (m_a12_wf eps He c1 c2 ax1 ax2 ay); assumption.
Qed.

Section ParentOrder.
Variable eps : R.
Hypothesis He : 0 <= eps <= 1/8.
Variable lab : bool.
Variables (c1 c2 : list (list R * R)) (ax1 ax2 ay : list R).
Hypothesis Hc1 : wf_conds c1 (length ay).
Hypothesis Hc2 : wf_conds c2 (length ay).
Hypothesis Hax1 : pos_dist ax1.
Hypothesis Hax2 : pos_dist ax2.
Hypothesis Hay : pos_dist ay.
Hypothesis Hl1 : length ax1 = length c1.
Hypothesis Hl2 : length ax2 = length c2.
Hypothesis G1 : guard_clear eps (m_ay eps ax1 c1 ay).
Hypothesis G2 : guard_clear eps (m_ay eps ax2 c2 ay).
(* the opinions on the two parents: any well-formed opinions (own base rates a1, a2) *)
Variables (b1 a1 b2 a2 : list R) (u1 u2 : R).
Hypothesis Hw1 : wf_opinion b1 u1 a1.
Hypothesis Hw2 : wf_opinion b2 u2 a2.
Hypothesis Lb1 : length b1 = length ax1.
Hypothesis Lb2 : length b2 = length ax2.
Variables (b a : list R) (u : R).
Hypothesis HP : Product.product2R b1 u1 a1 b2 u2 a2 = (b, u, a).

Let n1 := length ax1.
Let n2 := length ax2.
Let W1 : opinion (B:=FldR) := (map Some b1, Some u1, map Some a1).
Let W2 : opinion (B:=FldR) := (map Some b2, Some u2, map Some a2).
Let w12 : opinion (B:=FldR) := (map Some b, Some u, map Some a).
Let w21 : opinion (B:=FldR) :=
  (map Some (Product.transposeR n1 n2 b), Some u, map Some (Product.transposeR n1 n2 a)).
Let T12 : list (simplex (B:=FldR)) := map embS (mergeR eps c1 c2 ax1 ax2 ay).
Let T21 : list (simplex (B:=FldR)) := map embS (mergeR eps c2 c1 ax2 ax1 ay).
Let E1 := map embS c1.
Let E2 := map embS c2.
Let A1 := map Some ax1.
Let A2 := map Some ax2.
Let AY := map Some ay.

Lemma po_lengths : length b = (n1 * n2)%nat /\ length a = (n1 * n2)%nat.
Proof.
  destruct (Product.product2_spec eps b1 u1 a1 b2 u2 a2 b u a He Hw1 Hw2 HP)
    as (_ & (_ & _ & Lab) & Ea & _).
  assert (L : length a = (n1 * n2)%nat).
  { rewrite Ea, Product.outerR_length. unfold n1, n2.
    destruct Hw1 as (_ & _ & L1), Hw2 as (_ & _ & L2). congruence. }
  split; [congruence|exact L].
Qed.

Lemma po_products :
  product2 (B:=FldR) eps W1 W2 = Some w12 /\ product2 (B:=FldR) eps W2 W1 = Some w21 /\
  product2_lab (B:=FldR) W1 W2 = w12 /\ product2_lab (B:=FldR) W2 W1 = w21.
Proof.
  destruct (Product.product2_spec eps b1 u1 a1 b2 u2 a2 b u a He Hw1 Hw2 HP) as (E12 & _).
  destruct (Product.product2_lab_eq eps b1 u1 a1 b2 u2 a2 He Hw1 Hw2) as (_ & L12).
  destruct (Product.product2_transpose eps b1 u1 a1 b2 u2 a2 b u a He Hw1 Hw2 HP) as (_ & E21 & L21).
  cbv zeta in E21, L21. rewrite Lb1, Lb2 in E21, L21.
  repeat split; [exact E12|exact E21|exact (L12 b u a HP)|exact L21].
Qed.

Lemma po_tables :
  merge_cond2 (B:=FldR) eps lab E1 E2 A1 A2 AY = Some T12 /\
  merge_cond2 (B:=FldR) eps lab E2 E1 A2 A1 AY = Some T21 /\
  mergeR eps c2 c1 ax2 ax1 ay = transposeL ([], 0) n1 n2 (mergeR eps c1 c2 ax1 ax2 ay) /\
  length (mergeR eps c1 c2 ax1 ax2 ay) = (n1 * n2)%nat.
Proof.
  destruct (merge_transpose_lemma eps lab c1 c2 ax1 ax2 ay He Hc1 Hc2 Hax1 Hax2 Hay Hl1 Hl2 G1 G2)
    as (ET & E21 & E12 & _).
  cbv zeta in ET, E21. fold n1 n2 in ET, E21.
  repeat split; [exact E12| |exact ET|now apply mergeR_length].
  unfold T21. rewrite ET. exact E21.
Qed.

(* the exchanged operands are the renamed ones, for the renaming [tperm n1 n2] of X1 x X2 *)
Lemma po_renamed :
  is_perm (tperm n1 n2) (n1 * n2) /\ w21 = po (tperm n1 n2) w12 /\ T21 = pc (tperm n1 n2) T12.
Proof.
  destruct po_lengths as (Lb & La). destruct po_tables as (_ & _ & ET & LT).
  split; [apply tperm_is_perm|]. split.
  - unfold w21, w12, po. cbn [fst snd]. now rewrite !map_Some_transposeR.
  - unfold T21, T12. rewrite ET. now apply map_embS_transposeL.
Qed.

Lemma po_deduce_of ay' : deduce_of (B:=FldR) w21 T21 ay' = deduce_of w12 T12 ay'.
Proof.
  destruct po_lengths as (Lb & La). destruct po_tables as (_ & _ & _ & LT).
  destruct po_renamed as (Hs & -> & ->). unfold w12, po. cbn [fst snd].
  apply (deduce_of_equivariant_x _ (n1 * n2)); auto; unfold T12; now rewrite map_length.
Qed.

Lemma po_mbr eps' ny :
  mbr (B:=FldR) eps' ny (map Some (Product.transposeR n1 n2 a)) T21 = mbr eps' ny (map Some a) T12.
Proof.
  destruct po_lengths as (Lb & La). destruct po_tables as (_ & _ & _ & LT).
  destruct po_renamed as (Hs & _ & ->). rewrite map_Some_transposeR by exact La.
  apply (mbr_equivariant_x eps' _ (n1 * n2)); auto; unfold T12; now rewrite map_length.
Qed.

Lemma po_deduce eps' ny : deduce (B:=FldR) eps' ny w21 T21 = deduce eps' ny w12 T12.
Proof.
  destruct po_lengths as (Lb & La). destruct po_tables as (_ & _ & _ & LT).
  destruct po_renamed as (Hs & -> & ->). unfold w12, po. cbn [fst snd].
  apply (deduce_equivariant_x eps' _ (n1 * n2)); auto; unfold T12; now rewrite map_length.
Qed.

Lemma po_deduce_with eps' ny fb :
  deduce_with (B:=FldR) eps' ny w21 T21 fb = deduce_with eps' ny w12 T12 fb.
Proof.
  destruct po_lengths as (Lb & La). destruct po_tables as (_ & _ & _ & LT).
  destruct po_renamed as (Hs & -> & ->). unfold w12, po. cbn [fst snd].
  apply (deduce_with_equivariant_x eps' _ (n1 * n2)); auto; unfold T12; now rewrite map_length.
Qed.

(* explicit form: all operands and results named *)
Lemma deduce_parent_order_explicit :
  product2 (B:=FldR) eps W1 W2 = Some w12 /\ product2 (B:=FldR) eps W2 W1 = Some w21 /\
  product2_lab (B:=FldR) W1 W2 = w12 /\ product2_lab (B:=FldR) W2 W1 = w21 /\
  merge_cond2 (B:=FldR) eps lab E1 E2 A1 A2 AY = Some T12 /\
  merge_cond2 (B:=FldR) eps lab E2 E1 A2 A1 AY = Some T21 /\
  is_perm (tperm n1 n2) (n1 * n2) /\ w21 = po (tperm n1 n2) w12 /\ T21 = pc (tperm n1 n2) T12 /\
  (forall ay', deduce_of (B:=FldR) w21 T21 ay' = deduce_of w12 T12 ay') /\
  (forall eps' ny, mbr (B:=FldR) eps' ny (map Some (Product.transposeR n1 n2 a)) T21
                   = mbr eps' ny (map Some a) T12) /\
  (forall eps' ny, deduce (B:=FldR) eps' ny w21 T21 = deduce eps' ny w12 T12) /\
  (forall eps' ny fb, deduce_with (B:=FldR) eps' ny w21 T21 fb = deduce_with eps' ny w12 T12 fb).
Proof.
  destruct po_products as (P1 & P2 & P3 & P4). destruct po_tables as (M1 & M2 & _).
  destruct po_renamed as (R1 & R2 & R3).
  repeat (split; [assumption|]).
  split; [exact po_deduce_of|]. split; [exact po_mbr|]. split; [exact po_deduce|exact po_deduce_with].
Qed.
End ParentOrder.

(* Model-level form: nothing but the model functions applied to the embedded operands.  Both
   products and both merges are defined, and deducing through the exchanged pair gives the same
   result - for [deduce_of] with any consequent base rate [ay'] (any list of model numbers), for
   the marginal base rate [mbr] (any |Y|, any guard tolerance), and for [deduce]/[deduce_with]. *)
Definition parent_order_statement (eps : R) (w12 w21 : opinion (B:=FldR))
           (T12 T21 : list (simplex (B:=FldR))) : Prop :=
  (forall ay', deduce_of (B:=FldR) w21 T21 ay' = deduce_of w12 T12 ay') /\
  (forall eps' ny, mbr (B:=FldR) eps' ny (snd w21) T21 = mbr eps' ny (snd w12) T12) /\
  (forall eps' ny, deduce (B:=FldR) eps' ny w21 T21 = deduce eps' ny w12 T12) /\
  (forall eps' ny fb, deduce_with (B:=FldR) eps' ny w21 T21 fb = deduce_with eps' ny w12 T12 fb).

Lemma deduce_parent_order_lemma eps lab c1 c2 ax1 ax2 ay b1 u1 a1 b2 u2 a2 :
  0 <= eps <= 1/8 ->
  wf_conds c1 (length ay) -> wf_conds c2 (length ay) ->
  pos_dist ax1 -> pos_dist ax2 -> pos_dist ay ->
  length ax1 = length c1 -> length ax2 = length c2 ->
  guard_clear eps (m_ay eps ax1 c1 ay) -> guard_clear eps (m_ay eps ax2 c2 ay) ->
  wf_opinion b1 u1 a1 -> wf_opinion b2 u2 a2 -> length b1 = length ax1 -> length b2 = length ax2 ->
  let W1 : opinion (B:=FldR) := (map Some b1, Some u1, map Some a1) in
  let W2 : opinion (B:=FldR) := (map Some b2, Some u2, map Some a2) in
  match product2 (B:=FldR) eps W1 W2, product2 (B:=FldR) eps W2 W1,
        merge_cond2 (B:=FldR) eps lab (map embS c1) (map embS c2) (map Some ax1) (map Some ax2) (map Some ay),
        merge_cond2 (B:=FldR) eps lab (map embS c2) (map embS c1) (map Some ax2) (map Some ax1) (map Some ay)
  with
  | Some w12, Some w21, Some T12, Some T21 =>
      product2_lab (B:=FldR) W1 W2 = w12 /\ product2_lab (B:=FldR) W2 W1 = w21 /\
      parent_order_statement eps w12 w21 T12 T21
  | _, _, _, _ => False
  end.
Proof.
  intros He Hc1 Hc2 H1 H2 Hy Hl1 Hl2 G1 G2 Hw1 Hw2 Lb1 Lb2 W1 W2.
  destruct (Product.product2R b1 u1 a1 b2 u2 a2) as [[b u] a] eqn:HP.
  destruct (deduce_parent_order_explicit eps He lab c1 c2 ax1 ax2 ay Hc1 Hc2 H1 H2 Hy Hl1 Hl2 G1 G2
              b1 a1 b2 a2 u1 u2 Hw1 Hw2 Lb1 Lb2 b a u HP)
    as (P1 & P2 & P3 & P4 & M1 & M2 & _ & _ & _ & D1 & D2 & D3 & D4).
  unfold W1, W2. rewrite P1, P2, M1, M2.
  split; [exact P3|]. split; [exact P4|].
  unfold parent_order_statement. cbn [snd]. exact (conj D1 (conj D2 (conj D3 D4))).
Qed.

(* with the hypotheses of [merge_defined_wf] (all three guard conditions) *)
Lemma deduce_parent_order_guards eps lab c1 c2 ax1 ax2 ay b1 u1 a1 b2 u2 a2 :
  0 <= eps <= 1/8 ->
  wf_conds c1 (length ay) -> wf_conds c2 (length ay) ->
  pos_dist ax1 -> pos_dist ax2 -> pos_dist ay ->
  length ax1 = length c1 -> length ax2 = length c2 ->
  merge_guards eps c1 c2 ax1 ax2 ay ->
  wf_opinion b1 u1 a1 -> wf_opinion b2 u2 a2 -> length b1 = length ax1 -> length b2 = length ax2 ->
  let W1 : opinion (B:=FldR) := (map Some b1, Some u1, map Some a1) in
  let W2 : opinion (B:=FldR) := (map Some b2, Some u2, map Some a2) in
  match product2 (B:=FldR) eps W1 W2, product2 (B:=FldR) eps W2 W1,
        merge_cond2 (B:=FldR) eps lab (map embS c1) (map embS c2) (map Some ax1) (map Some ax2) (map Some ay),
        merge_cond2 (B:=FldR) eps lab (map embS c2) (map embS c1) (map Some ax2) (map Some ax1) (map Some ay)
  with
  | Some w12, Some w21, Some T12, Some T21 =>
      product2_lab (B:=FldR) W1 W2 = w12 /\ product2_lab (B:=FldR) W2 W1 = w21 /\
      parent_order_statement eps w12 w21 T12 T21
  | _, _, _, _ => False
  end.
Proof.
  intros He Hc1 Hc2 H1 H2 Hy Hl1 Hl2 (G1 & G2 & _). now apply deduce_parent_order_lemma.
Qed.

(* exact guards (eps = 0): no guard hypothesis at all *)
Lemma deduce_parent_order_exact lab c1 c2 ax1 ax2 ay b1 u1 a1 b2 u2 a2 :
  wf_conds c1 (length ay) -> wf_conds c2 (length ay) ->
  pos_dist ax1 -> pos_dist ax2 -> pos_dist ay ->
  length ax1 = length c1 -> length ax2 = length c2 ->
  wf_opinion b1 u1 a1 -> wf_opinion b2 u2 a2 -> length b1 = length ax1 -> length b2 = length ax2 ->
  let W1 : opinion (B:=FldR) := (map Some b1, Some u1, map Some a1) in
  let W2 : opinion (B:=FldR) := (map Some b2, Some u2, map Some a2) in
  match product2 (B:=FldR) 0 W1 W2, product2 (B:=FldR) 0 W2 W1,
        merge_cond2 (B:=FldR) 0 lab (map embS c1) (map embS c2) (map Some ax1) (map Some ax2) (map Some ay),
        merge_cond2 (B:=FldR) 0 lab (map embS c2) (map embS c1) (map Some ax2) (map Some ax1) (map Some ay)
  with
  | Some w12, Some w21, Some T12, Some T21 =>
      product2_lab (B:=FldR) W1 W2 = w12 /\ product2_lab (B:=FldR) W2 W1 = w21 /\
      parent_order_statement 0 w12 w21 T12 T21
  | _, _, _, _ => False
  end.
Proof.
  intros Hc1 Hc2 H1 H2 Hy Hl1 Hl2.
  apply deduce_parent_order_guards; try assumption; [lra|]. now apply merge_guards_exact.
Qed.

(* Definedness: with all three guard conditions the merged table is a table of well-formed
   conditionals, so (Facts/Deduce.v) the deduction is defined for every probability distribution
   ay' on Y; both orders return the SAME well-formed opinion (dedB, dedU, ay'). *)
Lemma deduce_parent_order_defined_lemma eps lab c1 c2 ax1 ax2 ay b1 u1 a1 b2 u2 a2 b u a ay' :
  0 <= eps <= 1/8 ->
  wf_conds c1 (length ay) -> wf_conds c2 (length ay) ->
  pos_dist ax1 -> pos_dist ax2 -> pos_dist ay ->
  length ax1 = length c1 -> length ax2 = length c2 ->
  merge_guards eps c1 c2 ax1 ax2 ay ->
  wf_opinion b1 u1 a1 -> wf_opinion b2 u2 a2 -> length b1 = length ax1 -> length b2 = length ax2 ->
  Product.product2R b1 u1 a1 b2 u2 a2 = (b, u, a) ->
  wf_dist ay' -> length ay' = length ay ->
  let n1 := length ax1 in let n2 := length ax2 in
  let M := mergeR eps c1 c2 ax1 ax2 ay in
  let bY := Deduce.dedB b u a M ay' in
  let uY := Deduce.dedU b a M ay' in
  merge_cond2 (B:=FldR) eps lab (map embS c1) (map embS c2) (map Some ax1) (map Some ax2) (map Some ay)
    = Some (map embS M) /\
  merge_cond2 (B:=FldR) eps lab (map embS c2) (map embS c1) (map Some ax2) (map Some ax1) (map Some ay)
    = Some (map embS (mergeR eps c2 c1 ax2 ax1 ay)) /\
  deduce_of (B:=FldR) (map Some b, Some u, map Some a) (map embS M) (map Some ay')
    = (map Some bY, Some uY, map Some ay') /\
  deduce_of (B:=FldR) (map Some (Product.transposeR n1 n2 b), Some u, map Some (Product.transposeR n1 n2 a))
            (map embS (mergeR eps c2 c1 ax2 ax1 ay)) (map Some ay')
    = (map Some bY, Some uY, map Some ay') /\
  wf_opinion bY uY ay'.
Proof.
  intros He Hc1 Hc2 H1 H2 Hy Hl1 Hl2 (G1 & G2 & G12) Hw1 Hw2 Lb1 Lb2 HP Hay' Lay' n1 n2 M bY uY.
  destruct (deduce_parent_order_explicit eps He lab c1 c2 ax1 ax2 ay Hc1 Hc2 H1 H2 Hy Hl1 Hl2 G1 G2
              b1 a1 b2 a2 u1 u2 Hw1 Hw2 Lb1 Lb2 b a u HP)
    as (_ & _ & _ & _ & M1 & M2 & _ & _ & _ & D1 & _).
  destruct (merge_wf eps He c1 c2 ax1 ax2 ay Hc1 Hc2 H1 H2 Hy Hl1 Hl2 G1 G2 G12) as (LM & WM).
  destruct (Product.product2_spec eps b1 u1 a1 b2 u2 a2 b u a He Hw1 Hw2 HP) as (_ & Wp & Ea & _).
  assert (LMa : length M = length a).
  { unfold M. rewrite LM, Ea, Product.outerR_length.
    destruct Hw1 as (_ & _ & L1), Hw2 as (_ & _ & L2). congruence. }
  destruct (Deduce.deduce_of_spec_full b u a M ay' (length ay) Wp WM LMa Hay' Lay') as (E & Ws & Lb & _).
  fold n1 n2 in D1. fold M in D1, M1.
  change (map Deduce.condV M) with (map embS M) in E. fold bY uY in E, Ws, Lb.
  split; [exact M1|]. split; [exact M2|]. split; [exact E|]. split; [rewrite D1; exact E|].
  split; [exact Ws|]. split; [exact Hay'|]. congruence.
Qed.

(* ============================================ D. three-factor products (C15, complement) *)
(* the three-factor outer product is the iterated two-factor one *)
Lemma outer3_outer (l0 l1 l2 : list RV) : outer3 l0 l1 l2 = outer (outer l0 l1) l2.
Proof.
  unfold outer3, outer. induction l0 as [|x l0 IH]; cbn [flat_map]; [reflexivity|].
  rewrite flat_map_app, <- IH. f_equal. rewrite flat_map_map'. reflexivity.
Qed.

Lemma outer3_length (l0 l1 l2 : list RV) :
  length (outer3 l0 l1 l2) = (length l0 * length l1 * length l2)%nat.
Proof. now rewrite outer3_outer, !outer_length. Qed.

(* renaming induced on the row-major flattening of a three-fold joint domain: position
   (i * n1 + j) * n2 + k for i in s0, j in s1, k in s2 *)
Definition iperm3 (s0 s1 s2 : list nat) (n1 n2 : nat) : list nat :=
  flat_map (fun i => flat_map (fun j => map (fun k => ((i * n1 + j) * n2 + k)%nat) s2) s1) s0.

Lemma iperm3_iperm s0 s1 s2 n1 n2 : iperm3 s0 s1 s2 n1 n2 = iperm (iperm s0 s1 n1) s2 n2.
Proof.
  unfold iperm3, iperm. induction s0 as [|i s0 IH]; cbn [flat_map]; [reflexivity|].
  rewrite flat_map_app, <- IH. f_equal. rewrite flat_map_map'. reflexivity.
Qed.

Lemma iperm3_is_perm s0 n0 s1 n1 s2 n2 :
  is_perm s0 n0 -> is_perm s1 n1 -> is_perm s2 n2 ->
  is_perm (iperm3 s0 s1 s2 n1 n2) (n0 * n1 * n2).
Proof. intros H0 H1 H2. rewrite iperm3_iperm. auto using iperm_is_perm. Qed.

Lemma outer3_equivariant s0 n0 s1 n1 s2 n2 (l0 l1 l2 : list RV) :
  is_perm s0 n0 -> is_perm s1 n1 -> is_perm s2 n2 ->
  length l0 = n0 -> length l1 = n1 -> length l2 = n2 ->
  outer3 (pv s0 l0) (pv s1 l1) (pv s2 l2) = pv (iperm3 s0 s1 s2 n1 n2) (outer3 l0 l1 l2).
Proof.
  intros H0 H1 H2 L0 L1 L2. rewrite !outer3_outer, iperm3_iperm.
  rewrite (outer_equivariant s0 n0 s1 n1) by auto using is_perm_lt.
  apply (outer_equivariant (iperm s0 s1 n1) (n0 * n1) s2 n2);
    auto using is_perm_lt, iperm_is_perm. rewrite outer_length. congruence.
Qed.

Section Product3.
Variable eps : R.
Variables (s0 s1 s2 : list nat) (n0 n1 n2 : nat).
Hypothesis (H0 : is_perm s0 n0) (H1 : is_perm s1 n1) (H2 : is_perm s2 n2).
Variables (b0 a0 b1 a1 b2 a2 : list RV) (u0 u1 u2 : RV).
Hypothesis (Lb0 : length b0 = n0) (La0 : length a0 = n0) (Lb1 : length b1 = n1) (La1 : length a1 = n1)
           (Lb2 : length b2 = n2) (La2 : length a2 = n2).

Let r := iperm3 s0 s1 s2 n1 n2.
Let N := (n0 * n1 * n2)%nat.
Let Hr : is_perm r N := iperm3_is_perm _ _ _ _ _ _ H0 H1 H2.

Lemma product3_operands :
  outer3 (projection (pv s0 b0) u0 (pv s0 a0)) (projection (pv s1 b1) u1 (pv s1 a1))
         (projection (pv s2 b2) u2 (pv s2 a2))
    = pv r (outer3 (projection b0 u0 a0) (projection b1 u1 a1) (projection b2 u2 a2)) /\
  outer3 (pv s0 b0) (pv s1 b1) (pv s2 b2) = pv r (outer3 b0 b1 b2) /\
  outer3 (pv s0 a0) (pv s1 a1) (pv s2 a2) = pv r (outer3 a0 a1 a2).
Proof.
  rewrite (projection_equivariant s0 n0), (projection_equivariant s1 n1),
          (projection_equivariant s2 n2) by auto.
  repeat split; apply (outer3_equivariant s0 n0 s1 n1 s2 n2); auto using projection_length.
Qed.

Let p := outer3 (projection b0 u0 a0) (projection b1 u1 a1) (projection b2 u2 a2).

Lemma product3_lengths :
  length p = N /\ length (outer3 b0 b1 b2) = N /\ length (outer3 a0 a1 a2) = N.
Proof.
  unfold p, N. rewrite !outer3_length, (projection_length n0), (projection_length n1),
    (projection_length n2) by auto. repeat split; congruence.
Qed.

Lemma product3_equivariant :
  product3 (B:=FldR) eps (pv s0 b0, u0, pv s0 a0) (pv s1 b1, u1, pv s1 a1) (pv s2 b2, u2, pv s2 a2)
  = option_map (po r) (product3 (B:=FldR) eps (b0, u0, a0) (b1, u1, a1) (b2, u2, a2)).
Proof.
  unfold product3. destruct product3_operands as (Ep & Eb & Ea). rewrite Ep, Eb, Ea. fold p.
  destruct product3_lengths as (Lp & Lbb & Laa).
  rewrite (product_core_equivariant r N) by auto.
  pose proof (product_core_length p (outer3 b0 b1 b2) (outer3 a0 a1 a2) _ Lp Laa) as Lc.
  destruct (product_core p (outer3 b0 b1 b2) (outer3 a0 a1 a2)) as [b u]. cbn [fst snd] in *.
  rewrite (check_simplex_invariant eps r N), (check_base_rate_invariant eps r N) by auto.
  destruct (_ && _); reflexivity.
Qed.

Lemma product3_lab_equivariant :
  product3_lab (B:=FldR) (pv s0 b0, u0, pv s0 a0) (pv s1 b1, u1, pv s1 a1) (pv s2 b2, u2, pv s2 a2)
  = po r (product3_lab (b0, u0, a0) (b1, u1, a1) (b2, u2, a2)).
Proof.
  unfold product3_lab. destruct product3_operands as (Ep & Eb & Ea). rewrite Ep, Eb, Ea. fold p.
  destruct product3_lengths as (Lp & Lbb & Laa).
  rewrite (product_core_equivariant r N) by auto.
  destruct (product_core p (outer3 b0 b1 b2) (outer3 a0 a1 a2)) as [b u]. cbn [fst snd] in *.
  rewrite (normalize_dist_equivariant r N) by auto. reflexivity.
Qed.
End Product3.

(* ===================================================================== examples *)
(* Real operands: parents X1 (2 values, the table [Merge.ex_c1]) and X2 (3 values), |Y| = 3,
   so that the joint domain 2 x 3 is not square and the transposition is not an involution of
   the index set. *)
Definition ex3_c2 : list (list R * R) :=
  [([5/16; 5/16; 3/16], 3/16); ([3/16; 13/16; 0], 0); ([4/16; 4/16; 4/16], 4/16)].
Definition ex3_ax2 : list R := [4/16; 6/16; 6/16].

Lemma ex_parent_order_operands :
  wf_conds ex_c1 (length ex_ay) /\ wf_conds ex3_c2 (length ex_ay) /\
  pos_dist ex_ax1 /\ pos_dist ex3_ax2 /\ pos_dist ex_ay /\
  length ex_ax1 = length ex_c1 /\ length ex3_ax2 = length ex3_c2 /\
  merge_guards 0 ex_c1 ex3_c2 ex_ax1 ex3_ax2 ex_ay /\
  wf_opinion [1/2; 1/4] (1/4) [1/2; 1/2] /\ wf_opinion [1/4; 1/4; 1/4] (1/4) [1/4; 1/4; 1/2] /\
  length [1/2; 1/4] = length ex_ax1 /\ length [1/4; 1/4; 1/4] = length ex3_ax2.
Proof.
  assert (H : wf_conds ex_c1 (length ex_ay) /\ wf_conds ex3_c2 (length ex_ay) /\
              pos_dist ex_ax1 /\ pos_dist ex3_ax2 /\ pos_dist ex_ay /\
              length ex_ax1 = length ex_c1 /\ length ex3_ax2 = length ex3_c2).
  { unfold wf_conds, pos_dist, wf_simplex, nonneg, ex_c1, ex3_c2, ex_ax1, ex3_ax2, ex_ay.
    repeat split; try (repeat constructor; cbn [fst snd Rsum]; lra); cbn [fst snd Rsum]; try lra. }
  destruct H as (H1 & H2 & H3 & H4 & H5 & H6 & H7).
  repeat (split; [assumption|]). split; [now apply merge_guards_exact|].
  unfold wf_opinion, wf_simplex, wf_dist, nonneg.
  repeat split; try (repeat constructor; lra); cbn [Rsum]; lra.
Qed.

Lemma ex_tperm : (tperm 2 3 = [0; 3; 1; 4; 2; 5])%nat /\ is_perm (tperm 2 3) 6.
Proof. split; [reflexivity|apply (tperm_is_perm 2 3)]. Qed.

Lemma ex_iperm3 :
  (iperm3 [1; 0] [2; 0; 1] [1; 0] 3 2 = [11; 10; 7; 6; 9; 8; 5; 4; 1; 0; 3; 2])%nat.
Proof. reflexivity. Qed.

(* the same operands on the executable rational instance of the same model: both products and
   both merges are defined, the exchanged operands really differ, the deduced opinions agree
   (and are not trivial: all three belief masses and the uncertainty are non-zero) *)
From Coq Require QArith.
From SL Require Model.InstQ.
Section ExampleQ.
Import QArith.
Import InstQ.
Local Open Scope Q_scope.
Let SQ (q : Q) : @V FldQ := Some q.
Let qc1 : list (@simplex FldQ) :=
  [([SQ (5#16); SQ 0; SQ (11#16)], SQ 0); ([SQ (6#16); SQ (6#16); SQ (4#16)], SQ 0)].
Let qc2 : list (@simplex FldQ) :=
  [([SQ (5#16); SQ (5#16); SQ (3#16)], SQ (3#16)); ([SQ (3#16); SQ (13#16); SQ 0], SQ 0);
   ([SQ (4#16); SQ (4#16); SQ (4#16)], SQ (4#16))].
Let qa1 := [SQ (9#16); SQ (7#16)].
Let qa2 := [SQ (4#16); SQ (6#16); SQ (6#16)].
Let qay := [SQ (7#16); SQ (5#16); SQ (4#16)].
Let qW1 : @opinion FldQ := ([SQ (1#2); SQ (1#4)], SQ (1#4), [SQ (1#2); SQ (1#2)]).
Let qW2 : @opinion FldQ :=
  ([SQ (1#4); SQ (1#4); SQ (1#4)], SQ (1#4), [SQ (1#4); SQ (1#4); SQ (1#2)]).

Lemma ex_parent_order_Q :
  exists w12 w21 T12 T21 r,
    @product2 FldQ 0 qW1 qW2 = Some w12 /\ @product2 FldQ 0 qW2 qW1 = Some w21 /\
    @merge_cond2 FldQ 0 false qc1 qc2 qa1 qa2 qay = Some T12 /\
    @merge_cond2 FldQ 0 false qc2 qc1 qa2 qa1 qay = Some T21 /\
    fst (fst w12) = [SQ (5#32); SQ (5#32); SQ (5#32); SQ (5#64); SQ (5#64); SQ (1#16)] /\
    fst (fst w21) = [SQ (5#32); SQ (5#64); SQ (5#32); SQ (5#64); SQ (5#32); SQ (1#16)] /\
    nth 1 T12 ([], None) = ([SQ 0; SQ 0; SQ 0], SQ 1) /\
    nth 2 T21 ([], None) = ([SQ 0; SQ 0; SQ 0], SQ 1) /\
    @deduce FldQ 0 3 w12 T12 = Some r /\ @deduce FldQ 0 3 w21 T21 = Some r /\
    snd (fst r) = SQ (153305319155488369497 # 280935314068876321504).
Proof.
  eexists _, _, _, _, _.
  do 10 (split; [vm_compute; reflexivity|]). vm_compute; reflexivity.
Qed.
End ExampleQ.
