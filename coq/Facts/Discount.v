(* C10: trust discounting (multinomial) and the three binomial discounts. *)
From Coq Require Import Reals List Bool Lra Lia.
Import ListNotations.
From SL Require Import Model.Num Model.Vec Model.Mul Model.Bi Model.InstR Facts.RBase.
Open Scope R_scope.

Section Discount.
Variable eps : R.
Hypothesis eps_range : 0 <= eps <= 1/8.

(* what the operator computes on defined operands *)
Lemma discount_eval (b : list R) (u t : R) :
  discount (B:=FldR) eps (map Some b) (Some u) (Some t) =
  if is_one (B:=FldR) eps (Some u)
  then (map Some (map (fun _ => 0) b), Some 1)
  else (map Some (map (fun x => x * t) b), Some (1 - t * (1 - u))).
Proof.
  unfold discount. destruct (is_one (B:=FldR) eps (Some u)).
  - rewrite map_map. f_equal. rewrite map_map. reflexivity.
  - f_equal. apply map_some. intros a; reflexivity.
Qed.

(* the result as real numbers *)
Definition discountR (b : list R) (u t : R) : list R * R :=
  if is_one (B:=FldR) eps (Some u) then (map (fun _ => 0) b, 1)
  else (map (fun x => x * t) b, 1 - t * (1 - u)).

Lemma discount_defined b u t :
  discount (B:=FldR) eps (map Some b) (Some u) (Some t) =
  (map Some (fst (discountR b u t)), Some (snd (discountR b u t))).
Proof. rewrite discount_eval. unfold discountR. destruct (is_one _ _); reflexivity. Qed.

Lemma nonneg_scale t l : 0 <= t -> nonneg l -> nonneg (map (fun x => x * t) l).
Proof.
  intros Ht H; induction H; cbn; constructor; auto. apply Rmult_le_pos; assumption.
Qed.
Lemma nonneg_zeros {X} (l : list X) : nonneg (map (fun _ => 0) l).
Proof. induction l; cbn; constructor; auto; lra. Qed.

Lemma discount_wf b u t :
  wf_simplex b u -> 0 <= t <= 1 ->
  wf_simplex (fst (discountR b u t)) (snd (discountR b u t)).
Proof.
  intros (Hb & Hu & Hs) Ht. unfold discountR.
  destruct (is_one (B:=FldR) eps (Some u)); cbn [fst snd].
  - split; [apply nonneg_zeros|]. rewrite Rsum_zeros. lra.
  - split; [apply nonneg_scale; tauto|]. rewrite Rsum_map_mul_r.
    pose proof (Rsum_nonneg b Hb). split; [nra|]. replace (Rsum b) with (1 - u) by lra. lra.
Qed.

(* exact formulas whenever the vacuous shortcut is not taken (in particular for
   every u < 1 - 2 eps, and for every u < 1 when eps = 0) *)
Lemma discount_exact b u t :
  u < 1 - 2 * eps ->
  discountR b u t = (map (fun x => x * t) b, 1 - t * (1 - u)).
Proof.
  intros H. unfold discountR.
  assert (E : is_one (B:=FldR) eps (Some u) = false) by (apply is_one_some_false; lra).
  rewrite E; reflexivity.
Qed.

(* in the shortcut the deviation from the formulas is at most 2 eps *)
Lemma Forall2_map_l {X Y} (P : Y -> X -> Prop) (f : X -> Y) l :
  (forall x, In x l -> P (f x) x) -> Forall2 P (map f l) l.
Proof. induction l; cbn; intros H; constructor; auto. Qed.

Lemma discount_close b u t :
  wf_simplex b u -> 0 <= t <= 1 ->
  Forall2 (fun y x => Rabs (y - x * t) <= 2 * eps) (fst (discountR b u t)) b /\
  Rabs (snd (discountR b u t) - (1 - t * (1 - u))) <= 2 * eps.
Proof.
  intros Hwf Ht. unfold discountR.
  destruct (is_one (B:=FldR) eps (Some u)) eqn:E; cbn [fst snd].
  - apply is_one_some in E. destruct Hwf as (Hb & Hu & Hs).
    pose proof (Rsum_nonneg b Hb) as Hsb.
    split.
    + apply Forall2_map_l. intros x Hx.
      pose proof (Rsum_le_elem b x Hb Hx).
      unfold nonneg in Hb; rewrite Forall_forall in Hb. specialize (Hb x Hx).
      apply Rabs_le. nra.
    + apply Rabs_le. nra.
  - split.
    + apply Forall2_map_l. intros x _. replace (x * t - x * t) with 0 by lra. rewrite Rabs_R0. lra.
    + replace (1 - t * (1 - u) - (1 - t * (1 - u))) with 0 by lra. rewrite Rabs_R0. lra.
Qed.

(* projected probability: P' = t P + (1 - t) a  (outside the shortcut) *)
Lemma discount_projection_entry (bi ai u t : R) :
  bi * t + ai * (1 - t * (1 - u)) = t * (bi + ai * u) + (1 - t) * ai.
Proof. lra. Qed.

Lemma discount_one b u : discountR b u 1 =
  if is_one (B:=FldR) eps (Some u) then (map (fun _ => 0) b, 1) else (b, u).
Proof.
  unfold discountR. destruct (is_one (B:=FldR) eps (Some u)); [reflexivity|].
  f_equal; [|lra]. rewrite <- (map_id b) at 2. apply map_ext. intros; lra.
Qed.

Lemma discount_zero b u : discountR b u 0 = (map (fun _ => 0) b, 1).
Proof.
  unfold discountR. destruct (is_one (B:=FldR) eps (Some u)); [reflexivity|].
  f_equal; [|lra]. apply map_ext. intros; lra.
Qed.

Lemma discount_vacuous b t : discountR b 1 t = (map (fun _ => 0) b, 1).
Proof.
  unfold discountR.
  assert (E : is_one (B:=FldR) eps (Some 1) = true) by (apply is_one_some; lra).
  rewrite E; reflexivity.
Qed.

End Discount.

(* composition: at eps = 0 discounting by t1 then t2 is discounting by t1 * t2 *)
Lemma discount_compose b u t1 t2 :
  wf_simplex b u -> 0 <= t1 <= 1 -> 0 <= t2 <= 1 ->
  let r1 := discountR 0 b u t1 in
  discountR 0 (fst r1) (snd r1) t2 = discountR 0 b u (t1 * t2).
Proof.
  intros Hwf H1 H2 r1. subst r1. unfold discountR.
  destruct (is_one (B:=FldR) 0 (Some u)) eqn:E; cbn [fst snd].
  - assert (E1 : is_one (B:=FldR) 0 (Some 1) = true) by (apply is_one_some; lra).
    rewrite E1. rewrite map_map. reflexivity.
  - apply is_one_some_false in E.
    pose proof (wf_simplex_u_le1 _ _ Hwf) as Hu1.
    destruct (is_one (B:=FldR) 0 (Some (1 - t1 * (1 - u)))) eqn:E2.
    + apply is_one_some in E2. assert (Ht : t1 = 0) by nra. subst t1.
      f_equal; [|lra]. rewrite map_map. apply map_ext; intros; lra.
    + f_equal; [|lra]. rewrite map_map. apply map_ext; intros; lra.
Qed.

(* chains of any length: folding discounts over a list of trust levels *)
Fixpoint Rprod (l : list R) : R := match l with [] => 1 | x :: r => x * Rprod r end.

Lemma Rprod_range l : Forall (fun t => 0 <= t <= 1) l -> 0 <= Rprod l <= 1.
Proof. induction 1; cbn; nra. Qed.

Lemma discount_chain ts : forall b u,
  wf_simplex b u -> Forall (fun t => 0 <= t <= 1) ts -> ts <> [] ->
  fold_left (fun s t => discountR 0 (fst s) (snd s) t) ts (b, u) = discountR 0 b u (Rprod ts).
Proof.
  induction ts as [|t ts IH]; intros b u Hwf Hts Hne; [contradiction|].
  inversion Hts as [|? ? Ht Hts']; subst. cbn [fold_left fst snd Rprod].
  destruct ts as [|t' ts].
  - cbn. f_equal. lra.
  - assert (Hwf1 := discount_wf 0 ltac:(lra) b u t Hwf Ht).
    destruct (discountR 0 b u t) as [b1 u1] eqn:E1. cbn [fst snd] in *.
    rewrite IH; auto; [|discriminate].
    pose proof (discount_compose b u t (Rprod (t' :: ts)) Hwf Ht (Rprod_range _ Hts')) as Hc.
    cbn zeta in Hc. rewrite E1 in Hc. cbn [fst snd] in Hc. exact Hc.
Qed.

(* ------------------------------------------------------------ binomial *)
Section BinomialDiscount.
Variable eps : R.
Hypothesis eps_range : 0 <= eps <= 1/8.

Definition wf_bop (b d u a : R) : Prop :=
  0 <= b /\ 0 <= d /\ 0 <= u /\ b + d + u = 1 /\ 0 <= a <= 1.

Definition bopR (b d u a : R) : bop (B:=FldR) :=
  mkbop (B:=FldR) (Some b) (Some d) (Some u) (Some a).

Lemma btry_new_ok (b d u a : R) :
  wf_bop b d u a ->
  btry_new (B:=FldR) eps (Some b) (Some d) (Some u) (Some a) =
  Some (bopR b d u a).
Proof.
  intros (Hb & Hd & Hu & Hs & Ha). unfold btry_new, bcheck_simplex.
  rewrite !add_some.
  assert (E1 : in_unit (B:=FldR) eps (Some a) = true) by (apply in_unit_some; lra).
  assert (E2 : is_one (B:=FldR) eps (Some (b + d + u)) = true) by (apply is_one_some; lra).
  assert (E3 : in_unit (B:=FldR) eps (Some b) = true) by (apply in_unit_some; lra).
  assert (E4 : in_unit (B:=FldR) eps (Some d) = true) by (apply in_unit_some; lra).
  assert (E5 : in_unit (B:=FldR) eps (Some u) = true) by (apply in_unit_some; lra).
  rewrite E1, E2, E3, E4, E5. reflexivity.
Qed.

(* uncertainty-favouring discount = multinomial discount on the binary domain *)
Lemma btrans_unc_spec b d u a t :
  wf_bop b d u a -> 0 <= t <= 1 ->
  btrans_unc (B:=FldR) eps (bopR b d u a) (Some t) = Some (bopR (t * b) (t * d) (1 - t * (1 - u)) a) /\
  wf_bop (t * b) (t * d) (1 - t * (1 - u)) a.
Proof.
  intros Hwf Ht. assert (Hwf' : wf_bop (t * b) (t * d) (1 - t * (1 - u)) a).
  { destruct Hwf as (Hb & Hd & Hu & Hs & Ha). repeat split; try nra. }
  split; [|exact Hwf'].
  unfold btrans_unc, bopR; cbn [bb bd bu ba].
  assert (E : in_unit (B:=FldR) eps (Some t) = true) by (apply in_unit_some; lra).
  rewrite E. rsimpl.
  replace (1 - t + t * u) with (1 - t * (1 - u)) by lra.
  apply btry_new_ok; exact Hwf'.
Qed.

(* base-rate sensitive discount agrees with it as well: 1 - ev (b + d) = 1 - ev (1 - u) *)
Lemma btrans_bsr_spec b d u a t :
  wf_bop b d u a -> 0 <= t <= 1 ->
  btrans_bsr (B:=FldR) eps (bopR b d u a) (Some t) = Some (bopR (t * b) (t * d) (1 - t * (1 - u)) a).
Proof.
  intros Hwf Ht. assert (Hwf' : wf_bop (t * b) (t * d) (1 - t * (1 - u)) a).
  { destruct Hwf as (Hb & Hd & Hu & Hs & Ha). repeat split; try nra. }
  unfold btrans_bsr, bopR; cbn [bb bd bu ba].
  assert (E : in_unit (B:=FldR) eps (Some t) = true) by (apply in_unit_some; lra).
  rewrite E. rsimpl.
  replace (1 - t * (b + d)) with (1 - t * (1 - u)) by (destruct Hwf as (_ & _ & _ & Hs & _); nra).
  apply btry_new_ok; exact Hwf'.
Qed.

(* opposite-belief discount *)
Lemma btrans_opp_spec b d u a t s :
  wf_bop b d u a -> 0 <= t -> 0 <= s -> t + s <= 1 ->
  btrans_opp (B:=FldR) eps (bopR b d u a) (Some t) (Some s) =
    Some (bopR (t * b + s * d) (t * d + s * b) (1 - (t + s) * (1 - u)) a) /\
  wf_bop (t * b + s * d) (t * d + s * b) (1 - (t + s) * (1 - u)) a.
Proof.
  intros Hwf Ht Hs Hts.
  assert (Hwf' : wf_bop (t * b + s * d) (t * d + s * b) (1 - (t + s) * (1 - u)) a).
  { destruct Hwf as (Hb & Hd & Hu & Hsum & Ha). repeat split; try nra. }
  split; [|exact Hwf'].
  unfold btrans_opp, bopR; cbn [bb bd bu ba].
  rsimpl.
  assert (E : in_unit (B:=FldR) eps (Some (1 - t - s)) = true) by (apply in_unit_some; lra).
  rewrite E. rsimpl.
  replace (1 - t - s + (t + s) * u) with (1 - (t + s) * (1 - u)) by lra.
  apply btry_new_ok; exact Hwf'.
Qed.

End BinomialDiscount.
