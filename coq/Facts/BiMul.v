(* C12: binomial multiplication (AND) and comultiplication (OR). *)
From Coq Require Import Reals List Bool Lra Lia.
Import ListNotations.
From SL Require Import Model.Num Model.Vec Model.Mul Model.Bi Model.InstR Facts.RBase Facts.Discount.
Open Scope R_scope.

(* ------------------------------------------------------------------ *)
(* real-valued result functions, written exactly as the model computes *)

(* divisor of [bmul]: 1 - ax ay, evaluated as (1 - ax) + ax (1 - ay) *)
Definition mul_ra (ax ay : R) : R := (1 - ax) + ax * (1 - ay).

Definition mulB (bx ux ax by_ uy ay : R) : R :=
  bx * by_ + ((1 - ax) * ay * bx * uy + (1 - ay) * ax * by_ * ux) / mul_ra ax ay.
Definition mulD (dx dy : R) : R := dx + dy - dx * dy.
Definition mulU (bx ux ax by_ uy ay : R) : R :=
  ux * uy + ((1 - ay) * bx * uy + (1 - ax) * by_ * ux) / mul_ra ax ay.

(* divisor of [bcomul]: the result base rate ax + ay - ax ay *)
Definition comul_a (ax ay : R) : R := ax + ay - ax * ay.

Definition comulB (bx by_ : R) : R := bx + by_ - bx * by_.
Definition comulD (dx ux ax dy uy ay : R) : R :=
  dx * dy + (ax * (1 - ay) * dx * uy + ay * (1 - ax) * dy * ux) / comul_a ax ay.
Definition comulU (dx ux ax dy uy ay : R) : R :=
  ux * uy + (ay * dx * uy + ax * dy * ux) / comul_a ax ay.

Lemma mul_ra_eq ax ay : mul_ra ax ay = 1 - ax * ay.
Proof. unfold mul_ra; ring. Qed.

(* negation of a binomial opinion: swap belief and disbelief, complement the base rate *)
Definition bneg (w : bop (B:=FldR)) : bop (B:=FldR) :=
  mkbop (B:=FldR) (bd w) (bb w) (bu w) (sub (B:=FldR) (one (B:=FldR)) (ba w)).

Lemma bneg_bopR b d u a : bneg (bopR b d u a) = bopR d b u (1 - a).
Proof. reflexivity. Qed.

Lemma wf_bop_neg b d u a : wf_bop b d u a -> wf_bop d b u (1 - a).
Proof. unfold wf_bop; intros (Hb & Hd & Hu & Hs & Ha). repeat split; lra. Qed.

(* ------------------------------------------------------------------ *)
(* small helpers *)

Lemma div_none_zero (a b : R) : b = 0 -> div (B:=FldR) (Some a) (Some b) = None.
Proof. intros ->. apply div_zero. Qed.

Lemma div_nonneg (a b : R) : 0 <= a -> 0 < b -> 0 <= a / b.
Proof.
  intros Ha Hb. unfold Rdiv. apply Rmult_le_pos; [exact Ha|].
  left. apply Rinv_0_lt_compat. exact Hb.
Qed.

Lemma prod_lt_1 (a b : R) : 0 <= a <= 1 -> 0 <= b <= 1 -> a * b <> 1 -> a * b < 1.
Proof. intros Ha Hb Hne. assert (a * b <= 1) by nra. lra. Qed.

Lemma prod_ne_1_iff (a b : R) : 0 <= a <= 1 -> 0 <= b <= 1 -> (a * b <> 1 <-> (a < 1 \/ b < 1)).
Proof.
  intros Ha Hb. split.
  - intros Hne. destruct (Rlt_dec a 1) as [|Hn]; [left; assumption|].
    right. assert (a = 1) by lra. subst a. lra.
  - intros [H|H]; nra.
Qed.

Lemma coprod_ne_0_iff (a b : R) : 0 <= a <= 1 -> 0 <= b <= 1 ->
  (a + b - a * b <> 0 <-> (0 < a \/ 0 < b)).
Proof.
  intros Ha Hb. split.
  - intros Hne. destruct (Rlt_dec 0 a) as [|Hn]; [left; assumption|].
    right. assert (a = 0) by lra. subst a. lra.
  - intros [H|H]; nra.
Qed.

Lemma btry_new_none_b eps (d u a : RV) : btry_new (B:=FldR) eps None d u a = None.
Proof.
  unfold btry_new, bcheck_simplex.
  destruct (in_unit eps a); cbn [andb]; [|reflexivity].
  destruct d, u; reflexivity.
Qed.
Lemma btry_new_none_d eps (b u a : RV) : btry_new (B:=FldR) eps b None u a = None.
Proof.
  unfold btry_new, bcheck_simplex.
  destruct (in_unit eps a); cbn [andb]; [|reflexivity].
  destruct b, u; reflexivity.
Qed.

(* ------------------------------------------------------------------ *)
(* evaluation of the model on defined operands *)
Section Eval.
Variable eps : R.

Lemma bmul_eval bx dx ux ax by_ dy uy ay :
  mul_ra ax ay <> 0 ->
  bmul (B:=FldR) eps (bopR bx dx ux ax) (bopR by_ dy uy ay) =
  btry_new (B:=FldR) eps (Some (mulB bx ux ax by_ uy ay)) (Some (mulD dx dy))
           (Some (mulU bx ux ax by_ uy ay)) (Some (ax * ay)).
Proof.
  intros Hra. unfold bmul, bopR; cbn [bb bd bu ba]. rsimpl.
  fold (mul_ra ax ay). rewrite !div_some by exact Hra. rsimpl. reflexivity.
Qed.

Lemma bmul_eval_none bx dx ux ax by_ dy uy ay :
  mul_ra ax ay = 0 ->
  bmul (B:=FldR) eps (bopR bx dx ux ax) (bopR by_ dy uy ay) = None.
Proof.
  intros Hra. unfold bmul, bopR; cbn [bb bd bu ba]. rsimpl.
  fold (mul_ra ax ay). rewrite !div_none_zero by exact Hra.
  cbn [add lift2]. apply btry_new_none_b.
Qed.

Lemma bcomul_eval bx dx ux ax by_ dy uy ay :
  comul_a ax ay <> 0 ->
  bcomul (B:=FldR) eps (bopR bx dx ux ax) (bopR by_ dy uy ay) =
  btry_new (B:=FldR) eps (Some (comulB bx by_)) (Some (comulD dx ux ax dy uy ay))
           (Some (comulU dx ux ax dy uy ay)) (Some (comul_a ax ay)).
Proof.
  intros Ha. unfold bcomul, bopR; cbn [bb bd bu ba]. rsimpl.
  fold (comul_a ax ay). rewrite !div_some by exact Ha. rsimpl. reflexivity.
Qed.

Lemma bcomul_eval_none bx dx ux ax by_ dy uy ay :
  comul_a ax ay = 0 ->
  bcomul (B:=FldR) eps (bopR bx dx ux ax) (bopR by_ dy uy ay) = None.
Proof.
  intros Ha. unfold bcomul, bopR; cbn [bb bd bu ba]. rsimpl.
  fold (comul_a ax ay). rewrite !div_none_zero by exact Ha.
  cbn [add lift2]. apply btry_new_none_d.
Qed.

End Eval.

(* ------------------------------------------------------------------ *)
(* algebra of the result functions *)

(* b + u = (1 - dx)(1 - dy)  when written with bx + ux *)
Lemma mul_bu_sum bx ux ax by_ uy ay : mul_ra ax ay <> 0 ->
  mulB bx ux ax by_ uy ay + mulU bx ux ax by_ uy ay = (bx + ux) * (by_ + uy).
Proof. intros H. unfold mulB, mulU. unfold mul_ra in *. field. exact H. Qed.

Lemma mul_projection bx ux ax by_ uy ay : mul_ra ax ay <> 0 ->
  mulB bx ux ax by_ uy ay + ax * ay * mulU bx ux ax by_ uy ay =
  (bx + ax * ux) * (by_ + ay * uy).
Proof. intros H. unfold mulB, mulU. unfold mul_ra in *. field. exact H. Qed.

Lemma comul_du_sum dx ux ax dy uy ay : comul_a ax ay <> 0 ->
  comulD dx ux ax dy uy ay + comulU dx ux ax dy uy ay = (dx + ux) * (dy + uy).
Proof. intros H. unfold comulD, comulU. unfold comul_a in *. field. exact H. Qed.

(* P = b + a u with b = 1 - d - u: the complement of the projection multiplies *)
Lemma comul_coprojection dx ux ax dy uy ay : comul_a ax ay <> 0 ->
  comulD dx ux ax dy uy ay + (1 - comul_a ax ay) * comulU dx ux ax dy uy ay =
  (dx + (1 - ax) * ux) * (dy + (1 - ay) * uy).
Proof. intros H. unfold comulD, comulU. unfold comul_a in *. field. exact H. Qed.

Lemma mul_wf bx dx ux ax by_ dy uy ay :
  wf_bop bx dx ux ax -> wf_bop by_ dy uy ay -> ax * ay <> 1 ->
  wf_bop (mulB bx ux ax by_ uy ay) (mulD dx dy) (mulU bx ux ax by_ uy ay) (ax * ay).
Proof.
  intros (Hbx & Hdx & Hux & Hsx & Hax) (Hby & Hdy & Huy & Hsy & Hay) Hne.
  pose proof (prod_lt_1 ax ay Hax Hay Hne) as Hlt.
  assert (Hra : 0 < mul_ra ax ay) by (rewrite mul_ra_eq; lra).
  assert (Hra0 : mul_ra ax ay <> 0) by lra.
  assert (H1ax : 0 <= 1 - ax) by lra. assert (H1ay : 0 <= 1 - ay) by lra.
  assert (Hax0 : 0 <= ax) by lra. assert (Hay0 : 0 <= ay) by lra.
  pose proof (mul_bu_sum bx ux ax by_ uy ay Hra0) as Hsum.
  unfold wf_bop. repeat split.
  - unfold mulB. apply Rplus_le_le_0_compat; [apply Rmult_le_pos; assumption|].
    apply div_nonneg; [|exact Hra].
    apply Rplus_le_le_0_compat; repeat apply Rmult_le_pos; assumption.
  - unfold mulD. nra.
  - unfold mulU. apply Rplus_le_le_0_compat; [apply Rmult_le_pos; assumption|].
    apply div_nonneg; [|exact Hra].
    apply Rplus_le_le_0_compat; repeat apply Rmult_le_pos; assumption.
  - unfold mulD.
    replace (mulB bx ux ax by_ uy ay + (dx + dy - dx * dy) + mulU bx ux ax by_ uy ay)
      with (mulB bx ux ax by_ uy ay + mulU bx ux ax by_ uy ay + (dx + dy - dx * dy)) by ring.
    rewrite Hsum. replace (bx + ux) with (1 - dx) by lra. replace (by_ + uy) with (1 - dy) by lra. ring.
  - nra.
  - nra.
Qed.

Lemma comul_wf bx dx ux ax by_ dy uy ay :
  wf_bop bx dx ux ax -> wf_bop by_ dy uy ay -> comul_a ax ay <> 0 ->
  wf_bop (comulB bx by_) (comulD dx ux ax dy uy ay) (comulU dx ux ax dy uy ay) (comul_a ax ay).
Proof.
  intros (Hbx & Hdx & Hux & Hsx & Hax) (Hby & Hdy & Huy & Hsy & Hay) Hne.
  assert (Hge : 0 <= comul_a ax ay) by (unfold comul_a; nra).
  assert (Ha : 0 < comul_a ax ay) by lra.
  assert (H1ax : 0 <= 1 - ax) by lra. assert (H1ay : 0 <= 1 - ay) by lra.
  assert (Hax0 : 0 <= ax) by lra. assert (Hay0 : 0 <= ay) by lra.
  pose proof (comul_du_sum dx ux ax dy uy ay Hne) as Hsum.
  unfold wf_bop. repeat split.
  - unfold comulB. nra.
  - unfold comulD. apply Rplus_le_le_0_compat; [apply Rmult_le_pos; assumption|].
    apply div_nonneg; [|exact Ha].
    apply Rplus_le_le_0_compat; repeat apply Rmult_le_pos; assumption.
  - unfold comulU. apply Rplus_le_le_0_compat; [apply Rmult_le_pos; assumption|].
    apply div_nonneg; [|exact Ha].
    apply Rplus_le_le_0_compat; repeat apply Rmult_le_pos; assumption.
  - unfold comulB.
    replace (bx + by_ - bx * by_ + comulD dx ux ax dy uy ay + comulU dx ux ax dy uy ay)
      with (comulD dx ux ax dy uy ay + comulU dx ux ax dy uy ay + (bx + by_ - bx * by_)) by ring.
    rewrite Hsum. replace (dx + ux) with (1 - bx) by lra. replace (dy + uy) with (1 - by_) by lra. ring.
  - exact Hge.
  - unfold comul_a. nra.
Qed.

(* ------------------------------------------------------------------ *)
Section BiMul.
Variable eps : R.
Hypothesis eps_range : 0 <= eps <= 1/8.

(* multiplication: defined, self-validation passes, well-formed, base rate, projection, disbelief *)
Lemma bmul_spec bx dx ux ax by_ dy uy ay :
  wf_bop bx dx ux ax -> wf_bop by_ dy uy ay -> ax * ay <> 1 ->
  let b := mulB bx ux ax by_ uy ay in
  let d := mulD dx dy in
  let u := mulU bx ux ax by_ uy ay in
  let a := ax * ay in
  bmul (B:=FldR) eps (bopR bx dx ux ax) (bopR by_ dy uy ay) = Some (bopR b d u a) /\
  wf_bop b d u a /\
  bprojection (bopR b d u a) = Some ((bx + ax * ux) * (by_ + ay * uy)) /\
  b + a * u = (bx + ax * ux) * (by_ + ay * uy) /\
  d = dx + dy - dx * dy.
Proof.
  intros Hx Hy Hne b d u a.
  assert (Hra0 : mul_ra ax ay <> 0) by (rewrite mul_ra_eq; lra).
  pose proof (mul_wf _ _ _ _ _ _ _ _ Hx Hy Hne) as Hwf. fold b d u a in Hwf.
  pose proof (mul_projection bx ux ax by_ uy ay Hra0) as HP. fold b u a in HP.
  split; [|split; [exact Hwf|split; [|split; [exact HP|reflexivity]]]].
  - rewrite bmul_eval by exact Hra0. apply btry_new_ok; [exact eps_range|exact Hwf].
  - unfold bprojection, bopR; cbn [bb bu ba]. rsimpl. f_equal. exact HP.
Qed.

Lemma bcomul_spec bx dx ux ax by_ dy uy ay :
  wf_bop bx dx ux ax -> wf_bop by_ dy uy ay -> ax + ay - ax * ay <> 0 ->
  let b := comulB bx by_ in
  let d := comulD dx ux ax dy uy ay in
  let u := comulU dx ux ax dy uy ay in
  let a := ax + ay - ax * ay in
  let px := bx + ax * ux in
  let py := by_ + ay * uy in
  bcomul (B:=FldR) eps (bopR bx dx ux ax) (bopR by_ dy uy ay) = Some (bopR b d u a) /\
  wf_bop b d u a /\
  bprojection (bopR b d u a) = Some (px + py - px * py) /\
  b + a * u = px + py - px * py /\
  b = bx + by_ - bx * by_.
Proof.
  intros Hx Hy Hne b d u a px py.
  assert (Hne' : comul_a ax ay <> 0) by exact Hne.
  pose proof (comul_wf _ _ _ _ _ _ _ _ Hx Hy Hne') as Hwf.
  change (comul_a ax ay) with a in Hwf. fold b d u in Hwf.
  assert (HP : b + a * u = px + py - px * py).
  { pose proof (comul_coprojection dx ux ax dy uy ay Hne') as Hc.
    change (comul_a ax ay) with a in Hc. fold d u in Hc.
    destruct Hwf as (_ & _ & _ & Hs & _).
    destruct Hx as (_ & _ & _ & Hsx & _). destruct Hy as (_ & _ & _ & Hsy & _).
    subst px py.
    replace (bx + ax * ux) with (1 - (dx + (1 - ax) * ux)) by lra.
    replace (by_ + ay * uy) with (1 - (dy + (1 - ay) * uy)) by lra.
    replace (b + a * u) with (1 - (d + (1 - a) * u)) by lra.
    rewrite Hc. ring. }
  split; [|split; [exact Hwf|split; [|split; [exact HP|reflexivity]]]].
  - rewrite bcomul_eval by exact Hne'. apply btry_new_ok; [exact eps_range|exact Hwf].
  - unfold bprojection, bopR; cbn [bb bu ba]. rsimpl. f_equal. exact HP.
Qed.

(* commutativity: for ALL real operands (no well-formedness needed), as [option bop] *)
Lemma bmul_comm bx dx ux ax by_ dy uy ay :
  bmul (B:=FldR) eps (bopR bx dx ux ax) (bopR by_ dy uy ay) =
  bmul (B:=FldR) eps (bopR by_ dy uy ay) (bopR bx dx ux ax).
Proof.
  destruct (Req_EM_T (mul_ra ax ay) 0) as [E|E].
  - rewrite bmul_eval_none by exact E.
    rewrite bmul_eval_none; [reflexivity|]. rewrite mul_ra_eq in *. lra.
  - assert (E' : mul_ra ay ax <> 0) by (rewrite mul_ra_eq in *; lra).
    rewrite !bmul_eval by assumption.
    f_equal; f_equal; unfold mulB, mulD, mulU, mul_ra in *; try ring; field; assumption.
Qed.

Lemma bcomul_comm bx dx ux ax by_ dy uy ay :
  bcomul (B:=FldR) eps (bopR bx dx ux ax) (bopR by_ dy uy ay) =
  bcomul (B:=FldR) eps (bopR by_ dy uy ay) (bopR bx dx ux ax).
Proof.
  destruct (Req_EM_T (comul_a ax ay) 0) as [E|E].
  - rewrite bcomul_eval_none by exact E.
    rewrite bcomul_eval_none; [reflexivity|]. unfold comul_a in *. lra.
  - assert (E' : comul_a ay ax <> 0) by (unfold comul_a in *; lra).
    rewrite !bcomul_eval by assumption.
    f_equal; f_equal; unfold comulB, comulD, comulU, comul_a in *; try ring; field; assumption.
Qed.

(* De Morgan: OR of the negations = negation of the AND; for all well-formed operands,
   including the excluded base rates (then both sides are None) *)
Lemma de_morgan bx dx ux ax by_ dy uy ay :
  wf_bop bx dx ux ax -> wf_bop by_ dy uy ay ->
  bcomul (B:=FldR) eps (bneg (bopR bx dx ux ax)) (bneg (bopR by_ dy uy ay)) =
  option_map bneg (bmul (B:=FldR) eps (bopR bx dx ux ax) (bopR by_ dy uy ay)).
Proof.
  intros Hx Hy. rewrite !bneg_bopR.
  destruct (Req_EM_T (ax * ay) 1) as [E|E].
  - rewrite bmul_eval_none by (rewrite mul_ra_eq; lra).
    rewrite bcomul_eval_none; [reflexivity|]. unfold comul_a. lra.
  - destruct (bmul_spec _ _ _ _ _ _ _ _ Hx Hy E) as (Hm & Hwf & _). rewrite Hm.
    cbn [option_map]. rewrite bneg_bopR.
    assert (Hc : comul_a (1 - ax) (1 - ay) <> 0) by (unfold comul_a; lra).
    assert (Hr : mul_ra ax ay <> 0) by (rewrite mul_ra_eq; lra).
    rewrite bcomul_eval by exact Hc.
    replace (comulB dx dy) with (mulD dx dy) by reflexivity.
    replace (comulD bx ux (1 - ax) by_ uy (1 - ay)) with (mulB bx ux ax by_ uy ay)
      by (unfold comulD, mulB, comul_a, mul_ra in *; field; lra).
    replace (comulU bx ux (1 - ax) by_ uy (1 - ay)) with (mulU bx ux ax by_ uy ay)
      by (unfold comulU, mulU, comul_a, mul_ra in *; field; lra).
    replace (comul_a (1 - ax) (1 - ay)) with (1 - ax * ay) by (unfold comul_a; ring).
    apply btry_new_ok; [exact eps_range|]. apply wf_bop_neg. exact Hwf.
Qed.

(* the dual form: AND of the negations = negation of the OR *)
Lemma de_morgan_dual bx dx ux ax by_ dy uy ay :
  wf_bop bx dx ux ax -> wf_bop by_ dy uy ay ->
  bmul (B:=FldR) eps (bneg (bopR bx dx ux ax)) (bneg (bopR by_ dy uy ay)) =
  option_map bneg (bcomul (B:=FldR) eps (bopR bx dx ux ax) (bopR by_ dy uy ay)).
Proof.
  intros Hx Hy. rewrite !bneg_bopR.
  destruct (Req_EM_T (ax + ay - ax * ay) 0) as [E|E].
  - rewrite bcomul_eval_none by exact E.
    rewrite bmul_eval_none; [reflexivity|]. rewrite mul_ra_eq. lra.
  - destruct (bcomul_spec _ _ _ _ _ _ _ _ Hx Hy E) as (Hm & Hwf & _). rewrite Hm.
    cbn [option_map]. rewrite bneg_bopR.
    assert (Hr : mul_ra (1 - ax) (1 - ay) <> 0) by (rewrite mul_ra_eq; lra).
    rewrite bmul_eval by exact Hr.
    replace (mulD bx by_) with (comulB bx by_) by reflexivity.
    replace (mulB dx ux (1 - ax) dy uy (1 - ay)) with (comulD dx ux ax dy uy ay)
      by (unfold comulD, mulB, comul_a, mul_ra in *; field; lra).
    replace (mulU dx ux (1 - ax) dy uy (1 - ay)) with (comulU dx ux ax dy uy ay)
      by (unfold comulU, mulU, comul_a, mul_ra in *; field; lra).
    replace ((1 - ax) * (1 - ay)) with (1 - (ax + ay - ax * ay)) by ring.
    apply btry_new_ok; [exact eps_range|]. apply wf_bop_neg. exact Hwf.
Qed.

End BiMul.

(* ------------------------------------------------------------------ *)
(* associativity *)

(* an opinion is determined by its projection, disbelief and base rate when a <> 1 ... *)
Lemma bop_determined_by_Pda b d u b' u' a :
  a <> 1 -> b + d + u = 1 -> b' + d + u' = 1 -> b + a * u = b' + a * u' ->
  b = b' /\ u = u'.
Proof.
  intros Ha H1 H2 HP.
  assert (Hu : (1 - a) * (u - u') = 0) by nra.
  apply Rmult_integral in Hu. destruct Hu as [Hu|Hu]; [lra|]. split; lra.
Qed.

(* ... and by its projection, belief and base rate when a <> 0 *)
Lemma bop_determined_by_Pba b d u d' u' a :
  a <> 0 -> b + d + u = 1 -> b + d' + u' = 1 -> b + a * u = b + a * u' ->
  d = d' /\ u = u'.
Proof.
  intros Ha H1 H2 HP.
  assert (Hu : a * (u - u') = 0) by nra.
  apply Rmult_integral in Hu. destruct Hu as [Hu|Hu]; [lra|]. split; lra.
Qed.

Definition obind {X Y} (o : option X) (f : X -> option Y) : option Y :=
  match o with Some x => f x | None => None end.

Section Assoc.
Variable eps : R.
Hypothesis eps_range : 0 <= eps <= 1/8.

Lemma bmul_assoc bx dx ux ax by_ dy uy ay bz dz uz az :
  wf_bop bx dx ux ax -> wf_bop by_ dy uy ay -> wf_bop bz dz uz az ->
  ax * ay <> 1 -> ay * az <> 1 ->
  obind (bmul (B:=FldR) eps (bopR bx dx ux ax) (bopR by_ dy uy ay))
        (fun w => bmul (B:=FldR) eps w (bopR bz dz uz az)) =
  obind (bmul (B:=FldR) eps (bopR by_ dy uy ay) (bopR bz dz uz az))
        (fun w => bmul (B:=FldR) eps (bopR bx dx ux ax) w).
Proof.
  intros Hx Hy Hz Hxy Hyz.
  destruct (bmul_spec eps eps_range _ _ _ _ _ _ _ _ Hx Hy Hxy) as (E1 & W1 & _ & P1 & _).
  destruct (bmul_spec eps eps_range _ _ _ _ _ _ _ _ Hy Hz Hyz) as (E2 & W2 & _ & P2 & _).
  rewrite E1, E2. cbn [obind].
  assert (Hax : 0 <= ax <= 1) by (destruct Hx as (_ & _ & _ & _ & H); exact H).
  assert (Hay : 0 <= ay <= 1) by (destruct Hy as (_ & _ & _ & _ & H); exact H).
  assert (Haz : 0 <= az <= 1) by (destruct Hz as (_ & _ & _ & _ & H); exact H).
  pose proof (prod_lt_1 _ _ Hax Hay Hxy) as Lxy.
  pose proof (prod_lt_1 _ _ Hay Haz Hyz) as Lyz.
  assert (Pxy : 0 <= ax * ay) by (apply Rmult_le_pos; lra).
  assert (Pyz : 0 <= ay * az) by (apply Rmult_le_pos; lra).
  assert (H3 : ax * ay * az <> 1).
  { assert (Hh : 0 <= (ax * ay) * (1 - az)) by (apply Rmult_le_pos; lra). nra. }
  assert (H3' : ax * (ay * az) <> 1).
  { assert (Hh : 0 <= (1 - ax) * (ay * az)) by (apply Rmult_le_pos; lra). nra. }
  destruct (bmul_spec eps eps_range _ _ _ _ _ _ _ _ W1 Hz H3) as (E3 & W3 & _ & P3 & _).
  destruct (bmul_spec eps eps_range _ _ _ _ _ _ _ _ Hx W2 H3') as (E4 & W4 & _ & P4 & _).
  rewrite E3, E4.
  set (b1 := mulB bx ux ax by_ uy ay) in *. set (u1 := mulU bx ux ax by_ uy ay) in *.
  set (b2 := mulB by_ uy ay bz uz az) in *. set (u2 := mulU by_ uy ay bz uz az) in *.
  set (bl := mulB b1 u1 (ax * ay) bz uz az) in *. set (ul := mulU b1 u1 (ax * ay) bz uz az) in *.
  set (br := mulB bx ux ax b2 u2 (ay * az)) in *. set (ur := mulU bx ux ax b2 u2 (ay * az)) in *.
  assert (Hd : mulD (mulD dx dy) dz = mulD dx (mulD dy dz)) by (unfold mulD; ring).
  assert (Ha : ax * ay * az = ax * (ay * az)) by ring.
  rewrite Hd in *. rewrite Ha in *.
  destruct W3 as (_ & _ & _ & S3 & _). destruct W4 as (_ & _ & _ & S4 & _).
  assert (HP : bl + ax * (ay * az) * ul = br + ax * (ay * az) * ur).
  { rewrite P3, P4, P1, P2. ring. }
  destruct (bop_determined_by_Pda bl _ ul br ur _ H3' S3 S4 HP) as (-> & ->).
  reflexivity.
Qed.

Lemma bcomul_assoc bx dx ux ax by_ dy uy ay bz dz uz az :
  wf_bop bx dx ux ax -> wf_bop by_ dy uy ay -> wf_bop bz dz uz az ->
  ax + ay - ax * ay <> 0 -> ay + az - ay * az <> 0 ->
  obind (bcomul (B:=FldR) eps (bopR bx dx ux ax) (bopR by_ dy uy ay))
        (fun w => bcomul (B:=FldR) eps w (bopR bz dz uz az)) =
  obind (bcomul (B:=FldR) eps (bopR by_ dy uy ay) (bopR bz dz uz az))
        (fun w => bcomul (B:=FldR) eps (bopR bx dx ux ax) w).
Proof.
  intros Hx Hy Hz Hxy Hyz.
  destruct (bcomul_spec eps eps_range _ _ _ _ _ _ _ _ Hx Hy Hxy) as (E1 & W1 & _ & P1 & _).
  destruct (bcomul_spec eps eps_range _ _ _ _ _ _ _ _ Hy Hz Hyz) as (E2 & W2 & _ & P2 & _).
  rewrite E1, E2. cbn [obind].
  assert (Hax : 0 <= ax <= 1) by (destruct Hx as (_ & _ & _ & _ & H); exact H).
  assert (Hay : 0 <= ay <= 1) by (destruct Hy as (_ & _ & _ & _ & H); exact H).
  assert (Haz : 0 <= az <= 1) by (destruct Hz as (_ & _ & _ & _ & H); exact H).
  set (axy := ax + ay - ax * ay) in *. set (ayz := ay + az - ay * az) in *.
  assert (Lxy : 0 < axy) by (assert (0 <= axy) by (unfold axy; nra); lra).
  assert (Lyz : 0 < ayz) by (assert (0 <= ayz) by (unfold ayz; nra); lra).
  assert (H3 : axy + az - axy * az <> 0) by nra.
  assert (H3' : ax + ayz - ax * ayz <> 0) by nra.
  destruct (bcomul_spec eps eps_range _ _ _ _ _ _ _ _ W1 Hz H3) as (E3 & W3 & _ & P3 & _).
  destruct (bcomul_spec eps eps_range _ _ _ _ _ _ _ _ Hx W2 H3') as (E4 & W4 & _ & P4 & _).
  rewrite E3, E4.
  set (d1 := comulD dx ux ax dy uy ay) in *. set (u1 := comulU dx ux ax dy uy ay) in *.
  set (d2 := comulD dy uy ay dz uz az) in *. set (u2 := comulU dy uy ay dz uz az) in *.
  set (dl := comulD d1 u1 axy dz uz az) in *. set (ul := comulU d1 u1 axy dz uz az) in *.
  set (dr := comulD dx ux ax d2 u2 ayz) in *. set (ur := comulU dx ux ax d2 u2 ayz) in *.
  assert (Hb : comulB (comulB bx by_) bz = comulB bx (comulB by_ bz)) by (unfold comulB; ring).
  assert (Ha : axy + az - axy * az = ax + ayz - ax * ayz) by (unfold axy, ayz; ring).
  rewrite Hb in *. rewrite Ha in *.
  destruct W3 as (_ & _ & _ & S3 & _). destruct W4 as (_ & _ & _ & S4 & _).
  assert (HP : comulB bx (comulB by_ bz) + (ax + ayz - ax * ayz) * ul =
               comulB bx (comulB by_ bz) + (ax + ayz - ax * ayz) * ur).
  { rewrite P3, P4, P1, P2. ring. }
  destruct (bop_determined_by_Pba _ dl ul dr ur _ H3' S3 S4 HP) as (-> & ->).
  reflexivity.
Qed.

Lemma bmul_assoc_defined bx dx ux ax by_ dy uy ay bz dz uz az :
  wf_bop bx dx ux ax -> wf_bop by_ dy uy ay -> wf_bop bz dz uz az ->
  ax * ay <> 1 -> ay * az <> 1 ->
  exists b d u, wf_bop b d u (ax * (ay * az)) /\
  obind (bmul (B:=FldR) eps (bopR by_ dy uy ay) (bopR bz dz uz az))
        (fun w => bmul (B:=FldR) eps (bopR bx dx ux ax) w) = Some (bopR b d u (ax * (ay * az))).
Proof.
  intros Hx Hy Hz Hxy Hyz.
  destruct (bmul_spec eps eps_range _ _ _ _ _ _ _ _ Hy Hz Hyz) as (E2 & W2 & _).
  assert (Hax : 0 <= ax <= 1) by (destruct Hx as (_ & _ & _ & _ & H); exact H).
  assert (Hay : 0 <= ay <= 1) by (destruct Hy as (_ & _ & _ & _ & H); exact H).
  assert (Haz : 0 <= az <= 1) by (destruct Hz as (_ & _ & _ & _ & H); exact H).
  pose proof (prod_lt_1 _ _ Hay Haz Hyz) as Lyz.
  assert (Pyz : 0 <= ay * az) by (apply Rmult_le_pos; lra).
  assert (H3' : ax * (ay * az) <> 1).
  { assert (Hh : 0 <= (1 - ax) * (ay * az)) by (apply Rmult_le_pos; lra). nra. }
  destruct (bmul_spec eps eps_range _ _ _ _ _ _ _ _ Hx W2 H3') as (E4 & W4 & _).
  rewrite E2. cbn [obind]. eexists _, _, _. split; [exact W4|exact E4].
Qed.

Lemma bcomul_assoc_defined bx dx ux ax by_ dy uy ay bz dz uz az :
  wf_bop bx dx ux ax -> wf_bop by_ dy uy ay -> wf_bop bz dz uz az ->
  ax + ay - ax * ay <> 0 -> ay + az - ay * az <> 0 ->
  let ayz := ay + az - ay * az in
  exists b d u, wf_bop b d u (ax + ayz - ax * ayz) /\
  obind (bcomul (B:=FldR) eps (bopR by_ dy uy ay) (bopR bz dz uz az))
        (fun w => bcomul (B:=FldR) eps (bopR bx dx ux ax) w) = Some (bopR b d u (ax + ayz - ax * ayz)).
Proof.
  intros Hx Hy Hz Hxy Hyz ayz.
  destruct (bcomul_spec eps eps_range _ _ _ _ _ _ _ _ Hy Hz Hyz) as (E2 & W2 & _).
  assert (Hax : 0 <= ax <= 1) by (destruct Hx as (_ & _ & _ & _ & H); exact H).
  assert (Hay : 0 <= ay <= 1) by (destruct Hy as (_ & _ & _ & _ & H); exact H).
  assert (Haz : 0 <= az <= 1) by (destruct Hz as (_ & _ & _ & _ & H); exact H).
  fold ayz in E2, W2, Hyz.
  assert (Lyz : 0 < ayz) by (assert (0 <= ayz) by (unfold ayz; nra); lra).
  assert (H3' : ax + ayz - ax * ayz <> 0) by nra.
  destruct (bcomul_spec eps eps_range _ _ _ _ _ _ _ _ Hx W2 H3') as (E4 & W4 & _).
  rewrite E2. cbn [obind]. eexists _, _, _. split; [exact W4|exact E4].
Qed.

(* the admissibility hypothesis cannot be dropped *)
Lemma bmul_assoc_needs_admissible :
  obind (bmul (B:=FldR) eps (bopR (1/2) (1/4) (1/4) 1) (bopR (1/2) (1/4) (1/4) 1))
        (fun w => bmul (B:=FldR) eps w (bopR (1/2) (1/4) (1/4) (1/2))) = None /\
  obind (bmul (B:=FldR) eps (bopR (1/2) (1/4) (1/4) 1) (bopR (1/2) (1/4) (1/4) (1/2)))
        (fun w => bmul (B:=FldR) eps (bopR (1/2) (1/4) (1/4) 1) w) <> None.
Proof.
  split.
  - rewrite bmul_eval_none; [reflexivity|]. unfold mul_ra; lra.
  - assert (Hx : wf_bop (1/2) (1/4) (1/4) 1) by (unfold wf_bop; repeat split; lra).
    assert (Hz : wf_bop (1/2) (1/4) (1/4) (1/2)) by (unfold wf_bop; repeat split; lra).
    destruct (bmul_spec eps eps_range _ _ _ _ _ _ _ _ Hx Hz ltac:(lra)) as (E2 & W2 & _).
    destruct (bmul_spec eps eps_range _ _ _ _ _ _ _ _ Hx W2 ltac:(lra)) as (E4 & _).
    rewrite E2. cbn [obind]. rewrite E4. discriminate.
Qed.

End Assoc.

(* ------------------------------------------------------------------ *)
(* record of the repaired defect: the uncertainty of the PINNED tree *)

(* pinned src/bi.rs mul: (1 - b_x) where the definition (and HEAD) has (1 - a_x) *)
Definition mulU_pinned (bx ux ax by_ uy ay : R) : R :=
  ux * uy + ((1 - ay) * bx * uy + (1 - bx) * by_ * ux) / (1 - ax * ay).
(* the pinned belief term is the same function as at HEAD, with the divisor written 1 - ax ay *)
Definition mulB_pinned (bx ux ax by_ uy ay : R) : R :=
  bx * by_ + ((1 - ax) * ay * bx * uy + (1 - ay) * ax * by_ * ux) / (1 - ax * ay).

(* pinned src/bi.rs comul: belief masses where the definition (and HEAD) has disbelief masses *)
Definition comulU_pinned (bx dx ux ax by_ dy uy ay : R) : R :=
  ux * uy + (ay * bx * uy + ax * by_ * ux) / (ax + ay - ax * ay).

Lemma bmul_pinned_sum :
  mulB_pinned (1/2) (3/10) (2/5) (3/10) (2/5) (3/5) + mulD (1/5) (3/10)
    + mulU_pinned (1/2) (3/10) (2/5) (3/10) (2/5) (3/5) = 1 - 9/760.
Proof. unfold mulB_pinned, mulD, mulU_pinned. field. Qed.

Lemma bmul_pinned_refuted :
  wf_bop (1/2) (1/5) (3/10) (2/5) /\ wf_bop (3/10) (3/10) (2/5) (3/5) /\
  mulB_pinned (1/2) (3/10) (2/5) (3/10) (2/5) (3/5) + mulD (1/5) (3/10)
    + mulU_pinned (1/2) (3/10) (2/5) (3/10) (2/5) (3/5) <> 1.
Proof.
  split; [unfold wf_bop; repeat split; lra|]. split; [unfold wf_bop; repeat split; lra|].
  rewrite bmul_pinned_sum. lra.
Qed.

(* hence BOpinion::new rejected (panicked on) the pinned result for every tolerance
   up to 1/256 (f32 and f64 machine epsilons are far below) *)
Lemma bmul_pinned_rejected eps : 0 <= eps <= 1/256 ->
  btry_new (B:=FldR) eps (Some (mulB_pinned (1/2) (3/10) (2/5) (3/10) (2/5) (3/5)))
    (Some (mulD (1/5) (3/10))) (Some (mulU_pinned (1/2) (3/10) (2/5) (3/10) (2/5) (3/5)))
    (Some (2/5 * (3/5))) = None.
Proof.
  intros He. unfold btry_new, bcheck_simplex. rewrite !add_some, bmul_pinned_sum.
  assert (E : is_one (B:=FldR) eps (Some (1 - 9/760)) = false) by (apply is_one_some_false; lra).
  rewrite E. cbn [andb]. destruct (in_unit _ _); reflexivity.
Qed.

Lemma bcomul_pinned_sum :
  comulB (1/2) (3/10) + comulD (1/5) (3/10) (2/5) (3/10) (2/5) (3/5)
    + comulU_pinned (1/2) (1/5) (3/10) (2/5) (3/10) (3/10) (2/5) (3/5) = 1 + 9/95.
Proof. unfold comulB, comulD, comulU_pinned, comul_a. field. Qed.

Lemma bcomul_pinned_refuted :
  comulB (1/2) (3/10) + comulD (1/5) (3/10) (2/5) (3/10) (2/5) (3/5)
    + comulU_pinned (1/2) (1/5) (3/10) (2/5) (3/10) (3/10) (2/5) (3/5) <> 1.
Proof. rewrite bcomul_pinned_sum. lra. Qed.

(* the repaired formulas on the same witness: accepted *)
Lemma bmul_witness_ok eps : 0 <= eps <= 1/8 ->
  exists b d u, bmul (B:=FldR) eps (bopR (1/2) (1/5) (3/10) (2/5)) (bopR (3/10) (3/10) (2/5) (3/5))
    = Some (bopR b d u (2/5 * (3/5))) /\ wf_bop b d u (2/5 * (3/5)).
Proof.
  intros He.
  assert (Hx : wf_bop (1/2) (1/5) (3/10) (2/5)) by (unfold wf_bop; repeat split; lra).
  assert (Hy : wf_bop (3/10) (3/10) (2/5) (3/5)) by (unfold wf_bop; repeat split; lra).
  destruct (bmul_spec eps He _ _ _ _ _ _ _ _ Hx Hy ltac:(lra)) as (E & W & _).
  eexists _, _, _. split; [exact E|exact W].
Qed.
