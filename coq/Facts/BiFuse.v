(* C13: binomial opinions are the binary case of multinomial ones.
   Conversions (convert.rs), the three binomial fusions (bi.rs cfuse/afuse/wfuse)
   as explicit real closed forms, their definedness and well-formedness, and their
   agreement with the multinomial operators of Mul.v on the converted operands. *)
From Coq Require Import Reals List Bool Lra Lia Psatz.
Import ListNotations.
From SL Require Import Model.Num Model.Vec Model.Mul Model.Bi Model.InstR Facts.RBase Facts.Discount.
Open Scope R_scope.

Lemma Rdiv1 x : x / 1 = x. Proof. field. Qed.

(* ------------------------------------------------------------ conversions *)

(* BOpinion -> Opinion1d<_,2> -> BOpinion is the identity on every value, defined or not *)
Lemma convert_roundtrip_any (x : bop (B:=FldR)) : mul_to_bop (bop_to_mul x) = x.
Proof. destruct x; reflexivity. Qed.

Lemma bop_to_mul_R (b d u a : R) :
  bop_to_mul (B:=FldR) (bopR b d u a) = (map Some [b; d], Some u, map Some [a; 1 - a]).
Proof. reflexivity. Qed.

(* the other direction is the identity on opinions whose base rate sums to one *)
Lemma convert_roundtrip_mul_R (b0 b1 u a0 a1 : R) : a0 + a1 = 1 ->
  bop_to_mul (B:=FldR) (mul_to_bop (B:=FldR) (map Some [b0; b1], Some u, map Some [a0; a1])) =
  (map Some [b0; b1], Some u, map Some [a0; a1]).
Proof.
  intros H. unfold mul_to_bop, bop_to_mul; cbn [map get nth bb bd bu ba]. rsimpl.
  replace (1 - a0) with a1 by lra. reflexivity.
Qed.

Lemma convert_wf_R b d u a : wf_bop b d u a -> wf_opinion [b; d] u [a; 1 - a].
Proof.
  intros (Hb & Hd & Hu & Hs & Ha). unfold wf_opinion, wf_simplex, wf_dist, nonneg.
  cbn [Rsum length].
  assert (N : forall p q, 0 <= p -> 0 <= q -> Forall (fun x => 0 <= x) [p; q]) by (intros; apply Forall_cons; [assumption|apply Forall_cons; [assumption|apply Forall_nil]]).
  split; [split; [apply N; lra|lra]|]. split; [split; [apply N; lra|lra]|reflexivity].
Qed.

Lemma wf_of_convert b d u a : wf_opinion [b; d] u [a; 1 - a] -> wf_bop b d u a.
Proof.
  intros ((Hb & Hu & Hs) & (Ha & Hsa) & _). unfold nonneg in *. cbn [Rsum] in *.
  inversion Hb as [|? ? Hb0 Hb1]; subst. inversion Hb1 as [|? ? Hd0 _]; subst.
  inversion Ha as [|? ? Ha0 Ha1]; subst. inversion Ha1 as [|? ? Ha2 _]; subst.
  unfold wf_bop. lra.
Qed.

(* projected probability: the normalising sum of the multinomial projection is 1 *)
Lemma convert_projection_R b d u a : b + d + u = 1 ->
  projection (B:=FldR) (map Some [b; d]) (Some u) (map Some [a; 1 - a]) =
    map Some [b + a * u; d + (1 - a) * u] /\
  bprojection (B:=FldR) (bopR b d u a) = Some (b + a * u).
Proof.
  intros Hs. split; [|reflexivity].
  unfold projection, normalize_dist. cbn [map map2 vsum fold_left]. rsimpl.
  replace (0 + (b + a * u) + (d + (1 - a) * u)) with 1 by lra.
  rewrite !div_some by lra. rewrite !Rdiv1. reflexivity.
Qed.

(* ------------------------------------------------------- small helpers *)

Lemma div_nonneg p q : 0 <= p -> 0 < q -> 0 <= p / q.
Proof. intros Hp Hq. unfold Rdiv. apply Rle_mult_inv_pos; assumption. Qed.

Lemma div_unit p q : 0 <= p <= q -> 0 < q -> 0 <= p / q <= 1.
Proof.
  intros Hp Hq. split; [apply div_nonneg; lra|].
  assert (E : p / q = 1 - (q - p) / q) by (field; lra).
  pose proof (div_nonneg (q - p) q ltac:(lra) Hq). lra.
Qed.

Lemma wmean_unit a1 a2 w1 w2 : 0 <= a1 <= 1 -> 0 <= a2 <= 1 -> 0 <= w1 -> 0 <= w2 -> 0 < w1 + w2 ->
  0 <= (a1 * w1 + a2 * w2) / (w1 + w2) <= 1.
Proof. intros H1 H2 H3 H4 H5. apply div_unit; [nra|lra]. Qed.

(* a weighted mean of a1, a2 is within |a1 - a2| of a1 *)
Lemma wmean_close a1 a2 w1 w2 : 0 <= w1 -> 0 <= w2 -> 0 < w1 + w2 ->
  Rabs (a1 - (a1 * w1 + a2 * w2) / (w1 + w2)) <= Rabs (a1 - a2).
Proof.
  intros H1 H2 H3.
  assert (E : a1 - (a1 * w1 + a2 * w2) / (w1 + w2) = (a1 - a2) * (w2 / (w1 + w2))) by (field; lra).
  rewrite E, Rabs_mult.
  pose proof (div_unit w2 (w1 + w2) ltac:(lra) H3) as Hw.
  rewrite (Rabs_pos_eq (w2 / (w1 + w2))) by lra.
  pose proof (Rabs_pos (a1 - a2)). nra.
Qed.

Lemma normalized2 (p q r : R) : p + q + r = 1 ->
  normalized (B:=FldR) [Some p; Some q] (Some r) = ([Some p; Some q], Some r).
Proof.
  intros H. unfold normalized. cbn [map vsum fold_left]. rsimpl.
  replace (0 + p + q + r) with 1 by lra. rewrite !div_some by lra.
  rewrite !Rdiv1. reflexivity.
Qed.

Lemma two_R : two (B:=FldR) = Some 2. Proof. exact two_some. Qed.

Lemma aeq_compl eps a1 a2 :
  aeq (B:=FldR) eps (Some (1 - a1)) (Some (1 - a2)) = aeq (B:=FldR) eps (Some a1) (Some a2).
Proof.
  destruct (aeq (B:=FldR) eps (Some a1) (Some a2)) eqn:E.
  - apply aeq_some in E. apply aeq_some. lra.
  - apply aeq_some_false in E. apply aeq_some_false. lra.
Qed.

Lemma tuple5 (x y z p q x' y' z' p' q' : R) :
  x = x' -> y = y' -> z = z' -> p = p' -> q = q' ->
  ([Some x; Some y], Some z, [Some p; Some q]) = ([Some x'; Some y'], Some z', [Some p'; Some q']).
Proof. intros; subst; reflexivity. Qed.

Section BiFuse.
Variable eps : R.
Hypothesis eps_range : 0 <= eps <= 1/8.

Notation isz u := (is_zero (B:=FldR) eps (Some u)).
Notation iso u := (is_one (B:=FldR) eps (Some u)).

(* an uncertainty outside the two slack regions (0, eps] and [1 - 2 eps, 1):
   there the approximate guards of both families decide exactly u = 0 and u = 1 *)
Definition crisp (u : R) : Prop := (u = 0 \/ eps < u) /\ (u = 1 \/ u < 1 - 2 * eps).

Lemma crisp_cases u : 0 <= u <= 1 -> crisp u ->
  (u = 0 /\ isz u = true /\ iso u = false) \/
  (eps < u < 1 - 2 * eps /\ isz u = false /\ iso u = false) \/
  (u = 1 /\ isz u = false /\ iso u = true).
Proof.
  intros Hu ([H0|H0] & [H1|H1]).
  - lra.
  - left. split; [assumption|]. split; [apply is_zero_some|apply is_one_some_false]; lra.
  - right; right. split; [assumption|]. split; [apply is_zero_some_false|apply is_one_some]; lra.
  - right; left. split; [lra|]. split; [apply is_zero_some_false|apply is_one_some_false]; lra.
Qed.

Lemma crisp_zero_exact : crisp 0. Proof. unfold crisp. lra. Qed.
Lemma crisp_one_exact : crisp 1. Proof. unfold crisp. lra. Qed.
Lemma crisp_mid u : eps < u < 1 - 2 * eps -> crisp u. Proof. unfold crisp. lra. Qed.

(* ======================================================= cumulative fusion *)

Definition cfuse_b (b1 u1 b2 u2 : R) : R := (b1 * u2 + b2 * u1) / (u1 + u2 - u1 * u2).
Definition cfuse_u (u1 u2 : R) : R := u1 * u2 / (u1 + u2 - u1 * u2).
Definition cfuse_a (a1 u1 a2 u2 : R) : R :=
  if iso u1 && iso u2 then (a1 + a2) / 2
  else (a1 * u2 * (1 - u1) + a2 * u1 * (1 - u2)) / (u2 * (1 - u1) + u1 * (1 - u2)).
Definition bcfuseR (b1 d1 u1 a1 b2 d2 u2 a2 : R) : bop (B:=FldR) :=
  bopR (cfuse_b b1 u1 b2 u2) (cfuse_b d1 u1 d2 u2) (cfuse_u u1 u2) (cfuse_a a1 u1 a2 u2).

Lemma bcfuse_eval b1 d1 u1 a1 b2 d2 u2 a2 :
  u1 + u2 - u1 * u2 <> 0 ->
  (iso u1 && iso u2 = true \/ u2 * (1 - u1) + u1 * (1 - u2) <> 0) ->
  bcfuse (B:=FldR) eps (bopR b1 d1 u1 a1) (bopR b2 d2 u2 a2) =
  btry_new (B:=FldR) eps (Some (cfuse_b b1 u1 b2 u2)) (Some (cfuse_b d1 u1 d2 u2))
           (Some (cfuse_u u1 u2)) (Some (cfuse_a a1 u1 a2 u2)).
Proof.
  intros Hk Ha. unfold bcfuse, bopR, cfuse_b, cfuse_u, cfuse_a; cbn [bb bd bu ba]. rsimpl.
  rewrite !(div_some _ (u1 + u2 - u1 * u2)) by assumption.
  destruct (iso u1 && iso u2) eqn:E.
  - rewrite div_some by lra. f_equal; try (f_equal; field).
  - destruct Ha as [Ha|Ha]; [discriminate|]. rewrite div_some by assumption. reflexivity.
Qed.

Lemma cfuse_k_pos u1 u2 : 0 <= u1 <= 1 -> 0 <= u2 <= 1 -> ~ (u1 = 0 /\ u2 = 0) ->
  0 < u1 + u2 - u1 * u2.
Proof. intros H1 H2 H. assert (0 < u1 \/ 0 < u2) as [H'|H'] by lra; nra. Qed.

Lemma cfuse_den_pos u1 u2 : 0 <= u1 <= 1 -> 0 <= u2 <= 1 -> ~ (u1 = 0 /\ u2 = 0) ->
  iso u1 && iso u2 = false -> 0 < u2 * (1 - u1) + u1 * (1 - u2).
Proof.
  intros H1 H2 H E.
  assert (Hn : ~ (u1 = 1 /\ u2 = 1)).
  { intros (-> & ->). rewrite (proj2 (is_one_some eps 1)) in E by lra. discriminate. }
  assert (0 <= u2 * (1 - u1)) by nra. assert (0 <= u1 * (1 - u2)) by nra.
  assert (u2 * (1 - u1) + u1 * (1 - u2) <> 0); [|lra].
  intros E0. assert (A : u2 * (1 - u1) = 0) by lra. assert (C : u1 * (1 - u2) = 0) by lra.
  apply Rmult_integral in A. apply Rmult_integral in C. lra.
Qed.

Lemma cfuse_wf b1 d1 u1 a1 b2 d2 u2 a2 :
  wf_bop b1 d1 u1 a1 -> wf_bop b2 d2 u2 a2 -> ~ (u1 = 0 /\ u2 = 0) ->
  wf_bop (cfuse_b b1 u1 b2 u2) (cfuse_b d1 u1 d2 u2) (cfuse_u u1 u2) (cfuse_a a1 u1 a2 u2).
Proof.
  intros (Hb1 & Hd1 & Hu1 & Hs1 & Ha1) (Hb2 & Hd2 & Hu2 & Hs2 & Ha2) Hn.
  pose proof (cfuse_k_pos u1 u2 ltac:(lra) ltac:(lra) Hn) as Hk.
  unfold wf_bop, cfuse_b, cfuse_u, cfuse_a.
  split; [apply div_nonneg; nra|]. split; [apply div_nonneg; nra|]. split; [apply div_nonneg; nra|].
  split.
  - assert (d1 = 1 - b1 - u1) by lra. assert (d2 = 1 - b2 - u2) by lra. subst d1 d2. field. lra.
  - destruct (iso u1 && iso u2) eqn:E; [lra|].
    pose proof (cfuse_den_pos u1 u2 ltac:(lra) ltac:(lra) Hn E) as Hden.
    replace (a1 * u2 * (1 - u1) + a2 * u1 * (1 - u2)) with (a1 * (u2 * (1 - u1)) + a2 * (u1 * (1 - u2))) by ring.
    apply wmean_unit; try assumption; nra.
Qed.

(* cfuse is defined, equal to the closed form and well-formed unless both operands are dogmatic *)
Lemma bcfuse_defined b1 d1 u1 a1 b2 d2 u2 a2 :
  wf_bop b1 d1 u1 a1 -> wf_bop b2 d2 u2 a2 -> ~ (u1 = 0 /\ u2 = 0) ->
  bcfuse (B:=FldR) eps (bopR b1 d1 u1 a1) (bopR b2 d2 u2 a2) = Some (bcfuseR b1 d1 u1 a1 b2 d2 u2 a2) /\
  wf_bop (cfuse_b b1 u1 b2 u2) (cfuse_b d1 u1 d2 u2) (cfuse_u u1 u2) (cfuse_a a1 u1 a2 u2).
Proof.
  intros W1 W2 Hn. pose proof (cfuse_wf _ _ _ _ _ _ _ _ W1 W2 Hn) as W. split; [|exact W].
  destruct W1 as (Hb1 & Hd1 & Hu1 & Hs1 & Ha1). destruct W2 as (Hb2 & Hd2 & Hu2 & Hs2 & Ha2).
  pose proof (cfuse_k_pos u1 u2 ltac:(lra) ltac:(lra) Hn) as Hk.
  rewrite bcfuse_eval.
  - apply (btry_new_ok eps eps_range). exact W.
  - lra.
  - destruct (iso u1 && iso u2) eqn:E; [left; reflexivity|right].
    pose proof (cfuse_den_pos u1 u2 ltac:(lra) ltac:(lra) Hn E). lra.
Qed.

(* two dogmatic operands: kappa = 0, the division is undefined and try_new rejects *)
Lemma bcfuse_both_dogmatic b1 d1 a1 b2 d2 a2 :
  bcfuse (B:=FldR) eps (bopR b1 d1 0 a1) (bopR b2 d2 0 a2) = None.
Proof.
  unfold bcfuse, bopR; cbn [bb bd bu ba]. rsimpl.
  replace (0 + 0 - 0 * 0) with 0 by lra. rewrite !div_zero.
  unfold btry_new, bcheck_simplex. cbn [add lift2 is_one]. cbn [andb]. rewrite andb_false_r. reflexivity.
Qed.

Lemma bcfuse_err_iff b1 d1 u1 a1 b2 d2 u2 a2 :
  wf_bop b1 d1 u1 a1 -> wf_bop b2 d2 u2 a2 ->
  (bcfuse (B:=FldR) eps (bopR b1 d1 u1 a1) (bopR b2 d2 u2 a2) = None <-> u1 = 0 /\ u2 = 0).
Proof.
  intros W1 W2. split.
  - intros HN. destruct (Req_EM_T u1 0) as [E1|E1]; destruct (Req_EM_T u2 0) as [E2|E2]; auto;
      (destruct (bcfuse_defined _ _ _ _ _ _ _ _ W1 W2) as [H _]; [lra|]; rewrite H in HN; discriminate).
  - intros (-> & ->). apply bcfuse_both_dogmatic.
Qed.


(* tactics shared by the three comparison lemmas *)
Ltac tuple_eq :=
  unfold cfuse_b, cfuse_u; cbn [f0 f1 FldR F];
  apply tuple5; try reflexivity; try (field; nra); try lra.

Ltac aeq_close A := apply aeq_some in A; apply Rabs_le; lra.

Lemma acm_core b1 d1 u1 a1 b2 d2 u2 a2 :
  wf_bop b1 d1 u1 a1 -> wf_bop b2 d2 u2 a2 -> crisp u1 -> crisp u2 -> ~ (u1 = 0 /\ u2 = 0) ->
  exists am,
    fuse (B:=FldR) eps ACm false (bop_to_mul (bopR b1 d1 u1 a1)) (bop_to_mul (bopR b2 d2 u2 a2)) =
      bop_to_mul (bopR (cfuse_b b1 u1 b2 u2) (cfuse_b d1 u1 d2 u2) (cfuse_u u1 u2) am) /\
    (am = cfuse_a a1 u1 a2 u2 \/ (am = a1 /\ Rabs (a1 - a2) <= eps)).
Proof.
  intros (Hb1 & Hd1 & Hu1 & Hs1 & Ha1) (Hb2 & Hd2 & Hu2 & Hs2 & Ha2) C1 C2 Hn.
  assert (d1 = 1 - b1 - u1) by lra. assert (d2 = 1 - b2 - u2) by lra. subst d1 d2.
  destruct (crisp_cases u1 ltac:(lra) C1) as [(E1 & Z1 & O1)|[(E1 & Z1 & O1)|(E1 & Z1 & O1)]];
  destruct (crisp_cases u2 ltac:(lra) C2) as [(E2 & Z2 & O2)|[(E2 & Z2 & O2)|(E2 & Z2 & O2)]];
  try (exfalso; apply Hn; split; assumption);
  unfold fuse, compute_simplex, compute_base_rate, mean_or_same, bop_to_mul, bopR, cfuse_a; cbn [bb bd bu ba];
  rewrite Z1, O1, Z2, O2; cbn [andb orb bel unc fst snd map map2]; rsimpl; rewrite ?aeq_compl;
  unfold zero, one; cbn [f0 f1 FldR F].
  - (* dogmatic, partial *) subst u1. exists a1. split; [tuple_eq|left; field; nra].
  - (* dogmatic, vacuous *) subst u1 u2. assert (b2 = 0) by lra. subst b2.
    exists a1. split; [tuple_eq|left; field; nra].
  - (* partial, dogmatic *) subst u2. exists a2. split; [tuple_eq|left; field; nra].
  - (* partial, partial *)
    assert (Hk : 0 < u1 + u2 - u1 * u2) by nra.
    assert (Hden : 0 < u2 * (1 - u1) + u1 * (1 - u2)) by nra.
    rewrite !(div_some _ (u1 + u2 - u1 * u2)) by lra.
    rewrite normalized2 by (field; lra). cbn [bel unc fst snd].
    destruct (aeq (B:=FldR) eps (Some a1) (Some a2)) eqn:A.
    + exists a1. split; [reflexivity|right; split; [reflexivity|aeq_close A]].
    + rewrite !div_some by lra. eexists. split; [|left; reflexivity].
      tuple_eq.
  - (* partial, vacuous *) subst u2. assert (b2 = 0) by lra. subst b2.
    exists a1. split; [tuple_eq|left; field; nra].
  - (* vacuous, dogmatic *) subst u1 u2. assert (b1 = 0) by lra. subst b1.
    exists a2. split; [tuple_eq|left; field; nra].
  - (* vacuous, partial *) subst u1. assert (b1 = 0) by lra. subst b1.
    exists a2. split; [tuple_eq|left; field; nra].
  - (* vacuous, vacuous *) subst u1 u2. assert (b1 = 0) by lra. assert (b2 = 0) by lra. subst b1 b2.
    destruct (aeq (B:=FldR) eps (Some a1) (Some a2)) eqn:A.
    + exists a1. split; [tuple_eq|right; split; [reflexivity|aeq_close A]].
    + rewrite !div_some by lra. exists ((a1 + a2) / 2). split; [tuple_eq|left; reflexivity].
Qed.


(* the multinomial base rate [am] is the binomial one [a], or - when the multinomial
   "base rates approximately equal" shortcut fires - the left base rate a1 *)
Lemma am_props a1 a2 a am : Rabs (a1 - a) <= Rabs (a1 - a2) ->
  (am = a \/ (am = a1 /\ Rabs (a1 - a2) <= eps)) ->
  (a1 = a2 \/ eps < Rabs (a1 - a2) -> am = a) /\ Rabs (am - a) <= eps.
Proof.
  intros Hc [->|(-> & Hle)].
  - split; [auto|]. replace (a - a) with 0 by lra. rewrite Rabs_R0. lra.
  - split; [|lra]. intros [->|Hlt]; [|lra].
    replace (a2 - a2) with 0 in Hc by lra. rewrite Rabs_R0 in Hc.
    destruct (Req_dec (a2 - a) 0) as [E|E]; [lra|]. apply Rabs_no_R0 in E.
    pose proof (Rabs_pos (a2 - a)). lra.
Qed.

Lemma am_unit a1 a am : 0 <= a1 <= 1 -> 0 <= a <= 1 ->
  (am = a \/ (am = a1 /\ Rabs (a1 - a) <= eps)) -> 0 <= am <= 1.
Proof. intros H1 H2 [->|(-> & _)]; assumption. Qed.

Lemma mean_close a1 a2 : Rabs (a1 - (a1 + a2) / 2) <= Rabs (a1 - a2).
Proof.
  replace ((a1 + a2) / 2) with ((a1 * 1 + a2 * 1) / (1 + 1)) by field.
  apply wmean_close; lra.
Qed.

Lemma cfuse_a_close a1 u1 a2 u2 : 0 <= u1 <= 1 -> 0 <= u2 <= 1 -> ~ (u1 = 0 /\ u2 = 0) ->
  Rabs (a1 - cfuse_a a1 u1 a2 u2) <= Rabs (a1 - a2).
Proof.
  intros H1 H2 Hn. unfold cfuse_a. destruct (iso u1 && iso u2) eqn:E; [apply mean_close|].
  pose proof (cfuse_den_pos u1 u2 H1 H2 Hn E) as Hden.
  replace (a1 * u2 * (1 - u1) + a2 * u1 * (1 - u2)) with (a1 * (u2 * (1 - u1)) + a2 * (u1 * (1 - u2))) by ring.
  apply wmean_close; nra.
Qed.

(* C13, cumulative fusion: outside the slack regions and unless both operands are dogmatic,
   the multinomial aleatory cumulative fusion of the converted operands is the conversion of
   the binomial result, up to the base-rate shortcut (exact when a1 = a2, when |a1-a2| > eps,
   and always when eps = 0; within eps otherwise) *)
Lemma cfuse_eq_acm b1 d1 u1 a1 b2 d2 u2 a2 :
  wf_bop b1 d1 u1 a1 -> wf_bop b2 d2 u2 a2 -> crisp u1 -> crisp u2 -> ~ (u1 = 0 /\ u2 = 0) ->
  let X := bopR b1 d1 u1 a1 in let Y := bopR b2 d2 u2 a2 in
  let b := cfuse_b b1 u1 b2 u2 in let d := cfuse_b d1 u1 d2 u2 in
  let u := cfuse_u u1 u2 in let a := cfuse_a a1 u1 a2 u2 in
  bcfuse (B:=FldR) eps X Y = Some (bopR b d u a) /\ wf_bop b d u a /\
  exists am,
    fuse (B:=FldR) eps ACm false (bop_to_mul X) (bop_to_mul Y) = bop_to_mul (bopR b d u am) /\
    mul_to_bop (fuse (B:=FldR) eps ACm false (bop_to_mul X) (bop_to_mul Y)) = bopR b d u am /\
    wf_bop b d u am /\
    (am = a \/ (am = a1 /\ Rabs (a1 - a2) <= eps)) /\
    (a1 = a2 \/ eps < Rabs (a1 - a2) -> am = a) /\
    Rabs (am - a) <= eps.
Proof.
  intros W1 W2 C1 C2 Hn X Y b d u a.
  destruct (bcfuse_defined _ _ _ _ _ _ _ _ W1 W2 Hn) as [HB HW].
  split; [exact HB|]. split; [exact HW|].
  destruct (acm_core _ _ _ _ _ _ _ _ W1 W2 C1 C2 Hn) as (am & HF & Ham).
  exists am. split; [exact HF|]. split; [subst X Y; rewrite HF; apply convert_roundtrip_any|].
  assert (Hc : Rabs (a1 - a) <= Rabs (a1 - a2)).
  { destruct W1 as (? & ? & ? & ? & ?), W2 as (? & ? & ? & ? & ?). apply cfuse_a_close; try lra; assumption. }
  split.
  - destruct HW as (? & ? & ? & ? & Ha). repeat split; try assumption;
      destruct Ham as [->|(-> & _)]; destruct W1 as (_ & _ & _ & _ & ?); lra.
  - split; [exact Ham|]. apply (am_props a1 a2 a am Hc Ham).
Qed.

(* ======================================== averaging and weighted fusion *)

Definition bop4 (q : R * R * R * R) : bop (B:=FldR) := let '(b, d, u, a) := q in bopR b d u a.
Definition wf4 (q : R * R * R * R) : Prop := let '(b, d, u, a) := q in wf_bop b d u a.
(* well-formed up to a deficit of at most eps in the sum: what the "both dogmatic" branch
   yields when an operand's uncertainty lies in the slack region (0, eps] *)
Definition wf4a (q : R * R * R * R) : Prop :=
  let '(b, d, u, a) := q in
  0 <= b /\ 0 <= d /\ 0 <= u /\ 1 - eps <= b + d + u <= 1 /\ 0 <= a <= 1.

Lemma wf4_wf4a q : wf4 q -> wf4a q.
Proof. destruct q as [[[b d] u] a]. unfold wf4, wf4a, wf_bop. lra. Qed.

Lemma btry_new_wf4a q : wf4a q ->
  let '(b, d, u, a) := q in
  btry_new (B:=FldR) eps (Some b) (Some d) (Some u) (Some a) = Some (bop4 q).
Proof.
  destruct q as [[[b d] u] a]. intros (Hb & Hd & Hu & Hs & Ha). unfold btry_new, bcheck_simplex, bop4.
  rewrite !add_some.
  assert (E1 : in_unit (B:=FldR) eps (Some a) = true) by (apply in_unit_some; lra).
  assert (E2 : is_one (B:=FldR) eps (Some (b + d + u)) = true) by (apply is_one_some; lra).
  assert (E3 : in_unit (B:=FldR) eps (Some b) = true) by (apply in_unit_some; lra).
  assert (E4 : in_unit (B:=FldR) eps (Some d) = true) by (apply in_unit_some; lra).
  assert (E5 : in_unit (B:=FldR) eps (Some u) = true) by (apply in_unit_some; lra).
  rewrite E1, E2, E3, E4, E5. reflexivity.
Qed.

Definition gmean (g x y : R) : R := g * x + (1 - g) * y.
Definition afuse_b (b1 u1 b2 u2 : R) : R := (b1 * u2 + b2 * u1) / (u1 + u2).
Definition afuse_u (u1 u2 : R) : R := 2 * u1 * u2 / (u1 + u2).

Definition bafuseR (b1 d1 u1 a1 b2 d2 u2 a2 g : R) : R * R * R * R :=
  if isz u1 && isz u2 then (gmean g b1 b2, gmean g d1 d2, 0, gmean g a1 a2)
  else (afuse_b b1 u1 b2 u2, afuse_b d1 u1 d2 u2, afuse_u u1 u2, (a1 + a2) / 2).

Lemma both_isz u1 u2 : 0 <= u1 -> 0 <= u2 -> isz u1 && isz u2 = true -> u1 <= eps /\ u2 <= eps.
Proof.
  intros H1 H2 E. apply andb_true_iff in E. destruct E as [E1 E2].
  apply is_zero_some in E1. apply is_zero_some in E2. lra.
Qed.
Lemma not_both_isz u1 u2 : 0 <= u1 -> 0 <= u2 -> isz u1 && isz u2 = false -> 0 < u1 + u2 /\ ~ (u1 = 0 /\ u2 = 0).
Proof.
  intros H1 H2 E. apply andb_false_iff in E.
  destruct E as [E|E]; apply is_zero_some_false in E; lra.
Qed.

Lemma gmean_range g x y lo hi : 0 <= g <= 1 -> lo <= x <= hi -> lo <= y <= hi -> lo <= gmean g x y <= hi.
Proof. intros Hg Hx Hy. unfold gmean. nra. Qed.

Lemma bafuse_wf4a b1 d1 u1 a1 b2 d2 u2 a2 g :
  wf_bop b1 d1 u1 a1 -> wf_bop b2 d2 u2 a2 -> 0 <= g <= 1 ->
  wf4a (bafuseR b1 d1 u1 a1 b2 d2 u2 a2 g) /\
  (isz u1 && isz u2 = false \/ (u1 = 0 /\ u2 = 0) -> wf4 (bafuseR b1 d1 u1 a1 b2 d2 u2 a2 g)).
Proof.
  intros (Hb1 & Hd1 & Hu1 & Hs1 & Ha1) (Hb2 & Hd2 & Hu2 & Hs2 & Ha2) Hg.
  unfold bafuseR. destruct (isz u1 && isz u2) eqn:E.
  - destruct (both_isz u1 u2 Hu1 Hu2 E) as [L1 L2].
    pose proof (gmean_range g b1 b2 0 1 Hg ltac:(lra) ltac:(lra)).
    pose proof (gmean_range g d1 d2 0 1 Hg ltac:(lra) ltac:(lra)).
    pose proof (gmean_range g a1 a2 0 1 Hg ltac:(lra) ltac:(lra)).
    pose proof (gmean_range g u1 u2 0 eps Hg ltac:(lra) ltac:(lra)) as Hgu.
    assert (Es : gmean g b1 b2 + gmean g d1 d2 + 0 = 1 - gmean g u1 u2) by (unfold gmean; nra).
    split.
    + unfold wf4a. lra.
    + intros [?|(-> & ->)]; [discriminate|]. unfold wf4, wf_bop. unfold gmean in *. nra.
  - destruct (not_both_isz u1 u2 Hu1 Hu2 E) as [Hp _].
    assert (W : wf4 (afuse_b b1 u1 b2 u2, afuse_b d1 u1 d2 u2, afuse_u u1 u2, (a1 + a2) / 2)).
    { unfold wf4, wf_bop, afuse_b, afuse_u.
      split; [apply div_nonneg; nra|]. split; [apply div_nonneg; nra|]. split; [apply div_nonneg; nra|].
      split; [|lra].
      assert (d1 = 1 - b1 - u1) by lra. assert (d2 = 1 - b2 - u2) by lra. subst d1 d2. field. lra. }
    split; [apply wf4_wf4a; exact W|intros _; exact W].
Qed.

(* afuse never fails on well-formed operands with a weight in [0,1] *)
Lemma bafuse_defined b1 d1 u1 a1 b2 d2 u2 a2 g :
  wf_bop b1 d1 u1 a1 -> wf_bop b2 d2 u2 a2 -> 0 <= g <= 1 ->
  bafuse (B:=FldR) eps (bopR b1 d1 u1 a1) (bopR b2 d2 u2 a2) (Some g) =
    Some (bop4 (bafuseR b1 d1 u1 a1 b2 d2 u2 a2 g)).
Proof.
  intros W1 W2 Hg. destruct (bafuse_wf4a _ _ _ _ _ _ _ _ g W1 W2 Hg) as [HW _].
  apply btry_new_wf4a in HW. revert HW.
  destruct W1 as (Hb1 & Hd1 & Hu1 & Hs1 & Ha1). destruct W2 as (Hb2 & Hd2 & Hu2 & Hs2 & Ha2).
  unfold bafuse, bafuseR, bopR; cbn [bb bd bu ba]. destruct (isz u1 && isz u2) eqn:E; rsimpl.
  - unfold gmean. intros HW; exact HW.
  - destruct (not_both_isz u1 u2 Hu1 Hu2 E) as [Hp _].
    rewrite !(div_some _ (u1 + u2)) by lra. rewrite div_some by lra.
    unfold afuse_b, afuse_u. intros HW.
    replace ((1 + 1) * u1 * u2 / (u1 + u2)) with (2 * u1 * u2 / (u1 + u2)) by (field; lra).
    replace ((a1 + a2) / (1 + 1)) with ((a1 + a2) / 2) by field. exact HW.
Qed.


Definition crisp0 (u : R) : Prop := u = 0 \/ eps < u.

Lemma crisp0_cases u : 0 <= u -> crisp0 u ->
  (u = 0 /\ isz u = true) \/ (eps < u /\ isz u = false).
Proof.
  intros Hu [H|H]; [left|right]; (split; [assumption|]);
    [apply is_zero_some|apply is_zero_some_false]; lra.
Qed.
Lemma crisp_crisp0 u : crisp u -> crisp0 u. Proof. intros [H _]; exact H. Qed.

Lemma avg_core b1 d1 u1 a1 b2 d2 u2 a2 :
  wf_bop b1 d1 u1 a1 -> wf_bop b2 d2 u2 a2 -> crisp0 u1 -> crisp0 u2 ->
  let '(b, d, u, a) := bafuseR b1 d1 u1 a1 b2 d2 u2 a2 (1/2) in
  exists am,
    fuse (B:=FldR) eps Avg false (bop_to_mul (bopR b1 d1 u1 a1)) (bop_to_mul (bopR b2 d2 u2 a2)) =
      bop_to_mul (bopR b d u am) /\
    (am = a \/ (am = a1 /\ Rabs (a1 - a2) <= eps)).
Proof.
  intros (Hb1 & Hd1 & Hu1 & Hs1 & Ha1) (Hb2 & Hd2 & Hu2 & Hs2 & Ha2) C1 C2.
  assert (d1 = 1 - b1 - u1) by lra. assert (d2 = 1 - b2 - u2) by lra. subst d1 d2.
  destruct (crisp0_cases u1 Hu1 C1) as [(E1 & Z1)|(E1 & Z1)];
  destruct (crisp0_cases u2 Hu2 C2) as [(E2 & Z2)|(E2 & Z2)];
  unfold bafuseR, fuse, compute_simplex, compute_base_rate, mean_or_same, bop_to_mul, bopR, gmean, afuse_b, afuse_u;
  cbn [bb bd bu ba]; rewrite Z1, Z2; cbn [andb orb bel unc fst snd map map2]; rsimpl; rewrite ?aeq_compl;
  unfold zero, one; cbn [f0 f1 FldR F].
  - subst u1 u2.
    rewrite !div_some by lra. rewrite normalized2 by (field; lra). cbn [bel unc fst snd].
    eexists. split; [|left; reflexivity]. tuple_eq.
  - subst u1. destruct (aeq (B:=FldR) eps (Some a1) (Some a2)) eqn:A.
    + exists a1. split; [tuple_eq|right; split; [reflexivity|aeq_close A]].
    + rewrite !div_some by lra. eexists. split; [|left; reflexivity]. tuple_eq.
  - subst u2. destruct (aeq (B:=FldR) eps (Some a1) (Some a2)) eqn:A.
    + exists a1. split; [tuple_eq|right; split; [reflexivity|aeq_close A]].
    + rewrite !div_some by lra. eexists. split; [|left; reflexivity]. tuple_eq.
  - assert (Hp : 0 < u1 + u2) by lra.
    rewrite !(div_some _ (u1 + u2)) by lra.
    rewrite normalized2 by (field; lra). cbn [bel unc fst snd].
    destruct (aeq (B:=FldR) eps (Some a1) (Some a2)) eqn:A.
    + exists a1. split; [tuple_eq|right; split; [reflexivity|aeq_close A]].
    + rewrite !div_some by lra. eexists. split; [|left; reflexivity]. tuple_eq.
Qed.


Lemma crisp0_guard u1 u2 : 0 <= u1 -> 0 <= u2 -> crisp0 u1 -> crisp0 u2 ->
  isz u1 && isz u2 = false \/ (u1 = 0 /\ u2 = 0).
Proof.
  intros H1 H2 C1 C2.
  destruct (crisp0_cases u1 H1 C1) as [(E1 & Z1)|(E1 & Z1)];
  destruct (crisp0_cases u2 H2 C2) as [(E2 & Z2)|(E2 & Z2)]; rewrite Z1, Z2; cbn [andb]; auto.
Qed.

Lemma bafuse_a_close b1 d1 u1 a1 b2 d2 u2 a2 :
  let '(_, _, _, a) := bafuseR b1 d1 u1 a1 b2 d2 u2 a2 (1/2) in Rabs (a1 - a) <= Rabs (a1 - a2).
Proof.
  unfold bafuseR. destruct (isz u1 && isz u2); [|apply mean_close].
  unfold gmean. replace (1 / 2 * a1 + (1 - 1 / 2) * a2) with ((a1 + a2) / 2) by field. apply mean_close.
Qed.

(* C13, averaging fusion with equal weights; the only guard of either family is the
   dogmatic one, so only the slack region (0, eps] is excluded *)
Lemma afuse_eq_avg b1 d1 u1 a1 b2 d2 u2 a2 :
  wf_bop b1 d1 u1 a1 -> wf_bop b2 d2 u2 a2 -> crisp0 u1 -> crisp0 u2 ->
  let X := bopR b1 d1 u1 a1 in let Y := bopR b2 d2 u2 a2 in
  let '(b, d, u, a) := bafuseR b1 d1 u1 a1 b2 d2 u2 a2 (1/2) in
  bafuse (B:=FldR) eps X Y (Some (1/2)) = Some (bopR b d u a) /\ wf_bop b d u a /\
  exists am,
    fuse (B:=FldR) eps Avg false (bop_to_mul X) (bop_to_mul Y) = bop_to_mul (bopR b d u am) /\
    mul_to_bop (fuse (B:=FldR) eps Avg false (bop_to_mul X) (bop_to_mul Y)) = bopR b d u am /\
    wf_bop b d u am /\
    (am = a \/ (am = a1 /\ Rabs (a1 - a2) <= eps)) /\
    (a1 = a2 \/ eps < Rabs (a1 - a2) -> am = a) /\
    Rabs (am - a) <= eps.
Proof.
  intros W1 W2 C1 C2 X Y. subst X Y.
  pose proof (bafuse_defined _ _ _ _ _ _ _ _ (1/2) W1 W2 ltac:(lra)) as HB.
  destruct (bafuse_wf4a _ _ _ _ _ _ _ _ (1/2) W1 W2 ltac:(lra)) as [_ HW].
  assert (G : isz u1 && isz u2 = false \/ (u1 = 0 /\ u2 = 0)).
  { destruct W1 as (_ & _ & ? & _), W2 as (_ & _ & ? & _). apply crisp0_guard; assumption. }
  specialize (HW G). clear G.
  pose proof (avg_core _ _ _ _ _ _ _ _ W1 W2 C1 C2) as HC.
  pose proof (bafuse_a_close b1 d1 u1 a1 b2 d2 u2 a2) as Hc.
  destruct (bafuseR b1 d1 u1 a1 b2 d2 u2 a2 (1/2)) as [[[b d] u] a].
  cbn [bop4 wf4] in HB, HW. split; [exact HB|]. split; [exact HW|].
  destruct HC as (am & HF & Ham). exists am. split; [exact HF|].
  split; [rewrite HF; apply convert_roundtrip_any|].
  split.
  - destruct HW as (? & ? & ? & ? & Ha). repeat split; try assumption;
      destruct Ham as [->|(-> & _)]; destruct W1 as (_ & _ & _ & _ & ?); lra.
  - split; [exact Ham|]. apply (am_props a1 a2 a am Hc Ham).
Qed.

(* ------------------------------------------------------ weighted fusion *)

Definition wfuse_b (b1 u1 b2 u2 : R) : R :=
  (b1 * (1 - u1) * u2 + b2 * (1 - u2) * u1) / (u1 * (1 - u2) + u2 * (1 - u1)).
Definition wfuse_u (u1 u2 : R) : R :=
  (1 - u1 + (1 - u2)) * u1 * u2 / (u1 * (1 - u2) + u2 * (1 - u1)).
Definition wfuse_a (a1 u1 a2 u2 : R) : R :=
  (a1 * (1 - u1) + a2 * (1 - u2)) / (1 - u1 + (1 - u2)).

Definition bwfuseR (b1 d1 u1 a1 b2 d2 u2 a2 g : R) : R * R * R * R :=
  if isz u1 && isz u2 then (gmean g b1 b2, gmean g d1 d2, 0, gmean g a1 a2)
  else if iso u1 && iso u2 then (0, 0, 1, (a1 + a2) / 2)
  else (wfuse_b b1 u1 b2 u2, wfuse_b d1 u1 d2 u2, wfuse_u u1 u2, wfuse_a a1 u1 a2 u2).

Lemma not_both_iso u1 u2 : u1 <= 1 -> u2 <= 1 -> iso u1 && iso u2 = false -> 0 < 1 - u1 + (1 - u2).
Proof.
  intros H1 H2 E. apply andb_false_iff in E.
  destruct E as [E|E]; apply is_one_some_false in E; lra.
Qed.

Lemma wfuse_wf b1 d1 u1 a1 b2 d2 u2 a2 :
  wf_bop b1 d1 u1 a1 -> wf_bop b2 d2 u2 a2 ->
  isz u1 && isz u2 = false -> iso u1 && iso u2 = false ->
  0 < u1 * (1 - u2) + u2 * (1 - u1) /\ 0 < 1 - u1 + (1 - u2) /\
  wf_bop (wfuse_b b1 u1 b2 u2) (wfuse_b d1 u1 d2 u2) (wfuse_u u1 u2) (wfuse_a a1 u1 a2 u2).
Proof.
  intros (Hb1 & Hd1 & Hu1 & Hs1 & Ha1) (Hb2 & Hd2 & Hu2 & Hs2 & Ha2) EZ EO.
  destruct (not_both_isz u1 u2 Hu1 Hu2 EZ) as [_ Hn].
  pose proof (cfuse_den_pos u1 u2 ltac:(lra) ltac:(lra) Hn EO) as Hden'.
  assert (Hden : 0 < u1 * (1 - u2) + u2 * (1 - u1)) by lra.
  pose proof (not_both_iso u1 u2 ltac:(lra) ltac:(lra) EO) as Hcs.
  split; [exact Hden|]. split; [exact Hcs|].
  assert (P1 : 0 <= (1 - u1) * u2) by nra. assert (P2 : 0 <= (1 - u2) * u1) by nra.
  unfold wf_bop, wfuse_b, wfuse_u, wfuse_a.
  split; [apply div_nonneg; nra|]. split; [apply div_nonneg; nra|].
  split; [apply div_nonneg; [|lra]|].
  { assert (0 <= u1 * u2) by nra. nra. }
  split.
  - assert (d1 = 1 - b1 - u1) by lra. assert (d2 = 1 - b2 - u2) by lra. subst d1 d2. field. lra.
  - apply wmean_unit; lra.
Qed.

Lemma bwfuse_wf4a b1 d1 u1 a1 b2 d2 u2 a2 g :
  wf_bop b1 d1 u1 a1 -> wf_bop b2 d2 u2 a2 -> 0 <= g <= 1 ->
  wf4a (bwfuseR b1 d1 u1 a1 b2 d2 u2 a2 g) /\
  (isz u1 && isz u2 = false \/ (u1 = 0 /\ u2 = 0) -> wf4 (bwfuseR b1 d1 u1 a1 b2 d2 u2 a2 g)).
Proof.
  intros W1 W2 Hg. unfold bwfuseR. destruct (isz u1 && isz u2) eqn:E.
  - destruct W1 as (Hb1 & Hd1 & Hu1 & Hs1 & Ha1). destruct W2 as (Hb2 & Hd2 & Hu2 & Hs2 & Ha2).
    destruct (both_isz u1 u2 Hu1 Hu2 E) as [L1 L2].
    pose proof (gmean_range g b1 b2 0 1 Hg ltac:(lra) ltac:(lra)).
    pose proof (gmean_range g d1 d2 0 1 Hg ltac:(lra) ltac:(lra)).
    pose proof (gmean_range g a1 a2 0 1 Hg ltac:(lra) ltac:(lra)).
    pose proof (gmean_range g u1 u2 0 eps Hg ltac:(lra) ltac:(lra)) as Hgu.
    assert (Es : gmean g b1 b2 + gmean g d1 d2 + 0 = 1 - gmean g u1 u2) by (unfold gmean; nra).
    split.
    + unfold wf4a. lra.
    + intros [?|(-> & ->)]; [discriminate|]. unfold wf4, wf_bop. unfold gmean in *. nra.
  - destruct (iso u1 && iso u2) eqn:EO.
    + assert (W : wf4 (0, 0, 1, (a1 + a2) / 2)).
      { destruct W1 as (_ & _ & _ & _ & ?), W2 as (_ & _ & _ & _ & ?). unfold wf4, wf_bop. lra. }
      split; [apply wf4_wf4a; exact W|intros _; exact W].
    + destruct (wfuse_wf _ _ _ _ _ _ _ _ W1 W2 E EO) as (_ & _ & W).
      split; [apply wf4_wf4a; exact W|intros _; exact W].
Qed.

(* wfuse never fails on well-formed operands with a weight in [0,1] *)
Lemma bwfuse_defined b1 d1 u1 a1 b2 d2 u2 a2 g :
  wf_bop b1 d1 u1 a1 -> wf_bop b2 d2 u2 a2 -> 0 <= g <= 1 ->
  bwfuse (B:=FldR) eps (bopR b1 d1 u1 a1) (bopR b2 d2 u2 a2) (Some g) =
    Some (bop4 (bwfuseR b1 d1 u1 a1 b2 d2 u2 a2 g)).
Proof.
  intros W1 W2 Hg. destruct (bwfuse_wf4a _ _ _ _ _ _ _ _ g W1 W2 Hg) as [HW _].
  apply btry_new_wf4a in HW. revert HW.
  unfold bwfuse, bwfuseR, bopR; cbn [bb bd bu ba]. destruct (isz u1 && isz u2) eqn:E; rsimpl.
  - unfold gmean. intros HW; exact HW.
  - destruct (iso u1 && iso u2) eqn:EO.
    + rewrite div_some by lra. unfold zero, one; cbn [f0 f1 FldR F]. intros HW.
      replace ((a1 + a2) / (1 + 1)) with ((a1 + a2) / 2) by field. exact HW.
    + destruct (wfuse_wf _ _ _ _ _ _ _ _ W1 W2 E EO) as (Hden & Hcs & _).
      rewrite !(div_some _ (u1 * (1 - u2) + u2 * (1 - u1))) by lra. rewrite div_some by lra.
      unfold wfuse_b, wfuse_u, wfuse_a. intros HW; exact HW.
Qed.


Lemma wgh_core b1 d1 u1 a1 b2 d2 u2 a2 :
  wf_bop b1 d1 u1 a1 -> wf_bop b2 d2 u2 a2 -> crisp u1 -> crisp u2 ->
  let '(b, d, u, a) := bwfuseR b1 d1 u1 a1 b2 d2 u2 a2 (1/2) in
  exists am,
    fuse (B:=FldR) eps Wgh false (bop_to_mul (bopR b1 d1 u1 a1)) (bop_to_mul (bopR b2 d2 u2 a2)) =
      bop_to_mul (bopR b d u am) /\
    (am = a \/ (am = a1 /\ Rabs (a1 - a2) <= eps)).
Proof.
  intros (Hb1 & Hd1 & Hu1 & Hs1 & Ha1) (Hb2 & Hd2 & Hu2 & Hs2 & Ha2) C1 C2.
  assert (d1 = 1 - b1 - u1) by lra. assert (d2 = 1 - b2 - u2) by lra. subst d1 d2.
  destruct (crisp_cases u1 ltac:(lra) C1) as [(E1 & Z1 & O1)|[(E1 & Z1 & O1)|(E1 & Z1 & O1)]];
  destruct (crisp_cases u2 ltac:(lra) C2) as [(E2 & Z2 & O2)|[(E2 & Z2 & O2)|(E2 & Z2 & O2)]];
  unfold bwfuseR, fuse, compute_simplex, compute_base_rate, mean_or_same, bop_to_mul, bopR, gmean,
    wfuse_b, wfuse_u, wfuse_a;
  cbn [bb bd bu ba]; rewrite Z1, O1, Z2, O2; cbn [andb orb bel unc fst snd map map2]; rsimpl;
  rewrite ?aeq_compl; unfold zero, one; cbn [f0 f1 FldR F].
  - (* dogmatic, dogmatic: equal-weight mean *) subst u1 u2.
    rewrite !div_some by lra. rewrite normalized2 by (field; lra). cbn [bel unc fst snd].
    eexists. split; [|left; reflexivity]. tuple_eq.
  - (* dogmatic, partial *) subst u1. destruct (aeq (B:=FldR) eps (Some a1) (Some a2)) eqn:A.
    + exists a1. split; [tuple_eq|right; split; [reflexivity|aeq_close A]].
    + rewrite !div_some by lra. eexists. split; [|left; reflexivity]. tuple_eq.
  - (* dogmatic, vacuous *) subst u1 u2. assert (b2 = 0) by lra. subst b2.
    exists a1. split; [tuple_eq|left; field].
  - (* partial, dogmatic *) subst u2. destruct (aeq (B:=FldR) eps (Some a1) (Some a2)) eqn:A.
    + exists a1. split; [tuple_eq|right; split; [reflexivity|aeq_close A]].
    + rewrite !div_some by lra. eexists. split; [|left; reflexivity]. tuple_eq.
  - (* partial, partial *)
    assert (Hden : 0 < u2 * (1 - u1) + u1 * (1 - u2)) by nra.
    rewrite !(div_some _ (u2 * (1 - u1) + u1 * (1 - u2))) by lra.
    rewrite normalized2 by (field; lra). cbn [bel unc fst snd].
    destruct (aeq (B:=FldR) eps (Some a1) (Some a2)) eqn:A.
    + exists a1. split; [tuple_eq|right; split; [reflexivity|aeq_close A]].
    + rewrite !div_some by lra. eexists. split; [|left; reflexivity]. tuple_eq.
  - (* partial, vacuous *) subst u2. assert (b2 = 0) by lra. subst b2.
    exists a1. split; [tuple_eq|left; field; lra].
  - (* vacuous, dogmatic *) subst u1 u2. assert (b1 = 0) by lra. subst b1.
    exists a2. split; [tuple_eq|left; field].
  - (* vacuous, partial *) subst u1. assert (b1 = 0) by lra. subst b1.
    exists a2. split; [tuple_eq|left; field; lra].
  - (* vacuous, vacuous *) subst u1 u2. assert (b1 = 0) by lra. assert (b2 = 0) by lra. subst b1 b2.
    destruct (aeq (B:=FldR) eps (Some a1) (Some a2)) eqn:A.
    + exists a1. split; [tuple_eq|right; split; [reflexivity|aeq_close A]].
    + rewrite !div_some by lra. exists ((a1 + a2) / 2). split; [tuple_eq|left; reflexivity].
Qed.


Lemma bwfuse_a_close b1 d1 u1 a1 b2 d2 u2 a2 : u1 <= 1 -> u2 <= 1 ->
  let '(_, _, _, a) := bwfuseR b1 d1 u1 a1 b2 d2 u2 a2 (1/2) in Rabs (a1 - a) <= Rabs (a1 - a2).
Proof.
  intros H1 H2. unfold bwfuseR. destruct (isz u1 && isz u2).
  - unfold gmean. replace (1 / 2 * a1 + (1 - 1 / 2) * a2) with ((a1 + a2) / 2) by field. apply mean_close.
  - destruct (iso u1 && iso u2) eqn:EO; [apply mean_close|].
    unfold wfuse_a. apply wmean_close; [lra|lra|apply not_both_iso; assumption].
Qed.

(* C13, weighted fusion with equal weights *)
Lemma wfuse_eq_wgh b1 d1 u1 a1 b2 d2 u2 a2 :
  wf_bop b1 d1 u1 a1 -> wf_bop b2 d2 u2 a2 -> crisp u1 -> crisp u2 ->
  let X := bopR b1 d1 u1 a1 in let Y := bopR b2 d2 u2 a2 in
  let '(b, d, u, a) := bwfuseR b1 d1 u1 a1 b2 d2 u2 a2 (1/2) in
  bwfuse (B:=FldR) eps X Y (Some (1/2)) = Some (bopR b d u a) /\ wf_bop b d u a /\
  exists am,
    fuse (B:=FldR) eps Wgh false (bop_to_mul X) (bop_to_mul Y) = bop_to_mul (bopR b d u am) /\
    mul_to_bop (fuse (B:=FldR) eps Wgh false (bop_to_mul X) (bop_to_mul Y)) = bopR b d u am /\
    wf_bop b d u am /\
    (am = a \/ (am = a1 /\ Rabs (a1 - a2) <= eps)) /\
    (a1 = a2 \/ eps < Rabs (a1 - a2) -> am = a) /\
    Rabs (am - a) <= eps.
Proof.
  intros W1 W2 C1 C2 X Y. subst X Y.
  pose proof (bwfuse_defined _ _ _ _ _ _ _ _ (1/2) W1 W2 ltac:(lra)) as HB.
  destruct (bwfuse_wf4a _ _ _ _ _ _ _ _ (1/2) W1 W2 ltac:(lra)) as [_ HW].
  assert (G : isz u1 && isz u2 = false \/ (u1 = 0 /\ u2 = 0)).
  { destruct W1 as (_ & _ & ? & _), W2 as (_ & _ & ? & _).
    apply crisp0_guard; try assumption; apply crisp_crisp0; assumption. }
  specialize (HW G). clear G.
  pose proof (wgh_core _ _ _ _ _ _ _ _ W1 W2 C1 C2) as HC.
  assert (Hc := bwfuse_a_close b1 d1 u1 a1 b2 d2 u2 a2).
  assert (L1 : u1 <= 1) by (destruct W1 as (? & ? & ? & ? & ?); lra).
  assert (L2 : u2 <= 1) by (destruct W2 as (? & ? & ? & ? & ?); lra).
  specialize (Hc L1 L2).
  destruct (bwfuseR b1 d1 u1 a1 b2 d2 u2 a2 (1/2)) as [[[b d] u] a].
  cbn [bop4 wf4] in HB, HW. split; [exact HB|]. split; [exact HW|].
  destruct HC as (am & HF & Ham). exists am. split; [exact HF|].
  split; [rewrite HF; apply convert_roundtrip_any|].
  split.
  - destruct HW as (? & ? & ? & ? & Ha). repeat split; try assumption;
      destruct Ham as [->|(-> & _)]; destruct W1 as (_ & _ & _ & _ & ?); lra.
  - split; [exact Ham|]. apply (am_props a1 a2 a am Hc Ham).
Qed.

(* two dogmatic operands: both binomial operators return the gamma-weighted mean *)
Lemma bafuseR_dogmatic b1 d1 a1 b2 d2 a2 g :
  bafuseR b1 d1 0 a1 b2 d2 0 a2 g = (gmean g b1 b2, gmean g d1 d2, 0, gmean g a1 a2).
Proof.
  unfold bafuseR. rewrite (proj2 (is_zero_some eps 0)) by lra. reflexivity.
Qed.
Lemma bwfuseR_dogmatic b1 d1 a1 b2 d2 a2 g :
  bwfuseR b1 d1 0 a1 b2 d2 0 a2 g = (gmean g b1 b2, gmean g d1 d2, 0, gmean g a1 a2).
Proof.
  unfold bwfuseR. rewrite (proj2 (is_zero_some eps 0)) by lra. reflexivity.
Qed.

(* exact formulas of the closed forms away from the guards *)
Lemma bafuseR_generic b1 d1 u1 a1 b2 d2 u2 a2 g : eps < u1 \/ eps < u2 ->
  bafuseR b1 d1 u1 a1 b2 d2 u2 a2 g =
  (afuse_b b1 u1 b2 u2, afuse_b d1 u1 d2 u2, afuse_u u1 u2, (a1 + a2) / 2).
Proof.
  intros H. unfold bafuseR.
  assert (E : isz u1 && isz u2 = false).
  { apply andb_false_iff. destruct H; [left|right]; apply is_zero_some_false; lra. }
  rewrite E. reflexivity.
Qed.
Lemma bwfuseR_generic b1 d1 u1 a1 b2 d2 u2 a2 g :
  eps < u1 \/ eps < u2 -> u1 < 1 - 2 * eps \/ u2 < 1 - 2 * eps ->
  bwfuseR b1 d1 u1 a1 b2 d2 u2 a2 g =
  (wfuse_b b1 u1 b2 u2, wfuse_b d1 u1 d2 u2, wfuse_u u1 u2, wfuse_a a1 u1 a2 u2).
Proof.
  intros H H'. unfold bwfuseR.
  assert (E : isz u1 && isz u2 = false).
  { apply andb_false_iff. destruct H; [left|right]; apply is_zero_some_false; lra. }
  assert (E' : iso u1 && iso u2 = false).
  { apply andb_false_iff. destruct H'; [left|right]; apply is_one_some_false; lra. }
  rewrite E, E'. reflexivity.
Qed.
Lemma cfuse_a_generic a1 u1 a2 u2 : u1 < 1 - 2 * eps \/ u2 < 1 - 2 * eps ->
  cfuse_a a1 u1 a2 u2 =
  (a1 * u2 * (1 - u1) + a2 * u1 * (1 - u2)) / (u2 * (1 - u1) + u1 * (1 - u2)).
Proof.
  intros H'. unfold cfuse_a.
  assert (E' : iso u1 && iso u2 = false).
  { apply andb_false_iff. destruct H'; [left|right]; apply is_one_some_false; lra. }
  rewrite E'. reflexivity.
Qed.

End BiFuse.

(* The exclusion of the slack region is necessary: with eps = 1/8, u1 = 1/8 lies in (0, eps];
   the multinomial operator treats the left operand as dogmatic and returns it unchanged
   (u = 1/8) while the binomial closed form, which has no dogmatic guard, yields u = 1/9. *)
Lemma cfuse_slack_witness :
  let eps := 1/8 in
  let X := bopR (1/2) (3/8) (1/8) (1/2) in let Y := bopR (1/4) (1/4) (1/2) (1/2) in
  wf_bop (1/2) (3/8) (1/8) (1/2) /\ wf_bop (1/4) (1/4) (1/2) (1/2) /\
  (exists r, bcfuse (B:=FldR) eps X Y = Some r /\ bu r = Some (1/9)) /\
  bu (mul_to_bop (fuse (B:=FldR) eps ACm false (bop_to_mul X) (bop_to_mul Y))) = Some (1/8).
Proof.
  intros eps X Y.
  assert (He : 0 <= eps <= 1/8) by (unfold eps; lra).
  assert (W1 : wf_bop (1/2) (3/8) (1/8) (1/2)) by (unfold wf_bop; lra).
  assert (W2 : wf_bop (1/4) (1/4) (1/2) (1/2)) by (unfold wf_bop; lra).
  split; [exact W1|]. split; [exact W2|]. split.
  - destruct (bcfuse_defined eps He _ _ _ _ _ _ _ _ W1 W2 ltac:(lra)) as [H _].
    eexists. split; [exact H|]. unfold bcfuseR, bopR, cfuse_u; cbn [bu]. f_equal. field.
  - subst X Y. unfold fuse, compute_simplex, bop_to_mul, bopR; cbn [bb bd bu ba].
    assert (Z1 : is_zero (B:=FldR) eps (Some (1/8)) = true) by (apply is_zero_some; unfold eps; lra).
    assert (Z2 : is_zero (B:=FldR) eps (Some (1/2)) = false) by (apply is_zero_some_false; unfold eps; lra).
    assert (O1 : is_one (B:=FldR) eps (Some (1/8)) = false) by (apply is_one_some_false; unfold eps; lra).
    assert (O2 : is_one (B:=FldR) eps (Some (1/2)) = false) by (apply is_one_some_false; unfold eps; lra).
    rewrite Z1, Z2, O1, O2. cbn [andb orb bel unc fst snd mul_to_bop bu]. reflexivity.
Qed.
