(* C08 / C04: marginal base rate and deduction (mbr, projections, deduce_of, deduce,
   deduce_with of Model/Mul.v) on the real-number instance. *)
From Coq Require Import Reals List Bool Lra Lia Arith.
Import ListNotations.
From SL Require Import Model.Num Model.Vec Model.Mul Model.InstR Facts.RBase.
Open Scope R_scope.

(* ------------------------------------------------------------ list basics *)
Lemma ded_map2_map {X Y X' Y' Z} (f : X' -> Y' -> Z) (g1 : X -> X') (g2 : Y -> Y') l1 l2 :
  map2 f (map g1 l1) (map g2 l2) = map2 (fun x y => f (g1 x) (g2 y)) l1 l2.
Proof. revert l2; induction l1; destruct l2; cbn; auto. f_equal; auto. Qed.

Lemma ded_map2_ext_in {X Y Z} (f g : X -> Y -> Z) l1 l2 :
  (forall x y, In x l1 -> In y l2 -> f x y = g x y) -> map2 f l1 l2 = map2 g l1 l2.
Proof.
  revert l2; induction l1 as [|a l1 IH]; destruct l2 as [|b l2]; cbn [map2]; intros H; auto.
  rewrite H by (left; reflexivity). f_equal. apply IH. intros; apply H; right; assumption.
Qed.

Lemma ded_map2_some_in {X Y} (f : X -> Y -> RV) (g : X -> Y -> R) l1 l2 :
  (forall x y, In x l1 -> In y l2 -> f x y = Some (g x y)) ->
  map2 f l1 l2 = map Some (map2 g l1 l2).
Proof.
  revert l2; induction l1 as [|a l1 IH]; destruct l2 as [|b l2]; cbn [map2 map]; intros H; auto.
  rewrite H by (left; reflexivity). f_equal. apply IH. intros; apply H; right; assumption.
Qed.

Lemma ded_tab_length {X} n (f : nat -> X) : length (tab n f) = n.
Proof. unfold tab. rewrite map_length, seq_length. reflexivity. Qed.

Lemma ded_tab_ext {X} n (f g : nat -> X) :
  (forall y, (y < n)%nat -> f y = g y) -> tab n f = tab n g.
Proof. intros H. unfold tab. apply map_ext_in. intros y Hy. apply in_seq in Hy. apply H. lia. Qed.

Lemma ded_tab_some n (f : nat -> RV) (g : nat -> R) :
  (forall y, (y < n)%nat -> f y = Some (g y)) -> tab n f = map Some (tab n g).
Proof. intros H. unfold tab. rewrite map_map. apply map_ext_in. intros y Hy. apply in_seq in Hy. apply H. lia. Qed.

Lemma ded_nth_tab n (f : nat -> R) y : (y < n)%nat -> nth y (tab n f) 0 = f y.
Proof.
  intros H. unfold tab. rewrite (nth_indep _ 0 (f 0%nat)) by (rewrite map_length, seq_length; exact H).
  rewrite map_nth, seq_nth by exact H. reflexivity.
Qed.

Lemma ded_get_tab n (f : nat -> RV) y : (y < n)%nat -> get (B:=FldR) (tab n f) y = f y.
Proof.
  intros H. unfold get, tab. rewrite (nth_indep _ None (f 0%nat)) by (rewrite map_length, seq_length; exact H).
  rewrite map_nth, seq_nth by exact H. reflexivity.
Qed.

Lemma ded_get_some (l : list R) y : (y < length l)%nat -> get (B:=FldR) (map Some l) y = Some (nth y l 0).
Proof.
  intros H. unfold get. rewrite (nth_indep _ None (Some 0)) by (rewrite map_length; exact H).
  apply map_nth.
Qed.

Lemma ded_tab_nth (l : list R) : tab (length l) (fun y => nth y l 0) = l.
Proof.
  unfold tab. induction l as [|a l IH]; cbn [length seq map]; [reflexivity|].
  f_equal. rewrite <- seq_shift, map_map. exact IH.
Qed.

Lemma ded_Rsum_tab_add n f g :
  Rsum (tab n (fun y => f y + g y)) = Rsum (tab n f) + Rsum (tab n g).
Proof. unfold tab. induction (seq 0 n); cbn; lra. Qed.
Lemma ded_Rsum_tab_sub n f g :
  Rsum (tab n (fun y => f y - g y)) = Rsum (tab n f) - Rsum (tab n g).
Proof. unfold tab. induction (seq 0 n); cbn; lra. Qed.
Lemma ded_Rsum_tab_scal n c f : Rsum (tab n (fun y => c * f y)) = c * Rsum (tab n f).
Proof. unfold tab. induction (seq 0 n); cbn; lra. Qed.
Lemma ded_Rsum_tab_scal_r n c f : Rsum (tab n (fun y => f y * c)) = Rsum (tab n f) * c.
Proof. unfold tab. induction (seq 0 n); cbn; lra. Qed.
Lemma ded_Rsum_tab_zero n : Rsum (tab n (fun _ => 0)) = 0.
Proof. unfold tab. apply Rsum_zeros. Qed.
Lemma ded_Rsum_tab_nth l n : length l = n -> Rsum (tab n (fun y => nth y l 0)) = Rsum l.
Proof. intros <-. rewrite ded_tab_nth. reflexivity. Qed.

Lemma ded_nonneg_nth l y : nonneg l -> 0 <= nth y l 0.
Proof.
  intros H. destruct (lt_dec y (length l)) as [Hy|Hy].
  - unfold nonneg in H. rewrite Forall_forall in H. apply H. apply nth_In. exact Hy.
  - rewrite nth_overflow by lia. lra.
Qed.

Lemma ded_Rsum_nonzero l : Rsum l <> 0 -> exists y, (y < length l)%nat /\ nth y l 0 <> 0.
Proof.
  induction l as [|a l IH]; cbn [Rsum]; intros H; [lra|].
  destruct (Req_EM_T a 0) as [->|Ha].
  - destruct IH as (y & Hy & Hn); [lra|]. exists (S y). cbn. split; [lia|exact Hn].
  - exists 0%nat. cbn. split; [lia|exact Ha].
Qed.

(* ------------------------------------------------- dot products and columns *)
Definition dot (w v : list R) : R := Rsum (map2 Rmult w v).
(* column y of a table given by rows *)
Definition colR (M : list (list R)) (y : nat) : list R := map (fun r => nth y r 0) M.

Lemma dot_cons a w b v : dot (a :: w) (b :: v) = a * b + dot w v.
Proof. reflexivity. Qed.
Lemma dot_nil_l v : dot [] v = 0. Proof. reflexivity. Qed.
Lemma dot_nil_r w : dot w [] = 0. Proof. destruct w; reflexivity. Qed.

Lemma dot_nonneg w v : nonneg w -> nonneg v -> 0 <= dot w v.
Proof.
  intros Hw; revert v; induction Hw as [|a w Ha Hw IH]; intros v Hv; [rewrite dot_nil_l; lra|].
  destruct Hv as [|b v Hb Hv]; [rewrite dot_nil_r; lra|].
  rewrite dot_cons. specialize (IH v Hv). nra.
Qed.

(* dot is linear in the left argument ... *)
Lemma dot_lin_l t w1 w2 v : length w1 = length w2 ->
  dot (map2 (fun b a => b + a * t) w1 w2) v = dot w1 v + t * dot w2 v.
Proof.
  revert w2 v; induction w1 as [|a w1 IH]; destruct w2 as [|b w2]; cbn [length]; intros v H; try discriminate.
  - rewrite !dot_nil_l. lra.
  - destruct v as [|c v]; [rewrite !dot_nil_r; lra|].
    cbn [map2]. rewrite !dot_cons, IH by lia. lra.
Qed.
(* ... and in the right argument *)
Lemma dot_lin_r t w v1 v2 : length v1 = length v2 ->
  dot w (map2 (fun b u => b + t * u) v1 v2) = dot w v1 + t * dot w v2.
Proof.
  revert v2 w; induction v1 as [|a v1 IH]; destruct v2 as [|b v2]; cbn [length]; intros w H; try discriminate.
  - rewrite !dot_nil_r. lra.
  - destruct w as [|c w]; [rewrite !dot_nil_l; lra|].
    cbn [map2]. rewrite !dot_cons, IH by lia. lra.
Qed.

Lemma dot_ones {X} w (l : list X) : length w = length l -> dot w (map (fun _ => 1) l) = Rsum w.
Proof.
  revert l; induction w as [|a w IH]; destruct l; cbn [length map]; intros H; try discriminate; [reflexivity|].
  rewrite dot_cons, IH by lia. cbn [Rsum]. lra.
Qed.

(* a weighted mean is at least the lower bound of the values *)
Lemma dot_ge_min m w v : nonneg w -> length w = length v -> (forall z, In z v -> m <= z) ->
  m * Rsum w <= dot w v.
Proof.
  intros Hw; revert v; induction Hw as [|a w Ha Hw IH]; destruct v as [|b v]; cbn [length]; intros HL Hm;
    try discriminate; [rewrite dot_nil_l; cbn; lra|].
  rewrite dot_cons. cbn [Rsum].
  assert (m <= b) by (apply Hm; left; reflexivity).
  assert (m * Rsum w <= dot w v) by (apply IH; [lia|intros; apply Hm; right; assumption]).
  nra.
Qed.

(* interchange of the two summations *)
Lemma dot_col_sum n w M : Forall (fun r => length r = n) M ->
  Rsum (tab n (fun y => dot w (colR M y))) = dot w (map Rsum M).
Proof.
  intros HM; revert w; induction HM as [|r M Hr HM IH]; intros w.
  - cbn [colR map]. rewrite !dot_nil_r. apply ded_Rsum_tab_zero.
  - destruct w as [|a w].
    + rewrite dot_nil_l. rewrite (ded_tab_ext n _ (fun _ => 0)) by (intros; apply dot_nil_l).
      apply ded_Rsum_tab_zero.
    + cbn [colR map]. rewrite dot_cons.
      rewrite (ded_tab_ext n _ (fun y => a * nth y r 0 + dot w (colR M y))) by (intros; apply dot_cons).
      rewrite ded_Rsum_tab_add, ded_Rsum_tab_scal, ded_Rsum_tab_nth by exact Hr.
      fold (colR M). rewrite IH. reflexivity.
Qed.

(* weighted column sum in the model *)
Lemma ded_wsum_col (w : list R) (M : list (list R)) y :
  Forall (fun r => (y < length r)%nat) M ->
  vsum (B:=FldR) (map2 (fun a cp => mul (B:=FldR) a (get cp y)) (map Some w) (map (map Some) M))
  = Some (dot w (colR M y)).
Proof.
  intros HM. rewrite ded_map2_map.
  rewrite (ded_map2_some_in _ (fun a r => a * nth y r 0)).
  - rewrite vsum_some. unfold dot, colR. f_equal. f_equal.
    clear HM. revert M; induction w; destruct M; cbn [map map2]; auto. f_equal; auto.
  - intros a r _ Hr. rewrite Forall_forall in HM. rewrite ded_get_some by (apply HM; exact Hr). reflexivity.
Qed.

(* ------------------------------------------------------------- minima *)
Definition minl (l : list R) : R := match l with [] => 0 | x :: r => fold_left Rmin r x end.

Lemma ded_fold_Rmin_le r : forall x, fold_left Rmin r x <= x /\ forall z, In z r -> fold_left Rmin r x <= z.
Proof.
  induction r as [|a r IH]; intros x; cbn [fold_left].
  - split; [lra|intros z []].
  - destruct (IH (Rmin x a)) as [H1 H2]. pose proof (Rmin_l x a). pose proof (Rmin_r x a).
    split; [lra|]. intros z [<-|Hz]; [lra|auto].
Qed.
Lemma ded_fold_Rmin_in r : forall x, In (fold_left Rmin r x) (x :: r).
Proof.
  induction r as [|a r IH]; intros x; cbn [fold_left]; [left; reflexivity|].
  destruct (IH (Rmin x a)) as [H|H].
  - unfold Rmin in H at 1. destruct (Rle_dec x a); [left|right; left]; exact H.
  - right; right; exact H.
Qed.

Lemma minl_le l z : In z l -> minl l <= z.
Proof.
  destruct l as [|x r]; [intros []|]. cbn [minl]. destruct (ded_fold_Rmin_le r x) as [H1 H2].
  intros [<-|Hz]; auto.
Qed.
Lemma minl_in l : l <> [] -> In (minl l) l.
Proof. destruct l as [|x r]; [congruence|]. intros _. apply ded_fold_Rmin_in. Qed.

(* NaN-skipping minimum of the model = minimum of the defined entries *)
Fixpoint somes (l : list RV) : list R :=
  match l with [] => [] | Some a :: r => a :: somes r | None :: r => somes r end.

Lemma ded_fold_nmin_some l : forall a,
  fold_left (nmin (B:=FldR)) l (Some a) = Some (fold_left Rmin (somes l) a).
Proof.
  induction l as [|x l IH]; intros a; cbn [fold_left somes]; [reflexivity|].
  destruct x as [b|].
  - rewrite nmin_some. cbn [fold_left]. apply IH.
  - rewrite nmin_none_r. apply IH.
Qed.

Lemma ded_vmin_somes (l : list RV) :
  vmin l = match somes l with [] => None | _ => Some (minl (somes l)) end.
Proof.
  induction l as [|x l IH]; [reflexivity|].
  destruct x as [a|].
  - cbn [vmin somes minl]. apply ded_fold_nmin_some.
  - cbn [somes]. rewrite <- IH. destruct l as [|x' l]; reflexivity.
Qed.

Lemma ded_vmin_some (l : list R) : l <> [] -> vmin (B:=FldR) (map Some l) = Some (minl l).
Proof.
  intros H. rewrite ded_vmin_somes.
  assert (E : somes (map Some l) = l) by (clear H; induction l; cbn; congruence).
  rewrite E. destruct l; [congruence|reflexivity].
Qed.

Lemma ded_somes_filter (c : nat -> bool) (g : nat -> R) l :
  somes (map (fun y => if c y then None else Some (g y)) l) = map g (filter (fun y => negb (c y)) l).
Proof. induction l as [|y l IH]; cbn [map somes filter]; [reflexivity|]. destruct (c y); cbn; rewrite IH; reflexivity. Qed.

Lemma ded_div_if (n d : R) : div (B:=FldR) (Some n) (Some d) = if Reqb d 0 then None else Some (n / d).
Proof. reflexivity. Qed.

(* ------------------------------------------------------------ operands *)
Implicit Types (eps ux t : R) (ax ay bx w : list R) (conds : list (list R * R)) (c : list R * R).
(* a conditional table: one (belief list, uncertainty) per value of X *)
Definition condV (c : list R * R) : @simplex FldR := (map Some (fst c), Some (snd c)).
Definition wf_conds (ny : nat) (conds : list (list R * R)) : Prop :=
  Forall (fun c => wf_simplex (fst c) (snd c) /\ length (fst c) = ny) conds.

Lemma wf_conds_in ny conds c : wf_conds ny conds -> In c conds ->
  wf_simplex (fst c) (snd c) /\ length (fst c) = ny.
Proof. unfold wf_conds. rewrite Forall_forall. auto. Qed.

Lemma ded_forallb_map {X Y} (f : Y -> bool) (g : X -> Y) l :
  forallb f (map g l) = forallb (fun x => f (g x)) l.
Proof. induction l; cbn; congruence. Qed.

Lemma ded_wsum_conds w conds y :
  Forall (fun c : list R * R => (y < length (fst c))%nat) conds ->
  vsum (B:=FldR) (map2 (fun a s => mul (B:=FldR) a (get (bel s) y)) (map Some w) (map condV conds))
  = Some (dot w (colR (map fst conds) y)).
Proof.
  intros H. rewrite <- ded_wsum_col by (rewrite Forall_map; exact H).
  f_equal. rewrite map_map, !ded_map2_map. reflexivity.
Qed.

Lemma ded_mix t y w (conds : list (list R * R)) :
  Rsum (map2 (fun a c => a * (nth y (fst c) 0 + t * snd c)) w conds)
  = dot w (colR (map fst conds) y) + t * dot w (map snd conds).
Proof.
  revert conds; induction w as [|a w IH]; destruct conds as [|c conds]; cbn [map2 map colR Rsum];
    rewrite ?dot_nil_l, ?dot_nil_r; try lra.
  rewrite !dot_cons. fold (colR (map fst conds) y). rewrite IH. lra.
Qed.

(* ------------------------------------------------ marginal base rate (C08) *)
Definition all_vacuous (eps : R) (conds : list (list R * R)) : Prop :=
  forall c, In c conds -> 1 - 2 * eps <= snd c.
(* sum_x a_x b(y|x) *)
Definition mbr_raw (ax : list R) (conds : list (list R * R)) (y : nat) : R :=
  dot ax (colR (map fst conds) y).
(* S = sum_x a_x sum_y b(y|x) *)
Definition mbr_S (ax : list R) (conds : list (list R * R)) : R :=
  dot ax (map (fun c => Rsum (fst c)) conds).
Definition mbrR (ny : nat) (ax : list R) (conds : list (list R * R)) : list R :=
  tab ny (fun y => mbr_raw ax conds y / mbr_S ax conds).

Lemma mbr_raw_sum ny ax conds : wf_conds ny conds ->
  Rsum (tab ny (mbr_raw ax conds)) = mbr_S ax conds.
Proof.
  intros H. unfold mbr_raw, mbr_S. rewrite dot_col_sum with (n := ny).
  - rewrite map_map. reflexivity.
  - rewrite Forall_map. eapply Forall_impl; [|exact H]. cbn. tauto.
Qed.

Lemma mbr_eval (eps : R) ny (ax : list R) (conds : list (list R * R)) : wf_conds ny conds ->
  mbr (B:=FldR) eps ny (map Some ax) (map condV conds) =
  if forallb (fun c : list R * R => is_one (B:=FldR) eps (Some (snd c))) conds then None
  else if Reqb (mbr_S ax conds) 0 then None
  else Some (map Some (mbrR ny ax conds)).
Proof.
  intros H. unfold mbr. rewrite ded_forallb_map.
  match goal with |- (if ?b then _ else _) = (if ?b' then _ else _) => change b with b' end.
  destruct (forallb _ conds); [reflexivity|].
  rewrite (ded_tab_some ny _ (mbr_raw ax conds)).
  2:{ intros y Hy. apply ded_wsum_conds. eapply Forall_impl; [|exact H]. cbn. intros c [_ Hc]. lia. }
  rewrite vsum_some, (mbr_raw_sum ny ax conds H). rewrite zero_some, eqb_some.
  destruct (Reqb_spec (mbr_S ax conds) 0) as [E|E]; [reflexivity|].
  f_equal. unfold mbrR, tab. rewrite !map_map. apply map_ext. intros y.
  apply div_some. exact E.
Qed.

Lemma ded_all_vacuous_forallb eps conds ny : 0 <= eps -> wf_conds ny conds ->
  forallb (fun c : list R * R => is_one (B:=FldR) eps (Some (snd c))) conds = true <-> all_vacuous eps conds.
Proof.
  intros He H. rewrite forallb_forall. unfold all_vacuous. split; intros A c Hc; specialize (A c Hc).
  - apply is_one_some in A. lra.
  - apply is_one_some. destruct (wf_conds_in _ _ _ H Hc) as [Hwf _].
    pose proof (wf_simplex_u_le1 _ _ Hwf). lra.
Qed.

Lemma mbr_none_iff eps ny ax conds : 0 <= eps -> wf_conds ny conds ->
  mbr (B:=FldR) eps ny (map Some ax) (map condV conds) = None
  <-> all_vacuous eps conds \/ mbr_S ax conds = 0.
Proof.
  intros He H. rewrite (mbr_eval eps ny ax conds H).
  rewrite <- (ded_all_vacuous_forallb eps conds ny He H).
  destruct (forallb _ conds); [split; auto|].
  destruct (Reqb_spec (mbr_S ax conds) 0) as [E|E]; split; auto; try discriminate.
  intros [A|A]; [discriminate|contradiction].
Qed.

Lemma mbr_some_eq eps ny ax conds (res : list RV) : wf_conds ny conds ->
  mbr (B:=FldR) eps ny (map Some ax) (map condV conds) = Some res ->
  res = map Some (mbrR ny ax conds) /\ mbr_S ax conds <> 0.
Proof.
  intros H. rewrite (mbr_eval eps ny ax conds H).
  destruct (forallb _ conds); [discriminate|].
  destruct (Reqb_spec (mbr_S ax conds) 0) as [E|E]; [discriminate|].
  intros [= <-]. split; [reflexivity|exact E].
Qed.

Lemma ded_nonneg_tab n f : (forall y, (y < n)%nat -> 0 <= f y) -> nonneg (tab n f).
Proof.
  intros H. unfold nonneg, tab. rewrite Forall_map. apply Forall_forall. intros y Hy.
  apply in_seq in Hy. apply H. lia.
Qed.

Lemma ded_nonneg_col conds ny y : wf_conds ny conds -> nonneg (colR (map fst conds) y).
Proof.
  intros H. unfold nonneg, colR. rewrite map_map, Forall_map. eapply Forall_impl; [|exact H].
  cbn. intros c [(Hb & _) _]. apply ded_nonneg_nth. exact Hb.
Qed.

Lemma mbr_S_nonneg ny ax conds : nonneg ax -> wf_conds ny conds -> 0 <= mbr_S ax conds.
Proof.
  intros Ha H. apply dot_nonneg; [exact Ha|]. unfold nonneg. rewrite Forall_map.
  eapply Forall_impl; [|exact H]. cbn. intros c [(Hb & _) _]. apply Rsum_nonneg. exact Hb.
Qed.

Lemma mbr_raw_nonneg ny ax conds y : nonneg ax -> wf_conds ny conds -> 0 <= mbr_raw ax conds y.
Proof. intros Ha H. apply dot_nonneg; [exact Ha|]. eapply ded_nonneg_col; exact H. Qed.

(* sum_x a_x u_x = 1 - S *)
Lemma ded_dot_unc ny ax conds : wf_conds ny conds -> length ax = length conds ->
  dot ax (map snd conds) = Rsum ax - mbr_S ax conds.
Proof.
  unfold mbr_S. intros H; revert ax; induction H as [|c conds Hc H IH]; intros ax HL.
  - cbn [map]. rewrite !dot_nil_r. destruct ax; [cbn; lra|discriminate].
  - destruct ax as [|a ax]; [discriminate|]. cbn [map]. rewrite !dot_cons, IH by (cbn in HL; lia).
    destruct Hc as [(_ & _ & Hs) _]. cbn [Rsum]. nra.
Qed.

Lemma mbrR_length ny ax conds : length (mbrR ny ax conds) = ny.
Proof. apply ded_tab_length. Qed.

Lemma mbrR_wf ny ax conds : wf_dist ax -> wf_conds ny conds -> mbr_S ax conds <> 0 ->
  wf_dist (mbrR ny ax conds).
Proof.
  intros [Ha Hs] H HS. pose proof (mbr_S_nonneg ny ax conds Ha H) as HS0.
  split.
  - apply ded_nonneg_tab. intros y _. pose proof (mbr_raw_nonneg ny ax conds y Ha H).
    apply Rmult_le_pos; [assumption|]. apply Rlt_le, Rinv_0_lt_compat. lra.
  - unfold mbrR, Rdiv. rewrite ded_Rsum_tab_scal_r, (mbr_raw_sum ny ax conds H). field. exact HS.
Qed.

(* the fixed point: ay_y = sum_x a_x (b(y|x) + ay_y u_x) *)
Lemma mbrR_fixed ny ax conds y : wf_dist ax -> wf_conds ny conds -> length ax = length conds ->
  mbr_S ax conds <> 0 -> (y < ny)%nat ->
  nth y (mbrR ny ax conds) 0 =
  Rsum (map2 (fun a c => a * (nth y (fst c) 0 + nth y (mbrR ny ax conds) 0 * snd c)) ax conds).
Proof.
  intros [Ha Hs] H HL HS Hy. rewrite ded_mix, (ded_dot_unc ny ax conds H HL), Hs.
  unfold mbrR. rewrite ded_nth_tab by exact Hy. fold (mbr_raw ax conds y). field. exact HS.
Qed.

(* S = 0 exactly when every conditional with positive base rate carries no belief mass *)
Lemma ded_dot_zero_iff w v : nonneg w -> nonneg v -> length w = length v ->
  dot w v = 0 <-> forall x, (x < length w)%nat -> nth x w 0 = 0 \/ nth x v 0 = 0.
Proof.
  intros Hw; revert v; induction Hw as [|a w Ha Hw IH]; intros v Hv HL.
  - rewrite dot_nil_l. split; [intros _ x Hx; cbn in Hx; lia|reflexivity].
  - destruct Hv as [|b v Hb Hv]; [discriminate|]. rewrite dot_cons.
    pose proof (dot_nonneg w v Hw Hv) as Hd. cbn in HL. specialize (IH v Hv ltac:(lia)).
    split.
    + intros E x Hx. assert (Hab : a * b = 0) by nra. assert (Hd0 : dot w v = 0) by nra.
      destruct x as [|x]; cbn [nth].
      * destruct (Rmult_integral _ _ Hab); auto.
      * apply IH; [exact Hd0|cbn in Hx; lia].
    + intros A. assert (Hab : a * b = 0).
      { destruct (A 0%nat ltac:(cbn; lia)) as [E|E]; cbn in E; subst; lra. }
      assert (Hd0 : dot w v = 0). { apply IH. intros x Hx. apply (A (S x)). cbn; lia. }
      lra.
Qed.

Lemma mbr_S_zero_iff ny ax conds : nonneg ax -> wf_conds ny conds -> length ax = length conds ->
  mbr_S ax conds = 0 <->
  forall x, (x < length ax)%nat -> nth x ax 0 = 0 \/ snd (nth x conds ([], 1)) = 1.
Proof.
  intros Ha H HL. unfold mbr_S. rewrite ded_dot_zero_iff.
  - assert (En : forall x, (x < length ax)%nat ->
      nth x (map (fun c => Rsum (fst c)) conds) 0 = 1 - snd (nth x conds ([], 1))).
    { intros x Hx.
      rewrite (nth_indep _ 0 (Rsum (fst (([] : list R), 1)))) by (rewrite map_length; lia).
      rewrite (map_nth (fun c : list R * R => Rsum (fst c))).
      assert (Hin : In (nth x conds ([], 1)) conds) by (apply nth_In; lia).
      destruct (wf_conds_in _ _ _ H Hin) as [(_ & _ & Hs) _]. lra. }
    split; intros A x Hx; (destruct (A x Hx) as [E|E]; [left; exact E|right]).
    + rewrite En in E by exact Hx. lra.
    + rewrite En by exact Hx. lra.
  - exact Ha.
  - unfold nonneg. rewrite Forall_map. eapply Forall_impl; [|exact H]. cbn. intros c [(Hb & _) _].
    apply Rsum_nonneg. exact Hb.
  - rewrite map_length. exact HL.
Qed.

(* with exact guards an all-vacuous table has S = 0 *)
Lemma all_vacuous_S_zero ny ax conds : nonneg ax -> wf_conds ny conds -> length ax = length conds ->
  all_vacuous 0 conds -> mbr_S ax conds = 0.
Proof.
  intros Ha H HL A. apply (mbr_S_zero_iff ny ax conds Ha H HL). intros x Hx. right.
  assert (Hin : In (nth x conds ([], 1)) conds) by (apply nth_In; lia).
  specialize (A _ Hin). destruct (wf_conds_in _ _ _ H Hin) as [Hwf _].
  pose proof (wf_simplex_u_le1 _ _ Hwf). lra.
Qed.

(* ---------------------------------------- deduce / deduce_with dispatch *)
Lemma deduce_none_iff_gen eps ny (bx : list RV) (ux : RV) (ax : list RV) (conds : list (@simplex FldR)) :
  deduce (B:=FldR) eps ny (bx, ux, ax) conds = None <-> mbr (B:=FldR) eps ny ax conds = None.
Proof. unfold deduce. destruct (mbr _ _ _ _); split; intros; congruence. Qed.

Lemma deduce_with_gen eps ny (bx : list RV) (ux : RV) (ax : list RV) (conds : list (@simplex FldR)) (fb : list RV) :
  (snd (deduce_with (B:=FldR) eps ny (bx, ux, ax) conds fb) = true <-> mbr (B:=FldR) eps ny ax conds = None) /\
  fst (deduce_with (B:=FldR) eps ny (bx, ux, ax) conds fb) =
    deduce_of (B:=FldR) (bx, ux, ax) conds
      (match mbr (B:=FldR) eps ny ax conds with None => fb | Some ay => ay end).
Proof.
  unfold deduce_with. destruct (mbr _ _ _ _); cbn [fst snd]; split; try reflexivity;
    split; intros; congruence.
Qed.

Lemma deduce_some_gen eps ny (bx : list RV) (ux : RV) (ax : list RV) (conds : list (@simplex FldR)) (ay : list RV) :
  mbr (B:=FldR) eps ny ax conds = Some ay ->
  deduce (B:=FldR) eps ny (bx, ux, ax) conds = Some (deduce_of (B:=FldR) (bx, ux, ax) conds ay).
Proof. unfold deduce. intros ->. reflexivity. Qed.

(* ------------------------------------------------------- deduction (C04) *)
(* projected probability b + a u *)
Definition projR (b : list R) (u : R) (a : list R) : list R := map2 (fun bi ai => bi + ai * u) b a.

Lemma projR_length b u a : length b = length a -> length (projR b u a) = length a.
Proof. intros H. unfold projR. rewrite map2_length. lia. Qed.

Lemma ded_projR_nth b u a y : length b = length a ->
  nth y (projR b u a) 0 = nth y b 0 + nth y a 0 * u.
Proof.
  unfold projR. revert a y; induction b as [|x b IH]; destruct a as [|z a]; cbn [length]; intros y H;
    try discriminate.
  - destruct y; cbn; lra.
  - destruct y; cbn [map2 nth]; [lra|]. apply IH. lia.
Qed.

Lemma ded_Rsum_projR b u a : length b = length a -> Rsum (projR b u a) = Rsum b + Rsum a * u.
Proof.
  unfold projR. revert a; induction b as [|x b IH]; destruct a as [|z a]; cbn [length]; intros H;
    try discriminate; cbn [map2 Rsum]; [lra|]. rewrite IH by lia. lra.
Qed.

Lemma ded_map_div1 (l : list R) : map (fun x => x / 1) l = l.
Proof. rewrite <- (map_id l) at 2. apply map_ext. intros; lra. Qed.

Lemma ded_projection b u a : length b = length a -> Rsum b + Rsum a * u = 1 ->
  projection (B:=FldR) (map Some b) (Some u) (map Some a) = map Some (projR b u a).
Proof.
  intros HL Hs. unfold projection, normalize_dist.
  rewrite (map2_some _ (fun bi ai => bi + ai * u)) by (intros; reflexivity).
  fold (projR b u a). rewrite vsum_some, (ded_Rsum_projR b u a HL), Hs.
  rewrite (map_some _ (fun x => x / 1)) by (intros; apply div_some; lra).
  rewrite ded_map_div1. reflexivity.
Qed.

Lemma ded_normalized_one (b : list R) (u : R) : Rsum b + u = 1 ->
  normalized (B:=FldR) (map Some b) (Some u) = (map Some b, Some u).
Proof.
  intros Hs. unfold normalized. rewrite vsum_some, add_some, Hs.
  rewrite (map_some _ (fun x => x / 1)) by (intros; apply div_some; lra).
  rewrite ded_map_div1, div_some by lra. do 2 f_equal. lra.
Qed.

(* the steps of deduce_of, named *)
Definition D_pyhx (ax : list RV) (cp : list (list RV)) (ny : nat) : list RV :=
  tab ny (fun y => vsum (map2 (fun a r => mul a (get r y)) ax cp)).
Definition D_uyhx (pyhx : list RV) (conds : list (@simplex FldR)) (ay : list RV) (ny : nat) : RV :=
  vmin (tab ny (fun y => div (sub (get pyhx y) (vmin (map (fun s => get (bel s) y) conds))) (get ay y))).
Definition D_u (uyhx : RV) (conds : list (@simplex FldR)) (bx : list RV) : RV :=
  sub uyhx (vsum (map2 (fun s bxi => mul (sub uyhx (unc s)) bxi) conds bx)).
Definition D_b (p : list RV) (cp : list (list RV)) (ay : list RV) (u : RV) (ny : nat) : list RV :=
  tab ny (fun y => sub (vsum (map2 (fun px r => mul px (get r y)) p cp)) (mul (get ay y) u)).

Lemma deduce_of_steps (bx : list RV) (ux : RV) (ax : list RV) (conds : list (@simplex FldR)) (ay : list RV) :
  deduce_of (B:=FldR) (bx, ux, ax) conds ay =
  let ny := length ay in
  let cp := projections conds ay in
  let u := D_u (D_uyhx (D_pyhx ax cp ny) conds ay ny) conds bx in
  let s := normalized (D_b (projection bx ux ax) cp ay u ny) u in
  (bel s, unc s, ay).
Proof. reflexivity. Qed.

(* the same quantities as real numbers *)
Definition condP conds ay : list (list R) := map (fun c => projR (fst c) (snd c) ay) conds.
(* sum_x a_x P(y|x) *)
Definition pyhxR ax conds ay (y : nat) : R := dot ax (colR (condP conds ay) y).
(* min_x b(y|x) *)
Definition minbR conds (y : nat) : R := minl (colR (map fst conds) y).
Definition supp ay : list nat := filter (fun y => negb (Reqb (nth y ay 0) 0)) (seq 0 (length ay)).
(* apex uncertainty: min over y with ay_y <> 0 *)
Definition upsR ax conds ay : R :=
  minl (map (fun y => (pyhxR ax conds ay y - minbR conds y) / nth y ay 0) (supp ay)).
Definition dedU bx ax conds ay : R :=
  upsR ax conds ay - Rsum (map2 (fun c b => (upsR ax conds ay - snd c) * b) conds bx).
Definition dedB bx ux ax conds ay : list R :=
  tab (length ay) (fun y => dot (projR bx ux ax) (colR (condP conds ay) y) - nth y ay 0 * dedU bx ax conds ay).
(* apex belief *)
Definition betaR ax conds ay (y : nat) : R := pyhxR ax conds ay y - nth y ay 0 * upsR ax conds ay.

Lemma ded_step_pyhx ax (P : list (list R)) ny : Forall (fun r => length r = ny) P ->
  D_pyhx (map Some ax) (map (map Some) P) ny = map Some (tab ny (fun y => dot ax (colR P y))).
Proof.
  intros H. unfold D_pyhx. apply ded_tab_some. intros y Hy. apply ded_wsum_col.
  eapply Forall_impl; [|exact H]. cbn. intros; lia.
Qed.

Lemma ded_step_b (p : list R) (P : list (list R)) ay u ny :
  Forall (fun r => length r = ny) P -> length ay = ny ->
  D_b (map Some p) (map (map Some) P) (map Some ay) (Some u) ny
  = map Some (tab ny (fun y => dot p (colR P y) - nth y ay 0 * u)).
Proof.
  intros H HL. unfold D_b. apply ded_tab_some. intros y Hy.
  rewrite ded_wsum_col by (eapply Forall_impl; [|exact H]; cbn; intros; lia).
  rewrite ded_get_some by lia. reflexivity.
Qed.

Lemma ded_step_u (v : R) conds bx :
  D_u (Some v) (map condV conds) (map Some bx)
  = Some (v - Rsum (map2 (fun c b => (v - snd c) * b) conds bx)).
Proof.
  unfold D_u. rewrite ded_map2_map.
  rewrite (ded_map2_some_in _ (fun c b => (v - snd c) * b)) by (intros; reflexivity).
  rewrite vsum_some. reflexivity.
Qed.

Lemma ded_supp_in ay y : In y (supp ay) <-> (y < length ay)%nat /\ nth y ay 0 <> 0.
Proof.
  unfold supp. rewrite filter_In, in_seq, negb_true_iff, Reqb_false. split; intros [H1 H2]; split; auto; lia.
Qed.
Lemma ded_supp_nonempty ay : Rsum ay <> 0 -> supp ay <> [].
Proof.
  intros H. destruct (ded_Rsum_nonzero ay H) as (y & Hy & Hn).
  assert (Hin : In y (supp ay)) by (apply ded_supp_in; auto).
  intros E. rewrite E in Hin. exact Hin.
Qed.

Lemma ded_step_uyhx (pyh : list R) conds ay ny :
  wf_conds ny conds -> conds <> [] -> length pyh = ny -> length ay = ny -> Rsum ay <> 0 ->
  D_uyhx (map Some pyh) (map condV conds) (map Some ay) ny
  = Some (minl (map (fun y => (nth y pyh 0 - minbR conds y) / nth y ay 0) (supp ay))).
Proof.
  intros H Hne HLp HLa Hs. unfold D_uyhx.
  rewrite (ded_tab_ext ny _ (fun y => if Reqb (nth y ay 0) 0 then None
                                      else Some ((nth y pyh 0 - minbR conds y) / nth y ay 0))).
  - rewrite ded_vmin_somes. unfold tab. rewrite ded_somes_filter.
    fold (supp ay) || (rewrite <- HLa; fold (supp ay)).
    pose proof (ded_supp_nonempty ay Hs) as Hn.
    destruct (supp ay) as [|y0 l]; [congruence|]. reflexivity.
  - intros y Hy. rewrite !ded_get_some by lia.
    assert (E : map (fun s => get (B:=FldR) (bel s) y) (map condV conds) = map Some (colR (map fst conds) y)).
    { unfold colR. rewrite !map_map. apply map_ext_in. intros c Hc. cbn [bel condV fst].
      apply ded_get_some. destruct (wf_conds_in _ _ _ H Hc) as [_ HLc]. lia. }
    rewrite E, ded_vmin_some.
    + fold (minbR conds y). rewrite sub_some. apply ded_div_if.
    + unfold colR. destruct conds; [congruence|discriminate].
Qed.

(* rows of the projected table *)
Lemma ded_condP_rows ny conds ay : wf_conds ny conds -> length ay = ny ->
  Forall (fun r => length r = ny) (condP conds ay).
Proof.
  intros H HL. unfold condP. rewrite Forall_map. eapply Forall_impl; [|exact H]. cbn.
  intros c [_ Hc]. rewrite projR_length; lia.
Qed.

Lemma ded_condP_sums ny conds ay : wf_conds ny conds -> length ay = ny -> Rsum ay = 1 ->
  map Rsum (condP conds ay) = map (fun _ => 1) conds.
Proof.
  intros H HL Hs. unfold condP. rewrite map_map. apply map_ext_in. intros c Hc.
  destruct (wf_conds_in _ _ _ H Hc) as [(_ & _ & Hc1) Hc2]. rewrite ded_Rsum_projR by lia. rewrite Hs. lra.
Qed.

Lemma ded_condP_col ny conds ay y : wf_conds ny conds -> length ay = ny ->
  colR (condP conds ay) y = map2 (fun b u => b + nth y ay 0 * u) (colR (map fst conds) y) (map snd conds).
Proof.
  intros H HL. induction H as [|c conds Hc H IH]; [reflexivity|].
  cbn [condP colR map map2]. f_equal; [|exact IH].
  destruct Hc as [_ Hc]. rewrite ded_projR_nth by lia. lra.
Qed.

Lemma ded_dot_condP ny w conds ay y : wf_conds ny conds -> length ay = ny ->
  dot w (colR (condP conds ay) y) = dot w (colR (map fst conds) y) + nth y ay 0 * dot w (map snd conds).
Proof.
  intros H HL. rewrite (ded_condP_col ny conds ay y H HL). apply dot_lin_r.
  unfold colR. rewrite !map_length. reflexivity.
Qed.

Lemma ded_sum_u v conds bx : length conds = length bx ->
  Rsum (map2 (fun c b => (v - snd c) * b) conds bx) = v * Rsum bx - dot bx (map snd conds).
Proof.
  revert bx; induction conds as [|c conds IH]; destruct bx as [|b bx]; cbn [length]; intros H; try discriminate.
  - cbn [map2 map Rsum]. rewrite dot_nil_l. lra.
  - cbn [map2 map Rsum]. rewrite dot_cons, IH by lia. lra.
Qed.

Lemma ded_nonneg_uncs ny conds : wf_conds ny conds -> nonneg (map snd conds).
Proof.
  intros H. unfold nonneg. rewrite Forall_map. eapply Forall_impl; [|exact H]. cbn. intros c [(_ & Hu & _) _].
  exact Hu.
Qed.

Section Apex.
Variables (ax : list R) (conds : list (list R * R)) (ay : list R) (ny : nat).
Hypothesis Hax : wf_dist ax.
Hypothesis Hconds : wf_conds ny conds.
Hypothesis HLc : length conds = length ax.
Hypothesis Hay : wf_dist ay.
Hypothesis HLay : length ay = ny.

Let Hax1 : Rsum ax = 1. Proof. destruct Hax as (_ & H). exact H. Qed.
Let Hay1 : Rsum ay = 1. Proof. destruct Hay as (_ & H). exact H. Qed.
Let Hax0 : nonneg ax. Proof. destruct Hax as (H & _). exact H. Qed.
Let Hay0 : nonneg ay. Proof. destruct Hay as (H & _). exact H. Qed.

Lemma ded_conds_nonempty : conds <> [].
Proof. intros E. rewrite E in HLc. destruct ax; [cbn in Hax1; lra|discriminate]. Qed.

Lemma pyhxR_eq y : pyhxR ax conds ay y = dot ax (colR (map fst conds) y) + nth y ay 0 * dot ax (map snd conds).
Proof. unfold pyhxR. apply (ded_dot_condP ny); assumption. Qed.

Lemma minbR_nonneg y : 0 <= minbR conds y.
Proof.
  unfold minbR. pose proof (ded_nonneg_col conds ny y Hconds) as Hn.
  unfold nonneg in Hn. rewrite Forall_forall in Hn. apply Hn. apply minl_in.
  unfold colR. pose proof ded_conds_nonempty. destruct conds; [congruence|discriminate].
Qed.

Lemma ded_mean_ge_min y : minbR conds y <= dot ax (colR (map fst conds) y).
Proof.
  pose proof (dot_ge_min (minbR conds y) ax (colR (map fst conds) y) Hax0) as H.
  rewrite Hax1 in H. rewrite Rmult_1_r in H. apply H.
  - unfold colR. rewrite !map_length. lia.
  - intros z Hz. apply minl_le. exact Hz.
Qed.

Lemma pyhxR_ge_min y : minbR conds y <= pyhxR ax conds ay y.
Proof.
  rewrite pyhxR_eq. pose proof (ded_mean_ge_min y).
  pose proof (dot_nonneg ax (map snd conds) Hax0 (ded_nonneg_uncs ny conds Hconds)).
  pose proof (ded_nonneg_nth ay y Hay0). nra.
Qed.

Lemma upsR_le y : (y < ny)%nat -> nth y ay 0 <> 0 ->
  upsR ax conds ay <= (pyhxR ax conds ay y - minbR conds y) / nth y ay 0.
Proof.
  intros Hy Hn. unfold upsR. apply minl_le.
  apply (in_map (fun y => (pyhxR ax conds ay y - minbR conds y) / nth y ay 0)).
  apply ded_supp_in. split; [lia|exact Hn].
Qed.

Lemma upsR_attained : exists y, (y < ny)%nat /\ nth y ay 0 <> 0 /\
  upsR ax conds ay = (pyhxR ax conds ay y - minbR conds y) / nth y ay 0.
Proof.
  assert (Hne : map (fun y => (pyhxR ax conds ay y - minbR conds y) / nth y ay 0) (supp ay) <> []).
  { pose proof (ded_supp_nonempty ay ltac:(lra)). destruct (supp ay); [congruence|discriminate]. }
  apply minl_in in Hne. fold (upsR ax conds ay) in Hne. apply in_map_iff in Hne.
  destruct Hne as (y & E & Hin). apply ded_supp_in in Hin. exists y. repeat split; [lia|tauto|auto].
Qed.

Lemma ded_div_le d v n : 0 < d -> v <= n / d -> d * v <= n.
Proof. intros Hd H. assert (E : n = d * (n / d)) by (field; lra). nra. Qed.

Lemma upsR_nonneg : 0 <= upsR ax conds ay.
Proof.
  destruct upsR_attained as (y & Hy & Hn & ->).
  pose proof (pyhxR_ge_min y). pose proof (ded_nonneg_nth ay y Hay0).
  apply Rmult_le_pos; [lra|]. apply Rlt_le, Rinv_0_lt_compat. lra.
Qed.

(* the apex belief dominates the smallest conditional belief, for every y ... *)
Lemma betaR_ge y : (y < ny)%nat -> minbR conds y <= betaR ax conds ay y.
Proof.
  intros Hy. unfold betaR. destruct (Req_EM_T (nth y ay 0) 0) as [E|E].
  - rewrite E. pose proof (pyhxR_ge_min y). lra.
  - pose proof (ded_nonneg_nth ay y Hay0).
    pose proof (ded_div_le (nth y ay 0) _ _ ltac:(lra) (upsR_le y Hy E)). lra.
Qed.

(* ... with equality somewhere: upsR is the largest admissible apex uncertainty *)
Lemma betaR_tight : exists y, (y < ny)%nat /\ nth y ay 0 <> 0 /\ betaR ax conds ay y = minbR conds y.
Proof.
  destruct upsR_attained as (y & Hy & Hn & E). exists y. split; [exact Hy|]. split; [exact Hn|].
  unfold betaR. rewrite E. field. exact Hn.
Qed.

Lemma upsR_maximal v : (forall y, (y < ny)%nat -> minbR conds y <= pyhxR ax conds ay y - nth y ay 0 * v) ->
  v <= upsR ax conds ay.
Proof.
  intros Hv. destruct betaR_tight as (y & Hy & Hn & E). specialize (Hv y Hy). unfold betaR in E.
  pose proof (ded_nonneg_nth ay y Hay0). nra.
Qed.

End Apex.

Section DeduceOf.
Variables (bx : list R) (ux : R) (ax : list R) (conds : list (list R * R)) (ay : list R) (ny : nat).
Hypothesis Hwx : wf_opinion bx ux ax.
Hypothesis Hconds : wf_conds ny conds.
Hypothesis HLc : length conds = length ax.
Hypothesis Hay : wf_dist ay.
Hypothesis HLay : length ay = ny.

Let HLbx : length bx = length ax. Proof. destruct Hwx as (_ & _ & H). lia. Qed.
Let Hax1 : Rsum ax = 1. Proof. destruct Hwx as (_ & (_ & H) & _). exact H. Qed.
Let Hay1 : Rsum ay = 1. Proof. destruct Hay as (_ & H). exact H. Qed.
Let Hbx1 : Rsum bx + ux = 1. Proof. destruct Hwx as ((_ & _ & H) & _ & _). exact H. Qed.
Let Hax0 : nonneg ax. Proof. destruct Hwx as (_ & (H & _) & _). exact H. Qed.
Let Hbx0 : nonneg bx. Proof. destruct Hwx as ((H & _ & _) & _ & _). exact H. Qed.
Let Hux0 : 0 <= ux. Proof. destruct Hwx as ((_ & H & _) & _ & _). exact H. Qed.
Let Hay0 : nonneg ay. Proof. destruct Hay as (H & _). exact H. Qed.
Let Hax : wf_dist ax. Proof. destruct Hwx as (_ & H & _). exact H. Qed.

Lemma dedU_eq : dedU bx ax conds ay = dot bx (map snd conds) + ux * upsR ax conds ay.
Proof.
  unfold dedU. rewrite ded_sum_u by lia. replace (Rsum bx) with (1 - ux) by lra. lra.
Qed.

(* sum_x P(x) P(y|x) *)
Lemma ded_total_eq y :
  dot (projR bx ux ax) (colR (condP conds ay) y)
  = Rsum (map2 (fun px c => px * (nth y (fst c) 0 + nth y ay 0 * snd c)) (projR bx ux ax) conds).
Proof. rewrite ded_mix. apply (ded_dot_condP ny); assumption. Qed.

Lemma dedB_nth y : (y < ny)%nat ->
  nth y (dedB bx ux ax conds ay) 0
  = dot (projR bx ux ax) (colR (condP conds ay) y) - nth y ay 0 * dedU bx ax conds ay.
Proof. intros Hy. unfold dedB. rewrite ded_nth_tab by lia. reflexivity. Qed.

(* decomposition: belief-weighted mixture of the conditionals + ux * apex *)
Lemma dedB_decomp y : (y < ny)%nat ->
  nth y (dedB bx ux ax conds ay) 0 = dot bx (colR (map fst conds) y) + ux * betaR ax conds ay y.
Proof.
  intros Hy. rewrite dedB_nth by exact Hy. unfold betaR.
  unfold projR. rewrite dot_lin_l by exact HLbx. fold (pyhxR ax conds ay y).
  rewrite (ded_dot_condP ny bx conds ay y Hconds HLay), dedU_eq. lra.
Qed.

Lemma dedU_nonneg : 0 <= dedU bx ax conds ay.
Proof.
  rewrite dedU_eq. pose proof (upsR_nonneg ax conds ay ny Hax Hconds HLc Hay HLay).
  pose proof (dot_nonneg bx (map snd conds) Hbx0 (ded_nonneg_uncs ny conds Hconds)). nra.
Qed.

Lemma dedB_length : length (dedB bx ux ax conds ay) = ny.
Proof. unfold dedB. rewrite ded_tab_length. exact HLay. Qed.

Lemma dedB_nonneg : nonneg (dedB bx ux ax conds ay).
Proof.
  assert (H : forall y, (y < ny)%nat -> 0 <= nth y (dedB bx ux ax conds ay) 0).
  { intros y Hy. rewrite dedB_decomp by exact Hy.
    pose proof (dot_nonneg bx _ Hbx0 (ded_nonneg_col conds ny y Hconds)).
    pose proof (betaR_ge ax conds ay ny Hax Hconds HLc Hay HLay y Hy). pose proof (minbR_nonneg ax conds ny Hax Hconds HLc y). nra. }
  unfold nonneg. apply Forall_forall. intros z Hz. apply (In_nth _ _ 0) in Hz.
  destruct Hz as (y & Hy & <-). apply H. rewrite dedB_length in Hy. exact Hy.
Qed.

Lemma dedB_sum : Rsum (dedB bx ux ax conds ay) + dedU bx ax conds ay = 1.
Proof.
  unfold dedB. rewrite HLay, ded_Rsum_tab_sub, ded_Rsum_tab_scal_r.
  rewrite (dot_col_sum ny) by (apply ded_condP_rows; assumption).
  rewrite (ded_condP_sums ny) by assumption.
  rewrite dot_ones by (rewrite projR_length; lia).
  rewrite ded_Rsum_projR by exact HLbx.
  rewrite (ded_Rsum_tab_nth ay ny HLay). rewrite Hax1, Hay1. lra.
Qed.

Lemma deduce_of_wf : wf_simplex (dedB bx ux ax conds ay) (dedU bx ax conds ay).
Proof. split; [exact dedB_nonneg|]. split; [exact dedU_nonneg|exact dedB_sum]. Qed.

(* definedness: what the model computes *)
Lemma deduce_of_eval :
  deduce_of (B:=FldR) (map Some bx, Some ux, map Some ax) (map condV conds) (map Some ay)
  = (map Some (dedB bx ux ax conds ay), Some (dedU bx ax conds ay), map Some ay).
Proof.
  rewrite deduce_of_steps. rewrite map_length, HLay.
  assert (Ecp : projections (B:=FldR) (map condV conds) (map Some ay) = map (map Some) (condP conds ay)).
  { unfold projections, condP. rewrite !map_map. apply map_ext_in. intros c Hc.
    destruct (wf_conds_in _ _ _ Hconds Hc) as [(_ & _ & Hc1) Hc2]. cbn [bel unc condV fst snd].
    apply ded_projection; [lia|]. rewrite Hay1. lra. }
  cbv zeta. rewrite Ecp.
  rewrite (ded_step_pyhx ax (condP conds ay) ny) by (apply ded_condP_rows; assumption).
  rewrite (ded_step_uyhx _ conds ay ny Hconds (ded_conds_nonempty ax conds Hax HLc))
    by (rewrite ?ded_tab_length; auto; lra).
  assert (Eu : minl (map (fun y => (nth y (tab ny (fun y0 => dot ax (colR (condP conds ay) y0))) 0
                                     - minbR conds y) / nth y ay 0) (supp ay)) = upsR ax conds ay).
  { unfold upsR. f_equal. apply map_ext_in. intros y Hy. apply ded_supp_in in Hy.
    rewrite ded_nth_tab by lia. reflexivity. }
  rewrite Eu, ded_step_u. fold (dedU bx ax conds ay).
  rewrite (ded_projection bx ux ax HLbx) by (rewrite Hax1; lra).
  rewrite (ded_step_b _ (condP conds ay) ay _ ny) by (try apply ded_condP_rows; assumption).
  pose proof dedB_sum as Hs. unfold dedB in Hs. rewrite HLay in Hs.
  rewrite ded_normalized_one by exact Hs.
  unfold dedB. rewrite HLay. reflexivity.
Qed.

(* total probability: b_y + ay_y u = sum_x P(x) P(y|x) *)
Lemma deduce_of_total y : (y < ny)%nat ->
  nth y (dedB bx ux ax conds ay) 0 + nth y ay 0 * dedU bx ax conds ay
  = Rsum (map2 (fun px c => px * (nth y (fst c) 0 + nth y ay 0 * snd c)) (projR bx ux ax) conds).
Proof. intros Hy. rewrite dedB_nth by exact Hy. rewrite <- ded_total_eq. lra. Qed.

End DeduceOf.

(* ------------------------------------------------ special antecedents *)
(* unit vector e_k of length n *)
Fixpoint unitv (n k : nat) : list R :=
  match n with
  | O => []
  | S n' => match k with O => 1 :: repeat 0 n' | S k' => 0 :: unitv n' k' end
  end.

Lemma dot_zeros n v : dot (repeat 0 n) v = 0.
Proof.
  revert v; induction n as [|n IH]; intros v; cbn [repeat]; [apply dot_nil_l|].
  destruct v as [|b v]; [apply dot_nil_r|]. rewrite dot_cons, IH. lra.
Qed.
Lemma Rsum_zeros_repeat n : Rsum (repeat 0 n) = 0.
Proof. induction n; cbn; lra. Qed.
Lemma nonneg_zeros_repeat n : nonneg (repeat 0 n).
Proof. induction n; cbn; constructor; auto; lra. Qed.

Lemma unitv_length n k : length (unitv n k) = n.
Proof.
  revert k; induction n as [|n IH]; intros k; [reflexivity|]. destruct k; cbn [unitv length].
  - rewrite repeat_length. reflexivity.
  - rewrite IH. reflexivity.
Qed.
Lemma unitv_nonneg n k : nonneg (unitv n k).
Proof.
  revert k; induction n as [|n IH]; intros k; [constructor|]. destruct k; cbn [unitv]; constructor;
    try lra; [apply nonneg_zeros_repeat|apply IH].
Qed.
Lemma unitv_sum n k : (k < n)%nat -> Rsum (unitv n k) = 1.
Proof.
  revert k; induction n as [|n IH]; intros k H; [lia|]. destruct k; cbn [unitv Rsum].
  - rewrite Rsum_zeros_repeat. lra.
  - rewrite IH by lia. lra.
Qed.
Lemma dot_unitv n k v : (k < n)%nat -> dot (unitv n k) v = nth k v 0.
Proof.
  revert k v; induction n as [|n IH]; intros k v H; [lia|].
  destruct k, v as [|b v]; cbn [unitv nth]; rewrite ?dot_nil_r, ?dot_cons; try reflexivity.
  - rewrite dot_zeros. lra.
  - rewrite IH by lia. lra.
Qed.

Lemma ded_nth_map {X} (g : X -> R) l k d : (k < length l)%nat -> nth k (map g l) 0 = g (nth k l d).
Proof.
  intros H. rewrite (nth_indep _ 0 (g d)) by (rewrite map_length; exact H). apply map_nth.
Qed.

Lemma unitv_wf_opinion ax k : wf_dist ax -> (k < length ax)%nat -> wf_opinion (unitv (length ax) k) 0 ax.
Proof.
  intros Hax Hk. split; [|split; [exact Hax|rewrite unitv_length; reflexivity]].
  split; [apply unitv_nonneg|]. split; [lra|]. rewrite unitv_sum by exact Hk. lra.
Qed.
Lemma vacuous_wf_opinion ax : wf_dist ax -> wf_opinion (repeat 0 (length ax)) 1 ax.
Proof.
  intros Hax. split; [|split; [exact Hax|rewrite repeat_length; reflexivity]].
  split; [apply nonneg_zeros_repeat|]. split; [lra|]. rewrite Rsum_zeros_repeat. lra.
Qed.

(* an absolute antecedent (all belief on x = k) returns exactly conditional k *)
Lemma deduce_of_absolute ax conds ay ny k :
  wf_dist ax -> wf_conds ny conds -> length conds = length ax -> wf_dist ay -> length ay = ny ->
  (k < length ax)%nat ->
  deduce_of (B:=FldR) (map Some (unitv (length ax) k), Some 0, map Some ax) (map condV conds) (map Some ay)
  = (map Some (fst (nth k conds ([], 0))), Some (snd (nth k conds ([], 0))), map Some ay).
Proof.
  intros Hax Hconds HLc Hay HLay Hk.
  pose proof (unitv_wf_opinion ax k Hax Hk) as Hwx.
  rewrite (deduce_of_eval _ _ _ _ _ ny Hwx Hconds HLc Hay HLay).
  assert (Hin : In (nth k conds ([], 0)) conds) by (apply nth_In; lia).
  destruct (wf_conds_in _ _ _ Hconds Hin) as [_ HLk].
  f_equal. f_equal.
  - f_equal. apply (nth_ext _ _ 0 0).
    + rewrite (dedB_length _ _ _ _ _ ny HLay). lia.
    + intros y Hy. rewrite (dedB_length _ _ _ _ _ ny HLay) in Hy.
      rewrite (dedB_decomp _ _ _ _ _ ny Hwx Hconds HLc HLay y Hy).
      rewrite dot_unitv by exact Hk. unfold colR. rewrite map_map.
      rewrite (ded_nth_map _ conds k ([], 0)) by lia. lra.
  - f_equal. rewrite (dedU_eq _ _ _ _ _ ny Hwx HLc HLay).
    rewrite dot_unitv by exact Hk. rewrite (ded_nth_map _ conds k ([], 0)) by lia. lra.
Qed.

(* a vacuous antecedent returns the apex opinion (betaR, upsR) *)
Lemma deduce_of_vacuous ax conds ay ny :
  wf_dist ax -> wf_conds ny conds -> length conds = length ax -> wf_dist ay -> length ay = ny ->
  deduce_of (B:=FldR) (map Some (repeat 0 (length ax)), Some 1, map Some ax) (map condV conds) (map Some ay)
  = (map Some (tab ny (betaR ax conds ay)), Some (upsR ax conds ay), map Some ay).
Proof.
  intros Hax Hconds HLc Hay HLay.
  pose proof (vacuous_wf_opinion ax Hax) as Hwx.
  rewrite (deduce_of_eval _ _ _ _ _ ny Hwx Hconds HLc Hay HLay).
  f_equal. f_equal.
  - f_equal. apply (nth_ext _ _ 0 0).
    + rewrite (dedB_length _ _ _ _ _ ny HLay), ded_tab_length. reflexivity.
    + intros y Hy. rewrite (dedB_length _ _ _ _ _ ny HLay) in Hy.
      rewrite (dedB_decomp _ _ _ _ _ ny Hwx Hconds HLc HLay y Hy).
      rewrite dot_zeros, ded_nth_tab by exact Hy. lra.
  - f_equal. rewrite (dedU_eq _ _ _ _ _ ny Hwx HLc HLay). rewrite dot_zeros. lra.
Qed.

(* ---------------------------------- deduce / deduce_with on real operands *)
Lemma mbr_some eps ny ax conds : 0 <= eps -> wf_conds ny conds ->
  ~ all_vacuous eps conds -> mbr_S ax conds <> 0 ->
  mbr (B:=FldR) eps ny (map Some ax) (map condV conds) = Some (map Some (mbrR ny ax conds)).
Proof.
  intros He H Hv HS. destruct (mbr _ _ _ _) as [res|] eqn:E.
  - apply (mbr_some_eq eps ny ax conds res H) in E. destruct E as [-> _]. reflexivity.
  - apply (mbr_none_iff eps ny ax conds He H) in E. tauto.
Qed.

Lemma deduce_eval eps ny bx ux ax conds :
  0 <= eps -> wf_opinion bx ux ax -> wf_conds ny conds -> length conds = length ax ->
  ~ all_vacuous eps conds -> mbr_S ax conds <> 0 ->
  deduce (B:=FldR) eps ny (map Some bx, Some ux, map Some ax) (map condV conds)
  = Some (map Some (dedB bx ux ax conds (mbrR ny ax conds)),
          Some (dedU bx ax conds (mbrR ny ax conds)),
          map Some (mbrR ny ax conds)).
Proof.
  intros He Hwx H HLc Hv HS.
  rewrite (deduce_some_gen _ _ _ _ _ _ _ (mbr_some eps ny ax conds He H Hv HS)).
  f_equal. apply (deduce_of_eval _ _ _ _ _ ny Hwx H HLc).
  - apply mbrR_wf; [destruct Hwx as (_ & Ha & _); exact Ha|exact H|exact HS].
  - apply mbrR_length.
Qed.

Lemma deduce_with_eval_some eps ny bx ux ax conds (fb : list RV) :
  0 <= eps -> wf_opinion bx ux ax -> wf_conds ny conds -> length conds = length ax ->
  ~ all_vacuous eps conds -> mbr_S ax conds <> 0 ->
  deduce_with (B:=FldR) eps ny (map Some bx, Some ux, map Some ax) (map condV conds) fb
  = ((map Some (dedB bx ux ax conds (mbrR ny ax conds)),
      Some (dedU bx ax conds (mbrR ny ax conds)),
      map Some (mbrR ny ax conds)), false).
Proof.
  intros He Hwx H HLc Hv HS. unfold deduce_with.
  rewrite (mbr_some eps ny ax conds He H Hv HS). f_equal.
  apply (deduce_of_eval _ _ _ _ _ ny Hwx H HLc).
  - apply mbrR_wf; [destruct Hwx as (_ & Ha & _); exact Ha|exact H|exact HS].
  - apply mbrR_length.
Qed.

Lemma deduce_with_eval_none eps ny bx ux ax conds fb :
  0 <= eps -> wf_opinion bx ux ax -> wf_conds ny conds -> length conds = length ax ->
  all_vacuous eps conds \/ mbr_S ax conds = 0 -> wf_dist fb -> length fb = ny ->
  deduce_with (B:=FldR) eps ny (map Some bx, Some ux, map Some ax) (map condV conds) (map Some fb)
  = ((map Some (dedB bx ux ax conds fb), Some (dedU bx ax conds fb), map Some fb), true).
Proof.
  intros He Hwx H HLc Hv Hfb HLfb. unfold deduce_with.
  apply (mbr_none_iff eps ny ax conds He H) in Hv. rewrite Hv. f_equal.
  apply (deduce_of_eval _ _ _ _ _ ny Hwx H HLc Hfb HLfb).
Qed.

(* ------------------------------------------ statements packaged for Props *)
Lemma ded_map2_map_r {X Y Y' Z} (f : X -> Y' -> Z) (g : Y -> Y') l1 l2 :
  map2 f l1 (map g l2) = map2 (fun x y => f x (g y)) l1 l2.
Proof. revert l2; induction l1; destruct l2; cbn; auto. f_equal; auto. Qed.

Lemma dot_map_r {X} w (g : X -> R) l : dot w (map g l) = Rsum (map2 (fun a x => a * g x) w l).
Proof. unfold dot. rewrite ded_map2_map_r. reflexivity. Qed.

Lemma mbr_S_unfold ax conds : mbr_S ax conds = Rsum (map2 (fun a c => a * Rsum (fst c)) ax conds).
Proof. unfold mbr_S. apply dot_map_r. Qed.

Lemma mbr_raw_unfold ax conds y :
  mbr_raw ax conds y = Rsum (map2 (fun a c => a * nth y (fst c) 0) ax conds).
Proof. unfold mbr_raw, colR. rewrite map_map. apply dot_map_r. Qed.

Lemma mbrR_nth ny ax conds y : (y < ny)%nat ->
  nth y (mbrR ny ax conds) 0 = Rsum (map2 (fun a c => a * nth y (fst c) 0) ax conds) / mbr_S ax conds.
Proof. intros Hy. unfold mbrR. rewrite ded_nth_tab by exact Hy. rewrite mbr_raw_unfold. reflexivity. Qed.

Lemma ded_no_none (l : list R) : ~ In None (map Some l).
Proof. intros H. apply in_map_iff in H. destruct H as (x & E & _). discriminate. Qed.

Lemma mbr_spec_full eps ny ax conds :
  0 <= eps <= 1/8 -> wf_dist ax -> wf_conds ny conds -> length conds = length ax ->
  (mbr (B:=FldR) eps ny (map Some ax) (map condV conds) = None
     <-> all_vacuous eps conds \/ mbr_S ax conds = 0) /\
  (forall res, mbr (B:=FldR) eps ny (map Some ax) (map condV conds) = Some res ->
     res = map Some (mbrR ny ax conds) /\ ~ In None res /\
     wf_dist (mbrR ny ax conds) /\ length (mbrR ny ax conds) = ny /\
     forall y, (y < ny)%nat ->
       nth y (mbrR ny ax conds) 0 =
       Rsum (map2 (fun a c => a * (nth y (fst c) 0 + nth y (mbrR ny ax conds) 0 * snd c)) ax conds)).
Proof.
  intros [He _] Hax H HLc. split; [apply mbr_none_iff; assumption|].
  intros res E. apply (mbr_some_eq eps ny ax conds res H) in E. destruct E as [-> HS].
  split; [reflexivity|]. split; [apply ded_no_none|].
  split; [apply mbrR_wf; assumption|]. split; [apply mbrR_length|].
  intros y Hy. apply mbrR_fixed; auto.
Qed.

Lemma mbr_none_iff_exact ny ax conds :
  wf_dist ax -> wf_conds ny conds -> length conds = length ax ->
  mbr (B:=FldR) 0 ny (map Some ax) (map condV conds) = None <-> mbr_S ax conds = 0.
Proof.
  intros [Ha _] H HLc. rewrite (mbr_none_iff 0 ny ax conds (Rle_refl 0) H). split; [|auto].
  intros [A|A]; [|exact A]. apply (all_vacuous_S_zero ny ax conds Ha H ltac:(lia) A).
Qed.

Lemma abduce_none_iff_gen eps (wy : @simplex FldR) (conds : list (@simplex FldR)) (ax : list RV) ny :
  abduce (B:=FldR) eps wy conds ax ny = None <-> mbr (B:=FldR) eps ny ax conds = None.
Proof. unfold abduce. destruct (mbr _ _ _ _); split; intros; congruence. Qed.

Lemma projections_eval ny conds ay : wf_conds ny conds -> wf_dist ay -> length ay = ny ->
  projections (B:=FldR) (map condV conds) (map Some ay) = map (map Some) (condP conds ay).
Proof.
  intros H [_ Hs] HL. unfold projections, condP. rewrite !map_map. apply map_ext_in. intros c Hc.
  destruct (wf_conds_in _ _ _ H Hc) as [(_ & _ & Hc1) Hc2]. cbn [bel unc condV fst snd].
  apply ded_projection; [lia|]. rewrite Hs. lra.
Qed.

Lemma minbR_spec ny conds y : wf_conds ny conds -> conds <> [] ->
  (forall c, In c conds -> minbR conds y <= nth y (fst c) 0) /\
  (exists c, In c conds /\ minbR conds y = nth y (fst c) 0) /\ 0 <= minbR conds y.
Proof.
  intros H Hne. unfold minbR, colR. rewrite map_map. split; [|split].
  - intros c Hc. apply minl_le. apply (in_map (fun c => nth y (fst c) 0)). exact Hc.
  - assert (Hn : map (fun c : list R * R => nth y (fst c) 0) conds <> [])
      by (destruct conds; [congruence|discriminate]).
    apply minl_in in Hn. apply in_map_iff in Hn. destruct Hn as (c & E & Hc). exists c. auto.
  - assert (Hn : map (fun c : list R * R => nth y (fst c) 0) conds <> [])
      by (destruct conds; [congruence|discriminate]).
    apply minl_in in Hn. apply in_map_iff in Hn. destruct Hn as (c & E & Hc). rewrite <- E.
    destruct (wf_conds_in _ _ _ H Hc) as [(Hb & _) _]. apply ded_nonneg_nth. exact Hb.
Qed.

Lemma pyhxR_unfold ny ax conds ay y : wf_conds ny conds -> length ay = ny ->
  pyhxR ax conds ay y = Rsum (map2 (fun a c => a * (nth y (fst c) 0 + nth y ay 0 * snd c)) ax conds).
Proof. intros H HL. rewrite ded_mix. unfold pyhxR. apply (ded_dot_condP ny); assumption. Qed.

Lemma deduce_of_spec_full bx ux ax conds ay ny :
  wf_opinion bx ux ax -> wf_conds ny conds -> length conds = length ax -> wf_dist ay -> length ay = ny ->
  deduce_of (B:=FldR) (map Some bx, Some ux, map Some ax) (map condV conds) (map Some ay)
    = (map Some (dedB bx ux ax conds ay), Some (dedU bx ax conds ay), map Some ay) /\
  wf_simplex (dedB bx ux ax conds ay) (dedU bx ax conds ay) /\
  length (dedB bx ux ax conds ay) = ny /\
  forall y, (y < ny)%nat ->
    nth y (dedB bx ux ax conds ay) 0 + nth y ay 0 * dedU bx ax conds ay
    = Rsum (map2 (fun px c => px * (nth y (fst c) 0 + nth y ay 0 * snd c)) (projR bx ux ax) conds).
Proof.
  intros Hwx H HLc Hay HLay. split; [apply (deduce_of_eval _ _ _ _ _ ny); assumption|].
  split; [apply (deduce_of_wf _ _ _ _ _ ny); assumption|].
  split; [apply dedB_length; assumption|].
  intros y Hy. apply (deduce_of_total _ _ _ _ _ ny); assumption.
Qed.

Lemma deduce_spec_full eps ny bx ux ax conds :
  0 <= eps <= 1/8 -> wf_opinion bx ux ax -> wf_conds ny conds -> length conds = length ax ->
  ~ all_vacuous eps conds -> mbr_S ax conds <> 0 ->
  let ay := mbrR ny ax conds in
  deduce (B:=FldR) eps ny (map Some bx, Some ux, map Some ax) (map condV conds)
    = Some (map Some (dedB bx ux ax conds ay), Some (dedU bx ax conds ay), map Some ay) /\
  wf_opinion (dedB bx ux ax conds ay) (dedU bx ax conds ay) ay /\
  forall y, (y < ny)%nat ->
    nth y (dedB bx ux ax conds ay) 0 + nth y ay 0 * dedU bx ax conds ay
    = Rsum (map2 (fun px c => px * (nth y (fst c) 0 + nth y ay 0 * snd c)) (projR bx ux ax) conds).
Proof.
  intros [He _] Hwx H HLc Hv HS ay.
  assert (Hay : wf_dist ay) by (apply mbrR_wf; [destruct Hwx as (_ & Ha & _); exact Ha|exact H|exact HS]).
  assert (HLay : length ay = ny) by apply mbrR_length.
  split; [apply deduce_eval; assumption|].
  split.
  - split; [apply (deduce_of_wf _ _ _ _ _ ny); assumption|]. split; [exact Hay|].
    rewrite (dedB_length _ _ _ _ _ ny HLay). exact HLay.
  - intros y Hy. apply (deduce_of_total _ _ _ _ _ ny); assumption.
Qed.

Lemma deduce_of_apex_full bx ux ax conds ay ny :
  wf_opinion bx ux ax -> wf_conds ny conds -> length conds = length ax -> wf_dist ay -> length ay = ny ->
  dedU bx ax conds ay = dot bx (map snd conds) + ux * upsR ax conds ay /\
  0 <= upsR ax conds ay /\
  (forall y, (y < ny)%nat ->
     nth y (dedB bx ux ax conds ay) 0 = dot bx (colR (map fst conds) y) + ux * betaR ax conds ay y /\
     0 <= minbR conds y <= betaR ax conds ay y) /\
  (forall y, (y < ny)%nat -> nth y ay 0 <> 0 ->
     upsR ax conds ay <= (pyhxR ax conds ay y - minbR conds y) / nth y ay 0) /\
  (exists y, (y < ny)%nat /\ nth y ay 0 <> 0 /\
     upsR ax conds ay = (pyhxR ax conds ay y - minbR conds y) / nth y ay 0 /\
     betaR ax conds ay y = minbR conds y) /\
  (forall v, (forall y, (y < ny)%nat -> minbR conds y <= pyhxR ax conds ay y - nth y ay 0 * v) ->
     v <= upsR ax conds ay).
Proof.
  intros Hwx H HLc Hay HLay. assert (Hax : wf_dist ax) by (destruct Hwx as (_ & Ha & _); exact Ha).
  split; [apply (dedU_eq _ _ _ _ _ ny); assumption|].
  split; [apply (upsR_nonneg _ _ _ ny); assumption|].
  split.
  { intros y Hy. split; [apply (dedB_decomp _ _ _ _ _ ny); assumption|].
    split; [apply (minbR_nonneg ax conds ny); assumption|apply (betaR_ge _ _ _ ny); assumption]. }
  split; [intros y Hy Hn; apply (upsR_le _ _ _ ny); assumption|].
  split.
  { destruct (upsR_attained ax conds ay ny HLc Hay HLay) as (y & Hy & Hn & E).
    exists y. split; [exact Hy|]. split; [exact Hn|]. split; [exact E|].
    unfold betaR. rewrite E. field. exact Hn. }
  intros v Hv. apply (upsR_maximal ax conds ay ny); assumption.
Qed.

(* ------------------------------------------------------------- examples *)
Lemma ded_list2_eq (a b c d : R) : a = c -> b = d -> [a; b] = [c; d].
Proof. intros; subst; reflexivity. Qed.
Ltac ded_wf_list := repeat (apply Forall_cons; [lra|]); apply Forall_nil.
Ltac ded_wf_cond := split; [split; [unfold nonneg; ded_wf_list|split; [lra|cbn [Rsum]; lra]]|reflexivity].
(* the only informative conditional sits at x = 0 *)
Definition ex_conds : list (list R * R) := [([1/2; 1/4], 1/4); ([0; 0], 1)].
(* belief on y = 0 is zero in every conditional: the marginal base rate has a zero entry *)
Definition ex_conds0 : list (list R * R) := [([0; 1/2], 1/2); ([0; 1], 0)].

Lemma ex_conds_wf : wf_conds 2 ex_conds.
Proof.
  unfold ex_conds, wf_conds. repeat (apply Forall_cons; [cbn [fst snd]; ded_wf_cond|]). apply Forall_nil.
Qed.
Lemma ex_conds0_wf : wf_conds 2 ex_conds0.
Proof.
  unfold ex_conds0, wf_conds. repeat (apply Forall_cons; [cbn [fst snd]; ded_wf_cond|]). apply Forall_nil.
Qed.
Lemma ex_dist01 : wf_dist [0; 1].
Proof. split; [unfold nonneg; ded_wf_list|cbn; lra]. Qed.
Lemma ex_dist_half : wf_dist [1/2; 1/2].
Proof. split; [unfold nonneg; ded_wf_list|cbn; lra]. Qed.

Lemma ex_not_vacuous eps : 0 <= eps <= 1/8 -> ~ all_vacuous eps ex_conds.
Proof. intros He A. specialize (A ([1/2; 1/4], 1/4) ltac:(left; reflexivity)). cbn in A. lra. Qed.
Lemma ex_not_vacuous0 eps : 0 <= eps <= 1/8 -> ~ all_vacuous eps ex_conds0.
Proof. intros He A. specialize (A ([0; 1], 0) ltac:(right; left; reflexivity)). cbn in A. lra. Qed.

(* zero base rate on the informative conditional: absent, not NaN *)
Lemma ex_mbr_none eps : 0 <= eps <= 1/8 ->
  mbr (B:=FldR) eps 2 (map Some [0; 1]) (map condV ex_conds) = None.
Proof.
  intros [He _]. apply (mbr_none_iff eps 2 [0; 1] ex_conds He ex_conds_wf). right.
  unfold mbr_S, dot, ex_conds. cbn. lra.
Qed.
(* positive base rate: a distribution *)
Lemma ex_mbr_some eps : 0 <= eps <= 1/8 ->
  mbr (B:=FldR) eps 2 (map Some [1/2; 1/2]) (map condV ex_conds) = Some (map Some [2/3; 1/3]).
Proof.
  intros He. rewrite (mbr_some eps 2 [1/2; 1/2] ex_conds (proj1 He) ex_conds_wf (ex_not_vacuous eps He)).
  - do 2 f_equal. unfold mbrR, mbr_raw, mbr_S, dot, colR, tab, ex_conds. cbn.
    apply ded_list2_eq; field.
  - unfold mbr_S, dot, ex_conds. cbn. lra.
Qed.

Lemma ex_mbrR0 : mbrR 2 [1/2; 1/2] ex_conds0 = [0; 1] /\ mbr_S [1/2; 1/2] ex_conds0 <> 0.
Proof.
  split.
  - unfold mbrR, mbr_raw, mbr_S, dot, colR, tab, ex_conds0. cbn. apply ded_list2_eq; field.
  - unfold mbr_S, dot, ex_conds0. cbn. lra.
Qed.

Lemma ex_opinion : wf_opinion [1/2; 1/4] (1/4) [1/2; 1/2].
Proof.
  split; [|split; [exact ex_dist_half|reflexivity]].
  split; [unfold nonneg; ded_wf_list|]. split; [lra|cbn; lra].
Qed.
