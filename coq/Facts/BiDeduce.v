(* C14: binomial deduction (BOpinion::deduce, model [bdeduce] in Model/Bi.v).

   Plan of the file
   1. [bdeduceK]: the correction term K as a real function with literally the
      nine-way case split of the code; [bdeduce_eval]: on the open domain of the
      property the model computes exactly this (every divisor is non-zero in
      the branch that uses it).
   2. [bdeduceK_closed]: the nine branches collapse to
        Case II  (b0 > b1, d0 <= d1):  K = ux * min (ax (b0-b1)/ay) ((1-ax)(d1-d0)/(1-ay))
        Case III (b0 <= b1, d0 > d1):  K = ux * min ((1-ax)(b1-b0)/ay) (ax (d0-d1)/(1-ay))
        Case I:                        K = 0
      (A/B = which argument of the min is taken, 1/2 only changes the way the
      same number is written).
   3. well-formedness, base rate, total probability, dogmatic antecedent,
      the two label symmetries (full, ties included) and the refutation of the
      pre-fix Case III threshold. *)
From Coq Require Import Reals List Bool Lra Lia Psatz.
Import ListNotations.
From SL Require Import Model.Num Model.Vec Model.Mul Model.Bi Model.InstR Facts.RBase Facts.Discount.
Open Scope R_scope.

(* a conditional (b, d, u): non-negative masses summing to one *)
Definition wf_cond (b d u : R) : Prop := 0 <= b /\ 0 <= d /\ 0 <= u /\ b + d + u = 1.

(* the intermediate masses: b_x v0 + d_x v1 + u_x (a_x v0 + (1 - a_x) v1) *)
Definition mixR (bx dx ux ax v0 v1 : R) : R :=
  bx * v0 + dx * v1 + ux * (v0 * ax + v1 * (1 - ax)).

(* K with the case split of the code (comparisons decided on the reals) *)
Definition bdeduceK (bx dx ux ax b0 d0 u0 b1 d1 u1 ay : R) : R :=
  let rvax := 1 - ax in
  let bi := mixR bx dx ux ax b0 b1 in
  let di := mixR bx dx ux ax d0 d1 in
  let bp := Rltb b1 b0 in
  let dp := Rltb d1 d0 in
  if Bool.eqb bp dp then 0
  else if (bp && negb dp) && Reqb d0 d1 then 0
  else if (negb bp && dp) && Reqb b0 b1 then 0
  else
    let pyx := b0 * ax + b1 * rvax + ay * (u0 * ax + u1 * rvax) in
    let px := bx + ax * ux in
    let r := if bp then b1 + ay * (1 - b1 - d0) else b0 + ay * (1 - b0 - d1) in
    match Rltb r pyx, Rltb ax px with
    | false, false =>
        if bp then ax * ux * (bi - b1) / (px * ay)                                   (* II.A.1 *)
        else rvax * ux * (di - d1) * (b1 - b0) / (px * ay * (d0 - d1))               (* III.A.1 *)
    | false, true =>
        if bp then ax * ux * (di - d0) * (b0 - b1) / ((1 - px) * ay * (d1 - d0))     (* II.A.2 *)
        else rvax * ux * (bi - b0) / ((1 - px) * ay)                                 (* III.A.2 *)
    | true, false =>
        if bp then rvax * ux * (bi - b1) * (d1 - d0) / (px * (1 - ay) * (b0 - b1))   (* II.B.1 *)
        else ax * ux * (di - d1) / (px * (1 - ay))                                   (* III.B.1 *)
    | true, true =>
        if bp then rvax * ux * (di - d0) / ((1 - px) * (1 - ay))                     (* II.B.2 *)
        else ax * ux * (bi - b0) * (d0 - d1) / ((1 - px) * (1 - ay) * (b1 - b0))     (* III.B.2 *)
    end.

(* the three masses of the result *)
Definition bdedB (bx dx ux ax b0 d0 u0 b1 d1 u1 ay : R) : R :=
  mixR bx dx ux ax b0 b1 - ay * bdeduceK bx dx ux ax b0 d0 u0 b1 d1 u1 ay.
Definition bdedD (bx dx ux ax b0 d0 u0 b1 d1 u1 ay : R) : R :=
  mixR bx dx ux ax d0 d1 - (1 - ay) * bdeduceK bx dx ux ax b0 d0 u0 b1 d1 u1 ay.
Definition bdedU (bx dx ux ax b0 d0 u0 b1 d1 u1 ay : R) : R :=
  mixR bx dx ux ax u0 u1 + bdeduceK bx dx ux ax b0 d0 u0 b1 d1 u1 ay.

(* the A/B thresholds, rewritten *)
Lemma thr_II ax b0 d0 b1 d1 ay :
  b0 * ax + b1 * (1 - ax) + ay * ((1 - b0 - d0) * ax + (1 - b1 - d1) * (1 - ax))
    - (b1 + ay * (1 - b1 - d0))
  = (1 - ay) * ax * (b0 - b1) - ay * (1 - ax) * (d1 - d0).
Proof. ring. Qed.
Lemma thr_III ax b0 d0 b1 d1 ay :
  b0 * ax + b1 * (1 - ax) + ay * ((1 - b0 - d0) * ax + (1 - b1 - d1) * (1 - ax))
    - (b0 + ay * (1 - b0 - d1))
  = (1 - ay) * (1 - ax) * (b1 - b0) - ay * ax * (d0 - d1).
Proof. ring. Qed.

Lemma Rmult3_neq0 a b c : a <> 0 -> b <> 0 -> c <> 0 -> a * b * c <> 0.
Proof. intros; repeat apply Rmult_integral_contrapositive_currified; assumption. Qed.
Lemma Rmult2_neq0 a b : a <> 0 -> b <> 0 -> a * b <> 0.
Proof. intros; apply Rmult_integral_contrapositive_currified; assumption. Qed.

Lemma frac_le p q s t : 0 < s -> 0 < t -> p * t <= q * s -> p / s <= q / t.
Proof.
  intros Hs Ht H. apply Rmult_le_reg_r with (s * t); [apply Rmult_lt_0_compat; assumption|].
  replace (p / s * (s * t)) with (p * t) by (field; lra).
  replace (q / t * (s * t)) with (q * s) by (field; lra). exact H.
Qed.

(* closed form of K: Case II / Case III / Case I *)
Definition kR (ux ax b0 d0 b1 d1 ay : R) : R :=
  if Rltb b1 b0 then
    if Rltb d1 d0 then 0
    else ux * Rmin (ax * (b0 - b1) / ay) ((1 - ax) * (d1 - d0) / (1 - ay))
  else
    if Rltb d1 d0 then ux * Rmin ((1 - ax) * (b1 - b0) / ay) (ax * (d0 - d1) / (1 - ay))
    else 0.

Lemma kbound u m P s c : 0 <= u -> 0 < s -> m <= P -> s * P = c -> s * (u * m) <= u * c.
Proof.
  intros Hu Hs Hm Hc. subst c. replace (u * (s * P)) with (s * (u * P)) by ring.
  apply Rmult_le_compat_l; [lra|]. apply Rmult_le_compat_l; assumption.
Qed.

(* 0 <= K, and the two bounds that make b and d non-negative *)
Lemma kR_bounds_II ux ax b0 d0 b1 d1 ay :
  0 <= ux -> 0 <= ax <= 1 -> 0 < ay < 1 -> b1 < b0 -> d0 <= d1 ->
  let K := kR ux ax b0 d0 b1 d1 ay in
  0 <= K /\ ay * K <= ux * (ax * (b0 - b1)) /\ (1 - ay) * K <= ux * ((1 - ax) * (d1 - d0)).
Proof.
  intros Hu Hax Hay Hb Hd. unfold kR.
  destruct (Rltb_spec b1 b0) as [_|N]; [|contradiction].
  destruct (Rltb_spec d1 d0) as [N|_]; [lra|].
  set (P := ax * (b0 - b1) / ay). set (Q := (1 - ax) * (d1 - d0) / (1 - ay)).
  assert (HP : 0 <= P).
  { unfold P, Rdiv. apply Rmult_le_pos; [apply Rmult_le_pos; lra|].
    left; apply Rinv_0_lt_compat; lra. }
  assert (HQ : 0 <= Q).
  { unfold Q, Rdiv. apply Rmult_le_pos; [apply Rmult_le_pos; lra|].
    left; apply Rinv_0_lt_compat; lra. }
  cbv zeta. repeat split.
  - apply Rmult_le_pos; [assumption|]. apply Rmin_glb; assumption.
  - apply kbound with P; [assumption|lra|apply Rmin_l|unfold P; field; lra].
  - apply kbound with Q; [assumption|lra|apply Rmin_r|unfold Q; field; lra].
Qed.

Lemma kR_bounds_III ux ax b0 d0 b1 d1 ay :
  0 <= ux -> 0 <= ax <= 1 -> 0 < ay < 1 -> b0 <= b1 -> d1 < d0 ->
  let K := kR ux ax b0 d0 b1 d1 ay in
  0 <= K /\ ay * K <= ux * ((1 - ax) * (b1 - b0)) /\ (1 - ay) * K <= ux * (ax * (d0 - d1)).
Proof.
  intros Hu Hax Hay Hb Hd. unfold kR.
  destruct (Rltb_spec b1 b0) as [N|_]; [lra|].
  destruct (Rltb_spec d1 d0) as [_|N]; [|contradiction].
  set (P := (1 - ax) * (b1 - b0) / ay). set (Q := ax * (d0 - d1) / (1 - ay)).
  assert (HP : 0 <= P).
  { unfold P, Rdiv. apply Rmult_le_pos; [apply Rmult_le_pos; lra|].
    left; apply Rinv_0_lt_compat; lra. }
  assert (HQ : 0 <= Q).
  { unfold Q, Rdiv. apply Rmult_le_pos; [apply Rmult_le_pos; lra|].
    left; apply Rinv_0_lt_compat; lra. }
  cbv zeta. repeat split.
  - apply Rmult_le_pos; [assumption|]. apply Rmin_glb; assumption.
  - apply kbound with P; [assumption|lra|apply Rmin_l|unfold P; field; lra].
  - apply kbound with Q; [assumption|lra|apply Rmin_r|unfold Q; field; lra].
Qed.

Lemma kR_caseI ux ax b0 d0 b1 d1 ay :
  (b1 < b0 /\ d1 < d0) \/ (b0 <= b1 /\ d0 <= d1) -> kR ux ax b0 d0 b1 d1 ay = 0.
Proof.
  intros H. unfold kR.
  destruct (Rltb_spec b1 b0), (Rltb_spec d1 d0); try reflexivity; lra.
Qed.

Lemma mixR_nonneg bx dx ux ax v0 v1 :
  0 <= bx -> 0 <= dx -> 0 <= ux -> 0 <= ax <= 1 -> 0 <= v0 -> 0 <= v1 ->
  0 <= mixR bx dx ux ax v0 v1.
Proof.
  intros. unfold mixR.
  assert (0 <= bx * v0) by (apply Rmult_le_pos; lra).
  assert (0 <= dx * v1) by (apply Rmult_le_pos; lra).
  assert (0 <= v0 * ax) by (apply Rmult_le_pos; lra).
  assert (0 <= v1 * (1 - ax)) by (apply Rmult_le_pos; lra).
  assert (0 <= ux * (v0 * ax + v1 * (1 - ax))) by (apply Rmult_le_pos; lra).
  lra.
Qed.

Lemma mixR_sum bx dx ux ax b0 d0 u0 b1 d1 u1 :
  bx + dx + ux = 1 -> b0 + d0 + u0 = 1 -> b1 + d1 + u1 = 1 ->
  mixR bx dx ux ax b0 b1 + mixR bx dx ux ax d0 d1 + mixR bx dx ux ax u0 u1 = 1.
Proof.
  intros Sx S0 S1. assert (E0 : u0 = 1 - b0 - d0) by lra. assert (E1 : u1 = 1 - b1 - d1) by lra.
  assert (Ex : dx = 1 - bx - ux) by lra. unfold mixR. rewrite E0, E1, Ex. ring.
Qed.

(* mixR is the P(x)-weighted mean of the two arguments *)
Lemma mixR_px bx dx ux ax v0 v1 : bx + dx + ux = 1 ->
  mixR bx dx ux ax v0 v1 = (bx + ax * ux) * v0 + (1 - (bx + ax * ux)) * v1.
Proof. intros Sx. assert (Ex : dx = 1 - bx - ux) by lra. unfold mixR. rewrite Ex. ring. Qed.

Section Deduce.
Variables eps bx dx ux ax b0 d0 u0 b1 d1 u1 ay : R.
Hypothesis Heps : 0 <= eps <= 1/8.
Hypothesis Hx : wf_bop bx dx ux ax.
Hypothesis Hax : 0 < ax < 1.
Hypothesis Hpx : 0 < bx + ax * ux < 1.
Hypothesis Hc0 : wf_cond b0 d0 u0.
Hypothesis Hc1 : wf_cond b1 d1 u1.
Hypothesis Hay : 0 < ay < 1.

(* in the A branches of Case II d1 - d0 > 0, in the B branches of Case III b1 - b0 > 0 *)
Lemma caseII_A_dpos :
  b1 < b0 ->
  b0 * ax + b1 * (1 - ax) + ay * (u0 * ax + u1 * (1 - ax)) <= b1 + ay * (1 - b1 - d0) ->
  0 < d1 - d0.
Proof.
  intros Hb Hr. destruct Hc0 as (_ & _ & _ & S0), Hc1 as (_ & _ & _ & S1).
  assert (E0 : u0 = 1 - b0 - d0) by lra. assert (E1 : u1 = 1 - b1 - d1) by lra.
  rewrite E0, E1 in Hr. pose proof (thr_II ax b0 d0 b1 d1 ay) as T.
  assert (P1 : 0 < (1 - ay) * ax * (b0 - b1)).
  { apply Rmult_lt_0_compat; [apply Rmult_lt_0_compat|]; lra. }
  assert (P2 : 0 < ay * (1 - ax) * (d1 - d0)) by lra.
  assert (P3 : 0 < ay * (1 - ax)) by (apply Rmult_lt_0_compat; lra).
  nra.
Qed.

Lemma caseIII_B_bpos :
  d1 < d0 ->
  b0 + ay * (1 - b0 - d1) < b0 * ax + b1 * (1 - ax) + ay * (u0 * ax + u1 * (1 - ax)) ->
  0 < b1 - b0.
Proof.
  intros Hd Hr. destruct Hc0 as (_ & _ & _ & S0), Hc1 as (_ & _ & _ & S1).
  assert (E0 : u0 = 1 - b0 - d0) by lra. assert (E1 : u1 = 1 - b1 - d1) by lra.
  rewrite E0, E1 in Hr. pose proof (thr_III ax b0 d0 b1 d1 ay) as T.
  assert (P1 : 0 < ay * ax * (d0 - d1)).
  { apply Rmult_lt_0_compat; [apply Rmult_lt_0_compat|]; lra. }
  assert (P2 : 0 < (1 - ay) * (1 - ax) * (b1 - b0)) by lra.
  assert (P3 : 0 < (1 - ay) * (1 - ax)) by (apply Rmult_lt_0_compat; lra).
  nra.
Qed.

(* the model evaluates to the real function: no division by zero anywhere *)
Lemma bdeduce_eval :
  bdeduce (B:=FldR) eps (bopR bx dx ux ax) (Some b0, Some d0, Some u0)
          (Some b1, Some d1, Some u1) (Some ay) =
  btry_new (B:=FldR) eps
    (Some (bdedB bx dx ux ax b0 d0 u0 b1 d1 u1 ay))
    (Some (bdedD bx dx ux ax b0 d0 u0 b1 d1 u1 ay))
    (Some (bdedU bx dx ux ax b0 d0 u0 b1 d1 u1 ay)) (Some ay).
Proof.
  pose proof caseII_A_dpos as HA. pose proof caseIII_B_bpos as HB.
  unfold bdedB, bdedD, bdedU, bdeduceK, mixR.
  unfold bdeduce, bopR, bprojection, gtb; cbn [bb bd bu ba]. rsimpl.
  rewrite !ltb_some.
  assert (N1 : bx + ax * ux <> 0) by lra.
  assert (N2 : 1 - (bx + ax * ux) <> 0) by lra.
  assert (N3 : ay <> 0) by lra.
  assert (N4 : 1 - ay <> 0) by lra.
  destruct (Rltb_spec b1 b0) as [Hb|Hb], (Rltb_spec d1 d0) as [Hd|Hd]; cbn [Bool.eqb andb negb];
    try reflexivity; rewrite ?ltb_some, ?eqb_some.
  - (* Case II *)
    destruct (Reqb_spec d0 d1) as [Ed|Ed]; [reflexivity|].
    destruct (Rltb_spec (b1 + ay * (1 - b1 - d0))
                (b0 * ax + b1 * (1 - ax) + ay * (u0 * ax + u1 * (1 - ax)))) as [Hr|Hr],
             (Rltb_spec ax (bx + ax * ux)) as [Hp|Hp].
    + rewrite div_some by (apply Rmult2_neq0; assumption). reflexivity.
    + rewrite div_some by (apply Rmult3_neq0; try assumption; lra). reflexivity.
    + assert (0 < d1 - d0) by (apply HA; lra).
      rewrite div_some by (apply Rmult3_neq0; try assumption; lra). reflexivity.
    + rewrite div_some by (apply Rmult2_neq0; assumption). reflexivity.
  - (* Case III *)
    destruct (Reqb_spec b0 b1) as [Eb|Eb]; [reflexivity|].
    destruct (Rltb_spec (b0 + ay * (1 - b0 - d1))
                (b0 * ax + b1 * (1 - ax) + ay * (u0 * ax + u1 * (1 - ax)))) as [Hr|Hr],
             (Rltb_spec ax (bx + ax * ux)) as [Hp|Hp].
    + assert (0 < b1 - b0) by (apply HB; lra).
      rewrite div_some by (apply Rmult3_neq0; try assumption; lra). reflexivity.
    + rewrite div_some by (apply Rmult2_neq0; assumption). reflexivity.
    + rewrite div_some by (apply Rmult2_neq0; assumption). reflexivity.
    + rewrite div_some by (apply Rmult3_neq0; try assumption; lra). reflexivity.
Qed.

(* the nine branches, collapsed *)
Lemma bdeduceK_closed :
  bdeduceK bx dx ux ax b0 d0 u0 b1 d1 u1 ay = kR ux ax b0 d0 b1 d1 ay.
Proof.
  pose proof caseII_A_dpos as HA. pose proof caseIII_B_bpos as HB.
  destruct Hx as (_ & _ & _ & Sx & _).
  destruct Hc0 as (_ & _ & _ & S0), Hc1 as (_ & _ & _ & S1).
  assert (E0 : u0 = 1 - b0 - d0) by lra. assert (E1 : u1 = 1 - b1 - d1) by lra.
  assert (Ex : dx = 1 - bx - ux) by lra.
  pose proof (thr_II ax b0 d0 b1 d1 ay) as T2. pose proof (thr_III ax b0 d0 b1 d1 ay) as T3.
  unfold bdeduceK, kR, mixR.
  destruct (Rltb_spec b1 b0) as [Hb|Hb], (Rltb_spec d1 d0) as [Hd|Hd]; cbn [Bool.eqb andb negb];
    try reflexivity.
  - (* Case II *)
    destruct (Reqb_spec d0 d1) as [Ed|Ed].
    { (* tie: the second argument of the min is 0 *)
      subst d1. replace ((1 - ax) * (d0 - d0) / (1 - ay)) with 0 by (field; lra).
      rewrite Rmin_right; [ring|].
      apply Rmult_le_pos; [apply Rmult_le_pos; lra|left; apply Rinv_0_lt_compat; lra]. }
    destruct (Rltb_spec (b1 + ay * (1 - b1 - d0))
                (b0 * ax + b1 * (1 - ax) + ay * (u0 * ax + u1 * (1 - ax)))) as [Hr|Hr],
             (Rltb_spec ax (bx + ax * ux)) as [Hp|Hp].
    + rewrite Rmin_right by (apply frac_le; [lra|lra|rewrite E0, E1 in Hr; lra]).
      rewrite Ex. field. lra.
    + rewrite Rmin_right by (apply frac_le; [lra|lra|rewrite E0, E1 in Hr; lra]).
      rewrite Ex. field. lra.
    + assert (0 < d1 - d0) by (apply HA; lra).
      rewrite Rmin_left by (apply frac_le; [lra|lra|rewrite E0, E1 in Hr; lra]).
      rewrite Ex. field. lra.
    + rewrite Rmin_left by (apply frac_le; [lra|lra|rewrite E0, E1 in Hr; lra]).
      rewrite Ex. field. lra.
  - (* Case III *)
    destruct (Reqb_spec b0 b1) as [Eb|Eb].
    { subst b1. replace ((1 - ax) * (b0 - b0) / ay) with 0 by (field; lra).
      rewrite Rmin_left; [ring|].
      apply Rmult_le_pos; [apply Rmult_le_pos; lra|left; apply Rinv_0_lt_compat; lra]. }
    destruct (Rltb_spec (b0 + ay * (1 - b0 - d1))
                (b0 * ax + b1 * (1 - ax) + ay * (u0 * ax + u1 * (1 - ax)))) as [Hr|Hr],
             (Rltb_spec ax (bx + ax * ux)) as [Hp|Hp].
    + assert (0 < b1 - b0) by (apply HB; lra).
      rewrite Rmin_right by (apply frac_le; [lra|lra|rewrite E0, E1 in Hr; lra]).
      rewrite Ex. field. lra.
    + rewrite Rmin_right by (apply frac_le; [lra|lra|rewrite E0, E1 in Hr; lra]).
      rewrite Ex. field. lra.
    + rewrite Rmin_left by (apply frac_le; [lra|lra|rewrite E0, E1 in Hr; lra]).
      rewrite Ex. field. lra.
    + rewrite Rmin_left by (apply frac_le; [lra|lra|rewrite E0, E1 in Hr; lra]).
      rewrite Ex. field. lra.
Qed.

(* ---------------------------------------------------------- well-formed *)
Lemma bdeduce_wf_R :
  wf_bop (bdedB bx dx ux ax b0 d0 u0 b1 d1 u1 ay) (bdedD bx dx ux ax b0 d0 u0 b1 d1 u1 ay)
         (bdedU bx dx ux ax b0 d0 u0 b1 d1 u1 ay) ay.
Proof.
  unfold bdedB, bdedD, bdedU. rewrite bdeduceK_closed.
  destruct Hx as (Hbx & Hdx & Hux & Sx & _).
  destruct Hc0 as (Hb0 & Hd0 & Hu0 & S0), Hc1 as (Hb1 & Hd1 & Hu1 & S1).
  pose proof (mixR_sum bx dx ux ax b0 d0 u0 b1 d1 u1 Sx S0 S1) as Hsum.
  assert (Hax' : 0 <= ax <= 1) by lra.
  pose proof (mixR_nonneg bx dx ux ax b0 b1 Hbx Hdx Hux Hax' Hb0 Hb1) as Hbi.
  pose proof (mixR_nonneg bx dx ux ax d0 d1 Hbx Hdx Hux Hax' Hd0 Hd1) as Hdi.
  pose proof (mixR_nonneg bx dx ux ax u0 u1 Hbx Hdx Hux Hax' Hu0 Hu1) as Hui.
  assert (Pbb0 : 0 <= bx * b0) by (apply Rmult_le_pos; lra).
  assert (Pdb1 : 0 <= dx * b1) by (apply Rmult_le_pos; lra).
  assert (Pbd0 : 0 <= bx * d0) by (apply Rmult_le_pos; lra).
  assert (Pdd1 : 0 <= dx * d1) by (apply Rmult_le_pos; lra).
  assert (Pub0 : 0 <= ux * b0) by (apply Rmult_le_pos; lra).
  assert (Pub1 : 0 <= ux * b1) by (apply Rmult_le_pos; lra).
  assert (Pud0 : 0 <= ux * d0) by (apply Rmult_le_pos; lra).
  assert (Pud1 : 0 <= ux * d1) by (apply Rmult_le_pos; lra).
  destruct (Rlt_le_dec b1 b0) as [Hb|Hb], (Rlt_le_dec d1 d0) as [Hd|Hd].
  - rewrite kR_caseI by lra. unfold wf_bop. lra.
  - (* Case II *)
    destruct (kR_bounds_II ux ax b0 d0 b1 d1 ay Hux Hax' Hay Hb Hd) as (K0 & Kb & Kd).
    set (K := kR ux ax b0 d0 b1 d1 ay) in *.
    assert (Ib : mixR bx dx ux ax b0 b1 - ux * (ax * (b0 - b1)) = bx * b0 + dx * b1 + ux * b1)
      by (unfold mixR; ring).
    assert (Id : mixR bx dx ux ax d0 d1 - ux * ((1 - ax) * (d1 - d0)) = bx * d0 + dx * d1 + ux * d0)
      by (unfold mixR; ring).
    unfold wf_bop. repeat split; lra.
  - (* Case III *)
    destruct (kR_bounds_III ux ax b0 d0 b1 d1 ay Hux Hax' Hay Hb Hd) as (K0 & Kb & Kd).
    set (K := kR ux ax b0 d0 b1 d1 ay) in *.
    assert (Ib : mixR bx dx ux ax b0 b1 - ux * ((1 - ax) * (b1 - b0)) = bx * b0 + dx * b1 + ux * b0)
      by (unfold mixR; ring).
    assert (Id : mixR bx dx ux ax d0 d1 - ux * (ax * (d0 - d1)) = bx * d0 + dx * d1 + ux * d1)
      by (unfold mixR; ring).
    unfold wf_bop. repeat split; lra.
  - rewrite kR_caseI by lra. unfold wf_bop. lra.
Qed.

(* definedness + self-validation + well-formedness *)
Lemma bdeduce_wf_full :
  bdeduce (B:=FldR) eps (bopR bx dx ux ax) (Some b0, Some d0, Some u0)
          (Some b1, Some d1, Some u1) (Some ay) =
  Some (bopR (bdedB bx dx ux ax b0 d0 u0 b1 d1 u1 ay) (bdedD bx dx ux ax b0 d0 u0 b1 d1 u1 ay)
             (bdedU bx dx ux ax b0 d0 u0 b1 d1 u1 ay) ay) /\
  wf_bop (bdedB bx dx ux ax b0 d0 u0 b1 d1 u1 ay) (bdedD bx dx ux ax b0 d0 u0 b1 d1 u1 ay)
         (bdedU bx dx ux ax b0 d0 u0 b1 d1 u1 ay) ay.
Proof.
  split; [|exact bdeduce_wf_R]. rewrite bdeduce_eval. apply btry_new_ok; [exact Heps|exact bdeduce_wf_R].
Qed.

End Deduce.

(* ------------------------------------------------------------ base rate *)
Lemma bdeduce_base_rate_R b d u ay : ba (bopR b d u ay) = Some ay.
Proof. reflexivity. Qed.

(* ----------------------------------------------------- total probability *)
(* b + ay u = P(x) (b0 + ay u0) + (1 - P(x)) (b1 + ay u1): K cancels *)
Lemma bdeduce_total_probability_R bx dx ux ax b0 d0 u0 b1 d1 u1 ay :
  bx + dx + ux = 1 ->
  bdedB bx dx ux ax b0 d0 u0 b1 d1 u1 ay + ay * bdedU bx dx ux ax b0 d0 u0 b1 d1 u1 ay =
  (bx + ax * ux) * (b0 + ay * u0) + (1 - (bx + ax * ux)) * (b1 + ay * u1).
Proof.
  intros Sx. unfold bdedB, bdedU. rewrite !(mixR_px bx dx ux ax) by exact Sx.
  generalize (bdeduceK bx dx ux ax b0 d0 u0 b1 d1 u1 ay). intros K. ring.
Qed.

(* ---------------------------------------------------- dogmatic antecedent *)
Lemma bdeduceK_dogmatic bx dx ax b0 d0 u0 b1 d1 u1 ay :
  bdeduceK bx dx 0 ax b0 d0 u0 b1 d1 u1 ay = 0.
Proof.
  unfold bdeduceK.
  destruct (Bool.eqb _ _); [reflexivity|].
  destruct (_ && Reqb d0 d1); [reflexivity|]. destruct (_ && Reqb b0 b1); [reflexivity|].
  destruct (Rltb b1 b0), (Rltb _ _), (Rltb _ _); unfold Rdiv; ring.
Qed.

Lemma bdeduce_dogmatic_R bx dx ax b0 d0 u0 b1 d1 u1 ay :
  bdedB bx dx 0 ax b0 d0 u0 b1 d1 u1 ay = bx * b0 + dx * b1 /\
  bdedD bx dx 0 ax b0 d0 u0 b1 d1 u1 ay = bx * d0 + dx * d1 /\
  bdedU bx dx 0 ax b0 d0 u0 b1 d1 u1 ay = bx * u0 + dx * u1.
Proof.
  unfold bdedB, bdedD, bdedU. rewrite bdeduceK_dogmatic. unfold mixR. repeat split; ring.
Qed.

Lemma bdeduce_dogmatic eps bx dx ax b0 d0 u0 b1 d1 u1 ay :
  0 <= eps <= 1/8 -> wf_bop bx dx 0 ax -> 0 < ax < 1 -> 0 < bx < 1 ->
  wf_cond b0 d0 u0 -> wf_cond b1 d1 u1 -> 0 < ay < 1 ->
  bdeduce (B:=FldR) eps (bopR bx dx 0 ax) (Some b0, Some d0, Some u0)
          (Some b1, Some d1, Some u1) (Some ay) =
  Some (bopR (bx * b0 + dx * b1) (bx * d0 + dx * d1) (bx * u0 + dx * u1) ay).
Proof.
  intros He Hx Hax Hbx H0 H1 Hay.
  assert (Hpx : 0 < bx + ax * 0 < 1) by lra.
  destruct (bdeduce_wf_full eps bx dx 0 ax b0 d0 u0 b1 d1 u1 ay He Hx Hax Hpx H0 H1 Hay) as (E & _).
  destruct (bdeduce_dogmatic_R bx dx ax b0 d0 u0 b1 d1 u1 ay) as (Eb & Ed & Eu).
  rewrite Eb, Ed, Eu in E. exact E.
Qed.

(* ------------------------------------------------------------ symmetries *)
Lemma Rmin_0_r p : 0 <= p -> Rmin p 0 = 0.
Proof. intros; apply Rmin_right; assumption. Qed.
Lemma Rmin_0_l p : 0 <= p -> Rmin 0 p = 0.
Proof. intros; apply Rmin_left; assumption. Qed.
Lemma frac_nonneg p q s : 0 <= p -> 0 <= q -> 0 < s -> 0 <= p * q / s.
Proof.
  intros. unfold Rdiv. apply Rmult_le_pos; [apply Rmult_le_pos; assumption|].
  left; apply Rinv_0_lt_compat; assumption.
Qed.

(* exchanging x and not-x: ax -> 1 - ax, the two conditionals swapped (ties included) *)
Lemma kR_swap_x ux ax b0 d0 b1 d1 ay :
  0 <= ax <= 1 -> 0 < ay < 1 ->
  kR ux (1 - ax) b1 d1 b0 d0 ay = kR ux ax b0 d0 b1 d1 ay.
Proof.
  intros Hax Hay. unfold kR.
  replace (1 - (1 - ax)) with ax by ring.
  destruct (Rltb_spec b0 b1) as [Hb|Hb], (Rltb_spec b1 b0) as [Hb'|Hb'];
  destruct (Rltb_spec d0 d1) as [Hd|Hd], (Rltb_spec d1 d0) as [Hd'|Hd']; try lra; try reflexivity.
  all: try (assert (d0 = d1) by lra; subst d1); try (assert (b0 = b1) by lra; subst b1).
  all: repeat match goal with
       | |- context [?c * (?z - ?z) / ?t] =>
           replace (c * (z - z) / t) with 0 by (unfold Rdiv; ring)
       end.
  all: rewrite ?Rmin_0_r, ?Rmin_0_l by (apply frac_nonneg; lra); ring.
Qed.

(* exchanging y and not-y: b <-> d in both conditionals, ay -> 1 - ay *)
Lemma kR_negate_y ux ax b0 d0 b1 d1 ay :
  kR ux ax d0 b0 d1 b1 (1 - ay) = kR ux ax b0 d0 b1 d1 ay.
Proof.
  unfold kR. replace (1 - (1 - ay)) with ay by ring.
  destruct (Rltb b1 b0), (Rltb d1 d0); try reflexivity; rewrite Rmin_comm; reflexivity.
Qed.

Lemma mixR_swap_x bx dx ux ax v0 v1 : mixR dx bx ux (1 - ax) v1 v0 = mixR bx dx ux ax v0 v1.
Proof. unfold mixR. ring. Qed.

Section Symmetry.
Variables eps bx dx ux ax b0 d0 u0 b1 d1 u1 ay : R.
Hypothesis Heps : 0 <= eps <= 1/8.
Hypothesis Hx : wf_bop bx dx ux ax.
Hypothesis Hax : 0 < ax < 1.
Hypothesis Hpx : 0 < bx + ax * ux < 1.
Hypothesis Hc0 : wf_cond b0 d0 u0.
Hypothesis Hc1 : wf_cond b1 d1 u1.
Hypothesis Hay : 0 < ay < 1.

Lemma swap_x_hyps : wf_bop dx bx ux (1 - ax) /\ 0 < 1 - ax < 1 /\ 0 < dx + (1 - ax) * ux < 1.
Proof.
  destruct Hx as (Hbx & Hdx & Hux & Sx & _). unfold wf_bop.
  assert (E : dx + (1 - ax) * ux = 1 - (bx + ax * ux)) by (replace dx with (1 - bx - ux) by lra; ring).
  rewrite E. repeat split; lra.
Qed.

Lemma negate_y_hyps : wf_cond d0 b0 u0 /\ wf_cond d1 b1 u1 /\ 0 < 1 - ay < 1.
Proof. unfold wf_cond in *. repeat split; lra. Qed.

Lemma bdeduceK_swap_x :
  bdeduceK dx bx ux (1 - ax) b1 d1 u1 b0 d0 u0 ay = bdeduceK bx dx ux ax b0 d0 u0 b1 d1 u1 ay.
Proof.
  destruct swap_x_hyps as (Hx' & Hax' & Hpx').
  rewrite (bdeduceK_closed dx bx ux (1 - ax) b1 d1 u1 b0 d0 u0 ay Hx' Hax' Hpx' Hc1 Hc0 Hay).
  rewrite (bdeduceK_closed bx dx ux ax b0 d0 u0 b1 d1 u1 ay Hx Hax Hpx Hc0 Hc1 Hay).
  apply kR_swap_x; lra.
Qed.

Lemma bdeduceK_negate_y :
  bdeduceK bx dx ux ax d0 b0 u0 d1 b1 u1 (1 - ay) = bdeduceK bx dx ux ax b0 d0 u0 b1 d1 u1 ay.
Proof.
  destruct negate_y_hyps as (Hc0' & Hc1' & Hay').
  rewrite (bdeduceK_closed bx dx ux ax d0 b0 u0 d1 b1 u1 (1 - ay) Hx Hax Hpx Hc0' Hc1' Hay').
  rewrite (bdeduceK_closed bx dx ux ax b0 d0 u0 b1 d1 u1 ay Hx Hax Hpx Hc0 Hc1 Hay).
  apply kR_negate_y.
Qed.

Lemma bdeduce_swap_x_R :
  bdedB dx bx ux (1 - ax) b1 d1 u1 b0 d0 u0 ay = bdedB bx dx ux ax b0 d0 u0 b1 d1 u1 ay /\
  bdedD dx bx ux (1 - ax) b1 d1 u1 b0 d0 u0 ay = bdedD bx dx ux ax b0 d0 u0 b1 d1 u1 ay /\
  bdedU dx bx ux (1 - ax) b1 d1 u1 b0 d0 u0 ay = bdedU bx dx ux ax b0 d0 u0 b1 d1 u1 ay.
Proof.
  unfold bdedB, bdedD, bdedU. rewrite bdeduceK_swap_x, !mixR_swap_x. repeat split; reflexivity.
Qed.

Lemma bdeduce_negate_y_R :
  bdedB bx dx ux ax d0 b0 u0 d1 b1 u1 (1 - ay) = bdedD bx dx ux ax b0 d0 u0 b1 d1 u1 ay /\
  bdedD bx dx ux ax d0 b0 u0 d1 b1 u1 (1 - ay) = bdedB bx dx ux ax b0 d0 u0 b1 d1 u1 ay /\
  bdedU bx dx ux ax d0 b0 u0 d1 b1 u1 (1 - ay) = bdedU bx dx ux ax b0 d0 u0 b1 d1 u1 ay.
Proof.
  unfold bdedB, bdedD, bdedU. rewrite bdeduceK_negate_y. repeat split; ring.
Qed.

(* on the model *)
Lemma bdeduce_swap_x_model :
  bdeduce (B:=FldR) eps (bopR dx bx ux (1 - ax)) (Some b1, Some d1, Some u1)
          (Some b0, Some d0, Some u0) (Some ay) =
  bdeduce (B:=FldR) eps (bopR bx dx ux ax) (Some b0, Some d0, Some u0)
          (Some b1, Some d1, Some u1) (Some ay).
Proof.
  destruct swap_x_hyps as (Hx' & Hax' & Hpx').
  destruct (bdeduce_wf_full eps dx bx ux (1 - ax) b1 d1 u1 b0 d0 u0 ay Heps Hx' Hax' Hpx' Hc1 Hc0 Hay)
    as (E1 & _).
  destruct (bdeduce_wf_full eps bx dx ux ax b0 d0 u0 b1 d1 u1 ay Heps Hx Hax Hpx Hc0 Hc1 Hay)
    as (E2 & _).
  destruct bdeduce_swap_x_R as (Eb & Ed & Eu).
  rewrite E1, E2, Eb, Ed, Eu. reflexivity.
Qed.

Lemma bdeduce_negate_y_model :
  bdeduce (B:=FldR) eps (bopR bx dx ux ax) (Some d0, Some b0, Some u0)
          (Some d1, Some b1, Some u1) (Some (1 - ay)) =
  Some (bopR (bdedD bx dx ux ax b0 d0 u0 b1 d1 u1 ay) (bdedB bx dx ux ax b0 d0 u0 b1 d1 u1 ay)
             (bdedU bx dx ux ax b0 d0 u0 b1 d1 u1 ay) (1 - ay)).
Proof.
  destruct negate_y_hyps as (Hc0' & Hc1' & Hay').
  destruct (bdeduce_wf_full eps bx dx ux ax d0 b0 u0 d1 b1 u1 (1 - ay) Heps Hx Hax Hpx Hc0' Hc1' Hay')
    as (E1 & _).
  destruct bdeduce_negate_y_R as (Eb & Ed & Eu).
  rewrite E1, Eb, Ed, Eu. reflexivity.
Qed.

End Symmetry.

(* ------------------------------------------------- the pre-fix threshold *)
(* K as computed before the repair: Case III reuses the Case II threshold
   r = b1 + ay (1 - b1 - d0) for its A/B split.  Everything else is as in
   [bdeduceK]. *)
Definition bdeduceK_pinned (bx dx ux ax b0 d0 u0 b1 d1 u1 ay : R) : R :=
  let rvax := 1 - ax in
  let bi := mixR bx dx ux ax b0 b1 in
  let di := mixR bx dx ux ax d0 d1 in
  let bp := Rltb b1 b0 in
  let dp := Rltb d1 d0 in
  if Bool.eqb bp dp then 0
  else
    let pyx := b0 * ax + b1 * rvax + ay * (u0 * ax + u1 * rvax) in
    let px := bx + ax * ux in
    let r := b1 + ay * (1 - b1 - d0) in
    match Rltb r pyx, Rltb ax px with
    | false, false =>
        if bp then ax * ux * (bi - b1) / (px * ay)
        else rvax * ux * (di - d1) * (b1 - b0) / (px * ay * (d0 - d1))
    | false, true =>
        if bp then ax * ux * (di - d0) * (b0 - b1) / ((1 - px) * ay * (d1 - d0))
        else rvax * ux * (bi - b0) / ((1 - px) * ay)
    | true, false =>
        if bp then rvax * ux * (bi - b1) * (d1 - d0) / (px * (1 - ay) * (b0 - b1))
        else ax * ux * (di - d1) / (px * (1 - ay))
    | true, true =>
        if bp then rvax * ux * (di - d0) / ((1 - px) * (1 - ay))
        else ax * ux * (bi - b0) * (d0 - d1) / ((1 - px) * (1 - ay) * (b1 - b0))
    end.

(* Case II is untouched by the repair (ties d0 = d1 apart: the current code returns 0 there at once) *)
Lemma bdeduceK_pinned_caseII bx dx ux ax b0 d0 u0 b1 d1 u1 ay :
  b1 < b0 -> d0 <> d1 ->
  bdeduceK_pinned bx dx ux ax b0 d0 u0 b1 d1 u1 ay = bdeduceK bx dx ux ax b0 d0 u0 b1 d1 u1 ay.
Proof.
  intros Hb Hd. unfold bdeduceK_pinned, bdeduceK.
  destruct (Rltb_spec b1 b0) as [_|N]; [|contradiction].
  destruct (Reqb_spec d0 d1) as [E|_]; [contradiction|].
  cbn [negb andb]. rewrite !andb_false_r. reflexivity.
Qed.

Ltac decide_ltb :=
  repeat match goal with
  | |- context [Rltb ?a ?b] =>
      first [ rewrite (proj2 (Rltb_true a b)) by lra
            | rewrite (proj2 (Rltb_false a b)) by lra ]
  end.

(* the witness of the property: x = (1/16, 6/16, 9/16; 1/4), y|x = (0, 10/16, 6/16),
   y|~x = (0, 5/16, 11/16), ay = 3/4 *)
Lemma bdeduceK_pinned_witness :
  bdeduceK_pinned (1/16) (6/16) (9/16) (1/4) 0 (10/16) (6/16) 0 (5/16) (11/16) (3/4) = 45/256.
Proof.
  unfold bdeduceK_pinned, mixR. decide_ltb. cbn [Bool.eqb]. decide_ltb. field.
Qed.

Lemma bdeduceK_fixed_witness :
  bdeduceK (1/16) (6/16) (9/16) (1/4) 0 (10/16) (6/16) 0 (5/16) (11/16) (3/4) = 0.
Proof.
  unfold bdeduceK, mixR. decide_ltb. cbn [Bool.eqb andb negb].
  rewrite (proj2 (Reqb_true 0 0)) by reflexivity. reflexivity.
Qed.

Lemma in_unit_neg eps (a : R) : a < - eps -> in_unit (B:=FldR) eps (Some a) = false.
Proof.
  intros H. destruct (in_unit (B:=FldR) eps (Some a)) eqn:E; [|reflexivity].
  apply in_unit_some in E. lra.
Qed.

(* the belief mass bi - ay K of the pre-fix computation is -135/1024 < -1/8: negative, and
   rejected by the constructor's self-validation for every admissible tolerance *)
Lemma bdeduce_pinned_negative :
  let bx := 1/16 in let dx := 6/16 in let ux := 9/16 in let ax := 1/4 in
  let b0 := 0 in let d0 := 10/16 in let u0 := 6/16 in
  let b1 := 0 in let d1 := 5/16 in let u1 := 11/16 in let ay := 3/4 in
  let K := bdeduceK_pinned bx dx ux ax b0 d0 u0 b1 d1 u1 ay in
  let b := mixR bx dx ux ax b0 b1 - ay * K in
  let d := mixR bx dx ux ax d0 d1 - (1 - ay) * K in
  let u := mixR bx dx ux ax u0 u1 + K in
  wf_bop bx dx ux ax /\ 0 < ax < 1 /\ 0 < bx + ax * ux < 1 /\
  wf_cond b0 d0 u0 /\ wf_cond b1 d1 u1 /\ 0 < ay < 1 /\
  b = - (135/1024) /\ b < 0 /\
  (forall eps, 0 <= eps <= 1/8 ->
     btry_new (B:=FldR) eps (Some b) (Some d) (Some u) (Some ay) = None).
Proof.
  cbv zeta. rewrite bdeduceK_pinned_witness. unfold mixR, wf_bop, wf_cond.
  assert (Eb : 1 / 16 * 0 + 6 / 16 * 0 + 9 / 16 * (0 * (1 / 4) + 0 * (1 - 1 / 4)) - 3 / 4 * (45 / 256)
               = - (135/1024)) by field.
  repeat split; try lra.
  intros eps He. unfold btry_new, bcheck_simplex. rewrite Eb.
  rewrite (in_unit_neg eps (- (135/1024))) by lra.
  rewrite !andb_false_r. reflexivity.
Qed.

(* the same on a copy of the model function in which only the threshold is the pre-fix one *)
Definition bdeduce_pinned {B : Fld} (eps : F B) (x : bop (B:=B)) (c0 c1 : @V B * @V B * @V B)
    (ay : @V B) : option (bop (B:=B)) :=
  let '(b0, d0, u0) := c0 in
  let '(b1, d1, u1) := c1 in
  let ax := ba x in
  let rvax := sub one ax in
  let mix := fun (v0 v1 : @V B) =>
    add (add (mul (bb x) v0) (mul (bd x) v1))
        (mul (bu x) (add (mul v0 ax) (mul v1 rvax))) in
  let bi := mix b0 b1 in
  let di := mix d0 d1 in
  let ui := mix u0 u1 in
  let bp := gtb b0 b1 in
  let dp := gtb d0 d1 in
  let k :=
    if Bool.eqb bp dp then zero
    else
      let pyx := add (add (mul b0 ax) (mul b1 rvax))
                     (mul ay (add (mul u0 ax) (mul u1 rvax))) in
      let px := bprojection x in
      let r := add b1 (mul ay (sub (sub one b1) d0)) in
      let ux := bu x in
      match gtb pyx r, gtb px ax with
      | false, false =>
          if bp then div (mul (mul ax ux) (sub bi b1)) (mul px ay)
          else div (mul (mul (mul rvax ux) (sub di d1)) (sub b1 b0))
                   (mul (mul px ay) (sub d0 d1))
      | false, true =>
          if bp then div (mul (mul (mul ax ux) (sub di d0)) (sub b0 b1))
                         (mul (mul (sub one px) ay) (sub d1 d0))
          else div (mul (mul rvax ux) (sub bi b0)) (mul (sub one px) ay)
      | true, false =>
          if bp then div (mul (mul (mul rvax ux) (sub bi b1)) (sub d1 d0))
                         (mul (mul px (sub one ay)) (sub b0 b1))
          else div (mul (mul ax ux) (sub di d1)) (mul px (sub one ay))
      | true, true =>
          if bp then div (mul (mul rvax ux) (sub di d0)) (mul (sub one px) (sub one ay))
          else div (mul (mul (mul ax ux) (sub bi b0)) (sub d0 d1))
                   (mul (mul (sub one px) (sub one ay)) (sub b1 b0))
      end in
  btry_new eps (sub bi (mul ay k)) (sub di (mul (sub one ay) k)) (add ui k) ay.

Lemma bdeduce_pinned_model_none eps : 0 <= eps <= 1/8 ->
  bdeduce_pinned (B:=FldR) eps (bopR (1/16) (6/16) (9/16) (1/4))
    (Some 0, Some (10/16), Some (6/16)) (Some 0, Some (5/16), Some (11/16)) (Some (3/4)) = None.
Proof.
  intros He. unfold bdeduce_pinned, bopR, bprojection, gtb; cbn [bb bd bu ba]. rsimpl.
  rewrite !ltb_some. decide_ltb. cbn [Bool.eqb]. rewrite ?ltb_some. decide_ltb.
  rewrite div_some by lra. rsimpl.
  unfold btry_new, bcheck_simplex.
  rewrite (in_unit_neg eps (1 / 16 * 0 + 6 / 16 * 0 + 9 / 16 * (0 * (1 / 4) + 0 * (1 - 1 / 4)) - _)).
  - rewrite !andb_false_r. reflexivity.
  - match goal with |- ?e < _ => replace e with (- (135/1024)) by field end. lra.
Qed.

(* the copy differs from the model only where Case III is entered *)
Lemma bdeduce_pinned_same_caseII {B : Fld} (eps : F B) x b0 d0 u0 b1 d1 u1 ay :
  gtb b0 b1 = true -> eqb d0 d1 = false ->
  bdeduce_pinned eps x (b0, d0, u0) (b1, d1, u1) ay = bdeduce eps x (b0, d0, u0) (b1, d1, u1) ay.
Proof.
  intros H E. unfold bdeduce_pinned, bdeduce. rewrite H, E.
  cbn [negb andb]. rewrite !andb_false_r. reflexivity.
Qed.

(* ------------------------------------------------ tied conditionals (any arithmetic) *)
(* The result with the correction term K = 0. *)
Definition bdeduce_k0 {B : Fld} (eps : F B) (x : bop (B:=B)) (c0 c1 : @V B * @V B * @V B)
    (ay : @V B) : option (bop (B:=B)) :=
  let '(b0, d0, u0) := c0 in
  let '(b1, d1, u1) := c1 in
  let ax := ba x in
  let rvax := sub one ax in
  let mix := fun (v0 v1 : @V B) =>
    add (add (mul (bb x) v0) (mul (bd x) v1))
        (mul (bu x) (add (mul v0 ax) (mul v1 rvax))) in
  btry_new eps (sub (mix b0 b1) (mul ay zero)) (sub (mix d0 d1) (mul (sub one ay) zero))
           (add (mix u0 u1) zero) ay.

(* Case I, and Cases II / III when the conditionals tie in the component that bounds K: the code takes K = 0
   without evaluating the A/B threshold or any quotient.  This holds for EVERY arithmetic (no law of the
   comparisons is used), in particular for floating point, where the rounded threshold comparison could
   otherwise select a branch whose quotient is 0/0. *)
Lemma bdeduce_tie {B : Fld} (eps : F B) x b0 d0 u0 b1 d1 u1 ay :
  gtb b0 b1 = gtb d0 d1 \/ (gtb b0 b1 = true /\ eqb d0 d1 = true) \/ (gtb d0 d1 = true /\ eqb b0 b1 = true) ->
  bdeduce eps x (b0, d0, u0) (b1, d1, u1) ay = bdeduce_k0 eps x (b0, d0, u0) (b1, d1, u1) ay.
Proof.
  intros H. unfold bdeduce, bdeduce_k0.
  destruct H as [H|[[H E]|[H E]]]; rewrite ?H, ?E.
  - rewrite Bool.eqb_reflx. reflexivity.
  - destruct (gtb d0 d1); cbn [Bool.eqb negb andb]; reflexivity.
  - destruct (gtb b0 b1); cbn [Bool.eqb negb andb]; [reflexivity|].
    destruct (eqb d0 d1); reflexivity.
Qed.

(* ------------------------------- K in the four A/B branches, as in the literature *)
Section Branches.
Variables bx dx ux ax b0 d0 u0 b1 d1 u1 ay : R.
Hypothesis Hx : wf_bop bx dx ux ax.
Hypothesis Hax : 0 < ax < 1.
Hypothesis Hpx : 0 < bx + ax * ux < 1.
Hypothesis Hc0 : wf_cond b0 d0 u0.
Hypothesis Hc1 : wf_cond b1 d1 u1.
Hypothesis Hay : 0 < ay < 1.

Local Notation pyx := (b0 * ax + b1 * (1 - ax) + ay * (u0 * ax + u1 * (1 - ax))).
Local Notation K := (bdeduceK bx dx ux ax b0 d0 u0 b1 d1 u1 ay).

Lemma pyx_thr_II : pyx - (b1 + ay * (1 - b1 - d0)) = (1 - ay) * ax * (b0 - b1) - ay * (1 - ax) * (d1 - d0).
Proof.
  destruct Hc0 as (_ & _ & _ & S0), Hc1 as (_ & _ & _ & S1).   replace u0 with (1 - b0 - d0) by lra. replace u1 with (1 - b1 - d1) by lra. ring.
Qed.
Lemma pyx_thr_III : pyx - (b0 + ay * (1 - b0 - d1)) = (1 - ay) * (1 - ax) * (b1 - b0) - ay * ax * (d0 - d1).
Proof.
  destruct Hc0 as (_ & _ & _ & S0), Hc1 as (_ & _ & _ & S1).   replace u0 with (1 - b0 - d0) by lra. replace u1 with (1 - b1 - d1) by lra. ring.
Qed.

Lemma K_caseI : (b1 < b0 /\ d1 < d0) \/ (b0 <= b1 /\ d0 <= d1) -> K = 0.
Proof. intros H. rewrite bdeduceK_closed by assumption. apply kR_caseI; exact H. Qed.

Lemma K_caseII_A : b1 < b0 -> d0 <= d1 -> pyx <= b1 + ay * (1 - b1 - d0) ->
  K = ux * (ax * (b0 - b1) / ay).
Proof.
  intros Hb Hd Hr. pose proof pyx_thr_II as T. rewrite bdeduceK_closed by assumption.
  unfold kR. destruct (Rltb_spec b1 b0); [|contradiction]. destruct (Rltb_spec d1 d0); [lra|].
  rewrite Rmin_left by (apply frac_le; lra). reflexivity.
Qed.
Lemma K_caseII_B : b1 < b0 -> d0 <= d1 -> b1 + ay * (1 - b1 - d0) < pyx ->
  K = ux * ((1 - ax) * (d1 - d0) / (1 - ay)).
Proof.
  intros Hb Hd Hr. pose proof pyx_thr_II as T. rewrite bdeduceK_closed by assumption.
  unfold kR. destruct (Rltb_spec b1 b0); [|contradiction]. destruct (Rltb_spec d1 d0); [lra|].
  rewrite Rmin_right by (apply frac_le; lra). reflexivity.
Qed.
Lemma K_caseIII_A : b0 <= b1 -> d1 < d0 -> pyx <= b0 + ay * (1 - b0 - d1) ->
  K = ux * ((1 - ax) * (b1 - b0) / ay).
Proof.
  intros Hb Hd Hr. pose proof pyx_thr_III as T. rewrite bdeduceK_closed by assumption.
  unfold kR. destruct (Rltb_spec b1 b0); [lra|]. destruct (Rltb_spec d1 d0); [|contradiction].
  rewrite Rmin_left by (apply frac_le; lra). reflexivity.
Qed.
Lemma K_caseIII_B : b0 <= b1 -> d1 < d0 -> b0 + ay * (1 - b0 - d1) < pyx ->
  K = ux * (ax * (d0 - d1) / (1 - ay)).
Proof.
  intros Hb Hd Hr. pose proof pyx_thr_III as T. rewrite bdeduceK_closed by assumption.
  unfold kR. destruct (Rltb_spec b1 b0); [lra|]. destruct (Rltb_spec d1 d0); [|contradiction].
  rewrite Rmin_right by (apply frac_le; lra). reflexivity.
Qed.

End Branches.

(* total probability and base rate, read off the returned opinion *)
Lemma bdeduce_total_probability_model eps bx dx ux ax b0 d0 u0 b1 d1 u1 ay :
  0 <= eps <= 1/8 -> wf_bop bx dx ux ax -> 0 < ax < 1 -> 0 < bx + ax * ux < 1 ->
  wf_cond b0 d0 u0 -> wf_cond b1 d1 u1 -> 0 < ay < 1 ->
  exists w,
    bdeduce (B:=FldR) eps (bopR bx dx ux ax) (Some b0, Some d0, Some u0)
            (Some b1, Some d1, Some u1) (Some ay) = Some w /\
    ba w = Some ay /\
    bprojection w =
      Some ((bx + ax * ux) * (b0 + ay * u0) + (1 - (bx + ax * ux)) * (b1 + ay * u1)).
Proof.
  intros He Hx Hax Hpx H0 H1 Hay.
  destruct (bdeduce_wf_full eps bx dx ux ax b0 d0 u0 b1 d1 u1 ay He Hx Hax Hpx H0 H1 Hay) as (E & _).
  eexists. split; [exact E|]. split; [reflexivity|].
  unfold bprojection, bopR; cbn [bb bu ba]. rsimpl. f_equal.
  destruct Hx as (_ & _ & _ & Sx & _).
  apply bdeduce_total_probability_R; exact Sx.
Qed.
