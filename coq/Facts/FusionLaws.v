(* C03, C07, C16 (model-level part): what belief fusion computes and the laws it obeys.
   Builds on Facts/Fusion.v ([compute_simplexR], [compute_base_rateR], [fuseR], [fuse_defined])
   and Facts/Proj.v ([umaxR]).

   Contents
   1. passing styles (C16): [fuse_simplex_rhs], [fuse_simplexes], the [same] flag;
   2. list helpers;
   3. commutativity (C07);
   4. idempotence, vacuous neutral element, uncertainty bounds (C07);
   5. the evidence map and the evidence reading of ACm / Avg / Wgh (C03);
   6. ECm = uncertainty-maximised ACm (C03);
   7. limits and base-rate rules (C03);
   8. associativity of ACm and folds in any order (C07). *)
From Coq Require Import Reals List Bool Lra Lia Permutation.
Import ListNotations.
From SL Require Import Model.Num Model.Vec Model.Mul Model.InstR Facts.RBase Facts.Proj Facts.Fusion.
Open Scope R_scope.

(* ------------------------------------------------------- 1. passing styles (C16) *)

(* these three hold in every instance of the number structure, for arbitrary (also
   undefined) entries: they are facts about how the overloads forward to each other *)
Lemma fuse_simplex_rhs_eq {B : Fld} (eps : F B) op lb lu la (r : simplex (B:=B)) :
  fuse_simplex_rhs eps op (lb, lu, la) r = fuse eps op true (lb, lu, la) (bel r, unc r, la).
Proof. reflexivity. Qed.

Lemma fuse_simplex_rhs_base {B : Fld} (eps : F B) op lb lu la (r : simplex (B:=B)) :
  snd (fuse_simplex_rhs eps op (lb, lu, la) r) = la.
Proof. destruct r; destruct op; reflexivity. Qed.

Lemma fuse_simplexes_belief_part {B : Fld} (eps : F B) op same lb lu la rb ru ra : op <> ECm ->
  fuse_simplexes eps op (lb, lu) (rb, ru) =
  Some (fst (fst (fuse eps op same (lb, lu, la) (rb, ru, ra))),
        snd (fst (fuse eps op same (lb, lu, la) (rb, ru, ra)))).
Proof.
  intros Ho. unfold fuse_simplexes, fuse.
  destruct op; try contradiction; destruct (compute_simplex _ _ _ _); reflexivity.
Qed.

Lemma fuse_simplexes_ecm {B : Fld} (eps : F B) (l r : simplex (B:=B)) :
  fuse_simplexes eps ECm l r = None.
Proof. reflexivity. Qed.

(* FuseAssign is "*lhs = self.fuse(lhs.as_ref(), rhs)": the in-place form is the value form *)
Definition fuse_assign {B : Fld} (eps : F B) (op : fuse_op) (same : bool)
           (lhs rhs : opinion (B:=B)) : opinion (B:=B) := fuse eps op same lhs rhs.

Lemma fuse_assign_is_fuse {B : Fld} (eps : F B) op same :
  fuse_assign eps op same = fuse eps op same.
Proof. reflexivity. Qed.

Lemma fold_fuse_assign_is_fold_fuse {B : Fld} (eps : F B) op same ws (w0 : opinion (B:=B)) :
  fold_left (fuse_assign eps op same) ws w0 = fold_left (fuse eps op same) ws w0.
Proof. reflexivity. Qed.

(* on real operands: defined, with the explicit results of Fusion.v *)
Section Passing.
Variable eps : R.
Hypothesis eps_range : 0 <= eps <= 1/8.
Variables (lb rb la ra : list R) (lu ru : R).
Hypothesis Hl : wf_opinion lb lu la.
Hypothesis Hr : wf_simplex rb ru.
Hypothesis HL : length lb = length rb.

Lemma fuse_simplex_rhs_defined op :
  fuse_simplex_rhs (B:=FldR) eps op (map Some lb, Some lu, map Some la) (map Some rb, Some ru)
  = (map Some (fused_b eps op true (lb, lu, la) (rb, ru, la)),
     Some (fused_u eps op true (lb, lu, la) (rb, ru, la)),
     map Some la).
Proof.
  unfold fuse_simplex_rhs. cbn [bel unc fst snd].
  assert (Hr' : wf_opinion rb ru la).
  { destruct Hl as (_ & Hd & E). split; [exact Hr|]. split; [exact Hd|]. congruence. }
  exact (fuse_defined eps eps_range lb rb la la lu ru Hl Hr' HL op true).
Qed.

Lemma fuse_simplexes_defined op : op <> ECm ->
  fuse_simplexes (B:=FldR) eps op (map Some lb, Some lu) (map Some rb, Some ru)
  = Some (map Some (fused_b eps op false (lb, lu, la) (rb, ru, ra)),
          Some (fused_u eps op false (lb, lu, la) (rb, ru, ra))).
Proof.
  intros Ho. destruct Hl as (Hsl & _).
  pose proof (fused_simplex_eq eps op false lb lu la rb ru ra Ho) as E.
  unfold fuse_simplexes. destruct op; try contradiction;
    rewrite (compute_simplex_eval eps eps_range lb rb lu ru Hsl Hr HL); rewrite <- E; reflexivity.
Qed.

End Passing.

(* the [same] flag (pointer equality of the base rates) cannot change the result when the
   two base rates are equal as values *)
Lemma fuseR_same_irrelevant eps op same same' lb lu la rb ru ra :
  0 <= eps <= 1/8 -> 0 <= lu <= 1 -> 0 <= ru <= 1 -> la = ra ->
  fuseR eps op same (lb, lu, la) (rb, ru, ra) = fuseR eps op same' (lb, lu, la) (rb, ru, ra).
Proof.
  intros He Hlu Hru E. unfold fuseR.
  rewrite (base_rateR_shared eps He lu ru Hlu Hru op same la ra) by (auto; congruence).
  rewrite (base_rateR_shared eps He lu ru Hlu Hru op same' la ra) by (auto; congruence).
  reflexivity.
Qed.

(* ------------------------------------------------------------- 2. list helpers *)
Lemma map2_swap {X Y Z} (f : X -> Y -> Z) l1 l2 :
  map2 f l1 l2 = map2 (fun y x => f x y) l2 l1.
Proof. revert l2; induction l1; destruct l2; cbn; auto. rewrite IHl1; reflexivity. Qed.

Lemma map2_diag {X Z} (f : X -> X -> Z) l : map2 f l l = map (fun x => f x x) l.
Proof. induction l; cbn; auto. rewrite IHl; reflexivity. Qed.

Lemma map2_map {X X' Y Y' Z} (f : X' -> Y' -> Z) (g : X -> X') (h : Y -> Y') l1 l2 :
  map2 f (map g l1) (map h l2) = map2 (fun x y => f (g x) (h y)) l1 l2.
Proof. revert l2; induction l1; destruct l2; cbn; auto. rewrite IHl1; reflexivity. Qed.

Lemma map_map2 {X Y Z W} (g : Z -> W) (f : X -> Y -> Z) l1 l2 :
  map g (map2 f l1 l2) = map2 (fun x y => g (f x y)) l1 l2.
Proof. revert l2; induction l1; destruct l2; cbn; auto. rewrite IHl1; reflexivity. Qed.

Lemma map_id_ext (f : R -> R) l : (forall x, In x l -> f x = x) -> map f l = l.
Proof.
  induction l as [|a l IH]; cbn; intros H; auto. rewrite H by auto. rewrite IH; auto.
Qed.

Lemma map_const_len {X Y} (c : R) (l1 : list X) (l2 : list Y) :
  length l1 = length l2 -> map (fun _ => c) l1 = map (fun _ => c) l2.
Proof.
  revert l2; induction l1; destruct l2; cbn; intros H; try discriminate; auto.
  f_equal. apply IHl1. lia.
Qed.

Lemma map2_const {X Y} (c : R) (l1 : list X) (l2 : list Y) :
  length l1 = length l2 -> map2 (fun _ _ => c) l1 l2 = map (fun _ => c) l1.
Proof.
  revert l2; induction l1; destruct l2; cbn; intros H; try discriminate; auto.
  f_equal. apply IHl1. lia.
Qed.

(* a vacuous well-formed simplex carries no belief mass *)
Lemma nonneg_sum0 b : nonneg b -> Rsum b = 0 -> Forall (fun x => x = 0) b.
Proof.
  induction 1 as [|x b Hx Hb IH]; cbn; intros Hs; constructor.
  - pose proof (Rsum_nonneg b Hb). lra.
  - apply IH. pose proof (Rsum_nonneg b Hb). lra.
Qed.

Lemma vacuous_beliefs b : wf_simplex b 1 -> forall x, In x b -> x = 0.
Proof.
  intros (Hb & _ & Hs) x Hx. assert (H0 : Rsum b = 0) by lra.
  pose proof (nonneg_sum0 b Hb H0) as H. rewrite Forall_forall in H. auto.
Qed.

Lemma vacuous_beliefs_eq b : wf_simplex b 1 -> b = map (fun _ => 0) b.
Proof.
  intros H. symmetry. rewrite <- (map_id b) at 2. apply map_ext_in.
  intros x Hx. symmetry. apply (vacuous_beliefs b H x Hx).
Qed.

Lemma Forall2_map2_swap {X Y} (P : R -> R -> Prop) (f : X -> Y -> R) (g : Y -> X -> R) l1 l2 :
  (forall x y, P (f x y) (g y x)) -> Forall2 P (map2 f l1 l2) (map2 g l2 l1).
Proof. intros H; revert l2; induction l1; destruct l2; cbn; constructor; auto. Qed.

Lemma wf_u01 b u : wf_simplex b u -> 0 <= u <= 1.
Proof. intros H. pose proof (wf_simplex_u_le1 _ _ H). destruct H as (_ & ? & _). lra. Qed.

(* ------------------------------------------------------------ 3. commutativity *)
Lemma acm_genR_comm lb lu rb ru : acm_genR lb lu rb ru = acm_genR rb ru lb lu.
Proof.
  unfold acm_genR. replace (ru + lu - ru * lu) with (lu + ru - lu * ru) by ring.
  f_equal; [|f_equal; ring].
  rewrite (map2_swap _ rb lb). apply map2_ext. intros x y. f_equal; ring.
Qed.
Lemma avg_genR_comm lb lu rb ru : avg_genR lb lu rb ru = avg_genR rb ru lb lu.
Proof.
  unfold avg_genR. replace (ru + lu) with (lu + ru) by ring.
  f_equal; [|f_equal; ring].
  rewrite (map2_swap _ rb lb). apply map2_ext. intros x y. f_equal; ring.
Qed.
Lemma wgh_genR_comm lb lu rb ru : wgh_genR lb lu rb ru = wgh_genR rb ru lb lu.
Proof.
  unfold wgh_genR. replace (lu * (1 - ru) + ru * (1 - lu)) with (ru * (1 - lu) + lu * (1 - ru)) by ring.
  f_equal; [|f_equal; ring].
  rewrite (map2_swap _ rb lb). apply map2_ext. intros x y. f_equal; ring.
Qed.

(* the fused simplex does not depend on the order of the operands, for every guard tolerance:
   the two "return one operand" rungs of the ladder can only both fire when an operand is
   dogmatic and vacuous at once, which the guards exclude for eps <= 1/8 *)
Lemma compute_simplexR_comm eps op lb lu rb ru :
  0 <= eps <= 1/8 -> 0 <= lu <= 1 -> 0 <= ru <= 1 -> length lb = length rb ->
  compute_simplexR eps op (lb, lu) (rb, ru) = compute_simplexR eps op (rb, ru) (lb, lu).
Proof.
  intros He Hlu Hru HL. unfold compute_simplexR.
  assert (Em : map2 (fun x y => (x + y) / 2) lb rb = map2 (fun x y => (x + y) / 2) rb lb).
  { rewrite (map2_swap _ rb lb). apply map2_ext. intros; f_equal; ring. }
  assert (Ez : map (fun _ : R => 0) lb = map (fun _ : R => 0) rb) by (apply map_const_len; exact HL).
  destruct (is_dogR eps lu) eqn:Eld, (is_dogR eps ru) eqn:Erd,
           (is_vacR eps lu) eqn:Elv, (is_vacR eps ru) eqn:Erv;
    cbn [andb orb]; guards; try (exfalso; lra);
    try (rewrite Em; reflexivity);
    destruct op; try reflexivity; try (rewrite Ez; reflexivity);
    first [apply acm_genR_comm|apply avg_genR_comm|apply wgh_genR_comm].
Qed.

(* base rate: swapping the operands complements the weight and keeps the shortcut flag *)
Lemma base_w_swap eps op lu ru : 0 <= eps <= 1/8 -> 0 <= lu <= 1 -> 0 <= ru <= 1 ->
  base_wR eps op false ru lu = 1 - base_wR eps op false lu ru /\
  base_scR eps op false ru lu = base_scR eps op false lu ru.
Proof.
  intros He Hlu Hru. unfold base_wR, base_scR.
  destruct (is_dogR eps lu) eqn:Eld, (is_dogR eps ru) eqn:Erd,
           (is_vacR eps lu) eqn:Elv, (is_vacR eps ru) eqn:Erv;
    cbn [andb orb]; guards; try (exfalso; lra);
    try (split; [lra|reflexivity]);
    destruct op; try (split; [lra|reflexivity]); (split; [|reflexivity]).
  all: try (assert (Hd : 0 < ru * (1 - lu) + lu * (1 - ru)) by (apply wgh_den_pos_strict; lra));
       field; lra.
Qed.

Lemma aeqR_sym eps x y : aeqR eps x y = aeqR eps y x.
Proof.
  destruct (aeqR eps y x) eqn:E.
  - apply aeqR_true in E. apply aeqR_true. lra.
  - apply aeqR_false in E. apply aeqR_false. lra.
Qed.

Lemma mixR_swap_close eps sc w x y : 0 <= eps ->
  Rabs (mixR eps sc w x y - mixR eps sc (1 - w) y x) <= eps.
Proof.
  intros He. unfold mixR. rewrite (aeqR_sym eps y x).
  destruct sc; cbn [andb].
  - destruct (aeqR eps x y) eqn:E.
    + apply aeqR_true in E. apply Rabs_le. lra.
    + replace (w * x + (1 - w) * y - ((1 - w) * y + (1 - (1 - w)) * x)) with 0 by ring.
      rewrite Rabs_R0. lra.
  - replace (w * x + (1 - w) * y - ((1 - w) * y + (1 - (1 - w)) * x)) with 0 by ring.
    rewrite Rabs_R0. lra.
Qed.

(* for every tolerance the two fused base rates agree entry by entry within eps: the [aeq]
   shortcut returns the LEFT entry, so the two orders may return the two different (but
   approximately equal) entries *)
Lemma compute_base_rateR_comm_close eps op lu la ru ra :
  0 <= eps <= 1/8 -> 0 <= lu <= 1 -> 0 <= ru <= 1 -> length la = length ra ->
  Forall2 (fun p q => Rabs (p - q) <= eps)
          (compute_base_rateR eps op false lu la ru ra) (compute_base_rateR eps op false ru ra lu la).
Proof.
  intros He Hlu Hru HL.
  rewrite (compute_base_rateR_mix eps He lu ru) by (auto; lra).
  rewrite (compute_base_rateR_mix eps He ru lu) by (auto; lra).
  destruct (base_w_swap eps op lu ru He Hlu Hru) as (-> & ->).
  apply Forall2_map2_swap. intros x y. apply mixR_swap_close. lra.
Qed.

Lemma Forall2_close0 l1 l2 : Forall2 (fun p q => Rabs (p - q) <= 0) l1 l2 -> l1 = l2.
Proof.
  induction 1 as [|x y l1 l2 H _ IH]; [reflexivity|]. f_equal; [|exact IH].
  apply Rabs_le_inv' in H. lra.
Qed.

(* exact guards: the same base rate *)
Lemma compute_base_rateR_comm_exact op lu la ru ra :
  0 <= lu <= 1 -> 0 <= ru <= 1 -> length la = length ra ->
  compute_base_rateR 0 op false lu la ru ra = compute_base_rateR 0 op false ru ra lu la.
Proof.
  intros Hlu Hru HL. apply Forall2_close0.
  apply compute_base_rateR_comm_close; auto; lra.
Qed.

Section Comm.
Variables (lb rb la ra : list R) (lu ru : R).
Hypothesis Hl : wf_opinion lb lu la.
Hypothesis Hr : wf_opinion rb ru ra.
Hypothesis HL : length lb = length rb.

Let Hlu : 0 <= lu <= 1. Proof. apply (wf_u01 lb); apply Hl. Qed.
Let Hru : 0 <= ru <= 1. Proof. apply (wf_u01 rb); apply Hr. Qed.
Let HLa : length la = length ra.
Proof. destruct Hl as (_ & _ & E1), Hr as (_ & _ & E2). congruence. Qed.

(* all four operators, exact guards *)
Lemma fuseR_comm_exact op :
  fuseR 0 op false (lb, lu, la) (rb, ru, ra) = fuseR 0 op false (rb, ru, ra) (lb, lu, la).
Proof.
  unfold fuseR.
  rewrite (compute_simplexR_comm 0 op lb lu rb ru) by (auto; lra).
  rewrite (compute_base_rateR_comm_exact op lu la ru ra) by auto.
  reflexivity.
Qed.

(* all four operators, every tolerance, operands with one base rate (either value of [same]) *)
Lemma fuseR_comm_shared eps op same : 0 <= eps <= 1/8 -> la = ra ->
  fuseR eps op same (lb, lu, la) (rb, ru, ra) = fuseR eps op same (rb, ru, ra) (lb, lu, la).
Proof.
  intros He E. unfold fuseR.
  rewrite (compute_simplexR_comm eps op lb lu rb ru) by (auto; lra).
  rewrite (base_rateR_shared eps He lu ru Hlu Hru op same la ra) by auto.
  rewrite (base_rateR_shared eps He ru lu Hru Hlu op same ra la) by auto.
  rewrite E. reflexivity.
Qed.

(* ACm, Avg, Wgh, every tolerance: the same simplex, base rates within eps *)
Lemma fuseR_comm_close eps op : 0 <= eps <= 1/8 -> op <> ECm ->
  fused_b eps op false (lb, lu, la) (rb, ru, ra) = fused_b eps op false (rb, ru, ra) (lb, lu, la) /\
  fused_u eps op false (lb, lu, la) (rb, ru, ra) = fused_u eps op false (rb, ru, ra) (lb, lu, la) /\
  Forall2 (fun p q => Rabs (p - q) <= eps)
          (fused_a eps op false (lb, lu, la) (rb, ru, ra)) (fused_a eps op false (rb, ru, ra) (lb, lu, la)).
Proof.
  intros He Ho.
  pose proof (fused_simplex_eq eps op false lb lu la rb ru ra Ho) as E1.
  pose proof (fused_simplex_eq eps op false rb ru ra lb lu la Ho) as E2.
  rewrite (compute_simplexR_comm eps op lb lu rb ru) in E1 by (auto; lra).
  rewrite <- E2 in E1. injection E1 as Eb Eu.
  split; [exact Eb|]. split; [exact Eu|].
  rewrite !fused_a_eq. apply compute_base_rateR_comm_close; auto.
Qed.

(* the same statements about the model itself *)
Lemma fuse_comm_exact op :
  fuse (B:=FldR) 0 op false (map Some lb, Some lu, map Some la) (map Some rb, Some ru, map Some ra)
  = fuse (B:=FldR) 0 op false (map Some rb, Some ru, map Some ra) (map Some lb, Some lu, map Some la).
Proof.
  assert (He : 0 <= 0 <= 1/8) by lra.
  etransitivity; [exact (fuse_defined 0 He lb rb la ra lu ru Hl Hr HL op false)|].
  symmetry. etransitivity; [exact (fuse_defined 0 He rb lb ra la ru lu Hr Hl (eq_sym HL) op false)|].
  unfold fused_b, fused_u, fused_a. rewrite fuseR_comm_exact. reflexivity.
Qed.

Lemma fuse_comm_shared eps op same : 0 <= eps <= 1/8 -> la = ra ->
  fuse (B:=FldR) eps op same (map Some lb, Some lu, map Some la) (map Some rb, Some ru, map Some ra)
  = fuse (B:=FldR) eps op same (map Some rb, Some ru, map Some ra) (map Some lb, Some lu, map Some la).
Proof.
  intros He E.
  etransitivity; [exact (fuse_defined eps He lb rb la ra lu ru Hl Hr HL op same)|].
  symmetry. etransitivity; [exact (fuse_defined eps He rb lb ra la ru lu Hr Hl (eq_sym HL) op same)|].
  unfold fused_b, fused_u, fused_a. rewrite (fuseR_comm_shared eps op same He E). reflexivity.
Qed.

End Comm.

(* -------------------- 4. idempotence, vacuous neutral element, uncertainty bounds *)
Lemma div_le_r x y z : 0 < z -> y <= x * z -> y / z <= x.
Proof.
  intros Hz H. apply Rmult_le_reg_r with z; [lra|].
  unfold Rdiv. rewrite Rmult_assoc, Rinv_l by lra. lra.
Qed.
Lemma div_ge_r x y z : 0 < z -> x * z <= y -> x <= y / z.
Proof.
  intros Hz H. apply Rmult_le_reg_r with z; [lra|].
  unfold Rdiv. rewrite Rmult_assoc, Rinv_l by lra. lra.
Qed.

Lemma avg_genR_diag b u : 0 < u -> avg_genR b u b u = (b, u).
Proof.
  intros Hu. unfold avg_genR. f_equal; [|field; lra].
  rewrite map2_diag. apply map_id_ext. intros x _. field; lra.
Qed.
Lemma wgh_genR_diag b u : 0 < u < 1 -> wgh_genR b u b u = (b, u).
Proof.
  intros Hu. assert (0 < u * (1 - u)) by (apply Rmult_lt_0_compat; lra).
  unfold wgh_genR. f_equal; [|field; lra].
  rewrite map2_diag. apply map_id_ext. intros x _. field; lra.
Qed.
Lemma dog_mean_diag b : Rsum b = 1 -> normalizedR (map2 (fun x y => (x + y) / 2) b b) 0 = (b, 0).
Proof.
  intros Hs. assert (E : map2 (fun x y => (x + y) / 2) b b = b).
  { rewrite map2_diag. apply map_id_ext. intros x _. lra. }
  rewrite E. apply normalizedR_one. lra.
Qed.

(* Avg and Wgh of an opinion with itself.  Exact when the guards classify u exactly:
   u = 0 or u > eps (otherwise the doubly-dogmatic rung renormalises b by 1 - u and returns
   u = 0), and for Wgh also u = 1 or u < 1 - 2 eps (otherwise the doubly-vacuous rung returns
   the vacuous opinion).  At eps = 0 both conditions hold for every u in [0,1]. *)
Lemma compute_simplexR_idem eps op b u : 0 <= eps <= 1/8 -> wf_simplex b u ->
  op = Avg \/ op = Wgh -> (u = 0 \/ eps < u) -> (op = Wgh -> u = 1 \/ u < 1 - 2 * eps) ->
  compute_simplexR eps op (b, u) (b, u) = (b, u).
Proof.
  intros He Hwf Ho Hd Hv. pose proof (wf_u01 b u Hwf) as Hu.
  unfold compute_simplexR.
  destruct (is_dogR eps u) eqn:Ed, (is_vacR eps u) eqn:Ev; cbn [andb orb]; guards;
    try (exfalso; lra).
  - assert (u = 0) by lra. subst u. destruct Hwf as (_ & _ & Hs).
    apply dog_mean_diag. lra.
  - destruct Ho as [-> | ->]; [apply avg_genR_diag; lra|].
    destruct (Hv eq_refl) as [E|E]; [|exfalso; lra]. subst u.
    rewrite (vacuous_beliefs_eq b Hwf) at 2. reflexivity.
  - destruct Ho as [-> | ->]; [apply avg_genR_diag; lra|apply wgh_genR_diag; lra].
Qed.

Lemma fuseR_idem eps op same b u a : 0 <= eps <= 1/8 -> wf_opinion b u a ->
  op = Avg \/ op = Wgh -> (u = 0 \/ eps < u) -> (op = Wgh -> u = 1 \/ u < 1 - 2 * eps) ->
  fuseR eps op same (b, u, a) (b, u, a) = (b, u, a).
Proof.
  intros He (Hwf & _ & _) Ho Hd Hv. pose proof (wf_u01 b u Hwf) as Hu. unfold fuseR.
  rewrite (compute_simplexR_idem eps op b u He Hwf Ho Hd Hv).
  rewrite (base_rateR_shared eps He u u Hu Hu op same a a) by reflexivity.
  destruct Ho as [-> | ->]; reflexivity.
Qed.

Lemma fuseR_idem_exact op same b u a : wf_opinion b u a -> op = Avg \/ op = Wgh ->
  fuseR 0 op same (b, u, a) (b, u, a) = (b, u, a).
Proof.
  intros H Ho. pose proof H as (Hwf & _). pose proof (wf_u01 b u Hwf) as Hu.
  apply fuseR_idem; auto; try lra; try (intros _; lra).
Qed.

(* the slack is real: for eps > 0 a slightly uncertain opinion is NOT a fixed point *)
Lemma avg_idem_needs_guard : exists eps b u,
  0 <= eps <= 1/8 /\ wf_simplex b u /\ compute_simplexR eps Avg (b, u) (b, u) <> (b, u).
Proof.
  exists (1/8), [7/8], (1/8). split; [lra|]. split.
  - unfold wf_simplex, nonneg; cbn. repeat split; try (repeat constructor; lra); lra.
  - unfold compute_simplexR.
    assert (E : is_dogR (1/8) (1/8) = true) by (apply is_dogR_true; lra). rewrite E. cbn [andb].
    unfold normalizedR. intros H. injection H as _ H. cbn in H. lra.
Qed.

(* ---- a vacuous operand is neutral for ACm and Wgh *)
Lemma base_rateR_vac_right eps op same lu la ru ra :
  0 <= eps <= 1/8 -> 0 <= lu <= 1 -> 0 <= ru <= 1 -> op <> Avg ->
  lu < 1 - 2 * eps -> 1 - 2 * eps <= ru ->
  compute_base_rateR eps op same lu la ru ra = la.
Proof.
  intros He Hlu Hru Ho H1 H2. unfold compute_base_rateR. destruct same; [reflexivity|].
  destruct (is_dogR eps lu) eqn:Eld, (is_dogR eps ru) eqn:Erd,
           (is_vacR eps lu) eqn:Elv, (is_vacR eps ru) eqn:Erv;
    cbn [andb orb]; guards; try (exfalso; lra); destruct op; try reflexivity; contradiction.
Qed.

Lemma base_rateR_vac_left eps op lu la ru ra :
  0 <= eps <= 1/8 -> 0 <= lu <= 1 -> 0 <= ru <= 1 -> op <> Avg ->
  1 - 2 * eps <= lu -> ru < 1 - 2 * eps ->
  compute_base_rateR eps op false lu la ru ra = ra.
Proof.
  intros He Hlu Hru Ho H1 H2. unfold compute_base_rateR.
  destruct (is_dogR eps lu) eqn:Eld, (is_dogR eps ru) eqn:Erd,
           (is_vacR eps lu) eqn:Elv, (is_vacR eps ru) eqn:Erv;
    cbn [andb orb]; guards; try (exfalso; lra); destruct op; try reflexivity; contradiction.
Qed.

(* right operand vacuous up to the guard (u >= 1 - 2 eps), left operand not: the left operand
   is returned unchanged, simplex and base rate; any value of [same] *)
Lemma fuseR_vacuous_right eps op same lb lu la rb ru ra :
  0 <= eps <= 1/8 -> 0 <= lu <= 1 -> 0 <= ru <= 1 -> op = ACm \/ op = Wgh ->
  lu < 1 - 2 * eps -> 1 - 2 * eps <= ru ->
  fuseR eps op same (lb, lu, la) (rb, ru, ra) = (lb, lu, la).
Proof.
  intros He Hlu Hru Ho H1 H2. unfold fuseR.
  rewrite (simplexR_left eps He lb rb lu ru) by (try lra; destruct Ho as [-> | ->]; discriminate).
  rewrite base_rateR_vac_right by (auto; destruct Ho as [-> | ->]; discriminate).
  destruct Ho as [-> | ->]; reflexivity.
Qed.

Lemma fuseR_vacuous_left eps op lb lu la rb ru ra :
  0 <= eps <= 1/8 -> 0 <= lu <= 1 -> 0 <= ru <= 1 -> op = ACm \/ op = Wgh ->
  1 - 2 * eps <= lu -> ru < 1 - 2 * eps ->
  fuseR eps op false (lb, lu, la) (rb, ru, ra) = (rb, ru, ra).
Proof.
  intros He Hlu Hru Ho H1 H2. unfold fuseR.
  rewrite (simplexR_right eps He lb rb lu ru) by (try lra; destruct Ho as [-> | ->]; discriminate).
  rewrite base_rateR_vac_left by (auto; destruct Ho as [-> | ->]; discriminate).
  destruct Ho as [-> | ->]; reflexivity.
Qed.

(* ---- uncertainty bounds *)
Lemma acm_gen_u_le lu ru : 0 < lu <= 1 -> 0 < ru <= 1 ->
  lu * ru / (lu + ru - lu * ru) <= lu /\ lu * ru / (lu + ru - lu * ru) <= ru.
Proof.
  intros Hl Hr. assert (Hd : 0 < lu + ru - lu * ru) by (apply acm_den_pos; lra).
  split; apply div_le_r; auto; nra.
Qed.

Lemma snd_normalizedR_0 b : snd (normalizedR b 0) = 0.
Proof. unfold normalizedR; cbn [snd]. unfold Rdiv. apply Rmult_0_l. Qed.

(* ACm (and the simplex ECm maximises): u <= min (u1, u2), up to 2 eps in the doubly
   vacuous rung (which returns u = 1 for operands with u >= 1 - 2 eps) *)
Lemma acm_u_le_min_eps eps op lb lu rb ru : cum_like op = true ->
  0 <= eps <= 1/8 -> 0 <= lu <= 1 -> 0 <= ru <= 1 ->
  snd (compute_simplexR eps op (lb, lu) (rb, ru)) <= Rmin lu ru + 2 * eps.
Proof.
  intros Ho He Hlu Hru. unfold compute_simplexR.
  destruct (is_dogR eps lu) eqn:Eld, (is_dogR eps ru) eqn:Erd,
           (is_vacR eps lu) eqn:Elv, (is_vacR eps ru) eqn:Erv;
    cbn [andb orb]; guards; try (exfalso; lra);
    try (rewrite snd_normalizedR_0; unfold Rmin; destruct (Rle_dec lu ru); lra);
    destruct op; try discriminate; cbn [snd acm_genR];
    try (unfold Rmin; destruct (Rle_dec lu ru); lra).
  all: destruct (acm_gen_u_le lu ru) as (G1 & G2); try lra;
       unfold Rmin; destruct (Rle_dec lu ru); lra.
Qed.

Lemma acm_u_le_min_exact op lb lu rb ru : cum_like op = true ->
  0 <= lu <= 1 -> 0 <= ru <= 1 ->
  snd (compute_simplexR 0 op (lb, lu) (rb, ru)) <= Rmin lu ru.
Proof.
  intros Ho Hlu Hru.
  pose proof (acm_u_le_min_eps 0 op lb lu rb ru Ho) as H. lapply H; [clear H; intros H|lra].
  specialize (H Hlu Hru). lra.
Qed.

(* outside the doubly vacuous rung there is no slack *)
Lemma acm_u_le_min_novac eps op lb lu rb ru : cum_like op = true ->
  0 <= eps <= 1/8 -> 0 <= lu <= 1 -> 0 <= ru <= 1 -> lu < 1 - 2 * eps \/ ru < 1 - 2 * eps ->
  snd (compute_simplexR eps op (lb, lu) (rb, ru)) <= Rmin lu ru.
Proof.
  intros Ho He Hlu Hru Hn. unfold compute_simplexR.
  destruct (is_dogR eps lu) eqn:Eld, (is_dogR eps ru) eqn:Erd,
           (is_vacR eps lu) eqn:Elv, (is_vacR eps ru) eqn:Erv;
    cbn [andb orb]; guards; try (exfalso; lra);
    try (rewrite snd_normalizedR_0; unfold Rmin; destruct (Rle_dec lu ru); lra);
    destruct op; try discriminate; cbn [snd acm_genR];
    try (unfold Rmin; destruct (Rle_dec lu ru); lra).
  all: destruct (acm_gen_u_le lu ru) as (G1 & G2); try lra;
       unfold Rmin; destruct (Rle_dec lu ru); lra.
Qed.

Lemma avg_gen_u_between lu ru : 0 < lu -> 0 < ru ->
  Rmin lu ru <= 2 * lu * ru / (lu + ru) <= Rmax lu ru.
Proof.
  intros Hl Hr. assert (Hd : 0 < lu + ru) by lra.
  unfold Rmin, Rmax. destruct (Rle_dec lu ru); split;
    try (apply div_ge_r; [lra|nra]); try (apply div_le_r; [lra|nra]).
Qed.

Lemma wgh_gen_u_between lu ru : 0 < lu < 1 -> 0 < ru < 1 ->
  Rmin lu ru <= ((1 - lu) + (1 - ru)) * lu * ru / (ru * (1 - lu) + lu * (1 - ru)) <= Rmax lu ru.
Proof.
  intros Hl Hr. pose proof (wgh_den_pos_strict lu ru Hl Hr) as Hd.
  (* U T - lu T = lu (1 - ru) (ru - lu),  ru T - U T = ru (1 - lu) (ru - lu) *)
  assert (E1 : ((1 - lu) + (1 - ru)) * lu * ru - lu * (ru * (1 - lu) + lu * (1 - ru))
               = lu * (1 - ru) * (ru - lu)) by ring.
  assert (E2 : ru * (ru * (1 - lu) + lu * (1 - ru)) - ((1 - lu) + (1 - ru)) * lu * ru
               = ru * (1 - lu) * (ru - lu)) by ring.
  assert (P1 : 0 < lu * (1 - ru)) by (apply Rmult_lt_0_compat; lra).
  assert (P2 : 0 < ru * (1 - lu)) by (apply Rmult_lt_0_compat; lra).
  unfold Rmin, Rmax. destruct (Rle_dec lu ru) as [Hle|Hgt]; split;
    try (apply div_ge_r; [lra|]); try (apply div_le_r; [lra|]); nra.
Qed.

(* Avg and Wgh: min (u1, u2) <= u <= max (u1, u2); slack eps below (doubly dogmatic rung
   returns u = 0) and 2 eps above (doubly vacuous rung of Wgh returns u = 1) *)
Lemma avg_wgh_u_between_eps eps op lb lu rb ru : op = Avg \/ op = Wgh ->
  0 <= eps <= 1/8 -> 0 <= lu <= 1 -> 0 <= ru <= 1 ->
  Rmin lu ru - eps <= snd (compute_simplexR eps op (lb, lu) (rb, ru)) <= Rmax lu ru + 2 * eps.
Proof.
  intros Ho He Hlu Hru. unfold compute_simplexR.
  pose proof (Rmin_l lu ru). pose proof (Rmin_r lu ru).
  pose proof (Rmax_l lu ru). pose proof (Rmax_r lu ru).
  destruct (is_dogR eps lu) eqn:Eld, (is_dogR eps ru) eqn:Erd,
           (is_vacR eps lu) eqn:Elv, (is_vacR eps ru) eqn:Erv;
    cbn [andb orb]; guards; try (exfalso; lra);
    try (rewrite snd_normalizedR_0; lra);
    destruct Ho as [-> | ->]; cbn [snd avg_genR wgh_genR]; try lra.
  all: try (pose proof (avg_gen_u_between lu ru); lra).
  all: try (pose proof (wgh_gen_u_between lu ru); lra).
Qed.

Lemma avg_wgh_u_between_exact op lb lu rb ru : op = Avg \/ op = Wgh ->
  0 <= lu <= 1 -> 0 <= ru <= 1 ->
  Rmin lu ru <= snd (compute_simplexR 0 op (lb, lu) (rb, ru)) <= Rmax lu ru.
Proof.
  intros Ho Hlu Hru.
  pose proof (avg_wgh_u_between_eps 0 op lb lu rb ru Ho) as H. lapply H; [clear H; intros H|lra].
  specialize (H Hlu Hru). lra.
Qed.

(* --------------------------------------------------------- 5. the evidence map *)
(* Dirichlet evidence of a non-dogmatic simplex for prior weight W, and the way back *)
Definition evR (W : R) (b : list R) (u : R) : list R := map (fun x => W * x / u) b.
Definition opR (W : R) (r : list R) : list R * R :=
  (map (fun x => x / (W + Rsum r)) r, W / (W + Rsum r)).

Lemma evR_length W b u : length (evR W b u) = length b.
Proof. apply map_length. Qed.
Lemma opR_length W r : length (fst (opR W r)) = length r.
Proof. apply map_length. Qed.

Lemma Rsum_evR W b u : Rsum (evR W b u) = W * Rsum b / u.
Proof.
  unfold evR. induction b; cbn [map Rsum]; [unfold Rdiv; ring|]. rewrite IHb. unfold Rdiv; ring.
Qed.

Lemma evR_nonneg W b u : 0 < W -> 0 < u -> nonneg b -> nonneg (evR W b u).
Proof.
  intros HW Hu Hb. apply nonneg_map; [|exact Hb]. intros x Hx.
  apply Rmult_le_pos; [apply Rmult_le_pos; lra|apply Rlt_le, Rinv_0_lt_compat; exact Hu].
Qed.

(* a vacuous opinion carries no evidence *)
Lemma evR_vacuous W b : wf_simplex b 1 -> evR W b 1 = map (fun _ => 0) b.
Proof.
  intros H. unfold evR. apply map_ext_in. intros x Hx.
  rewrite (vacuous_beliefs b H x Hx). unfold Rdiv; ring.
Qed.

(* the two maps are mutually inverse between non-dogmatic simplexes and evidence vectors *)
Lemma opR_evR W b u : 0 < W -> wf_simplex b u -> 0 < u -> opR W (evR W b u) = (b, u).
Proof.
  intros HW (Hb & _ & Hs) Hu. unfold opR. rewrite Rsum_evR.
  replace (Rsum b) with (1 - u) by lra.
  replace (W + W * (1 - u) / u) with (W / u) by (field; lra).
  f_equal; [|field; lra].
  unfold evR. rewrite map_map. apply map_id_ext. intros x _. field; lra.
Qed.

Lemma opR_pos W r : 0 < W -> nonneg r -> 0 < W + Rsum r.
Proof. intros HW Hr. pose proof (Rsum_nonneg r Hr). lra. Qed.

Lemma evR_opR W r : 0 < W -> nonneg r -> evR W (fst (opR W r)) (snd (opR W r)) = r.
Proof.
  intros HW Hr. pose proof (opR_pos W r HW Hr) as Hd.
  unfold opR, evR; cbn [fst snd]. rewrite map_map. apply map_id_ext. intros x _. field; lra.
Qed.

Lemma opR_wf W r : 0 < W -> nonneg r ->
  wf_simplex (fst (opR W r)) (snd (opR W r)) /\ 0 < snd (opR W r).
Proof.
  intros HW Hr. pose proof (opR_pos W r HW Hr) as Hd.
  assert (Hi : 0 < / (W + Rsum r)) by (apply Rinv_0_lt_compat; exact Hd).
  unfold opR; cbn [fst snd]. split; [split; [|split]|].
  - apply nonneg_map; [|exact Hr]. intros x Hx. apply Rmult_le_pos; lra.
  - apply Rmult_le_pos; lra.
  - rewrite Rsum_map_div. field; lra.
  - apply Rmult_lt_0_compat; lra.
Qed.

(* back-map of an entry-wise linear combination of two belief vectors *)
Lemma opR_lin W c d lb lu rb ru :
  wf_simplex lb lu -> wf_simplex rb ru -> length lb = length rb ->
  opR W (map2 (fun x y => x * c + y * d) lb rb) =
  (map2 (fun x y => (x * c + y * d) / (W + (1 - lu) * c + (1 - ru) * d)) lb rb,
   W / (W + (1 - lu) * c + (1 - ru) * d)).
Proof.
  intros (_ & _ & Hs1) (_ & _ & Hs2) HL. unfold opR.
  rewrite (Rsum_map2_lin _ c d) by (auto; intros; reflexivity).
  replace (Rsum lb) with (1 - lu) by lra. replace (Rsum rb) with (1 - ru) by lra.
  replace (W + ((1 - lu) * c + (1 - ru) * d)) with (W + (1 - lu) * c + (1 - ru) * d) by ring.
  rewrite map_map2. reflexivity.
Qed.

Section Evidence.
Variable W : R.
Hypothesis HW : 0 < W.
Variables (lb rb : list R) (lu ru : R).
Hypothesis Hl : wf_simplex lb lu.
Hypothesis Hr : wf_simplex rb ru.
Hypothesis HL : length lb = length rb.
Hypothesis Hlu : 0 < lu.
Hypothesis Hru : 0 < ru.

Let Hlu1 : lu <= 1 := wf_simplex_u_le1 _ _ Hl.
Let Hru1 : ru <= 1 := wf_simplex_u_le1 _ _ Hr.

(* the closed forms are the evidence combinations (no guard involved) *)
Lemma acm_genR_evidence :
  acm_genR lb lu rb ru = opR W (map2 Rplus (evR W lb lu) (evR W rb ru)).
Proof.
  assert (Hd : 0 < lu + ru - lu * ru) by (apply acm_den_pos; lra).
  assert (E : map2 Rplus (evR W lb lu) (evR W rb ru)
              = map2 (fun x y => x * (W / lu) + y * (W / ru)) lb rb).
  { unfold evR. rewrite map2_map. apply map2_ext. intros; unfold Rdiv; ring. }
  rewrite E, (opR_lin W _ _ lb lu rb ru Hl Hr HL).
  assert (Ed : W + (1 - lu) * (W / lu) + (1 - ru) * (W / ru) = W * (lu + ru - lu * ru) / (lu * ru))
    by (field; lra).
  rewrite Ed. unfold acm_genR. f_equal; [|field; lra].
  apply map2_ext. intros x y. field; lra.
Qed.

Lemma avg_genR_evidence :
  avg_genR lb lu rb ru = opR W (map (fun z => z / 2) (map2 Rplus (evR W lb lu) (evR W rb ru))).
Proof.
  assert (Hd : 0 < lu + ru) by lra.
  assert (E : map (fun z => z / 2) (map2 Rplus (evR W lb lu) (evR W rb ru))
              = map2 (fun x y => x * (W / (2 * lu)) + y * (W / (2 * ru))) lb rb).
  { unfold evR. rewrite map2_map, map_map2. apply map2_ext. intros; field; lra. }
  rewrite E, (opR_lin W _ _ lb lu rb ru Hl Hr HL).
  assert (Ed : W + (1 - lu) * (W / (2 * lu)) + (1 - ru) * (W / (2 * ru)) = W * (lu + ru) / (2 * lu * ru))
    by (field; lra).
  rewrite Ed. unfold avg_genR. f_equal; [|field; lra].
  apply map2_ext. intros x y. field; lra.
Qed.

Lemma wgh_genR_evidence : ~ (lu = 1 /\ ru = 1) ->
  wgh_genR lb lu rb ru =
  opR W (map2 (fun r1 r2 => ((1 - lu) * r1 + (1 - ru) * r2) / ((1 - lu) + (1 - ru)))
              (evR W lb lu) (evR W rb ru)).
Proof.
  intros Hnv.
  assert (HD : 0 < (1 - lu) + (1 - ru)) by (apply wgh_base_den_pos; auto).
  assert (HT : 0 < ru * (1 - lu) + lu * (1 - ru)) by (apply wgh_den_pos; auto; lra).
  assert (E : map2 (fun r1 r2 => ((1 - lu) * r1 + (1 - ru) * r2) / ((1 - lu) + (1 - ru)))
                   (evR W lb lu) (evR W rb ru)
              = map2 (fun x y => x * ((1 - lu) * W / (lu * ((1 - lu) + (1 - ru))))
                               + y * ((1 - ru) * W / (ru * ((1 - lu) + (1 - ru))))) lb rb).
  { unfold evR. rewrite map2_map. apply map2_ext. intros; field; lra. }
  rewrite E, (opR_lin W _ _ lb lu rb ru Hl Hr HL).
  assert (Ed : W + (1 - lu) * ((1 - lu) * W / (lu * ((1 - lu) + (1 - ru))))
                 + (1 - ru) * ((1 - ru) * W / (ru * ((1 - lu) + (1 - ru))))
               = W * (ru * (1 - lu) + lu * (1 - ru)) / (lu * ru * ((1 - lu) + (1 - ru))))
    by (field; lra).
  rewrite Ed. unfold wgh_genR. f_equal; [|field; lra].
  apply map2_ext. intros x y. field; lra.
Qed.

(* closed forms when one operand is exactly vacuous *)
Lemma acm_genR_vac_l : lu = 1 -> acm_genR lb lu rb ru = (rb, ru).
Proof.
  intros E. subst lu. unfold acm_genR. f_equal; [|field; lra].
  transitivity (map2 (fun (_ : R) y => y) lb rb); [|apply map2_snd; auto].
  apply map2_ext_in. intros x y Hx _. rewrite (vacuous_beliefs lb Hl x Hx). field; lra.
Qed.

Lemma wgh_genR_vac_l : lu = 1 -> ru < 1 -> wgh_genR lb lu rb ru = (rb, ru).
Proof.
  intros E Hr1. subst lu. unfold wgh_genR. f_equal; [|field; lra].
  transitivity (map2 (fun (_ : R) y => y) lb rb); [|apply map2_snd; auto].
  apply map2_ext. intros x y. field; lra.
Qed.

End Evidence.

Lemma acm_genR_vac_r lb lu rb ru : wf_simplex lb lu -> wf_simplex rb ru -> length lb = length rb ->
  0 < lu -> ru = 1 -> acm_genR lb lu rb ru = (lb, lu).
Proof.
  intros Hl Hr HL Hlu E. rewrite acm_genR_comm. apply acm_genR_vac_l; auto; try (symmetry; assumption); try lra.
Qed.
Lemma wgh_genR_vac_r lb lu rb ru : wf_simplex rb ru -> length lb = length rb ->
  lu < 1 -> ru = 1 -> wgh_genR lb lu rb ru = (lb, lu).
Proof.
  intros Hr HL Hlu E. rewrite wgh_genR_comm. apply wgh_genR_vac_l; auto; try (symmetry; assumption); try lra.
Qed.

Lemma acm_genR_vac_vac lb rb : wf_simplex lb 1 -> wf_simplex rb 1 -> length lb = length rb ->
  acm_genR lb 1 rb 1 = (map (fun _ => 0) lb, 1).
Proof.
  intros Hl Hr HL. rewrite (acm_genR_vac_l lb rb 1 1 Hl HL) by (auto; lra).
  rewrite (vacuous_beliefs_eq rb Hr) at 1. f_equal. symmetry. apply map_const_len; exact HL.
Qed.

(* with exact guards every rung of the ladder agrees with the closed form as soon as both
   operands are non-dogmatic: the guards only avoid 0/0 *)
Section ExactLadder.
Variables (lb rb : list R) (lu ru : R).
Hypothesis Hl : wf_simplex lb lu.
Hypothesis Hr : wf_simplex rb ru.
Hypothesis HL : length lb = length rb.
Hypothesis Hlu : 0 < lu.
Hypothesis Hru : 0 < ru.

Let Hlu1 : lu <= 1 := wf_simplex_u_le1 _ _ Hl.
Let Hru1 : ru <= 1 := wf_simplex_u_le1 _ _ Hr.

Lemma simplexR_acm_exact op : cum_like op = true ->
  compute_simplexR 0 op (lb, lu) (rb, ru) = acm_genR lb lu rb ru.
Proof.
  intros Ho. unfold compute_simplexR.
  destruct (is_dogR 0 lu) eqn:Eld, (is_dogR 0 ru) eqn:Erd,
           (is_vacR 0 lu) eqn:Elv, (is_vacR 0 ru) eqn:Erv;
    cbn [andb orb]; guards; try (exfalso; lra); destruct op; try discriminate; try reflexivity.
  all: try (assert (lu = 1) by lra; assert (ru = 1) by lra; subst lu ru;
            symmetry; apply acm_genR_vac_vac; assumption).
  all: try (symmetry; apply acm_genR_vac_l; auto; lra).
  all: try (symmetry; apply acm_genR_vac_r; auto; lra).
Qed.

Lemma simplexR_avg_exact : compute_simplexR 0 Avg (lb, lu) (rb, ru) = avg_genR lb lu rb ru.
Proof. apply simplexR_avg_gen; lra. Qed.

Lemma simplexR_wgh_exact : ~ (lu = 1 /\ ru = 1) ->
  compute_simplexR 0 Wgh (lb, lu) (rb, ru) = wgh_genR lb lu rb ru.
Proof.
  intros Hnv. unfold compute_simplexR.
  destruct (is_dogR 0 lu) eqn:Eld, (is_dogR 0 ru) eqn:Erd,
           (is_vacR 0 lu) eqn:Elv, (is_vacR 0 ru) eqn:Erv;
    cbn [andb orb]; guards; try (exfalso; lra); try reflexivity.
  - symmetry. apply wgh_genR_vac_l; auto; lra.
  - symmetry. apply wgh_genR_vac_r; auto; lra.
Qed.

Variable W : R.
Hypothesis HW : 0 < W.

(* C03: the three operators in evidence space (vacuous operands included: their evidence is 0) *)
Lemma acm_is_evidence_sum op : cum_like op = true ->
  compute_simplexR 0 op (lb, lu) (rb, ru) = opR W (map2 Rplus (evR W lb lu) (evR W rb ru)).
Proof. intros Ho. rewrite (simplexR_acm_exact op Ho). apply acm_genR_evidence; auto. Qed.

Lemma avg_is_evidence_mean :
  compute_simplexR 0 Avg (lb, lu) (rb, ru)
  = opR W (map (fun z => z / 2) (map2 Rplus (evR W lb lu) (evR W rb ru))).
Proof. rewrite simplexR_avg_exact. apply avg_genR_evidence; auto. Qed.

Lemma wgh_is_confidence_weighted_mean : ~ (lu = 1 /\ ru = 1) ->
  compute_simplexR 0 Wgh (lb, lu) (rb, ru)
  = opR W (map2 (fun r1 r2 => ((1 - lu) * r1 + (1 - ru) * r2) / ((1 - lu) + (1 - ru)))
                (evR W lb lu) (evR W rb ru)).
Proof. intros Hnv. rewrite (simplexR_wgh_exact Hnv). apply wgh_genR_evidence; auto. Qed.

(* evidence is additive under ACm *)
Lemma acm_evidence_additive op : cum_like op = true ->
  evR W (fst (compute_simplexR 0 op (lb, lu) (rb, ru))) (snd (compute_simplexR 0 op (lb, lu) (rb, ru)))
  = map2 Rplus (evR W lb lu) (evR W rb ru).
Proof.
  intros Ho. rewrite (acm_is_evidence_sum op Ho). apply evR_opR; [exact HW|].
  pose proof Hl as (Hb1 & _). pose proof Hr as (Hb2 & _).
  apply nonneg_map2; [intros; lra| |]; apply evR_nonneg; auto.
Qed.

End ExactLadder.

(* for a positive tolerance the same readings hold in the general rung of each ladder *)
Lemma acm_is_evidence_sum_eps eps W op lb lu rb ru : 0 <= eps <= 1/8 -> 0 < W -> cum_like op = true ->
  wf_simplex lb lu -> wf_simplex rb ru -> length lb = length rb ->
  eps < lu < 1 - 2 * eps -> eps < ru < 1 - 2 * eps ->
  compute_simplexR eps op (lb, lu) (rb, ru) = opR W (map2 Rplus (evR W lb lu) (evR W rb ru)).
Proof.
  intros He HW Ho Hl Hr HL H1 H2.
  rewrite (simplexR_acm_gen eps He lb rb lu ru) by (auto; lra).
  apply acm_genR_evidence; auto; lra.
Qed.

Lemma avg_is_evidence_mean_eps eps W lb lu rb ru : 0 <= eps <= 1/8 -> 0 < W ->
  wf_simplex lb lu -> wf_simplex rb ru -> length lb = length rb ->
  eps < lu -> eps < ru ->
  compute_simplexR eps Avg (lb, lu) (rb, ru)
  = opR W (map (fun z => z / 2) (map2 Rplus (evR W lb lu) (evR W rb ru))).
Proof.
  intros He HW Hl Hr HL H1 H2.
  pose proof (wf_u01 _ _ Hl). pose proof (wf_u01 _ _ Hr).
  rewrite (simplexR_avg_gen eps He lb rb lu ru) by lra.
  apply avg_genR_evidence; auto; lra.
Qed.

Lemma wgh_is_confidence_weighted_mean_eps eps W lb lu rb ru : 0 <= eps <= 1/8 -> 0 < W ->
  wf_simplex lb lu -> wf_simplex rb ru -> length lb = length rb ->
  eps < lu < 1 - 2 * eps -> eps < ru < 1 - 2 * eps ->
  compute_simplexR eps Wgh (lb, lu) (rb, ru)
  = opR W (map2 (fun r1 r2 => ((1 - lu) * r1 + (1 - ru) * r2) / ((1 - lu) + (1 - ru)))
                (evR W lb lu) (evR W rb ru)).
Proof.
  intros He HW Hl Hr HL H1 H2.
  rewrite (simplexR_wgh_gen eps He lb rb lu ru) by lra.
  apply wgh_genR_evidence; auto; lra.
Qed.

(* ------------------------------------ 6. ECm is the uncertainty-maximised ACm result *)

(* in the model, for every number structure and all (also undefined) entries: the epistemic
   operator runs the aleatory one and maximises the uncertainty of its simplex under the
   fused base rate *)
Lemma fuse_ecm_is_maxu_of_acm {B : Fld} (eps : F B) same lb lu la rb ru ra :
  let w := fuse eps ACm same (lb, lu, la) (rb, ru, ra) in
  let s := uncertainty_maximized eps (fst (fst w)) (snd (fst w)) (snd w) in
  fuse eps ECm same (lb, lu, la) (rb, ru, ra) = (bel s, unc s, snd w).
Proof. reflexivity. Qed.

Lemma compute_simplexR_ecm eps l r : compute_simplexR eps ECm l r = compute_simplexR eps ACm l r.
Proof. destruct l, r; reflexivity. Qed.
Lemma compute_base_rateR_ecm eps same lu la ru ra :
  compute_base_rateR eps ECm same lu la ru ra = compute_base_rateR eps ACm same lu la ru ra.
Proof. reflexivity. Qed.

(* the maximisation of Fusion.v (which normalises the projection) is the one of Proj.v on
   operands of total mass one *)
Lemma fprojR_projR b u a : Rsum b + u = 1 -> Rsum a = 1 -> length a = length b ->
  fprojR b u a = projR b u a.
Proof.
  intros Hb Ha HL. unfold fprojR. fold (projR b u a).
  rewrite (Rsum_projR_one b u a Hb Ha HL). apply map_div_one.
Qed.

Lemma fumaxR_umaxR eps b u a : Rsum b + u = 1 -> Rsum a = 1 -> length a = length b ->
  fumaxR eps b u a = umaxR eps b u a.
Proof.
  intros Hb Ha HL. unfold fumaxR, fmaxuR. rewrite (fprojR_projR b u a Hb Ha HL). reflexivity.
Qed.

Section Ecm.
Variable eps : R.
Hypothesis eps_range : 0 <= eps <= 1/8.
Variables (lb rb la ra : list R) (lu ru : R).
Hypothesis Hl : wf_opinion lb lu la.
Hypothesis Hr : wf_opinion rb ru ra.
Hypothesis HL : length lb = length rb.
Variable same : bool.

Let l := (lb, lu, la).
Let r := (rb, ru, ra).

(* needs a fused base rate of total mass exactly one: automatic at eps = 0 and for operands
   with one base rate (below); in general it is the first half of [ecm_side] *)
Hypothesis Hs : Rsum (fused_a eps ECm same l r) = 1.

Lemma ecm_acm_wf_opinion :
  wf_opinion (fused_b eps ACm same l r) (fused_u eps ACm same l r) (fused_a eps ACm same l r).
Proof.
  split; [|split].
  - apply fuse_wf; auto. discriminate.
  - split; [|exact Hs]. apply (fuse_base_nonneg eps eps_range lb rb la ra lu ru); auto.
  - unfold l, r. rewrite fuse_base_length, fuse_b_length by auto. apply Hl.
Qed.

Lemma ecm_is_umax_of_acm :
  fused_a eps ECm same l r = fused_a eps ACm same l r /\
  (fused_b eps ECm same l r, fused_u eps ECm same l r)
  = umaxR eps (fused_b eps ACm same l r) (fused_u eps ACm same l r) (fused_a eps ACm same l r).
Proof.
  split; [reflexivity|].
  pose proof ecm_acm_wf_opinion as ((_ & _ & H1) & (_ & H2) & H3).
  unfold l, r. rewrite fused_simplex_ecm, compute_simplexR_ecm, compute_base_rateR_ecm.
  apply (fumaxR_umaxR eps _ _ _ H1 H2 H3).
Qed.

(* same projected probabilities, at least as much uncertainty, and as much as the masses
   allow: u' a_i <= P_i for every a_i above the guard, with equality (a zero mass) somewhere
   unless u' = 1 *)
Lemma ecm_is_maxu_of_acm :
  let b := fused_b eps ACm same l r in
  let u := fused_u eps ACm same l r in
  let a := fused_a eps ACm same l r in
  let b' := fused_b eps ECm same l r in
  let u' := fused_u eps ECm same l r in
  fused_a eps ECm same l r = a /\
  (b', u') = umaxR eps b u a /\
  projR b' u' a = projR b u a /\
  (forall i, nth i b' 0 + nth i a 0 * u' = nth i b 0 + nth i a 0 * u) /\
  u <= u' <= 1 /\
  (forall i, eps < nth i a 0 -> u' * nth i a 0 <= nth i b 0 + nth i a 0 * u) /\
  (u' = 1 \/ exists i, eps < nth i a 0 /\ nth i b' 0 = 0).
Proof.
  intros b u a b' u'.
  destruct ecm_is_umax_of_acm as (Ea & Es). fold b u a b' u' in Es.
  assert (Eb : b' = fst (umaxR eps b u a)) by (rewrite <- Es; reflexivity).
  assert (Eu : u' = snd (umaxR eps b u a)) by (rewrite <- Es; reflexivity).
  pose proof ecm_acm_wf_opinion as Hwf. fold b u a in Hwf.
  pose proof Hwf as (_ & _ & HLa).
  destruct (maxu_tolerant_lemma eps eps_range b u a Hwf)
    as (_ & _ & _ & _ & T5 & _ & _ & T8 & T9 & T10).
  split; [exact Ea|]. split; [exact Es|].
  split; [rewrite Eb, Eu; apply umaxR_same_projection; exact HLa|].
  rewrite Eb, Eu.
  split; [exact T8|]. split; [exact T5|]. split; [exact T9|].
  destruct T10 as [E|(i & Hi & _ & Ei)]; [left; exact E|right; exists i; split; assumption].
Qed.

End Ecm.

(* the two cases in which the hypothesis on the fused base rate is automatic *)
Lemma ecm_base_sum_exact same lb lu la rb ru ra :
  wf_opinion lb lu la -> wf_opinion rb ru ra -> length lb = length rb ->
  Rsum (fused_a 0 ECm same (lb, lu, la) (rb, ru, ra)) = 1.
Proof. intros Hl Hr HL. apply (fuse_closed_exact ECm same lb lu la rb ru ra Hl Hr HL). Qed.

Lemma ecm_base_sum_shared eps same lb lu la rb ru ra : 0 <= eps <= 1/8 ->
  wf_opinion lb lu la -> wf_opinion rb ru ra -> length lb = length rb -> la = ra ->
  Rsum (fused_a eps ECm same (lb, lu, la) (rb, ru, ra)) = 1.
Proof.
  intros He Hl Hr HL E. rewrite (fuse_base_shared eps He lb rb la ra lu ru Hl Hr HL ECm same E).
  apply Hl.
Qed.

(* ------------------------------------------------ 7. limits and base-rate rules *)

(* one operand dogmatic (u <= eps), the other not: the dogmatic one is returned; all four
   ladders ([ECm]: the simplex that is then maximised) *)
Lemma one_dogmatic_left eps op lb lu rb ru :
  0 <= eps <= 1/8 -> 0 <= lu <= 1 -> 0 <= ru <= 1 -> lu <= eps -> eps < ru ->
  compute_simplexR eps op (lb, lu) (rb, ru) = (lb, lu).
Proof.
  intros He Hlu Hru H1 H2. destruct op.
  1,2,4: apply simplexR_left; try lra; discriminate.
  apply simplexR_avg_left; lra.
Qed.

Lemma one_dogmatic_right eps op lb lu rb ru :
  0 <= eps <= 1/8 -> 0 <= lu <= 1 -> 0 <= ru <= 1 -> eps < lu -> ru <= eps ->
  compute_simplexR eps op (lb, lu) (rb, ru) = (rb, ru).
Proof.
  intros He Hlu Hru H1 H2. destruct op.
  1,2,4: apply simplexR_right; try lra; discriminate.
  apply simplexR_avg_right; lra.
Qed.

Lemma fused_simplex_fst eps op same lb lu la rb ru ra : op <> ECm ->
  fused_b eps op same (lb, lu, la) (rb, ru, ra) = fst (compute_simplexR eps op (lb, lu) (rb, ru)) /\
  fused_u eps op same (lb, lu, la) (rb, ru, ra) = snd (compute_simplexR eps op (lb, lu) (rb, ru)).
Proof.
  intros Ho. rewrite <- (fused_simplex_eq eps op same lb lu la rb ru ra Ho). split; reflexivity.
Qed.

Lemma one_dogmatic_wins eps op same lb lu la rb ru ra :
  0 <= eps <= 1/8 -> 0 <= lu <= 1 -> 0 <= ru <= 1 -> op <> ECm ->
  (lu <= eps -> eps < ru ->
   fused_b eps op same (lb, lu, la) (rb, ru, ra) = lb /\ fused_u eps op same (lb, lu, la) (rb, ru, ra) = lu) /\
  (eps < lu -> ru <= eps ->
   fused_b eps op same (lb, lu, la) (rb, ru, ra) = rb /\ fused_u eps op same (lb, lu, la) (rb, ru, ra) = ru).
Proof.
  intros He Hlu Hru Ho.
  destruct (fused_simplex_fst eps op same lb lu la rb ru ra Ho) as (-> & ->).
  split; intros H1 H2.
  - rewrite one_dogmatic_left by auto. split; reflexivity.
  - rewrite one_dogmatic_right by auto. split; reflexivity.
Qed.

(* two dogmatic operands: the mean of the belief masses, renormalised by 1 - (lu + ru)/2,
   which is 1 for exactly dogmatic operands; u = 0 *)
Lemma two_dogmatic_mean eps op lb lu rb ru :
  0 <= eps <= 1/8 -> wf_simplex lb lu -> wf_simplex rb ru -> length lb = length rb ->
  lu <= eps -> ru <= eps ->
  compute_simplexR eps op (lb, lu) (rb, ru) = normalizedR (map2 (fun x y => (x + y) / 2) lb rb) 0 /\
  snd (compute_simplexR eps op (lb, lu) (rb, ru)) = 0 /\
  (lu = 0 -> ru = 0 ->
   compute_simplexR eps op (lb, lu) (rb, ru) = (map2 (fun x y => (x + y) / 2) lb rb, 0)).
Proof.
  intros He Hl Hr HL H1 H2. pose proof (wf_u01 _ _ Hl). pose proof (wf_u01 _ _ Hr).
  rewrite (simplexR_dog_dog eps He lb rb lu ru) by lra.
  split; [reflexivity|]. split; [apply snd_normalizedR_0|].
  intros E1 E2. apply normalizedR_one. rewrite (dog_mean_sum lb rb lu ru Hl Hr HL). lra.
Qed.

(* two vacuous operands: the vacuous simplex (ACm, ECm, Wgh: by their first rung, for operands
   vacuous up to the guard; Avg: by its closed form, for exactly vacuous operands) *)
Lemma two_vacuous_vacuous eps op lb lu rb ru :
  0 <= eps <= 1/8 -> wf_simplex lb lu -> wf_simplex rb ru -> length lb = length rb ->
  (op <> Avg -> 1 - 2 * eps <= lu -> 1 - 2 * eps <= ru ->
   compute_simplexR eps op (lb, lu) (rb, ru) = (map (fun _ => 0) lb, 1)) /\
  (lu = 1 -> ru = 1 -> compute_simplexR eps op (lb, lu) (rb, ru) = (map (fun _ => 0) lb, 1)).
Proof.
  intros He Hl Hr HL. pose proof (wf_u01 _ _ Hl). pose proof (wf_u01 _ _ Hr).
  assert (G : op <> Avg -> 1 - 2 * eps <= lu -> 1 - 2 * eps <= ru ->
              compute_simplexR eps op (lb, lu) (rb, ru) = (map (fun _ => 0) lb, 1)).
  { intros Ho H1 H2. apply simplexR_vac_vac; auto; lra. }
  split; [exact G|]. intros E1 E2. destruct op; try (apply G; [discriminate|lra|lra]).
  subst lu ru. rewrite (simplexR_avg_gen eps He lb rb 1 1) by lra.
  unfold avg_genR. f_equal; [|field].
  rewrite <- (map2_const 0 lb rb HL). apply map2_ext_in. intros x y Hx Hy.
  rewrite (vacuous_beliefs lb Hl x Hx), (vacuous_beliefs rb Hr y Hy). field.
Qed.

(* base rates, exact guards *)
Lemma mean_or_sameR_exact la ra : mean_or_sameR 0 la ra = map2 (fun x y => (x + y) / 2) la ra.
Proof.
  unfold mean_or_sameR. apply map2_ext. intros x y.
  destruct (aeqR 0 x y) eqn:E; [|reflexivity]. apply aeqR_exact in E. subst; lra.
Qed.

Lemma base_rateR_exact_mix op lu la ru ra : 0 <= lu <= 1 -> 0 <= ru <= 1 -> length la = length ra ->
  compute_base_rateR 0 op false lu la ru ra =
  map2 (fun x y => base_wR 0 op false lu ru * x + (1 - base_wR 0 op false lu ru) * y) la ra.
Proof.
  intros Hlu Hru HL. assert (He : 0 <= 0 <= 1/8) by lra.
  rewrite (compute_base_rateR_mix 0 He lu ru) by (auto; lra).
  apply map2_ext. intros x y. apply mixR_exact; lra.
Qed.

Ltac exact_u :=
  try match goal with H : ?u <= 0, H' : 0 <= ?u <= 1 |- _ => assert (u = 0) by lra; subst u end;
  try match goal with H : ?u <= 0, H' : 0 <= ?u <= 1 |- _ => assert (u = 0) by lra; subst u end;
  try match goal with H : 1 - 2 * 0 <= ?u, H' : 0 <= ?u <= 1 |- _ => assert (u = 1) by lra; subst u end;
  try match goal with H : 1 - 2 * 0 <= ?u, H' : 0 <= ?u <= 1 |- _ => assert (u = 1) by lra; subst u end.

(* cumulative fusion: weights ru (1 - lu) : lu (1 - ru), whenever they are not both zero,
   i.e. unless both operands are dogmatic or both vacuous *)
Lemma base_wR_acm_exact op lu ru : cum_like op = true -> 0 <= lu <= 1 -> 0 <= ru <= 1 ->
  ru * (1 - lu) + lu * (1 - ru) <> 0 ->
  base_wR 0 op false lu ru = ru * (1 - lu) / (ru * (1 - lu) + lu * (1 - ru)).
Proof.
  intros Ho Hlu Hru Hd. unfold base_wR.
  destruct (is_dogR 0 lu) eqn:Eld, (is_dogR 0 ru) eqn:Erd,
           (is_vacR 0 lu) eqn:Elv, (is_vacR 0 ru) eqn:Erv;
    cbn [andb orb]; guards; try (exfalso; lra); destruct op; try discriminate; try reflexivity;
    exact_u; try (exfalso; apply Hd; ring); field; lra.
Qed.

(* weighted fusion: weights (1 - lu) : (1 - ru), unless both operands are vacuous *)
Lemma base_wR_wgh_exact lu ru : 0 <= lu <= 1 -> 0 <= ru <= 1 -> ~ (lu = 1 /\ ru = 1) ->
  base_wR 0 Wgh false lu ru = (1 - lu) / ((1 - lu) + (1 - ru)).
Proof.
  intros Hlu Hru Hd. unfold base_wR.
  destruct (is_dogR 0 lu) eqn:Eld, (is_dogR 0 ru) eqn:Erd,
           (is_vacR 0 lu) eqn:Elv, (is_vacR 0 ru) eqn:Erv;
    cbn [andb orb]; guards; try (exfalso; lra); try reflexivity;
    exact_u; field; lra.
Qed.

Lemma acm_base_rate_confidence_weighted op lu la ru ra : cum_like op = true ->
  0 <= lu <= 1 -> 0 <= ru <= 1 -> length la = length ra ->
  ru * (1 - lu) + lu * (1 - ru) <> 0 ->
  compute_base_rateR 0 op false lu la ru ra =
  map2 (fun x y => (x * (ru * (1 - lu)) + y * (lu * (1 - ru))) / (ru * (1 - lu) + lu * (1 - ru))) la ra.
Proof.
  intros Ho Hlu Hru HL Hd. rewrite base_rateR_exact_mix by auto.
  rewrite (base_wR_acm_exact op lu ru Ho Hlu Hru Hd).
  apply map2_ext. intros x y. field; exact Hd.
Qed.

Lemma wgh_base_rate_confidence_weighted lu la ru ra :
  0 <= lu <= 1 -> 0 <= ru <= 1 -> length la = length ra -> ~ (lu = 1 /\ ru = 1) ->
  compute_base_rateR 0 Wgh false lu la ru ra =
  map2 (fun x y => (x * (1 - lu) + y * (1 - ru)) / ((1 - lu) + (1 - ru))) la ra.
Proof.
  intros Hlu Hru HL Hd. rewrite base_rateR_exact_mix by auto.
  rewrite (base_wR_wgh_exact lu ru Hlu Hru Hd).
  assert (0 < (1 - lu) + (1 - ru)) by (apply wgh_base_den_pos; lra).
  apply map2_ext. intros x y. field; lra.
Qed.

Lemma avg_base_rate_mean lu la ru ra :
  0 <= lu <= 1 -> 0 <= ru <= 1 -> length la = length ra ->
  compute_base_rateR 0 Avg false lu la ru ra = map2 (fun x y => (x + y) / 2) la ra.
Proof.
  intros Hlu Hru HL. unfold compute_base_rateR.
  destruct (is_dogR 0 lu && is_dogR 0 ru); [reflexivity|]. apply mean_or_sameR_exact.
Qed.

(* two dogmatic operands (any tolerance), two vacuous operands (exact guards): the mean *)
Lemma two_dogmatic_base_rate_mean eps op lu la ru ra :
  0 <= eps <= 1/8 -> 0 <= lu <= 1 -> 0 <= ru <= 1 -> lu <= eps -> ru <= eps ->
  compute_base_rateR eps op false lu la ru ra = map2 (fun x y => (x + y) / 2) la ra.
Proof.
  intros He Hlu Hru H1 H2. unfold compute_base_rateR.
  assert (E1 : is_dogR eps lu = true) by (apply is_dogR_true; lra).
  assert (E2 : is_dogR eps ru = true) by (apply is_dogR_true; lra).
  rewrite E1, E2. reflexivity.
Qed.

Lemma two_vacuous_base_rate_mean op la ra :
  compute_base_rateR 0 op false 1 la 1 ra = map2 (fun x y => (x + y) / 2) la ra.
Proof.
  unfold compute_base_rateR.
  assert (E1 : is_dogR 0 1 = false) by (apply is_dogR_false; lra).
  assert (E2 : is_vacR 0 1 = true) by (apply is_vacR_true; lra).
  rewrite E1, E2. cbn [andb]. destruct op; apply mean_or_sameR_exact.
Qed.

(* ------------------------------- 8. associativity of ACm; folds in any order *)

(* folding a commutative, associative operation closed on a class [P] over a list of
   members of [P]: any permutation, any grouping *)
Section FoldGeneric.
Context {A : Type}.
Variables (P : A -> Prop) (f : A -> A -> A).
Hypothesis f_closed : forall x y, P x -> P y -> P (f x y).
Hypothesis f_comm : forall x y, P x -> P y -> f x y = f y x.
Hypothesis f_assoc : forall x y z, P x -> P y -> P z -> f (f x y) z = f x (f y z).

Lemma fold_closed ws w0 : P w0 -> Forall P ws -> P (fold_left f ws w0).
Proof.
  revert w0; induction ws as [|w ws IH]; intros w0 H0 Hws; cbn [fold_left]; [exact H0|].
  inversion Hws; subst. apply IH; auto.
Qed.

Lemma fold_perm ws ws' w0 : Permutation ws ws' -> P w0 -> Forall P ws ->
  fold_left f ws' w0 = fold_left f ws w0.
Proof.
  intros Hp. revert w0. induction Hp as [|x l l' Hp IH|x y l|l l' l'' Hp1 IH1 Hp2 IH2];
    intros w0 H0 Hws; cbn [fold_left].
  - reflexivity.
  - inversion Hws; subst. apply IH; auto.
  - inversion Hws as [|? ? Hy Hws']; subst. inversion Hws' as [|? ? Hx Hl]; subst.
    f_equal. rewrite (f_assoc w0 x y), (f_assoc w0 y x) by assumption.
    f_equal. apply f_comm; assumption.
  - rewrite IH2; [apply IH1; assumption|assumption|].
    eapply Permutation_Forall; eassumption.
Qed.

(* grouping: fusing two partial folds is the fold over the concatenated history *)
Lemma fold_group ws1 w1 ws2 w2 : P w1 -> Forall P ws1 -> P w2 -> Forall P ws2 ->
  f (fold_left f ws1 w1) (fold_left f ws2 w2) = fold_left f (ws1 ++ w2 :: ws2) w1.
Proof.
  intros H1 Hws1. revert w2. induction ws2 as [|w ws2 IH]; intros w2 H2 Hws2.
  - rewrite fold_left_app. reflexivity.
  - inversion Hws2; subst. cbn [fold_left]. rewrite IH by auto.
    rewrite !fold_left_app. cbn [fold_left]. f_equal.
    symmetry. apply f_assoc; auto. apply fold_closed; assumption.
Qed.

(* the first operand takes part in the permutation as well *)
Lemma fold_perm_full ws ws' w0 w0' : Permutation (w0 :: ws) (w0' :: ws') -> P w0 -> Forall P ws ->
  fold_left f ws' w0' = fold_left f ws w0.
Proof.
  intros Hp H0 Hws.
  assert (Hall : Forall P (w0' :: ws')).
  { eapply Permutation_Forall; [exact Hp|]. constructor; assumption. }
  assert (H0' : P w0') by (inversion Hall; assumption).
  assert (Hws' : Forall P ws') by (inversion Hall; assumption).
  destruct (Permutation_vs_cons_inv Hp) as (l1 & l2 & E).
  destruct l1 as [|x l1]; cbn [app] in E; injection E as E1 E2; subst w0 ws.
  - apply fold_perm; auto. apply (Permutation_cons_inv Hp).
  - pose proof (Permutation_cons_app_inv (x :: l1) l2 (Permutation_sym Hp)) as Hp'.
    cbn [app] in Hp'.
    assert (Hmid : Forall P (l1 ++ l2)).
    { rewrite Forall_app in *. destruct Hws as (A1 & A2). inversion A2; subst. split; assumption. }
    rewrite (fold_perm (x :: l1 ++ l2) ws' w0' (Permutation_sym Hp') H0') by (constructor; assumption).
    rewrite (fold_perm (w0' :: l1 ++ l2) (l1 ++ w0' :: l2) x (Permutation_middle _ _ _) H0)
      by (constructor; assumption).
    cbn [fold_left]. f_equal. apply f_comm; assumption.
Qed.

End FoldGeneric.

Lemma map2_plus_assoc l1 l2 l3 :
  map2 Rplus (map2 Rplus l1 l2) l3 = map2 Rplus l1 (map2 Rplus l2 l3).
Proof.
  revert l2 l3; induction l1 as [|x l1 IH]; intros [|y l2] [|z l3]; cbn [map2]; try reflexivity.
  rewrite IH. f_equal. ring.
Qed.

(* the class: non-dogmatic well-formed opinions over one base rate [a] (hence one domain) *)
Definition nd_shared (a : list R) (w : list R * R * list R) : Prop :=
  wf_opinion (fst (fst w)) (snd (fst w)) (snd w) /\ 0 < snd (fst w) /\ snd w = a.

(* evidence vector of an opinion *)
Definition evO (W : R) (w : list R * R * list R) : list R := evR W (fst (fst w)) (snd (fst w)).

Section AcmAssoc.
Variable same : bool.
Variable a : list R.
Let f := fuseR 0 ACm same.
Let P := nd_shared a.

Lemma nd_shared_length w w' : P w -> P w' -> length (fst (fst w)) = length (fst (fst w')).
Proof. intros ((_ & _ & E1) & _ & A1) ((_ & _ & E2) & _ & A2). congruence. Qed.

(* ACm of two members: the fused simplex over the shared base rate *)
Lemma acm_shared_shape lb lu rb ru : P (lb, lu, a) -> P (rb, ru, a) ->
  f (lb, lu, a) (rb, ru, a)
  = (fst (compute_simplexR 0 ACm (lb, lu) (rb, ru)), snd (compute_simplexR 0 ACm (lb, lu) (rb, ru)), a).
Proof.
  intros ((Hl & _) & _ & _) ((Hr & _) & _ & _). cbn [fst snd] in Hl, Hr.
  assert (He : 0 <= 0 <= 1/8) by lra.
  pose proof (wf_u01 _ _ Hl) as Hlu. pose proof (wf_u01 _ _ Hr) as Hru.
  unfold f, fuseR. rewrite (base_rateR_shared 0 He lu ru Hlu Hru ACm same a a) by reflexivity.
  reflexivity.
Qed.

Lemma acm_closed w1 w2 : P w1 -> P w2 -> P (f w1 w2).
Proof.
  intros H1 H2. pose proof (nd_shared_length w1 w2 H1 H2) as HL.
  destruct w1 as ((lb & lu) & la), w2 as ((rb & ru) & ra).
  pose proof H1 as (Hw1 & Hu1 & A1). pose proof H2 as (Hw2 & Hu2 & A2).
  cbn [fst snd] in *. subst la ra.
  rewrite (acm_shared_shape lb lu rb ru H1 H2).
  pose proof Hw1 as (Hs1 & Hd & HLa). pose proof Hw2 as (Hs2 & _ & _).
  split; [|split]; cbn [fst snd].
  - split; [apply compute_simplexR_wf; auto; lra|]. split; [exact Hd|].
    rewrite compute_simplexR_length; auto.
  - rewrite (simplexR_acm_exact lb rb lu ru Hs1 Hs2 HL Hu1 Hu2 ACm eq_refl). cbn [snd acm_genR].
    pose proof (wf_u01 _ _ Hs1). pose proof (wf_u01 _ _ Hs2).
    assert (0 < lu + ru - lu * ru) by (apply acm_den_pos; lra).
    apply Rmult_lt_0_compat; [apply Rmult_lt_0_compat; lra|apply Rinv_0_lt_compat; lra].
  - reflexivity.
Qed.

Lemma acm_comm w1 w2 : P w1 -> P w2 -> f w1 w2 = f w2 w1.
Proof.
  intros H1 H2. pose proof (nd_shared_length w1 w2 H1 H2) as HL.
  destruct w1 as ((lb & lu) & la), w2 as ((rb & ru) & ra).
  pose proof H1 as (Hw1 & _ & A1). pose proof H2 as (Hw2 & _ & A2).
  cbn [fst snd] in *. subst la ra.
  apply fuseR_comm_shared; auto; lra.
Qed.

(* evidence is additive, for any prior weight *)
Lemma acm_evidence_sum W w1 w2 : 0 < W -> P w1 -> P w2 ->
  evO W (f w1 w2) = map2 Rplus (evO W w1) (evO W w2).
Proof.
  intros HW H1 H2. pose proof (nd_shared_length w1 w2 H1 H2) as HL.
  destruct w1 as ((lb & lu) & la), w2 as ((rb & ru) & ra).
  pose proof H1 as ((Hs1 & _) & Hu1 & A1). pose proof H2 as ((Hs2 & _) & Hu2 & A2).
  cbn [fst snd] in *. subst la ra.
  rewrite (acm_shared_shape lb lu rb ru H1 H2). unfold evO; cbn [fst snd].
  apply acm_evidence_additive; auto.
Qed.

(* a member is the back-map of its evidence *)
Lemma nd_shared_back W w : 0 < W -> P w -> w = (fst (opR W (evO W w)), snd (opR W (evO W w)), a).
Proof.
  intros HW ((Hs & _) & Hu & A1). destruct w as ((b & u) & a'). cbn [fst snd] in *. subst a'.
  unfold evO; cbn [fst snd]. rewrite (opR_evR W b u HW Hs Hu). reflexivity.
Qed.

Lemma acm_assoc w1 w2 w3 : P w1 -> P w2 -> P w3 -> f (f w1 w2) w3 = f w1 (f w2 w3).
Proof.
  intros H1 H2 H3.
  assert (HW : 0 < 1) by lra.
  pose proof (acm_closed w1 w2 H1 H2) as H12. pose proof (acm_closed w2 w3 H2 H3) as H23.
  rewrite (nd_shared_back 1 _ HW (acm_closed _ _ H12 H3)).
  rewrite (nd_shared_back 1 (f w1 (f w2 w3)) HW (acm_closed _ _ H1 H23)).
  rewrite !acm_evidence_sum by assumption. rewrite map2_plus_assoc. reflexivity.
Qed.

(* histories *)
Lemma acm_fold_closed ws w0 : P w0 -> Forall P ws -> P (fold_left f ws w0).
Proof. apply fold_closed. exact acm_closed. Qed.

Lemma acm_fold_perm ws ws' w0 : Permutation ws ws' -> P w0 -> Forall P ws ->
  fold_left f ws' w0 = fold_left f ws w0.
Proof. apply (fold_perm P f acm_closed acm_comm acm_assoc). Qed.

Lemma acm_fold_perm_full ws ws' w0 w0' : Permutation (w0 :: ws) (w0' :: ws') -> P w0 -> Forall P ws ->
  fold_left f ws' w0' = fold_left f ws w0.
Proof. apply (fold_perm_full P f acm_closed acm_comm acm_assoc). Qed.

Lemma acm_fold_group ws1 w1 ws2 w2 : P w1 -> Forall P ws1 -> P w2 -> Forall P ws2 ->
  f (fold_left f ws1 w1) (fold_left f ws2 w2) = fold_left f (ws1 ++ w2 :: ws2) w1.
Proof. apply (fold_group P f acm_closed acm_assoc). Qed.

(* the fold is the back-map of the total evidence *)
Lemma acm_fold_evidence W ws w0 : 0 < W -> P w0 -> Forall P ws ->
  fold_left f ws w0 =
  (fst (opR W (fold_left (map2 Rplus) (map (evO W) ws) (evO W w0))),
   snd (opR W (fold_left (map2 Rplus) (map (evO W) ws) (evO W w0))), a).
Proof.
  intros HW. revert w0. induction ws as [|w ws IH]; intros w0 H0 Hws; cbn [fold_left map].
  - apply nd_shared_back; assumption.
  - inversion Hws; subst. rewrite IH by (auto; apply acm_closed; auto).
    rewrite acm_evidence_sum by assumption. reflexivity.
Qed.

End AcmAssoc.

(* ---- the same for the model itself *)
Definition injO (w : list R * R * list R) : opinion (B:=FldR) :=
  (map Some (fst (fst w)), Some (snd (fst w)), map Some (snd w)).

Lemma fuse_injO eps op same w1 w2 : 0 <= eps <= 1/8 ->
  wf_opinion (fst (fst w1)) (snd (fst w1)) (snd w1) ->
  wf_opinion (fst (fst w2)) (snd (fst w2)) (snd w2) ->
  length (fst (fst w1)) = length (fst (fst w2)) ->
  fuse (B:=FldR) eps op same (injO w1) (injO w2) = injO (fuseR eps op same w1 w2).
Proof.
  intros He H1 H2 HL. destruct w1 as ((lb & lu) & la), w2 as ((rb & ru) & ra). cbn [fst snd] in *.
  exact (fuse_defined eps He lb rb la ra lu ru H1 H2 HL op same).
Qed.

Lemma acm_fold_model same a ws w0 : nd_shared a w0 -> Forall (nd_shared a) ws ->
  fold_left (fuse (B:=FldR) 0 ACm same) (map injO ws) (injO w0)
  = injO (fold_left (fuseR 0 ACm same) ws w0).
Proof.
  revert w0. induction ws as [|w ws IH]; intros w0 H0 Hws; cbn [fold_left map]; [reflexivity|].
  inversion Hws as [|? ? Hw Hws']; subst.
  rewrite fuse_injO; try lra; try apply H0; try apply Hw; [|apply (nd_shared_length a w0 w H0 Hw)].
  apply IH; [apply acm_closed; assumption|assumption].
Qed.

Lemma acm_fold_perm_model same a ws ws' w0 :
  Permutation ws ws' -> nd_shared a w0 -> Forall (nd_shared a) ws ->
  fold_left (fuse (B:=FldR) 0 ACm same) (map injO ws') (injO w0)
  = fold_left (fuse (B:=FldR) 0 ACm same) (map injO ws) (injO w0).
Proof.
  intros Hp H0 Hws.
  rewrite (acm_fold_model same a ws w0 H0 Hws).
  rewrite (acm_fold_model same a ws' w0 H0) by (eapply Permutation_Forall; eassumption).
  f_equal. apply (acm_fold_perm same a ws ws' w0 Hp H0 Hws).
Qed.

Lemma acm_assoc_model same a w1 w2 w3 : nd_shared a w1 -> nd_shared a w2 -> nd_shared a w3 ->
  fuse (B:=FldR) 0 ACm same (fuse (B:=FldR) 0 ACm same (injO w1) (injO w2)) (injO w3)
  = fuse (B:=FldR) 0 ACm same (injO w1) (fuse (B:=FldR) 0 ACm same (injO w2) (injO w3)).
Proof.
  intros H1 H2 H3. assert (He : 0 <= 0 <= 1/8) by lra.
  pose proof (acm_closed same a w1 w2 H1 H2) as H12.
  pose proof (acm_closed same a w2 w3 H2 H3) as H23.
  rewrite (fuse_injO 0 ACm same w1 w2 He) by (try apply H1; try apply H2; apply (nd_shared_length a); auto).
  rewrite (fuse_injO 0 ACm same w2 w3 He) by (try apply H2; try apply H3; apply (nd_shared_length a); auto).
  rewrite (fuse_injO 0 ACm same _ w3 He) by (try apply H12; try apply H3; apply (nd_shared_length a); auto).
  rewrite (fuse_injO 0 ACm same w1 _ He) by (try apply H1; try apply H23; apply (nd_shared_length a); auto).
  f_equal. apply (acm_assoc same a); assumption.
Qed.

Lemma acm_fold_perm_full_model same a ws ws' w0 w0' :
  Permutation (w0 :: ws) (w0' :: ws') -> nd_shared a w0 -> Forall (nd_shared a) ws ->
  fold_left (fuse (B:=FldR) 0 ACm same) (map injO ws') (injO w0')
  = fold_left (fuse (B:=FldR) 0 ACm same) (map injO ws) (injO w0).
Proof.
  intros Hp H0 Hws.
  assert (Hall : Forall (nd_shared a) (w0' :: ws')).
  { eapply Permutation_Forall; [exact Hp|]. constructor; assumption. }
  inversion Hall as [|? ? H0' Hws']; subst.
  rewrite (acm_fold_model same a ws w0 H0 Hws), (acm_fold_model same a ws' w0' H0' Hws').
  f_equal. apply (acm_fold_perm_full same a ws ws' w0 w0' Hp H0 Hws).
Qed.

Lemma acm_fold_group_model same a ws1 w1 ws2 w2 :
  nd_shared a w1 -> Forall (nd_shared a) ws1 -> nd_shared a w2 -> Forall (nd_shared a) ws2 ->
  fuse (B:=FldR) 0 ACm same
       (fold_left (fuse (B:=FldR) 0 ACm same) (map injO ws1) (injO w1))
       (fold_left (fuse (B:=FldR) 0 ACm same) (map injO ws2) (injO w2))
  = fold_left (fuse (B:=FldR) 0 ACm same) (map injO (ws1 ++ w2 :: ws2)) (injO w1).
Proof.
  intros H1 Hws1 H2 Hws2. assert (He : 0 <= 0 <= 1/8) by lra.
  pose proof (acm_fold_closed same a ws1 w1 H1 Hws1) as C1.
  pose proof (acm_fold_closed same a ws2 w2 H2 Hws2) as C2.
  rewrite (acm_fold_model same a ws1 w1 H1 Hws1), (acm_fold_model same a ws2 w2 H2 Hws2).
  rewrite (acm_fold_model same a (ws1 ++ w2 :: ws2) w1 H1)
    by (apply Forall_app; split; [assumption|constructor; assumption]).
  rewrite (fuse_injO 0 ACm same _ _ He) by (try apply C1; try apply C2; apply (nd_shared_length a); auto).
  f_equal. apply (acm_fold_group same a); assumption.
Qed.

(* the fold in the model is the back-map of the total evidence *)
Lemma acm_fold_evidence_model same a W ws w0 : 0 < W -> nd_shared a w0 -> Forall (nd_shared a) ws ->
  fold_left (fuse (B:=FldR) 0 ACm same) (map injO ws) (injO w0)
  = injO (fst (opR W (fold_left (map2 Rplus) (map (evO W) ws) (evO W w0))),
          snd (opR W (fold_left (map2 Rplus) (map (evO W) ws) (evO W w0))), a).
Proof.
  intros HW H0 Hws. rewrite (acm_fold_model same a ws w0 H0 Hws).
  f_equal. apply acm_fold_evidence; assumption.
Qed.

(* ---------------------------------------------- 9. model-level restatements *)
Section ModelLevel.
Variable eps : R.
Hypothesis eps_range : 0 <= eps <= 1/8.
Variables (lb rb la ra : list R) (lu ru : R).
Hypothesis Hl : wf_opinion lb lu la.
Hypothesis Hr : wf_opinion rb ru ra.
Hypothesis HL : length lb = length rb.

Let Hsl : wf_simplex lb lu. Proof. apply Hl. Qed.
Let Hsr : wf_simplex rb ru. Proof. apply Hr. Qed.
Let Hlu : 0 <= lu <= 1. Proof. apply (wf_u01 lb); exact Hsl. Qed.
Let Hru : 0 <= ru <= 1. Proof. apply (wf_u01 rb); exact Hsr. Qed.

Lemma fuse_vacuous_right op same : op = ACm \/ op = Wgh -> lu < 1 - 2 * eps -> 1 - 2 * eps <= ru ->
  fuse (B:=FldR) eps op same (map Some lb, Some lu, map Some la) (map Some rb, Some ru, map Some ra)
  = (map Some lb, Some lu, map Some la).
Proof.
  intros Ho H1 H2.
  etransitivity; [exact (fuse_defined eps eps_range lb rb la ra lu ru Hl Hr HL op same)|].
  unfold fused_b, fused_u, fused_a. rewrite fuseR_vacuous_right by auto. reflexivity.
Qed.

Lemma fuse_vacuous_left op : op = ACm \/ op = Wgh -> 1 - 2 * eps <= lu -> ru < 1 - 2 * eps ->
  fuse (B:=FldR) eps op false (map Some lb, Some lu, map Some la) (map Some rb, Some ru, map Some ra)
  = (map Some rb, Some ru, map Some ra).
Proof.
  intros Ho H1 H2.
  etransitivity; [exact (fuse_defined eps eps_range lb rb la ra lu ru Hl Hr HL op false)|].
  unfold fused_b, fused_u, fused_a. rewrite fuseR_vacuous_left by auto. reflexivity.
Qed.

(* uncertainty bounds on the fused opinion *)
Lemma acm_u_le_min same :
  fused_u eps ACm same (lb, lu, la) (rb, ru, ra) <= Rmin lu ru + 2 * eps /\
  (lu < 1 - 2 * eps \/ ru < 1 - 2 * eps -> fused_u eps ACm same (lb, lu, la) (rb, ru, ra) <= Rmin lu ru).
Proof.
  split; [|intros Hn]; unfold fused_u, fuseR; cbn [fst snd].
  - apply acm_u_le_min_eps; auto.
  - apply acm_u_le_min_novac; auto.
Qed.

Lemma avg_wgh_u_between op same : op = Avg \/ op = Wgh ->
  Rmin lu ru - eps <= fused_u eps op same (lb, lu, la) (rb, ru, ra) <= Rmax lu ru + 2 * eps.
Proof.
  intros Ho.
  assert (E : fused_u eps op same (lb, lu, la) (rb, ru, ra)
              = snd (compute_simplexR eps op (lb, lu) (rb, ru))).
  { apply fused_simplex_fst. destruct Ho as [-> | ->]; discriminate. }
  rewrite E. apply avg_wgh_u_between_eps; auto.
Qed.

End ModelLevel.

Lemma fuse_idem eps op same b u a : 0 <= eps <= 1/8 -> wf_opinion b u a ->
  op = Avg \/ op = Wgh -> (u = 0 \/ eps < u) -> (op = Wgh -> u = 1 \/ u < 1 - 2 * eps) ->
  fuse (B:=FldR) eps op same (map Some b, Some u, map Some a) (map Some b, Some u, map Some a)
  = (map Some b, Some u, map Some a).
Proof.
  intros He H Ho Hd Hv.
  etransitivity; [exact (fuse_defined eps He b b a a u u H H eq_refl op same)|].
  unfold fused_b, fused_u, fused_a. rewrite (fuseR_idem eps op same b u a He H Ho Hd Hv). reflexivity.
Qed.

Lemma fuse_idem_exact op same b u a : wf_opinion b u a -> op = Avg \/ op = Wgh ->
  fuse (B:=FldR) 0 op same (map Some b, Some u, map Some a) (map Some b, Some u, map Some a)
  = (map Some b, Some u, map Some a).
Proof.
  intros H Ho. pose proof H as (Hwf & _). pose proof (wf_u01 b u Hwf) as Hu.
  apply fuse_idem; auto; try lra; try (intros _; lra).
Qed.

Lemma acm_u_le_min_exact' same lb lu la rb ru ra :
  wf_opinion lb lu la -> wf_opinion rb ru ra -> length lb = length rb ->
  fused_u 0 ACm same (lb, lu, la) (rb, ru, ra) <= Rmin lu ru.
Proof.
  intros Hl Hr HL. assert (He : 0 <= 0 <= 1/8) by lra.
  destruct (acm_u_le_min 0 He lb rb la ra lu ru Hl Hr same) as (H & _). lra.
Qed.

Lemma avg_wgh_u_between_exact' op same lb lu la rb ru ra :
  wf_opinion lb lu la -> wf_opinion rb ru ra -> length lb = length rb -> op = Avg \/ op = Wgh ->
  Rmin lu ru <= fused_u 0 op same (lb, lu, la) (rb, ru, ra) <= Rmax lu ru.
Proof.
  intros Hl Hr HL Ho. assert (He : 0 <= 0 <= 1/8) by lra.
  pose proof (avg_wgh_u_between 0 He lb rb la ra lu ru Hl Hr op same Ho). lra.
Qed.

(* for a positive tolerance the two orders can return different base rates: the [aeq]
   shortcut keeps the left entry *)
Lemma fuse_comm_base_rate_asymmetric :
  let eps := 1/8 in
  let l := ([1/4; 1/4], 1/2, [1/2; 1/2]) in
  let r := ([1/2; 0], 1/2, [9/16; 7/16]) in
  fused_a eps Avg false l r = [1/2; 1/2] /\ fused_a eps Avg false r l = [9/16; 7/16].
Proof.
  intros eps l r. subst eps l r. rewrite !fused_a_eq. unfold compute_base_rateR, mean_or_sameR.
  assert (Ed : is_dogR (1/8) (1/2) = false) by (apply is_dogR_false; lra).
  assert (E1 : aeqR (1/8) (1/2) (9/16) = true) by (apply aeqR_true; lra).
  assert (E2 : aeqR (1/8) (1/2) (7/16) = true) by (apply aeqR_true; lra).
  assert (E3 : aeqR (1/8) (9/16) (1/2) = true) by (apply aeqR_true; lra).
  assert (E4 : aeqR (1/8) (7/16) (1/2) = true) by (apply aeqR_true; lra).
  rewrite Ed. cbn [andb map2]. rewrite E1, E2, E3, E4. split; reflexivity.
Qed.

(* evidence readings stated on the model function *)
Section EvidenceModel.
Variables (lb rb : list R) (lu ru : R).
Hypothesis Hl : wf_simplex lb lu.
Hypothesis Hr : wf_simplex rb ru.
Hypothesis HL : length lb = length rb.
Hypothesis Hlu : 0 < lu.
Hypothesis Hru : 0 < ru.
Variable W : R.
Hypothesis HW : 0 < W.

Let He : 0 <= 0 <= 1/8. Proof. lra. Qed.

Lemma compute_simplex_acm_evidence op : cum_like op = true ->
  compute_simplex (B:=FldR) 0 op (map Some lb, Some lu) (map Some rb, Some ru)
  = (map Some (fst (opR W (map2 Rplus (evR W lb lu) (evR W rb ru)))),
     Some (snd (opR W (map2 Rplus (evR W lb lu) (evR W rb ru))))).
Proof.
  intros Ho. rewrite (compute_simplex_eval 0 He lb rb lu ru Hl Hr HL op).
  rewrite (acm_is_evidence_sum lb rb lu ru Hl Hr HL Hlu Hru W HW op Ho). reflexivity.
Qed.

Lemma compute_simplex_avg_evidence :
  compute_simplex (B:=FldR) 0 Avg (map Some lb, Some lu) (map Some rb, Some ru)
  = (map Some (fst (opR W (map (fun z => z / 2) (map2 Rplus (evR W lb lu) (evR W rb ru))))),
     Some (snd (opR W (map (fun z => z / 2) (map2 Rplus (evR W lb lu) (evR W rb ru)))))).
Proof.
  rewrite (compute_simplex_eval 0 He lb rb lu ru Hl Hr HL Avg).
  rewrite (avg_is_evidence_mean lb rb lu ru Hl Hr HL Hlu Hru W HW). reflexivity.
Qed.

Lemma compute_simplex_wgh_evidence : ~ (lu = 1 /\ ru = 1) ->
  compute_simplex (B:=FldR) 0 Wgh (map Some lb, Some lu) (map Some rb, Some ru)
  = (map Some (fst (opR W (map2 (fun r1 r2 => ((1 - lu) * r1 + (1 - ru) * r2) / ((1 - lu) + (1 - ru)))
                                (evR W lb lu) (evR W rb ru)))),
     Some (snd (opR W (map2 (fun r1 r2 => ((1 - lu) * r1 + (1 - ru) * r2) / ((1 - lu) + (1 - ru)))
                            (evR W lb lu) (evR W rb ru))))).
Proof.
  intros Hnv. rewrite (compute_simplex_eval 0 He lb rb lu ru Hl Hr HL Wgh).
  rewrite (wgh_is_confidence_weighted_mean lb rb lu ru Hl Hr HL Hlu Hru W HW Hnv). reflexivity.
Qed.

End EvidenceModel.

(* concrete operands meeting the hypotheses of this file *)
Lemma laws_example :
  wf_opinion [1/2; 1/4; 0] (1/4) [1/2; 1/4; 1/4] /\
  wf_opinion [0; 1/8; 1/8] (3/4) [1/2; 1/4; 1/4] /\
  wf_opinion [0; 0; 0] 1 [1/2; 1/4; 1/4] /\
  nd_shared [1/2; 1/4; 1/4] ([1/2; 1/4; 0], 1/4, [1/2; 1/4; 1/4]) /\
  nd_shared [1/2; 1/4; 1/4] ([0; 1/8; 1/8], 3/4, [1/2; 1/4; 1/4]) /\
  evR 2 [1/2; 1/4; 0] (1/4) = [4; 2; 0] /\
  compute_simplexR 0 ACm ([1/2; 1/4; 0], 1/4) ([0; 1/8; 1/8], 3/4) = ([6/13; 7/26; 1/26], 3/13).
Proof.
  assert (W1 : wf_opinion [1/2; 1/4; 0] (1/4) [1/2; 1/4; 1/4]).
  { unfold wf_opinion, wf_simplex, wf_dist, nonneg; cbn [Rsum length].
    repeat split; try (repeat constructor; lra); lra. }
  assert (W2 : wf_opinion [0; 1/8; 1/8] (3/4) [1/2; 1/4; 1/4]).
  { unfold wf_opinion, wf_simplex, wf_dist, nonneg; cbn [Rsum length].
    repeat split; try (repeat constructor; lra); lra. }
  split; [exact W1|]. split; [exact W2|]. split.
  { unfold wf_opinion, wf_simplex, wf_dist, nonneg; cbn [Rsum length].
    repeat split; try (repeat constructor; lra); lra. }
  split; [split; [exact W1|split; [cbn; lra|reflexivity]]|].
  split; [split; [exact W2|split; [cbn; lra|reflexivity]]|].
  split.
  - unfold evR; cbn [map]. list_eq.
  - unfold compute_simplexR.
    assert (E1 : is_dogR 0 (1/4) = false) by (apply is_dogR_false; lra).
    assert (E2 : is_dogR 0 (3/4) = false) by (apply is_dogR_false; lra).
    assert (E3 : is_vacR 0 (1/4) = false) by (apply is_vacR_false; lra).
    assert (E4 : is_vacR 0 (3/4) = false) by (apply is_vacR_false; lra).
    rewrite E1, E2, E3, E4. cbn [andb orb]. unfold acm_genR; cbn [map2].
    apply f_equal2; [list_eq|lra].
Qed.
