(* C11 - merge_cond2: merging two conditional tables X1 -> Y, X2 -> Y into one table
   X1 x X2 -> Y.  The model composes mbr (Facts/Deduce.v), inverse (Facts/Inverse.v) and
   product2 (Facts/Product.v); this file shows that every stage is defined on the output of the
   previous one and derives the properties of the composition. *)
From Coq Require Import Reals List Bool Lra Lia Arith.
Import ListNotations.
From SL Require Import Model.Num Model.Vec Model.Mul Model.InstR Facts.RBase.
From SL Require Facts.Proj Facts.Deduce Facts.Product.
From SL Require Import Facts.Inverse.
Open Scope R_scope.

Local Notation mbr_S := Deduce.mbr_S.
Local Notation mbrR := Deduce.mbrR.
Local Notation outerR := Product.outerR.
Local Notation product2R := Product.product2R.
Local Notation transposeR := Product.transposeR.

(* ------------------------------------------------------------ small list facts *)
Lemma mg_pos_dist_wf a : pos_dist a -> wf_dist a.
Proof.
  intros (Hp & Hs). split; [|exact Hs]. unfold nonneg. eapply Forall_impl; [|exact Hp].
  cbn beta. intros; lra.
Qed.

Lemma mg_pos_dist_ne a : pos_dist a -> a <> [].
Proof. intros (_ & Hs) ->. cbn in Hs. lra. Qed.

Lemma mg_forallb_some {X} (l : list X) :
  forallb (fun o : option X => match o with Some _ => true | None => false end) (map Some l) = true.
Proof. induction l; cbn; auto. Qed.

Lemma mg_flat_some {X} (l : list X) :
  flat_map (fun o : option X => match o with Some s => [s] | None => [] end) (map Some l) = l.
Proof. induction l; cbn; congruence. Qed.

Lemma mg_nth_map {X Y} (f : X -> Y) l i dx dy : (i < length l)%nat ->
  nth i (map f l) dy = f (nth i l dx).
Proof. intros H. rewrite (nth_indep _ dy (f dx)) by (rewrite map_length; exact H). apply map_nth. Qed.

(* ------------------------------------------ stage: marginal base rate with fallback *)
(* mbr(..).unwrap_or(fb) on real operands *)
Definition fbR (eps : R) (ny : nat) (ax : list R) (cs : list (list R * R)) (fb : list R) : list R :=
  if forallb (fun c : list R * R => is_one (B:=FldR) eps (Some (snd c))) cs then fb
  else if Reqb (mbr_S ax cs) 0 then fb
  else mbrR ny ax cs.

Lemma fbR_eval eps ny ax cs fb : wf_conds cs ny ->
  match mbr (B:=FldR) eps ny (map Some ax) (map embS cs) with Some m => m | None => map Some fb end
  = map Some (fbR eps ny ax cs fb).
Proof.
  intros H. pose proof (Deduce.mbr_eval eps ny ax cs H) as E.
  set (m := mbr _ _ _ _). change (mbr (B:=FldR) eps ny (map Some ax) (map Deduce.condV cs)) with m in E.
  rewrite E. unfold fbR.
  destruct (forallb _ cs); [reflexivity|]. destruct (Reqb _ 0); reflexivity.
Qed.

Lemma fbR_wf eps ny ax cs fb : wf_dist ax -> wf_conds cs ny -> wf_dist fb -> length fb = ny ->
  wf_dist (fbR eps ny ax cs fb) /\ length (fbR eps ny ax cs fb) = ny.
Proof.
  intros Hax H Hfb Hl. unfold fbR. destruct (forallb _ cs); [auto|].
  destruct (Reqb_spec (mbr_S ax cs) 0) as [E|E]; [auto|].
  split; [apply Deduce.mbrR_wf; assumption|apply Deduce.mbrR_length].
Qed.

(* which branch: the fallback is used exactly when mbr is undefined *)
Lemma fbR_cases eps ny ax cs fb :
  (fbR eps ny ax cs fb = mbrR ny ax cs /\ mbr_S ax cs <> 0 /\
   forallb (fun c : list R * R => is_one (B:=FldR) eps (Some (snd c))) cs = false) \/
  (fbR eps ny ax cs fb = fb /\
   (forallb (fun c : list R * R => is_one (B:=FldR) eps (Some (snd c))) cs = true \/ mbr_S ax cs = 0)).
Proof.
  unfold fbR. destruct (forallb _ cs); [right; auto|].
  destruct (Reqb_spec (mbr_S ax cs) 0) as [E|E]; [right; auto|left; auto].
Qed.

(* ------------------------------------------ stage: per-y product of the inverted opinions *)
Definition prodS (ax1 ax2 : list R) (s1 s2 : list R * R) : list R * R :=
  fst (product2R (fst s1) (snd s1) ax1 (fst s2) (snd s2) ax2).
Definition prodT (ax1 ax2 : list R) (i1 i2 : list (list R * R)) : list (list R * R) :=
  map2 (prodS ax1 ax2) i1 i2.

(* the closure applied to each y in merge_cond2 *)
Definition prod_step (eps : R) (lab : bool) (ax1 ax2 : list RV) (s1 s2 : simplex (B:=FldR))
  : option (simplex (B:=FldR)) :=
  if lab then
    let '(b, u, _) := product2_lab (B:=FldR) (bel s1, unc s1, ax1) (bel s2, unc s2, ax2) in Some (b, u)
  else
    match product2 (B:=FldR) eps (bel s1, unc s1, ax1) (bel s2, unc s2, ax2) with
    | Some (b, u, _) => Some (b, u)
    | None => None
    end.

Lemma merge_cond2_unfold eps lab (y_x1 y_x2 : list (simplex (B:=FldR))) ax1 ax2 ay :
  merge_cond2 (B:=FldR) eps lab y_x1 y_x2 ax1 ax2 ay =
  let ny := length ay in
  let ay1 := match mbr eps ny ax1 y_x1 with Some m => m | None => ay end in
  let ay2 := match mbr eps ny ax2 y_x2 with Some m => m | None => ay end in
  let prods := map2 (prod_step eps lab ax1 ax2) (inverse eps y_x1 ax1 ay1) (inverse eps y_x2 ax2 ay2) in
  if forallb (fun o => match o with Some _ => true | None => false end) prods then
    let x12_y := flat_map (fun o => match o with Some s => [s] | None => [] end) prods in
    let n12 := (length ax1 * length ax2)%nat in
    let ax12 := match mbr eps n12 ay x12_y with Some m => m | None => outer ax1 ax2 end in
    Some (inverse eps x12_y ay ax12)
  else None.
Proof. reflexivity. Qed.

Lemma prod_step_eval eps lab ax1 ax2 s1 s2 : 0 <= eps <= 1/8 ->
  wf_opinion (fst s1) (snd s1) ax1 -> wf_opinion (fst s2) (snd s2) ax2 ->
  prod_step eps lab (map Some ax1) (map Some ax2) (embS s1) (embS s2)
  = Some (embS (prodS ax1 ax2 s1 s2)).
Proof.
  intros He W1 W2. unfold prod_step, embS, prodS. cbn [bel unc fst snd].
  destruct lab.
  - pose proof (Product.product2_lab_eval _ _ _ _ _ _ W1 W2) as E. unfold Product.opR in E.
    match goal with |- context [product2_lab ?a ?b] => set (p := product2_lab a b) end.
    change (p = (map Some (fst (prodS ax1 ax2 s1 s2)), Some (snd (prodS ax1 ax2 s1 s2)), map Some (outerR ax1 ax2))) in E.
    rewrite E. reflexivity.
  - pose proof (Product.product2_eval _ _ _ _ _ _ W1 W2 eps He) as E. unfold Product.opR in E.
    match goal with |- context [product2 (B:=FldR) ?e ?a ?b] => set (p := product2 (B:=FldR) e a b) end.
    change (p = Some (map Some (fst (prodS ax1 ax2 s1 s2)), Some (snd (prodS ax1 ax2 s1 s2)), map Some (outerR ax1 ax2))) in E.
    rewrite E. reflexivity.
Qed.

Lemma prodS_wf ax1 ax2 s1 s2 :
  wf_opinion (fst s1) (snd s1) ax1 -> wf_opinion (fst s2) (snd s2) ax2 ->
  wf_simplex (fst (prodS ax1 ax2 s1 s2)) (snd (prodS ax1 ax2 s1 s2)) /\
  length (fst (prodS ax1 ax2 s1 s2)) = (length ax1 * length ax2)%nat.
Proof.
  intros W1 W2. pose proof (Product.two_wf_opinion _ _ _ _ _ _ W1 W2) as (Hwf & Ha & Hl).
  cbv zeta in Hwf, Ha, Hl. unfold prodS, product2R. cbn [fst snd]. split; [exact Hwf|].
  rewrite <- Hl. apply Product.outerR_length.
Qed.

Definition wf_rows (n : nat) (a : list R) (t : list (list R * R)) : Prop :=
  Forall (fun s => wf_opinion (fst s) (snd s) a) t.

Lemma wf_rows_of a t : wf_dist a ->
  Forall (fun s => wf_simplex (fst s) (snd s) /\ length (fst s) = length a) t -> wf_rows (length a) a t.
Proof.
  intros Ha H. unfold wf_rows. eapply Forall_impl; [|exact H]. cbn beta. intros s (Hs & Hl).
  split; [exact Hs|]. split; [exact Ha|]. symmetry. exact Hl.
Qed.

Lemma prods_eval eps lab ax1 ax2 i1 : forall i2, 0 <= eps <= 1/8 ->
  wf_rows (length ax1) ax1 i1 -> wf_rows (length ax2) ax2 i2 ->
  map2 (prod_step eps lab (map Some ax1) (map Some ax2)) (map embS i1) (map embS i2)
  = map Some (map embS (prodT ax1 ax2 i1 i2)).
Proof.
  induction i1 as [|s1 i1 IH]; intros [|s2 i2] He H1 H2; cbn [map map2 prodT]; try reflexivity.
  inversion H1; inversion H2; subst. rewrite prod_step_eval by assumption.
  f_equal. apply IH; assumption.
Qed.

Lemma prodT_wf ax1 ax2 i1 : forall i2,
  wf_rows (length ax1) ax1 i1 -> wf_rows (length ax2) ax2 i2 ->
  wf_conds (prodT ax1 ax2 i1 i2) (length ax1 * length ax2).
Proof.
  induction i1 as [|s1 i1 IH]; intros [|s2 i2] H1 H2; cbn [map2 prodT]; try constructor.
  - inversion H1; inversion H2; subst. apply prodS_wf; assumption.
  - inversion H1; inversion H2; subst. apply IH; assumption.
Qed.

Lemma prodT_length ax1 ax2 i1 i2 : length (prodT ax1 ax2 i1 i2) = Nat.min (length i1) (length i2).
Proof. apply map2_length. Qed.

(* ------------------------------------------------------- the stages of the merge *)
(* base rate of Y used for inverting a parent table *)
Definition m_ay eps (ax : list R) (c : list (list R * R)) (ay : list R) : list R :=
  fbR eps (length ay) ax c ay.
(* inverted parent table Y -> X_i *)
Definition m_inv eps (ax : list R) (c : list (list R * R)) (ay : list R) : list (list R * R) :=
  inverseR eps c ax (m_ay eps ax c ay).
(* product table Y -> X1 x X2 *)
Definition m_prod eps c1 c2 ax1 ax2 ay : list (list R * R) :=
  prodT ax1 ax2 (m_inv eps ax1 c1 ay) (m_inv eps ax2 c2 ay).
(* base rate of the joint variable *)
Definition m_a12 eps c1 c2 ax1 ax2 ay : list R :=
  fbR eps (length ax1 * length ax2) ay (m_prod eps c1 c2 ax1 ax2 ay) (outerR ax1 ax2).
(* merged table X1 x X2 -> Y *)
Definition mergeR eps c1 c2 ax1 ax2 ay : list (list R * R) :=
  inverseR eps (m_prod eps c1 c2 ax1 ax2 ay) ay (m_a12 eps c1 c2 ax1 ax2 ay).

(* guard-slack side conditions: the three base rates on which [inverse] divides are clear of the
   guard band (each entry exactly 0 or > eps); void at eps = 0 *)
Definition merge_guards eps c1 c2 ax1 ax2 ay : Prop :=
  guard_clear eps (m_ay eps ax1 c1 ay) /\ guard_clear eps (m_ay eps ax2 c2 ay) /\
  guard_clear eps (m_a12 eps c1 c2 ax1 ax2 ay).

Section Stages.
Variable eps : R.
Hypothesis He : 0 <= eps <= 1/8.
Variables (c1 c2 : list (list R * R)) (ax1 ax2 ay : list R).
Hypothesis Hc1 : wf_conds c1 (length ay).
Hypothesis Hc2 : wf_conds c2 (length ay).
Hypothesis Hax1 : pos_dist ax1.
Hypothesis Hax2 : pos_dist ax2.
Hypothesis Hay : pos_dist ay.
Hypothesis Hl1 : length ax1 = length c1.
Hypothesis Hl2 : length ax2 = length c2.

Let ny := length ay.
Let n12 := (length ax1 * length ax2)%nat.

Lemma m_ay_wf ax c : pos_dist ax -> wf_conds c ny ->
  wf_dist (m_ay eps ax c ay) /\ length (m_ay eps ax c ay) = ny.
Proof.
  intros Hax Hc. apply fbR_wf; [apply mg_pos_dist_wf; exact Hax|exact Hc|apply mg_pos_dist_wf; exact Hay|reflexivity].
Qed.

(* stage 1+2: the inverted parent tables *)
Lemma m_inv_eval ax c : pos_dist ax -> wf_conds c ny -> length ax = length c ->
  inverse (B:=FldR) eps (map embS c) (map Some ax)
          (match mbr (B:=FldR) eps ny (map Some ax) (map embS c) with Some m => m | None => map Some ay end)
  = map embS (m_inv eps ax c ay) /\
  length (m_inv eps ax c ay) = ny.
Proof.
  intros Hax Hc Hl. destruct (m_ay_wf ax c Hax Hc) as (Hw & Hlen).
  pose proof (fbR_eval eps ny ax c ay Hc) as Ef.
  match goal with |- inverse _ _ _ ?m = _ /\ _ =>
    replace m with (map Some (m_ay eps ax c ay)) by (symmetry; exact Ef) end.
  rewrite <- Hlen in Hc.
  destruct (inverse_defined_sum eps He c ax (m_ay eps ax c ay) Hc Hax Hl Hw) as (E & L & _).
  split; [exact E|]. unfold m_inv. rewrite L. exact Hlen.
Qed.

Lemma m_inv_wf ax c : pos_dist ax -> wf_conds c ny -> length ax = length c ->
  guard_clear eps (m_ay eps ax c ay) ->
  wf_rows (length ax) ax (m_inv eps ax c ay).
Proof.
  intros Hax Hc Hl Hg. destruct (m_ay_wf ax c Hax Hc) as (Hw & Hlen).
  rewrite <- Hlen in Hc.
  destruct (inverse_defined_wf_main eps He c ax (m_ay eps ax c ay) Hc Hax Hl Hw Hg) as (_ & _ & W).
  apply wf_rows_of; [apply mg_pos_dist_wf; exact Hax|exact W].
Qed.

Hypothesis Hg1 : guard_clear eps (m_ay eps ax1 c1 ay).
Hypothesis Hg2 : guard_clear eps (m_ay eps ax2 c2 ay).

(* stage 3: the product table is a table of well-formed conditionals Y -> X1 x X2 *)
Lemma m_prod_wf : wf_conds (m_prod eps c1 c2 ax1 ax2 ay) n12 /\ length (m_prod eps c1 c2 ax1 ax2 ay) = ny.
Proof.
  split.
  - apply prodT_wf; apply m_inv_wf; assumption.
  - unfold m_prod. rewrite prodT_length.
    rewrite (proj2 (m_inv_eval ax1 c1 Hax1 Hc1 Hl1)), (proj2 (m_inv_eval ax2 c2 Hax2 Hc2 Hl2)).
    apply Nat.min_id.
Qed.

(* stage 4: base rate of the joint variable *)
Lemma m_a12_wf : wf_dist (m_a12 eps c1 c2 ax1 ax2 ay) /\ length (m_a12 eps c1 c2 ax1 ax2 ay) = n12.
Proof.
  apply fbR_wf.
  - apply mg_pos_dist_wf; exact Hay.
  - apply m_prod_wf.
  - apply Product.outerR_wf_dist; apply mg_pos_dist_wf; assumption.
  - apply Product.outerR_length.
Qed.

(* the model computes [mergeR], for the labelled and the unlabelled product alike *)
Lemma merge_eval lab :
  merge_cond2 (B:=FldR) eps lab (map embS c1) (map embS c2) (map Some ax1) (map Some ax2) (map Some ay)
  = Some (map embS (mergeR eps c1 c2 ax1 ax2 ay)).
Proof.
  rewrite merge_cond2_unfold. cbv zeta. rewrite !map_length. fold ny.
  rewrite (proj1 (m_inv_eval ax1 c1 Hax1 Hc1 Hl1)), (proj1 (m_inv_eval ax2 c2 Hax2 Hc2 Hl2)).
  rewrite (prods_eval eps lab ax1 ax2 _ _ He (m_inv_wf ax1 c1 Hax1 Hc1 Hl1 Hg1) (m_inv_wf ax2 c2 Hax2 Hc2 Hl2 Hg2)).
  fold (m_prod eps c1 c2 ax1 ax2 ay).
  rewrite mg_forallb_some, mg_flat_some.
  destruct m_prod_wf as (Hp & Hlp). destruct m_a12_wf as (Ha & Hla).
  pose proof (fbR_eval eps n12 ay (m_prod eps c1 c2 ax1 ax2 ay) (outerR ax1 ax2) Hp) as E.
  rewrite <- Product.outer_some in E. fold (m_a12 eps c1 c2 ax1 ax2 ay) in E.
  f_equal.
  match goal with |- inverse _ _ _ ?m = _ =>
    replace m with (map Some (m_a12 eps c1 c2 ax1 ax2 ay)) by (symmetry; exact E) end.
  rewrite <- Hla in Hp.
  destruct (inverse_defined_sum eps He (m_prod eps c1 c2 ax1 ax2 ay) ay (m_a12 eps c1 c2 ax1 ax2 ay)
              Hp Hay (eq_sym Hlp) Ha) as (E2 & _). exact E2.
Qed.

Hypothesis Hg12 : guard_clear eps (m_a12 eps c1 c2 ax1 ax2 ay).

Lemma merge_wf :
  length (mergeR eps c1 c2 ax1 ax2 ay) = n12 /\
  Forall (fun s => wf_simplex (fst s) (snd s) /\ length (fst s) = length ay) (mergeR eps c1 c2 ax1 ax2 ay).
Proof.
  destruct m_prod_wf as (Hp & Hlp). destruct m_a12_wf as (Ha & Hla).
  rewrite <- Hla in Hp.
  destruct (inverse_defined_wf_main eps He (m_prod eps c1 c2 ax1 ax2 ay) ay (m_a12 eps c1 c2 ax1 ax2 ay)
              Hp Hay (eq_sym Hlp) Ha Hg12) as (_ & L & W).
  split; [unfold mergeR; rewrite L; exact Hla|exact W].
Qed.

End Stages.

(* ------------------------------------------------------- packaged: definedness *)
Lemma merge_defined_wf_lemma eps lab c1 c2 ax1 ax2 ay :
  0 <= eps <= 1/8 ->
  wf_conds c1 (length ay) -> wf_conds c2 (length ay) ->
  pos_dist ax1 -> pos_dist ax2 -> pos_dist ay ->
  length ax1 = length c1 -> length ax2 = length c2 ->
  merge_guards eps c1 c2 ax1 ax2 ay ->
  merge_cond2 (B:=FldR) eps lab (map embS c1) (map embS c2) (map Some ax1) (map Some ax2) (map Some ay)
    = Some (map embS (mergeR eps c1 c2 ax1 ax2 ay)) /\
  length (mergeR eps c1 c2 ax1 ax2 ay) = (length ax1 * length ax2)%nat /\
  Forall (fun s => wf_simplex (fst s) (snd s) /\ length (fst s) = length ay) (mergeR eps c1 c2 ax1 ax2 ay).
Proof.
  intros He Hc1 Hc2 H1 H2 Hy Hl1 Hl2 (G1 & G2 & G12). split.
  - apply merge_eval; assumption.
  - apply merge_wf; assumption.
Qed.

Lemma merge_guards_exact c1 c2 ax1 ax2 ay :
  wf_conds c1 (length ay) -> wf_conds c2 (length ay) ->
  pos_dist ax1 -> pos_dist ax2 -> pos_dist ay ->
  length ax1 = length c1 -> length ax2 = length c2 ->
  merge_guards 0 c1 c2 ax1 ax2 ay.
Proof.
  intros Hc1 Hc2 H1 H2 Hy Hl1 Hl2. assert (He : 0 <= 0 <= 1/8) by lra.
  assert (G1 : guard_clear 0 (m_ay 0 ax1 c1 ay)).
  { apply guard_clear_0. apply (m_ay_wf 0 ay Hy ax1 c1 H1 Hc1). }
  assert (G2 : guard_clear 0 (m_ay 0 ax2 c2 ay)).
  { apply guard_clear_0. apply (m_ay_wf 0 ay Hy ax2 c2 H2 Hc2). }
  split; [exact G1|]. split; [exact G2|].
  apply guard_clear_0. apply (m_a12_wf 0 He c1 c2 ax1 ax2 ay); assumption.
Qed.

Lemma merge_defined_wf_exact lab c1 c2 ax1 ax2 ay :
  wf_conds c1 (length ay) -> wf_conds c2 (length ay) ->
  pos_dist ax1 -> pos_dist ax2 -> pos_dist ay ->
  length ax1 = length c1 -> length ax2 = length c2 ->
  merge_cond2 (B:=FldR) 0 lab (map embS c1) (map embS c2) (map Some ax1) (map Some ax2) (map Some ay)
    = Some (map embS (mergeR 0 c1 c2 ax1 ax2 ay)) /\
  length (mergeR 0 c1 c2 ax1 ax2 ay) = (length ax1 * length ax2)%nat /\
  Forall (fun s => wf_simplex (fst s) (snd s) /\ length (fst s) = length ay) (mergeR 0 c1 c2 ax1 ax2 ay).
Proof.
  intros. apply merge_defined_wf_lemma; try assumption; [lra|]. apply merge_guards_exact; assumption.
Qed.

(* labelled = unlabelled (only the first two guard conditions are needed) *)
Lemma merge_lab_eq_lemma eps c1 c2 ax1 ax2 ay :
  0 <= eps <= 1/8 ->
  wf_conds c1 (length ay) -> wf_conds c2 (length ay) ->
  pos_dist ax1 -> pos_dist ax2 -> pos_dist ay ->
  length ax1 = length c1 -> length ax2 = length c2 ->
  guard_clear eps (m_ay eps ax1 c1 ay) -> guard_clear eps (m_ay eps ax2 c2 ay) ->
  merge_cond2 (B:=FldR) eps true (map embS c1) (map embS c2) (map Some ax1) (map Some ax2) (map Some ay)
  = merge_cond2 (B:=FldR) eps false (map embS c1) (map embS c2) (map Some ax1) (map Some ax2) (map Some ay).
Proof.
  intros He Hc1 Hc2 H1 H2 Hy Hl1 Hl2 G1 G2.
  rewrite !(merge_eval eps He c1 c2 ax1 ax2 ay) by assumption. reflexivity.
Qed.

(* ------------------------------------------------------- impossible joint values *)
Section Cells.
Variable eps : R.
Hypothesis He : 0 <= eps <= 1/8.
Variables (c1 c2 : list (list R * R)) (ax1 ax2 ay : list R).
Hypothesis Hc1 : wf_conds c1 (length ay).
Hypothesis Hc2 : wf_conds c2 (length ay).
Hypothesis Hax1 : pos_dist ax1.
Hypothesis Hax2 : pos_dist ax2.
Hypothesis Hay : pos_dist ay.
Hypothesis Hl1 : length ax1 = length c1.
Hypothesis Hl2 : length ax2 = length c2.
Hypothesis Hg1 : guard_clear eps (m_ay eps ax1 c1 ay).
Hypothesis Hg2 : guard_clear eps (m_ay eps ax2 c2 ay).

Let ny := length ay.
Let n1 := length ax1.
Let n2 := length ax2.
Let pt := m_prod eps c1 c2 ax1 ax2 ay.
Let a12 := m_a12 eps c1 c2 ax1 ax2 ay.

(* belief mass of the joint value k in the product opinion for y *)
Definition m_b12 (y k : nat) : R := nth k (fst (nth y pt ([], 0))) 0.
Definition m_u12 (y : nat) : R := snd (nth y pt ([], 0)).

Lemma mg_pt_wf : Deduce.wf_conds (n1 * n2) pt /\ length pt = ny.
Proof. exact (m_prod_wf eps He c1 c2 ax1 ax2 ay Hc1 Hc2 Hax1 Hax2 Hay Hl1 Hl2 Hg1 Hg2). Qed.

Lemma mg_a12_wf : wf_dist a12 /\ length a12 = (n1 * n2)%nat.
Proof. exact (m_a12_wf eps He c1 c2 ax1 ax2 ay Hc1 Hc2 Hax1 Hax2 Hay Hl1 Hl2 Hg1 Hg2). Qed.

Lemma mg_pos_nth a i : pos_dist a -> (i < length a)%nat -> 0 < nth i a 0.
Proof. intros (Hp & _) Hi. apply (Product.nth_Forall0 (fun x => 0 < x)); assumption. Qed.

Lemma mg_col_nth y k : (y < ny)%nat ->
  nth y (Deduce.colR (map fst pt) k) 0 = m_b12 y k.
Proof.
  intros Hy. destruct mg_pt_wf as (_ & Hlp). unfold Deduce.colR. rewrite map_map.
  rewrite (mg_nth_map _ _ _ ([], 0)) by lia. reflexivity.
Qed.

Lemma mg_raw_zero k :
  Deduce.mbr_raw ay pt k = 0 <-> forall y, (y < ny)%nat -> m_b12 y k = 0.
Proof.
  destruct mg_pt_wf as (Hp & Hlp). unfold Deduce.mbr_raw.
  rewrite Deduce.ded_dot_zero_iff.
  - split; intros A y Hy.
    + destruct (A y Hy) as [E|E].
      * pose proof (mg_pos_nth ay y Hay Hy). lra.
      * rewrite mg_col_nth in E by exact Hy. exact E.
    + right. rewrite mg_col_nth by exact Hy. apply A. exact Hy.
  - apply (mg_pos_dist_wf ay Hay).
  - apply (Deduce.ded_nonneg_col pt (n1 * n2)). exact Hp.
  - unfold Deduce.colR. rewrite !map_length. lia.
Qed.

(* zero marginal base rate of the joint value k  <->  the joint marginal base rate is the
   computed one (not the fallback) and no product opinion gives k any belief mass *)
Lemma m_a12_zero_iff k : (k < n1 * n2)%nat ->
  nth k a12 0 = 0 <->
  (a12 = mbrR (n1 * n2) ay pt /\ mbr_S ay pt <> 0 /\ forall y, (y < ny)%nat -> m_b12 y k = 0).
Proof.
  intros Hk. unfold a12 at 1 2, m_a12. fold pt. fold n1 n2.
  destruct (fbR_cases eps (n1 * n2) ay pt (outerR ax1 ax2)) as [(E & HS & _)|(E & _)]; rewrite E.
  - unfold mbrR at 1. rewrite Deduce.ded_nth_tab by exact Hk. split.
    + intros Z. split; [reflexivity|]. split; [exact HS|]. apply mg_raw_zero.
      apply (Rmult_eq_reg_r (/ mbr_S ay pt)); [|apply Rinv_neq_0_compat; exact HS].
      unfold Rdiv in Z. lra.
    + intros (_ & _ & A). apply mg_raw_zero in A. rewrite A. unfold Rdiv. ring.
  - destruct (Product.cell_decompose n1 n2 k Hk) as (i & j & Hi & Hj & ->).
    assert (Ho : nth (i * n2 + j) (outerR ax1 ax2) 0 = nth i ax1 0 * nth j ax2 0)
      by (apply Product.nth_outerR; assumption).
    pose proof (mg_pos_nth ax1 i Hax1 Hi). pose proof (mg_pos_nth ax2 j Hax2 Hj).
    split; [intros Z; rewrite Ho in Z; nra|].
    intros (Eo & HS & A). exfalso.
    (* the fallback (positive everywhere) cannot coincide with mbrR, which has a zero at k *)
    assert (Zk : nth (i * n2 + j) (mbrR (n1 * n2) ay pt) 0 = 0).
    { unfold mbrR. rewrite Deduce.ded_nth_tab by exact Hk. apply mg_raw_zero in A. rewrite A.
      unfold Rdiv. ring. }
    rewrite <- Eo, Ho in Zk. nra.
Qed.

(* C11, last clause: a joint value with zero marginal base rate gets the vacuous conditional *)
Lemma merge_zero_base_rate_vacuous k : (k < n1 * n2)%nat -> nth k a12 0 = 0 ->
  nth k (mergeR eps c1 c2 ax1 ax2 ay) ([], 0) = (map (fun _ => 0) ay, 1).
Proof.
  intros Hk Z. destruct mg_pt_wf as (Hp & Hlp). destruct mg_a12_wf as (Ha & Hla).
  pose proof (proj1 (m_a12_zero_iff k Hk) Z) as (_ & _ & A).
  assert (Hp' : wf_conds pt (length a12)) by (rewrite Hla; exact Hp).
  destruct (inverse_zero_column_main eps He pt ay a12 Hay (eq_sym Hlp) k) as (Eb & Eu).
  - lia.
  - intros y Hy. rewrite lik_entry by (try assumption; lia).
    fold (m_b12 y k). rewrite (A y) by lia. rewrite Z. ring.
  - unfold inv_b, inv_u in Eb, Eu. unfold mergeR. fold pt a12.
    destruct (nth k (inverseR eps pt ay a12) ([], 0)) as (b, u). cbn [fst snd] in Eb, Eu.
    rewrite Eb, Eu. reflexivity.
Qed.

(* projected probability P(x|y) of the inverted parent tables *)
Definition m_P (ax : list R) (c : list (list R * R)) (x y : nat) : R :=
  nth x (fst (nth y (m_inv eps ax c ay) ([], 0))) 0 + nth x ax 0 * snd (nth y (m_inv eps ax c ay) ([], 0)).

Lemma mg_inv_row ax c y : pos_dist ax -> wf_conds c ny -> length ax = length c ->
  guard_clear eps (m_ay eps ax c ay) -> (y < ny)%nat ->
  wf_opinion (fst (nth y (m_inv eps ax c ay) ([], 0))) (snd (nth y (m_inv eps ax c ay) ([], 0))) ax.
Proof.
  intros Hax Hc Hl Hg Hy.
  pose proof (m_inv_wf eps He ay Hay ax c Hax Hc Hl Hg) as W.
  pose proof (proj2 (m_inv_eval eps He ay Hay ax c Hax Hc Hl)) as L.
  unfold wf_rows in W. rewrite Forall_forall in W. apply W. apply nth_In. lia.
Qed.

(* the product cell: b12_y(x1,x2) + ax1_x1 ax2_x2 u12_y = P(x1|y) P(x2|y) *)
Lemma mg_prod_cell y x1 x2 : (y < ny)%nat -> (x1 < n1)%nat -> (x2 < n2)%nat ->
  m_b12 y (x1 * n2 + x2) + nth x1 ax1 0 * nth x2 ax2 0 * m_u12 y = m_P ax1 c1 x1 y * m_P ax2 c2 x2 y /\
  0 <= m_b12 y (x1 * n2 + x2) /\ 0 <= m_u12 y.
Proof.
  intros Hy H1 H2.
  pose proof (mg_inv_row ax1 c1 y Hax1 Hc1 Hl1 Hg1 Hy) as W1.
  pose proof (mg_inv_row ax2 c2 y Hax2 Hc2 Hl2 Hg2 Hy) as W2.
  pose proof (proj2 (m_inv_eval eps He ay Hay ax1 c1 Hax1 Hc1 Hl1)) as L1.
  pose proof (proj2 (m_inv_eval eps He ay Hay ax2 c2 Hax2 Hc2 Hl2)) as L2.
  set (s1 := nth y (m_inv eps ax1 c1 ay) ([], 0)) in *.
  set (s2 := nth y (m_inv eps ax2 c2 ay) ([], 0)) in *.
  assert (Er : nth y pt ([], 0) = prodS ax1 ax2 s1 s2).
  { unfold pt, m_prod, prodT. apply iv_nth_map2; lia. }
  unfold m_b12, m_u12. rewrite Er.
  assert (Lb1 : length (fst s1) = n1) by (destruct W1 as (_ & _ & E); symmetry; exact E).
  assert (Lb2 : length (fst s2) = n2) by (destruct W2 as (_ & _ & E); symmetry; exact E).
  pose proof (Product.two_cell_b _ _ _ _ _ _ W1 W2 x1 x2) as Cb. cbv zeta in Cb.
  rewrite Lb1, Lb2 in Cb. specialize (Cb H1 H2).
  pose proof (Product.two_wf _ _ _ _ _ _ W1 W2) as (Hnn & Hu & _). cbv zeta in Hnn, Hu.
  unfold prodS, product2R. cbn [fst snd]. split; [|split].
  - rewrite Cb. unfold m_P. fold s1 s2.
    change Product.projR with Deduce.projR. rewrite (Deduce.ded_projR_nth (fst s1)) by exact Lb1.
    rewrite (Deduce.ded_projR_nth (fst s2)) by exact Lb2. ring.
  - apply Deduce.ded_nonneg_nth. exact Hnn.
  - exact Hu.
Qed.

(* sufficient condition: P(x1|y) P(x2|y) = 0 for every y *)
Lemma m_a12_zero_of_projections x1 x2 : (x1 < n1)%nat -> (x2 < n2)%nat ->
  (forall y, (y < ny)%nat -> m_P ax1 c1 x1 y * m_P ax2 c2 x2 y = 0) ->
  nth (x1 * n2 + x2) a12 0 = 0.
Proof.
  intros H1 H2 A. destruct mg_pt_wf as (Hp & Hlp).
  assert (Hk : (x1 * n2 + x2 < n1 * n2)%nat) by (apply Product.cell_in_range; assumption).
  pose proof (mg_pos_nth ax1 x1 Hax1 H1) as P1. pose proof (mg_pos_nth ax2 x2 Hax2 H2) as P2.
  assert (Z : forall y, (y < ny)%nat -> m_b12 y (x1 * n2 + x2) = 0 /\ m_u12 y = 0).
  { intros y Hy. destruct (mg_prod_cell y x1 x2 Hy H1 H2) as (E & Hb & Hu). rewrite (A y Hy) in E.
    assert (0 <= nth x1 ax1 0 * nth x2 ax2 0 * m_u12 y) by (apply Rmult_le_pos; [nra|exact Hu]).
    split; [lra|]. assert (Z0 : nth x1 ax1 0 * nth x2 ax2 0 * m_u12 y = 0) by lra.
    assert (P12 : 0 < nth x1 ax1 0 * nth x2 ax2 0) by (apply Rmult_lt_0_compat; assumption).
    destruct (Rmult_integral _ _ Z0) as [Z1|Z1]; [lra|exact Z1]. }
  assert (Hny : (0 < ny)%nat).
  { pose proof (mg_pos_dist_ne ay Hay) as Hne. unfold ny.
    destruct (length ay) eqn:El; [apply length_zero_iff_nil in El; contradiction|lia]. }
  (* every product opinion is dogmatic: the joint marginal base rate is defined *)
  assert (HS : mbr_S ay pt = 1).
  { pose proof (Deduce.ded_dot_unc (n1 * n2) ay pt Hp ltac:(lia)) as D.
    assert (D0 : Deduce.dot ay (map snd pt) = 0).
    { apply Deduce.ded_dot_zero_iff.
      - apply (mg_pos_dist_wf ay Hay).
      - apply (Deduce.ded_nonneg_uncs (n1 * n2)). exact Hp.
      - rewrite map_length. lia.
      - intros y Hy. right. rewrite (mg_nth_map _ _ _ ([], 0)) by lia. apply (Z y). exact Hy. }
    destruct Hay as (_ & Hs). lra. }
  assert (HV : forallb (fun c : list R * R => is_one (B:=FldR) eps (Some (snd c))) pt = false).
  { destruct pt as [|c r] eqn:Ept; [cbn in Hlp; lia|]. cbn [forallb].
    destruct (Z 0%nat Hny) as (_ & U0). unfold m_u12 in U0. fold pt in Ept. rewrite Ept in U0.
    cbn [nth] in U0. rewrite U0.
    destruct (is_one _ _) eqn:E1; [|reflexivity]. apply is_one_some in E1. lra. }
  apply m_a12_zero_iff; [exact Hk|].
  unfold a12, m_a12. fold pt n1 n2. unfold fbR. rewrite HV.
  destruct (Reqb_spec (mbr_S ay pt) 0) as [E|E]; [lra|].
  split; [reflexivity|]. split; [exact E|]. intros y Hy. apply (Z y Hy).
Qed.

Lemma merge_impossible_cell_vacuous_lemma x1 x2 : (x1 < n1)%nat -> (x2 < n2)%nat ->
  (forall y, (y < ny)%nat -> m_P ax1 c1 x1 y * m_P ax2 c2 x2 y = 0) ->
  nth (x1 * n2 + x2) (mergeR eps c1 c2 ax1 ax2 ay) ([], 0) = (map (fun _ => 0) ay, 1).
Proof.
  intros H1 H2 A. apply merge_zero_base_rate_vacuous.
  - apply Product.cell_in_range; assumption.
  - apply m_a12_zero_of_projections; assumption.
Qed.

End Cells.

(* ------------------------------------------------------- the merge is the composition *)
(* unwrap_or on the model side *)
Definition unwrap_or {X} (o : option X) (d : X) : X := match o with Some m => m | None => d end.

(* Every stage of merge_cond2, as the model operator applied to the previous stage's output,
   is defined and equals the corresponding real table; the merged table is the inversion of the
   product table under the marginal base rate of the joint variable. *)
Lemma merge_is_composition_lemma eps lab c1 c2 ax1 ax2 ay :
  0 <= eps <= 1/8 ->
  wf_conds c1 (length ay) -> wf_conds c2 (length ay) ->
  pos_dist ax1 -> pos_dist ax2 -> pos_dist ay ->
  length ax1 = length c1 -> length ax2 = length c2 ->
  guard_clear eps (m_ay eps ax1 c1 ay) -> guard_clear eps (m_ay eps ax2 c2 ay) ->
  let ny := length ay in
  let n12 := (length ax1 * length ax2)%nat in
  let ay1 := m_ay eps ax1 c1 ay in
  let ay2 := m_ay eps ax2 c2 ay in
  let i1 := inverseR eps c1 ax1 ay1 in
  let i2 := inverseR eps c2 ax2 ay2 in
  let pt := map2 (prodS ax1 ax2) i1 i2 in
  let a12 := fbR eps n12 ay pt (outerR ax1 ax2) in
  (* base rates of Y for the two inversions: marginal base rate, or ay when it is undefined *)
  unwrap_or (mbr (B:=FldR) eps ny (map Some ax1) (map embS c1)) (map Some ay) = map Some ay1 /\
  unwrap_or (mbr (B:=FldR) eps ny (map Some ax2) (map embS c2)) (map Some ay) = map Some ay2 /\
  wf_dist ay1 /\ length ay1 = ny /\ wf_dist ay2 /\ length ay2 = ny /\
  (* the two inverted tables Y -> X1, Y -> X2 *)
  inverse (B:=FldR) eps (map embS c1) (map Some ax1) (map Some ay1) = map embS i1 /\
  inverse (B:=FldR) eps (map embS c2) (map Some ax2) (map Some ay2) = map embS i2 /\
  length i1 = ny /\ length i2 = ny /\
  Forall (fun s => wf_opinion (fst s) (snd s) ax1) i1 /\
  Forall (fun s => wf_opinion (fst s) (snd s) ax2) i2 /\
  (* the product of the two inverted opinions for each y *)
  (forall y, (y < ny)%nat ->
     let s1 := nth y i1 ([], 0) in let s2 := nth y i2 ([], 0) in let p := nth y pt ([], 0) in
     product2 (B:=FldR) eps (map Some (fst s1), Some (snd s1), map Some ax1)
                            (map Some (fst s2), Some (snd s2), map Some ax2)
       = Some (map Some (fst p), Some (snd p), map Some (outerR ax1 ax2)) /\
     product2R (fst s1) (snd s1) ax1 (fst s2) (snd s2) ax2 = (fst p, snd p, outerR ax1 ax2)) /\
  (* ... is a table of well-formed conditionals Y -> X1 x X2 *)
  wf_conds pt n12 /\ length pt = ny /\
  (* base rate of the joint variable: its marginal base rate under ay, or the outer product *)
  unwrap_or (mbr (B:=FldR) eps n12 (map Some ay) (map embS pt))
            (outer (B:=FldR) (map Some ax1) (map Some ax2)) = map Some a12 /\
  wf_dist a12 /\ length a12 = n12 /\
  (* inversion back *)
  inverse (B:=FldR) eps (map embS pt) (map Some ay) (map Some a12) = map embS (inverseR eps pt ay a12) /\
  mergeR eps c1 c2 ax1 ax2 ay = inverseR eps pt ay a12 /\
  merge_cond2 (B:=FldR) eps lab (map embS c1) (map embS c2) (map Some ax1) (map Some ax2) (map Some ay)
    = Some (inverse (B:=FldR) eps (map embS pt) (map Some ay) (map Some a12)).
Proof.
  intros He Hc1 Hc2 H1 H2 Hy Hl1 Hl2 G1 G2. cbv zeta.
  destruct (m_ay_wf eps ay Hy ax1 c1 H1 Hc1) as (Wy1 & Ly1).
  destruct (m_ay_wf eps ay Hy ax2 c2 H2 Hc2) as (Wy2 & Ly2).
  pose proof (m_inv_wf eps He ay Hy ax1 c1 H1 Hc1 Hl1 G1) as Wi1.
  pose proof (m_inv_wf eps He ay Hy ax2 c2 H2 Hc2 Hl2 G2) as Wi2.
  destruct (m_inv_eval eps He ay Hy ax1 c1 H1 Hc1 Hl1) as (_ & Li1).
  destruct (m_inv_eval eps He ay Hy ax2 c2 H2 Hc2 Hl2) as (_ & Li2).
  destruct (m_prod_wf eps He c1 c2 ax1 ax2 ay Hc1 Hc2 H1 H2 Hy Hl1 Hl2 G1 G2) as (Wp & Lp).
  destruct (m_a12_wf eps He c1 c2 ax1 ax2 ay Hc1 Hc2 H1 H2 Hy Hl1 Hl2 G1 G2) as (Wa & La).
  assert (Hc1' : wf_conds c1 (length (m_ay eps ax1 c1 ay))) by (rewrite Ly1; exact Hc1).
  assert (Hc2' : wf_conds c2 (length (m_ay eps ax2 c2 ay))) by (rewrite Ly2; exact Hc2).
  assert (Wp' : wf_conds (m_prod eps c1 c2 ax1 ax2 ay) (length (m_a12 eps c1 c2 ax1 ax2 ay)))
    by (rewrite La; exact Wp).
  pose proof (proj1 (inverse_defined_sum eps He _ _ _ Wp' Hy (eq_sym Lp) Wa)) as Einv.
  split; [exact (fbR_eval eps (length ay) ax1 c1 ay Hc1)|].
  split; [exact (fbR_eval eps (length ay) ax2 c2 ay Hc2)|].
  split; [exact Wy1|]. split; [exact Ly1|]. split; [exact Wy2|]. split; [exact Ly2|].
  split; [exact (proj1 (inverse_defined_sum eps He c1 ax1 _ Hc1' H1 Hl1 Wy1))|].
  split; [exact (proj1 (inverse_defined_sum eps He c2 ax2 _ Hc2' H2 Hl2 Wy2))|].
  split; [exact Li1|]. split; [exact Li2|]. split; [exact Wi1|]. split; [exact Wi2|].
  split.
  { intros y Hyy.
    set (s1 := nth y (inverseR eps c1 ax1 (m_ay eps ax1 c1 ay)) ([], 0)).
    set (s2 := nth y (inverseR eps c2 ax2 (m_ay eps ax2 c2 ay)) ([], 0)).
    assert (W1 : wf_opinion (fst s1) (snd s1) ax1).
    { unfold wf_rows in Wi1. rewrite Forall_forall in Wi1. apply Wi1. apply nth_In.
      unfold m_inv in *. lia. }
    assert (W2 : wf_opinion (fst s2) (snd s2) ax2).
    { unfold wf_rows in Wi2. rewrite Forall_forall in Wi2. apply Wi2. apply nth_In.
      unfold m_inv in *. lia. }
    assert (Er : nth y (map2 (prodS ax1 ax2) (inverseR eps c1 ax1 (m_ay eps ax1 c1 ay))
                                            (inverseR eps c2 ax2 (m_ay eps ax2 c2 ay))) ([], 0)
                 = prodS ax1 ax2 s1 s2).
    { apply iv_nth_map2; unfold m_inv in Li1, Li2; lia. }
    rewrite Er.
    pose proof (Product.product2_eval _ _ _ _ _ _ W1 W2 eps He) as E. unfold Product.opR in E.
    split; [exact E|]. unfold prodS, product2R. reflexivity. }
  split; [exact Wp|]. split; [exact Lp|].
  split.
  { rewrite Product.outer_some. exact (fbR_eval eps _ ay _ (outerR ax1 ax2) Wp). }
  split; [exact Wa|]. split; [exact La|].
  split; [exact Einv|]. split; [reflexivity|].
  rewrite (merge_eval eps He c1 c2 ax1 ax2 ay Hc1 Hc2 H1 H2 Hy Hl1 Hl2 G1 G2 lab).
  f_equal. symmetry. exact Einv.
Qed.

(* =================================================== reindexing the consequent domain *)
(* [inverse] and [mbr] are equivariant under a reindexing of the values of the consequent
   variable: if every belief vector b_x and the base rate of the consequent are reindexed by
   k |-> sigma k (a bijection of {0..n-1}), then the inverted table has its rows reindexed the same
   way, and the marginal base rate is reindexed. *)
Lemma RminL_set_eq l l' : (forall x, In x l <-> In x l') -> RminL l = RminL l'.
Proof.
  intros H. destruct l as [|a l].
  - destruct l' as [|b l']; [reflexivity|]. exfalso. apply (proj2 (H b)). left; reflexivity.
  - assert (N : a :: l <> []) by discriminate.
    assert (N' : l' <> []). { intros ->. apply (proj1 (H a)). left; reflexivity. }
    apply Rle_antisym.
    + apply RminL_le. apply H. apply RminL_in. exact N'.
    + apply RminL_le. apply H. apply RminL_in. exact N.
Qed.

Lemma mg_combine_map {X Y Z} (f : X -> Y) (g : X -> Z) l :
  combine (map f l) (map g l) = map (fun x => (f x, g x)) l.
Proof. induction l; cbn; congruence. Qed.

Lemma mg_nth_map_seq {X} (f : nat -> X) n k d : (k < n)%nat -> nth k (map f (seq 0 n)) d = f k.
Proof.
  intros H. rewrite (nth_indep _ d (f 0%nat)) by (rewrite map_length, seq_length; exact H).
  rewrite map_nth, seq_nth by exact H. reflexivity.
Qed.

Section Reidx.
Variables (n : nat) (sg : nat -> nat).
Hypothesis Hsg : forall k, (k < n)%nat -> (sg k < n)%nat.
Hypothesis Hsurj : forall k, (k < n)%nat -> exists k', (k' < n)%nat /\ sg k' = k.

Definition reidx (l : list R) : list R := map (fun k => nth (sg k) l 0) (seq 0 n).
Definition reidxS (s : list R * R) : list R * R := (reidx (fst s), snd s).
Definition reidxT (t : list (list R * R)) : list (list R * R) :=
  map (fun k => nth (sg k) t ([], 0)) (seq 0 n).

Lemma reidx_length l : length (reidx l) = n.
Proof. unfold reidx. rewrite map_length, seq_length. reflexivity. Qed.

Lemma reidx_nth l k : (k < n)%nat -> nth k (reidx l) 0 = nth (sg k) l 0.
Proof. intros H. unfold reidx. apply (mg_nth_map_seq (fun k0 => nth (sg k0) l 0)). exact H. Qed.

Lemma reidxT_nth t k : (k < n)%nat -> nth k (reidxT t) ([], 0) = nth (sg k) t ([], 0).
Proof. intros H. unfold reidxT. apply (mg_nth_map_seq (fun k0 => nth (sg k0) t ([], 0))). exact H. Qed.

Lemma reidx_In l x : length l = n -> (In x (reidx l) <-> In x l).
Proof.
  intros HL. unfold reidx. rewrite in_map_iff. split.
  - intros (k & <- & Hk). apply in_seq in Hk. apply nth_In. rewrite HL. apply Hsg. lia.
  - intros H. destruct (In_nth l x 0 H) as (k & Hk & E). rewrite HL in Hk.
    destruct (Hsurj k Hk) as (k' & Hk' & Es). exists k'. split; [rewrite Es; exact E|].
    apply in_seq. lia.
Qed.

Lemma reidx_combine_In p a pa : length p = n -> length a = n ->
  (In pa (combine (reidx p) (reidx a)) <-> In pa (combine p a)).
Proof.
  intros Hp Ha. unfold reidx. rewrite mg_combine_map, in_map_iff. destruct pa as (x, y). split.
  - intros (k & E & Hk). apply in_seq in Hk. injection E as <- <-.
    apply Proj.In_combine_nth; [lia|]. rewrite Ha. apply Hsg. lia.
  - intros H. destruct (Proj.In_combine_ex p a x y H) as (k & Hk & E1 & E2). rewrite Ha in Hk.
    destruct (Hsurj k Hk) as (k' & Hk' & Es). exists k'. split; [rewrite Es, E1, E2; reflexivity|].
    apply in_seq. lia.
Qed.

Lemma mR_reidx eps p a : length p = n -> length a = n ->
  mR eps (reidx p) (reidx a) = mR eps p a.
Proof.
  intros Hp Ha. unfold mR. apply RminL_set_eq. intros x. cbn [In]. rewrite !in_map_iff.
  split; (intros [E|(pa & E & H)]; [left; exact E|right; exists pa; split; [exact E|]]);
    apply (reidx_combine_In p a pa Hp Ha); exact H.
Qed.

Lemma ratios_reidx p a : length p = n -> length a = n ->
  RminL (ratiosR (reidx p) (reidx a)) = RminL (ratiosR p a).
Proof.
  intros Hp Ha. apply RminL_set_eq. intros x. unfold ratiosR. rewrite !in_map_iff.
  split; intros (pa & E & H); exists pa; (split; [exact E|]); apply filter_In in H; apply filter_In;
    destruct H as (H & F); (split; [|exact F]); apply (reidx_combine_In p a pa Hp Ha); exact H.
Qed.

Lemma projR_reidx b u a : length b = n -> length a = n ->
  projR (reidx b) u (reidx a) = reidx (projR b u a).
Proof.
  intros Hb Ha. unfold projR at 1, reidx at 1 2. rewrite Product.map2_map.
  unfold reidx. apply map_ext_in. intros k Hk. apply in_seq in Hk.
  change projR with Deduce.projR. rewrite Deduce.ded_projR_nth by lia. reflexivity.
Qed.

Definition rows_len (cs : list (list R * R)) : Prop := Forall (fun c => length (fst c) = n) cs.

Lemma likR_reidx cs a : rows_len cs -> length a = n ->
  likR (map reidxS cs) (reidx a) = map reidx (likR cs a).
Proof.
  intros Hcs Ha. unfold likR. rewrite !map_map. apply map_ext_in. intros c Hc.
  unfold rows_len in Hcs. rewrite Forall_forall in Hcs. cbn [reidxS fst snd].
  apply projR_reidx; [apply Hcs; exact Hc|exact Ha].
Qed.

Lemma colR_reidx (P : list (list R)) y : (y < n)%nat -> colR (map reidx P) y = colR P (sg y).
Proof.
  intros Hy. unfold colR. rewrite map_map. apply map_ext. intros p. apply reidx_nth. exact Hy.
Qed.

Section InvReidx.
Variable eps : R.
Variables (P : list (list R)) (ms ax a : list R).
Hypothesis HP : Forall (fun p => length p = n) P.
Hypothesis Ha : length a = n.

Lemma MsR_reidx : MsR (map reidx P) (reidx a) = MsR P a.
Proof.
  unfold MsR. rewrite map_map. apply map_ext_in. intros p Hp. rewrite Forall_forall in HP.
  apply ratios_reidx; [apply HP; exact Hp|exact Ha].
Qed.

Lemma wR_reidx : wR eps (map reidx P) ms (reidx a) = wR eps P ms a.
Proof. unfold wR, weightedR. rewrite MsR_reidx. reflexivity. Qed.

Lemma uinvR_reidx y : (y < n)%nat ->
  uinvR eps (map reidx P) ms ax (reidx a) y = uinvR eps P ms ax a (sg y).
Proof.
  intros Hy. unfold uinvR. rewrite wR_reidx. unfold uhatR, irrR, tempR, allz, qR.
  rewrite (colR_reidx P y Hy). reflexivity.
Qed.

Lemma binvR_reidx y : (y < n)%nat ->
  binvR eps (map reidx P) ms ax (reidx a) y = binvR eps P ms ax a (sg y).
Proof.
  intros Hy. unfold binvR. rewrite uinvR_reidx by exact Hy. unfold pxyR, tempR, allz, qR.
  rewrite (colR_reidx P y Hy). reflexivity.
Qed.

Lemma invR_reidx : invR eps (map reidx P) ms ax (reidx a) = reidxT (invR eps P ms ax a).
Proof.
  unfold invR, reidxT. rewrite reidx_length, Ha. apply map_ext_in. intros y Hy. apply in_seq in Hy.
  rewrite binvR_reidx, uinvR_reidx by lia.
  symmetry. apply (mg_nth_map_seq (fun y0 => (binvR eps P ms ax a y0, uinvR eps P ms ax a y0))).
  apply Hsg. lia.
Qed.
End InvReidx.

(* equivariance of [inverse] in its consequent ("ay") argument *)
Lemma inverseR_reidx eps cs ax a : rows_len cs -> length a = n ->
  inverseR eps (map reidxS cs) ax (reidx a) = reidxT (inverseR eps cs ax a).
Proof.
  intros Hcs Ha. unfold inverseR. rewrite (likR_reidx cs a Hcs Ha).
  assert (HP : Forall (fun p => length p = n) (likR cs a)).
  { unfold likR. rewrite Forall_map. unfold rows_len in Hcs. eapply Forall_impl; [|exact Hcs].
    cbn beta. intros c Hc. unfold projR. rewrite map2_length. lia. }
  assert (Ems : map (fun p => mR eps p (reidx a)) (map reidx (likR cs a))
                = map (fun p => mR eps p a) (likR cs a)).
  { rewrite map_map. apply map_ext_in. intros p Hp. rewrite Forall_forall in HP.
    apply mR_reidx; [apply HP; exact Hp|exact Ha]. }
  rewrite Ems. apply invR_reidx; assumption.
Qed.

(* equivariance of [mbr] (with fallback) in the consequent domain.  The sums Rsum b_x must be
   preserved; for well-formed tables this follows from Rsum b_x = 1 - u_x. *)
Lemma mbr_raw_reidx ax cs k : (k < n)%nat ->
  Deduce.mbr_raw ax (map reidxS cs) k = Deduce.mbr_raw ax cs (sg k).
Proof.
  intros Hk. unfold Deduce.mbr_raw, Deduce.colR. rewrite !map_map. f_equal.
  apply map_ext. intros c. cbn [reidxS fst]. apply reidx_nth. exact Hk.
Qed.

Lemma mbr_S_reidx ax cs : Forall (fun c => Rsum (reidx (fst c)) = Rsum (fst c)) cs ->
  mbr_S ax (map reidxS cs) = mbr_S ax cs.
Proof.
  intros H. unfold Deduce.mbr_S. rewrite map_map. f_equal. apply map_ext_in. intros c Hc.
  rewrite Forall_forall in H. cbn [reidxS fst]. apply H. exact Hc.
Qed.

Lemma fbR_reidx eps ax cs fb : Forall (fun c => Rsum (reidx (fst c)) = Rsum (fst c)) cs ->
  fbR eps n ax (map reidxS cs) (reidx fb) = reidx (fbR eps n ax cs fb).
Proof.
  intros H. unfold fbR. rewrite Deduce.ded_forallb_map. cbn [reidxS snd].
  destruct (forallb _ cs); [reflexivity|]. rewrite (mbr_S_reidx ax cs H).
  destruct (Reqb _ 0); [reflexivity|].
  unfold mbrR, tab, reidx. apply map_ext_in. intros k Hk. apply in_seq in Hk.
  rewrite mbr_raw_reidx, (mbr_S_reidx ax cs H) by lia.
  symmetry. apply (mg_nth_map_seq (fun y => Deduce.mbr_raw ax cs y / mbr_S ax cs)). apply Hsg. lia.
Qed.

End Reidx.

(* =================================================== transposition of the joint domain *)
(* transposition of a flattened n0 x n1 table (row-major) into an n1 x n0 one, any element type *)
Definition transposeL {X} (d : X) (n0 n1 : nat) (l : list X) : list X :=
  flat_map (fun j => map (fun i => nth (i * n1 + j) l d) (seq 0 n0)) (seq 0 n1).

Lemma transposeR_is_transposeL n0 n1 l : transposeR n0 n1 l = transposeL 0 n0 n1 l.
Proof. reflexivity. Qed.

Lemma mg_chunks_length {X} (F : nat -> nat -> X) n0 J :
  length (flat_map (fun j => map (F j) (seq 0 n0)) J) = (length J * n0)%nat.
Proof. induction J as [|j J IH]; cbn [flat_map length]; [reflexivity|]. rewrite app_length, map_length, seq_length, IH. lia. Qed.

Lemma mg_nth_chunks {X} (d : X) (F : nat -> nat -> X) n0 : forall n1 s j i,
  (j < n1)%nat -> (i < n0)%nat ->
  nth (j * n0 + i) (flat_map (fun j => map (F j) (seq 0 n0)) (seq s n1)) d = F (s + j)%nat i.
Proof.
  induction n1 as [|n1 IH]; intros s j i Hj Hi; [lia|]. cbn [seq flat_map].
  destruct j as [|j].
  - cbn [Nat.mul Nat.add]. rewrite app_nth1 by (rewrite map_length, seq_length; exact Hi).
    rewrite mg_nth_map_seq by exact Hi. rewrite Nat.add_0_r. reflexivity.
  - rewrite app_nth2 by (rewrite map_length, seq_length; lia). rewrite map_length, seq_length.
    replace (S j * n0 + i - n0)%nat with (j * n0 + i)%nat by lia.
    rewrite IH by lia. f_equal. lia.
Qed.

Lemma transposeL_length {X} (d : X) n0 n1 l : length (transposeL d n0 n1 l) = (n1 * n0)%nat.
Proof. unfold transposeL. rewrite (mg_chunks_length (fun j i => nth (i * n1 + j) l d)), seq_length. reflexivity. Qed.

Lemma transposeL_nth {X} (d : X) n0 n1 l i j : (i < n0)%nat -> (j < n1)%nat ->
  nth (j * n0 + i) (transposeL d n0 n1 l) d = nth (i * n1 + j) l d.
Proof.
  intros Hi Hj. unfold transposeL.
  rewrite (mg_nth_chunks d (fun j i => nth (i * n1 + j) l d)) by assumption. reflexivity.
Qed.

(* the index map of the transposition: new index j * n0 + i  |->  old index i * n1 + j *)
Definition sgT (n0 n1 k : nat) : nat := ((k mod n0) * n1 + k / n0)%nat.

Lemma sgT_cell n0 n1 i j : (i < n0)%nat -> sgT n0 n1 (j * n0 + i) = (i * n1 + j)%nat.
Proof.
  intros Hi. unfold sgT. assert (n0 <> 0)%nat by lia.
  assert (E1 : ((j * n0 + i) mod n0 = i)%nat)
    by (rewrite Nat.add_comm, Nat.mod_add, Nat.mod_small by assumption; reflexivity).
  assert (E2 : ((j * n0 + i) / n0 = j)%nat)
    by (rewrite Nat.div_add_l, Nat.div_small by assumption; lia).
  rewrite E1, E2. reflexivity.
Qed.

Lemma sgT_range n0 n1 k : (k < n0 * n1)%nat -> (sgT n0 n1 k < n0 * n1)%nat.
Proof.
  intros Hk. rewrite Nat.mul_comm in Hk.
  destruct (Product.cell_decompose n1 n0 k Hk) as (j & i & Hj & Hi & ->).
  rewrite sgT_cell by exact Hi. apply Product.cell_in_range; assumption.
Qed.

Lemma sgT_surj n0 n1 k : (k < n0 * n1)%nat -> exists k', (k' < n0 * n1)%nat /\ sgT n0 n1 k' = k.
Proof.
  intros Hk. destruct (Product.cell_decompose n0 n1 k Hk) as (i & j & Hi & Hj & ->).
  exists (j * n0 + i)%nat. split; [rewrite (Nat.mul_comm n0 n1); apply Product.cell_in_range; assumption|].
  apply sgT_cell. exact Hi.
Qed.

Lemma transposeL_sgT {X} (d : X) n0 n1 l :
  transposeL d n0 n1 l = map (fun k => nth (sgT n0 n1 k) l d) (seq 0 (n0 * n1)).
Proof.
  apply (nth_ext _ _ d d).
  - rewrite transposeL_length, map_length, seq_length. apply Nat.mul_comm.
  - intros k Hk. rewrite transposeL_length in Hk.
    destruct (Product.cell_decompose n1 n0 k Hk) as (j & i & Hj & Hi & ->).
    rewrite transposeL_nth by assumption.
    rewrite (mg_nth_map_seq (fun k => nth (sgT n0 n1 k) l d)) by (rewrite (Nat.mul_comm n0 n1); apply Product.cell_in_range; assumption).
    rewrite sgT_cell by exact Hi. reflexivity.
Qed.

Lemma transposeR_reidx n0 n1 l : transposeR n0 n1 l = reidx (n0 * n1) (sgT n0 n1) l.
Proof. rewrite transposeR_is_transposeL. apply transposeL_sgT. Qed.

Lemma transposeT_reidxT n0 n1 t : transposeL ([], 0) n0 n1 t = reidxT (n0 * n1) (sgT n0 n1) t.
Proof. apply transposeL_sgT. Qed.

Section Swap.
Variable eps : R.
Hypothesis He : 0 <= eps <= 1/8.
Variables (c1 c2 : list (list R * R)) (ax1 ax2 ay : list R).
Hypothesis Hc1 : wf_conds c1 (length ay).
Hypothesis Hc2 : wf_conds c2 (length ay).
Hypothesis Hax1 : pos_dist ax1.
Hypothesis Hax2 : pos_dist ax2.
Hypothesis Hay : pos_dist ay.
Hypothesis Hl1 : length ax1 = length c1.
Hypothesis Hl2 : length ax2 = length c2.
Hypothesis Hg1 : guard_clear eps (m_ay eps ax1 c1 ay).
Hypothesis Hg2 : guard_clear eps (m_ay eps ax2 c2 ay).

Let n1 := length ax1.
Let n2 := length ax2.
Let sg := sgT n1 n2.
Let n := (n1 * n2)%nat.

Lemma prodS_swap s1 s2 :
  wf_opinion (fst s1) (snd s1) ax1 -> wf_opinion (fst s2) (snd s2) ax2 ->
  prodS ax2 ax1 s2 s1 = reidxS n sg (prodS ax1 ax2 s1 s2).
Proof.
  intros W1 W2. pose proof (Product.product2R_swap _ _ _ _ _ _ W1 W2) as S.
  unfold prodS. rewrite S.
  assert (L1 : length (fst s1) = n1) by (destruct W1 as (_ & _ & E); symmetry; exact E).
  assert (L2 : length (fst s2) = n2) by (destruct W2 as (_ & _ & E); symmetry; exact E).
  rewrite L1, L2.
  destruct (product2R (fst s1) (snd s1) ax1 (fst s2) (snd s2) ax2) as [[b u] a].
  unfold reidxS. cbn [fst snd]. rewrite transposeR_reidx. reflexivity.
Qed.

Lemma prodT_swap i1 : forall i2, wf_rows n1 ax1 i1 -> wf_rows n2 ax2 i2 ->
  prodT ax2 ax1 i2 i1 = map (reidxS n sg) (prodT ax1 ax2 i1 i2).
Proof.
  induction i1 as [|s1 i1 IH]; intros [|s2 i2] H1 H2; cbn [prodT map2 map]; try reflexivity.
  inversion H1; inversion H2; subst. rewrite prodS_swap by assumption. f_equal.
  apply IH; assumption.
Qed.

Lemma m_prod_swap :
  m_prod eps c2 c1 ax2 ax1 ay = map (reidxS n sg) (m_prod eps c1 c2 ax1 ax2 ay).
Proof.
  unfold m_prod. apply prodT_swap; apply m_inv_wf; assumption.
Qed.

Lemma mg_rows_sum :
  Forall (fun c => Rsum (reidx n sg (fst c)) = Rsum (fst c)) (m_prod eps c1 c2 ax1 ax2 ay).
Proof.
  destruct (m_prod_wf eps He c1 c2 ax1 ax2 ay Hc1 Hc2 Hax1 Hax2 Hay Hl1 Hl2 Hg1 Hg2) as (W & _).
  destruct (m_prod_wf eps He c2 c1 ax2 ax1 ay Hc2 Hc1 Hax2 Hax1 Hay Hl2 Hl1 Hg2 Hg1) as (W' & _).
  rewrite m_prod_swap in W'. unfold wf_conds in W, W'. rewrite Forall_map in W'.
  rewrite Forall_forall in *. intros c Hc.
  destruct (W c Hc) as ((_ & _ & S) & _). destruct (W' c Hc) as ((_ & _ & S') & _).
  cbn [reidxS fst snd] in S'. lra.
Qed.

Lemma m_a12_swap :
  m_a12 eps c2 c1 ax2 ax1 ay = reidx n sg (m_a12 eps c1 c2 ax1 ax2 ay).
Proof.
  unfold m_a12. rewrite m_prod_swap. fold n1 n2.
  rewrite (Product.outerR_transpose ax1 ax2). fold n1 n2. rewrite transposeR_reidx. fold n sg.
  replace (n2 * n1)%nat with n by (unfold n; apply Nat.mul_comm).
  apply fbR_reidx.
  - intros k Hk. apply sgT_range. exact Hk.
  - exact mg_rows_sum.
Qed.

(* exchanging the parents transposes the merged table *)
Lemma mergeR_swap :
  mergeR eps c2 c1 ax2 ax1 ay = transposeL ([], 0) n1 n2 (mergeR eps c1 c2 ax1 ax2 ay).
Proof.
  rewrite transposeT_reidxT. fold n sg. unfold mergeR. rewrite m_prod_swap, m_a12_swap.
  destruct (m_prod_wf eps He c1 c2 ax1 ax2 ay Hc1 Hc2 Hax1 Hax2 Hay Hl1 Hl2 Hg1 Hg2) as (W & _).
  destruct (m_a12_wf eps He c1 c2 ax1 ax2 ay Hc1 Hc2 Hax1 Hax2 Hay Hl1 Hl2 Hg1 Hg2) as (_ & La).
  apply inverseR_reidx.
  - intros k Hk. apply sgT_range. exact Hk.
  - intros k Hk. apply sgT_surj. exact Hk.
  - unfold rows_len. eapply Forall_impl; [|exact W]. cbn beta. intros c (_ & L). exact L.
  - exact La.
Qed.

Lemma mergeR_swap_cell x1 x2 : (x1 < n1)%nat -> (x2 < n2)%nat ->
  nth (x2 * n1 + x1) (mergeR eps c2 c1 ax2 ax1 ay) ([], 0)
  = nth (x1 * n2 + x2) (mergeR eps c1 c2 ax1 ax2 ay) ([], 0).
Proof. intros H1 H2. rewrite mergeR_swap. apply transposeL_nth; assumption. Qed.

End Swap.

(* ------------------------------------------------------- packaged: transposition *)
Lemma merge_transpose_lemma eps lab c1 c2 ax1 ax2 ay :
  0 <= eps <= 1/8 ->
  wf_conds c1 (length ay) -> wf_conds c2 (length ay) ->
  pos_dist ax1 -> pos_dist ax2 -> pos_dist ay ->
  length ax1 = length c1 -> length ax2 = length c2 ->
  guard_clear eps (m_ay eps ax1 c1 ay) -> guard_clear eps (m_ay eps ax2 c2 ay) ->
  let n1 := length ax1 in let n2 := length ax2 in
  mergeR eps c2 c1 ax2 ax1 ay = transposeL ([], 0) n1 n2 (mergeR eps c1 c2 ax1 ax2 ay) /\
  merge_cond2 (B:=FldR) eps lab (map embS c2) (map embS c1) (map Some ax2) (map Some ax1) (map Some ay)
    = Some (map embS (transposeL ([], 0) n1 n2 (mergeR eps c1 c2 ax1 ax2 ay))) /\
  merge_cond2 (B:=FldR) eps lab (map embS c1) (map embS c2) (map Some ax1) (map Some ax2) (map Some ay)
    = Some (map embS (mergeR eps c1 c2 ax1 ax2 ay)) /\
  (forall x1 x2, (x1 < n1)%nat -> (x2 < n2)%nat ->
     nth (x2 * n1 + x1) (mergeR eps c2 c1 ax2 ax1 ay) ([], 0)
     = nth (x1 * n2 + x2) (mergeR eps c1 c2 ax1 ax2 ay) ([], 0)).
Proof.
  intros He Hc1 Hc2 H1 H2 Hy Hl1 Hl2 G1 G2. cbv zeta.
  pose proof (mergeR_swap eps He c1 c2 ax1 ax2 ay Hc1 Hc2 H1 H2 Hy Hl1 Hl2 G1 G2) as S.
  split; [exact S|]. split; [|split].
  - rewrite <- S. apply merge_eval; assumption.
  - apply merge_eval; assumption.
  - intros x1 x2 Hx1 Hx2. apply mergeR_swap_cell; assumption.
Qed.

(* ------------------------------------------------------- impossible cells, from the inputs *)
(* P(x|y) of an inverted parent table is the Bayes ratio on non-negligible columns *)
Lemma m_P_bayes eps ay ax c x y :
  0 <= eps <= 1/8 -> pos_dist ay -> pos_dist ax -> wf_conds c (length ay) -> length ax = length c ->
  (x < length ax)%nat -> (y < length ay)%nat ->
  col_negligible eps c (m_ay eps ax c ay) y = false ->
  0 < qy c ax (m_ay eps ax c ay) y /\
  m_P eps ay ax c x y = nth x ax 0 * PyxR c (m_ay eps ax c ay) x y / qy c ax (m_ay eps ax c ay) y.
Proof.
  intros He Hay Hax Hc Hl Hx Hy E.
  destruct (m_ay_wf eps ay Hay ax c Hax Hc) as (W & L).
  assert (Hc' : wf_conds c (length (m_ay eps ax c ay))) by (rewrite L; exact Hc).
  assert (Hy' : (y < length (m_ay eps ax c ay))%nat) by (rewrite L; exact Hy).
  exact (inverse_bayes_main eps He c ax (m_ay eps ax c ay) Hc' Hax Hl W x y Hx Hy' E).
Qed.

Lemma m_P_zero eps ay ax c x y :
  0 <= eps <= 1/8 -> pos_dist ay -> pos_dist ax -> wf_conds c (length ay) -> length ax = length c ->
  (x < length ax)%nat -> (y < length ay)%nat ->
  PyxR c (m_ay eps ax c ay) x y = 0 ->
  (exists x', (x' < length c)%nat /\ eps < PyxR c (m_ay eps ax c ay) x' y) ->
  m_P eps ay ax c x y = 0.
Proof.
  intros He Hay Hax Hc Hl Hx Hy Z Hex.
  destruct (m_P_bayes eps ay ax c x y He Hay Hax Hc Hl Hx Hy (col_negligible_false _ _ _ _ Hex)) as (_ & E).
  rewrite E, Z. unfold Rdiv. ring.
Qed.

(* a joint value (x1,x2) such that every y excludes x1 or excludes x2 (P(y|x_i) = 0 while y is
   possible under some other value of X_i) gets the vacuous conditional *)
Lemma merge_impossible_cell_inputs eps c1 c2 ax1 ax2 ay x1 x2 :
  0 <= eps <= 1/8 ->
  wf_conds c1 (length ay) -> wf_conds c2 (length ay) ->
  pos_dist ax1 -> pos_dist ax2 -> pos_dist ay ->
  length ax1 = length c1 -> length ax2 = length c2 ->
  guard_clear eps (m_ay eps ax1 c1 ay) -> guard_clear eps (m_ay eps ax2 c2 ay) ->
  (x1 < length ax1)%nat -> (x2 < length ax2)%nat ->
  (forall y, (y < length ay)%nat ->
     (PyxR c1 (m_ay eps ax1 c1 ay) x1 y = 0 /\
      exists x, (x < length c1)%nat /\ eps < PyxR c1 (m_ay eps ax1 c1 ay) x y) \/
     (PyxR c2 (m_ay eps ax2 c2 ay) x2 y = 0 /\
      exists x, (x < length c2)%nat /\ eps < PyxR c2 (m_ay eps ax2 c2 ay) x y)) ->
  nth (x1 * length ax2 + x2) (mergeR eps c1 c2 ax1 ax2 ay) ([], 0) = (map (fun _ => 0) ay, 1).
Proof.
  intros He Hc1 Hc2 H1 H2 Hy Hl1 Hl2 G1 G2 Hx1 Hx2 A.
  apply merge_impossible_cell_vacuous_lemma; try assumption.
  intros y Hyy. destruct (A y Hyy) as [(Z & Hex)|(Z & Hex)].
  - rewrite (m_P_zero eps ay ax1 c1 x1 y) by assumption. ring.
  - rewrite (m_P_zero eps ay ax2 c2 x2 y) by assumption. ring.
Qed.

(* ------------------------------------------------------- examples *)
(* two parents that each determine Y: the joint value (x1 = 0, x2 = 1) is impossible *)
Definition ex_det : list (list R * R) := [([1; 0], 0); ([0; 1], 0)].
Definition ex_half : list R := [1/2; 1/2].

Lemma ex_det_wf : wf_conds ex_det 2.
Proof. unfold wf_conds, ex_det, wf_simplex, nonneg. repeat constructor; cbn [fst snd Rsum]; lra. Qed.
Lemma ex_half_pos : pos_dist ex_half.
Proof. unfold pos_dist, ex_half. split; [repeat constructor; lra|cbn; lra]. Qed.

Lemma ex_det_lik ay' x y : length ay' = 2%nat -> (x < 2)%nat -> (y < 2)%nat ->
  PyxR ex_det ay' x y = nth y (fst (nth x ex_det ([], 0))) 0.
Proof.
  intros L Hx Hy. rewrite lik_entry; [|rewrite L; exact ex_det_wf|exact Hx|rewrite L; exact Hy].
  destruct x as [|[|x]]; [| |lia]; cbn [nth ex_det fst snd]; ring.
Qed.

Lemma ex_impossible_cell :
  nth 1 (mergeR 0 ex_det ex_det ex_half ex_half ex_half) ([], 0) = ([0; 0], 1).
Proof.
  assert (He : 0 <= 0 <= 1/8) by lra.
  pose proof ex_det_wf as W. pose proof ex_half_pos as P.
  destruct (merge_guards_exact ex_det ex_det ex_half ex_half ex_half W W P P P eq_refl eq_refl)
    as (G1 & G2 & _).
  destruct (m_ay_wf 0 ex_half P ex_half ex_det P W) as (_ & L).
  change (nth (0 * length ex_half + 1) (mergeR 0 ex_det ex_det ex_half ex_half ex_half) ([], 0)
          = (map (fun _ => 0) ex_half, 1)).
  apply merge_impossible_cell_inputs; try assumption; try reflexivity; try (cbn; lia).
  intros y Hy. cbn [length ex_half] in Hy.
  destruct y as [|[|y]]; [right|left|lia].
  - split; [rewrite ex_det_lik by (try exact L; lia); cbn; reflexivity|].
    exists 0%nat. split; [cbn; lia|]. rewrite ex_det_lik by (try exact L; lia). cbn. lra.
  - split; [rewrite ex_det_lik by (try exact L; lia); cbn; reflexivity|].
    exists 1%nat. split; [cbn; lia|]. rewrite ex_det_lik by (try exact L; lia). cbn. lra.
Qed.

(* the operands of the example in the property text *)
Definition ex_c1 : list (list R * R) := [([5/16; 0; 11/16], 0); ([6/16; 6/16; 4/16], 0)].
Definition ex_c2 : list (list R * R) := [([5/16; 5/16; 3/16], 3/16); ([3/16; 13/16; 0], 0)].
Definition ex_ax1 : list R := [9/16; 7/16].
Definition ex_ax2 : list R := [6/16; 10/16].
Definition ex_ay : list R := [7/16; 5/16; 4/16].

Lemma ex_operands_wf :
  wf_conds ex_c1 (length ex_ay) /\ wf_conds ex_c2 (length ex_ay) /\
  pos_dist ex_ax1 /\ pos_dist ex_ax2 /\ pos_dist ex_ay /\
  length ex_ax1 = length ex_c1 /\ length ex_ax2 = length ex_c2.
Proof.
  unfold wf_conds, pos_dist, wf_simplex, nonneg, ex_c1, ex_c2, ex_ax1, ex_ax2, ex_ay.
  repeat split; try (repeat constructor; cbn [fst snd Rsum]; lra); cbn [fst snd Rsum]; try lra.
Qed.

(* ... and their merge on the executable rational instance of the same model: the cell
   (x0, z1) (index 1) is the vacuous conditional; exchanging the parents moves it to index 2;
   the labelled product gives the same table *)
From Coq Require QArith.
From SL Require Model.InstQ.
Section ExampleQ.
Import QArith Model.InstQ.
Local Open Scope Q_scope.
Let SQ (q : Q) : @V FldQ := Some q.
Let qc1 : list (@simplex FldQ) := [([SQ (5#16); SQ 0; SQ (11#16)], SQ 0); ([SQ (6#16); SQ (6#16); SQ (4#16)], SQ 0)].
Let qc2 : list (@simplex FldQ) := [([SQ (5#16); SQ (5#16); SQ (3#16)], SQ (3#16)); ([SQ (3#16); SQ (13#16); SQ 0], SQ 0)].
Let qa1 := [SQ (9#16); SQ (7#16)].
Let qa2 := [SQ (6#16); SQ (10#16)].
Let qay := [SQ (7#16); SQ (5#16); SQ (4#16)].

Lemma ex_merge_Q :
  exists r0 r2 r3,
    @merge_cond2 FldQ 0 false qc1 qc2 qa1 qa2 qay = Some [r0; ([SQ 0; SQ 0; SQ 0], SQ 1); r2; r3] /\
    @merge_cond2 FldQ 0 true qc1 qc2 qa1 qa2 qay = Some [r0; ([SQ 0; SQ 0; SQ 0], SQ 1); r2; r3] /\
    @merge_cond2 FldQ 0 false qc2 qc1 qa2 qa1 qay = Some [r0; r2; ([SQ 0; SQ 0; SQ 0], SQ 1); r3].
Proof.
  eexists _, _, _. split; [|split]; vm_compute; reflexivity.
Qed.
End ExampleQ.
