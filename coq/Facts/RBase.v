(* Basic facts about the real-number instance of the model: how the lifted
   operations compute on defined ([Some]) values. *)
From Coq Require Import Reals List Bool Lra Lia.
Import ListNotations.
From SL Require Import Model.Num Model.Vec Model.InstR.
Open Scope R_scope.

Notation RV := (@V FldR).

(* ---------------------------------------------------------- comparisons *)
Lemma Rleb_true a b : Rleb a b = true <-> a <= b.
Proof. unfold Rleb; destruct (Rle_dec a b); split; intros; try easy; lra. Qed.
Lemma Rleb_false a b : Rleb a b = false <-> b < a.
Proof. unfold Rleb; destruct (Rle_dec a b); split; intros; try easy; lra. Qed.
Lemma Rltb_true a b : Rltb a b = true <-> a < b.
Proof. unfold Rltb; destruct (Rlt_dec a b); split; intros; try easy; lra. Qed.
Lemma Rltb_false a b : Rltb a b = false <-> b <= a.
Proof. unfold Rltb; destruct (Rlt_dec a b); split; intros; try easy; lra. Qed.
Lemma Reqb_true a b : Reqb a b = true <-> a = b.
Proof. unfold Reqb; destruct (Req_EM_T a b); split; intros; try easy. Qed.
Lemma Reqb_false a b : Reqb a b = false <-> a <> b.
Proof. unfold Reqb; destruct (Req_EM_T a b); split; intros; try easy. Qed.

Lemma Rleb_spec a b : reflect (a <= b) (Rleb a b).
Proof. destruct (Rleb a b) eqn:E; constructor; [apply Rleb_true in E|apply Rleb_false in E]; lra. Qed.
Lemma Rltb_spec a b : reflect (a < b) (Rltb a b).
Proof. destruct (Rltb a b) eqn:E; constructor; [apply Rltb_true in E|apply Rltb_false in E]; lra. Qed.
Lemma Reqb_spec a b : reflect (a = b) (Reqb a b).
Proof. destruct (Reqb a b) eqn:E; constructor; [apply Reqb_true in E|apply Reqb_false in E]; auto. Qed.

(* ------------------------------------------------ lifted arithmetic *)
Lemma add_some (a b : R) : add (B:=FldR) (Some a) (Some b) = Some (a + b).
Proof. reflexivity. Qed.
Lemma sub_some (a b : R) : sub (B:=FldR) (Some a) (Some b) = Some (a - b).
Proof. reflexivity. Qed.
Lemma mul_some (a b : R) : mul (B:=FldR) (Some a) (Some b) = Some (a * b).
Proof. reflexivity. Qed.
Lemma div_some (a b : R) : b <> 0 -> div (B:=FldR) (Some a) (Some b) = Some (a / b).
Proof. intros H; unfold div; cbn. destruct (Reqb_spec b 0); [contradiction|reflexivity]. Qed.
Lemma div_zero (a : R) : div (B:=FldR) (Some a) (Some 0) = None.
Proof. unfold div; cbn. destruct (Reqb_spec 0 0); [reflexivity|contradiction]. Qed.
Lemma zero_some : zero (B:=FldR) = Some 0. Proof. reflexivity. Qed.
Lemma one_some : one (B:=FldR) = Some 1. Proof. reflexivity. Qed.
Lemma two_some : two (B:=FldR) = Some 2.
Proof. unfold two, one; cbn. f_equal; lra. Qed.

Lemma leb_some (a b : R) : leb (B:=FldR) (Some a) (Some b) = Rleb a b.
Proof. reflexivity. Qed.
Lemma ltb_some (a b : R) : ltb (B:=FldR) (Some a) (Some b) = Rltb a b.
Proof. reflexivity. Qed.
Lemma gtb_some (a b : R) : gtb (B:=FldR) (Some a) (Some b) = Rltb b a.
Proof. reflexivity. Qed.
Lemma eqb_some (a b : R) : eqb (B:=FldR) (Some a) (Some b) = Reqb a b.
Proof. reflexivity. Qed.

Lemma nmin_some (a b : R) : nmin (B:=FldR) (Some a) (Some b) = Some (Rmin a b).
Proof.
  unfold nmin; cbn. f_equal. unfold Rmin.
  destruct (Rleb_spec a b), (Rle_dec a b); try lra; reflexivity.
Qed.
Lemma nmax_some (a b : R) : nmax (B:=FldR) (Some a) (Some b) = Some (Rmax a b).
Proof.
  unfold nmax; cbn. f_equal. unfold Rmax.
  destruct (Rleb_spec a b), (Rle_dec a b); try lra; reflexivity.
Qed.
Lemma nmin_none_r (x : RV) : nmin x None = x.
Proof. destruct x; reflexivity. Qed.
Lemma nmin_none_l (x : RV) : nmin None x = x.
Proof. reflexivity. Qed.

(* compute lifted arithmetic on defined values down to real expressions *)
Ltac rsimpl :=
  cbn [add sub mul lift2 one zero two fadd fsub fmul f0 f1 FldR F].
Ltac rsimpl_in H :=
  cbn [add sub mul lift2 one zero two fadd fsub fmul f0 f1 FldR F] in H.

(* ----------------------------------------------------- guards *)
Lemma is_zero_some eps (a : R) :
  is_zero (B:=FldR) eps (Some a) = true <-> - eps <= a <= eps.
Proof.
  unfold is_zero; cbn. rewrite andb_true_iff, !Rleb_true. lra.
Qed.
Lemma is_zero_some_false eps (a : R) :
  is_zero (B:=FldR) eps (Some a) = false <-> (a < - eps \/ eps < a).
Proof.
  unfold is_zero; cbn. rewrite andb_false_iff, !Rleb_false. lra.
Qed.
Lemma is_one_some eps (a : R) :
  is_one (B:=FldR) eps (Some a) = true <-> 1 - 2 * eps <= a <= 1 + 4 * eps.
Proof.
  unfold is_one, feps4, feps2; cbn. rewrite andb_true_iff, !Rleb_true. lra.
Qed.
Lemma is_one_some_false eps (a : R) :
  is_one (B:=FldR) eps (Some a) = false <-> (a < 1 - 2 * eps \/ 1 + 4 * eps < a).
Proof.
  unfold is_one, feps4, feps2; cbn. rewrite andb_false_iff, !Rleb_false. lra.
Qed.
Lemma in_unit_some eps (a : R) :
  in_unit (B:=FldR) eps (Some a) = true <-> - eps <= a <= 1 + 4 * eps.
Proof.
  unfold in_unit, feps4, feps2; cbn. rewrite andb_true_iff, !Rleb_true. lra.
Qed.
Lemma aeq_some eps (a b : R) :
  aeq (B:=FldR) eps (Some a) (Some b) = true <-> - eps <= a - b <= eps.
Proof.
  unfold aeq; cbn. rewrite andb_true_iff, !Rleb_true. lra.
Qed.
Lemma aeq_some_false eps (a b : R) :
  aeq (B:=FldR) eps (Some a) (Some b) = false <-> (a - b < - eps \/ eps < a - b).
Proof.
  unfold aeq; cbn. rewrite andb_false_iff, !Rleb_false. lra.
Qed.

(* ------------------------------------------------------------- sums *)
Fixpoint Rsum (l : list R) : R :=
  match l with [] => 0 | x :: r => x + Rsum r end.

Lemma fold_add_some (l : list R) (acc : R) :
  fold_left (add (B:=FldR)) (map Some l) (Some acc) = Some (acc + Rsum l).
Proof.
  revert acc; induction l as [|x l IH]; intros acc; cbn [map fold_left Rsum].
  - f_equal; lra.
  - rewrite add_some, IH. f_equal; lra.
Qed.
Lemma vsum_some (l : list R) : vsum (B:=FldR) (map Some l) = Some (Rsum l).
Proof. unfold vsum. rewrite zero_some, fold_add_some. f_equal; lra. Qed.

Lemma Rsum_app l1 l2 : Rsum (l1 ++ l2) = Rsum l1 + Rsum l2.
Proof. induction l1; cbn; lra. Qed.
Lemma Rsum_map_mul c l : Rsum (map (fun x => c * x) l) = c * Rsum l.
Proof. induction l; cbn; lra. Qed.
Lemma Rsum_map_mul_r c l : Rsum (map (fun x => x * c) l) = Rsum l * c.
Proof. induction l; cbn; lra. Qed.
Lemma Rsum_map_div c l : Rsum (map (fun x => x / c) l) = Rsum l / c.
Proof. unfold Rdiv. apply Rsum_map_mul_r. Qed.
Lemma Rsum_nonneg l : Forall (fun x => 0 <= x) l -> 0 <= Rsum l.
Proof. induction 1; cbn; lra. Qed.
Lemma Rsum_zeros {X} (l : list X) : Rsum (map (fun _ => 0) l) = 0.
Proof. induction l; cbn; lra. Qed.
Lemma Rsum_le_elem l x : Forall (fun x => 0 <= x) l -> In x l -> x <= Rsum l.
Proof.
  induction 1 as [|y l Hy Hl IH]; cbn; intros Hin; [contradiction|].
  pose proof (Rsum_nonneg l Hl). destruct Hin as [->|Hin]; [lra|]. specialize (IH Hin). lra.
Qed.

(* ---------------------------------------------------- map / map2 on Some *)
Lemma map2_length {X Y Z} (f : X -> Y -> Z) l1 l2 :
  length (map2 f l1 l2) = Nat.min (length l1) (length l2).
Proof. revert l2; induction l1; destruct l2; cbn; auto. Qed.

Lemma map2_some (f : RV -> RV -> RV) (g : R -> R -> R) l1 l2 :
  (forall a b, f (Some a) (Some b) = Some (g a b)) ->
  map2 f (map Some l1) (map Some l2) = map Some (map2 g l1 l2).
Proof.
  intros H; revert l2; induction l1 as [|a l1 IH]; destruct l2 as [|b l2]; cbn [map map2]; auto.
  rewrite H, IH; reflexivity.
Qed.
Lemma map_some (f : RV -> RV) (g : R -> R) l :
  (forall a, f (Some a) = Some (g a)) ->
  map f (map Some l) = map Some (map g l).
Proof. intros H; induction l as [|a l IH]; cbn [map]; auto. rewrite H, IH; reflexivity. Qed.

Lemma map_Some_inj (l1 l2 : list R) : map Some l1 = map Some l2 -> l1 = l2.
Proof.
  revert l2; induction l1; destruct l2; cbn; intros H; try discriminate; auto.
  injection H as -> H. f_equal; auto.
Qed.

Lemma Rsum_map2_add l1 l2 : length l1 = length l2 ->
  Rsum (map2 Rplus l1 l2) = Rsum l1 + Rsum l2.
Proof.
  revert l2; induction l1; destruct l2; cbn; intros H; try discriminate; [lra|].
  rewrite IHl1 by lia. lra.
Qed.

(* well-formedness of operands, on real lists *)
Definition nonneg (l : list R) : Prop := Forall (fun x => 0 <= x) l.
Definition wf_simplex (b : list R) (u : R) : Prop := nonneg b /\ 0 <= u /\ Rsum b + u = 1.
Definition wf_dist (a : list R) : Prop := nonneg a /\ Rsum a = 1.
Definition wf_opinion (b : list R) (u : R) (a : list R) : Prop :=
  wf_simplex b u /\ wf_dist a /\ length a = length b.

Lemma wf_simplex_u_le1 b u : wf_simplex b u -> u <= 1.
Proof. intros (Hb & Hu & Hs). pose proof (Rsum_nonneg b Hb). lra. Qed.
Lemma wf_simplex_b_le1 b u x : wf_simplex b u -> In x b -> 0 <= x <= 1.
Proof.
  intros (Hb & Hu & Hs) Hin. split.
  - unfold nonneg in Hb; rewrite Forall_forall in Hb; auto.
  - pose proof (Rsum_le_elem b x Hb Hin). lra.
Qed.
