(* Witnesses in IEEE-754 binary64 arithmetic (Flocq, evaluated by the kernel) of the two rounding-level defects
   repaired in /repo, and of the repaired operators accepting the same operands.
   [bdeduce_untied]: a copy of the model function [bdeduce] from which only the two tie guards are removed
   (the code before the repair "deduce takes K = 0 when the conditionals tie in the bounding component"). *)
From Coq Require Import ZArith List Bool.
From Flocq Require Import Core.Core IEEE754.BinarySingleNaN.
From SL Require Import Model.Num Model.Vec Model.Mul Model.Bi Model.Chk Model.InstF.
Import ListNotations.

Definition bdeduce_untied {B : Fld} (eps : F B) (x : bop (B:=B)) (c0 c1 : @V B * @V B * @V B)
    (ay : @V B) : option (bop (B:=B)) :=
  let '(b0, d0, u0) := c0 in
  let '(b1, d1, u1) := c1 in
  let ax := ba x in
  let rvax := sub one ax in
  let mix := fun (v0 v1 : @V B) =>
    add (add (mul (bb x) v0) (mul (bd x) v1))
        (mul (bu x) (add (mul v0 ax) (mul v1 rvax))) in
  let bi := mix b0 b1 in
  let di := mix d0 d1 in
  let ui := mix u0 u1 in
  let bp := gtb b0 b1 in
  let dp := gtb d0 d1 in
  let k :=
    if Bool.eqb bp dp then zero
    else
      let pyx := add (add (mul b0 ax) (mul b1 rvax))
                     (mul ay (add (mul u0 ax) (mul u1 rvax))) in
      let px := bprojection x in
      let r := if bp then add b1 (mul ay (sub (sub one b1) d0))
               else add b0 (mul ay (sub (sub one b0) d1)) in
      let ux := bu x in
      match gtb pyx r, gtb px ax with
      | false, false =>
          if bp then div (mul (mul ax ux) (sub bi b1)) (mul px ay)
          else div (mul (mul (mul rvax ux) (sub di d1)) (sub b1 b0))
                   (mul (mul px ay) (sub d0 d1))
      | false, true =>
          if bp then div (mul (mul (mul ax ux) (sub di d0)) (sub b0 b1))
                         (mul (mul (sub one px) ay) (sub d1 d0))
          else div (mul (mul rvax ux) (sub bi b0)) (mul (sub one px) ay)
      | true, false =>
          if bp then div (mul (mul (mul rvax ux) (sub bi b1)) (sub d1 d0))
                         (mul (mul px (sub one ay)) (sub b0 b1))
          else div (mul (mul ax ux) (sub di d1)) (mul px (sub one ay))
      | true, true =>
          if bp then div (mul (mul rvax ux) (sub di d0)) (mul (sub one px) (sub one ay))
          else div (mul (mul (mul ax ux) (sub bi b0)) (sub d0 d1))
                   (mul (mul (sub one px) (sub one ay)) (sub b1 b0))
      end in
  btry_new eps (sub bi (mul ay k)) (sub di (mul (sub one ay) k)) (add ui k) ay.

(* the copy differs from the model only at ties *)
Lemma bdeduce_untied_same {B : Fld} (eps : F B) x b0 d0 u0 b1 d1 u1 ay :
  eqb d0 d1 = false -> eqb b0 b1 = false ->
  bdeduce_untied eps x (b0, d0, u0) (b1, d1, u1) ay = bdeduce eps x (b0, d0, u0) (b1, d1, u1) ay.
Proof.
  intros Ed Eb. unfold bdeduce_untied, bdeduce. rewrite Ed, Eb, !andb_false_r. reflexivity.
Qed.

(* x = (1/4, 1/4, 1/2; a_x = 2^-20),  y|x = (1/2, 0, 1/2),  y|~x = (1/4, 0, 3/4),  a_y = 1 - 2^-32:
   every operand is exactly representable and exactly well-formed; Case II with d(y|x) = d(y|~x) = 0, so K = 0.
   The threshold difference (1 - a_y) a_x (b0 - b1) = 2^-54 is lost when P(y|x) and r are rounded, the comparison
   P(y|x) > r comes out false, branch II.A.2 is taken and its quotient is 0/0. *)
Definition z64 (z : Z) : @V FldB64 := Some (f64_of_bits z).
Definition wx : bop (B:=FldB64) :=
  mkbop (z64 0x3fd0000000000000) (z64 0x3fd0000000000000) (z64 0x3fe0000000000000) (z64 0x3eb0000000000000).
Definition wc0 : @V FldB64 * @V FldB64 * @V FldB64 := (z64 0x3fe0000000000000, z64 0, z64 0x3fe0000000000000).
Definition wc1 : @V FldB64 * @V FldB64 * @V FldB64 := (z64 0x3fd0000000000000, z64 0, z64 0x3fe8000000000000).
Definition way : @V FldB64 := z64 0x3fefffffffe00000.

(* statements are boolean so that the kernel evaluates them without normalising the instance itself *)
Definition fails {A} (o : option A) : bool := match o with None => true | Some _ => false end.
Definition accepted64 (o : option (bop (B:=FldB64))) (a : @V FldB64) : bool :=
  match o with
  | Some r => fin64 (bb r) && fin64 (bd r) && fin64 (bu r) && eqb (B:=FldB64) (ba r) a
  | None => false
  end.

Lemma deduce_tie_binary64_untied_fails : fails (bdeduce_untied (B:=FldB64) eps64 wx wc0 wc1 way) = true.
Proof. vm_compute. reflexivity. Qed.

Lemma deduce_tie_binary64_accepts : accepted64 (bdeduce (B:=FldB64) eps64 wx wc0 wc1 way) way = true.
Proof. vm_compute. reflexivity. Qed.

(* the operands of the witness are accepted by the model's constructor check in binary64 *)
Lemma deduce_tie_binary64_operands_wf :
  accepted64 (btry_new (B:=FldB64) eps64 (bb wx) (bd wx) (bu wx) (ba wx)) (ba wx) = true /\
  (let '(b, d, u) := wc0 in accepted64 (btry_new (B:=FldB64) eps64 b d u way) way) = true /\
  (let '(b, d, u) := wc1 in accepted64 (btry_new (B:=FldB64) eps64 b d u way) way) = true.
Proof. vm_compute. repeat split; reflexivity. Qed.

(* ---------------------------------------------------------------- products: negative rounding residue *)
(* [product2_unclamped]: a copy of [product2] in which the smallest quotient is used as it is (the code before the
   repair "products clamp a negative rounding residue of the uncertainty"). *)
Definition product_core_unclamped {B : Fld} (p bb a : list (@V B)) : list (@V B) * @V B :=
  let u := vmin (map3 (fun pi bi ai => div (sub pi bi) ai) p bb a) in
  (map2 (fun pi ai => sub pi (mul ai u)) p a, u).
Definition product2_unclamped {B : Fld} (eps : F B) (w0 w1 : opinion (B:=B)) : option (opinion (B:=B)) :=
  let '(b0, u0, a0) := w0 in
  let '(b1, u1, a1) := w1 in
  let p := outer (projection b0 u0 a0) (projection b1 u1 a1) in
  let a := outer a0 a1 in
  let '(b, u) := product_core_unclamped p (outer b0 b1) a in
  if Mul.check_simplex eps b u && Mul.check_base_rate eps a then Some (b, u, a) else None.

(* two dogmatic opinions on three states found by the thorough tier of C19 (random floats accepted by the checked
   constructors): the belief masses of the first add up to the float above 1, its projection divides by that sum, and
   every joint projection lies a rounding residue below the product of the beliefs *)
Definition pw0 : opinion (B:=FldB64) := ([z64 0x3fd91bdc55924c33; z64 0x3fe3634b5c28cb14; z64 0x3f5d8cf21c1da632], z64 0x0, [z64 0x3fdebcd7d005f463; z64 0x3fc08002a27c5a86; z64 0x3fd90326debbde5a]).
Definition pw1 : opinion (B:=FldB64) := ([z64 0x3fa558adc4254c40; z64 0x3fe0c87ed3812687; z64 0x3fdbc3eca079096a], z64 0x0, [z64 0x3fe4ee73d1968b09; z64 0x0; z64 0x3fd623185cd2e9ee]).
Definition opinion_ok64 (o : option (opinion (B:=FldB64))) : bool :=
  match o with
  | Some (b, u, a) => forallb fin64 b && fin64 u && forallb fin64 a && negb (ltb u zero)
  | None => false
  end.

Lemma product2_binary64_operands_wf :
  (let '(b, u, a) := pw0 in Mul.check_simplex (B:=FldB64) eps64 b u && Mul.check_base_rate (B:=FldB64) eps64 a) = true /\
  (let '(b, u, a) := pw1 in Mul.check_simplex (B:=FldB64) eps64 b u && Mul.check_base_rate (B:=FldB64) eps64 a) = true.
Proof. vm_compute. split; reflexivity. Qed.

Lemma product2_binary64_unclamped_fails : fails (product2_unclamped (B:=FldB64) eps64 pw0 pw1) = true.
Proof. vm_compute. reflexivity. Qed.

Lemma product2_binary64_accepts : opinion_ok64 (product2 (B:=FldB64) eps64 pw0 pw1) = true.
Proof. vm_compute. reflexivity. Qed.

(* ------------------------------------------------- earlier repairs of cancelling denominators (F7, F3) *)
(* [bmul_cancelling]: [bmul] with the divisor 1 - a_x a_y computed as written before the repair
   "binomial mul divides by 1 - a_x a_y computed without cancellation" (1.0 - a); nothing else differs. *)
Definition bmul_cancelling {B : Fld} (eps : F B) (x y : bop (B:=B)) : option (bop (B:=B)) :=
  let a := mul (ba x) (ba y) in
  let ra := sub one a in
  let b := add (mul (bb x) (bb y))
               (div (add (mul (mul (mul (sub one (ba x)) (ba y)) (bb x)) (bu y))
                         (mul (mul (mul (sub one (ba y)) (ba x)) (bb y)) (bu x)))
                    ra) in
  let d := sub (add (bd x) (bd y)) (mul (bd x) (bd y)) in
  let u := add (mul (bu x) (bu y))
               (div (add (mul (mul (sub one (ba y)) (bb x)) (bu y))
                         (mul (mul (sub one (ba x)) (bb y)) (bu x)))
                    ra) in
  btry_new eps b d u a.


(* [bwfuse_cancelling]: [bwfuse] with the denominators u_a + u_b - 2 u_a u_b and 2 - u_a - u_b as written before the
   repair "binomial wfuse evaluates its denominators without cancellation"; nothing else differs. *)
Definition bwfuse_cancelling {B : Fld} (eps : F B) (x y : bop (B:=B)) (gamma_a : @V B) : option (bop (B:=B)) :=
  if Num.is_zero eps (bu x) && Num.is_zero eps (bu y) then
    let gamma_b := sub one gamma_a in
    btry_new eps (add (mul gamma_a (bb x)) (mul gamma_b (bb y)))
             (add (mul gamma_a (bd x)) (mul gamma_b (bd y)))
             zero
             (add (mul gamma_a (ba x)) (mul gamma_b (ba y)))
  else if Num.is_one eps (bu x) && Num.is_one eps (bu y) then
    btry_new eps zero zero one (div (add (ba x) (ba y)) two)
  else
    let ca := sub one (bu x) in
    let cb := sub one (bu y) in
    let denom := sub (add (bu x) (bu y)) (mul (mul two (bu x)) (bu y)) in
    let csum := sub (sub two (bu x)) (bu y) in
    btry_new eps (div (add (mul (mul (bb x) ca) (bu y)) (mul (mul (bb y) cb) (bu x))) denom)
             (div (add (mul (mul (bd x) ca) (bu y)) (mul (mul (bd y) cb) (bu x))) denom)
             (div (mul (mul csum (bu x)) (bu y)) denom)
             (div (add (mul (ba x) ca) (mul (ba y) cb)) csum).


(* F7: x = (1/8, 0, 7/8; 1 - 2^-27), y = (1/8, 0, 7/8; 1 - 2^-28): exactly representable and well-formed.
   1 - a_x a_y keeps 25 of its 53 bits; the masses then add up to 0.99999999946 and the operator rejects them. *)
Definition mx : bop (B:=FldB64) :=
  mkbop (z64 0x3fc0000000000000) (z64 0) (z64 0x3fec000000000000) (z64 0x3feffffffc000000).
Definition my : bop (B:=FldB64) :=
  mkbop (z64 0x3fc0000000000000) (z64 0) (z64 0x3fec000000000000) (z64 0x3feffffffe000000).

Lemma mul_binary64_cancelling_fails : fails (bmul_cancelling (B:=FldB64) eps64 mx my) = true.
Proof. vm_compute. reflexivity. Qed.
Lemma mul_binary64_accepts :
  accepted64 (bmul (B:=FldB64) eps64 mx my) (mul (B:=FldB64) (ba mx) (ba my)) = true.
Proof. vm_compute. reflexivity. Qed.

(* F3: (0.001, 0.002, 0.997; 0.25) wfuse (0.003, 0.001, 0.996; 0.625), the doubles nearest to these decimals
   (accepted by the constructor): the cancelling denominators give masses adding up to 1 + 3.5e-14. *)
Definition fx : bop (B:=FldB64) :=
  mkbop (z64 0x3f50624dd2f1a9fc) (z64 0x3f60624dd2f1a9fc) (z64 0x3fefe76c8b439581) (z64 0x3fd0000000000000).
Definition fy : bop (B:=FldB64) :=
  mkbop (z64 0x3f689374bc6a7efa) (z64 0x3f50624dd2f1a9fc) (z64 0x3fefdf3b645a1cac) (z64 0x3fe4000000000000).
Definition fg : @V FldB64 := z64 0x3fe0000000000000.

Lemma wfuse_binary64_operands_wf :
  accepted64 (btry_new (B:=FldB64) eps64 (bb fx) (bd fx) (bu fx) (ba fx)) (ba fx) = true /\
  accepted64 (btry_new (B:=FldB64) eps64 (bb fy) (bd fy) (bu fy) (ba fy)) (ba fy) = true.
Proof. vm_compute. split; reflexivity. Qed.
Lemma wfuse_binary64_cancelling_fails : fails (bwfuse_cancelling (B:=FldB64) eps64 fx fy fg) = true.
Proof. vm_compute. reflexivity. Qed.
Lemma wfuse_binary64_accepts :
  match bwfuse (B:=FldB64) eps64 fx fy fg with
  | Some r => fin64 (bb r) && fin64 (bd r) && fin64 (bu r) && fin64 (ba r)
  | None => false
  end = true.
Proof. vm_compute. reflexivity. Qed.

(* ------------------------------------------------- F4: the cumulative base rate of nearly vacuous operands *)
(* [compute_base_rate_cancelling]: [compute_base_rate] with the normaliser of the cumulative base rate written as
   before the repair "fusion evaluates u_l + u_r - 2 u_l u_r without cancellation"; nothing else differs. *)
Definition compute_base_rate_cancelling {B : Fld} (eps : F B) (op : fuse_op) (same : bool)
           (lu : @V B) (la : list (@V B)) (ru : @V B) (ra : list (@V B)) : list (@V B) :=
  let ldog := Num.is_zero eps lu in let rdog := Num.is_zero eps ru in
  let lvac := Num.is_one eps lu in let rvac := Num.is_one eps ru in
  if same then la
  else if ldog && rdog then map2 (fun x y => div (add x y) two) la ra
  else
    match op with
    | ACm | ECm =>
        if lvac && rvac then mean_or_same eps la ra
        else if lvac || rdog then ra
        else if rvac || ldog then la
        else
          let lsb := sub one lu in
          let rsb := sub one ru in
          let temp := sub (add lu ru) (mul (mul lu ru) two) in
          map2 (fun x y =>
                  if aeq eps x y then x
                  else div (add (mul (mul x ru) lsb) (mul (mul y lu) rsb)) temp) la ra
    | Avg => mean_or_same eps la ra
    | Wgh =>
        if lvac && rvac then mean_or_same eps la ra
        else if lvac then ra
        else if rvac then la
        else
          let lsb := sub one lu in
          let rsb := sub one ru in
          let temp := add lsb rsb in
          map2 (fun x y =>
                  if aeq eps x y then x
                  else div (add (mul x lsb) (mul y rsb)) temp) la ra
    end.


(* u_l = 1 - 5 2^-53, u_r = 1 - 6 2^-53 (neither is vacuous for the crate), base rates (1/4, 3/4) and (5/8, 3/8):
   the cancelling normaliser is 5 2^-52 instead of 5.5 2^-52 and the fused "base rate" adds up to 1.1. *)
Definition cl_u : @V FldB64 := z64 0x3feffffffffffffb.
Definition cr_u : @V FldB64 := z64 0x3feffffffffffffa.
Definition cl_a : list (@V FldB64) := [z64 0x3fd0000000000000; z64 0x3fe8000000000000].
Definition cr_a : list (@V FldB64) := [z64 0x3fe4000000000000; z64 0x3fd8000000000000].

Lemma fuse_base_rate_binary64_cancelling_fails :
  Mul.check_base_rate (B:=FldB64) eps64 (compute_base_rate_cancelling (B:=FldB64) eps64 ACm false cl_u cl_a cr_u cr_a) = false.
Proof. vm_compute. reflexivity. Qed.
Lemma fuse_base_rate_binary64_accepts :
  Mul.check_base_rate (B:=FldB64) eps64 (compute_base_rate (B:=FldB64) eps64 ACm false cl_u cl_a cr_u cr_a) = true.
Proof. vm_compute. reflexivity. Qed.
Lemma fuse_base_rate_binary64_not_vacuous :
  Num.is_one (B:=FldB64) eps64 cl_u || Num.is_one (B:=FldB64) eps64 cr_u = false.
Proof. vm_compute. reflexivity. Qed.

(* ------------------------------------------------- F3 (cfuse): the fused base rate of nearly vacuous operands *)
(* [bcfuse_cancelling]: [bcfuse] with the base rate written as before the repair "binomial cfuse base rate evaluated
   without cancellation"; nothing else differs. *)
Definition bcfuse_cancelling {B : Fld} (eps : F B) (x y : bop (B:=B)) : option (bop (B:=B)) :=
  let uu := mul (bu x) (bu y) in
  let kappa := sub (add (bu x) (bu y)) uu in
  let b := div (add (mul (bb x) (bu y)) (mul (bb y) (bu x))) kappa in
  let d := div (add (mul (bd x) (bu y)) (mul (bd y) (bu x))) kappa in
  let u := div (mul (bu x) (bu y)) kappa in
  let a := if Num.is_one eps (bu x) && Num.is_one eps (bu y) then div (add (ba x) (ba y)) two
           else
             div (sub (add (mul (ba x) (bu y)) (mul (ba y) (bu x))) (mul (add (ba x) (ba y)) uu))
                 (sub kappa uu) in
  btry_new eps b d u a.


(* x = (7 2^-53, 0, 1 - 7 2^-53; 7/8), y = (0, 12 2^-53, 1 - 12 2^-53; 1): exactly representable, well-formed, neither
   vacuous for the crate.  The cancelling quotient gives the base rate 1.11 and the operator rejects its result. *)
Definition kx : bop (B:=FldB64) := mkbop (z64 0x3ccc000000000000) (z64 0) (z64 0x3feffffffffffff9) (z64 0x3fec000000000000).
Definition ky : bop (B:=FldB64) := mkbop (z64 0) (z64 0x3cd8000000000000) (z64 0x3feffffffffffff4) (z64 0x3ff0000000000000).
Lemma cfuse_binary64_operands_wf :
  accepted64 (btry_new (B:=FldB64) eps64 (bb kx) (bd kx) (bu kx) (ba kx)) (ba kx) = true /\
  accepted64 (btry_new (B:=FldB64) eps64 (bb ky) (bd ky) (bu ky) (ba ky)) (ba ky) = true /\
  Num.is_one (B:=FldB64) eps64 (bu kx) || Num.is_one (B:=FldB64) eps64 (bu ky) = false.
Proof. vm_compute. repeat split; reflexivity. Qed.
Lemma cfuse_binary64_cancelling_fails : fails (bcfuse_cancelling (B:=FldB64) eps64 kx ky) = true.
Proof. vm_compute. reflexivity. Qed.
Lemma cfuse_binary64_accepts :
  match bcfuse (B:=FldB64) eps64 kx ky with
  | Some r => fin64 (bb r) && fin64 (bd r) && fin64 (bu r) && fin64 (ba r)
  | None => false
  end = true.
Proof. vm_compute. reflexivity. Qed.
