(* C19: the self-validating operators (every binomial operator, the unlabelled products) never
   fail on well-formed operands inside their documented domain - corollaries of the closure
   theorems of C06, C10, C12, C13, C14: the exact result is itself well-formed, so the operator's
   own validation (BOpinion::new / try_new, Opinion::new) accepts it for every guard tolerance. *)
From Coq Require Import Reals List Bool Lra.
Import ListNotations.
From SL Require Import Model.Num Model.Vec Model.Mul Model.Bi Model.InstR Facts.RBase Facts.Discount
     Facts.BiMul Facts.BiFuse Facts.BiDeduce Facts.Product.
Open Scope R_scope.

Section SelfCheck.
Variable eps : R.
Hypothesis He : 0 <= eps <= 1/8.

Lemma mul_never_fails bx dx ux ax by_ dy uy ay :
  wf_bop bx dx ux ax -> wf_bop by_ dy uy ay -> ax * ay <> 1 ->
  exists b d u a, bmul (B:=FldR) eps (bopR bx dx ux ax) (bopR by_ dy uy ay) = Some (bopR b d u a)
                  /\ wf_bop b d u a.
Proof.
  intros W1 W2 H. destruct (bmul_spec eps He bx dx ux ax by_ dy uy ay W1 W2 H) as (E & W & _).
  eexists _, _, _, _; split; [exact E|exact W].
Qed.

Lemma comul_never_fails bx dx ux ax by_ dy uy ay :
  wf_bop bx dx ux ax -> wf_bop by_ dy uy ay -> ax + ay - ax * ay <> 0 ->
  exists b d u a, bcomul (B:=FldR) eps (bopR bx dx ux ax) (bopR by_ dy uy ay) = Some (bopR b d u a)
                  /\ wf_bop b d u a.
Proof.
  intros W1 W2 H. destruct (bcomul_spec eps He bx dx ux ax by_ dy uy ay W1 W2 H) as (E & W & _).
  eexists _, _, _, _; split; [exact E|exact W].
Qed.

Lemma cfuse_fails_only_when_undefined b1 d1 u1 a1 b2 d2 u2 a2 :
  wf_bop b1 d1 u1 a1 -> wf_bop b2 d2 u2 a2 ->
  (bcfuse (B:=FldR) eps (bopR b1 d1 u1 a1) (bopR b2 d2 u2 a2) = None <-> u1 = 0 /\ u2 = 0).
Proof. exact (bcfuse_err_iff eps He b1 d1 u1 a1 b2 d2 u2 a2). Qed.

Lemma cfuse_result_wf b1 d1 u1 a1 b2 d2 u2 a2 :
  wf_bop b1 d1 u1 a1 -> wf_bop b2 d2 u2 a2 -> ~ (u1 = 0 /\ u2 = 0) ->
  exists b d u a, bcfuse (B:=FldR) eps (bopR b1 d1 u1 a1) (bopR b2 d2 u2 a2) = Some (bopR b d u a)
                  /\ wf_bop b d u a.
Proof.
  intros W1 W2 H. destruct (bcfuse_defined eps He b1 d1 u1 a1 b2 d2 u2 a2 W1 W2 H) as (E & W).
  eexists _, _, _, _; split; [exact E|exact W].
Qed.

Lemma afuse_never_fails b1 d1 u1 a1 b2 d2 u2 a2 g :
  wf_bop b1 d1 u1 a1 -> wf_bop b2 d2 u2 a2 -> 0 <= g <= 1 ->
  bafuse (B:=FldR) eps (bopR b1 d1 u1 a1) (bopR b2 d2 u2 a2) (Some g) <> None.
Proof.
  intros W1 W2 Hg. rewrite (bafuse_defined eps He b1 d1 u1 a1 b2 d2 u2 a2 g W1 W2 Hg). discriminate.
Qed.

Lemma wfuse_never_fails b1 d1 u1 a1 b2 d2 u2 a2 g :
  wf_bop b1 d1 u1 a1 -> wf_bop b2 d2 u2 a2 -> 0 <= g <= 1 ->
  bwfuse (B:=FldR) eps (bopR b1 d1 u1 a1) (bopR b2 d2 u2 a2) (Some g) <> None.
Proof.
  intros W1 W2 Hg. rewrite (bwfuse_defined eps He b1 d1 u1 a1 b2 d2 u2 a2 g W1 W2 Hg). discriminate.
Qed.

Lemma deduce_never_fails bx dx ux ax b0 d0 u0 b1 d1 u1 ay :
  wf_bop bx dx ux ax -> 0 < ax < 1 -> 0 < bx + ax * ux < 1 ->
  wf_cond b0 d0 u0 -> wf_cond b1 d1 u1 -> 0 < ay < 1 ->
  exists b d u, bdeduce (B:=FldR) eps (bopR bx dx ux ax) (Some b0, Some d0, Some u0)
                        (Some b1, Some d1, Some u1) (Some ay) = Some (bopR b d u ay)
                /\ wf_bop b d u ay.
Proof.
  intros W Ha Hp C0 C1 Hy.
  destruct (bdeduce_wf_full eps bx dx ux ax b0 d0 u0 b1 d1 u1 ay He W Ha Hp C0 C1 Hy) as (E & Wf).
  eexists _, _, _; split; [exact E|exact Wf].
Qed.

Lemma trans_never_fail b d u a t s :
  wf_bop b d u a -> 0 <= t -> 0 <= s -> t + s <= 1 ->
  btrans_unc (B:=FldR) eps (bopR b d u a) (Some t) <> None /\
  btrans_bsr (B:=FldR) eps (bopR b d u a) (Some t) <> None /\
  btrans_opp (B:=FldR) eps (bopR b d u a) (Some t) (Some s) <> None.
Proof.
  intros W Ht Hs Hts.
  assert (Ht1 : 0 <= t <= 1) by lra.
  destruct (btrans_unc_spec eps He b d u a t W Ht1) as (E1 & _).
  pose proof (btrans_bsr_spec eps He b d u a t W Ht1) as E2.
  destruct (btrans_opp_spec eps He b d u a t s W Ht Hs Hts) as (E3 & _).
  rewrite E1, E2, E3. repeat split; discriminate.
Qed.

Lemma product2_never_fails b0 u0 a0 b1 u1 a1 :
  wf_opinion b0 u0 a0 -> wf_opinion b1 u1 a1 ->
  exists b u a, product2 (B:=FldR) eps (map Some b0, Some u0, map Some a0) (map Some b1, Some u1, map Some a1)
                = Some (map Some b, Some u, map Some a) /\ wf_opinion b u a.
Proof.
  intros W0 W1. destruct (product2R b0 u0 a0 b1 u1 a1) as [[b u] a] eqn:E.
  destruct (Product.product2_spec eps b0 u0 a0 b1 u1 a1 b u a He W0 W1 E) as (E2 & W & _).
  exists b, u, a; split; [exact E2|exact W].
Qed.

Lemma product3_never_fails b0 u0 a0 b1 u1 a1 b2 u2 a2 :
  wf_opinion b0 u0 a0 -> wf_opinion b1 u1 a1 -> wf_opinion b2 u2 a2 ->
  exists b u a, product3 (B:=FldR) eps (map Some b0, Some u0, map Some a0) (map Some b1, Some u1, map Some a1)
                         (map Some b2, Some u2, map Some a2)
                = Some (map Some b, Some u, map Some a) /\ wf_opinion b u a.
Proof.
  intros W0 W1 W2. destruct (product3R b0 u0 a0 b1 u1 a1 b2 u2 a2) as [[b u] a] eqn:E.
  destruct (Product.product3_spec eps b0 u0 a0 b1 u1 a1 b2 u2 a2 b u a He W0 W1 W2 E) as (E2 & _ & W & _).
  exists b, u, a; split; [exact E2|exact W].
Qed.

End SelfCheck.
