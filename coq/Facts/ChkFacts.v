(* Facts about the bit-exact model of the checked constructors (Model/Chk.v). *)
From Coq Require Import ZArith List Bool Reals Lia Lra Psatz.
From Flocq Require Import Core.Core Sterbenz IEEE754.Binary IEEE754.Bits IEEE754.BinarySingleNaN.
From SL Require Import Model.Chk.
Import ListNotations.
Open Scope Z_scope.

Section Fmt.
Variables prec emax : Z.
Context (prec_gt_0_ : Prec_gt_0 prec).
Context (prec_lt_emax_ : Prec_lt_emax prec emax).
Hypothesis prec_ge_4 : 4 <= prec.

Notation float := (BinarySingleNaN.binary_float prec emax).
Notation emin := (SpecFloat.emin prec emax).
Notation fexp := (SpecFloat.fexp prec emax).
Notation P := (2 ^ (prec - 1)).
Notation bits_of := (bits_of prec emax).

Lemma P_pos : 0 < P.
Proof. apply Z.pow_pos_nonneg; lia. Qed.

Lemma P_double : 2 ^ prec = 2 * P.
Proof. replace prec with (1 + (prec - 1)) at 1 by ring. rewrite Z.pow_add_r by lia. reflexivity. Qed.

(* bit pattern of a positive finite float: biased exponent [be] and fraction [f] *)
Lemma bits_finite_pos : forall m e (H : SpecFloat.bounded prec emax m e = true),
  exists be f, bits_of (B754_finite false m e H) = be * P + f /\ 0 <= f < P /\ 0 <= be <= 2 * emax - 2 /\
    ((be = 0 /\ e = emin /\ f = Zpos m /\ Zpos m < P) \/ (be = e - emin + 1 /\ 1 <= be /\ f = Zpos m - P /\ P <= Zpos m)).
Proof.
  intros m e H. assert (H' := H). unfold SpecFloat.bounded, SpecFloat.canonical_mantissa in H'.
  apply andb_prop in H'. destruct H' as [Hc He].
  apply Zeq_bool_eq in Hc. apply Zle_bool_imp_le in He.
  rewrite Zpos_digits2_pos in Hc.
  pose proof (Zdigits_correct radix2 (Zpos m)) as Hd. cbn [Z.abs] in Hd.
  set (d := Zdigits radix2 (Zpos m)) in *.
  change (Zpower radix2) with (Z.pow 2) in Hd.
  assert (Hd0 : 0 < d) by (apply Zdigits_gt_0; discriminate).
  pose proof P_pos as HP. pose proof P_double as HP2.
  unfold SpecFloat.fexp in Hc. unfold bits_of, Chk.bits_of, join.
  fold emin. change (3 - emax - prec) with emin.
  assert (Hdp : d <= prec) by lia.
  destruct (Z.leb_spec 0 (Zpos m - P)) as [Hn|Hn].
  - (* normal *)
    assert (d = prec).
    { destruct (Z.eq_dec d prec) as [|Hne]; [assumption|].
      assert (d <= prec - 1) by lia.
      assert (2 ^ d <= P) by (apply Z.pow_le_mono_r; lia). lia. }
    subst d. rewrite H0 in Hd. rewrite HP2 in Hd.
    exists (e - emin + 1), (Zpos m - P). unfold emin in *. repeat split; try lia.
  - exists 0, (Zpos m).
    assert (d < prec).
    { destruct (Z.eq_dec d prec) as [Heq|Hne]; [|lia]. rewrite Heq in Hd. lia. }
    unfold emin in *. repeat split; try lia.
Qed.

(* On non-NaN floats with sign bit 0, <= is the order of the bit patterns. *)
Lemma fle_bits : forall x y : float,
  is_nan x = false -> is_nan y = false -> Bsign x = false -> Bsign y = false ->
  Bleb x y = (bits_of x <=? bits_of y).
Proof.
  pose proof P_pos as HP.
  assert (Hem : 0 < emax) by (unfold Prec_lt_emax, Prec_gt_0 in *; lia).
  intros [sx|sx| |sx mx ex Hx] [sy|sy| |sy my ey Hy]; cbn [is_nan Bsign]; intros Nx Ny Sx Sy;
    try discriminate; subst;
    try (destruct (bits_finite_pos mx ex Hx) as (bx & fx & Ex & Rfx & Rbx & Cx); rewrite Ex);
    try (destruct (bits_finite_pos my ey Hy) as (bY & fy & Ey & Rfy & Rby & Cy); rewrite Ey);
    unfold Bleb, SpecFloat.SFleb; cbn [B2SF SpecFloat.SFcompare Chk.bits_of]; unfold join;
    symmetry.
  - apply Z.leb_le; lia.
  - apply Z.leb_le; nia.
  - apply Z.leb_le; nia.
  - apply Z.leb_gt; nia.
  - apply Z.leb_le; lia.
  - apply Z.leb_gt; nia.
  - apply Z.leb_gt; nia.
  - apply Z.leb_le; nia.
  - change (Pos.compare_cont Eq mx my) with (Z.compare (Zpos mx) (Zpos my)).
    destruct (Z.compare_spec ex ey) as [He|He|He].
    + destruct (Z.compare_spec (Zpos mx) (Zpos my)) as [Hm|Hm|Hm].
      * apply Z.leb_le. nia.
      * apply Z.leb_le. nia.
      * apply Z.leb_gt. nia.
    + apply Z.leb_le. nia.
    + apply Z.leb_gt. nia.
Qed.

(* ------------------------------------------------------------------------------------------ *)
(* constants *)
Notation eps := (bpow radix2 (1 - prec)).
Notation rnd := (round radix2 fexp ZnearestE).
Notation format := (generic_format radix2 fexp).
Notation fone := (Chk.fone prec emax prec_gt_0_ prec_lt_emax_).
Notation feps := (Chk.feps prec emax prec_gt_0_ prec_lt_emax_).
Notation fzero := (Chk.fzero prec emax).
Notation is_one := (Chk.is_one prec emax prec_gt_0_ prec_lt_emax_).
Notation is_zero := (Chk.is_zero prec emax prec_gt_0_ prec_lt_emax_).
Notation in_unit_interval := (Chk.in_unit_interval prec emax prec_gt_0_ prec_lt_emax_).
Notation ulps_eq := (Chk.ulps_eq prec emax prec_gt_0_ prec_lt_emax_).
Notation abs_diff_eq := (Chk.abs_diff_eq prec emax prec_gt_0_ prec_lt_emax_).
Notation fadd := (Chk.fadd prec emax prec_gt_0_ prec_lt_emax_).

Lemma emax_gt : prec < emax.
Proof. exact prec_lt_emax_. Qed.

Lemma emin_le : emin <= 2 - 2 * prec.
Proof. unfold SpecFloat.emin. pose proof emax_gt. lia. Qed.

Lemma eps_pos : (0 < eps)%R.
Proof. apply bpow_gt_0. Qed.

Lemma eps_le : (eps <= 1 / 8)%R.
Proof.
  replace (1 / 8)%R with (bpow radix2 (-3)).
  - apply bpow_le. lia.
  - simpl. lra.
Qed.

Lemma fone_R : B2R fone = 1%R.
Proof. apply Bone_correct. Qed.
Lemma fone_fin : is_finite fone = true.
Proof. apply is_finite_Bone. Qed.
Lemma fone_sign : Bsign fone = false.
Proof. apply Bsign_Bone. Qed.

Lemma format_eps : format eps.
Proof.
  apply generic_format_bpow. unfold SpecFloat.fexp. pose proof emin_le. lia.
Qed.

Lemma feps_spec : B2R feps = eps /\ is_finite feps = true.
Proof.
  unfold Chk.feps.
  generalize (Bldexp_correct prec emax prec_gt_0_ prec_lt_emax_ mode_NE Bone (1 - prec)).
  rewrite Bone_correct, Rmult_1_l. cbn [round_mode].
  rewrite round_generic by (try apply valid_rnd_N; apply format_eps).
  rewrite Rlt_bool_true.
  - intros (H1 & H2 & _). rewrite is_finite_Bone in H2. auto.
  - rewrite Rabs_pos_eq by (apply bpow_ge_0). apply bpow_lt. pose proof emax_gt. lia.
Qed.
Lemma feps_R : B2R feps = eps. Proof. exact (proj1 feps_spec). Qed.
Lemma feps_fin : is_finite feps = true. Proof. exact (proj2 feps_spec). Qed.

Lemma fin_not_nan : forall v : float, is_finite v = true -> is_nan v = false.
Proof. intros [ | | | ]; cbn; congruence. Qed.

Lemma pos_sign : forall v : float, is_finite v = true -> (0 < B2R v)%R -> Bsign v = false.
Proof.
  intros [s|s| |s m e H]; cbn; intros F Hp; try discriminate; try lra.
  destruct s; [exfalso|reflexivity].
  assert (F2R (Float radix2 (cond_Zopp true (Zpos m)) e) < 0)%R by (apply F2R_lt_0; cbn; lia).
  lra.
Qed.

Lemma sign_nonneg : forall v : float, is_finite v = true -> Bsign v = false -> (0 <= B2R v)%R.
Proof.
  intros [s|s| |s m e H]; cbn; intros F Hs; try discriminate; try lra.
  subst s. apply F2R_ge_0. cbn. lia.
Qed.

Lemma between_finite : forall a v b : float, is_finite a = true -> is_finite b = true ->
  Bleb a v = true -> Bleb v b = true -> is_finite v = true.
Proof.
  intros a v b Fa Fb H1 H2.
  destruct v as [s|s| |s m e H]; try reflexivity; exfalso.
  - destruct s.
    + destruct a; try discriminate; destruct s; discriminate.
    + destruct b; try discriminate; destruct s; discriminate.
  - destruct a; discriminate.
Qed.

(* ------------------------------------------------------------------------------------------ *)
(* |x - y| <= e in floating point *)
Lemma abs_diff_eq_iff : forall v y e : float, is_finite y = true -> is_finite e = true ->
  abs_diff_eq v y e = true <-> (is_finite v = true /\ (Rabs (rnd (B2R v - B2R y)) <= B2R e)%R).
Proof.
  intros v y e Fy Fe. unfold Chk.abs_diff_eq, fsub, fle. split.
  - intros H.
    assert (Fv : is_finite v = true).
    { destruct v as [s|s| |s m e' H']; try reflexivity; exfalso.
      - destruct y; try discriminate; destruct e; try discriminate; cbn in H; discriminate.
      - destruct y; try discriminate; destruct e; try discriminate; cbn in H; discriminate. }
    split; [exact Fv|].
    generalize (Bminus_correct prec emax prec_gt_0_ prec_lt_emax_ mode_NE v y Fv Fy).
    cbn [round_mode]. case Rlt_bool_spec.
    + intros _ (HR & HF & _).
      rewrite Bleb_correct in H by (try rewrite is_finite_Babs; assumption).
      rewrite B2R_Babs, HR in H. revert H. case Rle_bool_spec; intros; [assumption|discriminate].
    + intros _ (HS & _). exfalso. unfold binary_overflow in HS. cbn in HS.
      destruct (Bminus mode_NE v y); try discriminate.
      destruct e; try discriminate; cbn in H; discriminate.
  - intros (Fv & Hle).
    generalize (Bminus_correct prec emax prec_gt_0_ prec_lt_emax_ mode_NE v y Fv Fy).
    cbn [round_mode]. rewrite Rlt_bool_true.
    + intros (HR & HF & _).
      rewrite Bleb_correct by (try rewrite is_finite_Babs; assumption).
      rewrite B2R_Babs, HR. apply Rle_bool_true. exact Hle.
    + apply Rle_lt_trans with (1 := Hle). apply Rle_lt_trans with (1 := Rle_abs _).
      apply abs_B2R_lt_emax.
Qed.

Lemma ulps_eq_unfold : forall v y : float,
  ulps_eq v y = abs_diff_eq v y feps
                || (signum_eq prec emax v y && (Z.abs (bits_of v - bits_of y) <=? 4)).
Proof.
  intros v y. unfold Chk.ulps_eq, ulps_eq_with, max_ulps.
  destruct (abs_diff_eq v y feps); [reflexivity|].
  destruct (signum_eq prec emax v y); reflexivity.
Qed.

(* ------------------------------------------------------------------------------------------ *)
(* v - 1 is exact near 1 (Sterbenz) and large elsewhere *)
Lemma format_1 : format 1%R.
Proof.
  change 1%R with (bpow radix2 0). apply generic_format_bpow.
  unfold SpecFloat.fexp. pose proof emin_le. lia.
Qed.

Lemma format_half : format (/ 2)%R.
Proof.
  change (/ 2)%R with (bpow radix2 (-1)). apply generic_format_bpow.
  unfold SpecFloat.fexp. pose proof emin_le. lia.
Qed.

Lemma sub1_iff : forall v : R, format v ->
  (Rabs (rnd (v - 1)) <= eps <-> Rabs (v - 1) <= eps)%R.
Proof.
  intros v Fv. pose proof eps_pos as E0. pose proof eps_le as E1.
  destruct (Rle_or_lt (/ 2) v) as [Hlo|Hlo]; [destruct (Rle_or_lt v 2) as [Hhi|Hhi]|].
  - (* exact *)
    rewrite round_generic; [tauto|apply valid_rnd_N|].
    apply sterbenz; [apply fexp_correct; assumption|apply fexp_monotone|assumption|apply format_1|lra].
  - (* v > 2 *)
    assert (1 <= rnd (v - 1))%R.
    { apply Rle_trans with (rnd 1).
      - rewrite round_generic; [lra|apply valid_rnd_N|apply format_1].
      - apply round_le; [apply fexp_correct; assumption|apply valid_rnd_N|lra]. }
    split; intros H0; exfalso.
    + rewrite Rabs_pos_eq in H0 by lra. lra.
    + rewrite Rabs_pos_eq in H0 by lra. lra.
  - (* v < 1/2 *)
    assert (rnd (v - 1) <= - / 2)%R.
    { apply Rle_trans with (rnd (- / 2)).
      - apply round_le; [apply fexp_correct; assumption|apply valid_rnd_N|lra].
      - rewrite round_generic; [lra|apply valid_rnd_N|apply generic_format_opp, format_half]. }
    split; intros H0; exfalso.
    + rewrite Rabs_left in H0 by lra. lra.
    + rewrite Rabs_left in H0 by lra. lra.
Qed.

(* ------------------------------------------------------------------------------------------ *)
(* The floats 4 steps below and above 1.0, given by mantissa and exponent.  That they are
   floats of the format and that their bit patterns are bits(1.0) -+ 4 holds in every format
   with prec >= 4 ([neighbours] below). *)
Definition ulp_neighbours : Prop :=
  exists (Hlo : SpecFloat.bounded prec emax (Z.to_pos (2 * P - 4)) (- prec) = true)
         (Hhi : SpecFloat.bounded prec emax (Z.to_pos (P + 4)) (1 - prec) = true),
    bits_of (B754_finite false (Z.to_pos (2 * P - 4)) (- prec) Hlo) = bits_of fone - 4 /\
    bits_of (B754_finite false (Z.to_pos (P + 4)) (1 - prec) Hhi) = bits_of fone + 4.

Lemma IZR_P : IZR P = bpow radix2 (prec - 1).
Proof. rewrite <- IZR_Zpower by lia. reflexivity. Qed.

Lemma P_ge_8 : 8 <= P.
Proof. change 8 with (2 ^ 3). apply Z.pow_le_mono_r; lia. Qed.

Lemma B2R_lo : forall H, B2R (B754_finite false (Z.to_pos (2 * P - 4)) (- prec) H : float) = (1 - 2 * eps)%R.
Proof.
  intros H. pose proof P_ge_8. cbn [B2R cond_Zopp]. unfold F2R. cbn [Fnum Fexp].
  rewrite Z2Pos.id by lia. rewrite minus_IZR, mult_IZR, IZR_P.
  replace (1 - prec) with (1 + - prec) by ring. replace (prec - 1) with (prec + -1) by ring.
  rewrite !bpow_plus. change (bpow radix2 1) with 2%R. change (bpow radix2 (-1)) with (/ 2)%R.
  rewrite bpow_opp. pose proof (bpow_gt_0 radix2 prec). field. lra.
Qed.

Lemma B2R_hi : forall H, B2R (B754_finite false (Z.to_pos (P + 4)) (1 - prec) H : float) = (1 + 4 * eps)%R.
Proof.
  intros H. pose proof P_ge_8. cbn [B2R cond_Zopp]. unfold F2R. cbn [Fnum Fexp].
  rewrite Z2Pos.id by lia. rewrite plus_IZR, IZR_P.
  rewrite Rmult_plus_distr_r, <- bpow_plus. replace (prec - 1 + (1 - prec)) with 0 by ring.
  reflexivity.
Qed.

(* the two neighbours exist in every format with prec >= 4 *)
Lemma bounded_normal : forall m e, P <= m < 2 * P -> emin <= e <= emax - prec ->
  SpecFloat.bounded prec emax (Z.to_pos m) e = true.
Proof.
  intros m e Hm He. pose proof P_pos as HP. pose proof P_double as HP2.
  unfold SpecFloat.bounded, SpecFloat.canonical_mantissa.
  apply andb_true_intro. split; [|apply Zle_bool_true; lia].
  apply Zeq_bool_true. rewrite Zpos_digits2_pos. rewrite Z2Pos.id by lia.
  rewrite (Zdigits_unique radix2 m prec).
  - unfold SpecFloat.fexp. lia.
  - rewrite Z.abs_eq by lia. change (Zpower radix2) with (Z.pow 2). lia.
Qed.

Lemma bits_normal : forall m e (H : SpecFloat.bounded prec emax (Z.to_pos m) e = true),
  P <= m -> bits_of (B754_finite false (Z.to_pos m) e H) = (e - emin + 1) * P + (m - P).
Proof.
  intros m e H Hm. pose proof P_pos as HP.
  unfold Chk.bits_of, join. rewrite Z2Pos.id by lia.
  destruct (Z.leb_spec 0 (m - P)); [|lia]. unfold SpecFloat.emin. ring.
Qed.

(* 1.0 is the float with mantissa 2^(prec-1) and exponent 1-prec *)
Lemma bits_fone : bits_of fone = (2 - prec - emin) * P.
Proof.
  pose proof P_pos as HP.
  pose proof fone_R as HR. pose proof fone_sign as HS. pose proof fone_fin as HF.
  destruct fone as [s|s| |s m e H]; try discriminate.
  - cbn in HR. lra.
  - cbn in HS. subst s.
    assert (Hc : canonical radix2 fexp (Float radix2 (cond_Zopp false (Zpos m)) e)).
    { apply canonical_canonical_mantissa. assert (H' := H). unfold SpecFloat.bounded in H'.
      apply andb_prop in H'. tauto. }
    unfold canonical in Hc. cbn [Fexp] in Hc. cbn [B2R] in HR. rewrite HR in Hc.
    unfold cexp in Hc. change 1%R with (bpow radix2 0) in Hc. rewrite mag_bpow in Hc.
    assert (He : e = 1 - prec).
    { rewrite Hc. unfold SpecFloat.fexp, SpecFloat.emin. pose proof emax_gt. lia. }
    assert (Hm : Zpos m = P).
    { apply eq_IZR. rewrite IZR_P.
      unfold F2R in HR. cbn [Fnum Fexp cond_Zopp] in HR. rewrite He in HR.
      apply Rmult_eq_reg_r with (bpow radix2 (1 - prec)); [|apply Rgt_not_eq, bpow_gt_0].
      rewrite HR, <- bpow_plus. replace (prec - 1 + (1 - prec)) with 0 by ring. reflexivity. }
    unfold Chk.bits_of, join. rewrite Hm, He. rewrite Z.sub_diag. change (0 <=? 0) with true.
    cbv iota. unfold SpecFloat.emin. ring.
Qed.

Lemma neighbours : ulp_neighbours.
Proof.
  pose proof P_ge_8 as HP8. pose proof emax_gt as Hem.
  unfold ulp_neighbours.
  assert (Hlo : SpecFloat.bounded prec emax (Z.to_pos (2 * P - 4)) (- prec) = true)
    by (apply bounded_normal; unfold SpecFloat.emin; lia).
  assert (Hhi : SpecFloat.bounded prec emax (Z.to_pos (P + 4)) (1 - prec) = true)
    by (apply bounded_normal; unfold SpecFloat.emin; lia).
  exists Hlo, Hhi. rewrite !bits_normal by lia. rewrite bits_fone. split; ring.
Qed.

Theorem is_one_spec : forall v : float,
  is_one v = true <-> (is_finite v = true /\ (1 - 2 * eps <= B2R v <= 1 + 4 * eps)%R).
Proof.
  intros v. pose proof eps_pos as E0. pose proof eps_le as E1.
  destruct neighbours as (Hlo & Hhi & Blo & Bhi).
  set (flo := B754_finite false (Z.to_pos (2 * P - 4)) (- prec) Hlo : float) in *.
  set (fhi := B754_finite false (Z.to_pos (P + 4)) (1 - prec) Hhi : float) in *.
  assert (Rlo : B2R flo = (1 - 2 * eps)%R) by apply B2R_lo.
  assert (Rhi : B2R fhi = (1 + 4 * eps)%R) by apply B2R_hi.
  unfold Chk.is_one. rewrite ulps_eq_unfold. split.
  - intros H. apply orb_prop in H. destruct H as [H|H].
    + apply abs_diff_eq_iff in H; [|apply fone_fin|apply feps_fin].
      destruct H as (Fv & H). split; [exact Fv|].
      rewrite fone_R, feps_R in H. apply sub1_iff in H; [|apply generic_format_B2R].
      apply Rabs_le_inv in H. lra.
    + apply andb_prop in H. destruct H as (Hs & Hb).
      unfold signum_eq in Hs. apply andb_prop in Hs. destruct Hs as (Hn & Hs).
      apply andb_prop in Hn. destruct Hn as (Nv & _). apply negb_true_iff in Nv.
      apply eqb_prop in Hs. rewrite fone_sign in Hs.
      apply Z.leb_le in Hb.
      assert (L1 : Bleb flo v = true).
      { rewrite fle_bits by (try assumption; reflexivity). apply Z.leb_le. rewrite Blo. lia. }
      assert (L2 : Bleb v fhi = true).
      { rewrite fle_bits by (try assumption; reflexivity). apply Z.leb_le. rewrite Bhi. lia. }
      assert (Fv : is_finite v = true) by (apply (between_finite flo v fhi); auto).
      split; [exact Fv|].
      rewrite Bleb_correct in L1, L2 by (auto). rewrite Rlo in L1. rewrite Rhi in L2.
      revert L1 L2. case Rle_bool_spec; [|discriminate]. case Rle_bool_spec; [|discriminate]. lra.
  - intros (Fv & Hv). apply orb_true_iff. right.
    assert (Sv : Bsign v = false) by (apply pos_sign; [assumption|lra]).
    assert (Nv : is_nan v = false) by (apply fin_not_nan; assumption).
    apply andb_true_iff. split.
    + unfold signum_eq. rewrite Nv, Sv, fone_sign, (fin_not_nan _ fone_fin). reflexivity.
    + assert (L1 : Bleb flo v = true) by (rewrite Bleb_correct by auto; apply Rle_bool_true; lra).
      assert (L2 : Bleb v fhi = true) by (rewrite Bleb_correct by auto; apply Rle_bool_true; lra).
      rewrite fle_bits in L1, L2 by (try assumption; reflexivity).
      apply Z.leb_le in L1, L2. apply Z.leb_le. rewrite Blo in L1. rewrite Bhi in L2. lia.
Qed.

Theorem is_zero_spec : forall v : float,
  is_zero v = true <-> (is_finite v = true /\ (Rabs (B2R v) <= eps)%R).
Proof.
  intros v. pose proof eps_pos as E0. pose proof P_ge_8 as HP8.
  assert (Hem : prec < emax) by apply emax_gt.
  unfold Chk.is_zero. rewrite ulps_eq_unfold. split.
  - intros H. apply orb_prop in H. destruct H as [H|H].
    + apply abs_diff_eq_iff in H; [|reflexivity|apply feps_fin].
      destruct H as (Fv & H). split; [exact Fv|].
      rewrite feps_R in H. cbn [B2R Chk.fzero] in H. rewrite Rminus_0_r in H.
      rewrite round_generic in H; [exact H|apply valid_rnd_N|apply generic_format_B2R].
    + apply andb_prop in H. destruct H as (Hs & Hb).
      unfold signum_eq in Hs. apply andb_prop in Hs. destruct Hs as (Hn & Hs).
      apply andb_prop in Hn. destruct Hn as (Nv & _). apply negb_true_iff in Nv.
      apply eqb_prop in Hs. cbn [Bsign Chk.fzero] in Hs.
      apply Z.leb_le in Hb.
      replace (bits_of fzero) with 0 in Hb by (unfold Chk.bits_of, Chk.fzero, join; ring).
      rewrite Z.sub_0_r in Hb.
      destruct v as [s|s| |s m e Hm]; try discriminate.
      * split; [reflexivity|]. cbn [B2R]. rewrite Rabs_R0. lra.
      * exfalso. cbn [Bsign] in Hs. subst s. unfold Chk.bits_of, join in Hb.
        assert (8 <= (0 + (2 * emax - 1)) * P + 0) by nia. lia.
      * cbn [Bsign] in Hs. subst s. split; [reflexivity|].
        destruct (bits_finite_pos m e Hm) as (be & f & Eb & Rf & Rb & C). rewrite Eb in Hb.
        assert (be = 0) by nia. subst be.
        destruct C as [(_ & Ee & Ef & _)|(_ & Hbe & _)]; [|lia].
        assert (Hm4 : (Zpos m <= 4)%Z) by lia.
        cbn [B2R cond_Zopp]. unfold F2R. cbn [Fnum Fexp]. rewrite Ee.
        rewrite Rabs_pos_eq by (apply Rmult_le_pos; [apply IZR_le; lia|apply bpow_ge_0]).
        apply Rle_trans with (4 * bpow radix2 emin)%R.
        { apply Rmult_le_compat_r; [apply bpow_ge_0|apply IZR_le; exact Hm4]. }
        change 4%R with (bpow radix2 2). rewrite <- bpow_plus. apply bpow_le.
        unfold SpecFloat.emin. lia.
  - intros (Fv & Hv). apply orb_true_iff. left.
    apply abs_diff_eq_iff; [reflexivity|apply feps_fin|]. split; [exact Fv|].
    rewrite feps_R. cbn [B2R Chk.fzero]. rewrite Rminus_0_r.
    rewrite round_generic; [exact Hv|apply valid_rnd_N|apply generic_format_B2R].
Qed.

Lemma in_unit_unfold : forall v : float,
  in_unit_interval v = (Bleb fzero v && Bleb v fone) || is_zero v || is_one v.
Proof. reflexivity. Qed.

Theorem in_unit_spec : forall v : float,
  in_unit_interval v = true <-> (is_finite v = true /\ (- eps <= B2R v <= 1 + 4 * eps)%R).
Proof.
  intros v. pose proof eps_pos as E0. pose proof eps_le as E1.
  rewrite in_unit_unfold. split.
  - intros H. apply orb_prop in H. destruct H as [H|H]; [apply orb_prop in H; destruct H as [H|H]|].
    + apply andb_prop in H. destruct H as (L1 & L2).
      assert (Fv : is_finite v = true)
        by (apply (between_finite fzero v fone); auto using fone_fin).
      split; [exact Fv|].
      rewrite Bleb_correct in L1, L2 by (auto using fone_fin). rewrite fone_R in L2.
      cbn [B2R Chk.fzero] in L1.
      revert L1 L2. case Rle_bool_spec; [|discriminate]. case Rle_bool_spec; [|discriminate]. lra.
    + apply is_zero_spec in H. destruct H as (Fv & H). split; [exact Fv|].
      apply Rabs_le_inv in H. lra.
    + apply is_one_spec in H. destruct H as (Fv & H). split; [exact Fv|]. lra.
  - intros (Fv & Hv).
    destruct (Rlt_or_le (B2R v) 0) as [Hn|Hn]; [|destruct (Rle_or_lt (B2R v) 1) as [Hl|Hl]].
    + assert (is_zero v = true) as -> by (apply is_zero_spec; split; [exact Fv|apply Rabs_le; lra]).
      rewrite orb_true_r. reflexivity.
    + assert (Bleb fzero v = true) as ->
        by (rewrite Bleb_correct by auto; cbn [B2R Chk.fzero]; apply Rle_bool_true; lra).
      assert (Bleb v fone = true) as ->
        by (rewrite Bleb_correct by (auto using fone_fin); rewrite fone_R; apply Rle_bool_true; lra).
      reflexivity.
    + assert (is_one v = true) as -> by (apply is_one_spec; split; [exact Fv|lra]).
      rewrite orb_true_r. reflexivity.
Qed.

(* ------------------------------------------------------------------------------------------ *)
(* The decisions of the entry points *)
Notation check_acc := (Chk.check_acc prec emax prec_gt_0_ prec_lt_emax_).
Notation check_simplex := (Chk.check_simplex prec emax prec_gt_0_ prec_lt_emax_).
Notation check_base_rate := (Chk.check_base_rate prec emax prec_gt_0_ prec_lt_emax_).
Notation bcheck_simplex := (Chk.bcheck_simplex prec emax prec_gt_0_ prec_lt_emax_).
Notation bsimplex_try_new := (Chk.bsimplex_try_new prec emax prec_gt_0_ prec_lt_emax_).
Notation bop_try_new := (Chk.bop_try_new prec emax prec_gt_0_ prec_lt_emax_).
Notation simplex_try_new := (Chk.simplex_try_new prec emax prec_gt_0_ prec_lt_emax_).
Notation opinion_try_new := (Chk.opinion_try_new prec emax prec_gt_0_ prec_lt_emax_).
Notation into_opinion := (Chk.into_opinion prec emax prec_gt_0_ prec_lt_emax_).

(* the float sum: left to right from +0.0 *)
Definition fsum (l : list float) : float := fold_left fadd l fzero.
(* the first entry that fails the range check *)
Definition first_bad (l : list float) : option float := find (fun x => negb (in_unit_interval x)) l.

Lemma first_bad_none : forall l, first_bad l = None <-> forallb in_unit_interval l = true.
Proof.
  induction l as [|x r IH]; cbn; [tauto|].
  destruct (in_unit_interval x); cbn; [exact IH|]. split; discriminate.
Qed.

Lemma first_bad_some : forall l v, first_bad l = Some v -> In v l /\ in_unit_interval v = false.
Proof.
  intros l v H. apply find_some in H. destruct H as (Hi & Hb).
  split; [exact Hi|]. apply negb_true_iff in Hb. exact Hb.
Qed.

Lemma check_acc_eq : forall l s,
  check_acc l s = match first_bad l with Some v => Err v | None => Ok (fold_left fadd l s) end.
Proof.
  induction l as [|x r IH]; intros s; cbn; [reflexivity|].
  unfold check_unit_interval. destruct (in_unit_interval x); cbn; [apply IH|reflexivity].
Qed.

Lemma check_simplex_eq : forall b u,
  check_simplex b u =
    match first_bad b with
    | Some v => Fail v
    | None => if in_unit_interval u
              then (if is_one (fadd (fsum b) u) then Pass else Fail (fadd (fsum b) u))
              else Fail u
    end.
Proof.
  intros b u. unfold Chk.check_simplex. rewrite check_acc_eq.
  destruct (first_bad b); [reflexivity|].
  unfold check_unit_interval, check_is_one, fsum. destruct (in_unit_interval u); reflexivity.
Qed.

Lemma check_base_rate_eq : forall a,
  check_base_rate a =
    match first_bad a with
    | Some v => Fail v
    | None => if is_one (fsum a) then Pass else Fail (fsum a)
    end.
Proof.
  intros a. unfold Chk.check_base_rate. rewrite check_acc_eq.
  destruct (first_bad a); reflexivity.
Qed.

Lemma bcheck_simplex_eq : forall b d u,
  bcheck_simplex b d u =
    if negb (is_one (fadd (fadd b d) u)) then Fail (fadd (fadd b d) u)
    else if negb (in_unit_interval b) then Fail b
    else if negb (in_unit_interval d) then Fail d
    else if negb (in_unit_interval u) then Fail u
    else Pass.
Proof.
  intros b d u. unfold Chk.bcheck_simplex, check_is_one, check_unit_interval.
  destruct (is_one _); cbn; [|reflexivity].
  destruct (in_unit_interval b); cbn; [|reflexivity].
  destruct (in_unit_interval d); cbn; [|reflexivity].
  destruct (in_unit_interval u); reflexivity.
Qed.

(* which check fires first, which value it reports, and what is stored *)
Theorem bop_try_new_eq : forall b d u a,
  bop_try_new b d u a =
    if negb (in_unit_interval a) then Err a
    else if negb (is_one (fadd (fadd b d) u)) then Err (fadd (fadd b d) u)
    else if negb (in_unit_interval b) then Err b
    else if negb (in_unit_interval d) then Err d
    else if negb (in_unit_interval u) then Err u
    else Ok (b, d, u, a).
Proof.
  intros b d u a. unfold Chk.bop_try_new, Chk.bsimplex_try_new, bcheck_base_rate, check_unit_interval.
  rewrite bcheck_simplex_eq.
  destruct (in_unit_interval a); cbn; [|reflexivity].
  destruct (is_one _); cbn; [|reflexivity].
  destruct (in_unit_interval b); cbn; [|reflexivity].
  destruct (in_unit_interval d); cbn; [|reflexivity].
  destruct (in_unit_interval u); reflexivity.
Qed.

Theorem bsimplex_try_new_eq : forall b d u,
  bsimplex_try_new b d u =
    if negb (is_one (fadd (fadd b d) u)) then Err (fadd (fadd b d) u)
    else if negb (in_unit_interval b) then Err b
    else if negb (in_unit_interval d) then Err d
    else if negb (in_unit_interval u) then Err u
    else Ok (b, d, u).
Proof.
  intros b d u. unfold Chk.bsimplex_try_new. rewrite bcheck_simplex_eq.
  destruct (is_one _); cbn; [|reflexivity].
  destruct (in_unit_interval b); cbn; [|reflexivity].
  destruct (in_unit_interval d); cbn; [|reflexivity].
  destruct (in_unit_interval u); reflexivity.
Qed.

(* accept_iff: the decision is exactly the conjunction of the range tests and the sum test(s) *)
Theorem accept_bsimplex_iff : forall b d u,
  is_ok (bsimplex_try_new b d u) =
    is_one (fadd (fadd b d) u) && in_unit_interval b && in_unit_interval d && in_unit_interval u.
Proof.
  intros b d u. rewrite bsimplex_try_new_eq.
  destruct (is_one _); cbn; [|reflexivity].
  destruct (in_unit_interval b); cbn; [|reflexivity].
  destruct (in_unit_interval d); cbn; [|reflexivity].
  destruct (in_unit_interval u); reflexivity.
Qed.

Theorem accept_bop_iff : forall b d u a,
  is_ok (bop_try_new b d u a) =
    in_unit_interval a &&
    (is_one (fadd (fadd b d) u) && in_unit_interval b && in_unit_interval d && in_unit_interval u).
Proof.
  intros b d u a. rewrite bop_try_new_eq.
  destruct (in_unit_interval a); cbn; [|reflexivity].
  destruct (is_one _); cbn; [|reflexivity].
  destruct (in_unit_interval b); cbn; [|reflexivity].
  destruct (in_unit_interval d); cbn; [|reflexivity].
  destruct (in_unit_interval u); reflexivity.
Qed.

Lemma passes_check_simplex : forall b u,
  passes (check_simplex b u) =
    forallb in_unit_interval b && in_unit_interval u && is_one (fadd (fsum b) u).
Proof.
  intros b u. rewrite check_simplex_eq.
  destruct (first_bad b) as [v|] eqn:E.
  - destruct (forallb in_unit_interval b) eqn:F; [|reflexivity].
    apply first_bad_none in F. congruence.
  - apply first_bad_none in E. rewrite E. cbn.
    destruct (in_unit_interval u); cbn; [|reflexivity]. destruct (is_one _); reflexivity.
Qed.

Lemma passes_check_base_rate : forall a,
  passes (check_base_rate a) = forallb in_unit_interval a && is_one (fsum a).
Proof.
  intros a. rewrite check_base_rate_eq.
  destruct (first_bad a) as [v|] eqn:E.
  - destruct (forallb in_unit_interval a) eqn:F; [|reflexivity].
    apply first_bad_none in F. congruence.
  - apply first_bad_none in E. rewrite E. cbn. destruct (is_one _); reflexivity.
Qed.

Lemma is_ok_guard : forall A (c : chk prec emax) (k : result prec emax A),
  is_ok (guard prec emax c k) = passes c && is_ok k.
Proof. intros A [|v] k; reflexivity. Qed.

Theorem accept_simplex_iff : forall b u,
  is_ok (simplex_try_new b u) =
    forallb in_unit_interval b && in_unit_interval u && is_one (fadd (fsum b) u).
Proof.
  intros b u. unfold Chk.simplex_try_new. rewrite is_ok_guard, passes_check_simplex. cbn.
  apply andb_true_r.
Qed.

Theorem accept_opinion_iff : forall b u a,
  is_ok (opinion_try_new b u a) =
    (forallb in_unit_interval b && in_unit_interval u && is_one (fadd (fsum b) u))
    && (forallb in_unit_interval a && is_one (fsum a)).
Proof.
  intros b u a. unfold Chk.opinion_try_new.
  rewrite !is_ok_guard, passes_check_simplex, passes_check_base_rate. cbn.
  rewrite andb_true_r. reflexivity.
Qed.

Theorem accept_into_opinion_iff : forall s a,
  is_ok (into_opinion s a) = forallb in_unit_interval a && is_one (fsum a).
Proof.
  intros s a. unfold Chk.into_opinion. rewrite is_ok_guard, passes_check_base_rate. cbn.
  apply andb_true_r.
Qed.

(* stores_unchanged *)
Theorem bop_stores : forall b d u a w, bop_try_new b d u a = Ok w -> w = (b, d, u, a).
Proof.
  intros b d u a w. rewrite bop_try_new_eq.
  repeat (match goal with |- context [if ?c then _ else _] => destruct c end; try discriminate).
  intros H. inversion H. reflexivity.
Qed.

Theorem bsimplex_stores : forall b d u w, bsimplex_try_new b d u = Ok w -> w = (b, d, u).
Proof.
  intros b d u w. rewrite bsimplex_try_new_eq.
  repeat (match goal with |- context [if ?c then _ else _] => destruct c end; try discriminate).
  intros H. inversion H. reflexivity.
Qed.

Theorem simplex_stores : forall b u w, simplex_try_new b u = Ok w -> w = (b, u).
Proof.
  intros b u w. unfold Chk.simplex_try_new. destruct (check_simplex b u); cbn; [|discriminate].
  intros H. inversion H. reflexivity.
Qed.

Theorem opinion_stores : forall b u a w, opinion_try_new b u a = Ok w -> w = (b, u, a).
Proof.
  intros b u a w. unfold Chk.opinion_try_new. destruct (check_simplex b u); cbn; [|discriminate].
  destruct (check_base_rate a); cbn; [|discriminate].
  intros H. inversion H. reflexivity.
Qed.

Theorem into_opinion_stores : forall s a w, into_opinion s a = Ok w -> w = (fst s, snd s, a).
Proof.
  intros s a w. unfold Chk.into_opinion. destruct (check_base_rate a); cbn; [|discriminate].
  intros H. inversion H. reflexivity.
Qed.

(* new = try_new().unwrap() *)
Theorem unwrap_panics_iff : forall A (r : result prec emax A), unwrap r = Panics <-> is_ok r = false.
Proof. intros A [x|v]; cbn; split; intros H; try discriminate; reflexivity. Qed.

Theorem unwrap_returns_iff : forall A (r : result prec emax A) x, unwrap r = Returns x <-> r = Ok x.
Proof.
  intros A [y|v] x; cbn; split; intros H; try discriminate; inversion H; reflexivity.
Qed.

(* ------------------------------------------------------------------------------------------ *)
(* reject_nonfinite *)
Lemma in_unit_finite : forall v, in_unit_interval v = true -> is_finite v = true.
Proof. intros v H. apply in_unit_spec in H. tauto. Qed.

Lemma forallb_in_unit_finite : forall l, forallb in_unit_interval l = true ->
  forall x, In x l -> is_finite x = true.
Proof.
  intros l H x Hx. rewrite forallb_forall in H. apply in_unit_finite. apply H. exact Hx.
Qed.

Lemma nonfinite_forallb : forall l x, In x l -> is_finite x = false ->
  forallb in_unit_interval l = false.
Proof.
  intros l x Hi Hf. destruct (forallb in_unit_interval l) eqn:E; [|reflexivity].
  rewrite (forallb_in_unit_finite l E x Hi) in Hf. discriminate.
Qed.

Lemma nonfinite_in_unit : forall x, is_finite x = false -> in_unit_interval x = false.
Proof.
  intros x Hf. destruct (in_unit_interval x) eqn:E; [|reflexivity].
  rewrite (in_unit_finite x E) in Hf. discriminate.
Qed.

Theorem reject_nonfinite_bop : forall b d u a,
  is_finite b = false \/ is_finite d = false \/ is_finite u = false \/ is_finite a = false ->
  is_ok (bop_try_new b d u a) = false.
Proof.
  intros b d u a H. rewrite accept_bop_iff.
  destruct H as [H|[H|[H|H]]]; rewrite (nonfinite_in_unit _ H);
    repeat (rewrite ?andb_false_r, ?andb_false_l); reflexivity.
Qed.

Theorem reject_nonfinite_bsimplex : forall b d u,
  is_finite b = false \/ is_finite d = false \/ is_finite u = false ->
  is_ok (bsimplex_try_new b d u) = false.
Proof.
  intros b d u H. rewrite accept_bsimplex_iff.
  destruct H as [H|[H|H]]; rewrite (nonfinite_in_unit _ H);
    repeat (rewrite ?andb_false_r, ?andb_false_l); reflexivity.
Qed.

Theorem reject_nonfinite_simplex : forall b u,
  (exists x, In x b /\ is_finite x = false) \/ is_finite u = false ->
  is_ok (simplex_try_new b u) = false.
Proof.
  intros b u H. rewrite accept_simplex_iff. destruct H as [(x & Hi & Hf)|H].
  - rewrite (nonfinite_forallb b x Hi Hf). reflexivity.
  - rewrite (nonfinite_in_unit _ H). rewrite andb_false_r. reflexivity.
Qed.

Theorem reject_nonfinite_base_rate : forall s a,
  (exists x, In x a /\ is_finite x = false) -> is_ok (into_opinion s a) = false.
Proof.
  intros s a (x & Hi & Hf). rewrite accept_into_opinion_iff.
  rewrite (nonfinite_forallb a x Hi Hf). reflexivity.
Qed.

Theorem reject_nonfinite_opinion : forall b u a,
  (exists x, In x b /\ is_finite x = false) \/ is_finite u = false \/
  (exists x, In x a /\ is_finite x = false) ->
  is_ok (opinion_try_new b u a) = false.
Proof.
  intros b u a H. rewrite accept_opinion_iff. destruct H as [(x & Hi & Hf)|[H|(x & Hi & Hf)]].
  - rewrite (nonfinite_forallb b x Hi Hf). reflexivity.
  - rewrite (nonfinite_in_unit _ H). rewrite andb_false_r. reflexivity.
  - rewrite (nonfinite_forallb a x Hi Hf). apply andb_false_r.
Qed.

(* accept_sound, float-sum form: an accepted simplex has every component finite and in
   [-eps, 1 + 4 eps], and its float sum in [1 - 2 eps, 1 + 4 eps] *)
Definition in_tol (v : float) : Prop := is_finite v = true /\ (- eps <= B2R v <= 1 + 4 * eps)%R.
Definition near_one (v : float) : Prop := is_finite v = true /\ (1 - 2 * eps <= B2R v <= 1 + 4 * eps)%R.

Theorem accept_simplex_sound : forall b u, is_ok (simplex_try_new b u) = true <->
  (Forall in_tol b /\ in_tol u /\ near_one (fadd (fsum b) u)).
Proof.
  intros b u. rewrite accept_simplex_iff, !andb_true_iff, forallb_forall, Forall_forall.
  unfold in_tol, near_one. rewrite in_unit_spec, is_one_spec.
  split; [intros ((H1 & H2) & H3)|intros (H1 & H2 & H3)].
  - split; [|tauto]. intros x Hx. apply in_unit_spec. apply H1. exact Hx.
  - split; [split|]; try tauto. intros x Hx. apply in_unit_spec. apply H1. exact Hx.
Qed.

Theorem accept_base_rate_sound : forall s a, is_ok (into_opinion s a) = true <->
  (Forall in_tol a /\ near_one (fsum a)).
Proof.
  intros s a. rewrite accept_into_opinion_iff, !andb_true_iff, forallb_forall, Forall_forall.
  unfold in_tol, near_one. rewrite is_one_spec.
  split; intros (H1 & H2); (split; [|tauto]); intros x Hx; apply in_unit_spec; apply H1; exact Hx.
Qed.

Theorem accept_opinion_sound : forall b u a, is_ok (opinion_try_new b u a) = true <->
  (Forall in_tol b /\ in_tol u /\ near_one (fadd (fsum b) u)) /\ (Forall in_tol a /\ near_one (fsum a)).
Proof.
  intros b u a. rewrite <- accept_simplex_sound, <- (accept_base_rate_sound (b, u) a).
  rewrite accept_opinion_iff, accept_simplex_iff, accept_into_opinion_iff. apply andb_true_iff.
Qed.

Theorem accept_bop_sound : forall b d u a, is_ok (bop_try_new b d u a) = true <->
  (in_tol b /\ in_tol d /\ in_tol u /\ in_tol a /\ near_one (fadd (fadd b d) u)).
Proof.
  intros b d u a. rewrite accept_bop_iff, !andb_true_iff. unfold in_tol, near_one.
  rewrite !in_unit_spec, is_one_spec. tauto.
Qed.

(* ------------------------------------------------------------------------------------------ *)
(* accept_sound, real-sum form: rounding error of the accumulated sum *)

Lemma IZR_pow2 : forall e : Z, 0 <= e -> IZR (2 ^ e) = bpow radix2 e.
Proof. intros e He. rewrite <- IZR_Zpower by assumption. reflexivity. Qed.

Lemma ulp_lt_2 : forall r : R, (Rabs r < 2)%R -> (ulp radix2 fexp r <= eps)%R.
Proof.
  intros r Hr. destruct (Req_dec r 0) as [->|Hz].
  - change fexp with (FLT_exp emin prec). rewrite ulp_FLT_0 by assumption.
    apply bpow_le. unfold SpecFloat.emin. pose proof emax_gt. lia.
  - rewrite ulp_neq_0 by assumption. apply bpow_le. unfold cexp, SpecFloat.fexp.
    assert (mag radix2 r <= 1) by (apply mag_le_bpow; [assumption|exact Hr]).
    pose proof emin_le. lia.
Qed.

Lemma fadd_finite_inv : forall s x : float, is_finite (fadd s x) = true ->
  is_finite s = true /\ is_finite x = true.
Proof.
  intros s x. unfold Chk.fadd.
  destruct s as [ss|ss| |ss ms es Hs], x as [sx|sx| |sx mx ex Hx]; cbn; try (intros; split; congruence).
  destruct (Bool.eqb ss sx); cbn; intros; discriminate.
Qed.

(* one addition: the result is the rounded exact sum, within eps/2 when the result is below 2 *)
Lemma fadd_step : forall s x : float, is_finite (fadd s x) = true ->
  is_finite s = true /\ is_finite x = true /\
  B2R (fadd s x) = rnd (B2R s + B2R x) /\
  ((Rabs (B2R (fadd s x)) < 2)%R -> (Rabs (B2R (fadd s x) - (B2R s + B2R x)) <= eps / 2)%R).
Proof.
  intros s x F. destruct (fadd_finite_inv s x F) as (Fs & Fx).
  split; [exact Fs|]. split; [exact Fx|].
  generalize (Bplus_correct prec emax prec_gt_0_ prec_lt_emax_ mode_NE s x Fs Fx).
  cbn [round_mode]. case Rlt_bool_spec.
  - intros _ (HR & _). split; [exact HR|]. intros Hlt. unfold Chk.fadd in *. rewrite HR in *.
    pose proof (@error_le_half_ulp_round radix2 fexp (fexp_correct prec emax prec_gt_0_)
                  (fexp_monotone prec emax) (fun z => negb (Z.even z)) (B2R s + B2R x)%R) as He.
    fold ZnearestE in He. pose proof (ulp_lt_2 _ Hlt). lra.
  - intros _ (HS & _). exfalso. unfold binary_overflow in HS. cbn in HS. unfold Chk.fadd in F.
    destruct (Bplus mode_NE s x); discriminate.
Qed.

Definition rsum (l : list float) : R := fold_right (fun x acc => (B2R x + acc)%R) 0%R l.

Lemma rsum_app : forall l x, rsum (l ++ [x]) = (rsum l + B2R x)%R.
Proof. induction l as [|y r IH]; intros x; cbn; [lra|]. fold (rsum (r ++ [x])). rewrite IH. fold (rsum r). lra. Qed.

Lemma fsum_app : forall l x, fsum (l ++ [x]) = fadd (fsum l) x.
Proof. intros l x. unfold fsum. rewrite fold_left_app. reflexivity. Qed.

Lemma format_neg_k_eps : forall k : nat, (Z.of_nat k < 2 ^ prec)%Z -> format (- (INR k * eps))%R.
Proof.
  intros k Hk. apply generic_format_opp.
  change fexp with (FLT_exp emin prec). apply generic_format_FLT.
  exists (Float radix2 (Z.of_nat k) (1 - prec)).
  - unfold F2R. cbn [Fnum Fexp]. rewrite <- INR_IZR_INZ. reflexivity.
  - cbn [Fnum]. rewrite Z.abs_eq by lia. exact Hk.
  - cbn [Fexp]. unfold SpecFloat.emin. pose proof emax_gt. lia.
Qed.

(* lower bound of the float partial sums when every term is >= -eps *)
Lemma fsum_lower : forall T : list float, (Z.of_nat (length T) < 2 ^ prec)%Z ->
  Forall (fun x => (- eps <= B2R x)%R) T -> is_finite (fsum T) = true ->
  (- (INR (length T) * eps) <= B2R (fsum T))%R.
Proof.
  induction T as [|x T IH] using rev_ind; intros Hlen HT F.
  - cbn. lra.
  - rewrite fsum_app in *. rewrite app_length in *. cbn [length] in *. rewrite Nat.add_1_r in *.
    apply Forall_app in HT. destruct HT as (HT & Hx). inversion Hx as [|? ? Hx' _]. subst.
    destruct (fadd_step _ _ F) as (Fs & Fx & HR & _).
    assert (IH' := IH ltac:(lia) HT Fs).
    rewrite HR.
    apply Rle_trans with (rnd (- (INR (S (length T)) * eps))).
    + rewrite round_generic; [lra|apply valid_rnd_N|apply format_neg_k_eps; exact Hlen].
    + apply round_le; [apply fexp_correct; assumption|apply valid_rnd_N|].
      rewrite S_INR. lra.
Qed.

(* rounding error of the whole sum, when the number of terms is at most 2^(prec-3) *)
Lemma fsum_error_aux : forall T : list float, forall j : nat,
  (INR (length T + j) * eps <= / 4)%R ->
  Forall (fun x => (- eps <= B2R x)%R) T -> is_finite (fsum T) = true ->
  (B2R (fsum T) <= 1 + 4 * eps + INR j * (3 / 2 * eps))%R ->
  (Rabs (rsum T - B2R (fsum T)) <= INR (length T) * (eps / 2))%R.
Proof.
  pose proof eps_pos as E0. pose proof eps_le as E1.
  induction T as [|x T IH] using rev_ind; intros j Hlen HT F Hup.
  - cbn. rewrite Rminus_0_r, Rabs_R0. lra.
  - assert (Hlen' : (Z.of_nat (length (T ++ [x])) < 2 ^ prec)%Z).
    { apply lt_IZR. rewrite <- INR_IZR_INZ. rewrite IZR_pow2 by lia.
      assert (INR (length (T ++ [x])) <= INR (length (T ++ [x]) + j))%R by (apply le_INR; lia).
      assert (INR (length (T ++ [x])) * eps < 1)%R by nra.
      assert (Hb : (bpow radix2 prec * eps = 2)%R).
      { rewrite <- bpow_plus. replace (prec + (1 - prec))%Z with 1%Z by ring. reflexivity. }
      apply Rmult_lt_reg_r with eps; [exact E0|]. rewrite Hb. lra. }
    pose proof (fsum_lower _ Hlen' HT F) as Hlow.
    rewrite fsum_app in *. rewrite rsum_app. rewrite app_length in *. cbn [length] in *.
    apply Forall_app in HT. destruct HT as (HT & Hx). inversion Hx as [|? ? Hx' _]. subst.
    destruct (fadd_step _ _ F) as (Fs & Fx & HR & Herr).
    set (r := B2R (fadd (fsum T) x)) in *.
    assert (Hj : (INR j * eps <= / 4)%R).
    { assert (INR j <= INR (length T + 1 + j))%R by (apply le_INR; lia). nra. }
    assert (Hk : (INR (length T + 1) * eps <= / 4)%R).
    { assert (INR (length T + 1) <= INR (length T + 1 + j))%R by (apply le_INR; lia). nra. }
    assert (Hr2 : (Rabs r < 2)%R) by (apply Rabs_lt; lra).
    specialize (Herr Hr2). apply Rabs_le_inv in Herr.
    assert (IH' : (Rabs (rsum T - B2R (fsum T)) <= INR (length T) * (eps / 2))%R).
    { apply (IH (S j)); try assumption.
      - replace (length T + S j)%nat with (length T + 1 + j)%nat by lia. exact Hlen.
      - rewrite S_INR. lra. }
    apply Rabs_le_inv in IH'. rewrite plus_INR. cbn [INR]. apply Rabs_le. lra.
Qed.

Theorem fsum_error : forall T : list float,
  (Z.of_nat (length T) <= 2 ^ (prec - 3))%Z ->
  Forall in_tol T -> near_one (fsum T) ->
  (Rabs (rsum T - B2R (fsum T)) <= INR (length T) * (eps / 2))%R.
Proof.
  intros T Hlen HT (F & Hs).
  apply (fsum_error_aux T 0).
  - rewrite Nat.add_0_r. apply IZR_le in Hlen. rewrite <- INR_IZR_INZ in Hlen.
    rewrite IZR_pow2 in Hlen by lia.
    replace (/ 4)%R with (bpow radix2 (prec - 3) * eps)%R.
    + apply Rmult_le_compat_r; [apply bpow_ge_0|exact Hlen].
    + rewrite <- bpow_plus. replace (prec - 3 + (1 - prec))%Z with (-2)%Z by ring. reflexivity.
  - eapply Forall_impl; [|exact HT]. intros a (_ & Ha). lra.
  - exact F.
  - cbn [INR]. lra.
Qed.

(* accept_sound: an accepted simplex / base rate / opinion has every component in
   [-eps, 1 + 4 eps] and its REAL sum within (4 + n/2) eps of 1, n the number of summed terms
   (at most 2^(prec-3) terms). *)
Theorem accept_simplex_real : forall b u,
  (Z.of_nat (length b) + 1 <= 2 ^ (prec - 3))%Z ->
  is_ok (simplex_try_new b u) = true ->
  Forall in_tol b /\ in_tol u /\
  (Rabs (rsum b + B2R u - 1) <= (4 + INR (length b + 1) / 2) * eps)%R.
Proof.
  intros b u Hlen H. apply accept_simplex_sound in H. destruct H as (Hb & Hu & Hs).
  split; [exact Hb|]. split; [exact Hu|].
  rewrite <- fsum_app in Hs.
  assert (HT : Forall in_tol (b ++ [u])) by (apply Forall_app; split; [exact Hb|constructor; [exact Hu|constructor]]).
  assert (HL : (Z.of_nat (length (b ++ [u])) <= 2 ^ (prec - 3))%Z) by (rewrite app_length; cbn [length]; lia).
  pose proof (fsum_error _ HL HT Hs) as E. rewrite rsum_app, app_length in E. cbn [length] in E.
  destruct Hs as (_ & Hs). apply Rabs_le_inv in E. apply Rabs_le. lra.
Qed.

Theorem accept_base_rate_real : forall s a,
  (Z.of_nat (length a) <= 2 ^ (prec - 3))%Z ->
  is_ok (into_opinion s a) = true ->
  Forall in_tol a /\ (Rabs (rsum a - 1) <= (4 + INR (length a) / 2) * eps)%R.
Proof.
  intros s a Hlen H. apply accept_base_rate_sound in H. destruct H as (Ha & Hs).
  split; [exact Ha|].
  pose proof (fsum_error _ Hlen Ha Hs) as E. destruct Hs as (_ & Hs).
  apply Rabs_le_inv in E. apply Rabs_le. lra.
Qed.

(* binomial: two additions *)
Theorem accept_bop_real : forall b d u a,
  is_ok (bop_try_new b d u a) = true ->
  in_tol b /\ in_tol d /\ in_tol u /\ in_tol a /\ (Rabs (B2R b + B2R d + B2R u - 1) <= 5 * eps)%R.
Proof.
  pose proof eps_pos as E0. pose proof eps_le as E1.
  intros b d u a H. apply accept_bop_sound in H. destruct H as (Hb & Hd & Hu & Ha & (F & Hs)).
  repeat (split; [assumption|]).
  destruct Hb as (_ & Hb). destruct Hd as (_ & Hd). destruct Hu as (_ & Hu).
  destruct (fadd_step _ _ F) as (Fs & _ & HR & Herr).
  assert (Hr2 : (Rabs (B2R (fadd (fadd b d) u)) < 2)%R) by (apply Rabs_lt; lra).
  specialize (Herr Hr2). apply Rabs_le_inv in Herr.
  destruct (fadd_step _ _ Fs) as (_ & _ & HR1 & Herr1).
  assert (Hlow : (- (2 * eps) <= B2R (fadd b d))%R).
  { rewrite HR1. apply round_ge_generic; [apply fexp_correct; assumption|apply valid_rnd_N| |lra].
    replace (- (2 * eps))%R with (- (INR 2 * eps))%R by (cbn; lra).
    apply format_neg_k_eps. cbn. pose proof P_ge_8. pose proof P_double. lia. }
  assert (Hs2 : (Rabs (B2R (fadd b d)) < 2)%R) by (apply Rabs_lt; lra).
  specialize (Herr1 Hs2). apply Rabs_le_inv in Herr1.
  apply Rabs_le. lra.
Qed.

(* ------------------------------------------------------------------------------------------ *)
(* accept_complete: up to 8 summed terms, each in [0,1], real sum exactly 1 => accepted *)

Lemma ulp_lt_1 : forall r : R, (Rabs r < 1)%R -> (ulp radix2 fexp r <= eps / 2)%R.
Proof.
  intros r Hr. replace (eps / 2)%R with (bpow radix2 (- prec)).
  2:{ replace (1 - prec)%Z with (1 + - prec)%Z by ring. rewrite bpow_plus. change (bpow radix2 1) with 2%R. field. }
  destruct (Req_dec r 0) as [->|Hz].
  - change fexp with (FLT_exp emin prec). rewrite ulp_FLT_0 by assumption.
    apply bpow_le. unfold SpecFloat.emin. pose proof emax_gt. lia.
  - rewrite ulp_neq_0 by assumption. apply bpow_le. unfold cexp, SpecFloat.fexp.
    assert (mag radix2 r <= 0) by (apply mag_le_bpow; [assumption|exact Hr]).
    pose proof emin_le. lia.
Qed.

Lemma format_2 : format 2%R.
Proof.
  change 2%R with (bpow radix2 1). apply generic_format_bpow.
  unfold SpecFloat.fexp. pose proof emin_le. lia.
Qed.

Lemma format_0 : format 0%R.
Proof. apply generic_format_0. Qed.

Lemma fadd_fwd : forall s x : float, is_finite s = true -> is_finite x = true ->
  (Rabs (rnd (B2R s + B2R x)) <= 2)%R ->
  is_finite (fadd s x) = true /\ B2R (fadd s x) = rnd (B2R s + B2R x).
Proof.
  intros s x Fs Fx Hb.
  generalize (Bplus_correct prec emax prec_gt_0_ prec_lt_emax_ mode_NE s x Fs Fx).
  cbn [round_mode]. rewrite Rlt_bool_true.
  - intros (HR & HF & _). split; assumption.
  - apply Rle_lt_trans with (1 := Hb). change 2%R with (bpow radix2 1). apply bpow_lt.
    pose proof emax_gt. lia.
Qed.

Definition in01 (x : float) : Prop := is_finite x = true /\ (0 <= B2R x <= 1)%R.

Lemma fold_complete : forall (T : list float) (s0 : float),
  is_finite s0 = true -> (0 <= B2R s0)%R -> Forall in01 T ->
  (B2R s0 + rsum T <= 1)%R -> (length T <= 8)%nat ->
  let r := fold_left fadd T s0 in
  is_finite r = true /\ (0 <= B2R r)%R /\
  (B2R r <= B2R s0 + rsum T + INR (length T) * (eps / 2))%R /\
  (1 <= B2R r \/ B2R s0 + rsum T - INR (length T) * (eps / 4) <= B2R r)%R.
Proof.
  pose proof eps_pos as E0. pose proof eps_le as E1.
  induction T as [|x T IH] using rev_ind; intros s0 F0 H0 HT Hsum Hlen; cbn zeta.
  - cbn. repeat split; try assumption; try lra.
  - rewrite fold_left_app, rsum_app, app_length in *. cbn [length fold_left] in *.
    apply Forall_app in HT. destruct HT as (HT & Hx). inversion Hx as [|? ? (Fx & Hx') _]. subst.
    assert (HsumT : (B2R s0 + rsum T <= 1)%R) by lra.
    destruct (IH s0 F0 H0 HT HsumT ltac:(lia)) as (Fs & Hs0 & Hup & Hlo). clear IH.
    set (s := fold_left fadd T s0) in *.
    assert (HlenR : (INR (length T) <= 7)%R).
    { replace 7%R with (INR 7) by (cbn; lra). apply le_INR. lia. }
    rewrite plus_INR. cbn [INR].
    set (y := (B2R s + B2R x)%R).
    assert (Hy0 : (0 <= y)%R) by (unfold y; lra).
    assert (Hy2 : (y < 2)%R) by (unfold y; nra).
    assert (Hr0 : (0 <= rnd y)%R)
      by (apply round_ge_generic; [apply fexp_correct; assumption|apply valid_rnd_N|apply format_0|exact Hy0]).
    assert (Hr2 : (rnd y <= 2)%R)
      by (apply round_le_generic; [apply fexp_correct; assumption|apply valid_rnd_N|apply format_2|lra]).
    destruct (fadd_fwd s x Fs Fx) as (Fr & HR); [fold y; apply Rabs_le; lra|].
    fold y in HR. rewrite HR.
    pose proof (@error_le_half_ulp radix2 fexp (fexp_correct prec emax prec_gt_0_)
                  (fun z => negb (Z.even z)) y) as He. fold ZnearestE in He.
    assert (Hu2 : (ulp radix2 fexp y <= eps)%R) by (apply ulp_lt_2, Rabs_lt; lra).
    apply Rabs_le_inv in He.
    split; [exact Fr|]. split; [exact Hr0|]. split; [unfold y in *; lra|].
    destruct (Rle_or_lt 1 y) as [Hy1|Hy1].
    + left. apply round_ge_generic; [apply fexp_correct; assumption|apply valid_rnd_N|apply format_1|exact Hy1].
    + destruct Hlo as [Hlo|Hlo].
      * exfalso. unfold y in Hy1. lra.
      * right. assert (Hu1 : (ulp radix2 fexp y <= eps / 2)%R) by (apply ulp_lt_1, Rabs_lt; lra).
        unfold y in *. lra.
Qed.

Theorem fsum_complete : forall T : list float,
  Forall in01 T -> rsum T = 1%R -> (length T <= 8)%nat -> near_one (fsum T).
Proof.
  pose proof eps_pos as E0.
  intros T HT Hs Hlen.
  destruct (fold_complete T fzero eq_refl (Rle_refl _) HT) as (F & _ & Hup & Hlo); try assumption.
  { cbn [B2R Chk.fzero]. lra. }
  cbn [B2R Chk.fzero] in *. fold (fsum T) in *.
  assert (HlenR : (INR (length T) <= 8)%R).
  { replace 8%R with (INR 8) by (cbn; lra). apply le_INR. lia. }
  split; [exact F|]. rewrite Hs in *. split; [destruct Hlo; nra|nra].
Qed.

Lemma in01_in_tol : forall x, in01 x -> in_tol x.
Proof. pose proof eps_pos. intros x (F & Hx). split; [exact F|lra]. Qed.

Theorem accept_simplex_complete : forall b u,
  Forall in01 b -> in01 u -> (rsum b + B2R u = 1)%R -> (length b <= 7)%nat ->
  is_ok (simplex_try_new b u) = true.
Proof.
  intros b u Hb Hu Hs Hlen. apply accept_simplex_sound.
  split; [eapply Forall_impl; [exact in01_in_tol|exact Hb]|]. split; [apply in01_in_tol; exact Hu|].
  rewrite <- fsum_app. apply fsum_complete.
  - apply Forall_app. split; [exact Hb|constructor; [exact Hu|constructor]].
  - rewrite rsum_app. exact Hs.
  - rewrite app_length. cbn [length]. lia.
Qed.

Theorem accept_base_rate_complete : forall s a,
  Forall in01 a -> rsum a = 1%R -> (length a <= 8)%nat -> is_ok (into_opinion s a) = true.
Proof.
  intros s a Ha Hs Hlen. apply accept_base_rate_sound.
  split; [eapply Forall_impl; [exact in01_in_tol|exact Ha]|]. apply fsum_complete; assumption.
Qed.

Theorem accept_opinion_complete : forall b u a,
  Forall in01 b -> in01 u -> (rsum b + B2R u = 1)%R -> (length b <= 7)%nat ->
  Forall in01 a -> rsum a = 1%R -> (length a <= 8)%nat ->
  is_ok (opinion_try_new b u a) = true.
Proof.
  intros b u a Hb Hu Hs Hlen Ha Hsa Hlena. rewrite accept_opinion_iff.
  rewrite <- accept_simplex_iff, <- (accept_into_opinion_iff (b, u) a).
  rewrite accept_simplex_complete, accept_base_rate_complete by assumption. reflexivity.
Qed.

Theorem accept_bop_complete : forall b d u a,
  in01 b -> in01 d -> in01 u -> in01 a -> (B2R b + B2R d + B2R u = 1)%R ->
  is_ok (bop_try_new b d u a) = true.
Proof.
  pose proof eps_pos as E0.
  intros b d u a Hb Hd Hu Ha Hs. apply accept_bop_sound.
  repeat (split; [apply in01_in_tol; assumption|]).
  destruct Hb as (Fb & Hb).
  destruct (fold_complete [d; u] b Fb (proj1 Hb)) as (F & _ & Hup & Hlo).
  - constructor; [exact Hd|constructor; [exact Hu|constructor]].
  - cbn. lra.
  - cbn. lia.
  - cbn [fold_left length rsum fold_right INR] in *. split; [exact F|].
    split; [destruct Hlo; lra|lra].
Qed.


Theorem accept_opinion_real : forall b u a,
  (Z.of_nat (length b) + 1 <= 2 ^ (prec - 3))%Z -> (Z.of_nat (length a) <= 2 ^ (prec - 3))%Z ->
  is_ok (opinion_try_new b u a) = true ->
  (Forall in_tol b /\ in_tol u /\
   (Rabs (rsum b + B2R u - 1) <= (4 + INR (length b + 1) / 2) * eps)%R) /\
  (Forall in_tol a /\ (Rabs (rsum a - 1) <= (4 + INR (length a) / 2) * eps)%R).
Proof.
  intros b u a Hlb Hla H. rewrite accept_opinion_iff in H. apply andb_true_iff in H.
  destruct H as (H1 & H2). rewrite <- accept_simplex_iff in H1.
  rewrite <- (accept_into_opinion_iff (b, u) a) in H2.
  split; [apply accept_simplex_real; assumption|apply (accept_base_rate_real (b, u)); assumption].
Qed.

(* reject_margin: the contrapositives *)
Theorem reject_margin_bop : forall b d u a,
  ~ in_tol b \/ ~ in_tol d \/ ~ in_tol u \/ ~ in_tol a \/
  (5 * eps < Rabs (B2R b + B2R d + B2R u - 1))%R ->
  is_ok (bop_try_new b d u a) = false.
Proof.
  intros b d u a H. destruct (is_ok (bop_try_new b d u a)) eqn:E; [exfalso|reflexivity].
  apply accept_bop_real in E. destruct E as (Hb & Hd & Hu & Ha & Hs).
  destruct H as [H|[H|[H|[H|H]]]]; try (apply H; assumption). lra.
Qed.

Theorem reject_margin_simplex : forall b u,
  (Z.of_nat (length b) + 1 <= 2 ^ (prec - 3))%Z ->
  (exists x, In x b /\ ~ in_tol x) \/ ~ in_tol u \/
  ((4 + INR (length b + 1) / 2) * eps < Rabs (rsum b + B2R u - 1))%R ->
  is_ok (simplex_try_new b u) = false.
Proof.
  intros b u Hlen H. destruct (is_ok (simplex_try_new b u)) eqn:E; [exfalso|reflexivity].
  apply accept_simplex_real in E; [|exact Hlen]. destruct E as (Hb & Hu & Hs).
  destruct H as [(x & Hi & Hx)|[H|H]].
  - rewrite Forall_forall in Hb. apply Hx, Hb, Hi.
  - apply H, Hu.
  - lra.
Qed.

Theorem reject_margin_base_rate : forall s a,
  (Z.of_nat (length a) <= 2 ^ (prec - 3))%Z ->
  (exists x, In x a /\ ~ in_tol x) \/ ((4 + INR (length a) / 2) * eps < Rabs (rsum a - 1))%R ->
  is_ok (into_opinion s a) = false.
Proof.
  intros s a Hlen H. destruct (is_ok (into_opinion s a)) eqn:E; [exfalso|reflexivity].
  apply accept_base_rate_real in E; [|exact Hlen]. destruct E as (Ha & Hs).
  destruct H as [(x & Hi & Hx)|H].
  - rewrite Forall_forall in Ha. apply Hx, Ha, Hi.
  - lra.
Qed.

Theorem reject_margin_opinion : forall b u a,
  (Z.of_nat (length b) + 1 <= 2 ^ (prec - 3))%Z -> (Z.of_nat (length a) <= 2 ^ (prec - 3))%Z ->
  (exists x, In x b /\ ~ in_tol x) \/ ~ in_tol u \/
  ((4 + INR (length b + 1) / 2) * eps < Rabs (rsum b + B2R u - 1))%R \/
  (exists x, In x a /\ ~ in_tol x) \/ ((4 + INR (length a) / 2) * eps < Rabs (rsum a - 1))%R ->
  is_ok (opinion_try_new b u a) = false.
Proof.
  intros b u a Hlb Hla H. rewrite accept_opinion_iff.
  rewrite <- accept_simplex_iff, <- (accept_into_opinion_iff (b, u) a).
  destruct H as [H|[H|[H|[H|H]]]].
  - rewrite reject_margin_simplex by tauto. reflexivity.
  - rewrite reject_margin_simplex by tauto. reflexivity.
  - rewrite reject_margin_simplex by tauto. reflexivity.
  - rewrite reject_margin_base_rate by tauto. apply andb_false_r.
  - rewrite reject_margin_base_rate by tauto. apply andb_false_r.
Qed.

(* ------------------------------------------------------------------------------------------ *)
(* the scalar relations are symmetric; reflexive on finite (abs_diff_eq) / non-NaN (ulps_eq) values *)
Lemma Babs_Bminus_sym : forall x y : float,
  Babs (Bminus mode_NE x y) = Babs (Bminus mode_NE y x).
Proof.
  intros x y. destruct (is_finite x) eqn:Fx; [destruct (is_finite y) eqn:Fy|].
  - generalize (Bminus_correct prec emax prec_gt_0_ prec_lt_emax_ mode_NE x y Fx Fy)
               (Bminus_correct prec emax prec_gt_0_ prec_lt_emax_ mode_NE y x Fy Fx).
    cbn [round_mode]. replace (B2R y - B2R x)%R with (- (B2R x - B2R y))%R by ring.
    rewrite round_NE_opp, Rabs_Ropp. case Rlt_bool.
    + intros (R1 & F1 & _) (R2 & F2 & _).
      apply B2R_Bsign_inj; rewrite ?is_finite_Babs; try assumption.
      * rewrite !B2R_Babs, R1, R2, Rabs_Ropp. reflexivity.
      * rewrite !Bsign_Babs. reflexivity.
    + intros (S1 & _) (S2 & _). unfold binary_overflow in S1, S2. cbn in S1, S2.
      destruct (Bminus mode_NE x y); try discriminate. destruct (Bminus mode_NE y x); try discriminate.
      reflexivity.
  - destruct x as [sx|sx| |sx mx ex Hx], y as [sy|sy| |sy my ey Hy]; try discriminate; reflexivity.
  - destruct x as [sx|sx| |sx mx ex Hx], y as [sy|sy| |sy my ey Hy]; try discriminate; try reflexivity;
      destruct sx, sy; reflexivity.
Qed.

Theorem abs_diff_eq_sym : forall x y e : float, abs_diff_eq x y e = abs_diff_eq y x e.
Proof. intros x y e. unfold Chk.abs_diff_eq, fsub. rewrite Babs_Bminus_sym. reflexivity. Qed.

Theorem abs_diff_eq_refl : forall x e : float, is_finite x = true -> is_finite e = true ->
  (0 <= B2R e)%R -> abs_diff_eq x x e = true.
Proof.
  intros x e Fx Fe He. apply abs_diff_eq_iff; try assumption. split; [exact Fx|].
  rewrite Rminus_diag_eq by reflexivity. rewrite round_0 by apply valid_rnd_N. rewrite Rabs_R0. exact He.
Qed.

Lemma signum_eq_sym : forall x y : float, signum_eq prec emax x y = signum_eq prec emax y x.
Proof.
  intros x y. unfold signum_eq.
  destruct (is_nan x), (is_nan y), (Bsign x), (Bsign y); reflexivity.
Qed.

Theorem ulps_eq_with_sym : forall (x y e : float) (k : Z),
  ulps_eq_with prec emax prec_gt_0_ prec_lt_emax_ x y e k =
  ulps_eq_with prec emax prec_gt_0_ prec_lt_emax_ y x e k.
Proof.
  intros x y e k. unfold ulps_eq_with. rewrite abs_diff_eq_sym, signum_eq_sym.
  replace (bits_of y - bits_of x) with (- (bits_of x - bits_of y)) by ring. rewrite Z.abs_opp.
  reflexivity.
Qed.

Theorem ulps_eq_with_refl : forall (x e : float) (k : Z), is_nan x = false -> 0 <= k ->
  ulps_eq_with prec emax prec_gt_0_ prec_lt_emax_ x x e k = true.
Proof.
  intros x e k Nx Hk. unfold ulps_eq_with. destruct (abs_diff_eq x x e); [reflexivity|].
  unfold signum_eq. rewrite Nx, eqb_reflx. cbn. rewrite Z.sub_diag. cbn. apply Z.leb_le. exact Hk.
Qed.

(* NaN is related to nothing, not even itself *)
Theorem ulps_eq_with_nan : forall (y e : float) (k : Z),
  ulps_eq_with prec emax prec_gt_0_ prec_lt_emax_ B754_nan y e k = false.
Proof.
  intros y e k. unfold ulps_eq_with, Chk.abs_diff_eq, fsub, fle, signum_eq. cbn. reflexivity.
Qed.

End Fmt.

(* ------------------------------------------------------------------------------------------ *)
(* binary32 and binary64: bit patterns *)

(* [Chk.bits_of] is Flocq's encoding on every non-NaN value, so reading a bit pattern and
   writing it back is the identity *)
Lemma bits_of_agrees64 : forall x : binary64, Binary.is_nan 53 1024 x = false ->
  bits_of 53 1024 (B2BSN 53 1024 x) = bits_of_b64 x.
Proof.
  intros [s|s|s pl H|s m e H] N; try discriminate;
    unfold bits_of, bits_of_b64, bits_of_binary_float, join, join_bits, B2BSN, SpecFloat.emin;
    try destruct (0 <=? _); rewrite Z.shiftl_mul_pow2 by lia; destruct s; lia.
Qed.

Lemma bits_of_agrees32 : forall x : binary32, Binary.is_nan 24 128 x = false ->
  bits_of 24 128 (B2BSN 24 128 x) = bits_of_b32 x.
Proof.
  intros [s|s|s pl H|s m e H] N; try discriminate;
    unfold bits_of, bits_of_b32, bits_of_binary_float, join, join_bits, B2BSN, SpecFloat.emin;
    try destruct (0 <=? _); rewrite Z.shiftl_mul_pow2 by lia; destruct s; lia.
Qed.

Theorem f64_bits_roundtrip : forall z, 0 <= z < 2 ^ 64 -> is_nan (f64_of_bits z) = false ->
  bits_of 53 1024 (f64_of_bits z) = z.
Proof.
  intros z Hz N. unfold f64_of_bits in *. rewrite Binary.is_nan_B2BSN in N.
  rewrite bits_of_agrees64 by exact N.
  unfold bits_of_b64, b64_of_bits. apply bits_of_binary_float_of_bits. exact Hz.
Qed.

Theorem f32_bits_roundtrip : forall z, 0 <= z < 2 ^ 32 -> is_nan (f32_of_bits z) = false ->
  bits_of 24 128 (f32_of_bits z) = z.
Proof.
  intros z Hz N. unfold f32_of_bits in *. rewrite Binary.is_nan_B2BSN in N.
  rewrite bits_of_agrees32 by exact N.
  unfold bits_of_b32, b32_of_bits. apply bits_of_binary_float_of_bits. exact Hz.
Qed.

(* every float of the format is read from its bit pattern *)
Theorem f64_of_bits_surj : forall x : f64, exists z, 0 <= z < 2 ^ 64 /\ f64_of_bits z = x.
Proof.
  intros x.
  set (y := BSN2B 53 1024 default_nan_pl64 x).
  exists (bits_of_b64 y). split.
  - apply (bits_of_binary_float_range 52 11); reflexivity.
  - unfold f64_of_bits, bits_of_b64, b64_of_bits. rewrite binary_float_of_bits_of_binary_float.
    apply B2BSN_BSN2B.
Qed.

Theorem f32_of_bits_surj : forall x : f32, exists z, 0 <= z < 2 ^ 32 /\ f32_of_bits z = x.
Proof.
  intros x.
  set (y := BSN2B 24 128 default_nan_pl32 x).
  exists (bits_of_b32 y). split.
  - apply (bits_of_binary_float_range 23 8); reflexivity.
  - unfold f32_of_bits, bits_of_b32, b32_of_bits. rewrite binary_float_of_bits_of_binary_float.
    apply B2BSN_BSN2B.
Qed.

(* ------------------------------------------------------------------------------------------ *)
(* spot checks of the bit-pattern entry points *)
Example chk_constants :
  (bits_of 53 1024 (fone 53 1024 Hprec64 Hmax64), bits_of 53 1024 (feps 53 1024 Hprec64 Hmax64),
   bits_of 24 128 (fone 24 128 Hprec32 Hmax32), bits_of 24 128 (feps 24 128 Hprec32 Hmax32))
  = (0x3FF0000000000000, 0x3CB0000000000000, 0x3F800000, 0x34000000).
Proof. vm_compute. reflexivity. Qed.

(* u = 1.0, 1+4ulp, 1+5ulp, 1-4ulp, 1-5ulp, NaN, +inf with b = d = +0.0 *)
Example chk_u_around_one :
  map (fun u => accept_bsimplex F64 0 0 u)
      [one64; one64 + 4; one64 + 5; one64 - 4; one64 - 5; nan64; inf64]
  = [true; true; false; true; false; false; false].
Proof. vm_compute. reflexivity. Qed.

(* -0.0 accepted; b = -eps accepted, b = -(eps + 1ulp) rejected *)
Example chk_negative_zero_and_eps :
  (accept_bsimplex F64 mzero64 mzero64 one64,
   accept_bsimplex F64 0xBCB0000000000000 0 one64,
   accept_bsimplex F64 0xBCB0000000000001 0 one64) = (true, true, false).
Proof. vm_compute. reflexivity. Qed.

(* (0.5,0.25,0.25,0.5) accepted; NaN base rate rejected; b+d+u = 1.25 rejected, reporting 1.25 *)
Example chk_bop :
  (accept_bop F64 half64 quarter64 quarter64 half64,
   accept_bop F64 half64 quarter64 quarter64 nan64,
   accept_bop F64 half64 half64 quarter64 half64,
   rejected_bop F64 half64 half64 quarter64 half64) = (true, false, false, Some 0x3FF4000000000000).
Proof. vm_compute. reflexivity. Qed.

Example chk_opinion :
  (accept_opinion F64 [half64; quarter64] quarter64 [half64; half64],
   accept_opinion F64 [half64; quarter64] quarter64 [half64; quarter64],
   accept_opinion F64 [] one64 [], accept_simplex F64 [] one64,
   accept_base_rate F64 [quarter64; quarter64; half64], accept_base_rate F64 [])
  = (true, false, false, true, true, false).
Proof. vm_compute. reflexivity. Qed.

Example chk_vacuous_dogmatic32 :
  map (fun u => (vacuous F32 u, dogmatic F32 u))
      [one32; one32 + 4; one32 + 5; one32 - 4; one32 - 5; 0; 0x80000000; 0x34000000; 0x34000001;
       0xB4000000; 0x7FC00000]
  = [(true, false); (true, false); (false, false); (true, false); (false, false); (false, true);
     (false, true); (false, true); (false, false); (false, true); (false, false)].
Proof. vm_compute. reflexivity. Qed.

Example chk_unit32 :
  map (unit_ok F32) [0xB4000000; 0xB4000001; one32 + 4; one32 + 5; 0x7F800000; 0xFF800000;
                     0x7FC00000; 1; 0x80000001]
  = [true; false; true; false; false; false; false; true; true].
Proof. vm_compute. reflexivity. Qed.

(* the entry points on bit patterns, spelled out *)
Lemma entry_points_f64_def : forall b d u a bs az,
  accept_bop F64 b d u a =
    is_ok (bop_try_new 53 1024 Hprec64 Hmax64 (f64_of_bits b) (f64_of_bits d) (f64_of_bits u) (f64_of_bits a)) /\
  accept_bsimplex F64 b d u =
    is_ok (bsimplex_try_new 53 1024 Hprec64 Hmax64 (f64_of_bits b) (f64_of_bits d) (f64_of_bits u)) /\
  accept_simplex F64 bs u =
    is_ok (simplex_try_new 53 1024 Hprec64 Hmax64 (map f64_of_bits bs) (f64_of_bits u)) /\
  accept_opinion F64 bs u az =
    is_ok (opinion_try_new 53 1024 Hprec64 Hmax64 (map f64_of_bits bs) (f64_of_bits u) (map f64_of_bits az)) /\
  (forall s, accept_base_rate F64 az = is_ok (into_opinion 53 1024 Hprec64 Hmax64 s (map f64_of_bits az))) /\
  vacuous F64 u = is_vacuous 53 1024 Hprec64 Hmax64 (f64_of_bits u) /\
  dogmatic F64 u = is_dogmatic 53 1024 Hprec64 Hmax64 (f64_of_bits u).
Proof.
  intros. repeat split. intros s. unfold accept_base_rate, into_opinion.
  destruct (check_base_rate 53 1024 Hprec64 Hmax64 (map f64_of_bits az)); reflexivity.
Qed.

Lemma entry_points_f32_def : forall b d u a bs az,
  accept_bop F32 b d u a =
    is_ok (bop_try_new 24 128 Hprec32 Hmax32 (f32_of_bits b) (f32_of_bits d) (f32_of_bits u) (f32_of_bits a)) /\
  accept_bsimplex F32 b d u =
    is_ok (bsimplex_try_new 24 128 Hprec32 Hmax32 (f32_of_bits b) (f32_of_bits d) (f32_of_bits u)) /\
  accept_simplex F32 bs u =
    is_ok (simplex_try_new 24 128 Hprec32 Hmax32 (map f32_of_bits bs) (f32_of_bits u)) /\
  accept_opinion F32 bs u az =
    is_ok (opinion_try_new 24 128 Hprec32 Hmax32 (map f32_of_bits bs) (f32_of_bits u) (map f32_of_bits az)) /\
  (forall s, accept_base_rate F32 az = is_ok (into_opinion 24 128 Hprec32 Hmax32 s (map f32_of_bits az))) /\
  vacuous F32 u = is_vacuous 24 128 Hprec32 Hmax32 (f32_of_bits u) /\
  dogmatic F32 u = is_dogmatic 24 128 Hprec32 Hmax32 (f32_of_bits u).
Proof.
  intros. repeat split. intros s. unfold accept_base_rate, into_opinion.
  destruct (check_base_rate 24 128 Hprec32 Hmax32 (map f32_of_bits az)); reflexivity.
Qed.

Lemma B2R_half64 : B2R (f64_of_bits half64) = (/ 2)%R.
Proof.
  replace (f64_of_bits half64) with (B2BSN 53 1024 (b64_of_bits half64)) by reflexivity.
  rewrite B2R_B2BSN. vm_compute b64_of_bits. unfold Binary.B2R, F2R. cbn. lra.
Qed.

Lemma B2R_quarter64 : B2R (f64_of_bits quarter64) = (/ 4)%R.
Proof.
  replace (f64_of_bits quarter64) with (B2BSN 53 1024 (b64_of_bits quarter64)) by reflexivity.
  rewrite B2R_B2BSN. vm_compute b64_of_bits. unfold Binary.B2R, F2R. cbn. lra.
Qed.

Lemma c01_example :
  4 <= 53 /\ 4 <= 24 /\
  (let h := f64_of_bits half64 in let q := f64_of_bits quarter64 in
   Forall (in01 53 1024) [h; q] /\ in01 53 1024 q /\ (rsum 53 1024 [h; q] + B2R q = 1)%R /\
   Forall (in01 53 1024) [h; h] /\ rsum 53 1024 [h; h] = 1%R) /\
  accept_opinion F64 [half64; quarter64] quarter64 [half64; half64] = true /\
  map (fun u => accept_bsimplex F64 0 0 u) [one64; one64 + 4; one64 + 5; nan64; inf64]
    = [true; true; false; false; false].
Proof.
  split; [lia|]. split; [lia|].
  assert (Hh : in01 53 1024 (f64_of_bits half64)).
  { split; [vm_compute; reflexivity|]. rewrite B2R_half64. lra. }
  assert (Hq : in01 53 1024 (f64_of_bits quarter64)).
  { split; [vm_compute; reflexivity|]. rewrite B2R_quarter64. lra. }
  split; [|split; vm_compute; reflexivity].
  cbn zeta. unfold rsum. cbn [fold_right]. rewrite B2R_half64, B2R_quarter64.
  split; [apply Forall_cons; [exact Hh|apply Forall_cons; [exact Hq|apply Forall_nil]]|].
  split; [exact Hq|]. split; [lra|].
  split; [apply Forall_cons; [exact Hh|apply Forall_cons; [exact Hh|apply Forall_nil]]|lra].
Qed.

(* combined forms used by Props/C01.v *)
Lemma try_from_def : forall prec emax Hp Hm (b : list (binary_float prec emax)) u a,
  simplex_try_from prec emax Hp Hm (b, u) = simplex_try_new prec emax Hp Hm b u /\
  opinion_try_from prec emax Hp Hm (b, u, a) = opinion_try_new prec emax Hp Hm b u a.
Proof. intros. split; reflexivity. Qed.

Lemma new_panics_all : forall prec emax Hp Hm
  (b d u a : binary_float prec emax) (bs az : list (binary_float prec emax)),
  (bop_new prec emax Hp Hm b d u a = Panics <-> is_ok (bop_try_new prec emax Hp Hm b d u a) = false) /\
  (bsimplex_new prec emax Hp Hm b d u = Panics <-> is_ok (bsimplex_try_new prec emax Hp Hm b d u) = false) /\
  (simplex_new prec emax Hp Hm bs u = Panics <-> is_ok (simplex_try_new prec emax Hp Hm bs u) = false) /\
  (opinion_new prec emax Hp Hm bs u az = Panics <-> is_ok (opinion_try_new prec emax Hp Hm bs u az) = false).
Proof. intros. repeat split; apply unwrap_panics_iff. Qed.

Lemma new_returns_all : forall prec emax Hp Hm
  (b d u a : binary_float prec emax) (bs az : list (binary_float prec emax)) w1 w2 w3 w4,
  (bop_new prec emax Hp Hm b d u a = Returns w1 <-> bop_try_new prec emax Hp Hm b d u a = Ok w1) /\
  (bsimplex_new prec emax Hp Hm b d u = Returns w2 <-> bsimplex_try_new prec emax Hp Hm b d u = Ok w2) /\
  (simplex_new prec emax Hp Hm bs u = Returns w3 <-> simplex_try_new prec emax Hp Hm bs u = Ok w3) /\
  (opinion_new prec emax Hp Hm bs u az = Returns w4 <-> opinion_try_new prec emax Hp Hm bs u az = Ok w4).
Proof. intros. repeat split; apply unwrap_returns_iff. Qed.

Lemma stores_all : forall prec emax Hp Hm
  (b d u a : binary_float prec emax) (bs az : list (binary_float prec emax)) s,
  (forall w, bop_try_new prec emax Hp Hm b d u a = Ok w -> w = (b, d, u, a)) /\
  (forall w, bsimplex_try_new prec emax Hp Hm b d u = Ok w -> w = (b, d, u)) /\
  (forall w, simplex_try_new prec emax Hp Hm bs u = Ok w -> w = (bs, u)) /\
  (forall w, opinion_try_new prec emax Hp Hm bs u az = Ok w -> w = (bs, u, az)) /\
  (forall w, into_opinion prec emax Hp Hm s az = Ok w -> w = (fst s, snd s, az)).
Proof.
  intros. split; [exact (bop_stores prec emax Hp Hm b d u a)|].
  split; [exact (bsimplex_stores prec emax Hp Hm b d u)|].
  split; [exact (simplex_stores prec emax Hp Hm bs u)|].
  split; [exact (opinion_stores prec emax Hp Hm bs u az)|exact (into_opinion_stores prec emax Hp Hm s az)].
Qed.

Lemma bits_roundtrip_all :
  (forall z, 0 <= z < 2 ^ 64 -> is_nan (f64_of_bits z) = false -> bits_of 53 1024 (f64_of_bits z) = z) /\
  (forall z, 0 <= z < 2 ^ 32 -> is_nan (f32_of_bits z) = false -> bits_of 24 128 (f32_of_bits z) = z) /\
  (forall x : f64, exists z, 0 <= z < 2 ^ 64 /\ f64_of_bits z = x) /\
  (forall x : f32, exists z, 0 <= z < 2 ^ 32 /\ f32_of_bits z = x).
Proof.
  exact (conj f64_bits_roundtrip (conj f32_bits_roundtrip (conj f64_of_bits_surj f32_of_bits_surj))).
Qed.
