(* C05: inversion of conditionals (Bayes) and abduction.  Model functions: [inverse],
   [abduce_with], [abduce] of Model/Mul.v (src/mul.rs, InverseCondition::inverse and the
   Abduction impls).  Everything needed about [projection], [max_uncertainty],
   [normalized] is proved locally (names prefixed [inv_]/[iv_]). *)
From Coq Require Import Reals List Bool Lra Lia.
Import ListNotations.
From SL Require Import Model.Num Model.Vec Model.Mul Model.InstR Facts.RBase.
Open Scope R_scope.

(* a real simplex as a model simplex *)
Definition embS (s : list R * R) : simplex (B:=FldR) := (map Some (fst s), Some (snd s)).

(* ------------------------------------------------------------ list basics *)
Lemma iv_map3_map {I X Y Z W} (F : X -> Y -> Z -> W) (f : I -> X) (g : I -> Y) (h : I -> Z) l :
  map3 F (map f l) (map g l) (map h l) = map (fun i => F (f i) (g i) (h i)) l.
Proof. induction l; cbn; congruence. Qed.

Lemma iv_map2_map {I X Y Z} (F : X -> Y -> Z) (f : I -> X) (g : I -> Y) l :
  map2 F (map f l) (map g l) = map (fun i => F (f i) (g i)) l.
Proof. induction l; cbn; congruence. Qed.

Lemma iv_map3_some (f : RV -> RV -> RV -> RV) (g : R -> R -> R -> R) l1 l2 l3 :
  (forall a b c, In a l1 -> f (Some a) (Some b) (Some c) = Some (g a b c)) ->
  map3 f (map Some l1) (map Some l2) (map Some l3) = map Some (map3 g l1 l2 l3).
Proof.
  revert l2 l3; induction l1 as [|a l1 IH]; intros [|b l2] [|c l3] H; cbn [map map3]; auto.
  rewrite H by (left; reflexivity). rewrite IH; auto. intros; apply H; right; assumption.
Qed.

Lemma iv_map_some_in (f : RV -> RV) (g : R -> R) l :
  (forall a, In a l -> f (Some a) = Some (g a)) ->
  map f (map Some l) = map Some (map g l).
Proof.
  induction l as [|a l IH]; intros H; cbn [map]; auto.
  rewrite H by (left; reflexivity). rewrite IH; auto. intros; apply H; right; assumption.
Qed.

Lemma iv_get_some (p : list R) y : (y < length p)%nat ->
  get (B:=FldR) (map Some p) y = Some (nth y p 0).
Proof.
  intros H. unfold get. rewrite (nth_indep _ None (Some 0)) by (rewrite map_length; exact H).
  apply (map_nth Some).
Qed.

Lemma iv_forallb_map {X Y} (f : Y -> bool) (g : X -> Y) l :
  forallb f (map g l) = forallb (fun x => f (g x)) l.
Proof. induction l; cbn; congruence. Qed.

Lemma iv_all_const (l : list R) c : (forall x, In x l -> x = c) -> l = map (fun _ => c) l.
Proof.
  induction l as [|a l IH]; intros H; cbn; auto.
  rewrite (H a) by (left; reflexivity). f_equal. apply IH. intros; apply H; right; assumption.
Qed.

(* ------------------------------------------------------------ sums *)
Lemma iv_Rsum_map2_mul_some l1 l2 :
  vsum (B:=FldR) (map2 mul (map Some l1) (map Some l2)) = Some (Rsum (map2 Rmult l1 l2)).
Proof. rewrite (map2_some _ Rmult) by reflexivity. apply vsum_some. Qed.

Lemma iv_Rsum_le_map {X} (f g : X -> R) l :
  (forall x, In x l -> f x <= g x) -> Rsum (map f l) <= Rsum (map g l).
Proof.
  induction l as [|a l IH]; intros H; cbn; [lra|].
  pose proof (H a (or_introl eq_refl)). assert (Rsum (map f l) <= Rsum (map g l)).
  { apply IH. intros; apply H; right; assumption. } lra.
Qed.

Lemma iv_Rsum_map_nonneg {X} (f : X -> R) l :
  (forall x, In x l -> 0 <= f x) -> 0 <= Rsum (map f l).
Proof.
  intros H. apply Rsum_nonneg. apply Forall_forall. intros v Hv.
  apply in_map_iff in Hv. destruct Hv as (x & <- & Hx). auto.
Qed.

Lemma iv_Rsum_proj b u a : length b = length a ->
  Rsum (map2 (fun bi ai => bi + ai * u) b a) = Rsum b + u * Rsum a.
Proof.
  revert a; induction b as [|x b IH]; intros [|y a] H; cbn in *; try discriminate; [lra|].
  rewrite IH by lia. lra.
Qed.

Lemma iv_Rsum_b u t ax : length t = length ax ->
  Rsum (map2 (fun p a => p - u * a) (map2 Rmult t ax) ax) = Rsum (map2 Rmult t ax) - u * Rsum ax.
Proof.
  revert ax; induction t as [|x t IH]; intros [|a ax] H; cbn in *; try discriminate; [lra|].
  rewrite IH by lia. lra.
Qed.

Lemma iv_Rsum_div_q q ax col :
  Rsum (map2 Rmult (map (fun p => p / q) col) ax) = Rsum (map2 Rmult ax col) / q.
Proof.
  revert ax; induction col as [|x col IH]; intros [|a ax]; cbn; try (unfold Rdiv; lra).
  rewrite IH. unfold Rdiv. lra.
Qed.

Lemma iv_Rsum_ones {X} (l : list X) ax : length l = length ax ->
  Rsum (map2 Rmult (map (fun _ => 1) l) ax) = Rsum ax.
Proof.
  revert ax; induction l as [|x l IH]; intros [|a ax] H; cbn in *; try discriminate; [lra|].
  rewrite IH by lia. lra.
Qed.

Lemma iv_q_pos ax col : length ax = length col ->
  Forall (fun a => 0 < a) ax -> nonneg col -> (exists v, In v col /\ 0 < v) ->
  0 < Rsum (map2 Rmult ax col).
Proof.
  revert col; induction ax as [|a ax IH]; intros [|c col] HL Ha Hc (v & Hv & Hpos);
    cbn in *; try discriminate; try contradiction.
  inversion Ha as [|? ? Ha0 Ha']; subst. inversion Hc as [|? ? Hc0 Hc']; subst.
  assert (0 <= Rsum (map2 Rmult ax col)) as Hr.
  { clear -Ha' Hc'. revert col Hc'. induction Ha' as [|a ax Ha _ IH]; intros [|c col] Hc; cbn; try lra.
    inversion Hc; subst. specialize (IH col H2). nra. }
  destruct Hv as [->|Hv].
  - nra.
  - assert (0 < Rsum (map2 Rmult ax col)) by (apply IH; [lia|assumption|assumption|exists v; auto]). nra.
Qed.

(* ------------------------------------------------------------ minima, maxima *)
Definition RminL (l : list R) : R := match l with [] => 0 | x :: r => fold_left Rmin r x end.
Definition RmaxL (l : list R) : R := match l with [] => 0 | x :: r => fold_left Rmax r x end.

Lemma iv_fold_nmin_some r x :
  fold_left (nmin (B:=FldR)) (map Some r) (Some x) = Some (fold_left Rmin r x).
Proof. revert x; induction r as [|y r IH]; intros x; cbn [map fold_left]; auto. rewrite nmin_some. apply IH. Qed.
Lemma iv_fold_nmax_some r x :
  fold_left (nmax (B:=FldR)) (map Some r) (Some x) = Some (fold_left Rmax r x).
Proof. revert x; induction r as [|y r IH]; intros x; cbn [map fold_left]; auto. rewrite nmax_some. apply IH. Qed.

Lemma iv_vmin_some l : l <> [] -> vmin (B:=FldR) (map Some l) = Some (RminL l).
Proof. destruct l as [|x r]; [congruence|]. intros _. cbn [map vmin RminL]. apply iv_fold_nmin_some. Qed.
Lemma iv_vmax_some l : l <> [] -> vmax (B:=FldR) (map Some l) = Some (RmaxL l).
Proof. destruct l as [|x r]; [congruence|]. intros _. cbn [map vmax RmaxL]. apply iv_fold_nmax_some. Qed.

Lemma iv_fold_Rmin_le r : forall x,
  fold_left Rmin r x <= x /\ (forall y, In y r -> fold_left Rmin r x <= y).
Proof.
  induction r as [|z r IH]; intros x; cbn [fold_left]; [split; [lra|contradiction]|].
  destruct (IH (Rmin x z)) as (H1 & H2).
  pose proof (Rmin_l x z). pose proof (Rmin_r x z). split; [lra|].
  intros y [->|Hy]; [lra|auto].
Qed.
Lemma iv_fold_Rmin_in r : forall x, fold_left Rmin r x = x \/ In (fold_left Rmin r x) r.
Proof.
  induction r as [|z r IH]; intros x; cbn [fold_left]; [left; reflexivity|].
  destruct (IH (Rmin x z)) as [H|H]; [|right; right; exact H].
  rewrite H. unfold Rmin. destruct (Rle_dec x z); [left; reflexivity|right; left; reflexivity].
Qed.
Lemma iv_fold_Rmax_ge r : forall x,
  x <= fold_left Rmax r x /\ (forall y, In y r -> y <= fold_left Rmax r x).
Proof.
  induction r as [|z r IH]; intros x; cbn [fold_left]; [split; [lra|contradiction]|].
  destruct (IH (Rmax x z)) as (H1 & H2).
  pose proof (Rmax_l x z). pose proof (Rmax_r x z). split; [lra|].
  intros y [->|Hy]; [lra|auto].
Qed.
Lemma iv_fold_Rmax_in r : forall x, fold_left Rmax r x = x \/ In (fold_left Rmax r x) r.
Proof.
  induction r as [|z r IH]; intros x; cbn [fold_left]; [left; reflexivity|].
  destruct (IH (Rmax x z)) as [H|H]; [|right; right; exact H].
  rewrite H. unfold Rmax. destruct (Rle_dec x z); [right; left; reflexivity|left; reflexivity].
Qed.

Lemma RminL_le l x : In x l -> RminL l <= x.
Proof.
  destruct l as [|z r]; [contradiction|]. cbn [RminL]. destruct (iv_fold_Rmin_le r z) as (H1 & H2).
  intros [<-|H]; auto.
Qed.
Lemma RminL_in l : l <> [] -> In (RminL l) l.
Proof.
  destruct l as [|z r]; [congruence|]. intros _. cbn [RminL].
  destruct (iv_fold_Rmin_in r z) as [H|H]; [left; symmetry; exact H|right; exact H].
Qed.
Lemma RmaxL_ge l x : In x l -> x <= RmaxL l.
Proof.
  destruct l as [|z r]; [contradiction|]. cbn [RmaxL]. destruct (iv_fold_Rmax_ge r z) as (H1 & H2).
  intros [<-|H]; auto.
Qed.
Lemma RmaxL_in l : l <> [] -> In (RmaxL l) l.
Proof.
  destruct l as [|z r]; [congruence|]. intros _. cbn [RmaxL].
  destruct (iv_fold_Rmax_in r z) as [H|H]; [left; symmetry; exact H|right; exact H].
Qed.

Lemma RminL_const {X} (l : list X) c : l <> [] -> RminL (map (fun _ => c) l) = c.
Proof.
  intros H. assert (Hn : map (fun _ : X => c) l <> []) by (destruct l; cbn; congruence).
  pose proof (RminL_in _ Hn) as Hin. apply in_map_iff in Hin. destruct Hin as (? & E & _). auto.
Qed.
Lemma RmaxL_const {X} (l : list X) c : l <> [] -> RmaxL (map (fun _ => c) l) = c.
Proof.
  intros H. assert (Hn : map (fun _ : X => c) l <> []) by (destruct l; cbn; congruence).
  pose proof (RmaxL_in _ Hn) as Hin. apply in_map_iff in Hin. destruct Hin as (? & E & _). auto.
Qed.

(* minimum of a list with undefined entries: f64::min skips NaN *)
Fixpoint somes (l : list RV) : list R :=
  match l with [] => [] | Some x :: r => x :: somes r | None :: r => somes r end.

Lemma iv_fold_nmin_somes l : forall x,
  fold_left (nmin (B:=FldR)) l (Some x) = Some (fold_left Rmin (somes l) x).
Proof.
  induction l as [|[y|] l IH]; intros x; cbn [fold_left somes]; auto.
  - rewrite nmin_some. apply IH.
  - rewrite nmin_none_r. apply IH.
Qed.
Lemma iv_vmin_somes l : somes l <> [] -> vmin (B:=FldR) l = Some (RminL (somes l)).
Proof.
  induction l as [|[y|] l IH]; cbn [somes]; intros H; [congruence| |].
  - cbn [vmin RminL]. apply iv_fold_nmin_somes.
  - specialize (IH H). cbn [vmin]. destruct l as [|z l]; [cbn in H; congruence|].
    cbn [fold_left]. rewrite nmin_none_l. exact IH.
Qed.

(* P(y|x) / a(y) over the y with a(y) <> 0 *)
Definition ratiosR (p a : list R) : list R :=
  map (fun pa => fst pa / snd pa) (filter (fun pa => negb (Reqb (snd pa) 0)) (combine p a)).

Lemma iv_somes_ratios p a :
  somes (map2 div (map Some p) (map Some a)) = ratiosR p a.
Proof.
  unfold ratiosR. revert a; induction p as [|x p IH]; intros [|y a]; cbn [map map2 somes combine filter]; auto.
  cbn [snd fst]. destruct (Reqb_spec y 0) as [->|Hy]; cbn [negb].
  - rewrite div_zero. cbn [somes]. apply IH.
  - rewrite div_some by assumption. cbn [somes map fst snd]. f_equal. apply IH.
Qed.

Lemma iv_ratios_in p a v : In v (ratiosR p a) ->
  exists x y, In (x, y) (combine p a) /\ y <> 0 /\ v = x / y.
Proof.
  unfold ratiosR. intros H. apply in_map_iff in H. destruct H as ((x, y) & <- & H).
  apply filter_In in H. destruct H as (H & E). cbn [fst snd] in *.
  exists x, y. split; auto. split; auto. destruct (Reqb_spec y 0); [discriminate|assumption].
Qed.

Lemma iv_ratios_nonempty p a : length p = length a -> (exists y, In y a /\ y <> 0) ->
  ratiosR p a <> [].
Proof.
  unfold ratiosR. revert a; induction p as [|x p IH]; intros [|y a] HL (v & Hv & Hne);
    cbn in HL; try discriminate; try contradiction.
  cbn [combine filter snd]. destruct (Reqb_spec y 0) as [->|Hy]; cbn [negb map]; [|discriminate].
  destruct Hv as [Hv|Hv]; [exfalso; apply Hne; symmetry; exact Hv|]. apply IH; [lia|exists v; auto].
Qed.

(* --------------------------------- projection, max_uncertainty, normalized *)
Definition projR (b : list R) (u : R) (a : list R) : list R := map2 (fun bi ai => bi + ai * u) b a.

Lemma iv_map_div1 (l : list R) : map (fun x => x / 1) l = l.
Proof. rewrite <- (map_id l) at 2. apply map_ext. intros; field. Qed.

Lemma iv_projection_eval b u a : length b = length a -> Rsum b + u = 1 -> Rsum a = 1 ->
  projection (B:=FldR) (map Some b) (Some u) (map Some a) = map Some (projR b u a).
Proof.
  intros HL Hb Ha. unfold projection, normalize_dist.
  rewrite (map2_some _ (fun bi ai => bi + ai * u)) by reflexivity.
  rewrite vsum_some. fold (projR b u a).
  assert (Rsum (projR b u a) = 1) as -> by (unfold projR; rewrite iv_Rsum_proj by exact HL; nra).
  rewrite (map_some _ (fun x => x / 1)) by (intros; apply div_some; lra).
  rewrite iv_map_div1. reflexivity.
Qed.

Lemma iv_normalized_one b u : Rsum b + u = 1 ->
  normalized (B:=FldR) (map Some b) (Some u) = (map Some b, Some u).
Proof.
  intros H. unfold normalized. rewrite vsum_some, add_some, H.
  rewrite (map_some _ (fun x => x / 1)) by (intros; apply div_some; lra).
  rewrite iv_map_div1, div_some by lra. do 2 f_equal. field.
Qed.

Lemma iv_fold_left_map {X Y Z} (f : X -> Z -> X) (g : Y -> Z) l : forall a,
  fold_left (fun acc x => f acc (g x)) l a = fold_left f (map g l) a.
Proof. induction l; intros; cbn; auto. Qed.

(* one term of the minimum in max_uncertainty *)
Definition mterm (eps : R) (pa : R * R) : R :=
  if is_zero (B:=FldR) eps (Some (snd pa)) then 1 else fst pa / snd pa.
Definition mR (eps : R) (p a : list R) : R := RminL (1 :: map (mterm eps) (combine p a)).

Lemma iv_mterm_some eps (He : 0 <= eps) (x y : R) :
  (if is_zero (B:=FldR) eps (Some y) then one (B:=FldR) else div (B:=FldR) (Some x) (Some y))
    = Some (mterm eps (x, y)).
Proof.
  unfold mterm. cbn [fst snd]. destruct (is_zero (B:=FldR) eps (Some y)) eqn:E; [reflexivity|].
  apply is_zero_some_false in E. apply div_some. lra.
Qed.

Lemma iv_fold_maxu eps (He : 0 <= eps) p : forall a acc,
  fold_left (fun acc pa => nmin acc (if is_zero (B:=FldR) eps (snd pa) then one else div (fst pa) (snd pa)))
     (combine (map Some p) (map Some a)) (Some acc)
  = Some (fold_left (fun acc pa => Rmin acc (mterm eps pa)) (combine p a) acc).
Proof.
  induction p as [|x p IH]; intros [|y a] acc; cbn [map combine fold_left]; auto.
  cbn [fst snd]. rewrite iv_mterm_some by assumption. rewrite nmin_some. apply IH.
Qed.

Lemma iv_max_uncertainty_eval eps (He : 0 <= eps) b u a :
  length b = length a -> Rsum b + u = 1 -> Rsum a = 1 ->
  max_uncertainty (B:=FldR) eps (map Some b) (Some u) (map Some a) = Some (mR eps (projR b u a) a).
Proof.
  intros HL Hb Ha. unfold max_uncertainty. cbv zeta. rewrite iv_projection_eval by assumption.
  rewrite one_some, iv_fold_maxu by assumption. unfold mR. cbn [RminL].
  rewrite iv_fold_left_map. reflexivity.
Qed.

Lemma iv_mR_le1 eps p a : mR eps p a <= 1.
Proof. apply RminL_le. left; reflexivity. Qed.
Lemma iv_mR_le eps p a x y : In (x, y) (combine p a) -> eps < y -> 0 <= eps -> mR eps p a <= x / y.
Proof.
  intros H Hy He. unfold mR.
  assert (E : x / y = mterm eps (x, y)).
  { unfold mterm. cbn [fst snd].
    assert (is_zero (B:=FldR) eps (Some y) = false) as -> by (apply is_zero_some_false; lra). reflexivity. }
  rewrite E. apply RminL_le. right. apply in_map. exact H.
Qed.
Lemma iv_mR_nonneg eps p a : 0 <= eps -> nonneg p -> nonneg a -> 0 <= mR eps p a.
Proof.
  intros He Hp Ha. unfold mR.
  assert (Hn : 1 :: map (mterm eps) (combine p a) <> []) by discriminate.
  pose proof (RminL_in _ Hn) as [H|H]; [rewrite <- H; lra|].
  apply in_map_iff in H. destruct H as ((x, y) & E & Hin). rewrite <- E.
  unfold mterm. cbn [fst snd]. destruct (is_zero (B:=FldR) eps (Some y)) eqn:Ez; [lra|].
  apply is_zero_some_false in Ez. pose proof (in_combine_r _ _ _ _ Hin) as Hy. apply in_combine_l in Hin.
  unfold nonneg in Hp, Ha. rewrite Forall_forall in Hp, Ha. specialize (Hp x Hin). specialize (Ha y Hy).
  apply Rmult_le_pos; [assumption|]. left. apply Rinv_0_lt_compat. lra.
Qed.

(* ------------------------------------------------------------ the operator *)
(* [inverse] with the projections and maximal uncertainties of the conditionals abstracted *)
Definition m_col (p_yx : list (list RV)) (y : nat) : list RV := map (fun px => get px y) p_yx.
Definition m_temp (eps : F FldR) (p_yx : list (list RV)) (ax : list RV) (ny : nat) : list (list RV) :=
  tab ny (fun y =>
    if forallb (is_zero eps) (m_col p_yx y) then map (fun _ => one) (m_col p_yx y)
    else
      let q := vsum (map2 mul ax (m_col p_yx y)) in
      map (fun p => div p q) (m_col p_yx y)).
Definition m_irr (p_yx : list (list RV)) (ny : nat) : list RV :=
  tab ny (fun y => add (sub one (vmax (m_col p_yx y))) (vmin (m_col p_yx y))).
Definition m_weights (u_yx : list RV) : list RV :=
  if eqb (vsum u_yx) zero then map (fun _ => zero) u_yx
  else map (fun u => div u (vsum u_yx)) u_yx.
Definition m_maxuyx (p_yx : list (list RV)) (ay : list RV) : list RV :=
  map (fun px => vmin (map2 div px ay)) p_yx.
Definition m_weighted (eps : F FldR) (p_yx : list (list RV)) (u_yx ay : list RV) : list RV :=
  map3 (fun mu w u => if is_zero eps mu then zero else div (mul w u) mu)
       (m_maxuyx p_yx ay) (m_weights u_yx) u_yx.
Definition m_final (wprop : RV) (max_u_xy irrelevance : list RV) (p_xy : list (list RV)) (ax : list RV)
  : list (simplex (B:=FldR)) :=
  map3 (fun mu irr pxy =>
          let u := mul mu (sub (add wprop irr) (mul wprop irr)) in
          normalized (map2 (fun p a => sub p (mul u a)) pxy ax) u)
       max_u_xy irrelevance p_xy.
Definition inv_core (eps : F FldR) (p_yx : list (list RV)) (u_yx : list RV) (ax ay : list RV)
  : list (simplex (B:=FldR)) :=
  m_final (vsum (m_weighted eps p_yx u_yx ay))
          (map vmin (m_temp eps p_yx ax (length ay)))
          (m_irr p_yx (length ay))
          (map (fun t => map2 mul t ax) (m_temp eps p_yx ax (length ay))) ax.

Lemma inverse_core eps conds ax ay :
  inverse (B:=FldR) eps conds ax ay =
  inv_core eps (map (fun c => projection (bel c) (unc c) ay) conds)
               (map (fun c => max_uncertainty eps (bel c) (unc c) ay) conds) ax ay.
Proof. reflexivity. Qed.

(* the same computation on real numbers; [P] = projected likelihoods P(.|x), [ms] = maximal
   uncertainties of the conditionals *)
Section InvR.
Variable eps : R.
Variables (P : list (list R)) (ms ax ay : list R).
Definition colR (y : nat) : list R := map (fun p => nth y p 0) P.
Definition allz (y : nat) : bool := forallb (fun v => is_zero (B:=FldR) eps (Some v)) (colR y).
Definition qR (y : nat) : R := Rsum (map2 Rmult ax (colR y)).
Definition tempR (y : nat) : list R :=
  if allz y then map (fun _ => 1) (colR y) else map (fun p => p / qR y) (colR y).
Definition pxyR (y : nat) : list R := map2 Rmult (tempR y) ax.
Definition irrR (y : nat) : R := 1 - RmaxL (colR y) + RminL (colR y).
Definition uhatR (y : nat) : R := RminL (tempR y).
Definition SR : R := Rsum ms.
Definition weightsR : list R :=
  if Reqb SR 0 then map (fun _ => 0) ms else map (fun u => u / SR) ms.
Definition MsR : list R := map (fun p => RminL (ratiosR p ay)) P.
Definition weightedR : list R :=
  map3 (fun mu w u => if is_zero (B:=FldR) eps (Some mu) then 0 else w * u / mu) MsR weightsR ms.
Definition wR : R := Rsum weightedR.
Definition uinvR (y : nat) : R := uhatR y * (wR + irrR y - wR * irrR y).
Definition binvR (y : nat) : list R := map2 (fun p a => p - uinvR y * a) (pxyR y) ax.
Definition invR : list (list R * R) := map (fun y => (binvR y, uinvR y)) (seq 0 (length ay)).
End InvR.

Lemma iv_forallb_false {X} (f : X -> bool) l : forallb f l = false -> exists x, In x l /\ f x = false.
Proof.
  induction l as [|a l IH]; cbn; [discriminate|]. destruct (f a) eqn:E; cbn; intros H.
  - destruct (IH H) as (x & Hx & Hf). exists x; auto.
  - exists a; auto.
Qed.

Lemma iv_col_ne (P : list (list R)) y : P <> [] -> colR P y <> [].
Proof. unfold colR. destruct P; [congruence|discriminate]. Qed.

(* ---------------------------------------------- evaluation of the stages *)
Section CoreEval.
Variable eps : R.
Hypothesis He : 0 <= eps.
Variables (P : list (list R)) (ms ax ay : list R).
Hypothesis HPlen : Forall (fun p => length p = length ay) P.
Hypothesis HPnn : Forall nonneg P.
Hypothesis HPne : P <> [].
Hypothesis Hax : Forall (fun a => 0 < a) ax.
Hypothesis Hlax : length ax = length P.
Hypothesis Hay : exists y, In y ay /\ y <> 0.

Lemma iv_col_eval y : (y < length ay)%nat ->
  m_col (map (map Some) P) y = map Some (colR P y).
Proof.
  intros Hy. unfold m_col, colR. rewrite !map_map. apply map_ext_in. intros p Hp.
  apply iv_get_some. rewrite Forall_forall in HPlen. rewrite (HPlen p Hp). exact Hy.
Qed.

Lemma iv_col_length y : length (colR P y) = length P.
Proof. unfold colR. apply map_length. Qed.

Lemma iv_col_nonneg y : (y < length ay)%nat -> nonneg (colR P y).
Proof.
  intros Hy. unfold colR, nonneg. apply Forall_forall. intros v Hv.
  apply in_map_iff in Hv. destruct Hv as (p & <- & Hp).
  rewrite Forall_forall in HPlen, HPnn. specialize (HPnn p Hp). specialize (HPlen p Hp).
  unfold nonneg in HPnn. rewrite Forall_forall in HPnn. apply HPnn. apply nth_In. lia.
Qed.

Lemma iv_q_pos_col y : (y < length ay)%nat -> allz eps P y = false -> 0 < qR P ax y.
Proof.
  intros Hy Hz. unfold qR. apply iv_q_pos.
  - rewrite iv_col_length. exact Hlax.
  - exact Hax.
  - apply iv_col_nonneg; exact Hy.
  - unfold allz in Hz. apply iv_forallb_false in Hz. destruct Hz as (v & Hv & Hf).
    apply is_zero_some_false in Hf. exists v. split; [exact Hv|].
    pose proof (iv_col_nonneg y Hy) as Hn. unfold nonneg in Hn. rewrite Forall_forall in Hn.
    specialize (Hn v Hv). lra.
Qed.

Lemma iv_temp_eval :
  m_temp eps (map (map Some) P) (map Some ax) (length ay)
  = tab (length ay) (fun y => map Some (tempR eps P ax y)).
Proof.
  unfold m_temp, tab. apply map_ext_in. intros y Hy. apply in_seq in Hy.
  rewrite iv_col_eval by lia. rewrite iv_forallb_map. unfold tempR.
  change (forallb (fun x => is_zero (B:=FldR) eps (Some x)) (colR P y)) with (allz eps P y).
  destruct (allz eps P y) eqn:E.
  - rewrite !map_map. reflexivity.
  - cbv zeta. rewrite iv_Rsum_map2_mul_some. fold (qR P ax y).
    apply map_some. intros a. apply div_some.
    pose proof (iv_q_pos_col y ltac:(lia) E). lra.
Qed.

Lemma iv_irr_eval :
  m_irr (map (map Some) P) (length ay) = tab (length ay) (fun y => Some (irrR P y)).
Proof.
  unfold m_irr, tab. apply map_ext_in. intros y Hy. apply in_seq in Hy.
  rewrite iv_col_eval by lia. rewrite iv_vmax_some, iv_vmin_some by (apply iv_col_ne; exact HPne).
  reflexivity.
Qed.

Lemma iv_weights_eval : m_weights (map Some ms) = map Some (weightsR ms).
Proof.
  unfold m_weights, weightsR. rewrite vsum_some, zero_some, eqb_some. fold (SR ms).
  destruct (Reqb_spec (SR ms) 0) as [E|E].
  - rewrite !map_map. reflexivity.
  - apply map_some. intros a. apply div_some. exact E.
Qed.

Lemma iv_maxuyx_eval : m_maxuyx (map (map Some) P) (map Some ay) = map Some (MsR P ay).
Proof.
  unfold m_maxuyx, MsR. rewrite !map_map. apply map_ext_in. intros p Hp.
  rewrite iv_vmin_somes; rewrite iv_somes_ratios; [reflexivity|].
  apply iv_ratios_nonempty; [|exact Hay]. rewrite Forall_forall in HPlen. auto.
Qed.

Lemma iv_weighted_eval :
  m_weighted eps (map (map Some) P) (map Some ms) (map Some ay) = map Some (weightedR eps P ms ay).
Proof.
  unfold m_weighted, weightedR. rewrite iv_maxuyx_eval, iv_weights_eval.
  apply iv_map3_some. intros a b c _.
  destruct (is_zero (B:=FldR) eps (Some a)) eqn:E; [reflexivity|].
  apply is_zero_some_false in E. rewrite mul_some. apply div_some. lra.
Qed.

Lemma iv_core_eval :
  inv_core eps (map (map Some) P) (map Some ms) (map Some ax) (map Some ay)
  = map (fun y => normalized (B:=FldR) (map Some (binvR eps P ms ax ay y)) (Some (uinvR eps P ms ax ay y)))
        (seq 0 (length ay)).
Proof.
  unfold inv_core. rewrite map_length. rewrite iv_weighted_eval, vsum_some, iv_temp_eval, iv_irr_eval.
  fold (wR eps P ms ay). unfold tab, m_final. rewrite !map_map.
  rewrite iv_map3_map. apply map_ext_in. intros y Hy. apply in_seq in Hy.
  assert (Hne : tempR eps P ax y <> []).
  { unfold tempR. pose proof (iv_col_ne P y HPne). destruct (allz eps P y); destruct (colR P y); cbn; congruence. }
  rewrite iv_vmin_some by exact Hne. fold (uhatR eps P ax y).
  cbv zeta. rsimpl. fold (uinvR eps P ms ax ay y).
  rewrite (map2_some _ Rmult) by reflexivity. fold (pxyR eps P ax y).
  rewrite (map2_some _ (fun p a => p - uinvR eps P ms ax ay y * a)) by reflexivity.
  reflexivity.
Qed.
End CoreEval.

(* ---------------------------------------------- the mathematics of the result *)
Lemma iv_nonneg_b t : forall ax u, Forall (fun tx => u <= tx) t -> nonneg ax ->
  nonneg (map2 (fun p a => p - u * a) (map2 Rmult t ax) ax).
Proof.
  unfold nonneg. induction t as [|x t IH]; intros [|a ax] u Ht Ha; cbn; try constructor.
  - inversion Ht; inversion Ha; subst. nra.
  - inversion Ht; inversion Ha; subst. apply IH; assumption.
Qed.

Lemma iv_div_le1 m M : 0 <= m <= M -> 0 < M -> 0 <= m / M <= 1.
Proof.
  intros Hm HM. split.
  - unfold Rdiv. apply Rmult_le_pos; [lra|]. left. apply Rinv_0_lt_compat. lra.
  - apply (Rmult_le_reg_r M); [lra|]. replace (m / M * M) with m by (field; lra). lra.
Qed.

Lemma iv_dist_nonzero a : wf_dist a -> exists y, In y a /\ y <> 0.
Proof.
  intros (Hn & Hs). induction Hn as [|x l Ha Hl IH]; cbn in Hs; [lra|].
  destruct (Req_dec x 0) as [->|Hne].
  - destruct IH as (y & Hy & Hy0); [lra|]. exists y; split; [right|]; assumption.
  - exists x; split; [left; reflexivity|assumption].
Qed.

Section InvMath.
Variable eps : R.
Hypothesis He : 0 <= eps.
Variables (P : list (list R)) (ax ay : list R).
Hypothesis HPlen : Forall (fun p => length p = length ay) P.
Hypothesis HPnn : Forall nonneg P.
Hypothesis HPsum : Forall (fun p => Rsum p = 1) P.
Hypothesis HPne : P <> [].
Hypothesis Hax : Forall (fun a => 0 < a) ax.
Hypothesis Hsax : Rsum ax = 1.
Hypothesis Hlax : length ax = length P.
Hypothesis Hay : wf_dist ay.
(* base rates of Y are exactly zero or above the guard tolerance (vacuous at eps = 0) *)
Hypothesis Hay_ok : Forall (fun a => a = 0 \/ eps < a) ay.

Let ms := map (fun p => mR eps p ay) P.

Lemma iv_ay_nonzero : exists y, In y ay /\ y <> 0.
Proof. apply iv_dist_nonzero. exact Hay. Qed.

Lemma iv_nonneg_ax : nonneg ax.
Proof. unfold nonneg. eapply Forall_impl; [|exact Hax]. cbn; intros; lra. Qed.

Lemma iv_col_unit y v : (y < length ay)%nat -> In v (colR P y) -> 0 <= v <= 1.
Proof.
  intros Hy Hv. unfold colR in Hv. apply in_map_iff in Hv. destruct Hv as (p & <- & Hp).
  rewrite Forall_forall in HPlen, HPnn, HPsum.
  specialize (HPnn p Hp). specialize (HPlen p Hp). specialize (HPsum p Hp).
  assert (Hin : In (nth y p 0) p) by (apply nth_In; lia).
  pose proof (Rsum_le_elem p _ HPnn Hin). unfold nonneg in HPnn. rewrite Forall_forall in HPnn.
  specialize (HPnn _ Hin). lra.
Qed.

Lemma iv_irr_unit y : (y < length ay)%nat -> 0 <= irrR P y <= 1.
Proof.
  intros Hy. unfold irrR. pose proof (iv_col_ne P y HPne) as Hne.
  pose proof (iv_col_unit y _ Hy (RmaxL_in _ Hne)).
  pose proof (iv_col_unit y _ Hy (RminL_in _ Hne)).
  pose proof (RmaxL_ge _ _ (RminL_in _ Hne)). lra.
Qed.

(* max_u_yx and the maximal uncertainty of a conditional *)
Lemma iv_M_facts p : In p P ->
  0 <= RminL (ratiosR p ay) /\ mR eps p ay <= RminL (ratiosR p ay).
Proof.
  intros Hp. rewrite Forall_forall in HPlen, HPnn. specialize (HPlen p Hp). specialize (HPnn p Hp).
  pose proof (RminL_in _ (iv_ratios_nonempty p ay HPlen iv_ay_nonzero)) as Hin.
  apply iv_ratios_in in Hin. destruct Hin as (x & y & Hxy & Hy0 & E). rewrite E.
  pose proof (in_combine_l _ _ _ _ Hxy) as Hx. pose proof (in_combine_r _ _ _ _ Hxy) as Hy.
  rewrite Forall_forall in Hay_ok. destruct (Hay_ok y Hy) as [?|Hgt]; [contradiction|].
  unfold nonneg in HPnn. rewrite Forall_forall in HPnn. specialize (HPnn x Hx). split.
  - unfold Rdiv. apply Rmult_le_pos; [lra|]. left. apply Rinv_0_lt_compat. lra.
  - apply iv_mR_le; assumption.
Qed.

Lemma iv_m_nonneg p : In p P -> 0 <= mR eps p ay.
Proof.
  intros Hp. rewrite Forall_forall in HPnn. apply iv_mR_nonneg; [exact He|auto|apply Hay].
Qed.

Lemma iv_w_unit : 0 <= wR eps P ms ay <= 1.
Proof.
  unfold wR, weightedR, weightsR, MsR, ms.
  assert (HS : 0 <= SR (map (fun p => mR eps p ay) P)).
  { unfold SR. apply iv_Rsum_map_nonneg. intros; apply iv_m_nonneg; assumption. }
  destruct (Reqb_spec (SR (map (fun p => mR eps p ay) P)) 0) as [E|E].
  - rewrite map_map, iv_map3_map. split.
    + apply iv_Rsum_map_nonneg. intros p Hp. destruct (is_zero _ _); [lra|]. unfold Rdiv. right. ring.
    + apply Rle_trans with (Rsum (map (fun _ : list R => 0) P)); [|rewrite Rsum_zeros; lra].
      apply iv_Rsum_le_map. intros p Hp. destruct (is_zero _ _); [lra|]. unfold Rdiv. right. ring.
  - set (S := SR (map (fun p => mR eps p ay) P)) in *. assert (HSp : 0 < S) by lra.
    rewrite map_map, iv_map3_map. split.
    + apply iv_Rsum_map_nonneg. intros p Hp. destruct (is_zero _ _) eqn:Ez; [lra|].
      apply is_zero_some_false in Ez. destruct (iv_M_facts p Hp) as (HM0 & HmM).
      pose proof (iv_m_nonneg p Hp) as Hm0.
      pose proof (iv_div_le1 (mR eps p ay) (RminL (ratiosR p ay)) ltac:(lra) ltac:(lra)) as Hr.
      pose proof (iv_div_le1 0 S ltac:(lra) HSp).
      replace (mR eps p ay / S * mR eps p ay / RminL (ratiosR p ay))
        with ((mR eps p ay / S) * (mR eps p ay / RminL (ratiosR p ay))) by (unfold Rdiv; ring).
      apply Rmult_le_pos; [|lra]. unfold Rdiv. apply Rmult_le_pos; [lra|].
      left. apply Rinv_0_lt_compat. lra.
    + assert (H1 : Rsum (map (fun p => mR eps p ay / S) P) = 1).
      { rewrite <- (map_map (fun p => mR eps p ay) (fun m => m / S)). rewrite Rsum_map_div.
        fold (SR (map (fun p => mR eps p ay) P)). fold S. field. lra. }
      rewrite <- H1. apply iv_Rsum_le_map. intros p Hp.
      destruct (iv_M_facts p Hp) as (HM0 & HmM). pose proof (iv_m_nonneg p Hp) as Hm0.
      assert (Ht : 0 <= mR eps p ay / S).
      { unfold Rdiv. apply Rmult_le_pos; [lra|]. left. apply Rinv_0_lt_compat. lra. }
      destruct (is_zero _ _) eqn:Ez; [lra|]. apply is_zero_some_false in Ez.
      pose proof (iv_div_le1 (mR eps p ay) (RminL (ratiosR p ay)) ltac:(lra) ltac:(lra)) as Hr.
      replace (mR eps p ay / S * mR eps p ay / RminL (ratiosR p ay))
        with ((mR eps p ay / S) * (mR eps p ay / RminL (ratiosR p ay))) by (unfold Rdiv; ring).
      nra.
Qed.

Lemma iv_temp_length y : length (tempR eps P ax y) = length ax.
Proof.
  unfold tempR. destruct (allz eps P y); rewrite map_length, iv_col_length; auto.
Qed.

Lemma iv_temp_nonneg y v : (y < length ay)%nat -> In v (tempR eps P ax y) -> 0 <= v.
Proof.
  intros Hy. unfold tempR. destruct (allz eps P y) eqn:E; intros Hv; apply in_map_iff in Hv;
    destruct Hv as (c & <- & Hc); [lra|].
  pose proof (iv_q_pos_col eps He P ax ay HPlen HPnn Hax Hlax y Hy E) as Hq.
  pose proof (iv_col_unit y c Hy Hc). unfold Rdiv. apply Rmult_le_pos; [lra|].
  left. apply Rinv_0_lt_compat. exact Hq.
Qed.

Lemma iv_pxy_sum y : (y < length ay)%nat -> Rsum (pxyR eps P ax y) = 1.
Proof.
  intros Hy. unfold pxyR, tempR. destruct (allz eps P y) eqn:E.
  - rewrite iv_Rsum_ones; [exact Hsax|]. rewrite iv_col_length; auto.
  - rewrite iv_Rsum_div_q. fold (qR P ax y).
    pose proof (iv_q_pos_col eps He P ax ay HPlen HPnn Hax Hlax y Hy E). field. lra.
Qed.

Lemma iv_temp_ne y : tempR eps P ax y <> [].
Proof.
  intros H. pose proof (iv_temp_length y) as HL. rewrite H in HL. cbn in HL.
  destruct P; [congruence|]. cbn in Hlax. lia.
Qed.

Lemma iv_uhat_nonneg y : (y < length ay)%nat -> 0 <= uhatR eps P ax y.
Proof. intros Hy. unfold uhatR. apply (iv_temp_nonneg y _ Hy). apply RminL_in. apply iv_temp_ne. Qed.

(* 0 <= u_y <= uhat_y *)
Lemma iv_uinv_bounds y : (y < length ay)%nat ->
  0 <= uinvR eps P ms ax ay y <= uhatR eps P ax y.
Proof.
  intros Hy. unfold uinvR. pose proof iv_w_unit. pose proof (iv_irr_unit y Hy).
  pose proof (iv_uhat_nonneg y Hy).
  set (w := wR eps P ms ay) in *. set (i := irrR P y) in *. set (h := uhatR eps P ax y) in *.
  assert (0 <= w + i - w * i <= 1) by nra. nra.
Qed.

Lemma iv_inv_sum y : (y < length ay)%nat ->
  Rsum (binvR eps P ms ax ay y) + uinvR eps P ms ax ay y = 1.
Proof.
  intros Hy. unfold binvR, pxyR. rewrite iv_Rsum_b by apply iv_temp_length.
  fold (pxyR eps P ax y). rewrite iv_pxy_sum by exact Hy. rewrite Hsax. lra.
Qed.

Lemma iv_inv_wf y : (y < length ay)%nat ->
  wf_simplex (binvR eps P ms ax ay y) (uinvR eps P ms ax ay y) /\
  length (binvR eps P ms ax ay y) = length ax.
Proof.
  intros Hy. pose proof (iv_uinv_bounds y Hy) as Hu. split; [split; [|split]|].
  - unfold binvR, pxyR. apply iv_nonneg_b; [|apply iv_nonneg_ax].
    apply Forall_forall. intros v Hv. pose proof (RminL_le _ _ Hv). fold (uhatR eps P ax y) in H. lra.
  - lra.
  - apply iv_inv_sum; exact Hy.
  - unfold binvR, pxyR. rewrite !map2_length, iv_temp_length. lia.
Qed.
End InvMath.

(* ---------------------------------------------- operands and the main theorems *)
(* conditionals X -> Y as real simplexes, all over [ny] values *)
Definition wf_conds (cs : list (list R * R)) (ny : nat) : Prop :=
  Forall (fun c => wf_simplex (fst c) (snd c) /\ length (fst c) = ny) cs.
(* likelihood table: row x is the projected distribution P(.|x) = b_x + ay u_x *)
Definition likR (cs : list (list R * R)) (ay : list R) : list (list R) :=
  map (fun c => projR (fst c) (snd c) ay) cs.
Definition PyxR (cs : list (list R * R)) (ay : list R) (x y : nat) : R :=
  nth y (nth x (likR cs ay) []) 0.
(* the inverted conditionals, as real simplexes *)
Definition inverseR (eps : R) (cs : list (list R * R)) (ax ay : list R) : list (list R * R) :=
  invR eps (likR cs ay) (map (fun p => mR eps p ay) (likR cs ay)) ax ay.
(* strictly positive distribution *)
Definition pos_dist (a : list R) : Prop := Forall (fun x => 0 < x) a /\ Rsum a = 1.
(* entries exactly zero or above the guard tolerance; at eps = 0 this is [nonneg] *)
Definition guard_clear (eps : R) (a : list R) : Prop := Forall (fun x => x = 0 \/ eps < x) a.

Lemma iv_proj_nonneg b : forall u a, nonneg b -> 0 <= u -> nonneg a -> nonneg (projR b u a).
Proof.
  unfold projR, nonneg. induction b as [|x b IH]; intros u [|y a] Hb Hu Ha; cbn; constructor;
    inversion Hb; inversion Ha; subst; [nra|apply IH; assumption].
Qed.

Lemma iv_lik_facts cs ay : wf_conds cs (length ay) -> wf_dist ay ->
  Forall (fun p => length p = length ay) (likR cs ay) /\
  Forall nonneg (likR cs ay) /\
  Forall (fun p => Rsum p = 1) (likR cs ay).
Proof.
  intros Hcs (Han & Has). unfold likR. rewrite !Forall_map. unfold wf_conds in Hcs.
  repeat split; (eapply Forall_impl; [|exact Hcs]); cbn beta; intros (b, u) ((Hb & Hu & Hs) & HL); cbn [fst snd] in *.
  - unfold projR. rewrite map2_length, HL. apply Nat.min_id.
  - apply iv_proj_nonneg; assumption.
  - unfold projR. rewrite iv_Rsum_proj by exact HL. rewrite Has. lra.
Qed.

Section Main.
Variable eps : R.
Hypothesis He : 0 <= eps.
Variables (cs : list (list R * R)) (ax ay : list R).
Hypothesis Hcs : wf_conds cs (length ay).
Hypothesis Hax : pos_dist ax.
Hypothesis Hlax : length ax = length cs.
Hypothesis Hay : wf_dist ay.
Hypothesis Hay_ok : guard_clear eps ay.

Let P := likR cs ay.
Let ms := map (fun p => mR eps p ay) P.

Lemma iv_P_ne : P <> [].
Proof.
  unfold P, likR. destruct Hax as (_ & Hs). destruct cs; [|discriminate].
  destruct ax; [cbn in Hs; lra|discriminate].
Qed.

Lemma iv_P_len : length ax = length P.
Proof. unfold P, likR. rewrite map_length. exact Hlax. Qed.

(* definedness: the model returns exactly [inverseR], no NaN anywhere *)
Lemma inverse_eval :
  inverse (B:=FldR) eps (map embS cs) (map Some ax) (map Some ay) = map embS (inverseR eps cs ax ay).
Proof.
  destruct (iv_lik_facts cs ay Hcs Hay) as (HPl & HPn & HPs). destruct Hax as (Hap & Has).
  rewrite inverse_core.
  assert (E1 : map (fun c : simplex (B:=FldR) => projection (bel c) (unc c) (map Some ay)) (map embS cs)
               = map (map Some) P).
  { unfold P, likR. rewrite !map_map. apply map_ext_in. intros (b, u) Hc.
    unfold wf_conds in Hcs. rewrite Forall_forall in Hcs. destruct (Hcs _ Hc) as ((Hb & Hu & Hs) & HL).
    cbn [fst snd embS bel unc] in *. apply iv_projection_eval; [exact HL|exact Hs|apply Hay]. }
  assert (E2 : map (fun c : simplex (B:=FldR) => max_uncertainty (B:=FldR) eps (bel c) (unc c) (map Some ay)) (map embS cs)
               = map Some ms).
  { unfold ms, P, likR. rewrite !map_map. apply map_ext_in. intros (b, u) Hc.
    unfold wf_conds in Hcs. rewrite Forall_forall in Hcs. destruct (Hcs _ Hc) as ((Hb & Hu & Hs) & HL).
    cbn [fst snd embS bel unc] in *. apply iv_max_uncertainty_eval; [exact He|exact HL|exact Hs|apply Hay]. }
  rewrite E1, E2.
  rewrite (iv_core_eval eps He P ms ax ay HPl HPn iv_P_ne Hap iv_P_len (iv_dist_nonzero ay Hay)).
  unfold inverseR, invR. fold P. fold ms. rewrite map_map. apply map_ext_in. intros y Hy.
  apply in_seq in Hy. unfold embS. cbn [fst snd].
  apply iv_normalized_one.
  apply (iv_inv_sum eps He P ax ay); try assumption; [exact iv_P_len|lia].
Qed.

Lemma inverse_wf :
  length (inverseR eps cs ax ay) = length ay /\
  Forall (fun s => wf_simplex (fst s) (snd s) /\ length (fst s) = length ax) (inverseR eps cs ax ay).
Proof.
  destruct (iv_lik_facts cs ay Hcs Hay) as (HPl & HPn & HPs). destruct Hax as (Hap & Has).
  unfold inverseR, invR. rewrite map_length, seq_length. split; [reflexivity|].
  rewrite Forall_map. apply Forall_forall. intros y Hy. apply in_seq in Hy. cbn [fst snd].
  exact (iv_inv_wf eps He P ax ay HPl HPn HPs iv_P_ne Hap Has iv_P_len Hay Hay_ok y ltac:(lia)).
Qed.
End Main.

(* ---------------------------------------------- Bayes, uncertainty, vacuous cases *)
Lemma iv_nth_map2 {X Y Z} (f : X -> Y -> Z) l1 : forall l2 i d d1 d2,
  (i < length l1)%nat -> (i < length l2)%nat ->
  nth i (map2 f l1 l2) d = f (nth i l1 d1) (nth i l2 d2).
Proof.
  induction l1 as [|a l1 IH]; intros [|b l2] i d d1 d2 H1 H2; cbn in *; try lia.
  destruct i; [reflexivity|]. apply IH; lia.
Qed.

Lemma iv_col_nth (P : list (list R)) x y : nth x (colR P y) 0 = nth y (nth x P []) 0.
Proof.
  unfold colR. transitivity (nth x (map (fun p => nth y p 0) P) ((fun p => nth y p 0) [])).
  - f_equal. destruct y; reflexivity.
  - exact (map_nth (fun p => nth y p 0) P [] x).
Qed.

Lemma iv_col_const (P : list (list R)) y c :
  (forall x, (x < length P)%nat -> nth y (nth x P []) 0 = c) -> colR P y = map (fun _ => c) P.
Proof.
  unfold colR. induction P as [|p P IH]; intros H; cbn [map]; [reflexivity|]. f_equal.
  - exact (H 0%nat ltac:(cbn; lia)).
  - apply IH. intros x Hx. exact (H (S x) ltac:(cbn; lia)).
Qed.

Lemma iv_bayes_list col : forall ax u q,
  map2 (fun b a => b + a * u)
       (map2 (fun p a => p - u * a) (map2 Rmult (map (fun p => p / q) col) ax) ax) ax
  = map2 (fun a p => a * p / q) ax col.
Proof.
  induction col as [|c col IH]; intros [|a ax] u q; cbn; try reflexivity.
  f_equal; [unfold Rdiv; ring|apply IH].
Qed.

Lemma iv_b_scaled {X} (l : list X) : forall ax u, length l = length ax ->
  map2 (fun p a => p - u * a) (map2 Rmult (map (fun _ => 1) l) ax) ax = map (fun a => a * (1 - u)) ax.
Proof.
  induction l as [|x l IH]; intros [|a ax] u H; cbn in *; try discriminate; [reflexivity|].
  f_equal; [ring|apply IH; lia].
Qed.

Lemma iv_Rsum_const {X} (l : list X) c : forall ax, length ax = length l ->
  Rsum (map2 Rmult ax (map (fun _ => c) l)) = c * Rsum ax.
Proof.
  induction l as [|x l IH]; intros [|a ax] H; cbn in *; try discriminate; [lra|].
  rewrite IH by lia. lra.
Qed.

Lemma iv_lik_ne cs ax ay : pos_dist ax -> length ax = length cs -> likR cs ay <> [].
Proof.
  intros (_ & Hs) HL. unfold likR. destruct cs; [|discriminate].
  destruct ax; [cbn in Hs; lra|discriminate].
Qed.

Section Laws.
Variable eps : R.
Hypothesis He : 0 <= eps.
Variables (cs : list (list R * R)) (ax ay : list R).
Hypothesis Hcs : wf_conds cs (length ay).
Hypothesis Hax : pos_dist ax.
Hypothesis Hlax : length ax = length cs.
Hypothesis Hay : wf_dist ay.

Let P := likR cs ay.
Let ms := map (fun p => mR eps p ay) P.

(* Bayes' theorem for every outcome whose likelihood column is not (tolerantly) all zero:
   the projection of the inverted conditional under ax, entry x, is ax_x P(y|x) / q_y *)
Lemma inverse_bayes_list y : allz eps P y = false ->
  projR (binvR eps P ms ax ay y) (uinvR eps P ms ax ay y) ax
  = map2 (fun a p => a * p / qR P ax y) ax (colR P y).
Proof.
  intros E. unfold projR, binvR, pxyR, tempR. rewrite E. apply iv_bayes_list.
Qed.

Lemma inverse_bayes_entry x y : (x < length ax)%nat -> allz eps P y = false ->
  nth x (binvR eps P ms ax ay y) 0 + nth x ax 0 * uinvR eps P ms ax ay y
  = nth x ax 0 * PyxR cs ay x y / qR P ax y.
Proof.
  intros Hx E. pose proof (inverse_bayes_list y E) as H.
  apply (f_equal (fun l => nth x l 0)) in H. unfold projR in H.
  assert (HLb : length (binvR eps P ms ax ay y) = length ax).
  { unfold binvR, pxyR, tempR. rewrite E. rewrite !map2_length, map_length, iv_col_length.
    unfold P, likR. rewrite map_length. lia. }
  rewrite (iv_nth_map2 _ _ _ _ 0 0 0) in H by lia.
  rewrite (iv_nth_map2 _ _ _ _ 0 0 0) in H
    by (try rewrite iv_col_length; unfold P, likR; try rewrite map_length; lia).
  rewrite iv_col_nth in H. exact H.
Qed.

(* an outcome whose likelihood column is constant *)
Lemma iv_vacuous_core y : (y < length ay)%nat ->
  tempR eps P ax y = map (fun _ => 1) P -> irrR P y = 1 ->
  binvR eps P ms ax ay y = map (fun _ => 0) ax /\ uinvR eps P ms ax ay y = 1.
Proof.
  intros Hy Ht Hi.
  assert (HPne : P <> []) by (apply (iv_lik_ne cs ax ay Hax Hlax)).
  assert (Hu : uinvR eps P ms ax ay y = 1).
  { unfold uinvR, uhatR. rewrite Ht, Hi, RminL_const by exact HPne. ring. }
  split; [|exact Hu]. unfold binvR. rewrite Hu. unfold pxyR. rewrite Ht.
  rewrite iv_b_scaled by (unfold P, likR; rewrite map_length; lia).
  apply map_ext. intros; ring.
Qed.

(* equally likely under every x, and not negligible: vacuous *)
Lemma inverse_irrelevant y c : (y < length ay)%nat -> eps < c ->
  (forall x, (x < length cs)%nat -> PyxR cs ay x y = c) ->
  binvR eps P ms ax ay y = map (fun _ => 0) ax /\ uinvR eps P ms ax ay y = 1.
Proof.
  intros Hy Hc H.
  assert (HPne : P <> []) by (apply (iv_lik_ne cs ax ay Hax Hlax)).
  assert (Hcol : colR P y = map (fun _ => c) P).
  { apply iv_col_const. intros x Hx. apply H. unfold P, likR in Hx. rewrite map_length in Hx. exact Hx. }
  assert (Hz : allz eps P y = false).
  { unfold allz. rewrite Hcol. destruct P as [|p P']; [congruence|]. cbn [map forallb]. cbn beta.
    destruct (is_zero _ _) eqn:Ez; [|reflexivity]. apply is_zero_some in Ez. lra. }
  apply iv_vacuous_core; [exact Hy| |].
  - unfold tempR. rewrite Hz. unfold qR. rewrite Hcol.
    rewrite iv_Rsum_const by (unfold P, likR; rewrite map_length; exact Hlax).
    destruct Hax as (_ & ->). rewrite map_map. apply map_ext. intros _. field. lra.
  - unfold irrR. rewrite Hcol, RmaxL_const, RminL_const by exact HPne. ring.
Qed.

(* impossible under every x: vacuous *)
Lemma inverse_zero_column y : (y < length ay)%nat ->
  (forall x, (x < length cs)%nat -> PyxR cs ay x y = 0) ->
  binvR eps P ms ax ay y = map (fun _ => 0) ax /\ uinvR eps P ms ax ay y = 1.
Proof.
  intros Hy H.
  assert (HPne : P <> []) by (apply (iv_lik_ne cs ax ay Hax Hlax)).
  assert (Hcol : colR P y = map (fun _ => 0) P).
  { apply iv_col_const. intros x Hx. apply H. unfold P, likR in Hx. rewrite map_length in Hx. exact Hx. }
  assert (Hz : allz eps P y = true).
  { unfold allz. rewrite Hcol. apply forallb_forall. intros v Hv. apply in_map_iff in Hv.
    destruct Hv as (? & <- & _). apply is_zero_some. lra. }
  apply iv_vacuous_core; [exact Hy| |].
  - unfold tempR. rewrite Hz, Hcol, map_map. reflexivity.
  - unfold irrR. rewrite Hcol, RmaxL_const, RminL_const by exact HPne. ring.
Qed.

(* if every P(y|x) is either 0 or above the tolerance, the tolerant test is the exact one *)
Lemma inverse_allz_exact y : (y < length ay)%nat ->
  (forall x, (x < length cs)%nat -> PyxR cs ay x y = 0 \/ eps < PyxR cs ay x y) ->
  allz eps P y = true -> forall x, (x < length cs)%nat -> PyxR cs ay x y = 0.
Proof.
  intros Hy H Hz x Hx. destruct (H x Hx) as [E|E]; [exact E|exfalso].
  unfold allz in Hz. rewrite forallb_forall in Hz.
  assert (Hin : In (PyxR cs ay x y) (colR P y)).
  { unfold PyxR. fold P. rewrite <- iv_col_nth. apply nth_In.
    rewrite iv_col_length. unfold P, likR. rewrite map_length. exact Hx. }
  specialize (Hz _ Hin). apply is_zero_some in Hz. lra.
Qed.

Section WithGuard.
Hypothesis Hay_ok : guard_clear eps ay.

(* u_y = uhat_y (w + Psi_y - w Psi_y), 0 <= w, Psi_y <= 1, hence 0 <= u_y <= uhat_y, where
   uhat_y = min_x P(y|x)/q_y = min_x P(x|y)/ax_x is the largest uncertainty compatible with the
   Bayes projection *)
Lemma inverse_u_bound y : (y < length ay)%nat ->
  uinvR eps P ms ax ay y
    = uhatR eps P ax y * (wR eps P ms ay + irrR P y - wR eps P ms ay * irrR P y) /\
  0 <= wR eps P ms ay <= 1 /\ 0 <= irrR P y <= 1 /\
  0 <= uinvR eps P ms ax ay y <= uhatR eps P ax y /\
  (allz eps P y = false -> uhatR eps P ax y = RminL (map (fun p => p / qR P ax y) (colR P y))).
Proof.
  intros Hy. destruct (iv_lik_facts cs ay Hcs Hay) as (HPl & HPn & HPs). destruct Hax as (Hap & Has).
  assert (HPne : P <> []) by (apply (iv_lik_ne cs ax ay Hax Hlax)).
  assert (HL : length ax = length P) by (unfold P, likR; rewrite map_length; exact Hlax).
  split; [reflexivity|]. split; [|split; [|split]].
  - apply iv_w_unit; assumption.
  - apply (iv_irr_unit P ax ay); assumption.
  - apply iv_uinv_bounds; assumption.
  - intros E. unfold uhatR, tempR. rewrite E. reflexivity.
Qed.

(* a column that is all zero up to the tolerance: within eps of vacuous *)
Lemma inverse_tolerant_zero_column y : (y < length ay)%nat -> allz eps P y = true ->
  binvR eps P ms ax ay y = map (fun a => a * (1 - uinvR eps P ms ax ay y)) ax /\
  1 - eps <= uinvR eps P ms ax ay y <= 1.
Proof.
  intros Hy Hz. destruct (inverse_u_bound y Hy) as (_ & Hw & Hi & _ & _).
  destruct (iv_lik_facts cs ay Hcs Hay) as (HPl & HPn & HPs).
  assert (HPne : P <> []) by (apply (iv_lik_ne cs ax ay Hax Hlax)).
  assert (HL : length ax = length P) by (unfold P, likR; rewrite map_length; exact Hlax).
  split.
  - unfold binvR at 1. unfold pxyR, tempR. rewrite Hz. apply iv_b_scaled. rewrite iv_col_length. lia.
  - assert (Hh : uhatR eps P ax y = 1).
    { unfold uhatR, tempR. rewrite Hz. apply RminL_const. apply iv_col_ne. exact HPne. }
    unfold uinvR. rewrite Hh.
    assert (Hirr : 1 - eps <= irrR P y).
    { unfold irrR. pose proof (iv_col_ne P y HPne) as Hne.
      pose proof (RmaxL_in _ Hne) as Hmax. pose proof (RminL_in _ Hne) as Hmin.
      unfold allz in Hz. rewrite forallb_forall in Hz. pose proof (Hz _ Hmax) as H1.
      apply is_zero_some in H1.
      pose proof (iv_col_unit P ax ay HPl HPn HPs HL y _ Hy Hmin). lra. }
    nra.
Qed.
End WithGuard.
End Laws.

(* ---------------------------------------------- abduction *)
Lemma abduce_none_iff_mbr eps (wy : simplex (B:=FldR)) conds ax ny :
  abduce (B:=FldR) eps wy conds ax ny = None <-> mbr (B:=FldR) eps ny ax conds = None.
Proof. unfold abduce. destruct (mbr _ _ _ _); split; congruence. Qed.

Lemma abduce_some_mbr eps (wy : simplex (B:=FldR)) conds ax ny ay :
  mbr (B:=FldR) eps ny ax conds = Some ay ->
  abduce (B:=FldR) eps wy conds ax ny = Some (abduce_with eps wy conds ax ay).
Proof. unfold abduce. intros ->. reflexivity. Qed.

Lemma abduce_with_is_deduce eps (wy : simplex (B:=FldR)) conds ax ay :
  abduce_with (B:=FldR) eps wy conds ax ay
  = deduce_of (B:=FldR) (bel wy, unc wy, ay) (inverse eps conds ax ay) ax.
Proof. reflexivity. Qed.

Lemma abduce_with_base_rate eps (wy : simplex (B:=FldR)) conds ax ay :
  snd (abduce_with (B:=FldR) eps wy conds ax ay) = ax.
Proof. reflexivity. Qed.

Lemma abduce_with_through_inverseR eps cs ax ay by_ uy :
  0 <= eps -> wf_conds cs (length ay) -> pos_dist ax -> length ax = length cs -> wf_dist ay ->
  abduce_with (B:=FldR) eps (map Some by_, Some uy) (map embS cs) (map Some ax) (map Some ay)
  = deduce_of (B:=FldR) (map Some by_, Some uy, map Some ay) (map embS (inverseR eps cs ax ay)) (map Some ax).
Proof.
  intros He Hcs Hax Hl Hay. rewrite abduce_with_is_deduce.
  rewrite (inverse_eval eps He cs ax ay Hcs Hax Hl Hay). reflexivity.
Qed.

(* ---------------------------------------------- statements at the level of the operands *)
Definition inv_b eps cs ax ay (y : nat) : list R := fst (nth y (inverseR eps cs ax ay) ([], 0)).
Definition inv_u eps cs ax ay (y : nat) : R := snd (nth y (inverseR eps cs ax ay) ([], 0)).
(* q_y = sum_x ax_x P(y|x) *)
Definition qy cs ax ay (y : nat) : R := qR (likR cs ay) ax y.
(* irrelevance of y to X: 1 - max_x P(y|x) + min_x P(y|x) *)
Definition Psi cs ay (y : nat) : R := irrR (likR cs ay) y.
(* weighted relative uncertainty of the conditionals (the code's wprop_u_yx) *)
Definition relw eps cs ay : R := wR eps (likR cs ay) (map (fun p => mR eps p ay) (likR cs ay)) ay.
(* the crate's test "P(y|x) is zero for every x" (|P(y|x)| <= eps) *)
Definition col_negligible eps cs ay (y : nat) : bool := allz eps (likR cs ay) y.
(* min_x P(y|x) / q_y, the largest uncertainty compatible with the Bayes projection *)
Definition uhat cs ax ay (y : nat) : R :=
  RminL (map (fun p => p / qy cs ax ay y) (colR (likR cs ay) y)).

Lemma inverseR_nth eps cs ax ay y : (y < length ay)%nat ->
  nth y (inverseR eps cs ax ay) ([], 0)
  = (binvR eps (likR cs ay) (map (fun p => mR eps p ay) (likR cs ay)) ax ay y,
     uinvR eps (likR cs ay) (map (fun p => mR eps p ay) (likR cs ay)) ax ay y).
Proof.
  intros Hy. unfold inverseR, invR.
  set (f := fun y0 => (binvR eps (likR cs ay) (map (fun p => mR eps p ay) (likR cs ay)) ax ay y0,
                       uinvR eps (likR cs ay) (map (fun p => mR eps p ay) (likR cs ay)) ax ay y0)).
  rewrite (nth_indep _ ([], 0) (f 0%nat)) by (rewrite map_length, seq_length; exact Hy).
  rewrite map_nth, seq_nth by exact Hy. reflexivity.
Qed.

Lemma col_entry cs ay x y : nth x (colR (likR cs ay) y) 0 = PyxR cs ay x y.
Proof. apply iv_col_nth. Qed.

Lemma lik_entry cs ay x y : wf_conds cs (length ay) -> (x < length cs)%nat -> (y < length ay)%nat ->
  PyxR cs ay x y = nth y (fst (nth x cs ([], 0))) 0 + nth y ay 0 * snd (nth x cs ([], 0)).
Proof.
  intros Hcs Hx Hy. unfold PyxR, likR.
  rewrite (nth_indep _ [] ((fun c => projR (fst c) (snd c) ay) ([], 0))) by (rewrite map_length; exact Hx).
  rewrite (map_nth (fun c => projR (fst c) (snd c) ay)).
  unfold wf_conds in Hcs. rewrite Forall_forall in Hcs.
  destruct (Hcs (nth x cs ([], 0)) (nth_In _ _ Hx)) as (_ & HL).
  unfold projR.
  rewrite (iv_nth_map2 (fun bi ai => bi + ai * snd (nth x cs ([], 0))) _ _ _ 0 0 0) by lia. reflexivity.
Qed.

Lemma iv_Rsum_map2_seq l1 : forall l2, length l1 = length l2 ->
  Rsum (map2 Rmult l1 l2) = Rsum (map (fun i => nth i l1 0 * nth i l2 0) (seq 0 (length l1))).
Proof.
  induction l1 as [|a l1 IH]; intros [|b l2] H; cbn [length] in *; try discriminate; [reflexivity|].
  cbn [map2 Rsum seq map nth]. rewrite <- seq_shift, map_map. cbn [nth]. rewrite IH by lia. reflexivity.
Qed.

(* q_y written out *)
Lemma qy_sum cs ax ay y : length ax = length cs ->
  qy cs ax ay y = Rsum (map (fun x => nth x ax 0 * PyxR cs ay x y) (seq 0 (length ax))).
Proof.
  intros HL. unfold qy, qR. rewrite iv_Rsum_map2_seq.
  - apply f_equal. apply map_ext. intros x. rewrite col_entry. reflexivity.
  - rewrite iv_col_length. unfold likR. rewrite map_length. exact HL.
Qed.

Lemma col_negligible_false eps cs ay y :
  (exists x, (x < length cs)%nat /\ eps < PyxR cs ay x y) -> col_negligible eps cs ay y = false.
Proof.
  intros (x & Hx & Hgt). unfold col_negligible, allz.
  destruct (forallb _ _) eqn:E; [exfalso|reflexivity]. rewrite forallb_forall in E.
  assert (Hin : In (PyxR cs ay x y) (colR (likR cs ay) y)).
  { rewrite <- col_entry. apply nth_In. rewrite iv_col_length. unfold likR. rewrite map_length. exact Hx. }
  specialize (E _ Hin). apply is_zero_some in E. lra.
Qed.

Lemma guard_clear_0 a : nonneg a -> guard_clear 0 a.
Proof.
  unfold guard_clear. intros H. eapply Forall_impl; [|exact H]. cbn beta. intros x Hx.
  destruct (Req_dec x 0); [left; assumption|right; lra].
Qed.
Lemma guard_clear_pos eps a : Forall (fun x => eps < x) a -> guard_clear eps a.
Proof. unfold guard_clear. intros H. eapply Forall_impl; [|exact H]. cbn beta. auto. Qed.

Section Final.
Variable eps : R.
Hypothesis He : 0 <= eps <= 1/8.
Variables (cs : list (list R * R)) (ax ay : list R).
Hypothesis Hcs : wf_conds cs (length ay).
Hypothesis Hax : pos_dist ax.
Hypothesis Hlax : length ax = length cs.
Hypothesis Hay : wf_dist ay.

Lemma inverse_defined_sum :
  inverse (B:=FldR) eps (map embS cs) (map Some ax) (map Some ay) = map embS (inverseR eps cs ax ay) /\
  length (inverseR eps cs ax ay) = length ay /\
  Forall (fun s => Rsum (fst s) + snd s = 1 /\ length (fst s) = length ax) (inverseR eps cs ax ay).
Proof.
  destruct He as (He0 & _). split; [exact (inverse_eval eps He0 cs ax ay Hcs Hax Hlax Hay)|].
  destruct (iv_lik_facts cs ay Hcs Hay) as (HPl & HPn & HPs). destruct Hax as (Hap & Has).
  unfold inverseR, invR. rewrite map_length, seq_length. split; [reflexivity|].
  rewrite Forall_map. apply Forall_forall. intros y Hy. apply in_seq in Hy. cbn [fst snd].
  assert (HL : length ax = length (likR cs ay)) by (unfold likR; rewrite map_length; exact Hlax).
  split.
  - apply (iv_inv_sum eps He0 (likR cs ay) ax ay); try assumption. lia.
  - unfold binvR, pxyR. rewrite !map2_length. unfold tempR.
    destruct (allz _ _ _); rewrite map_length, iv_col_length; lia.
Qed.

Lemma inverse_defined_wf_main : guard_clear eps ay ->
  inverse (B:=FldR) eps (map embS cs) (map Some ax) (map Some ay) = map embS (inverseR eps cs ax ay) /\
  length (inverseR eps cs ax ay) = length ay /\
  Forall (fun s => wf_simplex (fst s) (snd s) /\ length (fst s) = length ax) (inverseR eps cs ax ay).
Proof.
  intros Hg. destruct He as (He0 & _). split; [exact (inverse_eval eps He0 cs ax ay Hcs Hax Hlax Hay)|].
  exact (inverse_wf eps He0 cs ax ay Hcs Hax Hlax Hay Hg).
Qed.

Lemma inverse_bayes_main x y : (x < length ax)%nat -> (y < length ay)%nat ->
  col_negligible eps cs ay y = false ->
  0 < qy cs ax ay y /\
  nth x (inv_b eps cs ax ay y) 0 + nth x ax 0 * inv_u eps cs ax ay y
  = nth x ax 0 * PyxR cs ay x y / qy cs ax ay y.
Proof.
  intros Hx Hy E. destruct He as (He0 & _).
  destruct (iv_lik_facts cs ay Hcs Hay) as (HPl & HPn & HPs).
  assert (HL : length ax = length (likR cs ay)) by (unfold likR; rewrite map_length; exact Hlax).
  split.
  - unfold qy. apply (iv_q_pos_col eps He0 (likR cs ay) ax ay); try assumption. apply Hax.
  - unfold inv_b, inv_u. rewrite inverseR_nth by exact Hy. cbn [fst snd].
    exact (inverse_bayes_entry eps cs ax ay Hlax x y Hx E).
Qed.

Lemma inverse_u_bound_main y : guard_clear eps ay -> (y < length ay)%nat ->
  0 <= relw eps cs ay <= 1 /\ 0 <= Psi cs ay y <= 1 /\
  (col_negligible eps cs ay y = false ->
     inv_u eps cs ax ay y
       = uhat cs ax ay y * (relw eps cs ay + Psi cs ay y - relw eps cs ay * Psi cs ay y) /\
     0 <= inv_u eps cs ax ay y <= uhat cs ax ay y /\
     forall x, (x < length ax)%nat -> uhat cs ax ay y <= PyxR cs ay x y / qy cs ax ay y).
Proof.
  intros Hg Hy. destruct He as (He0 & _).
  destruct (inverse_u_bound eps He0 cs ax ay Hcs Hax Hlax Hay Hg y Hy) as (Hu & Hw & Hi & Hb & Hh).
  split; [exact Hw|]. split; [exact Hi|]. intros E. specialize (Hh E).
  unfold inv_u. rewrite inverseR_nth by exact Hy. cbn [snd].
  unfold uhat, qy. rewrite <- Hh. split; [exact Hu|]. split; [exact Hb|].
  intros x Hx. rewrite Hh. apply RminL_le.
  rewrite <- col_entry. apply (in_map (fun p => p / qR (likR cs ay) ax y)). apply nth_In.
  rewrite iv_col_length. unfold likR. rewrite map_length. lia.
Qed.

Lemma inverse_irrelevant_main y c : (y < length ay)%nat -> eps < c ->
  (forall x, (x < length cs)%nat -> PyxR cs ay x y = c) ->
  inv_b eps cs ax ay y = map (fun _ => 0) ax /\ inv_u eps cs ax ay y = 1 /\ Psi cs ay y = 1.
Proof.
  intros Hy Hc H. destruct He as (He0 & _).
  unfold inv_b, inv_u. rewrite inverseR_nth by exact Hy. cbn [fst snd].
  destruct (inverse_irrelevant eps He0 cs ax ay Hax Hlax y c Hy Hc H) as (Hb & Hu).
  split; [exact Hb|]. split; [exact Hu|].
  unfold Psi, irrR. rewrite (iv_col_const (likR cs ay) y c).
  - rewrite RmaxL_const, RminL_const by (apply (iv_lik_ne cs ax ay Hax Hlax)). ring.
  - intros x Hx. apply H. unfold likR in Hx. rewrite map_length in Hx. exact Hx.
Qed.

Lemma inverse_zero_column_main y : (y < length ay)%nat ->
  (forall x, (x < length cs)%nat -> PyxR cs ay x y = 0) ->
  inv_b eps cs ax ay y = map (fun _ => 0) ax /\ inv_u eps cs ax ay y = 1.
Proof.
  intros Hy H. destruct He as (He0 & _).
  unfold inv_b, inv_u. rewrite inverseR_nth by exact Hy. cbn [fst snd].
  exact (inverse_zero_column eps He0 cs ax ay Hax Hlax y Hy H).
Qed.

(* with no guard slack (every P(y|x) is 0 or > eps) the negligible columns are the zero columns *)
Lemma inverse_negligible_column_main y : (y < length ay)%nat ->
  (forall x, (x < length cs)%nat -> PyxR cs ay x y = 0 \/ eps < PyxR cs ay x y) ->
  col_negligible eps cs ay y = true ->
  inv_b eps cs ax ay y = map (fun _ => 0) ax /\ inv_u eps cs ax ay y = 1.
Proof.
  intros Hy H E. apply inverse_zero_column_main; [exact Hy|].
  exact (inverse_allz_exact eps cs ay y Hy H E).
Qed.

Lemma inverse_tolerant_column_main y : guard_clear eps ay -> (y < length ay)%nat ->
  col_negligible eps cs ay y = true ->
  inv_b eps cs ax ay y = map (fun a => a * (1 - inv_u eps cs ax ay y)) ax /\
  1 - eps <= inv_u eps cs ax ay y <= 1.
Proof.
  intros Hg Hy E. destruct He as (He0 & _).
  unfold inv_b, inv_u. rewrite inverseR_nth by exact Hy. cbn [fst snd].
  exact (inverse_tolerant_zero_column eps He0 cs ax ay Hcs Hax Hlax Hay Hg y Hy E).
Qed.
End Final.

(* ---------------------------------------------- the statements of Props/C05.v *)
Lemma c05_inverse_defined_wf : forall eps cs ax ay, 0 <= eps <= 1/8 ->
  wf_conds cs (length ay) -> pos_dist ax -> length ax = length cs -> wf_dist ay -> guard_clear eps ay ->
  inverse (B:=FldR) eps (map embS cs) (map Some ax) (map Some ay) = map embS (inverseR eps cs ax ay) /\
  length (inverseR eps cs ax ay) = length ay /\
  Forall (fun s => wf_simplex (fst s) (snd s) /\ length (fst s) = length ax) (inverseR eps cs ax ay).
Proof. intros; eapply inverse_defined_wf_main; eassumption. Qed.

Lemma c05_inverse_defined : forall eps cs ax ay, 0 <= eps <= 1/8 ->
  wf_conds cs (length ay) -> pos_dist ax -> length ax = length cs -> wf_dist ay ->
  inverse (B:=FldR) eps (map embS cs) (map Some ax) (map Some ay) = map embS (inverseR eps cs ax ay) /\
  length (inverseR eps cs ax ay) = length ay /\
  Forall (fun s => Rsum (fst s) + snd s = 1 /\ length (fst s) = length ax) (inverseR eps cs ax ay).
Proof. intros; eapply inverse_defined_sum; eassumption. Qed.

Lemma c05_inverse_bayes : forall eps cs ax ay, 0 <= eps <= 1/8 ->
  wf_conds cs (length ay) -> pos_dist ax -> length ax = length cs -> wf_dist ay ->
  forall x y, (x < length ax)%nat -> (y < length ay)%nat ->
  col_negligible eps cs ay y = false ->
  0 < qy cs ax ay y /\
  nth x (inv_b eps cs ax ay y) 0 + nth x ax 0 * inv_u eps cs ax ay y
  = nth x ax 0 * PyxR cs ay x y / qy cs ax ay y.
Proof. intros; eapply inverse_bayes_main; eassumption. Qed.

Lemma c05_inverse_u_bound : forall eps cs ax ay, 0 <= eps <= 1/8 ->
  wf_conds cs (length ay) -> pos_dist ax -> length ax = length cs -> wf_dist ay ->
  forall y, guard_clear eps ay -> (y < length ay)%nat ->
  0 <= relw eps cs ay <= 1 /\ 0 <= Psi cs ay y <= 1 /\
  (col_negligible eps cs ay y = false ->
     inv_u eps cs ax ay y
       = uhat cs ax ay y * (relw eps cs ay + Psi cs ay y - relw eps cs ay * Psi cs ay y) /\
     0 <= inv_u eps cs ax ay y <= uhat cs ax ay y /\
     forall x, (x < length ax)%nat -> uhat cs ax ay y <= PyxR cs ay x y / qy cs ax ay y).
Proof. intros; eapply inverse_u_bound_main; eassumption. Qed.

Lemma c05_inverse_irrelevant_vacuous : forall eps cs ax ay, 0 <= eps <= 1/8 ->
  wf_conds cs (length ay) -> pos_dist ax -> length ax = length cs -> wf_dist ay ->
  forall y c, (y < length ay)%nat -> eps < c ->
  (forall x, (x < length cs)%nat -> PyxR cs ay x y = c) ->
  inv_b eps cs ax ay y = map (fun _ => 0) ax /\ inv_u eps cs ax ay y = 1 /\ Psi cs ay y = 1.
Proof. intros; eapply inverse_irrelevant_main; eassumption. Qed.

Lemma c05_inverse_zero_column_vacuous : forall eps cs ax ay, 0 <= eps <= 1/8 ->
  wf_conds cs (length ay) -> pos_dist ax -> length ax = length cs -> wf_dist ay ->
  forall y, (y < length ay)%nat ->
  (forall x, (x < length cs)%nat -> PyxR cs ay x y = 0) ->
  inv_b eps cs ax ay y = map (fun _ => 0) ax /\ inv_u eps cs ax ay y = 1.
Proof. intros; eapply inverse_zero_column_main; eassumption. Qed.

Lemma c05_inverse_negligible_column_vacuous : forall eps cs ax ay, 0 <= eps <= 1/8 ->
  wf_conds cs (length ay) -> pos_dist ax -> length ax = length cs -> wf_dist ay ->
  forall y, (y < length ay)%nat ->
  (forall x, (x < length cs)%nat -> PyxR cs ay x y = 0 \/ eps < PyxR cs ay x y) ->
  col_negligible eps cs ay y = true ->
  inv_b eps cs ax ay y = map (fun _ => 0) ax /\ inv_u eps cs ax ay y = 1.
Proof. intros; eapply inverse_negligible_column_main; eassumption. Qed.

Lemma c05_inverse_tolerant_column_close : forall eps cs ax ay, 0 <= eps <= 1/8 ->
  wf_conds cs (length ay) -> pos_dist ax -> length ax = length cs -> wf_dist ay ->
  forall y, guard_clear eps ay -> (y < length ay)%nat ->
  col_negligible eps cs ay y = true ->
  inv_b eps cs ax ay y = map (fun a => a * (1 - inv_u eps cs ax ay y)) ax /\
  1 - eps <= inv_u eps cs ax ay y <= 1.
Proof. intros; eapply inverse_tolerant_column_main; eassumption. Qed.


(* at eps = 0 (exact guards) the side condition on ay is void *)
Lemma inverse_defined_wf_exact cs ax ay :
  wf_conds cs (length ay) -> pos_dist ax -> length ax = length cs -> wf_dist ay ->
  inverse (B:=FldR) 0 (map embS cs) (map Some ax) (map Some ay) = map embS (inverseR 0 cs ax ay) /\
  length (inverseR 0 cs ax ay) = length ay /\
  Forall (fun s => wf_simplex (fst s) (snd s) /\ length (fst s) = length ax) (inverseR 0 cs ax ay).
Proof.
  intros Hcs Hax Hl Hay. apply inverse_defined_wf_main; try assumption; [lra|].
  apply guard_clear_0. apply Hay.
Qed.

(* ---------------------------------------------- the side condition on ay is needed when eps > 0
   Witness on the executable rational instance of the same model: eps = 1/16, two dogmatic
   conditionals over |Y| = 2, ax = (1/2,1/2), ay = (1/32, 31/32) whose first entry lies in (0, eps].
   [max_uncertainty] treats ay_0 as zero (tolerant test) but [max_u_yx] divides by it, so the
   relative uncertainty w = sum_x weights_x u_x / max_u_yx_x is 3 > 1 and both inverted
   "simplexes" have negative beliefs and uncertainty > 1 (they still sum to 1). *)
From Coq Require QArith.
From SL Require Model.InstQ.
Section RefutedQ.
Import QArith Model.InstQ.
Local Open Scope Q_scope.
Let SQ (q : Q) : @V FldQ := Some q.

Lemma inverse_small_ay_Q :
  @inverse FldQ (1#16)
     [([SQ (1#64); SQ (63#64)], SQ 0); ([SQ (1#128); SQ (127#128)], SQ 0)]
     [SQ (1#2); SQ (1#2)] [SQ (1#32); SQ (31#32)]
  = [([SQ (-1#128); SQ (-1#128)], SQ (65#64)); ([SQ (-63#8096); SQ (-31#8096)], SQ (4095#4048))].
Proof. vm_compute. reflexivity. Qed.

Lemma inverse_wf_refuted_small_ay_Q :
  exists (eps : Q) (conds : list (@simplex FldQ)) (ax ay : list (@V FldQ)) (b0 b1 u : Q) rest,
    0 <= eps /\ eps <= 1#8 /\
    conds = [([SQ (1#64); SQ (63#64)], SQ 0); ([SQ (1#128); SQ (127#128)], SQ 0)] /\
    ax = [SQ (1#2); SQ (1#2)] /\ ay = [SQ (1#32); SQ (31#32)] /\
    @inverse FldQ eps conds ax ay = ([Some b0; Some b1], Some u) :: rest /\
    b0 < 0 /\ 1 < u.
Proof.
  exists (1#16), [([SQ (1#64); SQ (63#64)], SQ 0); ([SQ (1#128); SQ (127#128)], SQ 0)],
         [SQ (1#2); SQ (1#2)], [SQ (1#32); SQ (31#32)], (-1#128), (-1#128), (65#64),
         [([SQ (-63#8096); SQ (-31#8096)], SQ (4095#4048))].
  repeat split; try exact inverse_small_ay_Q; try reflexivity; try (intro H; discriminate H).
Qed.
End RefutedQ.
