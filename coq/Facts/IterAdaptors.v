(* Iterator methods that an implementation may override (nth, skip, step_by, count, last, fold), defined the
   way the Rust standard library's defaults define them - by repeated next() - over the state-machine model of an
   iterator ([next : S -> option X * S], Model/Arr.v), and their meaning on the list of items that a `for` loop
   sees ([drive]).  For a fused iterator (once None, always None) the state after k calls of next() enumerates
   [skipn k] of the items; nth k is [nth_error _ k]; step_by s keeps the items at positions 0, s, 2s, ...
   Instantiated for the MultiRange odometer, whose items are [lex dims] (multirange_enumerates): this is what the
   adaptor probes of the C17 / C18 checks compare the implementation with. *)
From Coq Require Import List Arith Lia ZArith.
Import ListNotations.
From SL Require Import Model.Arr Model.ArrSpec Facts.ArrFacts.
Local Open Scope nat_scope.

Section Generic.
Context {S X : Type}.
Variable next : S -> option X * S.

(* once the iterator has returned None it keeps doing so *)
Definition fused : Prop := forall st, fst (next st) = None -> fst (next (snd (next st))) = None.

Definition it_nth (k : nat) (st : S) : option X * S := next (after next k st).
Definition it_count (fuel : nat) (st : S) : nat := length (drive next fuel st).
Definition it_last (fuel : nat) (st : S) : option X := last (map Some (drive next fuel st)) None.
Definition it_fold {A} (f : A -> X -> A) (a : A) (fuel : nat) (st : S) : A := fold_left f (drive next fuel st) a.

(* step_by s (s >= 1): the first item, then every s-th *)
Fixpoint it_step_by (s : nat) (fuel : nat) (st : S) : list X :=
  match fuel with
  | O => []
  | Datatypes.S f => match next st with
                     | (Some x, st') => x :: it_step_by s f (after next (s - 1) st')
                     | (None, _) => []
                     end
  end.

Fixpoint every (s : nat) (fuel : nat) (l : list X) : list X :=
  match fuel with
  | O => []
  | Datatypes.S f => match l with
                     | [] => []
                     | x :: r => x :: every s f (skipn (s - 1) r)
                     end
  end.

Lemma after_S k st : after next (Datatypes.S k) st = after next k (snd (next st)).
Proof. reflexivity. Qed.

Lemma after_snoc k : forall st, after next (Datatypes.S k) st = snd (next (after next k st)).
Proof. induction k as [|k IH]; intros st; [reflexivity|]. rewrite after_S, IH. reflexivity. Qed.

Lemma after_add a b st : after next (a + b) st = after next b (after next a st).
Proof. revert st; induction a as [|a IH]; intros st; cbn [Nat.add after]; auto. Qed.

Hypothesis Hf : fused.

Lemma dead_stays st : fst (next st) = None -> forall k, fst (next (after next k (snd (next st)))) = None.
Proof.
  intros H k. revert st H. induction k as [|k IH]; intros st H; cbn [after].
  - apply Hf, H.
  - apply IH. apply Hf, H.
Qed.

Lemma drive_dead fuel st : fst (next st) = None -> drive next fuel st = [].
Proof. destruct fuel; [reflexivity|]. cbn [drive]. destruct (next st) as [[x|] st']; cbn; intros H; [discriminate|reflexivity]. Qed.

Lemma drive_after_dead fuel k st : fst (next st) = None -> drive next fuel (after next k st) = [].
Proof.
  intros H. destruct k as [|k]; [now apply drive_dead|].
  rewrite after_S. apply drive_dead. apply dead_stays, H.
Qed.

Lemma drive_dead_after fuel k st : fst (next st) = None -> drive next fuel (after next k (snd (next st))) = [].
Proof. intros H. apply drive_dead. apply dead_stays, H. Qed.

(* skip: the state after k calls of next() enumerates the items from position k on *)
Theorem drive_after : forall k fuel st,
  drive next fuel (after next k st) = skipn k (drive next (k + fuel) st).
Proof.
  induction k as [|k IH]; intros fuel st; [reflexivity|].
  rewrite after_S. cbn [Nat.add drive].
  destruct (next st) as [o st'] eqn:E. destruct o as [x|].
  - cbn [snd skipn]. apply IH.
  - cbn [skipn]. replace st' with (snd (next st)) by now rewrite E.
    apply drive_dead_after. now rewrite E.
Qed.

(* nth: k calls of next() are skipped, the next one is returned *)
Theorem it_nth_spec : forall k fuel st,
  fst (it_nth k st) = nth_error (drive next (Datatypes.S (k + fuel)) st) k.
Proof.
  unfold it_nth. induction k as [|k IH]; intros fuel st.
  - cbn [after Nat.add drive]. destruct (next st) as [[x|] st']; reflexivity.
  - rewrite after_S. cbn [Nat.add drive]. destruct (next st) as [o st'] eqn:E. destruct o as [x|]; cbn [snd nth_error].
    + apply IH.
    + replace st' with (snd (next st)) by now rewrite E.
      apply dead_stays. now rewrite E.
Qed.

Theorem it_nth_rest : forall k fuel st,
  drive next fuel (snd (it_nth k st)) = skipn (Datatypes.S k) (drive next (Datatypes.S k + fuel) st).
Proof. intros. unfold it_nth. rewrite <- after_snoc. apply drive_after. Qed.

(* step_by: positions 0, s, 2s, ... *)
Theorem it_step_by_spec : forall s n fuel st, (n * Nat.max s 1 <= fuel)%nat ->
  it_step_by s n st = every s n (drive next fuel st).
Proof.
  intros s. induction n as [|n IH]; intros fuel st Hn; [reflexivity|].
  destruct fuel as [|fuel]; [cbn in Hn; lia|].
  cbn [it_step_by every drive]. destruct (next st) as [o st'] eqn:E. destruct o as [x|]; [|reflexivity].
  f_equal.
  assert (Hm : (Datatypes.S n * Nat.max s 1 = n * Nat.max s 1 + Nat.max s 1)%nat) by (cbn [Nat.mul]; lia).
  rewrite Hm in Hn.
  assert (Hs : (s - 1 + (fuel - (s - 1)) = fuel)%nat) by lia.
  rewrite (IH (fuel - (s - 1))%nat) by lia.
  rewrite drive_after, Hs. reflexivity.
Qed.

End Generic.

(* ------------------------------------------------------------ the MultiRange odometer *)

Lemma mr_fused dims : fused (mr_next dims).
Proof. intros [k|] H; cbn in *; [discriminate|reflexivity]. Qed.

Section MR.
Variable dims : list nat.
Let N := Datatypes.S (total dims).

Lemma mr_drive_more fuel : (N <= fuel)%nat -> drive (mr_next dims) fuel (mr_new dims) = lex dims.
Proof.
  intros H. rewrite mr_new_spec. destruct (total dims =? 0) eqn:E.
  - apply Nat.eqb_eq in E. rewrite drive_none. symmetry. apply length_zero_iff_nil. now rewrite lex_length.
  - apply Nat.eqb_neq in E. rewrite drive_mr by now apply zeros_in_box.
    rewrite offset_zeros. cbn [skipn]. apply firstn_all2. rewrite lex_length. subst N. lia.
Qed.

(* skip(k) / k calls of next(): the rest is [skipn k (lex dims)] *)
Theorem mr_skip : forall k, drive (mr_next dims) N (after (mr_next dims) k (mr_new dims)) = skipn k (lex dims).
Proof. intros k. rewrite (drive_after _ (mr_fused dims)). rewrite mr_drive_more by lia. reflexivity. Qed.

(* nth(k) *)
Theorem mr_nth : forall k, fst (it_nth (mr_next dims) k (mr_new dims)) = nth_error (lex dims) k.
Proof. intros k. rewrite (it_nth_spec _ (mr_fused dims) k N). rewrite mr_drive_more by (subst N; lia). reflexivity. Qed.

Theorem mr_nth_rest : forall k,
  drive (mr_next dims) N (snd (it_nth (mr_next dims) k (mr_new dims))) = skipn (Datatypes.S k) (lex dims).
Proof. intros k. rewrite (it_nth_rest _ (mr_fused dims)). rewrite mr_drive_more by (subst N; lia). reflexivity. Qed.

(* count / last / fold after k calls of next() *)
Theorem mr_count : forall k, it_count (mr_next dims) N (after (mr_next dims) k (mr_new dims)) = (total dims - k)%nat.
Proof. intros k. unfold it_count. rewrite mr_skip, skipn_length, lex_length. reflexivity. Qed.

Theorem mr_last : forall k,
  it_last (mr_next dims) N (after (mr_next dims) k (mr_new dims)) = last (map Some (skipn k (lex dims))) None.
Proof. intros k. unfold it_last. now rewrite mr_skip. Qed.

Theorem mr_fold : forall {A} (f : A -> list nat -> A) a k,
  it_fold (mr_next dims) f a N (after (mr_next dims) k (mr_new dims)) = fold_left f (skipn k (lex dims)) a.
Proof. intros A f a k. unfold it_fold. now rewrite mr_skip. Qed.

(* step_by(s) *)
Theorem mr_step_by : forall s,
  it_step_by (mr_next dims) s N (mr_new dims) = every s N (lex dims).
Proof.
  intros s. rewrite (it_step_by_spec _ (mr_fused dims) s N (N * Nat.max s 1)) by lia.
  rewrite mr_drive_more by (subst N; nia). reflexivity.
Qed.

End MR.
