(* C06: opinion products (Product2 / Product3, unlabelled and labelled).

   Real-valued counterparts: [projR] (projection), [outerR]/[outer3R] (row-major outer
   products), [prodU]/[prodB] (the uncertainty and belief computed by [product_core]),
   [product2R]/[product3R] (the whole result), [transposeR] (transposition of a flattened
   n0 x n1 vector). *)
From Coq Require Import Reals List Bool Lra Lia Arith.
Import ListNotations.
From SL Require Import Model.Num Model.Vec Model.Mul Model.InstR Facts.RBase.
Open Scope R_scope.

(* ------------------------------------------------------------ list helpers *)
Lemma nth_map0 (f : R -> R) l d : (d < length l)%nat -> nth d (map f l) 0 = f (nth d l 0).
Proof. intros H. rewrite (nth_indep _ 0 (f 0)) by (rewrite map_length; exact H). apply map_nth. Qed.

Lemma nth_map2 (f : R -> R -> R) l l' d :
  (d < length l)%nat -> (d < length l')%nat ->
  nth d (map2 f l l') 0 = f (nth d l 0) (nth d l' 0).
Proof.
  revert l' d; induction l as [|x l IH]; intros [|y l'] d H1 H2; cbn in *; try lia.
  destruct d; [reflexivity|]. apply IH; lia.
Qed.

Lemma Forall2_nth0 (Q : R -> R -> Prop) l l' d :
  Forall2 Q l l' -> (d < length l)%nat -> Q (nth d l 0) (nth d l' 0).
Proof.
  intros H; revert d; induction H; intros d Hd; cbn in *; [lia|].
  destruct d; auto. apply IHForall2; lia.
Qed.

Lemma Forall_nth0 (Q : R -> Prop) l :
  (forall d, (d < length l)%nat -> Q (nth d l 0)) -> Forall Q l.
Proof.
  induction l as [|x l IH]; intros H; constructor.
  - apply (H 0%nat); cbn; lia.
  - apply IH. intros d Hd. apply (H (S d)); cbn; lia.
Qed.

Lemma nth_Forall0 (Q : R -> Prop) l d : Forall Q l -> (d < length l)%nat -> Q (nth d l 0).
Proof. intros H Hd. rewrite Forall_forall in H. apply H, nth_In, Hd. Qed.

Lemma Forall2_length' {X Y} (Q : X -> Y -> Prop) l l' : Forall2 Q l l' -> length l = length l'.
Proof. induction 1; cbn; auto. Qed.

Lemma map2_id_l (f : R -> R -> R) l l' :
  length l' = length l -> (forall x y, f x y = x) -> map2 f l l' = l.
Proof.
  revert l'; induction l as [|x l IH]; intros [|y l'] H Hf; cbn in *; try discriminate; auto.
  rewrite Hf, IH; auto.
Qed.

Lemma nonneg_sum0 l : nonneg l -> Rsum l = 0 -> l = map (fun _ => 0) l.
Proof.
  induction 1 as [|x l Hx Hl IH]; cbn; intros Hs; [reflexivity|].
  pose proof (Rsum_nonneg l Hl). assert (x = 0) by lra. subst x.
  f_equal. apply IH. lra.
Qed.

Lemma Rsum_nonzero_nth l : Rsum l <> 0 -> exists d, (d < length l)%nat /\ nth d l 0 <> 0.
Proof.
  induction l as [|x l IH]; cbn; intros H; [lra|].
  destruct (Req_dec x 0) as [->|Hx].
  - destruct IH as (d & Hd & Hn); [lra|]. exists (S d). split; [lia|exact Hn].
  - exists 0%nat. split; [lia|exact Hx].
Qed.

(* ------------------------------------------------------------ projection *)
Definition projR (b : list R) (u : R) (a : list R) : list R :=
  map2 (fun bi ai => bi + ai * u) b a.

Lemma projR_length b u a : length a = length b -> length (projR b u a) = length b.
Proof. intros H. unfold projR. rewrite map2_length, H. apply Nat.min_id. Qed.

Lemma Rsum_projR b u a : length a = length b -> Rsum (projR b u a) = Rsum b + Rsum a * u.
Proof.
  unfold projR. revert a; induction b as [|x b IH]; intros [|y a] H; cbn in *; try discriminate; [lra|].
  rewrite IH by lia. lra.
Qed.

Lemma projR_wf b u a : wf_opinion b u a -> wf_dist (projR b u a).
Proof.
  intros ((Hb & Hu & Hs) & (Ha & Has) & Hl). split.
  - unfold projR. clear Hs Has. revert a Ha Hl. induction Hb as [|x b Hx Hb IH]; intros [|y a] Ha Hl;
      cbn in *; try discriminate; constructor.
    + inversion Ha; subst. nra.
    + inversion Ha; subst. apply IH; auto.
  - rewrite Rsum_projR by exact Hl. rewrite Has. lra.
Qed.

Lemma projR_ge b u a : wf_opinion b u a -> Forall2 Rle b (projR b u a).
Proof.
  intros ((Hb & Hu & _) & (Ha & _) & Hl). unfold projR.
  revert a Ha Hl. induction Hb as [|x b Hx Hb IH]; intros [|y a] Ha Hl; cbn in *; try discriminate;
    constructor; inversion Ha; subst.
  - nra.
  - apply IH; auto.
Qed.

Lemma projection_some b u a :
  wf_opinion b u a ->
  projection (B:=FldR) (map Some b) (Some u) (map Some a) = map Some (projR b u a).
Proof.
  intros Hwf. pose proof (projR_wf _ _ _ Hwf) as (_ & Hs).
  unfold projection, normalize_dist.
  rewrite (map2_some _ (fun bi ai => bi + ai * u)) by (intros; reflexivity).
  fold (projR b u a). rewrite vsum_some, Hs.
  rewrite (map_some _ (fun x => x / 1)) by (intros; apply div_some; lra).
  f_equal. rewrite <- (map_id (projR b u a)) at 2. apply map_ext. intros; field.
Qed.

(* vacuous opinion: projection = base rate; dogmatic: projection = belief *)
Lemma projR_vacuous b a : wf_opinion b 1 a -> projR b 1 a = a /\ b = map (fun _ => 0) b.
Proof.
  intros ((Hb & Hu & Hs) & _ & Hl).
  assert (Hz : b = map (fun _ => 0) b) by (apply nonneg_sum0; [exact Hb|lra]).
  split; [|exact Hz]. rewrite Hz. unfold projR. clear -Hl. revert a Hl.
  induction b as [|x b IH]; intros [|y a] Hl; cbn in *; try discriminate; auto.
  rewrite IH by lia. f_equal. lra.
Qed.

Lemma projR_dogmatic b a : length a = length b -> projR b 0 a = b.
Proof. intros H. apply map2_id_l; [exact H|]. intros; lra. Qed.

(* ---------------------------------------------------------- outer products *)
Definition outerR (l0 l1 : list R) : list R :=
  flat_map (fun x => map (fun y => x * y) l1) l0.
Definition outer3R (l0 l1 l2 : list R) : list R :=
  flat_map (fun x => flat_map (fun y => map (fun z => x * y * z) l2) l1) l0.

Lemma outer_some l0 l1 :
  outer (B:=FldR) (map Some l0) (map Some l1) = map Some (outerR l0 l1).
Proof.
  unfold outer, outerR. induction l0 as [|x l0 IH]; cbn [map flat_map]; [reflexivity|].
  rewrite IH, map_app, !map_map. reflexivity.
Qed.

Lemma outer3_some l0 l1 l2 :
  outer3 (B:=FldR) (map Some l0) (map Some l1) (map Some l2) = map Some (outer3R l0 l1 l2).
Proof.
  unfold outer3, outer3R. induction l0 as [|x l0 IH]; cbn [map flat_map]; [reflexivity|].
  rewrite IH, map_app. f_equal. clear IH.
  induction l1 as [|y l1 IH]; cbn [map flat_map]; [reflexivity|].
  rewrite IH, map_app, !map_map. reflexivity.
Qed.

Lemma outerR_app l0 l0' l1 : outerR (l0 ++ l0') l1 = outerR l0 l1 ++ outerR l0' l1.
Proof. apply flat_map_app. Qed.

Lemma outer3R_outerR l0 l1 l2 : outer3R l0 l1 l2 = outerR (outerR l0 l1) l2.
Proof.
  unfold outer3R. induction l0 as [|x l0 IH]; cbn [flat_map]; [reflexivity|].
  change (outerR (x :: l0) l1) with (map (fun y => x * y) l1 ++ outerR l0 l1).
  rewrite outerR_app, IH. f_equal. clear IH.
  induction l1 as [|y l1 IH]; cbn [map flat_map]; [reflexivity|].
  rewrite IH. reflexivity.
Qed.

Lemma outerR_length l0 l1 : length (outerR l0 l1) = (length l0 * length l1)%nat.
Proof.
  unfold outerR. induction l0 as [|x l0 IH]; cbn [flat_map length]; [reflexivity|].
  rewrite app_length, map_length, IH. lia.
Qed.

Lemma Rsum_outerR l0 l1 : Rsum (outerR l0 l1) = Rsum l0 * Rsum l1.
Proof.
  unfold outerR. induction l0 as [|x l0 IH]; cbn [flat_map Rsum]; [lra|].
  rewrite Rsum_app, Rsum_map_mul, IH. lra.
Qed.

Lemma nonneg_outerR l0 l1 : nonneg l0 -> nonneg l1 -> nonneg (outerR l0 l1).
Proof.
  intros H0 H1. unfold outerR. induction H0 as [|x l0 Hx H0 IH]; cbn [flat_map]; [constructor|].
  apply Forall_app. split; [|exact IH].
  clear -Hx H1. induction H1; cbn; constructor; auto. nra.
Qed.

Lemma outerR_wf_dist l0 l1 : wf_dist l0 -> wf_dist l1 -> wf_dist (outerR l0 l1).
Proof.
  intros (H0 & S0) (H1 & S1). split; [apply nonneg_outerR; assumption|].
  rewrite Rsum_outerR, S0, S1. lra.
Qed.

Lemma outerR_le l0 l0' l1 l1' :
  nonneg l0 -> nonneg l1 -> Forall2 Rle l0 l0' -> Forall2 Rle l1 l1' ->
  Forall2 Rle (outerR l0 l1) (outerR l0' l1').
Proof.
  intros N0 N1 H0 H1. unfold outerR. revert N0.
  induction H0 as [|x x' l0 l0' Hx H0 IH]; intros N0; cbn [flat_map]; [constructor|].
  inversion N0 as [|? ? Hx0 N0']; subst.
  apply Forall2_app; [|apply IH; exact N0'].
  clear -Hx Hx0 H1 N1. induction H1 as [|y y' l1 l1' Hy H1 IH]; cbn; constructor.
  - inversion N1; subst. nra.
  - apply IH. inversion N1; auto.
Qed.

Lemma nth_outerR l0 l1 i j :
  (i < length l0)%nat -> (j < length l1)%nat ->
  nth (i * length l1 + j) (outerR l0 l1) 0 = nth i l0 0 * nth j l1 0.
Proof.
  unfold outerR. revert i; induction l0 as [|x l0 IH]; intros i Hi Hj; cbn [length] in Hi; [lia|].
  cbn [flat_map]. destruct i as [|i].
  - cbn [Nat.mul Nat.add nth]. rewrite app_nth1 by (rewrite map_length; exact Hj).
    apply nth_map0. exact Hj.
  - rewrite app_nth2 by (rewrite map_length; lia). rewrite map_length.
    replace (S i * length l1 + j - length l1)%nat with (i * length l1 + j)%nat by lia.
    cbn [nth]. apply IH; [lia|exact Hj].
Qed.

(* every flattened index is a cell (i, j) *)
Lemma cell_decompose n0 n1 d :
  (d < n0 * n1)%nat -> exists i j, (i < n0)%nat /\ (j < n1)%nat /\ d = (i * n1 + j)%nat.
Proof.
  intros H. assert (Hn : n1 <> 0%nat) by lia.
  exists (d / n1)%nat, (d mod n1)%nat. repeat split.
  - apply Nat.div_lt_upper_bound; [exact Hn|lia].
  - apply Nat.mod_upper_bound; exact Hn.
  - rewrite (Nat.div_mod d n1 Hn) at 1. lia.
Qed.

Lemma cell_in_range n0 n1 i j : (i < n0)%nat -> (j < n1)%nat -> (i * n1 + j < n0 * n1)%nat.
Proof. intros. nia. Qed.

(* ------------------------------------------- NaN-skipping minimum of a list *)
(* [m] is the least defined entry of [l] *)
Definition least (l : list RV) (m : R) : Prop :=
  In (Some m) l /\ forall x, In (Some x) l -> m <= x.

Lemma least_unique l l' m m' :
  (forall x, In (Some x) l <-> In (Some x) l') -> least l m -> least l' m' -> m = m'.
Proof.
  intros H (Hi & Hm) (Hi' & Hm'). apply Rle_antisym.
  - apply Hm, H, Hi'.
  - apply Hm', H, Hi.
Qed.

Lemma fold_nmin_least (r : list RV) : forall acc : RV,
  (exists x, In (Some x) (acc :: r)) ->
  exists m, fold_left (nmin (B:=FldR)) r acc = Some m /\ least (acc :: r) m.
Proof.
  induction r as [|y r IH]; intros acc (x & Hx).
  - destruct Hx as [->|[]]. exists x. cbn. split; [reflexivity|]. split; [left; reflexivity|].
    intros z [Hz|[]]. injection Hz as ->. lra.
  - cbn [fold_left]. destruct (IH (nmin acc y)) as (m & Hf & Hin & Hle).
    { destruct Hx as [Hx|[Hx|Hx]]; [subst acc|subst y|].
      - destruct y as [y|]; [rewrite nmin_some|rewrite nmin_none_r]; eexists; left; reflexivity.
      - destruct acc as [a|]; [rewrite nmin_some|rewrite nmin_none_l]; eexists; left; reflexivity.
      - exists x. right. exact Hx. }
    exists m. split; [exact Hf|]. destruct acc as [a|], y as [y|].
    + rewrite nmin_some in Hin, Hle. split.
      * destruct Hin as [Hin|Hin]; [|right; right; exact Hin].
        injection Hin as Hin. unfold Rmin in Hin. destruct (Rle_dec a y); subst m.
        -- left; reflexivity.
        -- right; left; reflexivity.
      * intros z [Hz|[Hz|Hz]].
        -- injection Hz as ->. pose proof (Hle (Rmin z y) (or_introl eq_refl)).
           pose proof (Rmin_l z y). lra.
        -- injection Hz as ->. pose proof (Hle (Rmin a z) (or_introl eq_refl)).
           pose proof (Rmin_r a z). lra.
        -- apply Hle. right. exact Hz.
    + rewrite nmin_none_r in Hin, Hle. split.
      * destruct Hin as [Hin|Hin]; [left; exact Hin|right; right; exact Hin].
      * intros z [Hz|[Hz|Hz]]; [apply Hle; left; exact Hz|discriminate|apply Hle; right; exact Hz].
    + rewrite nmin_none_l in Hin, Hle. split.
      * right. exact Hin.
      * intros z [Hz|Hz]; [discriminate|apply Hle; exact Hz].
    + rewrite nmin_none_l in Hin, Hle. split.
      * right. exact Hin.
      * intros z [Hz|Hz]; [discriminate|apply Hle; exact Hz].
Qed.

(* the key fact about [vmin]: on a list with at least one defined entry it returns
   the least defined entry; [None]s (0/0 = NaN in the code) are ignored *)
Lemma vmin_least (l : list RV) :
  (exists x, In (Some x) l) -> exists m, vmin (B:=FldR) l = Some m /\ least l m.
Proof.
  destruct l as [|a r]; intros H; [destruct H as (x & [])|].
  unfold vmin. apply fold_nmin_least. exact H.
Qed.

(* ------------------------------------------------ the core of the product *)
(* the list whose minimum is taken: (P_d - B_d) / A_d, undefined where A_d = 0 *)
Definition quotR (P Bd A : list R) : list RV :=
  map3 (fun p b a => div (B:=FldR) (Some (p - b)) (Some a)) P Bd A.

Definition prodU (P Bd A : list R) : R :=
  match vmin (B:=FldR) (quotR P Bd A) with Some m => m | None => 0 end.
Definition prodB (P Bd A : list R) : list R :=
  map2 (fun p a => p - a * prodU P Bd A) P A.

Lemma map3_quot P Bd A :
  map3 (fun pi bi ai => div (B:=FldR) (sub pi bi) ai) (map Some P) (map Some Bd) (map Some A)
  = quotR P Bd A.
Proof.
  unfold quotR. revert Bd A; induction P as [|p P IH]; intros [|b Bd] [|a A]; cbn [map map3]; auto.
  rewrite IH. reflexivity.
Qed.

Lemma quotR_length P Bd A :
  length Bd = length P -> length A = length P -> length (quotR P Bd A) = length P.
Proof.
  unfold quotR. revert Bd A; induction P as [|p P IH]; intros [|b Bd] [|a A] H1 H2;
    cbn in *; try discriminate; auto.
Qed.

Lemma nth_quotR P Bd A d :
  length Bd = length P -> length A = length P -> (d < length P)%nat ->
  nth d (quotR P Bd A) None = div (B:=FldR) (Some (nth d P 0 - nth d Bd 0)) (Some (nth d A 0)).
Proof.
  unfold quotR. revert Bd A d; induction P as [|p P IH]; intros [|b Bd] [|a A] d H1 H2 Hd;
    cbn [length] in *; try discriminate; try lia.
  cbn [map3]. destruct d; [reflexivity|]. cbn [nth]. apply IH; lia.
Qed.

(* defined entries of [quotR] = quotients of the cells with non-zero base rate *)
Lemma in_quotR P Bd A x :
  length Bd = length P -> length A = length P ->
  (In (Some x) (quotR P Bd A) <->
   exists d, (d < length P)%nat /\ nth d A 0 <> 0 /\ x = (nth d P 0 - nth d Bd 0) / nth d A 0).
Proof.
  intros H1 H2. split.
  - intros Hin. destruct (In_nth _ _ None Hin) as (d & Hd & Hn).
    rewrite quotR_length in Hd by assumption. rewrite nth_quotR in Hn by assumption.
    exists d. split; [exact Hd|]. destruct (Req_dec (nth d A 0) 0) as [E|E].
    + rewrite E, div_zero in Hn. discriminate.
    + rewrite div_some in Hn by exact E. injection Hn as <-. split; [exact E|reflexivity].
  - intros (d & Hd & E & ->). rewrite <- (div_some _ _ E), <- nth_quotR by assumption.
    apply nth_In. rewrite quotR_length by assumption. exact Hd.
Qed.

Lemma sum_bound u : forall P Bd A,
  length Bd = length P -> length A = length P ->
  (forall d, (d < length P)%nat -> u * nth d A 0 <= nth d P 0 - nth d Bd 0) ->
  u * Rsum A <= Rsum P - Rsum Bd.
Proof.
  induction P as [|p P IH]; intros [|b Bd] [|a A] H1 H2 H; cbn [length] in *; try discriminate.
  - cbn. lra.
  - cbn [Rsum]. pose proof (H 0%nat ltac:(lia)) as H0. cbn [nth] in H0.
    assert (IH' : u * Rsum A <= Rsum P - Rsum Bd).
    { apply IH; try lia. intros d Hd. apply (H (S d)). lia. }
    lra.
Qed.

Lemma Rsum_sub_scale u : forall P A, length A = length P ->
  Rsum (map2 (fun p a => p - a * u) P A) = Rsum P - Rsum A * u.
Proof.
  induction P as [|p P IH]; intros [|a A] H; cbn in *; try discriminate; [lra|].
  rewrite IH by lia. lra.
Qed.

Lemma projR_sub_scale v : forall P A, length A = length P ->
  projR (map2 (fun p a => p - a * v) P A) v A = P.
Proof.
  unfold projR. induction P as [|p P IH]; intros [|a A] H; cbn in *; try discriminate; auto.
  rewrite IH by lia. f_equal. lra.
Qed.

Definition core_hyp (P Bd A : list R) : Prop :=
  length Bd = length P /\ length A = length P /\ wf_dist A /\ Rsum P = 1 /\
  nonneg Bd /\ Forall2 Rle Bd P.

Section Core.
Variables P Bd A : list R.
Hypothesis HC : core_hyp P Bd A.
Let HlB : length Bd = length P := proj1 HC.
Let HlA : length A = length P := proj1 (proj2 HC).
Let HA : wf_dist A := proj1 (proj2 (proj2 HC)).
Let HP1 : Rsum P = 1 := proj1 (proj2 (proj2 (proj2 HC))).
Let HB0 : nonneg Bd := proj1 (proj2 (proj2 (proj2 (proj2 HC)))).
Let HBP : Forall2 Rle Bd P := proj2 (proj2 (proj2 (proj2 (proj2 HC)))).

Let u := prodU P Bd A.
Let b := prodB P Bd A.

Lemma core_A_pos d : (d < length P)%nat -> nth d A 0 <> 0 -> 0 < nth d A 0.
Proof.
  intros Hd Hn. destruct HA as (HA0 & _).
  assert (0 <= nth d A 0) by (apply (nth_Forall0 (fun x => 0 <= x)); [exact HA0|lia]). lra.
Qed.

Lemma core_gap d : (d < length P)%nat -> 0 <= nth d P 0 - nth d Bd 0.
Proof.
  intros Hd. pose proof (Forall2_nth0 Rle Bd P d HBP ltac:(lia)). lra.
Qed.

Lemma core_vmin : vmin (B:=FldR) (quotR P Bd A) = Some u /\ least (quotR P Bd A) u.
Proof.
  destruct (vmin_least (quotR P Bd A)) as (m & Hv & Hl).
  - destruct HA as (_ & HAs). destruct (Rsum_nonzero_nth A) as (d & Hd & Hn); [lra|].
    eexists. apply in_quotR; try assumption. exists d. split; [lia|]. split; [exact Hn|reflexivity].
  - subst u. unfold prodU. rewrite Hv. split; [reflexivity|exact Hl].
Qed.

(* u is a lower bound of the quotients ... *)
Lemma core_u_le d : (d < length P)%nat -> nth d A 0 <> 0 ->
  u <= (nth d P 0 - nth d Bd 0) / nth d A 0.
Proof.
  intros Hd Hn. destruct core_vmin as (_ & _ & Hle). apply Hle.
  apply in_quotR; try assumption. exists d. auto.
Qed.

(* ... attained at some cell with non-zero base rate *)
Lemma core_u_attained : exists d, (d < length P)%nat /\ 0 < nth d A 0 /\
  u * nth d A 0 = nth d P 0 - nth d Bd 0.
Proof.
  destruct core_vmin as (_ & Hin & _). apply in_quotR in Hin; try assumption.
  destruct Hin as (d & Hd & Hn & E). exists d. split; [exact Hd|].
  split; [apply core_A_pos; assumption|]. rewrite E. field. exact Hn.
Qed.

Lemma core_u_mul_le d : (d < length P)%nat -> u * nth d A 0 <= nth d P 0 - nth d Bd 0.
Proof.
  intros Hd. pose proof (core_gap d Hd) as Hg.
  destruct (Req_dec (nth d A 0) 0) as [E|E]; [rewrite E; lra|].
  pose proof (core_A_pos d Hd E) as Hp. pose proof (core_u_le d Hd E) as Hu.
  apply (Rmult_le_compat_r (nth d A 0)) in Hu; [|lra].
  replace ((nth d P 0 - nth d Bd 0) / nth d A 0 * nth d A 0) with (nth d P 0 - nth d Bd 0) in Hu
    by (field; exact E). exact Hu.
Qed.

Lemma core_u_nonneg : 0 <= u.
Proof.
  destruct core_u_attained as (d & Hd & Hp & E). pose proof (core_gap d Hd). nra.
Qed.

Lemma core_u_le1 : u <= 1 - Rsum Bd.
Proof.
  pose proof (sum_bound u P Bd A HlB HlA core_u_mul_le) as H.
  destruct HA as (_ & HAs). rewrite HAs, HP1 in H. lra.
Qed.

Lemma core_b_length : length b = length P.
Proof. subst b. unfold prodB. rewrite map2_length, HlA. apply Nat.min_id. Qed.

Lemma core_b_nth d : (d < length P)%nat -> nth d b 0 = nth d P 0 - nth d A 0 * u.
Proof. intros Hd. subst b. unfold prodB. rewrite nth_map2 by lia. reflexivity. Qed.

(* projection of the result is P, cell by cell *)
Lemma core_projection : projR b u A = P.
Proof. subst b. unfold prodB. fold u. apply projR_sub_scale. exact HlA. Qed.

(* every belief mass is at least Bd *)
Lemma core_b_ge d : (d < length P)%nat -> nth d Bd 0 <= nth d b 0.
Proof. intros Hd. rewrite core_b_nth by exact Hd. pose proof (core_u_mul_le d Hd). lra. Qed.

Lemma core_b_nonneg : nonneg b.
Proof.
  apply Forall_nth0. intros d Hd. rewrite core_b_length in Hd.
  pose proof (core_b_ge d Hd).
  assert (0 <= nth d Bd 0) by (apply (nth_Forall0 (fun x => 0 <= x)); [exact HB0|lia]). lra.
Qed.

Lemma core_wf : wf_simplex b u.
Proof.
  split; [exact core_b_nonneg|]. split; [exact core_u_nonneg|].
  subst b. unfold prodB. rewrite Rsum_sub_scale by exact HlA.
  destruct HA as (_ & HAs). rewrite HAs, HP1. fold u. lra.
Qed.

(* maximality: any v keeping all masses >= Bd is <= u *)
Lemma core_maximal v :
  (forall d, (d < length P)%nat -> nth d Bd 0 <= nth d P 0 - nth d A 0 * v) -> v <= u.
Proof.
  intros H. destruct core_u_attained as (d & Hd & Hp & E). specialize (H d Hd). nra.
Qed.

(* u is determined by: lower bound on the cells with A_d > 0 + attained *)
Lemma core_u_eq v :
  (forall d, (d < length P)%nat -> 0 < nth d A 0 -> nth d P 0 - nth d Bd 0 = v * nth d A 0) -> u = v.
Proof.
  intros H. destruct core_u_attained as (d & Hd & Hp & E). specialize (H d Hd Hp). nra.
Qed.

Lemma core_eval :
  product_core (B:=FldR) (map Some P) (map Some Bd) (map Some A) = (map Some b, Some u).
Proof.
  unfold product_core. rewrite map3_quot. destruct core_vmin as (-> & _). cbv zeta.
  replace (ltb (B:=FldR) (Some u) zero) with false
    by (symmetry; cbn; apply Rltb_false; exact core_u_nonneg).
  f_equal. subst b. unfold prodB. fold u. apply map2_some. intros; reflexivity.
Qed.

End Core.

(* ------------------------------------------------------- self-validation *)
Lemma forallb_in_unit eps l : 0 <= eps ->
  Forall (fun x => 0 <= x <= 1) l -> forallb (in_unit (B:=FldR) eps) (map Some l) = true.
Proof.
  intros He H. induction H as [|x l Hx H IH]; cbn [map forallb]; [reflexivity|].
  rewrite IH, andb_true_r. apply in_unit_some. lra.
Qed.

Lemma wf_dist_unit a : wf_dist a -> Forall (fun x => 0 <= x <= 1) a.
Proof.
  intros (Ha & Hs). apply Forall_forall. intros x Hx. split.
  - unfold nonneg in Ha. rewrite Forall_forall in Ha. auto.
  - pose proof (Rsum_le_elem a x Ha Hx). lra.
Qed.

Lemma check_simplex_ok eps b u : 0 <= eps <= 1/8 -> wf_simplex b u ->
  check_simplex (B:=FldR) eps (map Some b) (Some u) = true.
Proof.
  intros He Hwf. unfold check_simplex. rewrite vsum_some, add_some.
  rewrite forallb_in_unit; [|lra|].
  - pose proof (wf_simplex_u_le1 _ _ Hwf). destruct Hwf as (Hb & Hu & Hs).
    assert (E1 : in_unit (B:=FldR) eps (Some u) = true) by (apply in_unit_some; lra).
    assert (E2 : is_one (B:=FldR) eps (Some (Rsum b + u)) = true) by (apply is_one_some; lra).
    rewrite E1, E2. reflexivity.
  - apply Forall_forall. intros x Hx. exact (wf_simplex_b_le1 b u x Hwf Hx).
Qed.

Lemma check_base_rate_ok eps a : 0 <= eps <= 1/8 -> wf_dist a ->
  check_base_rate (B:=FldR) eps (map Some a) = true.
Proof.
  intros He Hwf. unfold check_base_rate. rewrite vsum_some.
  rewrite forallb_in_unit; [|lra|apply wf_dist_unit; exact Hwf].
  destruct Hwf as (_ & Hs).
  assert (E : is_one (B:=FldR) eps (Some (Rsum a)) = true) by (apply is_one_some; lra).
  rewrite E. reflexivity.
Qed.

Lemma normalize_dist_wf a : wf_dist a ->
  normalize_dist (B:=FldR) (map Some a) = map Some a.
Proof.
  intros (_ & Hs). unfold normalize_dist. rewrite vsum_some, Hs.
  rewrite (map_some _ (fun x => x / 1)) by (intros; apply div_some; lra).
  f_equal. rewrite <- (map_id a) at 2. apply map_ext. intros; field.
Qed.

(* =============================================================== two factors *)
Definition product2R (b0 : list R) (u0 : R) (a0 b1 : list R) (u1 : R) (a1 : list R)
  : list R * R * list R :=
  let P := outerR (projR b0 u0 a0) (projR b1 u1 a1) in
  let Bd := outerR b0 b1 in
  let A := outerR a0 a1 in
  (prodB P Bd A, prodU P Bd A, A).

Definition opR (b : list R) (u : R) (a : list R) : opinion (B:=FldR) :=
  (map Some b, Some u, map Some a).

Section Two.
Variables (b0 : list R) (u0 : R) (a0 : list R) (b1 : list R) (u1 : R) (a1 : list R).
Hypothesis W0 : wf_opinion b0 u0 a0.
Hypothesis W1 : wf_opinion b1 u1 a1.

Let P0 := projR b0 u0 a0.
Let P1 := projR b1 u1 a1.
Let P := outerR P0 P1.
Let Bd := outerR b0 b1.
Let A := outerR a0 a1.
Let u := prodU P Bd A.
Let b := prodB P Bd A.
Let n0 := length b0.
Let n1 := length b1.

Lemma two_lenP0 : length P0 = n0.
Proof. apply projR_length. apply W0. Qed.
Lemma two_lenP1 : length P1 = n1.
Proof. apply projR_length. apply W1. Qed.
Lemma two_lena0 : length a0 = n0. Proof. apply W0. Qed.
Lemma two_lena1 : length a1 = n1. Proof. apply W1. Qed.

Lemma two_lenP : length P = (n0 * n1)%nat.
Proof. subst P. rewrite outerR_length, two_lenP0, two_lenP1. reflexivity. Qed.
Lemma two_HlB : length Bd = length P.
Proof. rewrite two_lenP. apply outerR_length. Qed.
Lemma two_HlA : length A = length P.
Proof. rewrite two_lenP. subst A. rewrite outerR_length, two_lena0, two_lena1. reflexivity. Qed.
Lemma two_HA : wf_dist A.
Proof. apply outerR_wf_dist; [apply W0|apply W1]. Qed.
Lemma two_HP1 : Rsum P = 1.
Proof. apply (outerR_wf_dist P0 P1); apply projR_wf; assumption. Qed.
Lemma two_HB0 : nonneg Bd.
Proof. apply nonneg_outerR; [apply W0|apply W1]. Qed.
Lemma two_HBP : Forall2 Rle Bd P.
Proof. apply outerR_le; [apply W0|apply W1|apply projR_ge; exact W0|apply projR_ge; exact W1]. Qed.

Lemma two_core : core_hyp P Bd A.
Proof. exact (conj two_HlB (conj two_HlA (conj two_HA (conj two_HP1 (conj two_HB0 two_HBP))))). Qed.

Lemma two_wf : wf_simplex b u.
Proof. exact (core_wf P Bd A two_core). Qed.

Lemma two_wf_opinion : wf_opinion b u A.
Proof.
  split; [exact two_wf|]. split; [exact two_HA|].
  rewrite two_HlA. symmetry. apply core_b_length. exact two_core.
Qed.

Lemma two_core_eval :
  product_core (B:=FldR) (map Some P) (map Some Bd) (map Some A) = (map Some b, Some u).
Proof. exact (core_eval P Bd A two_core). Qed.

Lemma product2_eval eps : 0 <= eps <= 1/8 ->
  product2 (B:=FldR) eps (opR b0 u0 a0) (opR b1 u1 a1) = Some (opR b u A).
Proof.
  intros He. unfold product2, opR.
  rewrite !projection_some by assumption. rewrite !outer_some.
  fold P0 P1 P Bd A. rewrite two_core_eval.
  rewrite (check_simplex_ok eps b u He two_wf), (check_base_rate_ok eps A He two_HA).
  reflexivity.
Qed.

Lemma product2_lab_eval :
  product2_lab (B:=FldR) (opR b0 u0 a0) (opR b1 u1 a1) = opR b u A.
Proof.
  unfold product2_lab, opR.
  rewrite !projection_some by assumption. rewrite !outer_some.
  fold P0 P1 P Bd A. rewrite two_core_eval.
  rewrite (normalize_dist_wf A two_HA). reflexivity.
Qed.

Lemma two_projection : projR b u A = outerR P0 P1.
Proof. exact (core_projection P Bd A two_core). Qed.

(* cells *)
Lemma two_cell_P i j : (i < n0)%nat -> (j < n1)%nat ->
  nth (i * n1 + j) P 0 = nth i P0 0 * nth j P1 0.
Proof.
  intros Hi Hj. subst P. rewrite <- two_lenP1. apply nth_outerR; [rewrite two_lenP0|rewrite two_lenP1]; assumption.
Qed.
Lemma two_cell_Bd i j : (i < n0)%nat -> (j < n1)%nat ->
  nth (i * n1 + j) Bd 0 = nth i b0 0 * nth j b1 0.
Proof. intros Hi Hj. apply nth_outerR; assumption. Qed.
Lemma two_cell_A i j : (i < n0)%nat -> (j < n1)%nat ->
  nth (i * n1 + j) A 0 = nth i a0 0 * nth j a1 0.
Proof.
  intros Hi Hj. subst A. rewrite <- two_lena1. apply nth_outerR; [rewrite two_lena0|rewrite two_lena1]; assumption.
Qed.
Lemma two_cell_range i j : (i < n0)%nat -> (j < n1)%nat -> (i * n1 + j < length P)%nat.
Proof. intros. rewrite two_lenP. apply cell_in_range; assumption. Qed.

Lemma two_cell_b i j : (i < n0)%nat -> (j < n1)%nat ->
  nth (i * n1 + j) b 0 = nth i P0 0 * nth j P1 0 - nth i a0 0 * nth j a1 0 * u.
Proof.
  intros Hi Hj. subst b u.
  rewrite (core_b_nth P Bd A two_core) by (apply two_cell_range; assumption).
  rewrite two_cell_P, two_cell_A by assumption. reflexivity.
Qed.

Lemma two_b_ge i j : (i < n0)%nat -> (j < n1)%nat ->
  nth i b0 0 * nth j b1 0 <= nth (i * n1 + j) b 0.
Proof.
  intros Hi Hj. rewrite <- two_cell_Bd by assumption.
  apply (core_b_ge P Bd A two_core). apply two_cell_range; assumption.
Qed.

Lemma two_u_bound i j : (i < n0)%nat -> (j < n1)%nat ->
  u * (nth i a0 0 * nth j a1 0) <= nth i P0 0 * nth j P1 0 - nth i b0 0 * nth j b1 0.
Proof.
  intros Hi Hj. rewrite <- two_cell_A, <- two_cell_P, <- two_cell_Bd by assumption.
  apply (core_u_mul_le P Bd A two_core). apply two_cell_range; assumption.
Qed.

Lemma two_u_attained : exists i j, (i < n0)%nat /\ (j < n1)%nat /\
  0 < nth i a0 0 * nth j a1 0 /\
  u * (nth i a0 0 * nth j a1 0) = nth i P0 0 * nth j P1 0 - nth i b0 0 * nth j b1 0.
Proof.
  destruct (core_u_attained P Bd A two_core) as (d & Hd & Hp & E).
  rewrite two_lenP in Hd. destruct (cell_decompose n0 n1 d Hd) as (i & j & Hi & Hj & ->).
  exists i, j. rewrite two_cell_A, two_cell_P, two_cell_Bd in * by assumption. auto.
Qed.

Lemma two_maximal v :
  (forall i j, (i < n0)%nat -> (j < n1)%nat ->
     nth i b0 0 * nth j b1 0 <= nth i P0 0 * nth j P1 0 - nth i a0 0 * nth j a1 0 * v) -> v <= u.
Proof.
  intros H. destruct two_u_attained as (i & j & Hi & Hj & Hp & E). specialize (H i j Hi Hj). nra.
Qed.

End Two.

(* ------------------------------------------------------------ transposition *)
(* transposition of a flattened n0 x n1 vector (row-major) into an n1 x n0 one *)
Definition transposeR (n0 n1 : nat) (l : list R) : list R :=
  flat_map (fun j => map (fun i => nth (i * n1 + j) l 0) (seq 0 n0)) (seq 0 n1).

Lemma list_as_seq (l : list R) : l = map (fun i => nth i l 0) (seq 0 (length l)).
Proof.
  induction l as [|x l IH]; cbn [length seq map nth]; [reflexivity|].
  f_equal. rewrite <- seq_shift, map_map. exact IH.
Qed.

Lemma flat_map_ext_in {X Y} (f g : X -> list Y) l :
  (forall x, In x l -> f x = g x) -> flat_map f l = flat_map g l.
Proof.
  induction l as [|a l IH]; cbn; intros H; [reflexivity|].
  rewrite H by (left; reflexivity). f_equal. apply IH. intros; apply H; right; assumption.
Qed.

Lemma map_as_seq (f : R -> R) l : map f l = map (fun i => f (nth i l 0)) (seq 0 (length l)).
Proof. rewrite (list_as_seq l) at 1. apply map_map. Qed.
Lemma flat_map_as_seq (F : R -> list R) l :
  flat_map F l = flat_map (fun j => F (nth j l 0)) (seq 0 (length l)).
Proof. rewrite (list_as_seq l) at 1. rewrite !flat_map_concat_map, map_map. reflexivity. Qed.

Lemma outerR_transpose l0 l1 :
  outerR l1 l0 = transposeR (length l0) (length l1) (outerR l0 l1).
Proof.
  unfold transposeR. unfold outerR at 1. rewrite flat_map_as_seq.
  apply flat_map_ext_in. intros j Hj. apply in_seq in Hj.
  rewrite map_as_seq. apply map_ext_in. intros i Hi. apply in_seq in Hi.
  rewrite nth_outerR by lia. ring.
Qed.

Lemma map2_app {X Y Z} (f : X -> Y -> Z) l1 l2 l1' l2' :
  length l1 = length l1' -> map2 f (l1 ++ l2) (l1' ++ l2') = map2 f l1 l1' ++ map2 f l2 l2'.
Proof.
  revert l1'; induction l1 as [|x l1 IH]; intros [|y l1'] H; cbn in *; try discriminate; auto.
  rewrite IH by lia. reflexivity.
Qed.
Lemma map2_map {X Y Z W} (g : Y -> Z -> W) (f : X -> Y) (f' : X -> Z) l :
  map2 g (map f l) (map f' l) = map (fun i => g (f i) (f' i)) l.
Proof. induction l; cbn; auto. rewrite IHl. reflexivity. Qed.

Lemma transpose_map2 (g : R -> R -> R) n0 n1 l l' :
  length l = (n0 * n1)%nat -> length l' = (n0 * n1)%nat ->
  transposeR n0 n1 (map2 g l l') = map2 g (transposeR n0 n1 l) (transposeR n0 n1 l').
Proof.
  intros H H'. unfold transposeR.
  assert (G : forall J, (forall j, In j J -> (j < n1)%nat) ->
    flat_map (fun j => map (fun i => nth (i * n1 + j) (map2 g l l') 0) (seq 0 n0)) J =
    map2 g (flat_map (fun j => map (fun i => nth (i * n1 + j) l 0) (seq 0 n0)) J)
           (flat_map (fun j => map (fun i => nth (i * n1 + j) l' 0) (seq 0 n0)) J)).
  { induction J as [|j J IH]; intros HJ; cbn [flat_map]; [reflexivity|].
    rewrite map2_app by (rewrite !map_length; reflexivity).
    rewrite <- IH by (intros; apply HJ; right; assumption). f_equal.
    rewrite map2_map. apply map_ext_in. intros i Hi. apply in_seq in Hi.
    assert (j < n1)%nat by (apply HJ; left; reflexivity).
    apply nth_map2; nia. }
  apply G. intros j Hj. apply in_seq in Hj. lia.
Qed.

Section Swap.
Variables (b0 : list R) (u0 : R) (a0 : list R) (b1 : list R) (u1 : R) (a1 : list R).
Hypothesis W0 : wf_opinion b0 u0 a0.
Hypothesis W1 : wf_opinion b1 u1 a1.

Lemma two_u_swap :
  prodU (outerR (projR b1 u1 a1) (projR b0 u0 a0)) (outerR b1 b0) (outerR a1 a0) =
  prodU (outerR (projR b0 u0 a0) (projR b1 u1 a1)) (outerR b0 b1) (outerR a0 a1).
Proof.
  destruct (two_u_attained b0 u0 a0 b1 u1 a1 W0 W1) as (i & j & Hi & Hj & Hp & E).
  destruct (two_u_attained b1 u1 a1 b0 u0 a0 W1 W0) as (j' & i' & Hj' & Hi' & Hp' & E').
  pose proof (two_u_bound b1 u1 a1 b0 u0 a0 W1 W0 j i Hj Hi) as B1.
  pose proof (two_u_bound b0 u0 a0 b1 u1 a1 W0 W1 i' j' Hi' Hj') as B2.
  apply Rle_antisym.
  - apply (Rmult_le_reg_r (nth i a0 0 * nth j a1 0)); [exact Hp|]. nra.
  - apply (Rmult_le_reg_r (nth j' a1 0 * nth i' a0 0)); [exact Hp'|]. nra.
Qed.

Lemma product2R_swap :
  product2R b1 u1 a1 b0 u0 a0 =
  let '(b, u, a) := product2R b0 u0 a0 b1 u1 a1 in
  (transposeR (length b0) (length b1) b, u, transposeR (length b0) (length b1) a).
Proof.
  unfold product2R. rewrite two_u_swap.
  pose proof (two_lena0 b0 u0 a0 W0) as La0. pose proof (two_lena1 b1 u1 a1 W1) as La1.
  pose proof (two_lenP0 b0 u0 a0 W0) as Lp0. pose proof (two_lenP1 b1 u1 a1 W1) as Lp1.
  cbv zeta in La0, La1, Lp0, Lp1.
  f_equal; [f_equal|].
  - unfold prodB. rewrite two_u_swap.
    rewrite transpose_map2.
    + rewrite <- Lp0 at 1. rewrite <- Lp1 at 1. rewrite <- outerR_transpose.
      rewrite <- La0, <- La1. rewrite <- outerR_transpose. reflexivity.
    + rewrite outerR_length. congruence.
    + rewrite outerR_length. congruence.
  - rewrite <- La0, <- La1. apply outerR_transpose.
Qed.

End Swap.

(* ------------------------------------------------- vacuous and dogmatic factors *)
Lemma nonneg_sum0_nth l d : nonneg l -> Rsum l = 0 -> nth d l 0 = 0.
Proof.
  intros Hn Hs. destruct (lt_dec d (length l)) as [Hd|Hd].
  - pose proof (nth_In l 0 Hd) as Hin. pose proof (Rsum_le_elem l _ Hn Hin).
    unfold nonneg in Hn. rewrite Forall_forall in Hn. specialize (Hn _ Hin). lra.
  - apply nth_overflow. lia.
Qed.

Lemma map2_sub_self (l : list R) : map2 (fun p a => p - a * 1) l l = map (fun _ => 0) l.
Proof. induction l; cbn; auto. rewrite IHl. f_equal. lra. Qed.

(* generic: P = A and Bd = 0 give the vacuous result; P = Bd gives the dogmatic one *)
Lemma core_vacuous Bd A : core_hyp A Bd A -> Rsum Bd = 0 ->
  prodU A Bd A = 1 /\ prodB A Bd A = map (fun _ => 0) A.
Proof.
  intros HC Hs. assert (E : prodU A Bd A = 1).
  { apply (core_u_eq A Bd A HC). intros d _ _.
    rewrite (nonneg_sum0_nth Bd d); [lra| |exact Hs]. apply HC. }
  split; [exact E|]. unfold prodB. rewrite E. apply map2_sub_self.
Qed.

Lemma core_dogmatic Bd A : core_hyp Bd Bd A -> prodU Bd Bd A = 0 /\ prodB Bd Bd A = Bd.
Proof.
  intros HC. assert (E : prodU Bd Bd A = 0).
  { apply (core_u_eq Bd Bd A HC). intros d _ _. lra. }
  split; [exact E|]. unfold prodB. rewrite E. apply map2_id_l; [apply HC|]. intros; lra.
Qed.

Lemma product2R_vacuous b0 a0 b1 a1 :
  wf_opinion b0 1 a0 -> wf_opinion b1 1 a1 ->
  product2R b0 1 a0 b1 1 a1 = (map (fun _ => 0) (outerR a0 a1), 1, outerR a0 a1).
Proof.
  intros W0 W1. pose proof (two_core _ _ _ _ _ _ W0 W1) as HC. cbv zeta in HC.
  unfold product2R.
  destruct (projR_vacuous _ _ W0) as (E0 & Z0). destruct (projR_vacuous _ _ W1) as (E1 & Z1).
  rewrite E0, E1 in *.
  destruct (core_vacuous _ _ HC) as (-> & ->); [|reflexivity].
  rewrite Rsum_outerR. rewrite Z0, Rsum_zeros. lra.
Qed.

Lemma product2R_dogmatic b0 a0 b1 a1 :
  wf_opinion b0 0 a0 -> wf_opinion b1 0 a1 ->
  product2R b0 0 a0 b1 0 a1 = (outerR b0 b1, 0, outerR a0 a1).
Proof.
  intros W0 W1. pose proof (two_core _ _ _ _ _ _ W0 W1) as HC. cbv zeta in HC.
  unfold product2R.
  rewrite !projR_dogmatic in * by (apply W0 || apply W1).
  destruct (core_dogmatic _ _ HC) as (-> & ->). reflexivity.
Qed.

(* ============================================================= three factors *)
Definition product3R (b0 : list R) (u0 : R) (a0 b1 : list R) (u1 : R) (a1 b2 : list R) (u2 : R)
           (a2 : list R) : list R * R * list R :=
  let P := outer3R (projR b0 u0 a0) (projR b1 u1 a1) (projR b2 u2 a2) in
  let Bd := outer3R b0 b1 b2 in
  let A := outer3R a0 a1 a2 in
  (prodB P Bd A, prodU P Bd A, A).

Lemma nth_outer3R l0 l1 l2 i j k :
  (i < length l0)%nat -> (j < length l1)%nat -> (k < length l2)%nat ->
  nth ((i * length l1 + j) * length l2 + k) (outer3R l0 l1 l2) 0
  = nth i l0 0 * nth j l1 0 * nth k l2 0.
Proof.
  intros Hi Hj Hk. rewrite outer3R_outerR.
  rewrite nth_outerR; [|rewrite outerR_length; apply cell_in_range; assumption|exact Hk].
  rewrite nth_outerR by assumption. reflexivity.
Qed.

Lemma cell_decompose3 n0 n1 n2 d : (d < n0 * n1 * n2)%nat ->
  exists i j k, (i < n0)%nat /\ (j < n1)%nat /\ (k < n2)%nat /\ d = ((i * n1 + j) * n2 + k)%nat.
Proof.
  intros H. destruct (cell_decompose (n0 * n1) n2 d H) as (e & k & He & Hk & ->).
  destruct (cell_decompose n0 n1 e He) as (i & j & Hi & Hj & ->).
  exists i, j, k. auto.
Qed.

Section Three.
Variables (b0 : list R) (u0 : R) (a0 : list R) (b1 : list R) (u1 : R) (a1 : list R)
          (b2 : list R) (u2 : R) (a2 : list R).
Hypothesis W0 : wf_opinion b0 u0 a0.
Hypothesis W1 : wf_opinion b1 u1 a1.
Hypothesis W2 : wf_opinion b2 u2 a2.

Let P0 := projR b0 u0 a0.
Let P1 := projR b1 u1 a1.
Let P2 := projR b2 u2 a2.
Let P := outer3R P0 P1 P2.
Let Bd := outer3R b0 b1 b2.
Let A := outer3R a0 a1 a2.
Let u := prodU P Bd A.
Let b := prodB P Bd A.
Let n0 := length b0.
Let n1 := length b1.
Let n2 := length b2.

Lemma three_lenP0 : length P0 = n0. Proof. apply projR_length. apply W0. Qed.
Lemma three_lenP1 : length P1 = n1. Proof. apply projR_length. apply W1. Qed.
Lemma three_lenP2 : length P2 = n2. Proof. apply projR_length. apply W2. Qed.
Lemma three_lena0 : length a0 = n0. Proof. apply W0. Qed.
Lemma three_lena1 : length a1 = n1. Proof. apply W1. Qed.
Lemma three_lena2 : length a2 = n2. Proof. apply W2. Qed.

Lemma three_lenP : length P = (n0 * n1 * n2)%nat.
Proof.
  subst P. rewrite outer3R_outerR, !outerR_length, three_lenP0, three_lenP1, three_lenP2. reflexivity.
Qed.

Lemma three_core : core_hyp P Bd A.
Proof.
  unfold core_hyp. rewrite three_lenP. subst P Bd A. rewrite !outer3R_outerR.
  repeat split.
  - rewrite !outerR_length. reflexivity.
  - rewrite !outerR_length, three_lena0, three_lena1, three_lena2. reflexivity.
  - apply nonneg_outerR; [apply nonneg_outerR|]; [apply W0|apply W1|apply W2].
  - rewrite !Rsum_outerR. destruct W0 as (_ & (_ & ->) & _), W1 as (_ & (_ & ->) & _),
      W2 as (_ & (_ & ->) & _). lra.
  - apply (outerR_wf_dist (outerR P0 P1) P2); [apply outerR_wf_dist|]; apply projR_wf; assumption.
  - apply nonneg_outerR; [apply nonneg_outerR|]; [apply W0|apply W1|apply W2].
  - apply outerR_le.
    + apply nonneg_outerR; [apply W0|apply W1].
    + apply W2.
    + apply outerR_le; [apply W0|apply W1|apply projR_ge; exact W0|apply projR_ge; exact W1].
    + apply projR_ge; exact W2.
Qed.

Lemma three_wf : wf_simplex b u.
Proof. exact (core_wf P Bd A three_core). Qed.

Lemma three_HA : wf_dist A.
Proof. apply three_core. Qed.

Lemma three_wf_opinion : wf_opinion b u A.
Proof.
  split; [exact three_wf|]. split; [exact three_HA|].
  transitivity (length P); [apply three_core|symmetry; apply (core_b_length P Bd A three_core)].
Qed.

Lemma three_core_eval :
  product_core (B:=FldR) (map Some P) (map Some Bd) (map Some A) = (map Some b, Some u).
Proof. exact (core_eval P Bd A three_core). Qed.

Lemma product3_eval eps : 0 <= eps <= 1/8 ->
  product3 (B:=FldR) eps (opR b0 u0 a0) (opR b1 u1 a1) (opR b2 u2 a2) = Some (opR b u A).
Proof.
  intros He. unfold product3, opR.
  rewrite !projection_some by assumption. rewrite !outer3_some.
  fold P0 P1 P2 P Bd A. rewrite three_core_eval.
  rewrite (check_simplex_ok eps b u He three_wf), (check_base_rate_ok eps A He three_HA).
  reflexivity.
Qed.

Lemma product3_lab_eval :
  product3_lab (B:=FldR) (opR b0 u0 a0) (opR b1 u1 a1) (opR b2 u2 a2) = opR b u A.
Proof.
  unfold product3_lab, opR.
  rewrite !projection_some by assumption. rewrite !outer3_some.
  fold P0 P1 P2 P Bd A. rewrite three_core_eval.
  rewrite (normalize_dist_wf A three_HA). reflexivity.
Qed.

Lemma three_projection : projR b u A = outer3R P0 P1 P2.
Proof. exact (core_projection P Bd A three_core). Qed.

Lemma three_cell_P i j k : (i < n0)%nat -> (j < n1)%nat -> (k < n2)%nat ->
  nth ((i * n1 + j) * n2 + k) P 0 = nth i P0 0 * nth j P1 0 * nth k P2 0.
Proof.
  intros Hi Hj Hk. subst P. rewrite <- three_lenP1, <- three_lenP2.
  apply nth_outer3R; [rewrite three_lenP0|rewrite three_lenP1|rewrite three_lenP2]; assumption.
Qed.
Lemma three_cell_Bd i j k : (i < n0)%nat -> (j < n1)%nat -> (k < n2)%nat ->
  nth ((i * n1 + j) * n2 + k) Bd 0 = nth i b0 0 * nth j b1 0 * nth k b2 0.
Proof. intros Hi Hj Hk. apply nth_outer3R; assumption. Qed.
Lemma three_cell_A i j k : (i < n0)%nat -> (j < n1)%nat -> (k < n2)%nat ->
  nth ((i * n1 + j) * n2 + k) A 0 = nth i a0 0 * nth j a1 0 * nth k a2 0.
Proof.
  intros Hi Hj Hk. subst A. rewrite <- three_lena1, <- three_lena2.
  apply nth_outer3R; [rewrite three_lena0|rewrite three_lena1|rewrite three_lena2]; assumption.
Qed.
Lemma three_cell_range i j k : (i < n0)%nat -> (j < n1)%nat -> (k < n2)%nat ->
  ((i * n1 + j) * n2 + k < length P)%nat.
Proof. intros. rewrite three_lenP. apply cell_in_range; [apply cell_in_range|]; assumption. Qed.

Lemma three_cell_b i j k : (i < n0)%nat -> (j < n1)%nat -> (k < n2)%nat ->
  nth ((i * n1 + j) * n2 + k) b 0
  = nth i P0 0 * nth j P1 0 * nth k P2 0 - nth i a0 0 * nth j a1 0 * nth k a2 0 * u.
Proof.
  intros Hi Hj Hk. subst b u.
  rewrite (core_b_nth P Bd A three_core) by (apply three_cell_range; assumption).
  rewrite three_cell_P, three_cell_A by assumption. reflexivity.
Qed.

Lemma three_b_ge i j k : (i < n0)%nat -> (j < n1)%nat -> (k < n2)%nat ->
  nth i b0 0 * nth j b1 0 * nth k b2 0 <= nth ((i * n1 + j) * n2 + k) b 0.
Proof.
  intros Hi Hj Hk. rewrite <- three_cell_Bd by assumption.
  apply (core_b_ge P Bd A three_core). apply three_cell_range; assumption.
Qed.

Lemma three_u_bound i j k : (i < n0)%nat -> (j < n1)%nat -> (k < n2)%nat ->
  u * (nth i a0 0 * nth j a1 0 * nth k a2 0)
  <= nth i P0 0 * nth j P1 0 * nth k P2 0 - nth i b0 0 * nth j b1 0 * nth k b2 0.
Proof.
  intros Hi Hj Hk. rewrite <- three_cell_A, <- three_cell_P, <- three_cell_Bd by assumption.
  apply (core_u_mul_le P Bd A three_core). apply three_cell_range; assumption.
Qed.

Lemma three_u_attained : exists i j k, (i < n0)%nat /\ (j < n1)%nat /\ (k < n2)%nat /\
  0 < nth i a0 0 * nth j a1 0 * nth k a2 0 /\
  u * (nth i a0 0 * nth j a1 0 * nth k a2 0)
  = nth i P0 0 * nth j P1 0 * nth k P2 0 - nth i b0 0 * nth j b1 0 * nth k b2 0.
Proof.
  destruct (core_u_attained P Bd A three_core) as (d & Hd & Hp & E).
  rewrite three_lenP in Hd.
  destruct (cell_decompose3 n0 n1 n2 d Hd) as (i & j & k & Hi & Hj & Hk & ->).
  exists i, j, k. rewrite three_cell_A, three_cell_P, three_cell_Bd in * by assumption. auto.
Qed.

Lemma three_maximal v :
  (forall i j k, (i < n0)%nat -> (j < n1)%nat -> (k < n2)%nat ->
     nth i b0 0 * nth j b1 0 * nth k b2 0
     <= nth i P0 0 * nth j P1 0 * nth k P2 0 - nth i a0 0 * nth j a1 0 * nth k a2 0 * v) -> v <= u.
Proof.
  intros H. destruct three_u_attained as (i & j & k & Hi & Hj & Hk & Hp & E).
  specialize (H i j k Hi Hj Hk). nra.
Qed.

End Three.

Lemma product3R_vacuous b0 a0 b1 a1 b2 a2 :
  wf_opinion b0 1 a0 -> wf_opinion b1 1 a1 -> wf_opinion b2 1 a2 ->
  product3R b0 1 a0 b1 1 a1 b2 1 a2 = (map (fun _ => 0) (outer3R a0 a1 a2), 1, outer3R a0 a1 a2).
Proof.
  intros W0 W1 W2. pose proof (three_core _ _ _ _ _ _ _ _ _ W0 W1 W2) as HC. cbv zeta in HC.
  unfold product3R.
  destruct (projR_vacuous _ _ W0) as (E0 & Z0). destruct (projR_vacuous _ _ W1) as (E1 & Z1).
  destruct (projR_vacuous _ _ W2) as (E2 & Z2).
  rewrite E0, E1, E2 in *.
  destruct (core_vacuous _ _ HC) as (-> & ->); [|reflexivity].
  rewrite outer3R_outerR, !Rsum_outerR. rewrite Z0, Rsum_zeros. lra.
Qed.

Lemma product3R_dogmatic b0 a0 b1 a1 b2 a2 :
  wf_opinion b0 0 a0 -> wf_opinion b1 0 a1 -> wf_opinion b2 0 a2 ->
  product3R b0 0 a0 b1 0 a1 b2 0 a2 = (outer3R b0 b1 b2, 0, outer3R a0 a1 a2).
Proof.
  intros W0 W1 W2. pose proof (three_core _ _ _ _ _ _ _ _ _ W0 W1 W2) as HC. cbv zeta in HC.
  unfold product3R.
  rewrite !projR_dogmatic in * by (apply W0 || apply W1 || apply W2).
  destruct (core_dogmatic _ _ HC) as (-> & ->). reflexivity.
Qed.

(* reading of [transposeR]: entry (j, i) of the result is entry (i, j) of the argument *)
Lemma nth_chunks (F : nat -> nat -> R) n0 : forall n1 s j i,
  (j < n1)%nat -> (i < n0)%nat ->
  nth (j * n0 + i) (flat_map (fun j => map (F j) (seq 0 n0)) (seq s n1)) 0 = F (s + j)%nat i.
Proof.
  induction n1 as [|n1 IH]; intros s j i Hj Hi; [lia|]. cbn [seq flat_map].
  destruct j as [|j].
  - cbn [Nat.mul Nat.add]. rewrite app_nth1 by (rewrite map_length, seq_length; exact Hi).
    rewrite (nth_indep _ 0 (F s 0%nat)) by (rewrite map_length, seq_length; exact Hi).
    rewrite map_nth, seq_nth by exact Hi. rewrite Nat.add_0_r. reflexivity.
  - rewrite app_nth2 by (rewrite map_length, seq_length; lia). rewrite map_length, seq_length.
    replace (S j * n0 + i - n0)%nat with (j * n0 + i)%nat by lia.
    rewrite IH by lia. f_equal. lia.
Qed.

Lemma transposeR_nth n0 n1 l i j : (i < n0)%nat -> (j < n1)%nat ->
  nth (j * n0 + i) (transposeR n0 n1 l) 0 = nth (i * n1 + j) l 0.
Proof. intros Hi Hj. unfold transposeR. rewrite nth_chunks by assumption. reflexivity. Qed.

(* ================================================================ summaries *)
Lemma product2_spec eps b0 u0 a0 b1 u1 a1 b u a :
  0 <= eps <= 1/8 -> wf_opinion b0 u0 a0 -> wf_opinion b1 u1 a1 ->
  product2R b0 u0 a0 b1 u1 a1 = (b, u, a) ->
  let n0 := length b0 in let n1 := length b1 in
  let P0 := projR b0 u0 a0 in let P1 := projR b1 u1 a1 in
  product2 (B:=FldR) eps (map Some b0, Some u0, map Some a0) (map Some b1, Some u1, map Some a1)
    = Some (map Some b, Some u, map Some a) /\
  wf_opinion b u a /\
  a = outerR a0 a1 /\
  projR b u a = outerR P0 P1 /\
  (forall i j, (i < n0)%nat -> (j < n1)%nat ->
     nth (i * n1 + j) b 0 + nth i a0 0 * nth j a1 0 * u = nth i P0 0 * nth j P1 0 /\
     nth i b0 0 * nth j b1 0 <= nth (i * n1 + j) b 0 /\
     u * (nth i a0 0 * nth j a1 0) <= nth i P0 0 * nth j P1 0 - nth i b0 0 * nth j b1 0) /\
  (exists i j, (i < n0)%nat /\ (j < n1)%nat /\ 0 < nth i a0 0 * nth j a1 0 /\
     u * (nth i a0 0 * nth j a1 0) = nth i P0 0 * nth j P1 0 - nth i b0 0 * nth j b1 0) /\
  (forall v, (forall i j, (i < n0)%nat -> (j < n1)%nat ->
       nth i b0 0 * nth j b1 0 <= nth i P0 0 * nth j P1 0 - nth i a0 0 * nth j a1 0 * v) -> v <= u).
Proof.
  intros He W0 W1 E. cbv zeta. unfold product2R in E. injection E as <- <- <-.
  split; [exact (product2_eval b0 u0 a0 b1 u1 a1 W0 W1 eps He)|].
  split; [exact (two_wf_opinion b0 u0 a0 b1 u1 a1 W0 W1)|].
  split; [reflexivity|].
  split; [exact (two_projection b0 u0 a0 b1 u1 a1 W0 W1)|].
  split.
  { intros i j Hi Hj. split; [|split].
    - rewrite (two_cell_b b0 u0 a0 b1 u1 a1 W0 W1 i j Hi Hj). lra.
    - exact (two_b_ge b0 u0 a0 b1 u1 a1 W0 W1 i j Hi Hj).
    - exact (two_u_bound b0 u0 a0 b1 u1 a1 W0 W1 i j Hi Hj). }
  split; [exact (two_u_attained b0 u0 a0 b1 u1 a1 W0 W1)|].
  exact (two_maximal b0 u0 a0 b1 u1 a1 W0 W1).
Qed.

Lemma product2_lab_eq eps b0 u0 a0 b1 u1 a1 :
  0 <= eps <= 1/8 -> wf_opinion b0 u0 a0 -> wf_opinion b1 u1 a1 ->
  product2 (B:=FldR) eps (map Some b0, Some u0, map Some a0) (map Some b1, Some u1, map Some a1)
  = Some (product2_lab (B:=FldR) (map Some b0, Some u0, map Some a0) (map Some b1, Some u1, map Some a1)) /\
  forall b u a, product2R b0 u0 a0 b1 u1 a1 = (b, u, a) ->
  product2_lab (B:=FldR) (map Some b0, Some u0, map Some a0) (map Some b1, Some u1, map Some a1)
  = (map Some b, Some u, map Some a).
Proof.
  intros He W0 W1.
  pose proof (product2_lab_eval b0 u0 a0 b1 u1 a1 W0 W1) as EL.
  pose proof (product2_eval b0 u0 a0 b1 u1 a1 W0 W1 eps He) as EU.
  unfold opR in EL, EU. split.
  - rewrite EL. exact EU.
  - intros b u a E. unfold product2R in E. injection E as <- <- <-. exact EL.
Qed.

Lemma product2_transpose eps b0 u0 a0 b1 u1 a1 b u a :
  0 <= eps <= 1/8 -> wf_opinion b0 u0 a0 -> wf_opinion b1 u1 a1 ->
  product2R b0 u0 a0 b1 u1 a1 = (b, u, a) ->
  let n0 := length b0 in let n1 := length b1 in
  product2R b1 u1 a1 b0 u0 a0 = (transposeR n0 n1 b, u, transposeR n0 n1 a) /\
  product2 (B:=FldR) eps (map Some b1, Some u1, map Some a1) (map Some b0, Some u0, map Some a0)
    = Some (map Some (transposeR n0 n1 b), Some u, map Some (transposeR n0 n1 a)) /\
  product2_lab (B:=FldR) (map Some b1, Some u1, map Some a1) (map Some b0, Some u0, map Some a0)
    = (map Some (transposeR n0 n1 b), Some u, map Some (transposeR n0 n1 a)).
Proof.
  intros He W0 W1 E n0 n1.
  pose proof (product2R_swap b0 u0 a0 b1 u1 a1 W0 W1) as S. rewrite E in S. fold n0 n1 in S.
  split; [exact S|].
  pose proof (product2_eval b1 u1 a1 b0 u0 a0 W1 W0 eps He) as EU.
  pose proof (product2_lab_eval b1 u1 a1 b0 u0 a0 W1 W0) as EL.
  unfold product2R in S. injection S as S1 S2 S3. rewrite S1, S2, S3 in EU, EL.
  split; [exact EU|exact EL].
Qed.

Lemma product2_vacuous eps b0 a0 b1 a1 :
  0 <= eps <= 1/8 -> wf_opinion b0 1 a0 -> wf_opinion b1 1 a1 ->
  product2 (B:=FldR) eps (map Some b0, Some 1, map Some a0) (map Some b1, Some 1, map Some a1)
  = Some (map Some (map (fun _ => 0) (outerR a0 a1)), Some 1, map Some (outerR a0 a1)).
Proof.
  intros He W0 W1. pose proof (product2_eval b0 1 a0 b1 1 a1 W0 W1 eps He) as EU.
  pose proof (product2R_vacuous b0 a0 b1 a1 W0 W1) as S.
  unfold product2R in S. injection S as S1 S2. rewrite S1, S2 in EU. exact EU.
Qed.

Lemma product2_dogmatic eps b0 a0 b1 a1 :
  0 <= eps <= 1/8 -> wf_opinion b0 0 a0 -> wf_opinion b1 0 a1 ->
  product2 (B:=FldR) eps (map Some b0, Some 0, map Some a0) (map Some b1, Some 0, map Some a1)
  = Some (map Some (outerR b0 b1), Some 0, map Some (outerR a0 a1)).
Proof.
  intros He W0 W1. pose proof (product2_eval b0 0 a0 b1 0 a1 W0 W1 eps He) as EU.
  pose proof (product2R_dogmatic b0 a0 b1 a1 W0 W1) as S.
  unfold product2R in S. injection S as S1 S2. rewrite S1, S2 in EU. exact EU.
Qed.

Lemma product3_spec eps b0 u0 a0 b1 u1 a1 b2 u2 a2 b u a :
  0 <= eps <= 1/8 -> wf_opinion b0 u0 a0 -> wf_opinion b1 u1 a1 -> wf_opinion b2 u2 a2 ->
  product3R b0 u0 a0 b1 u1 a1 b2 u2 a2 = (b, u, a) ->
  let n0 := length b0 in let n1 := length b1 in let n2 := length b2 in
  let P0 := projR b0 u0 a0 in let P1 := projR b1 u1 a1 in let P2 := projR b2 u2 a2 in
  product3 (B:=FldR) eps (map Some b0, Some u0, map Some a0) (map Some b1, Some u1, map Some a1)
           (map Some b2, Some u2, map Some a2)
    = Some (map Some b, Some u, map Some a) /\
  product3_lab (B:=FldR) (map Some b0, Some u0, map Some a0) (map Some b1, Some u1, map Some a1)
           (map Some b2, Some u2, map Some a2)
    = (map Some b, Some u, map Some a) /\
  wf_opinion b u a /\
  a = outer3R a0 a1 a2 /\
  projR b u a = outer3R P0 P1 P2 /\
  (forall i j k, (i < n0)%nat -> (j < n1)%nat -> (k < n2)%nat ->
     let d := ((i * n1 + j) * n2 + k)%nat in
     nth d b 0 + nth i a0 0 * nth j a1 0 * nth k a2 0 * u = nth i P0 0 * nth j P1 0 * nth k P2 0 /\
     nth i b0 0 * nth j b1 0 * nth k b2 0 <= nth d b 0 /\
     u * (nth i a0 0 * nth j a1 0 * nth k a2 0)
       <= nth i P0 0 * nth j P1 0 * nth k P2 0 - nth i b0 0 * nth j b1 0 * nth k b2 0) /\
  (exists i j k, (i < n0)%nat /\ (j < n1)%nat /\ (k < n2)%nat /\
     0 < nth i a0 0 * nth j a1 0 * nth k a2 0 /\
     u * (nth i a0 0 * nth j a1 0 * nth k a2 0)
       = nth i P0 0 * nth j P1 0 * nth k P2 0 - nth i b0 0 * nth j b1 0 * nth k b2 0) /\
  (forall v, (forall i j k, (i < n0)%nat -> (j < n1)%nat -> (k < n2)%nat ->
       nth i b0 0 * nth j b1 0 * nth k b2 0
       <= nth i P0 0 * nth j P1 0 * nth k P2 0 - nth i a0 0 * nth j a1 0 * nth k a2 0 * v) -> v <= u).
Proof.
  intros He W0 W1 W2 E. cbv zeta. unfold product3R in E. injection E as <- <- <-.
  split; [exact (product3_eval b0 u0 a0 b1 u1 a1 b2 u2 a2 W0 W1 W2 eps He)|].
  split; [exact (product3_lab_eval b0 u0 a0 b1 u1 a1 b2 u2 a2 W0 W1 W2)|].
  split; [exact (three_wf_opinion b0 u0 a0 b1 u1 a1 b2 u2 a2 W0 W1 W2)|].
  split; [reflexivity|].
  split; [exact (three_projection b0 u0 a0 b1 u1 a1 b2 u2 a2 W0 W1 W2)|].
  split.
  { intros i j k Hi Hj Hk. split; [|split].
    - rewrite (three_cell_b b0 u0 a0 b1 u1 a1 b2 u2 a2 W0 W1 W2 i j k Hi Hj Hk). lra.
    - exact (three_b_ge b0 u0 a0 b1 u1 a1 b2 u2 a2 W0 W1 W2 i j k Hi Hj Hk).
    - exact (three_u_bound b0 u0 a0 b1 u1 a1 b2 u2 a2 W0 W1 W2 i j k Hi Hj Hk). }
  split; [exact (three_u_attained b0 u0 a0 b1 u1 a1 b2 u2 a2 W0 W1 W2)|].
  exact (three_maximal b0 u0 a0 b1 u1 a1 b2 u2 a2 W0 W1 W2).
Qed.

Lemma product3_vacuous eps b0 a0 b1 a1 b2 a2 :
  0 <= eps <= 1/8 -> wf_opinion b0 1 a0 -> wf_opinion b1 1 a1 -> wf_opinion b2 1 a2 ->
  product3 (B:=FldR) eps (map Some b0, Some 1, map Some a0) (map Some b1, Some 1, map Some a1)
           (map Some b2, Some 1, map Some a2)
  = Some (map Some (map (fun _ => 0) (outer3R a0 a1 a2)), Some 1, map Some (outer3R a0 a1 a2)).
Proof.
  intros He W0 W1 W2. pose proof (product3_eval b0 1 a0 b1 1 a1 b2 1 a2 W0 W1 W2 eps He) as EU.
  pose proof (product3R_vacuous b0 a0 b1 a1 b2 a2 W0 W1 W2) as S.
  unfold product3R in S. injection S as S1 S2. rewrite S1, S2 in EU. exact EU.
Qed.

Lemma product3_dogmatic eps b0 a0 b1 a1 b2 a2 :
  0 <= eps <= 1/8 -> wf_opinion b0 0 a0 -> wf_opinion b1 0 a1 -> wf_opinion b2 0 a2 ->
  product3 (B:=FldR) eps (map Some b0, Some 0, map Some a0) (map Some b1, Some 0, map Some a1)
           (map Some b2, Some 0, map Some a2)
  = Some (map Some (outer3R b0 b1 b2), Some 0, map Some (outer3R a0 a1 a2)).
Proof.
  intros He W0 W1 W2. pose proof (product3_eval b0 0 a0 b1 0 a1 b2 0 a2 W0 W1 W2 eps He) as EU.
  pose proof (product3R_dogmatic b0 a0 b1 a1 b2 a2 W0 W1 W2) as S.
  unfold product3R in S. injection S as S1 S2. rewrite S1, S2 in EU. exact EU.
Qed.

(* --------------------------------- three factors: permuting the factors permutes the cells *)
Section Swap3.
Variables (b0 : list R) (u0 : R) (a0 : list R) (b1 : list R) (u1 : R) (a1 : list R)
          (b2 : list R) (u2 : R) (a2 : list R).
Hypothesis W0 : wf_opinion b0 u0 a0.
Hypothesis W1 : wf_opinion b1 u1 a1.
Hypothesis W2 : wf_opinion b2 u2 a2.

Lemma three_u_swap01 :
  snd (fst (product3R b1 u1 a1 b0 u0 a0 b2 u2 a2)) = snd (fst (product3R b0 u0 a0 b1 u1 a1 b2 u2 a2)).
Proof.
  unfold product3R; cbn [fst snd].
  destruct (three_u_attained b0 u0 a0 b1 u1 a1 b2 u2 a2 W0 W1 W2) as (i & j & k & Hi & Hj & Hk & Hp & E).
  destruct (three_u_attained b1 u1 a1 b0 u0 a0 b2 u2 a2 W1 W0 W2) as (j' & i' & k' & Hj' & Hi' & Hk' & Hp' & E').
  pose proof (three_u_bound b1 u1 a1 b0 u0 a0 b2 u2 a2 W1 W0 W2 j i k Hj Hi Hk) as B1.
  pose proof (three_u_bound b0 u0 a0 b1 u1 a1 b2 u2 a2 W0 W1 W2 i' j' k' Hi' Hj' Hk') as B2.
  apply Rle_antisym.
  - apply (Rmult_le_reg_r (nth i a0 0 * nth j a1 0 * nth k a2 0)); [exact Hp|]. nra.
  - apply (Rmult_le_reg_r (nth j' a1 0 * nth i' a0 0 * nth k' a2 0)); [exact Hp'|]. nra.
Qed.

Lemma three_u_swap12 :
  snd (fst (product3R b0 u0 a0 b2 u2 a2 b1 u1 a1)) = snd (fst (product3R b0 u0 a0 b1 u1 a1 b2 u2 a2)).
Proof.
  unfold product3R; cbn [fst snd].
  destruct (three_u_attained b0 u0 a0 b1 u1 a1 b2 u2 a2 W0 W1 W2) as (i & j & k & Hi & Hj & Hk & Hp & E).
  destruct (three_u_attained b0 u0 a0 b2 u2 a2 b1 u1 a1 W0 W2 W1) as (i' & k' & j' & Hi' & Hk' & Hj' & Hp' & E').
  pose proof (three_u_bound b0 u0 a0 b2 u2 a2 b1 u1 a1 W0 W2 W1 i k j Hi Hk Hj) as B1.
  pose proof (three_u_bound b0 u0 a0 b1 u1 a1 b2 u2 a2 W0 W1 W2 i' j' k' Hi' Hj' Hk') as B2.
  apply Rle_antisym.
  - apply (Rmult_le_reg_r (nth i a0 0 * nth j a1 0 * nth k a2 0)); [exact Hp|]. nra.
  - apply (Rmult_le_reg_r (nth i' a0 0 * nth k' a2 0 * nth j' a1 0)); [exact Hp'|]. nra.
Qed.

Lemma three_len_b : length (fst (fst (product3R b0 u0 a0 b1 u1 a1 b2 u2 a2)))
  = (length b0 * length b1 * length b2)%nat.
Proof.
  unfold product3R; cbn [fst].
  rewrite (core_b_length _ _ _ (three_core b0 u0 a0 b1 u1 a1 b2 u2 a2 W0 W1 W2)).
  exact (three_lenP b0 u0 a0 b1 u1 a1 b2 u2 a2 W0 W1 W2).
Qed.

End Swap3.

Lemma product3_swap01 b0 u0 a0 b1 u1 a1 b2 u2 a2 b u a b' u' a' :
  wf_opinion b0 u0 a0 -> wf_opinion b1 u1 a1 -> wf_opinion b2 u2 a2 ->
  product3R b0 u0 a0 b1 u1 a1 b2 u2 a2 = (b, u, a) ->
  product3R b1 u1 a1 b0 u0 a0 b2 u2 a2 = (b', u', a') ->
  let n0 := length b0 in let n1 := length b1 in let n2 := length b2 in
  u' = u /\ length b' = length b /\ length a' = length a /\
  forall i j k, (i < n0)%nat -> (j < n1)%nat -> (k < n2)%nat ->
    nth ((j * n0 + i) * n2 + k) b' 0 = nth ((i * n1 + j) * n2 + k) b 0 /\
    nth ((j * n0 + i) * n2 + k) a' 0 = nth ((i * n1 + j) * n2 + k) a 0.
Proof.
  intros W0 W1 W2 E E'. cbv zeta.
  pose proof (three_u_swap01 b0 u0 a0 b1 u1 a1 b2 u2 a2 W0 W1 W2) as EU.
  pose proof (three_len_b b0 u0 a0 b1 u1 a1 b2 u2 a2 W0 W1 W2) as L.
  pose proof (three_len_b b1 u1 a1 b0 u0 a0 b2 u2 a2 W1 W0 W2) as L'.
  pose proof (three_wf_opinion b0 u0 a0 b1 u1 a1 b2 u2 a2 W0 W1 W2) as (_ & _ & LA).
  pose proof (three_wf_opinion b1 u1 a1 b0 u0 a0 b2 u2 a2 W1 W0 W2) as (_ & _ & LA').
  cbv zeta in LA, LA'.
  pose proof (three_cell_b b0 u0 a0 b1 u1 a1 b2 u2 a2 W0 W1 W2) as C.
  pose proof (three_cell_b b1 u1 a1 b0 u0 a0 b2 u2 a2 W1 W0 W2) as C'.
  pose proof (three_cell_A b0 u0 a0 b1 u1 a1 b2 u2 a2 W0 W1 W2) as CA.
  pose proof (three_cell_A b1 u1 a1 b0 u0 a0 b2 u2 a2 W1 W0 W2) as CA'.
  rewrite E, E' in *. cbn [fst snd] in *. unfold product3R in E, E'.
  injection E as Eb Eu Ea. injection E' as Eb' Eu' Ea'.
  rewrite Eb, Eu, Ea in *. rewrite Eb', Eu', Ea' in *.
  split; [exact EU|]. split; [lia|]. split; [lia|].
  intros i j k Hi Hj Hk. rewrite C, C', CA, CA' by assumption. rewrite EU. split; ring.
Qed.

Lemma product3_swap12 b0 u0 a0 b1 u1 a1 b2 u2 a2 b u a b' u' a' :
  wf_opinion b0 u0 a0 -> wf_opinion b1 u1 a1 -> wf_opinion b2 u2 a2 ->
  product3R b0 u0 a0 b1 u1 a1 b2 u2 a2 = (b, u, a) ->
  product3R b0 u0 a0 b2 u2 a2 b1 u1 a1 = (b', u', a') ->
  let n0 := length b0 in let n1 := length b1 in let n2 := length b2 in
  u' = u /\ length b' = length b /\ length a' = length a /\
  forall i j k, (i < n0)%nat -> (j < n1)%nat -> (k < n2)%nat ->
    nth ((i * n2 + k) * n1 + j) b' 0 = nth ((i * n1 + j) * n2 + k) b 0 /\
    nth ((i * n2 + k) * n1 + j) a' 0 = nth ((i * n1 + j) * n2 + k) a 0.
Proof.
  intros W0 W1 W2 E E'. cbv zeta.
  pose proof (three_u_swap12 b0 u0 a0 b1 u1 a1 b2 u2 a2 W0 W1 W2) as EU.
  pose proof (three_len_b b0 u0 a0 b1 u1 a1 b2 u2 a2 W0 W1 W2) as L.
  pose proof (three_len_b b0 u0 a0 b2 u2 a2 b1 u1 a1 W0 W2 W1) as L'.
  pose proof (three_wf_opinion b0 u0 a0 b1 u1 a1 b2 u2 a2 W0 W1 W2) as (_ & _ & LA).
  pose proof (three_wf_opinion b0 u0 a0 b2 u2 a2 b1 u1 a1 W0 W2 W1) as (_ & _ & LA').
  cbv zeta in LA, LA'.
  pose proof (three_cell_b b0 u0 a0 b1 u1 a1 b2 u2 a2 W0 W1 W2) as C.
  pose proof (three_cell_b b0 u0 a0 b2 u2 a2 b1 u1 a1 W0 W2 W1) as C'.
  pose proof (three_cell_A b0 u0 a0 b1 u1 a1 b2 u2 a2 W0 W1 W2) as CA.
  pose proof (three_cell_A b0 u0 a0 b2 u2 a2 b1 u1 a1 W0 W2 W1) as CA'.
  rewrite E, E' in *. cbn [fst snd] in *. unfold product3R in E, E'.
  injection E as Eb Eu Ea. injection E' as Eb' Eu' Ea'.
  rewrite Eb, Eu, Ea in *. rewrite Eb', Eu', Ea' in *.
  split; [exact EU|]. split; [lia|]. split; [lia|].
  intros i j k Hi Hj Hk. rewrite C, C', CA, CA' by assumption. rewrite EU. split; ring.
Qed.

(* --------------------------------------- the uncertainty is never negative *)
(* Whatever the operands (finite or not, well-formed or not): the smallest quotient is clamped at 0, so the
   uncertainty computed by the four products is either undefined (NaN) or >= 0. *)
Definition nonneg_u (o : @opinion FldR) : Prop :=
  match snd (fst o) with Some u => 0 <= u | None => True end.

Lemma product_core_u_nonneg (p bb a : list RV) :
  match snd (product_core (B:=FldR) p bb a) with Some u => 0 <= u | None => True end.
Proof.
  unfold product_core; cbv zeta; cbn [snd].
  destruct (vmin _) as [m|]; [|exact I].
  change (@zero FldR) with (Some 0 : RV). rewrite ltb_some.
  destruct (Rltb_spec m 0) as [H|H]; lra.
Qed.

Lemma products_u_nonneg eps (w0 w1 w2 : @opinion FldR) :
  (forall o, product2 eps w0 w1 = Some o -> nonneg_u o) /\ nonneg_u (product2_lab w0 w1) /\
  (forall o, product3 eps w0 w1 w2 = Some o -> nonneg_u o) /\ nonneg_u (product3_lab w0 w1 w2).
Proof.
  destruct w0 as [[b0 u0] a0], w1 as [[b1 u1] a1], w2 as [[b2 u2] a2].
  unfold product2, product2_lab, product3, product3_lab, nonneg_u.
  repeat split.
  - intros o. pose proof (product_core_u_nonneg (outer (projection b0 u0 a0) (projection b1 u1 a1))
                            (outer b0 b1) (outer a0 a1)) as H.
    destruct (product_core _ _ _) as [b u]. destruct (_ && _); [|discriminate].
    intros E; injection E as <-. exact H.
  - pose proof (product_core_u_nonneg (outer (projection b0 u0 a0) (projection b1 u1 a1))
                  (outer b0 b1) (outer a0 a1)) as H.
    destruct (product_core _ _ _) as [b u]. exact H.
  - intros o. pose proof (product_core_u_nonneg
                            (outer3 (projection b0 u0 a0) (projection b1 u1 a1) (projection b2 u2 a2))
                            (outer3 b0 b1 b2) (outer3 a0 a1 a2)) as H.
    destruct (product_core _ _ _) as [b u]. destruct (_ && _); [|discriminate].
    intros E; injection E as <-. exact H.
  - pose proof (product_core_u_nonneg
                  (outer3 (projection b0 u0 a0) (projection b1 u1 a1) (projection b2 u2 a2))
                  (outer3 b0 b1 b2) (outer3 a0 a1 a2)) as H.
    destruct (product_core _ _ _) as [b u]. exact H.
Qed.
