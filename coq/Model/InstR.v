(* Proof instance: Coq's real numbers with decided comparisons. *)
From Coq Require Import Reals.
From SL Require Import Model.Num.

Definition Rleb (a b : R) : bool := if Rle_dec a b then true else false.
Definition Rltb (a b : R) : bool := if Rlt_dec a b then true else false.
Definition Reqb (a b : R) : bool := if Req_EM_T a b then true else false.

Definition FldR : Fld :=
  mkFld R 0%R 1%R Rplus Rminus Rmult Rdiv Rleb Rltb Reqb.
