(* Multinomial operators: mirrors src/mul.rs (+ the products of
   src/mul/non_labeled.rs and src/mul/labeled.rs) function by function.
   No proofs in this file.

   A simplex is (belief vector, uncertainty); an opinion is (belief, u, base rate).
   A domain is {0..n-1}; a 2-D or 3-D domain is flattened in row-major order. *)
From Coq Require Import List Bool.
Import ListNotations.
From SL Require Import Model.Num Model.Vec.

Inductive fuse_op : Type := ACm | ECm | Avg | Wgh.

Section Mul.
Context {B : Fld}.
Variable eps : F B.
Notation V := (@V B).
Notation is_zero := (is_zero eps).
Notation is_one := (is_one eps).
Notation aeq := (aeq eps).

Definition simplex : Type := (list V * V)%type.
Definition opinion : Type := (list V * V * list V)%type.

Definition bel (s : simplex) : list V := fst s.
Definition unc (s : simplex) : V := snd s.

(* Simplex::normalized *)
Definition normalized (b : list V) (u : V) : simplex :=
  let s := add (vsum b) u in
  (map (fun x => div x s) b, div u s).

(* normalize_prob_dist *)
Definition normalize_dist (p : list V) : list V :=
  let s := vsum p in map (fun x => div x s) p.

(* Projection::projection *)
Definition projection (b : list V) (u : V) (a : list V) : list V :=
  normalize_dist (map2 (fun bi ai => add bi (mul ai u)) b a).

(* MaxUncertainty::max_uncertainty: both "is_zero(a[i])" branches yield one *)
Definition max_uncertainty (b : list V) (u : V) (a : list V) : V :=
  let p := projection b u a in
  fold_left (fun acc pa =>
               nmin acc (if is_zero (snd pa) then one else div (fst pa) (snd pa)))
            (combine p a) one.

(* MaxUncertainty::uncertainty_maximized *)
Definition uncertainty_maximized (b : list V) (u : V) (a : list V) : simplex :=
  let p := projection b u a in
  let um := max_uncertainty b u a in
  (map2 (fun pi ai => sub pi (mul ai um)) p a, um).

(* Discount::discount for Simplex *)
Definition discount (b : list V) (u : V) (t : V) : simplex :=
  if is_one u then (map (fun _ => zero) b, one)
  else (map (fun bi => mul bi t) b, sub one (mul t (sub one u))).

(* ---------------------------------------------------------------- fusion *)

Definition cum_like (op : fuse_op) : bool :=
  match op with ACm | ECm => true | _ => false end.

(* compute_simlex *)
Definition compute_simplex (op : fuse_op) (l r : simplex) : simplex :=
  let '(lb, lu) := l in
  let '(rb, ru) := r in
  let ldog := is_zero lu in let rdog := is_zero ru in
  let lvac := is_one lu in let rvac := is_one ru in
  if ldog && rdog then
    normalized (map2 (fun x y => div (add x y) two) lb rb) zero
  else
    match op with
    | ACm | ECm =>
        if lvac && rvac then (map (fun _ => zero) lb, one)
        else if lvac || rdog then r
        else if rvac || ldog then l
        else
          let temp := sub (add lu ru) (mul lu ru) in
          normalized
            (map2 (fun x y => div (add (mul x ru) (mul y lu)) temp) lb rb)
            (div (mul lu ru) temp)
    | Avg =>
        if ldog then l
        else if rdog then r
        else
          let temp := add lu ru in
          normalized
            (map2 (fun x y => div (add (mul x ru) (mul y lu)) temp) lb rb)
            (div (mul (mul two lu) ru) temp)
    | Wgh =>
        if lvac && rvac then (map (fun _ => zero) lb, one)
        else if lvac || rdog then r
        else if rvac || ldog then l
        else
          let lsb := sub one lu in
          let rsb := sub one ru in
          let temp := add (mul ru lsb) (mul lu rsb) in
          normalized
            (map2 (fun x y => div (add (mul (mul x lsb) ru) (mul (mul y rsb) lu)) temp) lb rb)
            (div (mul (mul (add lsb rsb) lu) ru) temp)
    end.

Definition mean_or_same (la ra : list V) : list V :=
  map2 (fun x y => if aeq x y then x else div (add x y) two) la ra.

(* compute_base_rate; [same] is the std::ptr::eq shortcut *)
Definition compute_base_rate (op : fuse_op) (same : bool)
           (lu : V) (la : list V) (ru : V) (ra : list V) : list V :=
  let ldog := is_zero lu in let rdog := is_zero ru in
  let lvac := is_one lu in let rvac := is_one ru in
  if same then la
  else if ldog && rdog then map2 (fun x y => div (add x y) two) la ra
  else
    match op with
    | ACm | ECm =>
        if lvac && rvac then mean_or_same la ra
        else if lvac || rdog then ra
        else if rvac || ldog then la
        else
          let lsb := sub one lu in
          let rsb := sub one ru in
          let temp := add (mul ru lsb) (mul lu rsb) in
          map2 (fun x y =>
                  if aeq x y then x
                  else div (add (mul (mul x ru) lsb) (mul (mul y lu) rsb)) temp) la ra
    | Avg => mean_or_same la ra
    | Wgh =>
        if lvac && rvac then mean_or_same la ra
        else if lvac then ra
        else if rvac then la
        else
          let lsb := sub one lu in
          let rsb := sub one ru in
          let temp := add lsb rsb in
          map2 (fun x y =>
                  if aeq x y then x
                  else div (add (mul x lsb) (mul y rsb)) temp) la ra
    end.

(* Fuse for OpinionRef x OpinionRef *)
Definition fuse (op : fuse_op) (same : bool) (l r : opinion) : opinion :=
  let '(lb, lu, la) := l in
  let '(rb, ru, ra) := r in
  let s := compute_simplex op (lb, lu) (rb, ru) in
  let a := compute_base_rate op same lu la ru ra in
  let s' := match op with
            | ECm => uncertainty_maximized (bel s) (unc s) a
            | _ => s
            end in
  (bel s', unc s', a).

(* Fuse for OpinionRef x &Simplex: the right operand borrows the left base rate *)
Definition fuse_simplex_rhs (op : fuse_op) (l : opinion) (r : simplex) : opinion :=
  let '(lb, lu, la) := l in
  fuse op true l (bel r, unc r, la).

(* Fuse for &Simplex x &Simplex; ECm panics: None *)
Definition fuse_simplexes (op : fuse_op) (l r : simplex) : option simplex :=
  match op with
  | ECm => None
  | _ => Some (compute_simplex op l r)
  end.

(* ------------------------------------------------- marginal base rate *)

(* mbr; [ny] = |Y| *)
Definition mbr (ny : nat) (ax : list V) (conds : list simplex) : option (list V) :=
  if forallb (fun c => is_one (unc c)) conds then None
  else
    let ay := tab ny (fun y => vsum (map2 (fun a c => mul a (get (bel c) y)) ax conds)) in
    let s := vsum ay in
    if eqb s zero then None
    else Some (map (fun a => div a s) ay).

(* ---------------------------------------------------------- deduction *)

Definition projections (conds : list simplex) (ay : list V) : list (list V) :=
  map (fun c => projection (bel c) (unc c) ay) conds.

(* deduce_of *)
Definition deduce_of (wx : opinion) (conds : list simplex) (ay : list V) : opinion :=
  let '(bx, ux, ax) := wx in
  let ny := length ay in
  let cond_p := projections conds ay in
  let pyhx := tab ny (fun y => vsum (map2 (fun a cp => mul a (get cp y)) ax cond_p)) in
  let uyhx :=
    vmin (tab ny (fun y =>
                    div (sub (get pyhx y) (vmin (map (fun c => get (bel c) y) conds)))
                        (get ay y))) in
  let u := sub uyhx (vsum (map2 (fun c bxi => mul (sub uyhx (unc c)) bxi) conds bx)) in
  let p := projection bx ux ax in
  let b := tab ny (fun y =>
                     sub (vsum (map2 (fun px cp => mul px (get cp y)) p cond_p))
                         (mul (get ay y) u)) in
  let s := normalized b u in
  (bel s, unc s, ay).

(* Deduction::deduce *)
Definition deduce (ny : nat) (wx : opinion) (conds : list simplex) : option opinion :=
  let '(_, _, ax) := wx in
  match mbr ny ax conds with
  | None => None
  | Some ay => Some (deduce_of wx conds ay)
  end.

(* Deduction::deduce_with: also reports whether the fallback closure ran *)
Definition deduce_with (ny : nat) (wx : opinion) (conds : list simplex)
           (fallback : list V) : opinion * bool :=
  let '(_, _, ax) := wx in
  match mbr ny ax conds with
  | None => (deduce_of wx conds fallback, true)
  | Some ay => (deduce_of wx conds ay, false)
  end.

(* ---------------------------------------------------------- inversion *)

(* InverseCondition::inverse: conds X -> Y (|X| simplexes over Y) to |Y| simplexes over X *)
Definition inverse (conds : list simplex) (ax ay : list V) : list simplex :=
  let ny := length ay in
  let p_yx := map (fun c => projection (bel c) (unc c) ay) conds in
  let u_yx := map (fun c => max_uncertainty (bel c) (unc c) ay) conds in
  let col := fun y => map (fun px => get px y) p_yx in
  let temp := tab ny (fun y =>
    if forallb is_zero (col y) then map (fun _ => one) (col y)
    else
      let q := vsum (map2 mul ax (col y)) in
      map (fun p => div p q) (col y)) in
  let p_xy := map (fun t => map2 mul t ax) temp in
  let irrelevance := tab ny (fun y => add (sub one (vmax (col y))) (vmin (col y))) in
  let max_u_xy := map vmin temp in
  let u_yx_sum := vsum u_yx in
  let weights := if eqb u_yx_sum zero then map (fun _ => zero) u_yx
                 else map (fun u => div u u_yx_sum) u_yx in
  let max_u_yx := map (fun px => vmin (map2 div px ay)) p_yx in
  let weighted := map3 (fun mu w u => if is_zero mu then zero else div (mul w u) mu)
                       max_u_yx weights u_yx in
  let wprop := vsum weighted in
  map3 (fun mu irr pxy =>
          let u := mul mu (sub (add wprop irr) (mul wprop irr)) in
          normalized (map2 (fun p a => sub p (mul u a)) pxy ax) u)
       max_u_xy irrelevance p_xy.

(* Abduction::abduce_with *)
Definition abduce_with (wy : simplex) (conds : list simplex) (ax ay : list V) : opinion :=
  deduce_of (bel wy, unc wy, ay) (inverse conds ax ay) ax.

(* Abduction::abduce *)
Definition abduce (wy : simplex) (conds : list simplex) (ax : list V) (ny : nat)
  : option opinion :=
  match mbr ny ax conds with
  | None => None
  | Some ay => Some (abduce_with wy conds ax ay)
  end.

(* ------------------------------------------------------------ products *)

(* multinomial check_simplex / check_base_rate / Opinion::try_new, in exact arithmetic *)
Definition check_simplex (b : list V) (u : V) : bool :=
  forallb (in_unit eps) b && in_unit eps u && is_one (add (vsum b) u).
Definition check_base_rate (a : list V) : bool :=
  forallb (in_unit eps) a && is_one (vsum a).

(* common part of Product2 *)
Definition product_core (p bb a : list V) : list V * V :=
  let m := vmin (map3 (fun pi bi ai => div (sub pi bi) ai) p bb a) in
  (* the smallest quotient is >= 0 in exact arithmetic; a negative rounding residue is clamped (NaN stays NaN) *)
  let u := if ltb m zero then zero else m in
  (map2 (fun pi ai => sub pi (mul ai u)) p a, u).

(* unlabelled Product2 (validated by Opinion::new: None = panic) *)
Definition product2 (w0 w1 : opinion) : option opinion :=
  let '(b0, u0, a0) := w0 in
  let '(b1, u1, a1) := w1 in
  let p := outer (projection b0 u0 a0) (projection b1 u1 a1) in
  let a := outer a0 a1 in
  let '(b, u) := product_core p (outer b0 b1) a in
  if check_simplex b u && check_base_rate a then Some (b, u, a) else None.

(* labelled Product2 (Opinion::normalized renormalises the base rate, no validation) *)
Definition product2_lab (w0 w1 : opinion) : opinion :=
  let '(b0, u0, a0) := w0 in
  let '(b1, u1, a1) := w1 in
  let p := outer (projection b0 u0 a0) (projection b1 u1 a1) in
  let a := outer a0 a1 in
  let '(b, u) := product_core p (outer b0 b1) a in
  (b, u, normalize_dist a).

Definition product3 (w0 w1 w2 : opinion) : option opinion :=
  let '(b0, u0, a0) := w0 in
  let '(b1, u1, a1) := w1 in
  let '(b2, u2, a2) := w2 in
  let p := outer3 (projection b0 u0 a0) (projection b1 u1 a1) (projection b2 u2 a2) in
  let a := outer3 a0 a1 a2 in
  let '(b, u) := product_core p (outer3 b0 b1 b2) a in
  if check_simplex b u && check_base_rate a then Some (b, u, a) else None.

Definition product3_lab (w0 w1 w2 : opinion) : opinion :=
  let '(b0, u0, a0) := w0 in
  let '(b1, u1, a1) := w1 in
  let '(b2, u2, a2) := w2 in
  let p := outer3 (projection b0 u0 a0) (projection b1 u1 a1) (projection b2 u2 a2) in
  let a := outer3 a0 a1 a2 in
  let '(b, u) := product_core p (outer3 b0 b1 b2) a in
  (b, u, normalize_dist a).

(* ------------------------------------------------------------- merging *)

(* MergeJointConditions2::merge_cond2; [lab] selects the labelled product.
   Result: |X1|*|X2| simplexes over Y (row-major in (x1,x2)); None = a product panicked. *)
Definition merge_cond2 (lab : bool) (y_x1 y_x2 : list simplex) (ax1 ax2 ay : list V)
  : option (list simplex) :=
  let ny := length ay in
  let ay1 := match mbr ny ax1 y_x1 with Some m => m | None => ay end in
  let ay2 := match mbr ny ax2 y_x2 with Some m => m | None => ay end in
  let x1_y := inverse y_x1 ax1 ay1 in
  let x2_y := inverse y_x2 ax2 ay2 in
  let prods := map2 (fun s1 s2 =>
                       if lab then
                         let '(b, u, _) := product2_lab (bel s1, unc s1, ax1) (bel s2, unc s2, ax2) in
                         Some (b, u)
                       else
                         match product2 (bel s1, unc s1, ax1) (bel s2, unc s2, ax2) with
                         | Some (b, u, _) => Some (b, u)
                         | None => None
                         end) x1_y x2_y in
  if forallb (fun o => match o with Some _ => true | None => false end) prods then
    let x12_y := flat_map (fun o => match o with Some s => [s] | None => [] end) prods in
    let n12 := (length ax1 * length ax2)%nat in
    let ax12 := match mbr n12 ay x12_y with Some m => m | None => outer ax1 ax2 end in
    Some (inverse x12_y ay ax12)
  else None.

End Mul.
