(* Bit-exact model of the crate's checked constructors on IEEE-754 floats (Flocq 4.1).
   Mirrors src/approx_ext.rs, src/errors.rs, src/bi.rs:36-155, src/mul.rs:94-116,208-230,453-486,
   src/mul/non_labeled.rs:51-73, src/mul/labeled.rs:22-63 and the f32/f64 instances of
   approx-0.5.1 (abs_diff_eq.rs, ulps_eq.rs, macros.rs).  No proofs here (the two [eq_refl]
   at the end are the side conditions 0 < prec < emax of the two formats).

   Floats are Flocq's [BinarySingleNaN.binary_float prec emax] (one NaN: no decision below
   depends on a NaN payload).  Rounding is to nearest even.  This file does not use the
   polymorphic [Num] model. *)
From Coq Require Import ZArith List Bool.
From Flocq Require Import Core.Core IEEE754.Binary IEEE754.Bits IEEE754.BinarySingleNaN.
Import ListNotations.
Open Scope Z_scope.

Section Chk.
Variables prec emax : Z.
Context (prec_gt_0_ : Prec_gt_0 prec).
Context (prec_lt_emax_ : Prec_lt_emax prec emax).

Notation float := (BinarySingleNaN.binary_float prec emax).

(* ---- constants ---- *)
Definition fzero : float := B754_zero false.                       (* V::zero() = +0.0 *)
Definition fone : float := Bone.                                   (* V::one() *)
Definition feps : float := Bldexp mode_NE Bone (1 - prec).         (* f32/f64::EPSILON = 2^(1-prec) *)
Definition max_ulps : Z := 4.                                      (* UlpsEq::default_max_ulps() *)

(* ---- to_bits (prec = mw + 1, 2^ew = 2 * emax): sign * 2^(mw+ew) + biased_exponent * 2^mw + fraction.
   The NaN case is never consulted by a decision (signum of NaN is NaN); it is the quiet NaN
   with zero payload. ---- *)
Definition join (s : bool) (m e : Z) : Z :=
  ((if s then 2 * emax else 0) + e) * 2 ^ (prec - 1) + m.
Definition bits_of (x : float) : Z :=
  match x with
  | B754_zero s => join s 0 0
  | B754_infinity s => join s 0 (2 * emax - 1)
  | B754_nan => join false (2 ^ (prec - 2)) (2 * emax - 1)
  | B754_finite s m e _ =>
      let f := Zpos m - 2 ^ (prec - 1) in
      if 0 <=? f then join s f (e - (3 - emax - prec) + 1) else join s (Zpos m) 0
  end.

(* ---- float primitives used by approx: -, +, abs, <=, signum comparison ---- *)
Definition fsub (x y : float) : float := Bminus mode_NE x y.
Definition fadd (x y : float) : float := Bplus mode_NE x y.
Definition fle (x y : float) : bool := Bleb x y.                   (* false when either is NaN *)
(* a.signum() == b.signum(): signum is NaN on NaN, otherwise +-1 by the sign bit (+0.0 -> 1, -0.0 -> -1) *)
Definition signum_eq (x y : float) : bool :=
  negb (is_nan x) && negb (is_nan y) && Bool.eqb (Bsign x) (Bsign y).

(* approx: impl_signed_abs_diff_eq!(f32/f64):  T::abs(self - other) <= epsilon *)
Definition abs_diff_eq (x y e : float) : bool := fle (Babs (fsub x y)) e.

(* approx: impl_ulps_eq!(f32/f64) *)
Definition ulps_eq_with (x y e : float) (k : Z) : bool :=
  if abs_diff_eq x y e then true
  else if negb (signum_eq x y) then false
  else Z.abs (bits_of x - bits_of y) <=? k.

(* ulps_eq!(x, y): default epsilon and default max_ulps *)
Definition ulps_eq (x y : float) : bool := ulps_eq_with x y feps max_ulps.

(* ---- src/approx_ext.rs ---- *)
Definition is_in_range (v from to : float) : bool :=
  (fle from v && fle v to) || ulps_eq v from || ulps_eq v to.      (* v >= from && v <= to || ... *)
Definition in_unit_interval (v : float) : bool := is_in_range v fzero fone.
Definition is_one (v : float) : bool := ulps_eq v fone.
Definition is_zero (v : float) : bool := ulps_eq v fzero.

(* ---- src/errors.rs: Ok(()) or Err; the error remembers the rejected value (this is what the
   verification hook [verif::take_last_rejected] observes) ---- *)
Inductive chk : Type := Pass | Fail (rejected : float).
Definition passes (c : chk) : bool := match c with Pass => true | Fail _ => false end.
Definition check_unit_interval (v : float) : chk := if in_unit_interval v then Pass else Fail v.
Definition check_is_one (v : float) : chk := if is_one v then Pass else Fail v.
(* the [?] operator *)
Definition andthen (c : chk) (k : chk) : chk := match c with Pass => k | Fail v => Fail v end.

(* ---- src/bi.rs:36-54 ---- *)
Definition bcheck_simplex (b d u : float) : chk :=
  andthen (check_is_one (fadd (fadd b d) u))
 (andthen (check_unit_interval b)
 (andthen (check_unit_interval d)
          (check_unit_interval u))).
Definition bcheck_base_rate (a : float) : chk := check_unit_interval a.

Inductive result (A : Type) : Type := Ok (x : A) | Err (rejected : float).
Arguments Ok {A} x.
Arguments Err {A} rejected.
Inductive outcome (A : Type) : Type := Returns (x : A) | Panics.
Arguments Returns {A} x.
Arguments Panics {A}.
Definition unwrap {A} (r : result A) : outcome A :=
  match r with Ok x => Returns x | Err _ => Panics end.
Definition is_ok {A} (r : result A) : bool := match r with Ok _ => true | Err _ => false end.
Definition guard {A} (c : chk) (k : result A) : result A :=
  match c with Pass => k | Fail v => Err v end.

(* BSimplex::try_new / new (bi.rs:70-81): the stored value is ([b, d], u) *)
Definition bsimplex_try_new (b d u : float) : result (float * float * float) :=
  guard (bcheck_simplex b d u) (Ok (b, d, u)).
Definition bsimplex_new (b d u : float) := unwrap (bsimplex_try_new b d u).

(* BOpinion::try_new / new (bi.rs:141-155): base rate first, then BSimplex::try_new *)
Definition bop_try_new (b d u a : float) : result (float * float * float * float) :=
  guard (bcheck_base_rate a)
    (match bsimplex_try_new b d u with
     | Ok (b', d', u') => Ok (b', d', u', a)
     | Err v => Err v
     end).
Definition bop_new (b d u a : float) := unwrap (bop_try_new b d u a).

(* ---- src/mul.rs:453-486.  The loop range-checks each entry, then accumulates it
   (sum += x), left to right from V::zero() in index order (Container::iter_with). ---- *)
Fixpoint check_acc (l : list float) (s : float) : result float :=
  match l with
  | [] => Ok s
  | x :: r => guard (check_unit_interval x) (check_acc r (fadd s x))
  end.
Definition check_simplex (b : list float) (u : float) : chk :=
  match check_acc b fzero with
  | Err v => Fail v
  | Ok sum_b => andthen (check_unit_interval u) (check_is_one (fadd sum_b u))
  end.
Definition check_base_rate (a : list float) : chk :=
  match check_acc a fzero with
  | Err v => Fail v
  | Ok sum_a => check_is_one sum_a
  end.

(* Simplex::try_new / new (mul.rs:94-116); TryFrom<([V;N],V)> and TryFrom<(Vec<V>,V)> forward
   to it on the same data (non_labeled.rs:51-60, labeled.rs:22-31) *)
Definition simplex_try_new (b : list float) (u : float) : result (list float * float) :=
  guard (check_simplex b u) (Ok (b, u)).
Definition simplex_new b u := unwrap (simplex_try_new b u).
Definition simplex_try_from (v : list float * float) := simplex_try_new (fst v) (snd v).

(* Opinion::try_new / new (mul.rs:208-230); TryFrom<(Vec<V>,V,Vec<V>)> forwards (labeled.rs:52-63) *)
Definition opinion_try_new (b : list float) (u : float) (a : list float)
  : result (list float * float * list float) :=
  guard (check_simplex b u) (guard (check_base_rate a) (Ok (b, u, a))).
Definition opinion_new b u a := unwrap (opinion_try_new b u a).
Definition opinion_try_from (v : list float * float * list float) :=
  opinion_try_new (fst (fst v)) (snd (fst v)) (snd v).

(* Simplex1d::into_opinion (non_labeled.rs:62-73): only the base rate is checked; the simplex
   is an already constructed value *)
Definition into_opinion (s : list float * float) (a : list float)
  : result (list float * float * list float) :=
  guard (check_base_rate a) (Ok (fst s, snd s, a)).

(* mul.rs:50-62 (and the delegating forms at 169-181, 294-306) *)
Definition is_vacuous (u : float) : bool := is_one u.
Definition is_dogmatic (u : float) : bool := is_zero u.

End Chk.

Arguments Pass {prec emax}.
Arguments Fail {prec emax} rejected.
Arguments Ok {prec emax A} x.
Arguments Err {prec emax A} rejected.
Arguments unwrap {prec emax A} r.
Arguments is_ok {prec emax A} r.
Arguments passes {prec emax} c.
Arguments Returns {A} x.
Arguments Panics {A}.

(* ------------------------------------------------------------------------------------------ *)
(* The two formats, and entry points on IEEE bit patterns (for [Eval vm_compute] in generated
   files).  A bit pattern is read with Flocq's [b32_of_bits] / [b64_of_bits]. *)

Definition Hprec32 : Prec_gt_0 24 := eq_refl.
Definition Hmax32 : Prec_lt_emax 24 128 := eq_refl.
Definition Hprec64 : Prec_gt_0 53 := eq_refl.
Definition Hmax64 : Prec_lt_emax 53 1024 := eq_refl.

Definition f32 := BinarySingleNaN.binary_float 24 128.
Definition f64 := BinarySingleNaN.binary_float 53 1024.
Definition f32_of_bits (z : Z) : f32 := B2BSN 24 128 (b32_of_bits z).
Definition f64_of_bits (z : Z) : f64 := B2BSN 53 1024 (b64_of_bits z).

Inductive fmt := F32 | F64.

Definition accept_bop (f : fmt) (b d u a : Z) : bool :=
  match f with
  | F32 => is_ok (bop_try_new 24 128 Hprec32 Hmax32 (f32_of_bits b) (f32_of_bits d) (f32_of_bits u) (f32_of_bits a))
  | F64 => is_ok (bop_try_new 53 1024 Hprec64 Hmax64 (f64_of_bits b) (f64_of_bits d) (f64_of_bits u) (f64_of_bits a))
  end.
Definition accept_bsimplex (f : fmt) (b d u : Z) : bool :=
  match f with
  | F32 => is_ok (bsimplex_try_new 24 128 Hprec32 Hmax32 (f32_of_bits b) (f32_of_bits d) (f32_of_bits u))
  | F64 => is_ok (bsimplex_try_new 53 1024 Hprec64 Hmax64 (f64_of_bits b) (f64_of_bits d) (f64_of_bits u))
  end.
Definition accept_simplex (f : fmt) (b : list Z) (u : Z) : bool :=
  match f with
  | F32 => is_ok (simplex_try_new 24 128 Hprec32 Hmax32 (map f32_of_bits b) (f32_of_bits u))
  | F64 => is_ok (simplex_try_new 53 1024 Hprec64 Hmax64 (map f64_of_bits b) (f64_of_bits u))
  end.
Definition accept_opinion (f : fmt) (b : list Z) (u : Z) (a : list Z) : bool :=
  match f with
  | F32 => is_ok (opinion_try_new 24 128 Hprec32 Hmax32 (map f32_of_bits b) (f32_of_bits u) (map f32_of_bits a))
  | F64 => is_ok (opinion_try_new 53 1024 Hprec64 Hmax64 (map f64_of_bits b) (f64_of_bits u) (map f64_of_bits a))
  end.
(* into_opinion on an existing simplex: the decision only looks at the base rate *)
Definition accept_base_rate (f : fmt) (a : list Z) : bool :=
  match f with
  | F32 => passes (check_base_rate 24 128 Hprec32 Hmax32 (map f32_of_bits a))
  | F64 => passes (check_base_rate 53 1024 Hprec64 Hmax64 (map f64_of_bits a))
  end.
Definition vacuous (f : fmt) (u : Z) : bool :=
  match f with
  | F32 => is_vacuous 24 128 Hprec32 Hmax32 (f32_of_bits u)
  | F64 => is_vacuous 53 1024 Hprec64 Hmax64 (f64_of_bits u)
  end.
Definition dogmatic (f : fmt) (u : Z) : bool :=
  match f with
  | F32 => is_dogmatic 24 128 Hprec32 Hmax32 (f32_of_bits u)
  | F64 => is_dogmatic 53 1024 Hprec64 Hmax64 (f64_of_bits u)
  end.
(* scalar predicates, for probing the tolerance edge directly *)
Definition unit_ok (f : fmt) (v : Z) : bool :=
  match f with
  | F32 => in_unit_interval 24 128 Hprec32 Hmax32 (f32_of_bits v)
  | F64 => in_unit_interval 53 1024 Hprec64 Hmax64 (f64_of_bits v)
  end.

(* Bits of the value rejected by the first failing check ([None] when accepted): what
   errors.rs's hook records.  A rejected NaN is reported as the quiet NaN with zero payload
   and sign 0, whatever NaN the hardware produced. *)
Definition rejected_bits {prec emax A} (r : result prec emax A) : option Z :=
  match r with Ok _ => None | Err v => Some (bits_of prec emax v) end.
Definition rejected_bop (f : fmt) (b d u a : Z) : option Z :=
  match f with
  | F32 => rejected_bits (bop_try_new 24 128 Hprec32 Hmax32 (f32_of_bits b) (f32_of_bits d) (f32_of_bits u) (f32_of_bits a))
  | F64 => rejected_bits (bop_try_new 53 1024 Hprec64 Hmax64 (f64_of_bits b) (f64_of_bits d) (f64_of_bits u) (f64_of_bits a))
  end.
Definition rejected_opinion (f : fmt) (b : list Z) (u : Z) (a : list Z) : option Z :=
  match f with
  | F32 => rejected_bits (opinion_try_new 24 128 Hprec32 Hmax32 (map f32_of_bits b) (f32_of_bits u) (map f32_of_bits a))
  | F64 => rejected_bits (opinion_try_new 53 1024 Hprec64 Hmax64 (map f64_of_bits b) (f64_of_bits u) (map f64_of_bits a))
  end.

(* ---- constants for spot checks (Facts/ChkFacts.v, Props/C01.v): f64 1.0 = 0x3FF0000000000000,
   f32 1.0 = 0x3F800000 ---- *)
Definition one64 := 0x3FF0000000000000.
Definition one32 := 0x3F800000.
Definition nan64 := 0x7FF8000000000000.
Definition inf64 := 0x7FF0000000000000.
Definition mzero64 := 0x8000000000000000.
Definition half64 := 0x3FE0000000000000.
Definition quarter64 := 0x3FD0000000000000.

