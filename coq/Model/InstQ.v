(* Executable instance: rationals, reduced after every operation. *)
From Coq Require Import QArith Qreduction.
From SL Require Import Model.Num.

Definition FldQ : Fld :=
  mkFld Q 0%Q 1%Q
        (fun a b => Qred (a + b)) (fun a b => Qred (a - b))
        (fun a b => Qred (a * b)) (fun a b => Qred (a / b))
        Qle_bool (fun a b => negb (Qle_bool b a)) Qeq_bool.
