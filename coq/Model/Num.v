(* Number structure of the model.  No proofs in this file.

   The model of the numeric operators is written once, polymorphic in a
   field-like structure [Fld]; values are [option F]: [None] stands for an IEEE
   non-finite value (NaN, +-inf).  Arithmetic is strict in [None], division by
   zero is [None], every comparison with [None] is false and [nmin]/[nmax] skip
   [None] exactly as f64::min / f64::max skip NaN. *)
From Coq Require Import List Bool.
Import ListNotations.

Record Fld : Type := mkFld {
  F : Type;
  f0 : F; f1 : F;
  fadd : F -> F -> F; fsub : F -> F -> F; fmul : F -> F -> F; fdiv : F -> F -> F;
  fleb : F -> F -> bool; fltb : F -> F -> bool; feqb : F -> F -> bool }.

Section Lifted.
Context {B : Fld}.
(* [eps]: machine epsilon of the element type (2^-52 for f64, 2^-23 for f32). *)
Variable eps : F B.

Definition V : Type := option (F B).

Definition zero : V := Some (f0 B).
Definition one : V := Some (f1 B).

Definition lift2 (f : F B -> F B -> F B) (x y : V) : V :=
  match x, y with Some a, Some b => Some (f a b) | _, _ => None end.

Definition add : V -> V -> V := lift2 (fadd B).
Definition sub : V -> V -> V := lift2 (fsub B).
Definition mul : V -> V -> V := lift2 (fmul B).
Definition div (x y : V) : V :=
  match x, y with
  | Some a, Some b => if feqb B b (f0 B) then None else Some (fdiv B a b)
  | _, _ => None
  end.

Definition two : V := add one one.

Definition cmp2 (f : F B -> F B -> bool) (x y : V) : bool :=
  match x, y with Some a, Some b => f a b | _, _ => false end.

Definition leb : V -> V -> bool := cmp2 (fleb B).
Definition ltb : V -> V -> bool := cmp2 (fltb B).
Definition eqb : V -> V -> bool := cmp2 (feqb B).
Definition gtb (x y : V) : bool := ltb y x.

(* f64::min / f64::max: a NaN operand is ignored *)
Definition nmin (x y : V) : V :=
  match x, y with
  | Some a, Some b => Some (if fleb B a b then a else b)
  | Some a, None => Some a
  | None, _ => y
  end.
Definition nmax (x y : V) : V :=
  match x, y with
  | Some a, Some b => Some (if fleb B a b then b else a)
  | Some a, None => Some a
  | None, _ => y
  end.

(* small constants built from eps *)
Definition feps2 : F B := fadd B eps eps.
Definition feps4 : F B := fadd B feps2 feps2.

(* approx_ext::is_zero v  =  ulps_eq!(v, 0)  <->  |v| <= eps *)
Definition is_zero (x : V) : bool :=
  match x with
  | Some a => fleb B (fsub B (f0 B) eps) a && fleb B a eps
  | None => false
  end.

(* approx_ext::is_one v  =  ulps_eq!(v, 1)  <->  1 - 2 eps <= v <= 1 + 4 eps
   (|v - 1| <= eps, or at most 4 representable steps from 1) *)
Definition is_one (x : V) : bool :=
  match x with
  | Some a => fleb B (fsub B (f1 B) feps2) a && fleb B a (fadd B (f1 B) feps4)
  | None => false
  end.

(* ulps_eq!(x, y) on two input numbers in [0,1]: modelled as |x - y| <= eps
   (the extra "within 4 ulps" clause only widens this to 2 eps on [1/2,1];
   both outcomes of the test then agree to 2 eps, far below the tolerance of
   the correspondence check). *)
Definition aeq (x y : V) : bool :=
  match x, y with
  | Some a, Some b => fleb B (fsub B a b) eps && fleb B (fsub B b a) eps
  | _, _ => false
  end.

(* approx_ext::in_unit_interval: -eps <= v <= 1 + 4 eps *)
Definition in_unit (x : V) : bool :=
  match x with
  | Some a => fleb B (fsub B (f0 B) eps) a && fleb B a (fadd B (f1 B) feps4)
  | None => false
  end.

End Lifted.
