(* Multi-arrays: mirrors src/multi_array/{non_labeled,labeled}.rs, src/iter.rs, src/domain.rs.
   No proofs in this file.

   Storage is what the Rust code has: nested vectors.  The flattening iterators are
   the explicit state machines of the code (Iter / IterMut: an outer slice iterator and
   an optional current inner iterator), the unlabelled index enumeration is the MultiRange
   odometer, the labelled one is itertools' iproduct! over Keys.
   A panic (index out of bounds, unwrap on None, failed length assertion) is an explicit
   outcome.  Cells hold integers. *)
From Coq Require Import List Bool ZArith Lia.
Import ListNotations.
Open Scope Z_scope.

Inductive family : Type := Unlabelled | Labelled.

(* ------------------------------------------------------------------ storage *)
Inductive arr : Type :=
| A1 (c : list Z)
| A2 (c : list (list Z))
| A3 (c : list (list (list Z))).

(* ---------------------------------------------------------- index enumeration *)

(* MultiRange (unlabelled): k = current index or None, size = dimensions *)
Definition mr_new (size : list nat) : option (list nat) :=
  if forallb (fun s => Nat.ltb 0 s) size then Some (repeat 0%nat (length size)) else None.

(* one pass of the `for i in (0..N).rev()` loop, on reversed index and size lists:
   Some k' = next index, None = exhausted *)
Fixpoint mr_incr (rk rs : list nat) : option (list nat) :=
  match rk, rs with
  | k :: rk', s :: rs' =>
      if Nat.ltb (S k) s then Some (S k :: rk')
      else match rk' with
           | [] => None
           | _ => option_map (cons 0%nat) (mr_incr rk' rs')
           end
  | _, _ => None
  end.

(* Iterator::next of MultiRange: (item, new state) *)
Definition mr_next (size : list nat) (st : option (list nat)) : option (list nat) * option (list nat) :=
  match st with
  | None => (None, None)
  | Some k => (Some k, option_map (@rev nat) (mr_incr (rev k) (rev size)))
  end.

(* drive an iterator: stop at the first None, as a `for` loop does *)
Fixpoint drive {S X : Type} (next : S -> option X * S) (fuel : nat) (st : S) : list X :=
  match fuel with
  | O => []
  | S f => match next st with
           | (Some x, st') => x :: drive next f st'
           | (None, _) => []
           end
  end.

Definition total (dims : list nat) : nat := fold_right Nat.mul 1%nat dims.

Definition mr_indexes (size : list nat) : list (list nat) :=
  drive (mr_next size) (S (total size)) (mr_new size).

(* the state an iterator is left in after [fuel] calls of next *)
Fixpoint after {S X : Type} (next : S -> option X * S) (fuel : nat) (st : S) : S :=
  match fuel with O => st | S f => after next f (snd (next st)) end.

(* two further next() calls after the enumeration has ended: 1 = None *)
Definition mr_exhausted (size : list nat) : list Z :=
  let st := after (mr_next size) (S (total size)) (mr_new size) in
  let '(o1, st1) := mr_next size st in
  let '(o2, _) := mr_next size st1 in
  [match o1 with None => 1 | Some _ => 0 end; match o2 with None => 1 | Some _ => 0 end].

(* labelled: Keys = (0..LEN).map(into), indexes = iproduct!(keys...) *)
Definition keys (n : nat) : list nat := seq 0 n.
Fixpoint iproduct (dims : list nat) : list (list nat) :=
  match dims with
  | [] => [[]]
  | n :: r => flat_map (fun i => map (cons i) (iproduct r)) (keys n)
  end.

Definition indexes (f : family) (dims : list nat) : list (list nat) :=
  match f with Unlabelled => mr_indexes dims | Labelled => iproduct dims end.

(* ------------------------------------------------------ flattening iterators *)

(* std::slice::Iter over a vector: the remaining elements *)
Definition slice_next {X : Type} (s : list X) : option X * list X :=
  match s with [] => (None, []) | x :: r => (Some x, r) end.

(* Iter<'a, S> { iters: slice::Iter<S>, iter: Option<inner iterator> } *)
Record fiter (S T : Type) : Type := mkfiter { f_rest : list S; f_cur : option T }.
Arguments mkfiter {S T}. Arguments f_rest {S T}. Arguments f_cur {S T}.

Definition fiter_new {S T : Type} (into : S -> T) (l : list S) : fiter S T :=
  match l with
  | [] => mkfiter [] None
  | s :: r => mkfiter r (Some (into s))
  end.

Definition fiter_next {S T X : Type} (into : S -> T) (inner : T -> option X * T)
           (st : fiter S T) : option X * fiter S T :=
  match f_cur st with
  | None => (None, mkfiter (f_rest st) None)
  | Some it =>
      match inner it with
      | (Some x, it') => (Some x, mkfiter (f_rest st) (Some it'))
      | (None, _) =>
          match f_rest st with
          | [] => (None, mkfiter [] None)
          | s :: r => let '(o, it2) := inner (into s) in (o, mkfiter r (Some it2))
          end
      end
  end.

(* the iterators of the three ranks, generic in the cell type X so that the same
   machine serves Iter (cells) and IterMut (cell positions) *)
Definition it1 (X : Type) := list X.
Definition it2 (X : Type) := fiter (list X) (it1 X).
Definition it3 (X : Type) := fiter (list (list X)) (it2 X).

Definition it2_new {X} (c : list (list X)) : it2 X := fiter_new (fun s => s) c.
Definition it2_next {X} : it2 X -> option X * it2 X := fiter_next (fun s => s) slice_next.
Definition it3_new {X} (c : list (list (list X))) : it3 X := fiter_new it2_new c.
Definition it3_next {X} : it3 X -> option X * it3 X := fiter_next it2_new it2_next.

Definition len2 {X} (c : list (list X)) : nat := fold_right (fun r n => (length r + n)%nat) 0%nat c.
Definition len3 {X} (c : list (list (list X))) : nat := fold_right (fun r n => (len2 r + n)%nat) 0%nat c.

(* `for x in &array`: everything up to the first None *)
Definition iter1 {X} (c : list X) : list X := drive slice_next (S (length c)) c.
Definition iter2 {X} (c : list (list X)) : list X :=
  drive it2_next (S (len2 c)) (it2_new c).
Definition iter3 {X} (c : list (list (list X))) : list X :=
  drive it3_next (S (len3 c)) (it3_new c).

Definition iter_arr (a : arr) : list Z :=
  match a with A1 c => iter1 c | A2 c => iter2 c | A3 c => iter3 c end.

(* --------------------------------------------------------------- indexing *)
Inductive res (X : Type) : Type := Ok (x : X) | Panic.
Arguments Ok {X}. Arguments Panic {X}.

Definition nth_res {X} (l : list X) (i : nat) : res X :=
  match nth_error l i with Some x => Ok x | None => Panic end.

(* Index: one bounds check per level *)
Definition get (a : arr) (k : list nat) : res Z :=
  match a, k with
  | A1 c, [i] => nth_res c i
  | A2 c, [i; j] => match nth_res c i with Ok r => nth_res r j | Panic => Panic end
  | A3 c, [i; j; l] =>
      match nth_res c i with
      | Ok m => match nth_res m j with Ok r => nth_res r l | Panic => Panic end
      | Panic => Panic
      end
  | _, _ => Panic
  end.

Fixpoint upd {X} (l : list X) (i : nat) (f : X -> X) : list X :=
  match l, i with
  | [], _ => []
  | x :: r, O => f x :: r
  | x :: r, S i' => x :: upd r i' f
  end.

(* IndexMut + assignment: the same bounds checks, then that cell only *)
Definition set (a : arr) (k : list nat) (v : Z) : res arr :=
  match get a k with
  | Panic => Panic
  | Ok _ =>
      match a, k with
      | A1 c, [i] => Ok (A1 (upd c i (fun _ => v)))
      | A2 c, [i; j] => Ok (A2 (upd c i (fun r => upd r j (fun _ => v))))
      | A3 c, [i; j; l] => Ok (A3 (upd c i (fun m => upd m j (fun r => upd r l (fun _ => v)))))
      | _, _ => Panic
      end
  end.

(* Container::iter_with: indexes() paired with Index *)
Fixpoint iter_with_from (a : arr) (ks : list (list nat)) : res (list (list nat * Z)) :=
  match ks with
  | [] => Ok []
  | k :: r => match get a k with
              | Panic => Panic
              | Ok v => match iter_with_from a r with
                        | Panic => Panic
                        | Ok l => Ok ((k, v) :: l)
                        end
              end
  end.
Definition iter_with (f : family) (dims : list nat) (a : arr) : res (list (list nat * Z)) :=
  iter_with_from a (indexes f dims).

(* ---------------------------------------------------------- mutable iteration *)

(* positions of the cells, in the nested shape of the array *)
Definition pos1 (c : list Z) : list (list nat) := map (fun i => [i]) (seq 0 (length c)).
Definition pos2 (c : list (list Z)) : list (list (list nat)) :=
  map (fun ir => map (fun j => [fst ir; j]) (seq 0 (length (snd ir)))) (combine (seq 0 (length c)) c).
Definition pos3 (c : list (list (list Z))) : list (list (list (list nat))) :=
  map (fun im => map (fun jr => map (fun l => [fst im; fst jr; l]) (seq 0 (length (snd jr))))
                     (combine (seq 0 (length (snd im))) (snd im)))
      (combine (seq 0 (length c)) c).

(* the cells IterMut hands out, in order *)
Definition iter_mut_order (a : arr) : list (list nat) :=
  match a with
  | A1 c => iter1 (pos1 c)
  | A2 c => iter2 (pos2 c)
  | A3 c => iter3 (pos3 c)
  end.

Definition cell_update (c x : Z) (i : nat) : Z := (x * 3 + c + Z.of_nat i) mod 1000003.

(* for (i, x) in a.iter_mut().enumerate() { *x = cell_update c *x i } *)
Fixpoint apply_updates (a : arr) (c : Z) (ks : list (list nat)) (i : nat) : arr :=
  match ks with
  | [] => a
  | k :: r =>
      match get a k with
      | Ok x => match set a k (cell_update c x i) with
                | Ok a' => apply_updates a' c r (S i)
                | Panic => a
                end
      | Panic => a
      end
  end.
Definition iter_mut (a : arr) (c : Z) : arr * nat :=
  let ks := iter_mut_order a in (apply_updates a c ks 0, length ks).

(* ------------------------------------------------------------ constructors *)

Fixpoint take_exact {X} (n : nat) (l : list X) : option (list X * list X) :=
  match n with
  | O => Some ([], l)
  | S n' => match l with
            | [] => None
            | x :: r => match take_exact n' r with
                        | Some (h, t) => Some (x :: h, t)
                        | None => None
                        end
            end
  end.

(* fill [n] rows using [row] on the remaining stream; None = ran out (panic) *)
Fixpoint fill {X Y} (n : nat) (row : list X -> option (Y * list X)) (l : list X) : option (list Y * list X) :=
  match n with
  | O => Some ([], l)
  | S n' => match row l with
            | None => None
            | Some (y, l') => match fill n' row l' with
                              | Some (ys, l'') => Some (y :: ys, l'')
                              | None => None
                              end
            end
  end.

(* FromIterator.  Unlabelled rank 1 collects everything without a length check; the
   other unlabelled ranks pull exactly the cells they need with next().unwrap() and ignore
   the rest; the labelled ones drain exactly LEN per row (panic when short), rank 1 asserts
   the exact length. *)
Definition from_iter (f : family) (dims : list nat) (vs : list Z) : res arr :=
  match f, dims with
  | Unlabelled, [_] => Ok (A1 vs)
  | Labelled, [n0] => if Nat.eqb (length vs) n0 then Ok (A1 vs) else Panic
  | _, [n0; n1] =>
      match fill n0 (take_exact n1) vs with
      | Some (c, _) => Ok (A2 c)
      | None => Panic
      end
  | _, [n0; n1; n2] =>
      match fill n0 (fill n1 (take_exact n2)) vs with
      | Some (c, _) => Ok (A3 c)
      | None => Panic
      end
  | _, _ => Panic
  end.

(* FromFn: from_iter(indexes().map(f)) *)
Definition from_fn (f : family) (dims : list nat) (g : list nat -> Z) : res arr :=
  from_iter f dims (map g (indexes f dims)).

Definition zeros (f : family) (dims : list nat) : res arr := from_fn f dims (fun _ => 0).

(* labelled from_multi_iter / MArrD*::new: every level asserts its length *)
Definition from_nested (dims : list nat) (a : arr) : res arr :=
  match a, dims with
  | A1 c, [n0] => if Nat.eqb (length c) n0 then Ok a else Panic
  | A2 c, [n0; n1] =>
      if forallb (fun r => Nat.eqb (length r) n1) c && Nat.eqb (length c) n0 then Ok a else Panic
  | A3 c, [n0; n1; n2] =>
      if forallb (fun m => forallb (fun r => Nat.eqb (length r) n2) m && Nat.eqb (length m) n1) c
         && Nat.eqb (length c) n0 then Ok a else Panic
  | _, _ => Panic
  end.

(* element-wise fallible conversion (negative cells are refused): the first error in
   row-major order wins; a labelled array then asserts its shape *)
Inductive tf_res : Type := TfOk (a : arr) | TfErr (bad : Z) | TfPanic.

Fixpoint first_neg (l : list Z) : option Z :=
  match l with [] => None | x :: r => if x <? 0 then Some x else first_neg r end.

Definition try_from (f : family) (dims : list nat) (a : arr) : tf_res :=
  let flat := match a with
              | A1 c => c
              | A2 c => concat c
              | A3 c => concat (map (@concat Z) c)
              end in
  match a with
  | A1 c =>
      match first_neg c with
      | Some x => TfErr x
      | None => match f with
                | Unlabelled => TfOk a
                | Labelled => match from_nested dims a with Ok a' => TfOk a' | Panic => TfPanic end
                end
      end
  | A2 c =>
      (* labelled: each row is converted and its length asserted before the next row is looked at *)
      (fix rows (rs : list (list Z)) : tf_res :=
         match rs with
         | [] => match f with
                 | Unlabelled => TfOk a
                 | Labelled => if Nat.eqb (length c) (nth 0 dims 0%nat) then TfOk a else TfPanic
                 end
         | r :: rest =>
             match first_neg r with
             | Some x => TfErr x
             | None =>
                 match f with
                 | Labelled => if Nat.eqb (length r) (nth 1 dims 0%nat) then rows rest else TfPanic
                 | Unlabelled => rows rest
                 end
             end
         end) c
  | A3 c =>
      (fix mats (ms : list (list (list Z))) : tf_res :=
         match ms with
         | [] => match f with
                 | Unlabelled => TfOk a
                 | Labelled => if Nat.eqb (length c) (nth 0 dims 0%nat) then TfOk a else TfPanic
                 end
         | m :: rest =>
             let fix rows (rs : list (list Z)) : option tf_res :=
                 match rs with
                 | [] => None
                 | r :: rest' =>
                     match first_neg r with
                     | Some x => Some (TfErr x)
                     | None =>
                         match f with
                         | Labelled => if Nat.eqb (length r) (nth 2 dims 0%nat) then rows rest' else Some TfPanic
                         | Unlabelled => rows rest'
                         end
                     end
                 end in
             match rows m with
             | Some e => e
             | None =>
                 match f with
                 | Labelled => if Nat.eqb (length m) (nth 1 dims 0%nat) then mats rest else TfPanic
                 | Unlabelled => mats rest
                 end
             end
         end) c
  end.

(* outer products of plain arrays: from_fn / from_iter over the products *)
Definition product2 (f : family) (v0 v1 : list Z) : res arr :=
  from_iter f [length v0; length v1] (flat_map (fun x => map (fun y => x * y) v1) v0).
Definition product3 (f : family) (v0 v1 v2 : list Z) : res arr :=
  from_iter f [length v0; length v1; length v2]
            (flat_map (fun x => flat_map (fun y => map (fun z => x * y * z) v2) v1) v0).

(* sub-array access (labelled): down(i) / down_mut(i) *)
Definition down (a : arr) (i : nat) : res arr :=
  match a with
  | A2 c => match nth_res c i with Ok r => Ok (A1 r) | Panic => Panic end
  | A3 c => match nth_res c i with Ok m => Ok (A2 m) | Panic => Panic end
  | A1 _ => Panic
  end.

Definition arr_eqb (a b : arr) : bool :=
  match a, b with
  | A1 x, A1 y => if list_eq_dec Z.eq_dec x y then true else false
  | A2 x, A2 y => if list_eq_dec (list_eq_dec Z.eq_dec) x y then true else false
  | A3 x, A3 y => if list_eq_dec (list_eq_dec (list_eq_dec Z.eq_dec)) x y then true else false
  | _, _ => false
  end.

(* --------------------------------------------------------------- programs *)

Inductive op : Type :=
| OGet (k : list nat)
| OSet (k : list nat) (v : Z)
| OIter
| OIterMut (c : Z)
| OIterWith
| OIndexes
| ODown (i : nat)                      (* labelled rank >= 2: iterate the sub-array *)
| ODownSet (i : nat) (k : list nat) (v : Z)
| OCloneEq                             (* clone, compare, iterate the clone *)
| ONeqAfterSet (k : list nat)          (* clone, change one cell of the clone, compare *)
| OFromFn (a b c d : Z)                (* cell k := a*k0 + b*k1 + c*k2 + d *)
| OFromIter (vs : list Z)
| OZeros
| OTryFrom (vs : list Z)               (* cells in row-major order, shaped by the declared dims *)
| OConvAsRef                           (* labelled rank 1: conv to a sibling domain, as_ref *)
| OProduct (v0 v1 v2 : list Z).

(* observation log: integers; markers *)
Definition PANIC : Z := -1.
Definition END : Z := -2.
Definition ERR : Z := -3.

Definition zs (k : list nat) : list Z := map Z.of_nat k.

Definition lin (a b c d : Z) (k : list nat) : Z :=
  a * Z.of_nat (nth 0 k 0%nat) + b * Z.of_nat (nth 1 k 0%nat) + c * Z.of_nat (nth 2 k 0%nat) + d.

(* shape a flat list by the declared dims, for OTryFrom (the harness builds the nested input
   from full rows, so the list length is a multiple of the inner sizes) *)
Fixpoint chunks {X} (n : nat) (fuel : nat) (l : list X) : list (list X) :=
  match fuel with
  | O => []
  | S f => match l with
           | [] => []
           | _ => firstn n l :: chunks n f (skipn n l)
           end
  end.

Definition shape_input (dims : list nat) (vs : list Z) : arr :=
  match dims with
  | [_] => A1 vs
  | [_; n1] => A2 (match n1 with O => [] | _ => chunks n1 (length vs) vs end)
  | [_; n1; n2] =>
      A3 (match n1, n2 with
          | O, _ | _, O => []
          | _, _ => chunks n1 (length vs) (chunks n2 (length vs) vs)
          end)
  | _ => A1 vs
  end.

Definition step (f : family) (dims : list nat) (a : arr) (o : op) : arr * list Z :=
  match o with
  | OGet k => (a, match get a k with Ok v => [v] | Panic => [PANIC] end)
  | OSet k v => match set a k v with Ok a' => (a', [0]) | Panic => (a, [PANIC]) end
  | OIter => (a, iter_arr a ++ [END])
  | OIterMut c => let '(a', n) := iter_mut a c in (a', [Z.of_nat n])
  | OIterWith =>
      (a, match iter_with f dims a with
          | Ok l => flat_map (fun kv => zs (fst kv) ++ [snd kv]) l ++ [END]
          | Panic => [PANIC]
          end)
  | OIndexes => (a, flat_map zs (indexes f dims) ++ [END]
                       ++ match f with Unlabelled => mr_exhausted dims | Labelled => [1; 1] end)
  | ODown i => (a, match down a i with Ok s => iter_arr s ++ [END] | Panic => [PANIC] end)
  | ODownSet i k v =>
      match down a i with
      | Panic => (a, [PANIC])
      | Ok s => match set s k v with
                | Panic => (a, [PANIC])
                | Ok _ => match set a (i :: k) v with Ok a' => (a', [0]) | Panic => (a, [PANIC]) end
                end
      end
  | OCloneEq => (a, (if arr_eqb a a then 1 else 0) :: iter_arr a ++ [END])
  | ONeqAfterSet k =>
      (a, match get a k with
          | Panic => [PANIC]
          | Ok v => match set a k (v + 1) with
                    | Ok a' => [if arr_eqb a a' then 1 else 0]
                    | Panic => [PANIC]
                    end
          end)
  | OFromFn x y z d =>
      match from_fn f dims (lin x y z d) with Ok a' => (a', [0]) | Panic => (a, [PANIC]) end
  | OFromIter vs =>
      match from_iter f dims vs with Ok a' => (a', [0]) | Panic => (a, [PANIC]) end
  | OZeros => match zeros f dims with Ok a' => (a', [0]) | Panic => (a, [PANIC]) end
  | OTryFrom vs =>
      match try_from f dims (shape_input dims vs) with
      | TfOk a' => (a', [0])
      | TfErr x => (a, [ERR; x])
      | TfPanic => (a, [PANIC])
      end
  | OConvAsRef => (a, iter_arr a ++ [END] ++ iter_arr a ++ [END])
  | OProduct v0 v1 v2 =>
      match (match dims with
             | [_; _] => product2 f v0 v1
             | [_; _; _] => product3 f v0 v1 v2
             | _ => Panic
             end) with
      | Ok a' => (a', [0])
      | Panic => (a, [PANIC])
      end
  end.

Fixpoint run (f : family) (dims : list nat) (a : arr) (prog : list op) : list Z :=
  match prog with
  | [] => []
  | o :: r => let '(a', obs) := step f dims a o in obs ++ run f dims a' r
  end.

(* initial state: zeros of the declared shape *)
Definition init (f : family) (dims : list nat) : arr :=
  match zeros f dims with Ok a => a | Panic => A1 [] end.

Definition run_program (f : family) (dims : list nat) (prog : list op) : list Z :=
  run f dims (init f dims) prog.
