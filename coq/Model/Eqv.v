(* Equality and approximate equality of opinions (property C20).  No proofs here.
   Mirrors src/bi.rs:379-423 (AbsDiffEq / RelativeEq / UlpsEq for BOpinion: the conjunction of the
   scalar relation over b, d, u, a), the derived PartialEq of BSimplex / BOpinion (bi.rs:9,90),
   Simplex / OpinionBase (mul.rs:24,143) and the labelled arrays' PartialEq delegating to the cell
   vector (multi_array/labeled.rs:132-140,307-316,514-523).
   Independent of the float format: the scalar relation [R] is a parameter (==, abs_diff_eq eps,
   relative_eq eps max_relative, ulps_eq eps max_ulps on f32 or f64). *)
From Coq Require Import List Bool.
Import ListNotations.

(* the opinion-level result as a function of the four scalar results (b, d, u, a) *)
Definition bop_rel4 (rb rd ru ra : bool) : bool := rb && rd && ru && ra.

Section Eqv.
Variable V : Type.
Variable R : V -> V -> bool.

(* binomial opinion (b, d, u, a) *)
Definition bop : Type := (V * V * V * V)%type.
Definition bop_rel (w1 w2 : bop) : bool :=
  let '(b1, d1, u1, a1) := w1 in
  let '(b2, d2, u2, a2) := w2 in
  bop_rel4 (R b1 b2) (R d1 d2) (R u1 u2) (R a1 a2).

(* == of arrays / Vec: same length and all cells related *)
Fixpoint list_eqb (l1 l2 : list V) : bool :=
  match l1, l2 with
  | [], [] => true
  | x :: r1, y :: r2 => R x y && list_eqb r1 r2
  | _, _ => false
  end.

(* derived PartialEq of Simplex { belief, uncertainty } *)
Definition simplex_eqb (s1 s2 : list V * V) : bool :=
  list_eqb (fst s1) (fst s2) && R (snd s1) (snd s2).

(* derived PartialEq of OpinionBase { simplex, base_rate } *)
Definition opinion_eqb (o1 o2 : list V * V * list V) : bool :=
  simplex_eqb (fst o1) (fst o2) && list_eqb (snd o1) (snd o2).

(* a labelled array MArrD1/D2/D3<D.., V>: a domain marker (PhantomData) and the cell vector;
   its PartialEq is [self.inner == other.inner] *)
Record labelled (D : Type) : Type := mk_labelled { cells : list V }.
Definition labelled_eqb {D : Type} (x y : labelled D) : bool := list_eqb (cells D x) (cells D y).

End Eqv.

Arguments cells {V D} l.
Arguments mk_labelled {V} D cells.
Arguments labelled_eqb {V} R {D} x y.
Arguments bop_rel {V} R w1 w2.
Arguments list_eqb {V} R l1 l2.
Arguments simplex_eqb {V} R s1 s2.
Arguments opinion_eqb {V} R o1 o2.
