(* Positional vectors of model numbers.  No proofs in this file. *)
From Coq Require Import List Bool.
Import ListNotations.
From SL Require Import Model.Num.

Section Vec.
Context {B : Fld}.
Notation V := (@V B).

Fixpoint map2 {X Y Z : Type} (f : X -> Y -> Z) (l1 : list X) (l2 : list Y) : list Z :=
  match l1, l2 with
  | x :: r1, y :: r2 => f x y :: map2 f r1 r2
  | _, _ => []
  end.

Fixpoint map3 {X Y Z W : Type} (f : X -> Y -> Z -> W)
         (l1 : list X) (l2 : list Y) (l3 : list Z) : list W :=
  match l1, l2, l3 with
  | x :: r1, y :: r2, z :: r3 => f x y z :: map3 f r1 r2 r3
  | _, _, _ => []
  end.

(* from_fn over 0..n-1 *)
Definition tab {X : Type} (n : nat) (f : nat -> X) : list X := map f (seq 0 n).

(* v[i]; out of range (a Rust panic) is NaN *)
Definition get (l : list V) (i : nat) : V := nth i l None.

(* Iterator::sum: left to right from zero *)
Definition vsum (l : list V) : V := fold_left add l zero.

(* Iterator::reduce(min).unwrap(): None (a Rust panic) on the empty list *)
Definition vmin (l : list V) : V :=
  match l with [] => None | x :: r => fold_left nmin r x end.
Definition vmax (l : list V) : V :=
  match l with [] => None | x :: r => fold_left nmax r x end.

(* outer product in row-major order (last index fastest) *)
Definition outer (l0 l1 : list V) : list V :=
  flat_map (fun x => map (fun y => mul x y) l1) l0.
Definition outer3 (l0 l1 l2 : list V) : list V :=
  flat_map (fun x => flat_map (fun y => map (fun z => mul (mul x y) z) l2) l1) l0.

End Vec.
