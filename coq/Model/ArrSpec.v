(* Abstract specification of the multi-arrays (C17 / C18).

   An array of dimensions [dims] is a FLAT list of [total dims] cells; the cell of index tuple
   [k] lives at the row-major offset [offset dims k]; the index tuples of the array are
   [lex dims], the lexicographic Cartesian product with the last coordinate fastest.
   [flatten] / [shaped] relate the nested storage of Model/Arr.v to this view, and
   [spec_step] / [spec_run] interpret the program language of Model/Arr.v on flat lists only.
   No proofs in this file (they are in Facts/ArrFacts.v). *)
From Coq Require Import List Bool Arith ZArith Lia.
Import ListNotations.
From SL Require Import Model.Arr.
Local Open Scope nat_scope.

(* ------------------------------------------------------------ index tuples *)

(* all tuples of [0,n0) x ... x [0,nk), first coordinate slowest *)
Fixpoint lex (dims : list nat) : list (list nat) :=
  match dims with
  | [] => [[]]
  | n :: ds => flat_map (fun i => map (cons i) (lex ds)) (seq 0 n)
  end.

(* row-major offset (mixed-radix value) of an index tuple *)
Fixpoint offset (dims k : list nat) : nat :=
  match dims, k with
  | _ :: ds, i :: ks => i * total ds + offset ds ks
  | _, _ => 0
  end.

(* membership in the box, decided coordinate by coordinate *)
Fixpoint inb (dims k : list nat) : bool :=
  match dims, k with
  | [], [] => true
  | n :: ds, i :: ks => (i <? n) && inb ds ks
  | _, _ => false
  end.

(* the strict lexicographic order on tuples *)
Inductive lex_lt : list nat -> list nat -> Prop :=
| lex_lt_hd : forall i j k k', i < j -> lex_lt (i :: k) (j :: k')
| lex_lt_tl : forall i k k', lex_lt k k' -> lex_lt (i :: k) (i :: k').

(* ------------------------------------------------- abstraction of the storage *)

Definition flatten (a : arr) : list Z :=
  match a with
  | A1 c => c
  | A2 c => concat c
  | A3 c => concat (map (@concat Z) c)
  end.

Definition shaped (dims : list nat) (a : arr) : Prop :=
  match a, dims with
  | A1 c, [n0] => length c = n0
  | A2 c, [n0; n1] => length c = n0 /\ Forall (fun r => length r = n1) c
  | A3 c, [n0; n1; n2] =>
      length c = n0 /\
      Forall (fun m => length m = n1 /\ Forall (fun r => length r = n2) m) c
  | _, _ => False
  end.

(* ------------------------------------------------------ flat-list operations *)

Definition fget (dims : list nat) (st : list Z) (k : list nat) : res Z :=
  if inb dims k then nth_res st (offset dims k) else Panic.

Definition fset (dims : list nat) (st : list Z) (k : list nat) (v : Z) : res (list Z) :=
  if inb dims k then Ok (upd st (offset dims k) (fun _ => v)) else Panic.

(* the enumerate()d mutable iteration: the i-th visited cell, which is the cell of the i-th
   tuple, is replaced by [cell_update c x i] *)
Fixpoint spec_updates (dims : list nat) (st : list Z) (c : Z) (ks : list (list nat)) (i : nat) : list Z :=
  match ks with
  | [] => st
  | k :: r => spec_updates dims (upd st (offset dims k) (fun x => cell_update c x i)) c r (S i)
  end.

(* the same, cell by cell *)
Fixpoint mapi_from {X Y} (g : nat -> X -> Y) (i : nat) (l : list X) : list Y :=
  match l with [] => [] | x :: r => g i x :: mapi_from g (S i) r end.

(* ------------------------------------------------------- spec interpreter *)

Definition spec_step (f : family) (dims : list nat) (st : list Z) (o : op) : list Z * list Z :=
  match o with
  | OGet k => (st, match fget dims st k with Ok v => [v] | Panic => [PANIC] end)
  | OSet k v => match fset dims st k v with Ok st' => (st', [0%Z]) | Panic => (st, [PANIC]) end
  | OIter => (st, st ++ [END])
  | OIterMut c => (spec_updates dims st c (lex dims) 0, [Z.of_nat (total dims)])
  | OIterWith => (st, flat_map (fun kv => zs (fst kv) ++ [snd kv]) (combine (lex dims) st) ++ [END])
  | OIndexes => (st, flat_map zs (lex dims) ++ [END] ++ [1%Z; 1%Z])
  | ODown i =>
      (st, match dims with
           | n0 :: ((_ :: _) as ds) =>
               if i <? n0 then firstn (total ds) (skipn (i * total ds) st) ++ [END] else [PANIC]
           | _ => [PANIC]
           end)
  | ODownSet i k v =>
      match dims with
      | _ :: _ :: _ =>
          match fset dims st (i :: k) v with Ok st' => (st', [0%Z]) | Panic => (st, [PANIC]) end
      | _ => (st, [PANIC])
      end
  | OCloneEq => (st, 1%Z :: st ++ [END])
  | ONeqAfterSet k => (st, if inb dims k then [0%Z] else [PANIC])
  | OFromFn a b c d => (map (lin a b c d) (lex dims), [0%Z])
  | OFromIter vs =>
      let enough :=
        match f, dims with
        | Unlabelled, [_] => true                       (* no check at all, see [wf_op] *)
        | Labelled, [_] => length vs =? total dims      (* assert_eq on the length *)
        | _, _ => total dims <=? length vs              (* next().unwrap() / drain *)
        end in
      if enough then (firstn (total dims) vs, [0%Z]) else (st, [PANIC])
  | OZeros => (repeat 0%Z (total dims), [0%Z])
  | OTryFrom vs =>
      match find (fun x => (x <? 0)%Z) vs with
      | Some x => (st, [ERR; x])
      | None => if (0 <? total dims) || (hd 0 dims =? 0) then (vs, [0%Z]) else (st, [PANIC])
      end
  | OConvAsRef => (st, st ++ [END] ++ st ++ [END])
  | OProduct v0 v1 v2 =>
      match dims with
      | [_; _] => (flat_map (fun x => map (fun y => (x * y)%Z) v1) v0, [0%Z])
      | [_; _; _] =>
          (flat_map (fun x => flat_map (fun y => map (fun z => (x * y * z)%Z) v2) v1) v0, [0%Z])
      | _ => (st, [PANIC])
      end
  end.

Fixpoint spec_run_from (f : family) (dims : list nat) (st : list Z) (prog : list op) : list Z :=
  match prog with
  | [] => []
  | o :: r => let '(st', obs) := spec_step f dims st o in obs ++ spec_run_from f dims st' r
  end.

(* initial state: all cells zero *)
Definition spec_run (f : family) (dims : list nat) (prog : list op) : list Z :=
  spec_run_from f dims (repeat 0%Z (total dims)) prog.

(* Side conditions under which a program step keeps the model array in the declared shape.
   - unlabelled rank-1 from_iter collects whatever it is given (no length check in the code):
     the shape is kept only when it is given exactly [total dims] cells;
   - OTryFrom is given the cells of a whole array; the harness' [shape_input] builds NO rows
     when an inner dimension is 0, which the labelled family refuses (panic) and the unlabelled
     family accepts without check: excluded for the unlabelled family;
   - the outer products take their shape from the operand lengths, which must be the declared ones.
   Index tuples of any length are allowed everywhere. *)
Definition wf_op (f : family) (dims : list nat) (o : op) : Prop :=
  match o with
  | OFromIter vs =>
      match f, dims with Unlabelled, [_] => length vs = total dims | _, _ => True end
  | OTryFrom vs =>
      length vs = total dims /\
      (f = Unlabelled -> 0 < total dims \/ hd 0 dims = 0)
  | OProduct v0 v1 v2 =>
      match dims with
      | [n0; n1] => n0 = length v0 /\ n1 = length v1
      | [n0; n1; n2] => n0 = length v0 /\ n1 = length v1 /\ n2 = length v2
      | _ => True
      end
  | _ => True
  end.
