(* IEEE-754 instances of the number structure: Flocq's binary32 / binary64 with round-to-nearest-even.
   Used ONLY to evaluate the polymorphic model on concrete float operands inside the kernel (witnesses of
   rounding-level defects, Facts/FloatWitness.v); no general theorem is stated about these instances.
   Caveats of the reading [option F]: a non-finite float produced by an operation is carried as [Some inf] /
   [Some NaN] rather than [None], and division by a zero divisor is [None] whatever the dividend (IEEE: NaN for
   0/0, an infinity otherwise); a witness must therefore check that its intermediate values are finite. *)
From Coq Require Import ZArith Bool.
From Flocq Require Import Core.Core IEEE754.BinarySingleNaN.
From SL Require Import Model.Num Model.Chk.

Definition FldB64 : Fld :=
  mkFld f64 (B754_zero false) (@Bone 53 1024 Hprec64 Hmax64)
        (@Bplus 53 1024 Hprec64 Hmax64 mode_NE) (@Bminus 53 1024 Hprec64 Hmax64 mode_NE)
        (@Bmult 53 1024 Hprec64 Hmax64 mode_NE) (@Bdiv 53 1024 Hprec64 Hmax64 mode_NE)
        (@Bleb 53 1024) (@Bltb 53 1024) (@Beqb 53 1024).

Definition FldB32 : Fld :=
  mkFld f32 (B754_zero false) (@Bone 24 128 Hprec32 Hmax32)
        (@Bplus 24 128 Hprec32 Hmax32 mode_NE) (@Bminus 24 128 Hprec32 Hmax32 mode_NE)
        (@Bmult 24 128 Hprec32 Hmax32 mode_NE) (@Bdiv 24 128 Hprec32 Hmax32 mode_NE)
        (@Bleb 24 128) (@Bltb 24 128) (@Beqb 24 128).

Definition eps64 : f64 := feps 53 1024 Hprec64 Hmax64.       (* f64::EPSILON *)
Definition eps32 : f32 := feps 24 128 Hprec32 Hmax32.        (* f32::EPSILON *)

(* all components of a result are finite floats *)
Definition fin64 (v : @V FldB64) : bool := match v with Some x => is_finite x | None => false end.
