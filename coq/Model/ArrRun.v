(* Decoder of array programs from flat integer lists (the format shared with the Rust
   harness) and the entry point used by the extracted runner.  No proofs here. *)
From Coq Require Import List Bool ZArith.
Import ListNotations.
From SL Require Import Model.Arr.
Open Scope Z_scope.

Definition znat (z : Z) : nat := Z.to_nat z.

Definition pop_n (n : nat) (l : list Z) : list Z * list Z := (firstn n l, skipn n l).
Definition pop_list (l : list Z) : list Z * list Z :=
  match l with
  | [] => ([], [])
  | n :: r => pop_n (znat n) r
  end.

Fixpoint decode (fuel : nat) (rank : nat) (l : list Z) : list op :=
  match fuel with
  | O => []
  | S f =>
      match l with
      | [] => []
      | c :: r =>
          match c with
          | 0 => let '(k, r') := pop_n rank r in OGet (map znat k) :: decode f rank r'
          | 1 => let '(k, r') := pop_n rank r in
                 match r' with
                 | v :: r'' => OSet (map znat k) v :: decode f rank r''
                 | [] => []
                 end
          | 2 => OIter :: decode f rank r
          | 3 => match r with v :: r' => OIterMut v :: decode f rank r' | [] => [] end
          | 4 => OIterWith :: decode f rank r
          | 5 => OIndexes :: decode f rank r
          | 6 => match r with i :: r' => ODown (znat i) :: decode f rank r' | [] => [] end
          | 7 => match r with
                 | i :: r' =>
                     let '(k, r'') := pop_n (pred rank) r' in
                     match r'' with
                     | v :: r3 => ODownSet (znat i) (map znat k) v :: decode f rank r3
                     | [] => []
                     end
                 | [] => []
                 end
          | 8 => OCloneEq :: decode f rank r
          | 9 => let '(k, r') := pop_n rank r in ONeqAfterSet (map znat k) :: decode f rank r'
          | 10 => match r with
                  | a :: b :: c' :: d :: r' => OFromFn a b c' d :: decode f rank r'
                  | _ => []
                  end
          | 11 => let '(vs, r') := pop_list r in OFromIter vs :: decode f rank r'
          | 12 => OZeros :: decode f rank r
          | 13 => let '(vs, r') := pop_list r in OTryFrom vs :: decode f rank r'
          | 14 => OConvAsRef :: decode f rank r
          | 15 => let '(v0, r1) := pop_list r in
                  let '(v1, r2) := pop_list r1 in
                  let '(v2, r3) := pop_list r2 in
                  OProduct v0 v1 v2 :: decode f rank r3
          | _ => []
          end
      end
  end.

(* fam: 0 = unlabelled, otherwise labelled *)
Definition run_arr (fam : Z) (dims : list nat) (code : list Z) : list Z :=
  run_program (match fam with 0 => Unlabelled | _ => Labelled end) dims
              (decode (length code) (length dims) code).
