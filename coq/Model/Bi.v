(* Binomial operators: mirrors src/bi.rs and src/convert.rs.  No proofs here.
   A binomial opinion is (b, d, u, a).  Operators that validate their own result
   (BOpinion::new / try_new) return [option]: None = panic / Err. *)
From Coq Require Import List Bool.
Import ListNotations.
From SL Require Import Model.Num Model.Vec Model.Mul.

Section Bi.
Context {B : Fld}.
Variable eps : F B.
Notation V := (@V B).
Notation is_zero := (is_zero eps).
Notation is_one := (is_one eps).
Notation in_unit := (in_unit eps).

Record bop : Type := mkbop { bb : V; bd : V; bu : V; ba : V }.

(* binomial check_simplex (sum first, then ranges) and check_base_rate;
   BOpinion::try_new checks the base rate first.  The order only matters for
   the error label, the decision is the conjunction. *)
Definition bcheck_simplex (b d u : V) : bool :=
  is_one (add (add b d) u) && in_unit b && in_unit d && in_unit u.
Definition btry_new (b d u a : V) : option bop :=
  if in_unit a && bcheck_simplex b d u then Some (mkbop b d u a) else None.

Definition bprojection (w : bop) : V := add (bb w) (mul (ba w) (bu w)).

(* BOpinion::mul *)
Definition bmul (x y : bop) : option bop :=
  let a := mul (ba x) (ba y) in
  let ra := add (sub one (ba x)) (mul (ba x) (sub one (ba y))) in
  let b := add (mul (bb x) (bb y))
               (div (add (mul (mul (mul (sub one (ba x)) (ba y)) (bb x)) (bu y))
                         (mul (mul (mul (sub one (ba y)) (ba x)) (bb y)) (bu x)))
                    ra) in
  let d := sub (add (bd x) (bd y)) (mul (bd x) (bd y)) in
  let u := add (mul (bu x) (bu y))
               (div (add (mul (mul (sub one (ba y)) (bb x)) (bu y))
                         (mul (mul (sub one (ba x)) (bb y)) (bu x)))
                    ra) in
  btry_new b d u a.

(* BOpinion::comul *)
Definition bcomul (x y : bop) : option bop :=
  let a := sub (add (ba x) (ba y)) (mul (ba x) (ba y)) in
  let b := sub (add (bb x) (bb y)) (mul (bb x) (bb y)) in
  let d := add (mul (bd x) (bd y))
               (div (add (mul (mul (mul (ba x) (sub one (ba y))) (bd x)) (bu y))
                         (mul (mul (mul (ba y) (sub one (ba x))) (bd y)) (bu x)))
                    a) in
  let u := add (mul (bu x) (bu y))
               (div (add (mul (mul (ba y) (bd x)) (bu y))
                         (mul (mul (ba x) (bd y)) (bu x)))
                    a) in
  btry_new b d u a.

(* BOpinion::cfuse *)
Definition bcfuse (x y : bop) : option bop :=
  let uu := mul (bu x) (bu y) in
  let kappa := sub (add (bu x) (bu y)) uu in
  let b := div (add (mul (bb x) (bu y)) (mul (bb y) (bu x))) kappa in
  let d := div (add (mul (bd x) (bu y)) (mul (bd y) (bu x))) kappa in
  let u := div (mul (bu x) (bu y)) kappa in
  let a := if is_one (bu x) && is_one (bu y) then div (add (ba x) (ba y)) two
           else
             let ca := sub one (bu x) in
             let cb := sub one (bu y) in
             div (add (mul (mul (ba x) (bu y)) ca) (mul (mul (ba y) (bu x)) cb))
                 (add (mul (bu y) ca) (mul (bu x) cb)) in
  btry_new b d u a.

(* BOpinion::afuse *)
Definition bafuse (x y : bop) (gamma_a : V) : option bop :=
  if is_zero (bu x) && is_zero (bu y) then
    let gamma_b := sub one gamma_a in
    btry_new (add (mul gamma_a (bb x)) (mul gamma_b (bb y)))
             (add (mul gamma_a (bd x)) (mul gamma_b (bd y)))
             zero
             (add (mul gamma_a (ba x)) (mul gamma_b (ba y)))
  else
    let upu := add (bu x) (bu y) in
    btry_new (div (add (mul (bb x) (bu y)) (mul (bb y) (bu x))) upu)
             (div (add (mul (bd x) (bu y)) (mul (bd y) (bu x))) upu)
             (div (mul (mul two (bu x)) (bu y)) upu)
             (div (add (ba x) (ba y)) two).

(* BOpinion::wfuse *)
Definition bwfuse (x y : bop) (gamma_a : V) : option bop :=
  if is_zero (bu x) && is_zero (bu y) then
    let gamma_b := sub one gamma_a in
    btry_new (add (mul gamma_a (bb x)) (mul gamma_b (bb y)))
             (add (mul gamma_a (bd x)) (mul gamma_b (bd y)))
             zero
             (add (mul gamma_a (ba x)) (mul gamma_b (ba y)))
  else if is_one (bu x) && is_one (bu y) then
    btry_new zero zero one (div (add (ba x) (ba y)) two)
  else
    let ca := sub one (bu x) in
    let cb := sub one (bu y) in
    let denom := add (mul (bu x) cb) (mul (bu y) ca) in
    let csum := add ca cb in
    btry_new (div (add (mul (mul (bb x) ca) (bu y)) (mul (mul (bb y) cb) (bu x))) denom)
             (div (add (mul (mul (bd x) ca) (bu y)) (mul (mul (bd y) cb) (bu x))) denom)
             (div (mul (mul csum (bu x)) (bu y)) denom)
             (div (add (mul (ba x) ca) (mul (ba y) cb)) csum).

(* BOpinion::deduce: c0 = y|x, c1 = y|~x given as (b,d,u) *)
Definition bdeduce (x : bop) (c0 c1 : V * V * V) (ay : V) : option bop :=
  let '(b0, d0, u0) := c0 in
  let '(b1, d1, u1) := c1 in
  let ax := ba x in
  let rvax := sub one ax in
  let mix := fun (v0 v1 : V) =>
    add (add (mul (bb x) v0) (mul (bd x) v1))
        (mul (bu x) (add (mul v0 ax) (mul v1 rvax))) in
  let bi := mix b0 b1 in
  let di := mix d0 d1 in
  let ui := mix u0 u1 in
  let bp := gtb b0 b1 in
  let dp := gtb d0 d1 in
  let k :=
    if Bool.eqb bp dp then zero
    else if (bp && negb dp) && eqb d0 d1 then zero
    else if (negb bp && dp) && eqb b0 b1 then zero
    else
      let pyx := add (add (mul b0 ax) (mul b1 rvax))
                     (mul ay (add (mul u0 ax) (mul u1 rvax))) in
      let px := bprojection x in
      let r := if bp then add b1 (mul ay (sub (sub one b1) d0))
               else add b0 (mul ay (sub (sub one b0) d1)) in
      let ux := bu x in
      match gtb pyx r, gtb px ax with
      | false, false =>
          if bp then div (mul (mul ax ux) (sub bi b1)) (mul px ay)
          else div (mul (mul (mul rvax ux) (sub di d1)) (sub b1 b0))
                   (mul (mul px ay) (sub d0 d1))
      | false, true =>
          if bp then div (mul (mul (mul ax ux) (sub di d0)) (sub b0 b1))
                         (mul (mul (sub one px) ay) (sub d1 d0))
          else div (mul (mul rvax ux) (sub bi b0)) (mul (sub one px) ay)
      | true, false =>
          if bp then div (mul (mul (mul rvax ux) (sub bi b1)) (sub d1 d0))
                         (mul (mul px (sub one ay)) (sub b0 b1))
          else div (mul (mul ax ux) (sub di d1)) (mul px (sub one ay))
      | true, true =>
          if bp then div (mul (mul rvax ux) (sub di d0)) (mul (sub one px) (sub one ay))
          else div (mul (mul (mul ax ux) (sub bi b0)) (sub d0 d1))
                   (mul (mul (sub one px) (sub one ay)) (sub b1 b0))
      end in
  btry_new (sub bi (mul ay k)) (sub di (mul (sub one ay) k)) (add ui k) ay.

(* BOpinion::trans_unc / trans_opp / trans_bsr; the unwrap()ed argument checks
   make them None as well *)
Definition btrans_unc (x : bop) (t : V) : option bop :=
  if in_unit t then
    btry_new (mul t (bb x)) (mul t (bd x)) (add (sub one t) (mul t (bu x))) (ba x)
  else None.

Definition btrans_opp (x : bop) (t s : V) : option bop :=
  let u := sub (sub one t) s in
  if in_unit u then
    btry_new (add (mul t (bb x)) (mul s (bd x)))
             (add (mul t (bd x)) (mul s (bb x)))
             (add u (mul (add t s) (bu x)))
             (ba x)
  else None.

Definition btrans_bsr (x : bop) (ev : V) : option bop :=
  if in_unit ev then
    btry_new (mul ev (bb x)) (mul ev (bd x))
             (sub one (mul ev (add (bb x) (bd x)))) (ba x)
  else None.

(* convert.rs *)
Definition bop_to_mul (x : bop) : opinion (B:=B) :=
  ([bb x; bd x], bu x, [ba x; sub one (ba x)]).
Definition mul_to_bop (w : opinion (B:=B)) : bop :=
  let '(b, u, a) := w in mkbop (get b 0) (get b 1) u (get a 0).

End Bi.
