(* Uniform entry point of the executable model: one operation = opcode, a list of
   small integers (dimensions, flags) and a flat list of numbers; the answer is
   a status (0 = value, 1 = absent / panic / Err) and a flat list of numbers.
   Used by the extracted runner (ocaml/) and by vm_compute.  No proofs here. *)
From Coq Require Import List Bool ZArith.
Import ListNotations.
From SL Require Import Model.Num Model.Vec Model.Mul Model.Bi.

Inductive opcode : Type :=
| OProj | OMaxU | OUMax | ODisc | ODiscChain
| OFuse | OFuseS | OFuseSS | OFold
| OMbr | ODeduce | ODeduceWith | OInverse | OAbduce | OAbduceWith
| OProd2 | OProd3 | OMerge
| OBProj | OBMul | OBComul | OBCfuse | OBAfuse | OBWfuse | OBDeduce
| OBTUnc | OBTOpp | OBTBsr | OB2M | OBNew | OMNew.

Section Run.
Context {B : Fld}.
Variable eps : F B.
Notation V := (@V B).

Definition pop (n : nat) (xs : list V) : list V * list V := (firstn n xs, skipn n xs).
Definition pop1 (xs : list V) : V * list V :=
  match xs with x :: r => (x, r) | [] => (None, []) end.

Definition pop_simplex (n : nat) (xs : list V) : simplex * list V :=
  let '(b, r) := pop n xs in
  let '(u, r) := pop1 r in ((b, u), r).

Definition pop_opinion (n : nat) (xs : list V) : opinion * list V :=
  let '(b, r) := pop n xs in
  let '(u, r) := pop1 r in
  let '(a, r) := pop n r in ((b, u, a), r).

Fixpoint pop_simplexes (k n : nat) (xs : list V) : list simplex * list V :=
  match k with
  | O => ([], xs)
  | S k' => let '(s, r) := pop_simplex n xs in
            let '(ss, r') := pop_simplexes k' n r in (s :: ss, r')
  end.

Fixpoint pop_opinions (k n : nat) (xs : list V) : list (@opinion B) * list V :=
  match k with
  | O => ([], xs)
  | S k' => let '(s, r) := pop_opinion n xs in
            let '(ss, r') := pop_opinions k' n r in (s :: ss, r')
  end.

Definition pop_bop (xs : list V) : bop * list V :=
  match xs with
  | b :: d :: u :: a :: r => (mkbop b d u a, r)
  | _ => (mkbop None None None None, [])
  end.

Definition flat_simplex (s : @simplex B) : list V := bel s ++ [unc s].
Definition flat_opinion (w : @opinion B) : list V :=
  let '(b, u, a) := w in b ++ [u] ++ a.
Definition flat_bop (w : bop) : list V := [bb w; bd w; bu w; ba w].

Definition ok (l : list V) : Z * list V := (0%Z, l).
Definition absent : Z * list V := (1%Z, []).
Definition of_opt {X : Type} (f : X -> list V) (o : option X) : Z * list V :=
  match o with Some x => ok (f x) | None => absent end.

Definition op_of_nat (k : nat) : fuse_op :=
  match k with 0 => ACm | 1 => ECm | 2 => Avg | _ => Wgh end.
Definition flag (k : nat) : bool := match k with 0 => false | _ => true end.
Definition vflag (b : bool) : V := if b then one else zero.

Definition dim (dims : list nat) (i : nat) : nat := nth i dims 0.

Definition run (op : opcode) (dims : list nat) (xs : list V) : Z * list V :=
  let d := dim dims in
  match op with
  | OProj => let '(b, u, a, _) := pop_opinion (d 0) xs in ok (projection b u a)
  | OMaxU => let '(b, u, a, _) := pop_opinion (d 0) xs in ok [max_uncertainty eps b u a]
  | OUMax => let '(b, u, a, _) := pop_opinion (d 0) xs in
             ok (flat_simplex (uncertainty_maximized eps b u a))
  | ODisc => let '(s, r) := pop_simplex (d 0) xs in
             let '(t, _) := pop1 r in ok (flat_simplex (discount eps (bel s) (unc s) t))
  | ODiscChain =>
      let '(s, r) := pop_simplex (d 0) xs in
      ok (flat_simplex (fold_left (fun s t => discount eps (bel s) (unc s) t) (firstn (d 1) r) s))
  | OFuse =>
      let '(l, r) := pop_opinion (d 0) xs in
      let '(r, _) := pop_opinion (d 0) r in
      ok (flat_opinion (fuse eps (op_of_nat (d 1)) (flag (d 2)) l r))
  | OFuseS =>
      let '(l, r) := pop_opinion (d 0) xs in
      let '(r, _) := pop_simplex (d 0) r in
      ok (flat_opinion (fuse_simplex_rhs eps (op_of_nat (d 1)) l r))
  | OFuseSS =>
      let '(l, r) := pop_simplex (d 0) xs in
      let '(r, _) := pop_simplex (d 0) r in
      of_opt flat_simplex (fuse_simplexes eps (op_of_nat (d 1)) l r)
  | OFold =>
      let '(ws, _) := pop_opinions (d 2) (d 0) xs in
      match ws with
      | [] => absent
      | w :: rest => ok (flat_opinion (fold_left (fun acc w' => fuse eps (op_of_nat (d 1)) false acc w') rest w))
      end
  | OMbr =>
      let '(ax, r) := pop (d 0) xs in
      let '(cs, _) := pop_simplexes (d 0) (d 1) r in
      of_opt (fun l => l) (mbr eps (d 1) ax cs)
  | ODeduce =>
      let '(w, r) := pop_opinion (d 0) xs in
      let '(cs, _) := pop_simplexes (d 0) (d 1) r in
      of_opt flat_opinion (deduce eps (d 1) w cs)
  | ODeduceWith =>
      let '(w, r) := pop_opinion (d 0) xs in
      let '(cs, r) := pop_simplexes (d 0) (d 1) r in
      let '(fb, _) := pop (d 1) r in
      let '(res, used) := deduce_with eps (d 1) w cs fb in
      ok (vflag used :: flat_opinion res)
  | OInverse =>
      let '(cs, r) := pop_simplexes (d 0) (d 1) xs in
      let '(ax, r) := pop (d 0) r in
      let '(ay, _) := pop (d 1) r in
      ok (flat_map flat_simplex (inverse eps cs ax ay))
  | OAbduce =>
      let '(wy, r) := pop_simplex (d 1) xs in
      let '(cs, r) := pop_simplexes (d 0) (d 1) r in
      let '(ax, _) := pop (d 0) r in
      of_opt flat_opinion (abduce eps wy cs ax (d 1))
  | OAbduceWith =>
      let '(wy, r) := pop_simplex (d 1) xs in
      let '(cs, r) := pop_simplexes (d 0) (d 1) r in
      let '(ax, r) := pop (d 0) r in
      let '(ay, _) := pop (d 1) r in
      ok (flat_opinion (abduce_with eps wy cs ax ay))
  | OProd2 =>
      let '(w0, r) := pop_opinion (d 0) xs in
      let '(w1, _) := pop_opinion (d 1) r in
      if flag (d 2) then ok (flat_opinion (product2_lab w0 w1))
      else of_opt flat_opinion (product2 eps w0 w1)
  | OProd3 =>
      let '(w0, r) := pop_opinion (d 0) xs in
      let '(w1, r) := pop_opinion (d 1) r in
      let '(w2, _) := pop_opinion (d 2) r in
      if flag (d 3) then ok (flat_opinion (product3_lab w0 w1 w2))
      else of_opt flat_opinion (product3 eps w0 w1 w2)
  | OMerge =>
      let '(c1, r) := pop_simplexes (d 0) (d 2) xs in
      let '(c2, r) := pop_simplexes (d 1) (d 2) r in
      let '(ax1, r) := pop (d 0) r in
      let '(ax2, r) := pop (d 1) r in
      let '(ay, _) := pop (d 2) r in
      of_opt (flat_map flat_simplex) (merge_cond2 eps (flag (d 3)) c1 c2 ax1 ax2 ay)
  | OBProj => let '(x, _) := pop_bop xs in ok [bprojection x]
  | OBMul => let '(x, r) := pop_bop xs in let '(y, _) := pop_bop r in
             of_opt flat_bop (bmul eps x y)
  | OBComul => let '(x, r) := pop_bop xs in let '(y, _) := pop_bop r in
               of_opt flat_bop (bcomul eps x y)
  | OBCfuse => let '(x, r) := pop_bop xs in let '(y, _) := pop_bop r in
               of_opt flat_bop (bcfuse eps x y)
  | OBAfuse => let '(x, r) := pop_bop xs in let '(y, r) := pop_bop r in
               let '(g, _) := pop1 r in of_opt flat_bop (bafuse eps x y g)
  | OBWfuse => let '(x, r) := pop_bop xs in let '(y, r) := pop_bop r in
               let '(g, _) := pop1 r in of_opt flat_bop (bwfuse eps x y g)
  | OBDeduce =>
      let '(x, r) := pop_bop xs in
      match r with
      | b0 :: d0 :: u0 :: b1 :: d1 :: u1 :: ay :: _ =>
          of_opt flat_bop (bdeduce eps x (b0, d0, u0) (b1, d1, u1) ay)
      | _ => absent
      end
  | OBTUnc => let '(x, r) := pop_bop xs in let '(t, _) := pop1 r in
              of_opt flat_bop (btrans_unc eps x t)
  | OBTOpp => let '(x, r) := pop_bop xs in let '(t, r) := pop1 r in let '(s, _) := pop1 r in
              of_opt flat_bop (btrans_opp eps x t s)
  | OBTBsr => let '(x, r) := pop_bop xs in let '(t, _) := pop1 r in
              of_opt flat_bop (btrans_bsr eps x t)
  | OB2M => let '(x, _) := pop_bop xs in ok (flat_opinion (bop_to_mul x))
  | OBNew => let '(x, _) := pop_bop xs in
             of_opt flat_bop (btry_new eps (bb x) (bd x) (bu x) (ba x))
  | OMNew => let '(b, u, a, _) := pop_opinion (d 0) xs in
             if check_simplex eps b u && check_base_rate eps a then ok (b ++ [u] ++ a) else absent
  end.

End Run.
