(* Extraction of the rational instance of the model to OCaml.
   Directives used: exactly those of ExtrOcamlBasic (Extract Inductive for bool,
   option, unit, list, prod, sumbool, sumor; Extract Inlined Constant andb, orb);
   Z, positive, Q, nat stay Coq datatypes. *)
From Coq Require Import QArith List ZArith.
From Coq Require Extraction ExtrOcamlBasic.
From SL Require Import Model.Num Model.InstQ Model.Run Model.ArrRun.

Definition runQ (eps : Q) (op : opcode) (dims : list nat) (xs : list (option Q))
  : Z * list (option Q) := @run FldQ eps op dims xs.

(* reduce an input rational given as numerator / denominator *)
Definition mkQ (n : Z) (d : positive) : Q := Qred (Qmake n d).

Extraction Language OCaml.
Extraction "../ocaml/model.ml" runQ mkQ run_arr.
