(* Transfer between the two instances of the polymorphic model, by parametricity.

   The model (Model/Num.v ... Model/Run.v) is written once, polymorphic in [Fld].
   The correspondence check executes the EXTRACTED rational instance [FldQ]; the theorems
   of Facts/ and Props/ are about the real instance [FldR].  This file closes the gap:

   1. [relQR q r := Q2R q = r] and [FldQR : Fld_R FldQ FldR]: every constant, operation and
      comparison of [FldQ] is related to the one of [FldR] (the rational one computes,
      after [Qred], exactly the rational whose real image the real one returns, and the
      boolean comparisons agree).
   2. Paramcoq's [Parametricity Recursive run] produces, for every function [f] of the model,
      the "free theorem" [f_R]: related instances and related inputs give related outputs.
   3. [run_transfer] (the extracted entry point) and one [*_transfer] per operator restate
      those free theorems with ordinary relations ([Forall2], [=], [/\]).
   4. [discount_Q_defined_wf] is a worked instance: the real theorem C10
      ([discount_defined], [discount_wf]) read as a statement about what [FldQ] computes.

   No axiom is added; the only axioms in [Print Assumptions] are the ones of the stdlib
   real numbers that the real instance and its theorems already depend on. *)
From Coq Require Import List Bool ZArith QArith Qreduction Reals Qreals Lra.
Import ListNotations.
From Param Require Import Param.
From SL Require Import Model.Num Model.Vec Model.Mul Model.Bi Model.InstQ Model.InstR Model.Run.
From SL Require Import Facts.RBase Facts.Discount.

(* ------------------------------------------------------------------------------------ *)
(** * 1. The relation between the carriers and the related instance *)

Definition relQR (q : Q) (r : R) : Prop := Q2R q = r.

Lemma Q2R_0 : Q2R 0 = 0%R.
Proof. unfold Q2R; simpl; lra. Qed.
Lemma Q2R_1 : Q2R 1 = 1%R.
Proof. unfold Q2R; simpl; lra. Qed.

(* [Q2R_div] of the stdlib needs a non-zero divisor; it holds for a zero divisor as well
   because [/ 0 = 0] on both sides ([Qinv 0 = 0] by computation, [Rinv_0]). *)
Lemma Q2R_div_total (a b : Q) : Q2R (a / b) = (Q2R a / Q2R b)%R.
Proof.
  destruct (Qeq_dec b 0) as [E | E].
  - assert (Ea : a / b == 0).
    { rewrite E. unfold Qdiv. change (/ 0)%Q with 0%Q. apply Qmult_0_r. }
    rewrite (Qeq_eqR _ _ Ea), (Qeq_eqR _ _ E), Q2R_0.
    unfold Rdiv. rewrite Rinv_0. lra.
  - apply Q2R_div, E.
Qed.

Lemma relQR_0 : relQR 0 0%R.
Proof. exact Q2R_0. Qed.
Lemma relQR_1 : relQR 1 1%R.
Proof. exact Q2R_1. Qed.

Lemma relQR_add a a' : relQR a a' -> forall b b', relQR b b' -> relQR (Qred (a + b)) (a' + b')%R.
Proof. unfold relQR; intros <- b b' <-. rewrite (Qeq_eqR _ _ (Qred_correct _)). apply Q2R_plus. Qed.
Lemma relQR_sub a a' : relQR a a' -> forall b b', relQR b b' -> relQR (Qred (a - b)) (a' - b')%R.
Proof. unfold relQR; intros <- b b' <-. rewrite (Qeq_eqR _ _ (Qred_correct _)). apply Q2R_minus. Qed.
Lemma relQR_mul a a' : relQR a a' -> forall b b', relQR b b' -> relQR (Qred (a * b)) (a' * b')%R.
Proof. unfold relQR; intros <- b b' <-. rewrite (Qeq_eqR _ _ (Qred_correct _)). apply Q2R_mult. Qed.
Lemma relQR_div a a' : relQR a a' -> forall b b', relQR b b' -> relQR (Qred (a / b)) (a' / b')%R.
Proof. unfold relQR; intros <- b b' <-. rewrite (Qeq_eqR _ _ (Qred_correct _)). apply Q2R_div_total. Qed.

Lemma Qle_bool_Rleb a b : Qle_bool a b = Rleb (Q2R a) (Q2R b).
Proof.
  unfold Rleb. destruct (Rle_dec (Q2R a) (Q2R b)) as [H | H].
  - apply Qle_bool_iff, Rle_Qle, H.
  - destruct (Qle_bool a b) eqn:E; [| reflexivity].
    exfalso. apply H, Qle_Rle, Qle_bool_iff, E.
Qed.
Lemma Qlt_bool_Rltb a b : negb (Qle_bool b a) = Rltb (Q2R a) (Q2R b).
Proof.
  rewrite Qle_bool_Rleb. unfold Rleb, Rltb.
  destruct (Rle_dec (Q2R b) (Q2R a)), (Rlt_dec (Q2R a) (Q2R b)); simpl; try reflexivity; exfalso; lra.
Qed.
Lemma Qeq_bool_Reqb a b : Qeq_bool a b = Reqb (Q2R a) (Q2R b).
Proof.
  unfold Reqb. destruct (Req_EM_T (Q2R a) (Q2R b)) as [H | H].
  - apply Qeq_bool_iff, eqR_Qeq, H.
  - destruct (Qeq_bool a b) eqn:E; [| reflexivity].
    exfalso. apply H, Qeq_eqR, Qeq_bool_iff, E.
Qed.

(* relational interpretations of the data types the model uses (names fixed by hand where the
   short names of two stdlib/model constants clash: [Bool.eqb]/[Num.eqb], [Nat.add]/[Num.add],
   [Nat.mul]/[Num.mul]) *)
Parametricity Recursive bool.
Parametricity Recursive nat.
Parametricity Bool.eqb as bool_eqb_R.
Parametricity Nat.add as nat_add_R.
Parametricity Nat.mul as nat_mul_R.

Lemma bool_R_of_eq (b1 b2 : bool) : b1 = b2 -> bool_R b1 b2.
Proof. intros <-. destruct b1; constructor. Qed.
Lemma bool_R_eq (b1 b2 : bool) : bool_R b1 b2 -> b1 = b2.
Proof. destruct 1; reflexivity. Qed.

(* ------------------------------------------------------------------------------------ *)
(** * 2. Free theorems of the whole model *)

(* [run] calls every operator of Model/Mul.v and Model/Bi.v, so this one command generates
   [Fld_R] and [f_R] for every model function [f] ([projection_R], [discount_R], [fuse_R],
   [mbr_R], [deduce_R], [deduce_with_R], [inverse_R], [abduce_R], [product2_R], ...,
   [merge_cond2_R], [bmul_R], ..., [btrans_bsr_R], [run_R]). *)
Parametricity Recursive run.
Parametricity Recursive mul_to_bop.

Lemma relQR_leb a a' : relQR a a' -> forall b b', relQR b b' -> bool_R (Qle_bool a b) (Rleb a' b').
Proof. unfold relQR; intros <- b b' <-. apply bool_R_of_eq, Qle_bool_Rleb. Qed.
Lemma relQR_ltb a a' : relQR a a' -> forall b b', relQR b b' ->
  bool_R (negb (Qle_bool b a)) (Rltb a' b').
Proof. unfold relQR; intros <- b b' <-. apply bool_R_of_eq, Qlt_bool_Rltb. Qed.
Lemma relQR_eqb a a' : relQR a a' -> forall b b', relQR b b' -> bool_R (Qeq_bool a b) (Reqb a' b').
Proof. unfold relQR; intros <- b b' <-. apply bool_R_of_eq, Qeq_bool_Reqb. Qed.

(* The instance: transparent (so that [F_R FldQ FldR FldQR] computes to [relQR]); all its
   proof components are the [Qed]-closed lemmas above. *)
Definition FldQR : Fld_R FldQ FldR :=
  Fld_R_mkFld_R Q R relQR
    0%Q 0%R relQR_0 1%Q 1%R relQR_1
    _ _ relQR_add _ _ relQR_sub _ _ relQR_mul _ _ relQR_div
    _ _ relQR_leb _ _ relQR_ltb _ _ relQR_eqb.

Lemma F_R_FldQR : F_R FldQ FldR FldQR = relQR.
Proof. reflexivity. Qed.

(* ------------------------------------------------------------------------------------ *)
(** * 3. Readable relations, and their equivalence with the generated ones *)

Definition relOpt {A B : Type} (P : A -> B -> Prop) (o1 : option A) (o2 : option B) : Prop :=
  match o1, o2 with
  | Some a, Some b => P a b
  | None, None => True
  | _, _ => False
  end.

Definition relPair {A B C D : Type} (P1 : A -> B -> Prop) (P2 : C -> D -> Prop)
           (p : A * C) (q : B * D) : Prop :=
  P1 (fst p) (fst q) /\ P2 (snd p) (snd q).

(* model numbers: None ~ None (NaN on both sides), Some q ~ Some r iff Q2R q = r *)
Definition relV (x : option Q) (y : option R) : Prop := relOpt relQR x y.

Lemma relV_Some q r : relV (Some q) (Some r) <-> Q2R q = r.
Proof. reflexivity. Qed.
Lemma relV_None : relV None None.
Proof. exact I. Qed.

(* vectors, simplexes (b, u), opinions (b, u, a), triples, binomial opinions *)
Notation relL := (Forall2 relV).
Notation relS := (relPair relL relV).
Notation relO := (relPair relS relL).
Notation relT := (relPair (relPair relV relV) relV).
Definition relB (x : bop (B:=FldQ)) (y : bop (B:=FldR)) : Prop :=
  relV (bb x) (bb y) /\ relV (bd x) (bd y) /\ relV (bu x) (bu y) /\ relV (ba x) (ba y).

(* [Rd RT RP]: the generated (Type-valued) relation [RT] and the readable one [RP] are
   equivalent. *)
Class Rd {A B : Type} (RT : A -> B -> Type) (RP : A -> B -> Prop) : Type :=
  { to_R : forall a b, RP a b -> RT a b;
    of_R : forall a b, RT a b -> RP a b }.

Lemma nat_R_of_eq (n m : nat) : n = m -> nat_R n m.
Proof. intros <-. induction n; constructor; assumption. Qed.
Lemma nat_R_eq (n m : nat) : nat_R n m -> n = m.
Proof. induction 1; congruence. Qed.
Lemma positive_R_of_eq (n m : positive) : n = m -> positive_R n m.
Proof. intros <-. induction n; constructor; assumption. Qed.
Lemma positive_R_eq (n m : positive) : positive_R n m -> n = m.
Proof. induction 1; congruence. Qed.
Lemma Z_R_of_eq (n m : Z) : n = m -> Z_R n m.
Proof. intros <-. destruct n; constructor; apply positive_R_of_eq; reflexivity. Qed.
Lemma Z_R_eq (n m : Z) : Z_R n m -> n = m.
Proof. destruct 1 as [| p q H | p q H]; try apply positive_R_eq in H; congruence. Qed.
Lemma fuse_op_R_of_eq (n m : fuse_op) : n = m -> fuse_op_R n m.
Proof. intros <-. destruct n; constructor. Qed.
Lemma fuse_op_R_eq (n m : fuse_op) : fuse_op_R n m -> n = m.
Proof. destruct 1; reflexivity. Qed.
Lemma opcode_R_of_eq (n m : opcode) : n = m -> opcode_R n m.
Proof. intros <-. destruct n; constructor. Qed.
Lemma opcode_R_eq (n m : opcode) : opcode_R n m -> n = m.
Proof. destruct 1; reflexivity. Qed.

#[global] Instance Rd_bool : Rd bool_R eq := {| to_R := bool_R_of_eq; of_R := bool_R_eq |}.
#[global] Instance Rd_nat : Rd nat_R eq := {| to_R := nat_R_of_eq; of_R := nat_R_eq |}.
#[global] Instance Rd_Z : Rd Z_R eq := {| to_R := Z_R_of_eq; of_R := Z_R_eq |}.
#[global] Instance Rd_fuse_op : Rd fuse_op_R eq := {| to_R := fuse_op_R_of_eq; of_R := fuse_op_R_eq |}.
#[global] Instance Rd_opcode : Rd opcode_R eq := {| to_R := opcode_R_of_eq; of_R := opcode_R_eq |}.

Section Lift.
Context {A B : Type} (RT : A -> B -> Type) (RP : A -> B -> Prop) {H : Rd RT RP}.

Lemma option_R_of_rel o1 o2 : relOpt RP o1 o2 -> option_R A B RT o1 o2.
Proof.
  destruct o1, o2; simpl; intros HP; try (exfalso; exact HP); constructor.
  apply to_R, HP.
Qed.
Lemma option_R_rel o1 o2 : option_R A B RT o1 o2 -> relOpt RP o1 o2.
Proof. destruct 1; simpl; [apply of_R; assumption | exact I]. Qed.

(* [Forall2] lives in Prop and [list_R] in Type: recursion on the lists, not on the proof *)
Lemma list_R_of_rel l1 : forall l2, Forall2 RP l1 l2 -> list_R A B RT l1 l2.
Proof.
  induction l1 as [| a l1 IH]; intros [| b l2] HP.
  - constructor.
  - exfalso. inversion HP.
  - exfalso. inversion HP.
  - assert (RP a b /\ Forall2 RP l1 l2) as [H1 H2] by (inversion HP; split; assumption).
    constructor; [apply to_R, H1 | apply IH, H2].
Qed.
Lemma list_R_rel l1 l2 : list_R A B RT l1 l2 -> Forall2 RP l1 l2.
Proof. induction 1; constructor; [apply of_R |]; assumption. Qed.

Context {C D : Type} (RT' : C -> D -> Type) (RP' : C -> D -> Prop) {H' : Rd RT' RP'}.

Lemma prod_R_of_rel p q : relPair RP RP' p q -> prod_R A B RT C D RT' p q.
Proof. destruct p, q; intros [H1 H2]; simpl in *. constructor; apply to_R; assumption. Qed.
Lemma prod_R_rel p q : prod_R A B RT C D RT' p q -> relPair RP RP' p q.
Proof. destruct 1; split; simpl; apply of_R; assumption. Qed.
End Lift.

#[global] Instance Rd_option {A B} RT RP (H : @Rd A B RT RP) : Rd (option_R A B RT) (relOpt RP) :=
  {| to_R := option_R_of_rel RT RP; of_R := option_R_rel RT RP |}.
#[global] Instance Rd_list {A B} RT RP (H : @Rd A B RT RP) : Rd (list_R A B RT) (Forall2 RP) :=
  {| to_R := list_R_of_rel RT RP; of_R := list_R_rel RT RP |}.
#[global] Instance Rd_prod {A B C D} RT RP RT' RP' (H : @Rd A B RT RP) (H' : @Rd C D RT' RP') :
  Rd (prod_R A B RT C D RT') (relPair RP RP') :=
  {| to_R := prod_R_of_rel RT RP RT' RP'; of_R := prod_R_rel RT RP RT' RP' |}.

#[global] Instance Rd_QR : Rd (F_R FldQ FldR FldQR) relQR :=
  {| to_R := fun a b (h : relQR a b) => h : F_R FldQ FldR FldQR a b;
     of_R := fun a b (h : F_R FldQ FldR FldQR a b) => h : relQR a b |}.

#[global] Instance Rd_V : Rd (V_R FldQ FldR FldQR) relV := Rd_option _ _ Rd_QR.

Lemma bop_R_of_rel x y : relB x y -> bop_R FldQ FldR FldQR x y.
Proof.
  destruct x, y; unfold relB; simpl; intros (H1 & H2 & H3 & H4).
  constructor; apply (to_R (RP:=relV)); assumption.
Qed.
Lemma bop_R_rel x y : bop_R FldQ FldR FldQR x y -> relB x y.
Proof. destruct 1; unfold relB; simpl; repeat split; apply (of_R (RP:=relV)); assumption. Qed.
#[global] Instance Rd_bop : Rd (bop_R FldQ FldR FldQR) relB := {| to_R := bop_R_of_rel; of_R := bop_R_rel |}.

Lemma relQR_eps (e : Q) : F_R FldQ FldR FldQR e (Q2R e).
Proof. exact (eq_refl (Q2R e)). Qed.

Lemma Forall2_eq_refl {A} (l : list A) : Forall2 eq l l.
Proof. induction l; constructor; auto. Qed.

(* a free theorem [lem], instantiated at [FldQR], read through [Rd] *)
Ltac transfer lem :=
  intros; apply of_R;
  apply (lem FldQ FldR FldQR);
  first [ apply relQR_eps | apply to_R; first [ assumption | reflexivity | apply Forall2_eq_refl ] ].

(* ------------------------------------------------------------------------------------ *)
(** ** The entry point the correspondence check executes *)

(* Same opcode, same dimensions, related numbers in; then: SAME status out and related
   numbers out.  (So e.g. "the real model returns a value" - status 0, all outputs [Some] - is
   equivalent to "the executed rational model returns a value", and the returned rationals are
   exactly the real results.) *)
Theorem run_transfer : forall (eps_q : Q) (op : opcode) (dims : list nat)
    (xs_q : list (option Q)) (xs_r : list (option R)),
  Forall2 relV xs_q xs_r ->
  let (sq, oq) := run (B:=FldQ) eps_q op dims xs_q in
  let (sr, or_) := run (B:=FldR) (Q2R eps_q) op dims xs_r in
  sq = sr /\ Forall2 relV oq or_.
Proof.
  intros eps_q op dims xs_q xs_r Hxs.
  assert (Hrun : relPair eq relL (run (B:=FldQ) eps_q op dims xs_q)
                                 (run (B:=FldR) (Q2R eps_q) op dims xs_r)).
  { revert Hxs. transfer (@run_R). }
  destruct (run (B:=FldQ) eps_q op dims xs_q), (run (B:=FldR) (Q2R eps_q) op dims xs_r).
  exact Hrun.
Qed.
Print Assumptions run_transfer.

(* ------------------------------------------------------------------------------------ *)
(** ** One corollary per operator *)

(* Shape: related operands in, related result out, where the rational model runs with guard
   tolerance [eps] and the real model with [Q2R eps].  For an [option] result, [relOpt] says in
   particular that the two models return [None] (panic / Err / absent) on the same operands. *)
Section Operators.
Variable eps : Q.
Notation epsR := (Q2R eps).

(* multinomial: Model/Mul.v *)
Theorem projection_transfer : forall b b' u u' a a', relL b b' -> relV u u' -> relL a a' ->
  relL (projection (B:=FldQ) b u a) (projection (B:=FldR) b' u' a').
Proof. transfer (@projection_R). Qed.

Theorem max_uncertainty_transfer : forall b b' u u' a a', relL b b' -> relV u u' -> relL a a' ->
  relV (max_uncertainty (B:=FldQ) eps b u a) (max_uncertainty (B:=FldR) epsR b' u' a').
Proof. transfer (@max_uncertainty_R). Qed.

Theorem uncertainty_maximized_transfer : forall b b' u u' a a',
  relL b b' -> relV u u' -> relL a a' ->
  relS (uncertainty_maximized (B:=FldQ) eps b u a) (uncertainty_maximized (B:=FldR) epsR b' u' a').
Proof. transfer (@uncertainty_maximized_R). Qed.

Theorem discount_transfer : forall b b' u u' t t', relL b b' -> relV u u' -> relV t t' ->
  relS (discount (B:=FldQ) eps b u t) (discount (B:=FldR) epsR b' u' t').
Proof. transfer (@discount_R). Qed.

Theorem fuse_transfer : forall op same l l' r r', relO l l' -> relO r r' ->
  relO (fuse (B:=FldQ) eps op same l r) (fuse (B:=FldR) epsR op same l' r').
Proof. transfer (@fuse_R). Qed.

Theorem fuse_simplex_rhs_transfer : forall op l l' r r', relO l l' -> relS r r' ->
  relO (fuse_simplex_rhs (B:=FldQ) eps op l r) (fuse_simplex_rhs (B:=FldR) epsR op l' r').
Proof. transfer (@fuse_simplex_rhs_R). Qed.

Theorem fuse_simplexes_transfer : forall op l l' r r', relS l l' -> relS r r' ->
  relOpt relS (fuse_simplexes (B:=FldQ) eps op l r) (fuse_simplexes (B:=FldR) epsR op l' r').
Proof. transfer (@fuse_simplexes_R). Qed.

Theorem mbr_transfer : forall ny ax ax' cs cs', relL ax ax' -> Forall2 relS cs cs' ->
  relOpt relL (mbr (B:=FldQ) eps ny ax cs) (mbr (B:=FldR) epsR ny ax' cs').
Proof. transfer (@mbr_R). Qed.

Theorem deduce_transfer : forall ny w w' cs cs', relO w w' -> Forall2 relS cs cs' ->
  relOpt relO (deduce (B:=FldQ) eps ny w cs) (deduce (B:=FldR) epsR ny w' cs').
Proof. transfer (@deduce_R). Qed.

(* the boolean "fallback base rate was used" flag is the same on both sides *)
Theorem deduce_with_transfer : forall ny w w' cs cs' fb fb',
  relO w w' -> Forall2 relS cs cs' -> relL fb fb' ->
  relPair relO eq (deduce_with (B:=FldQ) eps ny w cs fb) (deduce_with (B:=FldR) epsR ny w' cs' fb').
Proof. transfer (@deduce_with_R). Qed.

Theorem inverse_transfer : forall cs cs' ax ax' ay ay',
  Forall2 relS cs cs' -> relL ax ax' -> relL ay ay' ->
  Forall2 relS (inverse (B:=FldQ) eps cs ax ay) (inverse (B:=FldR) epsR cs' ax' ay').
Proof. transfer (@inverse_R). Qed.

Theorem abduce_transfer : forall wy wy' cs cs' ax ax' ny,
  relS wy wy' -> Forall2 relS cs cs' -> relL ax ax' ->
  relOpt relO (abduce (B:=FldQ) eps wy cs ax ny) (abduce (B:=FldR) epsR wy' cs' ax' ny).
Proof. transfer (@abduce_R). Qed.

Theorem abduce_with_transfer : forall wy wy' cs cs' ax ax' ay ay',
  relS wy wy' -> Forall2 relS cs cs' -> relL ax ax' -> relL ay ay' ->
  relO (abduce_with (B:=FldQ) eps wy cs ax ay) (abduce_with (B:=FldR) epsR wy' cs' ax' ay').
Proof. transfer (@abduce_with_R). Qed.

Theorem product2_transfer : forall w0 w0' w1 w1', relO w0 w0' -> relO w1 w1' ->
  relOpt relO (product2 (B:=FldQ) eps w0 w1) (product2 (B:=FldR) epsR w0' w1').
Proof. transfer (@product2_R). Qed.

Theorem product2_lab_transfer : forall w0 w0' w1 w1', relO w0 w0' -> relO w1 w1' ->
  relO (product2_lab (B:=FldQ) w0 w1) (product2_lab (B:=FldR) w0' w1').
Proof. transfer (@product2_lab_R). Qed.

Theorem product3_transfer : forall w0 w0' w1 w1' w2 w2', relO w0 w0' -> relO w1 w1' -> relO w2 w2' ->
  relOpt relO (product3 (B:=FldQ) eps w0 w1 w2) (product3 (B:=FldR) epsR w0' w1' w2').
Proof. transfer (@product3_R). Qed.

Theorem product3_lab_transfer : forall w0 w0' w1 w1' w2 w2',
  relO w0 w0' -> relO w1 w1' -> relO w2 w2' ->
  relO (product3_lab (B:=FldQ) w0 w1 w2) (product3_lab (B:=FldR) w0' w1' w2').
Proof. transfer (@product3_lab_R). Qed.

Theorem merge_cond2_transfer : forall lab c1 c1' c2 c2' ax1 ax1' ax2 ax2' ay ay',
  Forall2 relS c1 c1' -> Forall2 relS c2 c2' -> relL ax1 ax1' -> relL ax2 ax2' -> relL ay ay' ->
  relOpt (Forall2 relS) (merge_cond2 (B:=FldQ) eps lab c1 c2 ax1 ax2 ay)
                        (merge_cond2 (B:=FldR) epsR lab c1' c2' ax1' ax2' ay').
Proof. transfer (@merge_cond2_R). Qed.

(* the validating constructors (Simplex::try_new / MultinomialOpinion::try_new): same verdict *)
Theorem check_simplex_transfer : forall b b' u u', relL b b' -> relV u u' ->
  check_simplex (B:=FldQ) eps b u = check_simplex (B:=FldR) epsR b' u'.
Proof. transfer (@check_simplex_R). Qed.

Theorem check_base_rate_transfer : forall a a', relL a a' ->
  check_base_rate (B:=FldQ) eps a = check_base_rate (B:=FldR) epsR a'.
Proof. transfer (@check_base_rate_R). Qed.

(* binomial: Model/Bi.v *)
Theorem btry_new_transfer : forall b b' d d' u u' a a',
  relV b b' -> relV d d' -> relV u u' -> relV a a' ->
  relOpt relB (btry_new (B:=FldQ) eps b d u a) (btry_new (B:=FldR) epsR b' d' u' a').
Proof. transfer (@btry_new_R). Qed.

Theorem bprojection_transfer : forall x x', relB x x' ->
  relV (bprojection (B:=FldQ) x) (bprojection (B:=FldR) x').
Proof. transfer (@bprojection_R). Qed.

Theorem bmul_transfer : forall x x' y y', relB x x' -> relB y y' ->
  relOpt relB (bmul (B:=FldQ) eps x y) (bmul (B:=FldR) epsR x' y').
Proof. transfer (@bmul_R). Qed.

Theorem bcomul_transfer : forall x x' y y', relB x x' -> relB y y' ->
  relOpt relB (bcomul (B:=FldQ) eps x y) (bcomul (B:=FldR) epsR x' y').
Proof. transfer (@bcomul_R). Qed.

Theorem bcfuse_transfer : forall x x' y y', relB x x' -> relB y y' ->
  relOpt relB (bcfuse (B:=FldQ) eps x y) (bcfuse (B:=FldR) epsR x' y').
Proof. transfer (@bcfuse_R). Qed.

Theorem bafuse_transfer : forall x x' y y' g g', relB x x' -> relB y y' -> relV g g' ->
  relOpt relB (bafuse (B:=FldQ) eps x y g) (bafuse (B:=FldR) epsR x' y' g').
Proof. transfer (@bafuse_R). Qed.

Theorem bwfuse_transfer : forall x x' y y' g g', relB x x' -> relB y y' -> relV g g' ->
  relOpt relB (bwfuse (B:=FldQ) eps x y g) (bwfuse (B:=FldR) epsR x' y' g').
Proof. transfer (@bwfuse_R). Qed.

Theorem bdeduce_transfer : forall x x' c0 c0' c1 c1' ay ay',
  relB x x' -> relT c0 c0' -> relT c1 c1' -> relV ay ay' ->
  relOpt relB (bdeduce (B:=FldQ) eps x c0 c1 ay) (bdeduce (B:=FldR) epsR x' c0' c1' ay').
Proof. transfer (@bdeduce_R). Qed.

Theorem btrans_unc_transfer : forall x x' t t', relB x x' -> relV t t' ->
  relOpt relB (btrans_unc (B:=FldQ) eps x t) (btrans_unc (B:=FldR) epsR x' t').
Proof. transfer (@btrans_unc_R). Qed.

Theorem btrans_opp_transfer : forall x x' t t' s s', relB x x' -> relV t t' -> relV s s' ->
  relOpt relB (btrans_opp (B:=FldQ) eps x t s) (btrans_opp (B:=FldR) epsR x' t' s').
Proof. transfer (@btrans_opp_R). Qed.

Theorem btrans_bsr_transfer : forall x x' t t', relB x x' -> relV t t' ->
  relOpt relB (btrans_bsr (B:=FldQ) eps x t) (btrans_bsr (B:=FldR) epsR x' t').
Proof. transfer (@btrans_bsr_R). Qed.

Theorem bop_to_mul_transfer : forall x x', relB x x' ->
  relO (bop_to_mul (B:=FldQ) x) (bop_to_mul (B:=FldR) x').
Proof. transfer (@bop_to_mul_R). Qed.

Theorem mul_to_bop_transfer : forall w w', relO w w' ->
  relB (mul_to_bop (B:=FldQ) w) (mul_to_bop (B:=FldR) w').
Proof. transfer (@mul_to_bop_R). Qed.

End Operators.

(* (printed after the section so that [eps] is generalised) *)
Print Assumptions projection_transfer.
Print Assumptions max_uncertainty_transfer.
Print Assumptions uncertainty_maximized_transfer.
Print Assumptions discount_transfer.
Print Assumptions fuse_transfer.
Print Assumptions fuse_simplex_rhs_transfer.
Print Assumptions fuse_simplexes_transfer.
Print Assumptions mbr_transfer.
Print Assumptions deduce_transfer.
Print Assumptions deduce_with_transfer.
Print Assumptions inverse_transfer.
Print Assumptions abduce_transfer.
Print Assumptions abduce_with_transfer.
Print Assumptions product2_transfer.
Print Assumptions product2_lab_transfer.
Print Assumptions product3_transfer.
Print Assumptions product3_lab_transfer.
Print Assumptions merge_cond2_transfer.
Print Assumptions check_simplex_transfer.
Print Assumptions check_base_rate_transfer.
Print Assumptions btry_new_transfer.
Print Assumptions bprojection_transfer.
Print Assumptions bmul_transfer.
Print Assumptions bcomul_transfer.
Print Assumptions bcfuse_transfer.
Print Assumptions bafuse_transfer.
Print Assumptions bwfuse_transfer.
Print Assumptions bdeduce_transfer.
Print Assumptions btrans_unc_transfer.
Print Assumptions btrans_opp_transfer.
Print Assumptions btrans_bsr_transfer.
Print Assumptions bop_to_mul_transfer.
Print Assumptions mul_to_bop_transfer.

(* ------------------------------------------------------------------------------------ *)
(** * 4. Worked instance: a theorem about reals, read as a theorem about the executed model *)

(* inputs of the shape used by the real theorems ([map Some], [Some]) *)
Lemma relL_map_Some (l : list Q) : relL (map Some l) (map Some (map Q2R l)).
Proof. induction l; cbn [map]; constructor; [reflexivity | assumption]. Qed.

(* an output related to a defined real value is a defined rational value *)
Lemma relV_Some_inv (x : option Q) (r : R) : relV x (Some r) -> exists q, x = Some q /\ Q2R q = r.
Proof. destruct x as [q |]; cbn; intros H; [exists q; auto | contradiction]. Qed.
Lemma relL_Some_inv (lq : list (option Q)) : forall lr : list R,
  relL lq (map Some lr) -> exists l, lq = map Some l /\ map Q2R l = lr.
Proof.
  induction lq as [| x lq IH]; intros [| r lr] H; inversion H; subst.
  - exists []; auto.
  - destruct (relV_Some_inv _ _ H3) as (q & -> & <-).
    destruct (IH _ H5) as (l & -> & <-). exists (q :: l); auto.
Qed.

(* C10 ([discount_defined], [discount_wf] of Facts/Discount.v, proved on the real instance)
   transferred: on rational operands whose real images form a well-formed simplex, the
   rational model's [discount] is defined everywhere (no [None]: no NaN, no division by
   zero), its values are exactly the real results [discountR], and their real images form a
   well-formed simplex. *)
Theorem discount_Q_defined_wf : forall (eps : Q) (b : list Q) (u t : Q),
  (0 <= Q2R eps <= 1/8)%R -> wf_simplex (map Q2R b) (Q2R u) -> (0 <= Q2R t <= 1)%R ->
  exists (b' : list Q) (u' : Q),
    discount (B:=FldQ) eps (map Some b) (Some u) (Some t) = (map Some b', Some u') /\
    (map Q2R b', Q2R u') = discountR (Q2R eps) (map Q2R b) (Q2R u) (Q2R t) /\
    wf_simplex (map Q2R b') (Q2R u').
Proof.
  intros eps b u t He Hwf Ht.
  pose proof (discount_transfer eps _ _ (Some u) (Some (Q2R u)) (Some t) (Some (Q2R t))
                (relL_map_Some b) eq_refl eq_refl) as [Hb Hu].
  pose proof (discount_wf (Q2R eps) He _ _ _ Hwf Ht) as Hwf'.
  rewrite (discount_defined (Q2R eps)) in Hb, Hu.
  destruct (discountR (Q2R eps) (map Q2R b) (Q2R u) (Q2R t)) as [bR uR].
  cbn [fst snd] in Hb, Hu, Hwf'.
  destruct (discount (B:=FldQ) eps (map Some b) (Some u) (Some t)) as [bq uq].
  cbn [fst snd] in Hb, Hu.
  destruct (relL_Some_inv _ _ Hb) as (b' & -> & <-).
  destruct (relV_Some_inv _ _ Hu) as (u' & -> & <-).
  exists b', u'. auto.
Qed.
Print Assumptions discount_Q_defined_wf.

(* The same, with hypotheses and conclusion stated on the rationals only. *)
Local Open Scope Q_scope.
Fixpoint Qsum (l : list Q) : Q :=
  match l with [] => 0 | x :: r => x + Qsum r end.
Definition wf_simplexQ (b : list Q) (u : Q) : Prop :=
  Forall (fun x => 0 <= x) b /\ 0 <= u /\ Qsum b + u == 1.

Lemma Rsum_map_Q2R (l : list Q) : Rsum (map Q2R l) = Q2R (Qsum l).
Proof.
  induction l as [| x l IH]; cbn [map Rsum Qsum]; [symmetry; exact Q2R_0 |].
  rewrite Q2R_plus, IH. reflexivity.
Qed.
Lemma Q2R_nonneg (x : Q) : 0 <= x <-> (0 <= Q2R x)%R.
Proof. rewrite <- Q2R_0. split; [apply Qle_Rle | apply Rle_Qle]. Qed.
Lemma wf_simplexQ_iff (b : list Q) (u : Q) : wf_simplexQ b u <-> wf_simplex (map Q2R b) (Q2R u).
Proof.
  unfold wf_simplexQ, wf_simplex, nonneg.
  rewrite Rsum_map_Q2R, <- Q2R_plus, <- Q2R_1, Forall_map, (Q2R_nonneg u).
  assert (E : Forall (fun x => 0 <= x) b <-> Forall (fun x => (0 <= Q2R x)%R) b).
  { split; apply Forall_impl; intros a; apply Q2R_nonneg. }
  rewrite E. split; intros (H1 & H2 & H3); repeat split; auto.
  - apply Qeq_eqR, H3.
  - apply eqR_Qeq, H3.
Qed.

Theorem discount_Q_wf : forall (eps : Q) (b : list Q) (u t : Q),
  0 <= eps <= 1 # 8 -> wf_simplexQ b u -> 0 <= t <= 1 ->
  exists (b' : list Q) (u' : Q),
    discount (B:=FldQ) eps (map Some b) (Some u) (Some t) = (map Some b', Some u') /\
    wf_simplexQ b' u'.
Proof.
  intros eps b u t [He1 He2] Hwf [Ht1 Ht2].
  destruct (discount_Q_defined_wf eps b u t) as (b' & u' & E & _ & Hwf').
  - split; [apply Q2R_nonneg, He1 |].
    apply Qle_Rle in He2. replace (Q2R (1 # 8)) with (1 / 8)%R in He2; [exact He2 |].
    unfold Q2R; simpl; lra.
  - apply wf_simplexQ_iff, Hwf.
  - split; [apply Q2R_nonneg, Ht1 |]. rewrite <- Q2R_1. apply Qle_Rle, Ht2.
  - exists b', u'. split; [exact E | apply wf_simplexQ_iff, Hwf'].
Qed.
Print Assumptions discount_Q_wf.

(* non-vacuity, by running the rational model: (1/4, 1/4, 1/8; u = 3/8) discounted by t = 1/2 *)
Example discount_Q_example :
  wf_simplexQ [1 # 4; 1 # 4; 1 # 8] (3 # 8) /\
  discount (B:=FldQ) (1 # 1024) (map Some [1 # 4; 1 # 4; 1 # 8]) (Some (3 # 8)) (Some (1 # 2))
  = (map Some [1 # 8; 1 # 8; 1 # 16], Some (11 # 16)).
Proof.
  split; [| vm_compute; reflexivity].
  unfold wf_simplexQ. repeat split; [repeat constructor; discriminate | discriminate].
Qed.
