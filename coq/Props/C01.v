(* C01 - Checked constructors accept exactly the well-formed opinions.
   Only statements, each closed by [exact]; proofs are in Facts/ChkFacts.v.

   The model (Model/Chk.v) is bit-exact: floats are Flocq's IEEE-754 binary floats, generic in
   (prec, emax) with [Hp], [Hm] the side conditions 0 < prec < emax of Flocq; the theorems hold for
   every format with at least 4 bits of precision, in particular binary32 = (24, 128) and
   binary64 = (53, 1024) (instantiated by [Hprec32]/[Hmax32], [Hprec64]/[Hmax64] in the entry
   points on bit patterns).
   [eps] = 2^(1-prec) is the machine epsilon of the format (f32::EPSILON / f64::EPSILON).
   [is_ok r] = the constructor returned Ok; [fsum l] = the float sum accumulated left to right from
   +0.0; [rsum l] = the exact real sum of the float values; [fadd] = float addition (round to
   nearest even).  All list statements hold for every domain size unless a bound is stated. *)
From Coq Require Import ZArith List Bool Reals Lra.
From Flocq Require Import Core.Core IEEE754.Binary IEEE754.Bits IEEE754.BinarySingleNaN.
Import ListNotations.
From SL Require Import Model.Chk Facts.ChkFacts.
Open Scope Z_scope.

Notation eps p := (bpow radix2 (1 - p)).

(* ------------------------------------------------------------------------------------------ *)
(* 1. the three scalar tests, for every float of the format (NaN, infinities, zeros, subnormals) *)

Theorem in_unit_spec : forall prec emax Hp Hm, 4 <= prec ->
  forall v : binary_float prec emax,
  in_unit_interval prec emax Hp Hm v = true <->
  is_finite v = true /\ (- eps prec <= B2R v <= 1 + 4 * eps prec)%R.
Proof. exact ChkFacts.in_unit_spec. Qed.
Print Assumptions in_unit_spec.

Theorem is_one_spec : forall prec emax Hp Hm, 4 <= prec ->
  forall v : binary_float prec emax,
  is_one prec emax Hp Hm v = true <->
  is_finite v = true /\ (1 - 2 * eps prec <= B2R v <= 1 + 4 * eps prec)%R.
Proof. exact ChkFacts.is_one_spec. Qed.
Print Assumptions is_one_spec.

Theorem is_zero_spec : forall prec emax Hp Hm, 4 <= prec ->
  forall v : binary_float prec emax,
  is_zero prec emax Hp Hm v = true <-> is_finite v = true /\ (Rabs (B2R v) <= eps prec)%R.
Proof. exact ChkFacts.is_zero_spec. Qed.
Print Assumptions is_zero_spec.

(* ------------------------------------------------------------------------------------------ *)
(* 2. reject_nonfinite: a NaN or an infinity anywhere makes every checked entry point fail *)

Theorem reject_nonfinite_bop : forall prec emax Hp Hm, 4 <= prec ->
  forall b d u a : binary_float prec emax,
  is_finite b = false \/ is_finite d = false \/ is_finite u = false \/ is_finite a = false ->
  is_ok (bop_try_new prec emax Hp Hm b d u a) = false.
Proof. exact ChkFacts.reject_nonfinite_bop. Qed.
Print Assumptions reject_nonfinite_bop.

Theorem reject_nonfinite_bsimplex : forall prec emax Hp Hm, 4 <= prec ->
  forall b d u : binary_float prec emax,
  is_finite b = false \/ is_finite d = false \/ is_finite u = false ->
  is_ok (bsimplex_try_new prec emax Hp Hm b d u) = false.
Proof. exact ChkFacts.reject_nonfinite_bsimplex. Qed.
Print Assumptions reject_nonfinite_bsimplex.

Theorem reject_nonfinite_simplex : forall prec emax Hp Hm, 4 <= prec ->
  forall (b : list (binary_float prec emax)) u,
  (exists x, In x b /\ is_finite x = false) \/ is_finite u = false ->
  is_ok (simplex_try_new prec emax Hp Hm b u) = false.
Proof. exact ChkFacts.reject_nonfinite_simplex. Qed.
Print Assumptions reject_nonfinite_simplex.

Theorem reject_nonfinite_opinion : forall prec emax Hp Hm, 4 <= prec ->
  forall (b : list (binary_float prec emax)) u a,
  (exists x, In x b /\ is_finite x = false) \/ is_finite u = false \/
  (exists x, In x a /\ is_finite x = false) ->
  is_ok (opinion_try_new prec emax Hp Hm b u a) = false.
Proof. exact ChkFacts.reject_nonfinite_opinion. Qed.
Print Assumptions reject_nonfinite_opinion.

Theorem reject_nonfinite_into_opinion : forall prec emax Hp Hm, 4 <= prec ->
  forall (s : list (binary_float prec emax) * binary_float prec emax) a,
  (exists x, In x a /\ is_finite x = false) ->
  is_ok (into_opinion prec emax Hp Hm s a) = false.
Proof. exact ChkFacts.reject_nonfinite_base_rate. Qed.
Print Assumptions reject_nonfinite_into_opinion.

(* ------------------------------------------------------------------------------------------ *)
(* 3. accept_iff: the decision of every entry point is exactly the conjunction of the range test
   of every component and the is_one test of the float sum(s); any float format *)

Theorem accept_iff_bsimplex : forall prec emax Hp Hm (b d u : binary_float prec emax),
  is_ok (bsimplex_try_new prec emax Hp Hm b d u) =
    is_one prec emax Hp Hm (fadd prec emax Hp Hm (fadd prec emax Hp Hm b d) u)
    && in_unit_interval prec emax Hp Hm b && in_unit_interval prec emax Hp Hm d
    && in_unit_interval prec emax Hp Hm u.
Proof. exact accept_bsimplex_iff. Qed.
Print Assumptions accept_iff_bsimplex.

Theorem accept_iff_bop : forall prec emax Hp Hm (b d u a : binary_float prec emax),
  is_ok (bop_try_new prec emax Hp Hm b d u a) =
    in_unit_interval prec emax Hp Hm a &&
    (is_one prec emax Hp Hm (fadd prec emax Hp Hm (fadd prec emax Hp Hm b d) u)
     && in_unit_interval prec emax Hp Hm b && in_unit_interval prec emax Hp Hm d
     && in_unit_interval prec emax Hp Hm u).
Proof. exact accept_bop_iff. Qed.
Print Assumptions accept_iff_bop.

Theorem accept_iff_simplex : forall prec emax Hp Hm (b : list (binary_float prec emax)) u,
  is_ok (simplex_try_new prec emax Hp Hm b u) =
    forallb (in_unit_interval prec emax Hp Hm) b && in_unit_interval prec emax Hp Hm u
    && is_one prec emax Hp Hm (fadd prec emax Hp Hm (fsum prec emax Hp Hm b) u).
Proof. exact accept_simplex_iff. Qed.
Print Assumptions accept_iff_simplex.

Theorem accept_iff_opinion : forall prec emax Hp Hm (b : list (binary_float prec emax)) u a,
  is_ok (opinion_try_new prec emax Hp Hm b u a) =
    (forallb (in_unit_interval prec emax Hp Hm) b && in_unit_interval prec emax Hp Hm u
     && is_one prec emax Hp Hm (fadd prec emax Hp Hm (fsum prec emax Hp Hm b) u))
    && (forallb (in_unit_interval prec emax Hp Hm) a
        && is_one prec emax Hp Hm (fsum prec emax Hp Hm a)).
Proof. exact accept_opinion_iff. Qed.
Print Assumptions accept_iff_opinion.

(* the simplex-to-opinion upgrade looks at the base rate only *)
Theorem accept_iff_into_opinion : forall prec emax Hp Hm
  (s : list (binary_float prec emax) * binary_float prec emax) a,
  is_ok (into_opinion prec emax Hp Hm s a) =
    forallb (in_unit_interval prec emax Hp Hm) a && is_one prec emax Hp Hm (fsum prec emax Hp Hm a).
Proof. exact accept_into_opinion_iff. Qed.
Print Assumptions accept_iff_into_opinion.

(* the TryFrom tuple forms are try_new on the same data *)
Theorem try_from_is_try_new : forall prec emax Hp Hm (b : list (binary_float prec emax)) u a,
  simplex_try_from prec emax Hp Hm (b, u) = simplex_try_new prec emax Hp Hm b u /\
  opinion_try_from prec emax Hp Hm (b, u, a) = opinion_try_new prec emax Hp Hm b u a.
Proof. exact try_from_def. Qed.
Print Assumptions try_from_is_try_new.

(* order of the binomial checks and the value each failure reports (base rate, then the sum,
   then b, d, u); on success the supplied numbers are stored *)
Theorem bop_try_new_order : forall prec emax Hp Hm (b d u a : binary_float prec emax),
  bop_try_new prec emax Hp Hm b d u a =
    if negb (in_unit_interval prec emax Hp Hm a) then Err a
    else if negb (is_one prec emax Hp Hm (fadd prec emax Hp Hm (fadd prec emax Hp Hm b d) u))
         then Err (fadd prec emax Hp Hm (fadd prec emax Hp Hm b d) u)
    else if negb (in_unit_interval prec emax Hp Hm b) then Err b
    else if negb (in_unit_interval prec emax Hp Hm d) then Err d
    else if negb (in_unit_interval prec emax Hp Hm u) then Err u
    else Ok (b, d, u, a).
Proof. exact bop_try_new_eq. Qed.
Print Assumptions bop_try_new_order.

(* order of the multinomial checks: first belief mass out of range, then u, then the sum *)
Theorem check_simplex_order : forall prec emax Hp Hm (b : list (binary_float prec emax)) u,
  check_simplex prec emax Hp Hm b u =
    match first_bad prec emax Hp Hm b with
    | Some v => Fail v
    | None => if in_unit_interval prec emax Hp Hm u
              then (if is_one prec emax Hp Hm (fadd prec emax Hp Hm (fsum prec emax Hp Hm b) u)
                    then Pass else Fail (fadd prec emax Hp Hm (fsum prec emax Hp Hm b) u))
              else Fail u
    end.
Proof. exact check_simplex_eq. Qed.
Print Assumptions check_simplex_order.

(* ------------------------------------------------------------------------------------------ *)
(* 4. new panics exactly when try_new errs; accepted values are stored unchanged;
   is_vacuous / is_dogmatic *)

Theorem new_panics_iff_try_new_errs : forall prec emax Hp Hm
  (b d u a : binary_float prec emax) (bs az : list (binary_float prec emax)),
  (bop_new prec emax Hp Hm b d u a = Panics <-> is_ok (bop_try_new prec emax Hp Hm b d u a) = false) /\
  (bsimplex_new prec emax Hp Hm b d u = Panics <-> is_ok (bsimplex_try_new prec emax Hp Hm b d u) = false) /\
  (simplex_new prec emax Hp Hm bs u = Panics <-> is_ok (simplex_try_new prec emax Hp Hm bs u) = false) /\
  (opinion_new prec emax Hp Hm bs u az = Panics <-> is_ok (opinion_try_new prec emax Hp Hm bs u az) = false).
Proof. exact new_panics_all. Qed.
Print Assumptions new_panics_iff_try_new_errs.

Theorem new_returns_what_try_new_returns : forall prec emax Hp Hm
  (b d u a : binary_float prec emax) (bs az : list (binary_float prec emax)) w1 w2 w3 w4,
  (bop_new prec emax Hp Hm b d u a = Returns w1 <-> bop_try_new prec emax Hp Hm b d u a = Ok w1) /\
  (bsimplex_new prec emax Hp Hm b d u = Returns w2 <-> bsimplex_try_new prec emax Hp Hm b d u = Ok w2) /\
  (simplex_new prec emax Hp Hm bs u = Returns w3 <-> simplex_try_new prec emax Hp Hm bs u = Ok w3) /\
  (opinion_new prec emax Hp Hm bs u az = Returns w4 <-> opinion_try_new prec emax Hp Hm bs u az = Ok w4).
Proof. exact new_returns_all. Qed.
Print Assumptions new_returns_what_try_new_returns.

Theorem stores_unchanged : forall prec emax Hp Hm
  (b d u a : binary_float prec emax) (bs az : list (binary_float prec emax)) s,
  (forall w, bop_try_new prec emax Hp Hm b d u a = Ok w -> w = (b, d, u, a)) /\
  (forall w, bsimplex_try_new prec emax Hp Hm b d u = Ok w -> w = (b, d, u)) /\
  (forall w, simplex_try_new prec emax Hp Hm bs u = Ok w -> w = (bs, u)) /\
  (forall w, opinion_try_new prec emax Hp Hm bs u az = Ok w -> w = (bs, u, az)) /\
  (forall w, into_opinion prec emax Hp Hm s az = Ok w -> w = (fst s, snd s, az)).
Proof. exact stores_all. Qed.
Print Assumptions stores_unchanged.

Theorem vacuous_iff : forall prec emax Hp Hm, 4 <= prec ->
  forall u : binary_float prec emax,
  is_vacuous prec emax Hp Hm u = true <->
  is_finite u = true /\ (1 - 2 * eps prec <= B2R u <= 1 + 4 * eps prec)%R.
Proof. exact ChkFacts.is_one_spec. Qed.
Print Assumptions vacuous_iff.

Theorem dogmatic_iff : forall prec emax Hp Hm, 4 <= prec ->
  forall u : binary_float prec emax,
  is_dogmatic prec emax Hp Hm u = true <-> is_finite u = true /\ (Rabs (B2R u) <= eps prec)%R.
Proof. exact ChkFacts.is_zero_spec. Qed.
Print Assumptions dogmatic_iff.

(* ------------------------------------------------------------------------------------------ *)
(* 5. accept_sound / reject_margin: accepted => every component in [-eps, 1 + 4 eps] and the REAL
   sum within (4 + n/2) eps of 1, n = number of summed terms (at most 2^(prec-3) of them);
   so a component outside that interval, or a real sum off by more, is always rejected.
   [in_tol v] := is_finite v = true /\ -eps <= B2R v <= 1 + 4 eps. *)

Theorem accept_sound_bop : forall prec emax Hp Hm, 4 <= prec ->
  forall b d u a : binary_float prec emax,
  is_ok (bop_try_new prec emax Hp Hm b d u a) = true ->
  in_tol prec emax b /\ in_tol prec emax d /\ in_tol prec emax u /\ in_tol prec emax a /\
  (Rabs (B2R b + B2R d + B2R u - 1) <= 5 * eps prec)%R.
Proof. exact ChkFacts.accept_bop_real. Qed.
Print Assumptions accept_sound_bop.

Theorem accept_sound_simplex : forall prec emax Hp Hm, 4 <= prec ->
  forall (b : list (binary_float prec emax)) u,
  Z.of_nat (length b) + 1 <= 2 ^ (prec - 3) ->
  is_ok (simplex_try_new prec emax Hp Hm b u) = true ->
  Forall (in_tol prec emax) b /\ in_tol prec emax u /\
  (Rabs (rsum prec emax b + B2R u - 1) <= (4 + INR (length b + 1) / 2) * eps prec)%R.
Proof. exact ChkFacts.accept_simplex_real. Qed.
Print Assumptions accept_sound_simplex.

Theorem accept_sound_opinion : forall prec emax Hp Hm, 4 <= prec ->
  forall (b : list (binary_float prec emax)) u a,
  Z.of_nat (length b) + 1 <= 2 ^ (prec - 3) -> Z.of_nat (length a) <= 2 ^ (prec - 3) ->
  is_ok (opinion_try_new prec emax Hp Hm b u a) = true ->
  (Forall (in_tol prec emax) b /\ in_tol prec emax u /\
   (Rabs (rsum prec emax b + B2R u - 1) <= (4 + INR (length b + 1) / 2) * eps prec)%R) /\
  (Forall (in_tol prec emax) a /\
   (Rabs (rsum prec emax a - 1) <= (4 + INR (length a) / 2) * eps prec)%R).
Proof. exact ChkFacts.accept_opinion_real. Qed.
Print Assumptions accept_sound_opinion.

Theorem accept_sound_into_opinion : forall prec emax Hp Hm, 4 <= prec ->
  forall (s : list (binary_float prec emax) * binary_float prec emax) a,
  Z.of_nat (length a) <= 2 ^ (prec - 3) ->
  is_ok (into_opinion prec emax Hp Hm s a) = true ->
  Forall (in_tol prec emax) a /\
  (Rabs (rsum prec emax a - 1) <= (4 + INR (length a) / 2) * eps prec)%R.
Proof. exact ChkFacts.accept_base_rate_real. Qed.
Print Assumptions accept_sound_into_opinion.

(* the same with the float sum, as an equivalence and without a size bound:
   [near_one v] := is_finite v = true /\ 1 - 2 eps <= B2R v <= 1 + 4 eps *)
Theorem accept_opinion_exactly : forall prec emax Hp Hm, 4 <= prec ->
  forall (b : list (binary_float prec emax)) u a,
  is_ok (opinion_try_new prec emax Hp Hm b u a) = true <->
  (Forall (in_tol prec emax) b /\ in_tol prec emax u /\
   near_one prec emax (fadd prec emax Hp Hm (fsum prec emax Hp Hm b) u)) /\
  (Forall (in_tol prec emax) a /\ near_one prec emax (fsum prec emax Hp Hm a)).
Proof. exact ChkFacts.accept_opinion_sound. Qed.
Print Assumptions accept_opinion_exactly.

Theorem accept_bop_exactly : forall prec emax Hp Hm, 4 <= prec ->
  forall b d u a : binary_float prec emax,
  is_ok (bop_try_new prec emax Hp Hm b d u a) = true <->
  in_tol prec emax b /\ in_tol prec emax d /\ in_tol prec emax u /\ in_tol prec emax a /\
  near_one prec emax (fadd prec emax Hp Hm (fadd prec emax Hp Hm b d) u).
Proof. exact ChkFacts.accept_bop_sound. Qed.
Print Assumptions accept_bop_exactly.

Theorem reject_margin_bop : forall prec emax Hp Hm, 4 <= prec ->
  forall b d u a : binary_float prec emax,
  ~ in_tol prec emax b \/ ~ in_tol prec emax d \/ ~ in_tol prec emax u \/ ~ in_tol prec emax a \/
  (5 * eps prec < Rabs (B2R b + B2R d + B2R u - 1))%R ->
  is_ok (bop_try_new prec emax Hp Hm b d u a) = false.
Proof. exact ChkFacts.reject_margin_bop. Qed.
Print Assumptions reject_margin_bop.

Theorem reject_margin_opinion : forall prec emax Hp Hm, 4 <= prec ->
  forall (b : list (binary_float prec emax)) u a,
  Z.of_nat (length b) + 1 <= 2 ^ (prec - 3) -> Z.of_nat (length a) <= 2 ^ (prec - 3) ->
  (exists x, In x b /\ ~ in_tol prec emax x) \/ ~ in_tol prec emax u \/
  ((4 + INR (length b + 1) / 2) * eps prec < Rabs (rsum prec emax b + B2R u - 1))%R \/
  (exists x, In x a /\ ~ in_tol prec emax x) \/
  ((4 + INR (length a) / 2) * eps prec < Rabs (rsum prec emax a - 1))%R ->
  is_ok (opinion_try_new prec emax Hp Hm b u a) = false.
Proof. exact ChkFacts.reject_margin_opinion. Qed.
Print Assumptions reject_margin_opinion.

Theorem reject_margin_simplex : forall prec emax Hp Hm, 4 <= prec ->
  forall (b : list (binary_float prec emax)) u,
  Z.of_nat (length b) + 1 <= 2 ^ (prec - 3) ->
  (exists x, In x b /\ ~ in_tol prec emax x) \/ ~ in_tol prec emax u \/
  ((4 + INR (length b + 1) / 2) * eps prec < Rabs (rsum prec emax b + B2R u - 1))%R ->
  is_ok (simplex_try_new prec emax Hp Hm b u) = false.
Proof. exact ChkFacts.reject_margin_simplex. Qed.
Print Assumptions reject_margin_simplex.

(* ------------------------------------------------------------------------------------------ *)
(* 6. accept_complete: finite components in [0,1] whose exact real sum is 1 are accepted, for up
   to 8 summed terms (7 belief masses + u; 8 base rates).  [in01 v] := finite /\ 0 <= B2R v <= 1. *)

Theorem accept_complete_bop : forall prec emax Hp Hm, 4 <= prec ->
  forall b d u a : binary_float prec emax,
  in01 prec emax b -> in01 prec emax d -> in01 prec emax u -> in01 prec emax a ->
  (B2R b + B2R d + B2R u = 1)%R ->
  is_ok (bop_try_new prec emax Hp Hm b d u a) = true.
Proof. exact ChkFacts.accept_bop_complete. Qed.
Print Assumptions accept_complete_bop.

Theorem accept_complete_simplex : forall prec emax Hp Hm, 4 <= prec ->
  forall (b : list (binary_float prec emax)) u,
  Forall (in01 prec emax) b -> in01 prec emax u -> (rsum prec emax b + B2R u = 1)%R ->
  (length b <= 7)%nat ->
  is_ok (simplex_try_new prec emax Hp Hm b u) = true.
Proof. exact ChkFacts.accept_simplex_complete. Qed.
Print Assumptions accept_complete_simplex.

Theorem accept_complete_opinion : forall prec emax Hp Hm, 4 <= prec ->
  forall (b : list (binary_float prec emax)) u a,
  Forall (in01 prec emax) b -> in01 prec emax u -> (rsum prec emax b + B2R u = 1)%R ->
  (length b <= 7)%nat ->
  Forall (in01 prec emax) a -> rsum prec emax a = 1%R -> (length a <= 8)%nat ->
  is_ok (opinion_try_new prec emax Hp Hm b u a) = true.
Proof. exact ChkFacts.accept_opinion_complete. Qed.
Print Assumptions accept_complete_opinion.

Theorem accept_complete_into_opinion : forall prec emax Hp Hm, 4 <= prec ->
  forall (s : list (binary_float prec emax) * binary_float prec emax) a,
  Forall (in01 prec emax) a -> rsum prec emax a = 1%R -> (length a <= 8)%nat ->
  is_ok (into_opinion prec emax Hp Hm s a) = true.
Proof. exact ChkFacts.accept_base_rate_complete. Qed.
Print Assumptions accept_complete_into_opinion.

(* ------------------------------------------------------------------------------------------ *)
(* 7. the entry points on bit patterns: what they are, and that reading a bit pattern is
   faithful (the model's [bits_of] inverts [f64_of_bits] / [f32_of_bits] on every non-NaN pattern,
   and every float is read from some pattern) *)

Theorem entry_points_f64 : forall b d u a bs az,
  accept_bop F64 b d u a =
    is_ok (bop_try_new 53 1024 Hprec64 Hmax64 (f64_of_bits b) (f64_of_bits d) (f64_of_bits u) (f64_of_bits a)) /\
  accept_bsimplex F64 b d u =
    is_ok (bsimplex_try_new 53 1024 Hprec64 Hmax64 (f64_of_bits b) (f64_of_bits d) (f64_of_bits u)) /\
  accept_simplex F64 bs u =
    is_ok (simplex_try_new 53 1024 Hprec64 Hmax64 (map f64_of_bits bs) (f64_of_bits u)) /\
  accept_opinion F64 bs u az =
    is_ok (opinion_try_new 53 1024 Hprec64 Hmax64 (map f64_of_bits bs) (f64_of_bits u) (map f64_of_bits az)) /\
  (forall s, accept_base_rate F64 az = is_ok (into_opinion 53 1024 Hprec64 Hmax64 s (map f64_of_bits az))) /\
  vacuous F64 u = is_vacuous 53 1024 Hprec64 Hmax64 (f64_of_bits u) /\
  dogmatic F64 u = is_dogmatic 53 1024 Hprec64 Hmax64 (f64_of_bits u).
Proof. exact entry_points_f64_def. Qed.
Print Assumptions entry_points_f64.

Theorem entry_points_f32 : forall b d u a bs az,
  accept_bop F32 b d u a =
    is_ok (bop_try_new 24 128 Hprec32 Hmax32 (f32_of_bits b) (f32_of_bits d) (f32_of_bits u) (f32_of_bits a)) /\
  accept_bsimplex F32 b d u =
    is_ok (bsimplex_try_new 24 128 Hprec32 Hmax32 (f32_of_bits b) (f32_of_bits d) (f32_of_bits u)) /\
  accept_simplex F32 bs u =
    is_ok (simplex_try_new 24 128 Hprec32 Hmax32 (map f32_of_bits bs) (f32_of_bits u)) /\
  accept_opinion F32 bs u az =
    is_ok (opinion_try_new 24 128 Hprec32 Hmax32 (map f32_of_bits bs) (f32_of_bits u) (map f32_of_bits az)) /\
  (forall s, accept_base_rate F32 az = is_ok (into_opinion 24 128 Hprec32 Hmax32 s (map f32_of_bits az))) /\
  vacuous F32 u = is_vacuous 24 128 Hprec32 Hmax32 (f32_of_bits u) /\
  dogmatic F32 u = is_dogmatic 24 128 Hprec32 Hmax32 (f32_of_bits u).
Proof. exact entry_points_f32_def. Qed.
Print Assumptions entry_points_f32.

Theorem bits_roundtrip :
  (forall z, 0 <= z < 2 ^ 64 -> is_nan (f64_of_bits z) = false -> bits_of 53 1024 (f64_of_bits z) = z) /\
  (forall z, 0 <= z < 2 ^ 32 -> is_nan (f32_of_bits z) = false -> bits_of 24 128 (f32_of_bits z) = z) /\
  (forall x : f64, exists z, 0 <= z < 2 ^ 64 /\ f64_of_bits z = x) /\
  (forall x : f32, exists z, 0 <= z < 2 ^ 32 /\ f32_of_bits z = x).
Proof. exact bits_roundtrip_all. Qed.
Print Assumptions bits_roundtrip.

(* ------------------------------------------------------------------------------------------ *)
(* 8. the scalar relations of approx (used by C20): symmetric for all floats and tolerances;
   reflexive on finite values (abs_diff_eq) and on non-NaN values (ulps_eq); NaN relates to nothing *)

Theorem abs_diff_eq_sym : forall prec emax Hp Hm (x y e : binary_float prec emax),
  abs_diff_eq prec emax Hp Hm x y e = abs_diff_eq prec emax Hp Hm y x e.
Proof. exact ChkFacts.abs_diff_eq_sym. Qed.
Print Assumptions abs_diff_eq_sym.

Theorem ulps_eq_sym : forall prec emax Hp Hm (x y e : binary_float prec emax) (k : Z),
  ulps_eq_with prec emax Hp Hm x y e k = ulps_eq_with prec emax Hp Hm y x e k.
Proof. exact ulps_eq_with_sym. Qed.
Print Assumptions ulps_eq_sym.

Theorem abs_diff_eq_refl : forall prec emax Hp Hm (x e : binary_float prec emax),
  is_finite x = true -> is_finite e = true -> (0 <= B2R e)%R ->
  abs_diff_eq prec emax Hp Hm x x e = true.
Proof. exact ChkFacts.abs_diff_eq_refl. Qed.
Print Assumptions abs_diff_eq_refl.

Theorem ulps_eq_refl : forall prec emax Hp Hm (x e : binary_float prec emax) (k : Z),
  is_nan x = false -> 0 <= k -> ulps_eq_with prec emax Hp Hm x x e k = true.
Proof. exact ulps_eq_with_refl. Qed.
Print Assumptions ulps_eq_refl.

Theorem ulps_eq_nan : forall prec emax Hp Hm (y e : binary_float prec emax) (k : Z),
  ulps_eq_with prec emax Hp Hm B754_nan y e k = false.
Proof. exact ulps_eq_with_nan. Qed.
Print Assumptions ulps_eq_nan.

(* ------------------------------------------------------------------------------------------ *)
(* Non-vacuity: binary64 and binary32 have prec >= 4; the opinion b = (1/2, 1/4), u = 1/4, a = (1/2, 1/2)
   satisfies the hypotheses of [accept_complete_opinion] and is accepted by the bit-pattern entry
   point; u = 1 + 5 ulp, NaN and +inf are rejected. *)
Example c01_nonvacuous :
  4 <= 53 /\ 4 <= 24 /\
  (let h := f64_of_bits half64 in let q := f64_of_bits quarter64 in
   Forall (in01 53 1024) [h; q] /\ in01 53 1024 q /\ (rsum 53 1024 [h; q] + B2R q = 1)%R /\
   Forall (in01 53 1024) [h; h] /\ rsum 53 1024 [h; h] = 1%R) /\
  accept_opinion F64 [half64; quarter64] quarter64 [half64; half64] = true /\
  map (fun u => accept_bsimplex F64 0 0 u) [one64; one64 + 4; one64 + 5; nan64; inf64]
    = [true; true; false; false; false].
Proof. exact c01_example. Qed.
