(* C04 - Deduction is well-formed and obeys the law of total probability.
   Only statements, each closed by [exact]; proofs are in Facts/Deduce.v.

   Setting: antecedent [wf_opinion bx ux ax] on X (zero base rates allowed), [conds] one
   well-formed simplex over Y per value of X ([wf_conds ny conds], [length conds = length ax]),
   base rate [ay] on Y: ANY probability distribution of length ny, zero entries included (the
   model's NaN-skipping minimum over y takes care of them; no further hypothesis is needed).
   Real results: [dedB bx ux ax conds ay] (belief), [dedU bx ax conds ay] (uncertainty);
   [projR b u a] = b + a u (projected probability), [pyhxR] = sum_x a_x P(y|x),
   [minbR conds y] = min_x b(y|x), [upsR] = apex uncertainty, [betaR] = apex belief. *)
From Coq Require Import Reals List Lra.
Import ListNotations.
From SL Require Import Model.Num Model.Vec Model.Mul Model.InstR Facts.RBase Facts.Deduce.
Open Scope R_scope.

(* definedness (no NaN, no division by zero, no panic), well-formedness, base rate kept, and
   total probability  b_y + ay_y u = sum_x P(x) P(y|x)  with P(x) = bx_x + ax_x ux and
   P(y|x) = b(y|x) + ay_y u_x.  All |X|, all |Y|. *)
Theorem deduce_of_spec : forall bx ux ax conds ay ny,
  wf_opinion bx ux ax -> wf_conds ny conds -> length conds = length ax -> wf_dist ay -> length ay = ny ->
  deduce_of (B:=FldR) (map Some bx, Some ux, map Some ax) (map condV conds) (map Some ay)
    = (map Some (dedB bx ux ax conds ay), Some (dedU bx ax conds ay), map Some ay) /\
  wf_simplex (dedB bx ux ax conds ay) (dedU bx ax conds ay) /\
  length (dedB bx ux ax conds ay) = ny /\
  forall y, (y < ny)%nat ->
    nth y (dedB bx ux ax conds ay) 0 + nth y ay 0 * dedU bx ax conds ay
    = Rsum (map2 (fun px c => px * (nth y (fst c) 0 + nth y ay 0 * snd c)) (projR bx ux ax) conds).
Proof. exact deduce_of_spec_full. Qed.
Print Assumptions deduce_of_spec.

(* Deduction::deduce: whenever the marginal base rate exists the result is a well-formed opinion
   whose base rate is the marginal base rate and which obeys total probability *)
Theorem deduce_spec : forall eps ny bx ux ax conds,
  0 <= eps <= 1/8 -> wf_opinion bx ux ax -> wf_conds ny conds -> length conds = length ax ->
  ~ all_vacuous eps conds -> mbr_S ax conds <> 0 ->
  let ay := mbrR ny ax conds in
  deduce (B:=FldR) eps ny (map Some bx, Some ux, map Some ax) (map condV conds)
    = Some (map Some (dedB bx ux ax conds ay), Some (dedU bx ax conds ay), map Some ay) /\
  wf_opinion (dedB bx ux ax conds ay) (dedU bx ax conds ay) ay /\
  forall y, (y < ny)%nat ->
    nth y (dedB bx ux ax conds ay) 0 + nth y ay 0 * dedU bx ax conds ay
    = Rsum (map2 (fun px c => px * (nth y (fst c) 0 + nth y ay 0 * snd c)) (projR bx ux ax) conds).
Proof. exact deduce_spec_full. Qed.
Print Assumptions deduce_spec.

(* the projections helper: row x is b(.|x) + ay u_x *)
Theorem projections_spec : forall ny conds ay, wf_conds ny conds -> wf_dist ay -> length ay = ny ->
  projections (B:=FldR) (map condV conds) (map Some ay)
  = map (map Some) (map (fun c => projR (fst c) (snd c) ay) conds).
Proof. exact projections_eval. Qed.
Print Assumptions projections_spec.

(* apex characterisation: u = sum_x bx_x u_x + ux * upsilon and b_y = sum_x bx_x b(y|x) + ux * beta_y
   where (beta, upsilon) is the apex: beta_y = sum_x a_x P(y|x) - ay_y upsilon >= min_x b(y|x) >= 0,
   upsilon = min over { y : ay_y <> 0 } of (sum_x a_x P(y|x) - min_x b(y|x)) / ay_y  (a lower bound
   of these ratios that is attained), beta touches its bound at that y, and upsilon is the largest
   uncertainty for which every beta_y stays above min_x b(y|x). *)
Theorem deduce_of_apex : forall bx ux ax conds ay ny,
  wf_opinion bx ux ax -> wf_conds ny conds -> length conds = length ax -> wf_dist ay -> length ay = ny ->
  dedU bx ax conds ay = dot bx (map snd conds) + ux * upsR ax conds ay /\
  0 <= upsR ax conds ay /\
  (forall y, (y < ny)%nat ->
     nth y (dedB bx ux ax conds ay) 0 = dot bx (colR (map fst conds) y) + ux * betaR ax conds ay y /\
     0 <= minbR conds y <= betaR ax conds ay y) /\
  (forall y, (y < ny)%nat -> nth y ay 0 <> 0 ->
     upsR ax conds ay <= (pyhxR ax conds ay y - minbR conds y) / nth y ay 0) /\
  (exists y, (y < ny)%nat /\ nth y ay 0 <> 0 /\
     upsR ax conds ay = (pyhxR ax conds ay y - minbR conds y) / nth y ay 0 /\
     betaR ax conds ay y = minbR conds y) /\
  (forall v, (forall y, (y < ny)%nat -> minbR conds y <= pyhxR ax conds ay y - nth y ay 0 * v) ->
     v <= upsR ax conds ay).
Proof. exact deduce_of_apex_full. Qed.
Print Assumptions deduce_of_apex.

(* the quantities of [deduce_of_apex], spelled out *)
Theorem apex_belief_def : forall ax conds ay y,
  betaR ax conds ay y = pyhxR ax conds ay y - nth y ay 0 * upsR ax conds ay.
Proof. intros; reflexivity. Qed.
Print Assumptions apex_belief_def.

Theorem pyhx_is_sum : forall ny ax conds ay y, wf_conds ny conds -> length ay = ny ->
  pyhxR ax conds ay y = Rsum (map2 (fun a c => a * (nth y (fst c) 0 + nth y ay 0 * snd c)) ax conds).
Proof. exact pyhxR_unfold. Qed.
Print Assumptions pyhx_is_sum.

Theorem minb_is_min : forall ny conds y, wf_conds ny conds -> conds <> [] ->
  (forall c, In c conds -> minbR conds y <= nth y (fst c) 0) /\
  (exists c, In c conds /\ minbR conds y = nth y (fst c) 0) /\ 0 <= minbR conds y.
Proof. exact minbR_spec. Qed.
Print Assumptions minb_is_min.

Theorem dot_is_sum : forall w v, dot w v = Rsum (map2 Rmult w v).
Proof. intros; reflexivity. Qed.
Print Assumptions dot_is_sum.

(* an absolute antecedent (bx = e_k, ux = 0) returns exactly conditional k *)
Theorem absolute_antecedent : forall ax conds ay ny k,
  wf_dist ax -> wf_conds ny conds -> length conds = length ax -> wf_dist ay -> length ay = ny ->
  (k < length ax)%nat ->
  deduce_of (B:=FldR) (map Some (unitv (length ax) k), Some 0, map Some ax) (map condV conds) (map Some ay)
  = (map Some (fst (nth k conds ([], 0))), Some (snd (nth k conds ([], 0))), map Some ay).
Proof. exact deduce_of_absolute. Qed.
Print Assumptions absolute_antecedent.

(* a vacuous antecedent (bx = 0, ux = 1) returns the apex opinion *)
Theorem vacuous_antecedent : forall ax conds ay ny,
  wf_dist ax -> wf_conds ny conds -> length conds = length ax -> wf_dist ay -> length ay = ny ->
  deduce_of (B:=FldR) (map Some (repeat 0 (length ax)), Some 1, map Some ax) (map condV conds) (map Some ay)
  = (map Some (tab ny (betaR ax conds ay)), Some (upsR ax conds ay), map Some ay).
Proof. exact deduce_of_vacuous. Qed.
Print Assumptions vacuous_antecedent.

(* non-vacuity: a concrete antecedent and two concrete tables meet the hypotheses of
   [deduce_spec]; for the second table the marginal base rate is (0, 1), i.e. the zero entry
   that the NaN-skipping minimum has to cope with really occurs. *)
Example c04_nonvacuous :
  wf_opinion [1/2; 1/4] (1/4) [1/2; 1/2] /\
  wf_conds 2 ex_conds /\ ~ all_vacuous (1/8) ex_conds /\ mbr_S [1/2; 1/2] ex_conds <> 0 /\
  wf_conds 2 ex_conds0 /\ ~ all_vacuous (1/8) ex_conds0 /\ mbr_S [1/2; 1/2] ex_conds0 <> 0 /\
  ex_conds0 = [([0; 1/2], 1/2); ([0; 1], 0)] /\ mbrR 2 [1/2; 1/2] ex_conds0 = [0; 1].
Proof.
  assert (He : 0 <= 1/8 <= 1/8) by lra.
  assert (HS : mbr_S [1/2; 1/2] ex_conds <> 0) by (unfold mbr_S, dot, ex_conds; cbn; lra).
  exact (conj ex_opinion (conj ex_conds_wf (conj (ex_not_vacuous _ He) (conj HS
        (conj ex_conds0_wf (conj (ex_not_vacuous0 _ He) (conj (proj2 ex_mbrR0)
        (conj eq_refl (proj1 ex_mbrR0))))))))).
Qed.
