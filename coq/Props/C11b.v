(* C11 (remaining clause) - "Exchanging the roles of X1 and X2 yields the transposed table, so
   deduction from a product opinion does not depend on the order in which the parents are listed."
   Only statements, each closed by [exact]; proofs are in Facts/ParentOrder.v.

   Setting (as in Props/C11.v): [c1] = the |X1| conditionals X1 -> Y, [c2] = the |X2| conditionals
   X2 -> Y ([wf_conds]), [ax1], [ax2], [ay] strictly positive distributions ([pos_dist]);
   [lab] selects the labelled or the unlabelled product inside the merge.  The opinions on the two
   parents are ANY well-formed opinions (b1, u1, a1) on X1 and (b2, u2, a2) on X2 (their own base
   rates a1, a2 need not be ax1, ax2).  Everything enters the model as [map embS c], [map Some v].
       w12 = product2 W1 W2   (opinion on X1 x X2, row-major)     T12 = merge_cond2 c1 c2 ax1 ax2 ay
       w21 = product2 W2 W1   (opinion on X2 x X1)                T21 = merge_cond2 c2 c1 ax2 ax1 ay
   Claim: all four are defined and deduction through (w21, T21) equals deduction through (w12, T12),
   for [deduce_of] with ANY consequent base rate (any list of model numbers, NaN included), for the
   marginal base rate [mbr] (any |Y|, any tolerance), and for [deduce] / [deduce_with]
   ([parent_order_statement]).

   How the two formulations of the transposition are related: [Merge.transposeL d n0 n1] /
   [Product.transposeR n0 n1] (C11, C06) is the renaming [perm d (tperm n0 n1)] of C15, with
       tperm n0 n1 = [ i * n1 + j | j <- 0..n1-1, i <- 0..n0-1 ],   is_perm (tperm n0 n1) (n0 * n1).
   Then: product2 W2 W1 is the renamed product2 W1 W2 ([Product.product2_transpose]), T21 is the
   renamed T12 ([Merge.merge_transpose_lemma]), and [deduce_of]/[mbr]/[deduce] are invariant when
   antecedent and table are renamed by the same renaming of X ([Equivariance.*_equivariant_x]).

   Guard slack: the main theorem needs only the guard conditions of the two parent inversions
   (as [merge_transpose] in Props/C11.v; they are implied by [merge_guards], the hypothesis of
   [merge_defined_wf]: [deduce_parent_order_guards]).  At eps = 0 no guard hypothesis is needed
   ([deduce_parent_order_exact]). *)
From Coq Require Import QArith Reals List Lra Permutation.
Import ListNotations.
From SL Require Import Model.Num Model.Vec Model.Mul Model.InstR Model.InstQ Facts.RBase
                       Facts.Inverse Facts.Merge Facts.Equivariance Facts.ParentOrder.
From SL Require Facts.Deduce Facts.Product.
Open Scope R_scope.

(* ------------------------------------------------ 1. the transposition is a renaming *)
Theorem transposition_is_renaming : forall (X : Type) (d : X) n0 n1 (l : list X),
  transposeL d n0 n1 l = perm d (tperm n0 n1) l.
Proof. exact @transposeL_perm. Qed.
Print Assumptions transposition_is_renaming.

Theorem tperm_is_renaming : forall n0 n1, is_perm (tperm n0 n1) (n0 * n1).
Proof. exact tperm_is_perm. Qed.
Print Assumptions tperm_is_renaming.

(* position (j, i) of the renaming holds the old position (i, j) *)
Theorem tperm_cell : forall n0 n1 i j, (i < n0)%nat -> (j < n1)%nat ->
  nth (j * n0 + i) (tperm n0 n1) 0%nat = (i * n1 + j)%nat.
Proof. exact ParentOrder.tperm_cell. Qed.
Print Assumptions tperm_cell.

(* the embeddings of real vectors / tables into the model commute with it *)
Theorem embed_transposed_vector : forall n0 n1 (l : list R), length l = (n0 * n1)%nat ->
  map Some (Product.transposeR n0 n1 l) = pv (tperm n0 n1) (map Some l).
Proof. exact map_Some_transposeR. Qed.
Print Assumptions embed_transposed_vector.

Theorem embed_transposed_table : forall n0 n1 (t : list (list R * R)), length t = (n0 * n1)%nat ->
  map embS (transposeL ([], 0) n0 n1 t) = pc (tperm n0 n1) (map embS t).
Proof. exact map_embS_transposeL. Qed.
Print Assumptions embed_transposed_table.

(* ---------------- 2. invariance under the joint transposition, ARBITRARY model operands *)
(* (entries may be NaN, nothing has to be normalised; only the shapes matter) *)
Theorem mbr_transpose : forall n0 n1 (ax : list RV) (conds : list (list RV * RV)),
  length ax = (n0 * n1)%nat -> length conds = (n0 * n1)%nat ->
  forall eps ny,
  mbr (B:=FldR) eps ny (transposeL None n0 n1 ax) (transposeL ([], None) n0 n1 conds)
  = mbr eps ny ax conds.
Proof. exact ParentOrder.mbr_transpose. Qed.
Print Assumptions mbr_transpose.

Theorem deduce_of_transpose : forall n0 n1 (bx ax : list RV) (ux : RV) (conds : list (list RV * RV)),
  length bx = (n0 * n1)%nat -> length ax = (n0 * n1)%nat -> length conds = (n0 * n1)%nat ->
  forall ay,
  deduce_of (B:=FldR) (transposeL None n0 n1 bx, ux, transposeL None n0 n1 ax)
            (transposeL ([], None) n0 n1 conds) ay
  = deduce_of (bx, ux, ax) conds ay.
Proof. exact ParentOrder.deduce_of_transpose. Qed.
Print Assumptions deduce_of_transpose.

Theorem deduce_transpose : forall n0 n1 (bx ax : list RV) (ux : RV) (conds : list (list RV * RV)),
  length bx = (n0 * n1)%nat -> length ax = (n0 * n1)%nat -> length conds = (n0 * n1)%nat ->
  forall eps ny,
  deduce (B:=FldR) eps ny (transposeL None n0 n1 bx, ux, transposeL None n0 n1 ax)
         (transposeL ([], None) n0 n1 conds)
  = deduce eps ny (bx, ux, ax) conds.
Proof. exact ParentOrder.deduce_transpose. Qed.
Print Assumptions deduce_transpose.

Theorem deduce_with_transpose : forall n0 n1 (bx ax : list RV) (ux : RV) (conds : list (list RV * RV)),
  length bx = (n0 * n1)%nat -> length ax = (n0 * n1)%nat -> length conds = (n0 * n1)%nat ->
  forall eps ny fb,
  deduce_with (B:=FldR) eps ny (transposeL None n0 n1 bx, ux, transposeL None n0 n1 ax)
              (transposeL ([], None) n0 n1 conds) fb
  = deduce_with eps ny (bx, ux, ax) conds fb.
Proof. exact ParentOrder.deduce_with_transpose. Qed.
Print Assumptions deduce_with_transpose.

(* the merged table has one row per joint value *)
Theorem merged_table_length : forall eps c1 c2 ax1 ax2 ay, 0 <= eps <= 1/8 ->
  wf_conds c1 (length ay) -> wf_conds c2 (length ay) ->
  pos_dist ax1 -> pos_dist ax2 -> pos_dist ay ->
  length ax1 = length c1 -> length ax2 = length c2 ->
  guard_clear eps (m_ay eps ax1 c1 ay) -> guard_clear eps (m_ay eps ax2 c2 ay) ->
  length (mergeR eps c1 c2 ax1 ax2 ay) = (length ax1 * length ax2)%nat.
Proof. exact mergeR_length. Qed.
Print Assumptions merged_table_length.

(* ------------------------------------------------------------------ 3. parent order *)
(* what "does not depend on the order" means for two (opinion, table) pairs *)
Theorem parent_order_statement_def : forall eps w12 w21 T12 T21,
  parent_order_statement eps w12 w21 T12 T21 <->
  (forall ay', deduce_of (B:=FldR) w21 T21 ay' = deduce_of w12 T12 ay') /\
  (forall eps' ny, mbr (B:=FldR) eps' ny (snd w21) T21 = mbr eps' ny (snd w12) T12) /\
  (forall eps' ny, deduce (B:=FldR) eps' ny w21 T21 = deduce eps' ny w12 T12) /\
  (forall eps' ny fb, deduce_with (B:=FldR) eps' ny w21 T21 fb = deduce_with eps' ny w12 T12 fb).
Proof. intros; reflexivity. Qed.
Print Assumptions parent_order_statement_def.

(* MAIN THEOREM, on the model functions only: both products (unlabelled, validated; the labelled
   ones return the same opinions) and both merges are defined, and deduction does not depend on
   the order of the parents. *)
Theorem deduce_parent_order : forall eps lab c1 c2 ax1 ax2 ay b1 u1 a1 b2 u2 a2,
  0 <= eps <= 1/8 ->
  wf_conds c1 (length ay) -> wf_conds c2 (length ay) ->
  pos_dist ax1 -> pos_dist ax2 -> pos_dist ay ->
  length ax1 = length c1 -> length ax2 = length c2 ->
  guard_clear eps (m_ay eps ax1 c1 ay) -> guard_clear eps (m_ay eps ax2 c2 ay) ->
  wf_opinion b1 u1 a1 -> wf_opinion b2 u2 a2 -> length b1 = length ax1 -> length b2 = length ax2 ->
  let W1 : opinion (B:=FldR) := (map Some b1, Some u1, map Some a1) in
  let W2 : opinion (B:=FldR) := (map Some b2, Some u2, map Some a2) in
  match product2 (B:=FldR) eps W1 W2, product2 (B:=FldR) eps W2 W1,
        merge_cond2 (B:=FldR) eps lab (map embS c1) (map embS c2) (map Some ax1) (map Some ax2) (map Some ay),
        merge_cond2 (B:=FldR) eps lab (map embS c2) (map embS c1) (map Some ax2) (map Some ax1) (map Some ay)
  with
  | Some w12, Some w21, Some T12, Some T21 =>
      product2_lab (B:=FldR) W1 W2 = w12 /\ product2_lab (B:=FldR) W2 W1 = w21 /\
      parent_order_statement eps w12 w21 T12 T21
  | _, _, _, _ => False
  end.
Proof. exact deduce_parent_order_lemma. Qed.
Print Assumptions deduce_parent_order.

(* the same under exactly the hypotheses of [merge_defined_wf] (Props/C11.v) *)
Theorem deduce_parent_order_guards : forall eps lab c1 c2 ax1 ax2 ay b1 u1 a1 b2 u2 a2,
  0 <= eps <= 1/8 ->
  wf_conds c1 (length ay) -> wf_conds c2 (length ay) ->
  pos_dist ax1 -> pos_dist ax2 -> pos_dist ay ->
  length ax1 = length c1 -> length ax2 = length c2 ->
  merge_guards eps c1 c2 ax1 ax2 ay ->
  wf_opinion b1 u1 a1 -> wf_opinion b2 u2 a2 -> length b1 = length ax1 -> length b2 = length ax2 ->
  let W1 : opinion (B:=FldR) := (map Some b1, Some u1, map Some a1) in
  let W2 : opinion (B:=FldR) := (map Some b2, Some u2, map Some a2) in
  match product2 (B:=FldR) eps W1 W2, product2 (B:=FldR) eps W2 W1,
        merge_cond2 (B:=FldR) eps lab (map embS c1) (map embS c2) (map Some ax1) (map Some ax2) (map Some ay),
        merge_cond2 (B:=FldR) eps lab (map embS c2) (map embS c1) (map Some ax2) (map Some ax1) (map Some ay)
  with
  | Some w12, Some w21, Some T12, Some T21 =>
      product2_lab (B:=FldR) W1 W2 = w12 /\ product2_lab (B:=FldR) W2 W1 = w21 /\
      parent_order_statement eps w12 w21 T12 T21
  | _, _, _, _ => False
  end.
Proof. exact ParentOrder.deduce_parent_order_guards. Qed.
Print Assumptions deduce_parent_order_guards.

(* exact guards (eps = 0): no guard hypothesis *)
Theorem deduce_parent_order_exact : forall lab c1 c2 ax1 ax2 ay b1 u1 a1 b2 u2 a2,
  wf_conds c1 (length ay) -> wf_conds c2 (length ay) ->
  pos_dist ax1 -> pos_dist ax2 -> pos_dist ay ->
  length ax1 = length c1 -> length ax2 = length c2 ->
  wf_opinion b1 u1 a1 -> wf_opinion b2 u2 a2 -> length b1 = length ax1 -> length b2 = length ax2 ->
  let W1 : opinion (B:=FldR) := (map Some b1, Some u1, map Some a1) in
  let W2 : opinion (B:=FldR) := (map Some b2, Some u2, map Some a2) in
  match product2 (B:=FldR) 0 W1 W2, product2 (B:=FldR) 0 W2 W1,
        merge_cond2 (B:=FldR) 0 lab (map embS c1) (map embS c2) (map Some ax1) (map Some ax2) (map Some ay),
        merge_cond2 (B:=FldR) 0 lab (map embS c2) (map embS c1) (map Some ax2) (map Some ax1) (map Some ay)
  with
  | Some w12, Some w21, Some T12, Some T21 =>
      product2_lab (B:=FldR) W1 W2 = w12 /\ product2_lab (B:=FldR) W2 W1 = w21 /\
      parent_order_statement 0 w12 w21 T12 T21
  | _, _, _, _ => False
  end.
Proof. exact ParentOrder.deduce_parent_order_exact. Qed.
Print Assumptions deduce_parent_order_exact.

(* Explicit form: every operand and result named by its real-valued counterpart.
   (b, u, a) = [Product.product2R] of the two parent opinions, the tables are [mergeR]; the exchanged
   operands are the renamed ones ([po] / [pc] with the renaming [tperm |X1| |X2|] of X1 x X2). *)
Theorem deduce_parent_order_explicit : forall eps, 0 <= eps <= 1/8 ->
  forall lab c1 c2 ax1 ax2 ay,
  wf_conds c1 (length ay) -> wf_conds c2 (length ay) ->
  pos_dist ax1 -> pos_dist ax2 -> pos_dist ay ->
  length ax1 = length c1 -> length ax2 = length c2 ->
  guard_clear eps (m_ay eps ax1 c1 ay) -> guard_clear eps (m_ay eps ax2 c2 ay) ->
  forall b1 a1 b2 a2 u1 u2,
  wf_opinion b1 u1 a1 -> wf_opinion b2 u2 a2 -> length b1 = length ax1 -> length b2 = length ax2 ->
  forall b a u, Product.product2R b1 u1 a1 b2 u2 a2 = (b, u, a) ->
  let n1 := length ax1 in let n2 := length ax2 in
  let W1 : opinion (B:=FldR) := (map Some b1, Some u1, map Some a1) in
  let W2 : opinion (B:=FldR) := (map Some b2, Some u2, map Some a2) in
  let w12 : opinion (B:=FldR) := (map Some b, Some u, map Some a) in
  let w21 : opinion (B:=FldR) :=
    (map Some (Product.transposeR n1 n2 b), Some u, map Some (Product.transposeR n1 n2 a)) in
  let T12 := map embS (mergeR eps c1 c2 ax1 ax2 ay) in
  let T21 := map embS (mergeR eps c2 c1 ax2 ax1 ay) in
  product2 (B:=FldR) eps W1 W2 = Some w12 /\ product2 (B:=FldR) eps W2 W1 = Some w21 /\
  product2_lab (B:=FldR) W1 W2 = w12 /\ product2_lab (B:=FldR) W2 W1 = w21 /\
  merge_cond2 (B:=FldR) eps lab (map embS c1) (map embS c2) (map Some ax1) (map Some ax2) (map Some ay)
    = Some T12 /\
  merge_cond2 (B:=FldR) eps lab (map embS c2) (map embS c1) (map Some ax2) (map Some ax1) (map Some ay)
    = Some T21 /\
  is_perm (tperm n1 n2) (n1 * n2) /\ w21 = po (tperm n1 n2) w12 /\ T21 = pc (tperm n1 n2) T12 /\
  (forall ay', deduce_of (B:=FldR) w21 T21 ay' = deduce_of w12 T12 ay') /\
  (forall eps' ny, mbr (B:=FldR) eps' ny (map Some (Product.transposeR n1 n2 a)) T21
                   = mbr eps' ny (map Some a) T12) /\
  (forall eps' ny, deduce (B:=FldR) eps' ny w21 T21 = deduce eps' ny w12 T12) /\
  (forall eps' ny fb, deduce_with (B:=FldR) eps' ny w21 T21 fb = deduce_with eps' ny w12 T12 fb).
Proof. exact ParentOrder.deduce_parent_order_explicit. Qed.
Print Assumptions deduce_parent_order_explicit.

(* Definedness: under all three guard conditions ([merge_guards], the hypothesis of
   [merge_defined_wf]) the merged table consists of well-formed conditionals, hence the deduction
   is defined for EVERY probability distribution ay' on Y (C04), and both parent orders return the
   same well-formed opinion ([Deduce.dedB], [Deduce.dedU], ay'). *)
Theorem deduce_parent_order_defined : forall eps lab c1 c2 ax1 ax2 ay b1 u1 a1 b2 u2 a2 b u a ay',
  0 <= eps <= 1/8 ->
  wf_conds c1 (length ay) -> wf_conds c2 (length ay) ->
  pos_dist ax1 -> pos_dist ax2 -> pos_dist ay ->
  length ax1 = length c1 -> length ax2 = length c2 ->
  merge_guards eps c1 c2 ax1 ax2 ay ->
  wf_opinion b1 u1 a1 -> wf_opinion b2 u2 a2 -> length b1 = length ax1 -> length b2 = length ax2 ->
  Product.product2R b1 u1 a1 b2 u2 a2 = (b, u, a) ->
  wf_dist ay' -> length ay' = length ay ->
  let n1 := length ax1 in let n2 := length ax2 in
  let M := mergeR eps c1 c2 ax1 ax2 ay in
  let bY := Deduce.dedB b u a M ay' in
  let uY := Deduce.dedU b a M ay' in
  merge_cond2 (B:=FldR) eps lab (map embS c1) (map embS c2) (map Some ax1) (map Some ax2) (map Some ay)
    = Some (map embS M) /\
  merge_cond2 (B:=FldR) eps lab (map embS c2) (map embS c1) (map Some ax2) (map Some ax1) (map Some ay)
    = Some (map embS (mergeR eps c2 c1 ax2 ax1 ay)) /\
  deduce_of (B:=FldR) (map Some b, Some u, map Some a) (map embS M) (map Some ay')
    = (map Some bY, Some uY, map Some ay') /\
  deduce_of (B:=FldR) (map Some (Product.transposeR n1 n2 b), Some u, map Some (Product.transposeR n1 n2 a))
            (map embS (mergeR eps c2 c1 ax2 ax1 ay)) (map Some ay')
    = (map Some bY, Some uY, map Some ay') /\
  wf_opinion bY uY ay'.
Proof. exact deduce_parent_order_defined_lemma. Qed.
Print Assumptions deduce_parent_order_defined.

(* The property run on the executable rational instance of the same model, |X1| = 2, |X2| = 3,
   |Y| = 3 (a non-square joint domain): both products and both merges are defined, the exchanged
   product opinion and table really differ from the original ones (entries 1..4 of the belief are
   rearranged; the vacuous row moves from index 1 to index 2), the two deductions give the same
   opinion, with uncertainty 153305319155488369497/280935314068876321504 (about 0.546). *)
Theorem parent_order_example_Q :
  let SQ := fun q : Q => (Some q : @V FldQ) in
  let qc1 : list (@simplex FldQ) :=
    [([SQ (5#16)%Q; SQ 0%Q; SQ (11#16)%Q], SQ 0%Q); ([SQ (6#16)%Q; SQ (6#16)%Q; SQ (4#16)%Q], SQ 0%Q)] in
  let qc2 : list (@simplex FldQ) :=
    [([SQ (5#16)%Q; SQ (5#16)%Q; SQ (3#16)%Q], SQ (3#16)%Q); ([SQ (3#16)%Q; SQ (13#16)%Q; SQ 0%Q], SQ 0%Q);
     ([SQ (4#16)%Q; SQ (4#16)%Q; SQ (4#16)%Q], SQ (4#16)%Q)] in
  let qa1 := [SQ (9#16)%Q; SQ (7#16)%Q] in
  let qa2 := [SQ (4#16)%Q; SQ (6#16)%Q; SQ (6#16)%Q] in
  let qay := [SQ (7#16)%Q; SQ (5#16)%Q; SQ (4#16)%Q] in
  let qW1 : @opinion FldQ := ([SQ (1#2)%Q; SQ (1#4)%Q], SQ (1#4)%Q, [SQ (1#2)%Q; SQ (1#2)%Q]) in
  let qW2 : @opinion FldQ :=
    ([SQ (1#4)%Q; SQ (1#4)%Q; SQ (1#4)%Q], SQ (1#4)%Q, [SQ (1#4)%Q; SQ (1#4)%Q; SQ (1#2)%Q]) in
  exists w12 w21 T12 T21 r,
    @product2 FldQ 0%Q qW1 qW2 = Some w12 /\ @product2 FldQ 0%Q qW2 qW1 = Some w21 /\
    @merge_cond2 FldQ 0%Q false qc1 qc2 qa1 qa2 qay = Some T12 /\
    @merge_cond2 FldQ 0%Q false qc2 qc1 qa2 qa1 qay = Some T21 /\
    fst (fst w12) = [SQ (5#32)%Q; SQ (5#32)%Q; SQ (5#32)%Q; SQ (5#64)%Q; SQ (5#64)%Q; SQ (1#16)%Q] /\
    fst (fst w21) = [SQ (5#32)%Q; SQ (5#64)%Q; SQ (5#32)%Q; SQ (5#64)%Q; SQ (5#32)%Q; SQ (1#16)%Q] /\
    nth 1 T12 ([], None) = ([SQ 0%Q; SQ 0%Q; SQ 0%Q], SQ 1%Q) /\
    nth 2 T21 ([], None) = ([SQ 0%Q; SQ 0%Q; SQ 0%Q], SQ 1%Q) /\
    @deduce FldQ 0%Q 3 w12 T12 = Some r /\ @deduce FldQ 0%Q 3 w21 T21 = Some r /\
    snd (fst r) = SQ (153305319155488369497 # 280935314068876321504)%Q.
Proof. exact ex_parent_order_Q. Qed.
Print Assumptions parent_order_example_Q.

(* non-vacuity: the real counterparts of the operands of [parent_order_example_Q] satisfy every
   hypothesis of [deduce_parent_order_guards] / [deduce_parent_order_defined] (eps = 0), and the
   transposition of the 2 x 3 joint domain is a non-identity renaming. *)
Example c11b_nonvacuous :
  wf_conds ex_c1 (length ex_ay) /\ wf_conds ex3_c2 (length ex_ay) /\
  pos_dist ex_ax1 /\ pos_dist ex3_ax2 /\ pos_dist ex_ay /\
  length ex_ax1 = length ex_c1 /\ length ex3_ax2 = length ex3_c2 /\
  merge_guards 0 ex_c1 ex3_c2 ex_ax1 ex3_ax2 ex_ay /\
  wf_opinion [1/2; 1/4] (1/4) [1/2; 1/2] /\ wf_opinion [1/4; 1/4; 1/4] (1/4) [1/4; 1/4; 1/2] /\
  length [1/2; 1/4] = length ex_ax1 /\ length [1/4; 1/4; 1/4] = length ex3_ax2 /\
  (tperm 2 3 = [0; 3; 1; 4; 2; 5])%nat /\ is_perm (tperm 2 3) 6.
Proof.
  destruct ex_parent_order_operands as (H1 & H2 & H3 & H4 & H5 & H6 & H7 & H8 & H9 & H10 & H11 & H12).
  repeat (split; [assumption|]). exact ex_tperm.
Qed.
